#!/usr/bin/env python3
"""tools/seed_prompts.py <suffix>: write /tmp/seedwt/PROMPT_<pid>.md for a new round of independent seeding agents.
Each prompt holds ONLY the property text, the path of the agent's own scratch worktree (/tmp/seedwt/<pid><suffix>, create it with
`git -C /repo worktree add --detach /tmp/seedwt/<pid><suffix> HEAD`) and the one-line list of mechanisms already used (from the
tables of DESIGN.md 0.6) - nothing about what the checks can detect.  Collect with tools/collect_seed.sh <pid> <suffix> <round>."""
import json, os, re, sys
suffix = sys.argv[1] if len(sys.argv) > 1 else "k"
here = os.path.dirname(os.path.dirname(os.path.abspath(__file__)))
design = open(os.path.join(here, "DESIGN.md")).read().split("\n")
os.makedirs("/tmp/seedwt", exist_ok=True)
for l in open(os.path.join(here, "properties.jsonl")):
    p = json.loads(l)
    pid = p["id"]
    used = "\n".join("- " + r.split("|")[2].strip() for r in design if re.match(r"^\| [^|]*%s_[0-9]" % pid, r))
    wt = "/tmp/seedwt/%s%s" % (pid, suffix)
    txt = f"""# Task: plant a subtle, realistic defect in pmorissette/bt that breaks one stated property

You work ONLY inside the scratch git worktree `{wt}` (a checkout of the Python backtesting library `bt`).
Do not read or write anything under /verif or /repo. Use `/venv/bin/python` (pandas 3, numpy 2 installed). In this worktree `bt` runs as pure Python
(run things with `cd {wt} && PYTHONPATH={wt} /venv/bin/python ...`). The test-suite is `cd {wt} && /venv/bin/python -m pytest -q -p no:cacheprovider tests` (157 tests, ~30 s); all pass on the unchanged worktree.

## The property ({pid}): {p['title']}

{p['statement']}

Code anchors given with the property: {json.dumps(p.get('anchors', {}).get('mechanism', []))}

## What to produce

A change to the library source (bt/core.py, bt/algos.py and/or bt/backtest.py) such that
1. the code still imports and ALL 157 existing tests still pass with the change (run them; do not edit the tests);
2. the property above is genuinely broken for some inputs (the library now records / returns wrong results, not merely a different error message);
3. it looks like something a maintainer could plausibly write or merge (a refactor, a "performance" cache, a fast path, a fallback, a tolerance, a pandas idiom, a reordered statement, an off-by-one in a window, a guard on the wrong flag...), NOT a blatant sabotage;
4. it needs something specific to manifest - a particular multi-step sequence of operations, an unusual but legitimate input, a rarely combined pair of features, a particular date alignment, two cooperating sites that each look fine alone - and is NOT exposed at once by ordinary use (an ordinary two-asset monthly-rebalanced backtest should still give the same numbers as before).

Mechanisms already used in earlier rounds for this property (choose a DIFFERENT site and a different kind of mechanism; first split the statement into its clauses and aim at a clause or a code path these did not touch):
{used}

## Deliverables (write them into the root of `{wt}`)

* `patch.diff` - output of `git diff` for the library change only (must apply with `git apply` / `patch -p1` to a clean checkout of HEAD).
* `demo_{pid}.py` - a small self-contained program (imports bt from PYTHONPATH, builds its own data with fixed numbers, no randomness unless seeded) that checks the PROPERTY AS STATED on a concrete scenario (not an implementation detail), prints what it found, and exits 0 when the property holds / exits 1 when it is violated. It must exit 0 on the unchanged worktree and 1 with your change. Verify both yourself.
* `NOTES_{pid}.md` - which clause you targeted, the change, why the tests do not notice, exactly what is needed for it to manifest, and the output of your verification runs.

Leave the worktree with your change applied and the three files present (untracked). Keep the final answer short.
"""
    open("/tmp/seedwt/PROMPT_%s.md" % pid, "w").write(txt)
print("prompts written to /tmp/seedwt/PROMPT_<pid>.md")
