#!/bin/bash
# tools/verify_seed.sh <id-dir>: confirm a seeded change in a scratch copy of /repo's HEAD:
#   demo passes without it, whole test-suite passes with it, demo fails with it.
id=$(basename $1); dir=$(cd $1 && pwd)
S=$(mktemp -d /tmp/seedverify.XXXX)
git -C /repo archive HEAD | tar -x -C $S
cd $S
demo=$(basename $(ls $dir/demo_*.py | head -1))
cp $dir/$demo .
PYTHONPATH=$S /venv/bin/python $demo > out_clean.txt 2>&1; rc_clean=$?
if ! git apply --check $dir/patch.diff 2>/dev/null && ! patch -p1 --dry-run < $dir/patch.diff >/dev/null 2>&1; then echo "$id: PATCH-DOES-NOT-APPLY"; rm -rf $S; exit 1; fi
patch -p1 -s < $dir/patch.diff
tests=$(/venv/bin/python -m pytest -q -p no:cacheprovider tests 2>&1 | tail -1)
PYTHONPATH=$S /venv/bin/python $demo > out_mut.txt 2>&1; rc_mut=$?
echo "$id: demo clean rc=$rc_clean, tests with patch: $tests, demo mutated rc=$rc_mut"
cd /; rm -rf $S
