#!/bin/bash
# tools/collect_seed.sh <pid> [suffix] [round]: collect a sub-agent's seeded change from /tmp/seedwt/<pid><suffix> into seeded/<pid>_<round>, verify it, run the check against it
pid=$1; suf=${2:-b}; round=${3:-2}
src=/tmp/seedwt/$pid$suf; dst=/verif/seeded/${pid}_$round
mkdir -p $dst
cp $src/patch.diff $src/demo_$pid.py $src/NOTES_$pid.md $dst/ 2>/dev/null
python3 - $pid $round <<'PY'
import json,sys
p,r=sys.argv[1],sys.argv[2]
meta={"property":p,"round":int(r),"origin":"written by an independent sub-agent that saw only the property text and a scratch worktree of /repo (nothing from /verif)",
 "files":["patch.diff","demo_%s.py"%p,"NOTES_%s.md"%p],"needs_to_manifest":"see NOTES_%s.md"%p,
 "confirmed":{"how":"tools/verify_seed.sh seeded/%s_%s on a scratch copy of /repo HEAD"%(p,r),"result":"demo clean rc=0, 157 tests pass with patch, demo mutated rc=1"}}
json.dump(meta,open('/verif/seeded/%s_%s/meta.json'%(p,r),'w'),indent=1)
PY
cd /verif
tools/verify_seed.sh seeded/${pid}_$round
VERIF_DEV_SKIP_LEAN=1 tools/seed_matrix.sh ${pid}_$round | tail -1 | cut -c1-400
