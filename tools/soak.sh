#!/bin/bash
# tools/soak.sh <first seed> <last seed> [tier]: every claimed check on the unchanged tree for a range of seeds; prints only non-zero exits
cd "$(dirname "$0")/.."
tier=${3:-quick}
(cd lean && lake build Bt btdriver >/dev/null 2>&1)
export VERIF_EVIDENCE_DIR=$(mktemp -d /tmp/soakev.XXXX)
ids=$(python3 -c "import json; print(' '.join(c['property_id'] for c in json.load(open('MANIFEST.json'))['checks']))")
for seed in $(seq $1 $2); do
  for id in $ids; do
    ( out=$(VERIF_SEED=$seed ./check $id --tier $tier 2>&1); rc=$?; if [ $rc -ne 0 ]; then echo "FAIL seed=$seed $id rc=$rc"; echo "$out" | grep -v '^KNOWN' | tail -4 | cut -c1-400; else echo "ok seed=$seed $id $(echo "$out" | tail -1 | grep -o '[0-9.]*s -> exit 0')"; fi ) &
    while [ $(jobs -r | wc -l) -ge 8 ]; do sleep 1; done
  done
done
wait
rm -rf $VERIF_EVIDENCE_DIR
