import re,glob,collections,sys
names=collections.defaultdict(list)
for f in glob.glob('/verif/lean/Bt/**/*.lean',recursive=True):
    txt=open(f).read()
    txt=re.sub(r"/-.*?-/","",txt,flags=re.S)
    ns=[]
    for line in txt.split('\n'):
        m=re.match(r'\s*namespace\s+(\S+)',line)
        if m: ns.append(m.group(1)); continue
        m=re.match(r'\s*end\s+(\S+)\s*$',line)
        if m and ns and ns[-1]==m.group(1): ns.pop(); continue
        m=re.match(r'\s*(?:@\[[^\]]*\]\s*)*(?:noncomputable\s+)?(?:partial\s+)?(?:theorem|lemma|def|abbrev|structure|inductive|class)\s+([A-Za-z_][\w\.\']*)',line)
        if m and 'private' not in line:
            names['.'.join(ns+[m.group(1)])].append(f.replace('/verif/lean/',''))
for k,v in names.items():
    if len(set(v))>1: print(k, sorted(set(v)))
