#!/bin/bash
# tools/run_all.sh [tier]: run every claimed check on the unchanged tree (regenerates the committed evidence); prints one line per check
cd /verif
tier=${1:-quick}
ids=$(python3 -c "import json; print(' '.join(c['property_id'] for c in json.load(open('MANIFEST.json'))['checks']))")
for id in $ids; do
  ( out=$(./check $id --tier $tier 2>&1); rc=$?; echo "$id rc=$rc $(echo "$out" | grep -c '^KNOWN-FINDING') known, $(echo "$out" | grep -c '^VIOLATION') violations :: $(echo "$out" | tail -1 | cut -c1-160)" ) &
  while [ $(jobs -r | wc -l) -ge 6 ]; do sleep 1; done
done
wait
