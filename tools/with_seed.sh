#!/bin/bash
# tools/with_seed.sh <seed-id> <command...>: run a command against a scratch copy of /repo HEAD with seeded/<id>/patch.diff applied
id=$1; shift
S=$(mktemp -d /tmp/seedrun.XXXX)
git -C /repo archive HEAD | tar -x -C $S
(cd $S && patch -p1 -s < /verif/seeded/$id/patch.diff) || { echo "patch failed"; rm -rf $S; exit 3; }
VERIF_EVIDENCE_DIR=$S/evidence BT_REPO=$S "$@"; rc=$?
rm -rf $S
exit $rc
