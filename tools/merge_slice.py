"""tools/merge_slice.py <workdir> <pid> [base]: merge an agent's vertical slice from its clone into /verif"""
import importlib.util
import json
import os
import re
import shutil
import subprocess
import sys

wd, pid = sys.argv[1], sys.argv[2]
base = sys.argv[3] if len(sys.argv) > 3 else None
V = "/verif"
SKIP = {"MANIFEST.json", "harness/mkmanifest.py", "known_findings.json", "lean/Bt.lean", "lean/Main.lean"}
if base is None:
    base = subprocess.check_output(["git", "-C", wd, "merge-base", "HEAD", "origin/main"]).decode().strip()
files = subprocess.check_output(["git", "-C", wd, "diff", "--name-only", base, "HEAD"]).decode().split()
for f in files:
    if f in SKIP or f.startswith("evidence/"):
        continue
    src = os.path.join(wd, f)
    if not os.path.exists(src):
        continue
    if os.path.exists(os.path.join(V, f)):
        a = open(src, "rb").read()
        b = open(os.path.join(V, f), "rb").read()
        if a != b:
            print("CONFLICT (kept /verif version, theirs saved as .theirs):", f)
            shutil.copy(src, os.path.join(V, f + ".theirs"))
        continue
    os.makedirs(os.path.dirname(os.path.join(V, f)), exist_ok=True)
    shutil.copy(src, os.path.join(V, f))
    print("copied", f)
# Bt.lean imports
mine = open(V + "/lean/Bt.lean").read()
for line in open(wd + "/lean/Bt.lean"):
    if line.startswith("import ") and line not in mine:
        mine += line
        print("import +", line.strip())
open(V + "/lean/Bt.lean", "w").write(mine)
# Main.lean: imports and dispatch lines
tm = open(wd + "/lean/Main.lean").read().split("\n")
mm = open(V + "/lean/Main.lean").read()
for line in tm:
    if line.startswith("import ") and line not in mm:
        mm = mm.replace("import Bt.Driver.Engine\n", "import Bt.Driver.Engine\n" + line + "\n")
        print("Main import +", line)
    if re.match(r'\s*\| "\w+" :: _ => handle', line) and line.strip() not in mm:
        mm = mm.replace('  | _ => "bad unknown-request"', line + '\n  | _ => "bad unknown-request"')
        print("Main dispatch +", line.strip())
open(V + "/lean/Main.lean", "w").write(mm)
# mkmanifest CLAIMED
spec = importlib.util.spec_from_file_location("theirs", wd + "/harness/mkmanifest.py")
m = importlib.util.module_from_spec(spec)
spec.loader.exec_module(m)
if pid in m.CLAIMED:
    txt = open(V + "/harness/mkmanifest.py").read()
    if '    "%s": (' % pid not in txt:
        entry = '    "%s": (%s,\n            %s),\n' % (pid, json.dumps(m.CLAIMED[pid][0]), json.dumps(m.CLAIMED[pid][1]))
        txt = txt.replace("}\n# pid -> reason it is not claimed (yet)", entry + "}\n# pid -> reason it is not claimed (yet)")
        open(V + "/harness/mkmanifest.py", "w").write(txt)
        print("CLAIMED +", pid)
# known findings
kf = json.load(open(V + "/known_findings.json"))
keys = {(k["property"], k["key"]) for k in kf}
for k in json.load(open(wd + "/known_findings.json")):
    if k.get("property") == pid and (k["property"], k["key"]) not in keys:
        kf.append(k)
        print("known finding +", k["key"])
json.dump(kf, open(V + "/known_findings.json", "w"), indent=1)
