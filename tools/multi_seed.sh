#!/bin/bash
# tools/multi_seed.sh "<seeds>" [tier]: every claimed check on the unchanged tree under several VERIF_SEEDs (evidence goes to a scratch dir)
cd /verif
seeds=${1:-"0 1 2 3 4 5"}; tier=${2:-quick}
ids=$(python3 -c "import json; print(' '.join(c['property_id'] for c in json.load(open('MANIFEST.json'))['checks']))")
for sd in $seeds; do for id in $ids; do
  ( out=$(VERIF_SEED=$sd VERIF_EVIDENCE_DIR=/tmp/ev_multi ./check $id --tier $tier 2>&1); rc=$?; [ $rc -ne 0 ] && echo "ALARM seed=$sd $id rc=$rc :: $(echo "$out" | grep -A1 '^VIOLATION\|^CHECK-ERROR\|^LEAN-GATE' | head -4 | tr '\n' ' ' | cut -c1-400)" || echo "ok seed=$sd $id" ) &
  while [ $(jobs -r | wc -l) -ge 4 ]; do sleep 1; done
done; done; wait
