#!/bin/bash
# tools/seed_matrix.sh [ids...]: run each seeded change against its own property's quick check (scratch copy of /repo + patch); one line each
cd /verif
ids=${@:-$(ls seeded)}
for id in $ids; do
  pid=${id%%_*}
  [ -f harness/props/$pid.py ] || { echo "$id: no check yet"; continue; }
  ( out=$(tools/with_seed.sh $id ./check $pid --tier quick 2>&1); rc=$?
    echo "$id rc=$rc :: $(echo "$out" | grep '^VIOLATION' | head -2 | tr '\n' ' ') :: $(echo "$out" | grep -A1 '^VIOLATION' | grep -v '^VIOLATION' | head -1 | cut -c1-200)" ) &
  while [ $(jobs -r | wc -l) -ge 5 ]; do sleep 1; done
done
wait
