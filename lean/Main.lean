import Bt.Driver.Engine
import Bt.Driver.Wiring
import Bt.Driver.Risk
import Bt.Driver.Report
import Bt.Driver.Weigh
import Bt.Driver.Select
import Bt.Driver.Stack
import Bt.Driver.Sched
import Bt.Driver.Program
import Bt.Driver.Blotter
/- The driver: one request per line on stdin, one answer per line on stdout. -/
open Bt.Driver

def dispatch (line : String) : String :=
  let l := line.trimAscii.toString
  match l.splitOn " " with
  | "step" :: _ => handleStep (l.drop 5).toString
  | "wholerunx" :: _ => handleWholeRunX (l.drop 10).toString
  | "wholeruns" :: _ => handleWholeRunS (l.drop 10).toString
  | "wholerun" :: _ => handleWholeRun (l.drop 9).toString
  | "paperseq" :: _ => handlePaperSeq (l.drop 9).toString
  | "session" :: _ => handleSession (l.drop 8).toString
  | "sched" :: _ => handleSched (l.drop 6).toString
  | "stack" :: _ => handleStack (l.drop 6).toString
  | "select" :: _ => handleSelect (l.drop 7).toString
  | "weigh" :: _ => handleWeigh (l.drop 6).toString
  | "report" :: _ => handleReport (l.drop 7).toString
  | "risk" :: _ => handleRisk (l.drop 5).toString
  | "wiring" :: _ => handleWiring (l.drop 7).toString
  | "blotter" :: _ => handleBlotter (l.drop 8).toString
  | _ => "bad unknown-request"

partial def loop (h : IO.FS.Stream) (out : IO.FS.Stream) : IO Unit := do
  let line ← h.getLine
  if line.isEmpty then return ()
  out.putStrLn (dispatch line)
  out.flush
  loop h out

def main : IO Unit := do
  loop (← IO.getStdin) (← IO.getStdout)
