import Bt.Num
import Bt.Engine.State
import Bt.Engine.Sec
import Bt.Engine.Strat
import Bt.Engine.Ops
