import Bt.Num
import Bt.Engine.State
import Bt.Engine.Sec
import Bt.Engine.Strat
import Bt.Engine.Ops
import Bt.Driver.Tok
import Bt.Driver.Engine
import Bt.Props.C01
