import Bt.Algos.Program
import Bt.Algos.ProgramX
import Bt.Algos.ProgramS
import Bt.Driver.ProgramR
import Bt.Algos.Sched
import Bt.Driver.Engine
import Bt.Driver.Select
/- `wholerun`: a complete (possibly nested) `Backtest.run()` of a program tree, executed by the model from the real
   post-`setup` trees; the answer is the final tree of the backtest followed by those of all shadow copies (preorder). -/
namespace Bt.Driver
open Bt Bt.Tok Bt.Prog

def pIntP : P Int := do
  let t ← next
  match t.toInt? with
  | some n => pure n
  | none => throw s!"expected int, got {t}"

def pStamp : P Cal.Stamp := do
  let year ← pIntP; let month ← pIntP; let day ← pIntP; let tod ← pIntP
  pure { year, month, day, tod }

def pPeriodKind : P Sched.PeriodKind := do
  match (← nat) with
  | 0 => pure .daily | 1 => pure .weekly | 2 => pure .monthly | 3 => pure .quarterly | 4 => pure .yearly
  | n => throw s!"unknown period kind {n}"

def pSel : P Sel := do
  match (← next) with
  | "A" => do let nd ← bool; let neg ← bool; pure (.all nd neg)
  | "T" => do let idx ← list nat; let nd ← bool; let neg ← bool; pure (.these idx nd neg)
  | t => throw s!"unknown selector {t}"

def pWgh : P (Wgh Float) := do
  match (← next) with
  | "E" => pure .equally
  | "S" => do
    let ws ← list (do let i ← nat; let x ← float; pure (i, x))
    pure (.specified ws)
  | t => throw s!"unknown weigher {t}"

/-- the scheduler's answers on every row of the index (an ill-formed index gives `false`, as a raise would stop the run;
    the generator feeds strictly increasing indices) -/
def gateOf (k : Sched.PeriodKind) (f : Sched.Flags) (idx : List Cal.Stamp) : List Bool :=
  idx.map fun t => match Sched.runPeriod k f idx (some t) with
    | .ok b => b
    | .error _ => false

/-- counting / once schedulers as state machines over the calls `run()` receives: one call per row from `firstRow` on
    (row 1 - the first real date - for a backtest's own root and for every shadow copy: on row 0 nobody's algos run) -/
def gateCounting (answers : List Cal.Stamp → List Bool) (idx : List Cal.Stamp) (firstRow : Nat) : List Bool :=
  List.replicate (min firstRow idx.length) false ++ answers (idx.drop firstRow)

/-- scheduler spec -> gate: `0..4 f1 f2 f3` calendar schedulers; `5 firstRow` RunOnce; `6 n offset firstRow` RunEveryNPeriods;
    `7 days firstRow` RunAfterDays -/
def pGate (idx : List Cal.Stamp) : P (List Bool) := do
  let k ← nat
  if k ≤ 4 then
    let kind : Sched.PeriodKind := match k with
      | 0 => .daily | 1 => .weekly | 2 => .monthly | 3 => .quarterly | _ => .yearly
    let f1 ← bool; let f2 ← bool; let f3 ← bool
    pure (gateOf kind ⟨f1, f2, f3⟩ idx)
  else if k == 5 then
    let fr ← nat
    pure (gateCounting (fun rows => Sched.trace Sched.runOnceStep false (rows.map fun t => some t.ns)) idx fr)
  else if k == 6 then
    let n ← nat; let off ← nat; let fr ← nat
    pure (gateCounting (fun rows => Sched.trace Sched.everyNStep (Sched.everyNInit n off) (rows.map fun t => some t.ns)) idx fr)
  else if k == 7 then
    let days ← nat; let fr ← nat
    pure (gateCounting (fun rows => Sched.trace Sched.runAfterDaysStep (days : Int) (rows.map fun t => some t.ns)) idx fr)
  else throw s!"unknown scheduler kind {k}"

partial def pProgTree (idx : List Cal.Stamp) : P (ProgTree Float) := do
  let k ← pPeriodKind
  let f1 ← bool; let f2 ← bool; let f3 ← bool
  let ucols ← list nat
  let sel ← pSel
  let wgh ← pWgh
  let kids ← list (do
    match (← next) with
    | "N" => pure none
    | _ => some <$> pProgTree idx)
  pure (.node { gate := gateOf k ⟨f1, f2, f3⟩ idx, ucols, sel, wgh } kids)

partial def pSim (idx : List Cal.Stamp) : P (Sim Float) := do
  let w ← pWorld
  let t ← pProgTree idx
  let papers ← list (do let path ← list nat; let s ← pSim idx; pure (path, s))
  pure (.mk w t papers)

partial def simWorlds : Sim Float → List (World Float)
  | .mk w _ papers => w :: papers.flatMap fun (_, s) => simWorlds s

def handleWholeRun (line : String) : String :=
  let p : P (Except Err (Sim Float)) := do
    let cfg ← pCfg
    let capital ← float
    let dates ← list nat
    let idx ← list pStamp
    let s ← pSim idx
    pure (simRun cfg capital dates s)
  match Tok.run p line with
  | .error e => "bad " ++ e
  | .ok (.error e) => "err " ++ e.toString
  | .ok (.ok s) =>
    let ws := simWorlds s
    "ok " ++ toString ws.length ++ " " ++ " ".intercalate (ws.flatMap prWorld)

/-! ### extended programs (`wholerunx`) -/

def pNSpec : P (Select.NSpec Float) := do
  match (← next) with
  | "I" => do let k ← nat; pure (.int k)
  | "R" => do let x ← float; pure (.real x)
  | t => throw s!"unknown n spec {t}"

def pSelStep : P (SelStep Float) := do
  match (← next) with
  | "A" => do let nd ← bool; let neg ← bool; pure (.all nd neg)
  | "T" => do let idx ← list nat; let nd ← bool; let neg ← bool; pure (.these idx nd neg)
  | "H" => do let lo ← list nat; let mc ← nat; let nd ← bool; let neg ← bool; pure (.hasData lo mc nd neg)
  | "M" => do
    let win ← list (opt (do let a ← nat; let b ← nat; pure (a, b)))
    let n ← pNSpec; let asc ← bool; let aon ← bool
    pure (.momentum win n asc aon)
  | "W" => do
    -- SelectWhere: signal columns, per row of the index the signal row (N: date absent; cells N|0|1), include_no_data, include_negative
    let scols ← list nat
    let rows ← list (opt (list (opt bool)))
    let nd ← bool; let neg ← bool
    pure (.where_ scols rows nd neg)
  | "N" => do
    -- SetStat + SelectN: stat columns, per row of the index the stat row at now - lag (N: absent), n, ascending, all_or_none, filter_selected
    let scols ← list nat
    let rows ← list (opt (list (opt float)))
    let n ← pNSpec; let asc ← bool; let aon ← bool; let fs ← bool
    pure (.statN scols rows n asc aon fs)
  | "Q" => do let ifNone ← bool; pure (.require ifNone)
  | "X" => do let ok ← list nat; pure (.regex ok)
  | "Y" => do
    let kids ← list (do let k ← nat; let ty ← Sel.pTy; pure (k, ty))
    let incl ← list Sel.pTy; let excl ← list Sel.pTy
    pure (.types kids incl excl)
  | t => throw s!"unknown selection step {t}"

/-- a post-processing step: `C s` ScaleWeights, `W l` LimitWeights, `D order glob? per` LimitDeltas, `O n` RebalanceOverTime (last),
    `K` CloseDead -/
def pWStep : P (WStep Float) := do
  match (← next) with
  | "C" => do let s ← float; pure (.scale s)
  | "W" => do let l ← float; pure (.limitW l)
  | "D" => do
    let order ← list nat
    let glob ← opt float
    let per ← list (do let i ← nat; let x ← float; pure (i, x))
    pure (.limitD order glob per)
  | "O" => do let n ← float; pure (.overTime n)
  | "K" => pure .closeDead
  | t => throw s!"unknown post step {t}"

/-- the weigher of an extended stack: `E` | `S table` | `G rows` = WeighTarget(frame), one entry per row of the index
    (`N`: the date is not in the frame's index, otherwise the row's non-missing weights) -/
def pWghX : P (Wgh Float × Option (List (Option (List (Nat × Float))))) := do
  let i ← get
  let toks ← read
  match toks[i]? with
  | some "G" =>
    set (i + 1)
    let rows ← list (opt (list (do let i ← nat; let x ← float; pure (i, x))))
    pure (.equally, some rows)
  | _ => do let w ← pWgh; pure (w, none)

/-- the extended stack after its tag: flow, gate, universe, selection steps, weigher, post steps, cash -/
def pProgX (idx : List Cal.Stamp) : P (Option Float × ProgX Float) := do
  let flow ← opt float
  let gate ← pGate idx
  let ucols ← list nat
  let sels ← list pSelStep
  let (wgh, target) ← pWghX
  let post ← list pWStep
  let cash ← opt float
  pure (flow, { gate, ucols, sels, wgh, post, cash, target })

/-- one strategy's stack (everything of a node up to its children), the tag already read:
    `F` fixed-income, `T` WeighTarget, otherwise (`X`) the extended stack -/
def pNodeFn (cfg : Cfg Float) (idx : List Cal.Stamp) (tag : String) : P (List Nat → RunFn Float) := do
  if tag == "B" then   -- blotter-driven node (`Bt/Driver/ProgramR.lean`)
    return progRunR cfg (← pProgR)
  if tag == "F" then
    -- fixed-income node: gate, specified weights, notional series
    let k ← pPeriodKind
    let f1 ← bool; let f2 ← bool; let f3 ← bool
    let ws ← list (do let i ← nat; let x ← float; pure (i, x))
    let notional ← list (opt float)
    let p : ProgFI Float := { gate := gateOf k ⟨f1, f2, f3⟩ idx, ws, notional }
    return progRunFI cfg p
  if tag == "T" then
    -- WeighTarget node: gate, per-row target weights
    let flow ← opt float
    let gate ← pGate idx
    let rows ← list (opt (list (do let i ← nat; let x ← float; pure (i, x))))
    let p : ProgT Float := { gate, rows }
    match flow with
    | none => return progRunT cfg p
    | some a => return withFlow a (progRunT cfg p)
  let (flow, p) ← pProgX idx
  match flow with
  | none => pure (progRunX cfg p)
  | some a => pure (withFlow a (progRunX cfg p))

partial def pGTree (cfg : Cfg Float) (idx : List Cal.Stamp) : P (GTree Float) := do
  let tag ← next
  let f ← pNodeFn cfg idx tag
  let kids ← list (do
    match (← next) with
    | "N" => pure none
    | _ => some <$> pGTree cfg idx)
  pure (.node f kids)

partial def pSimG (cfg : Cfg Float) (idx : List Cal.Stamp) : P (SimG Float) := do
  let w ← pWorld
  let t ← pGTree cfg idx
  let papers ← list (do let path ← list nat; let s ← pSimG cfg idx; pure (path, s))
  pure (.mk w t papers)

partial def simWorldsG : SimG Float → List (World Float)
  | .mk w _ papers => w :: papers.flatMap fun (_, s) => simWorldsG s

def handleWholeRunX (line : String) : String :=
  let p : P (Except Err (SimG Float)) := do
    let cfg ← pCfg
    let capital ← float
    let dates ← list nat
    let idx ← list pStamp
    let s ← pSimG cfg idx
    pure (simRunG cfg capital dates s)
  match Tok.run p line with
  | .error e => "bad " ++ e
  | .ok (.error e) => "err " ++ e.toString
  | .ok (.ok s) =>
    let ws := simWorldsG s
    "ok " ++ toString ws.length ++ " " ++ " ".intercalate (ws.flatMap prWorld)

/-! ### programs with memory (`wholeruns`): tag `R n` = the extended stack ending in `run_always(RebalanceOverTime(n))` -/

partial def pGTreeS (cfg : Cfg Float) (idx : List Cal.Stamp) : P (GTreeS Float) := do
  let tag ← next
  let f : List Nat → RunFnS Float ← (do
    if tag == "R" then
      let n ← float
      let (flow, p) ← pProgX idx
      match flow with
      | none => pure (progRunXS cfg p n)
      | some a => pure (withFlowS a (progRunXS cfg p n))
    else
      liftS <$> pNodeFn cfg idx tag)
  let kids ← list (do
    match (← next) with
    | "N" => pure none
    | _ => some <$> pGTreeS cfg idx)
  pure (.node f none kids)

partial def pSimGS (cfg : Cfg Float) (idx : List Cal.Stamp) : P (SimGS Float) := do
  let w ← pWorld
  let t ← pGTreeS cfg idx
  let papers ← list (do let path ← list nat; let s ← pSimGS cfg idx; pure (path, s))
  pure (.mk w t papers)

partial def simWorldsGS : SimGS Float → List (World Float)
  | .mk w _ papers => w :: papers.flatMap fun (_, s) => simWorldsGS s

def handleWholeRunS (line : String) : String :=
  let p : P (Except Err (SimGS Float)) := do
    let cfg ← pCfg
    let capital ← float
    let dates ← list nat
    let idx ← list pStamp
    let s ← pSimGS cfg idx
    pure (simRunGS cfg capital dates s)
  match Tok.run p line with
  | .error e => "bad " ++ e
  | .ok (.error e) => "err " ++ e.toString
  | .ok (.ok s) =>
    let ws := simWorldsGS s
    "ok " ++ toString ws.length ++ " " ++ " ".intercalate (ws.flatMap prWorld)

end Bt.Driver
