import Bt.Algos.Weigh
import Bt.Driver.Tok
/- `weigh` requests: the weighting algos at `Float` (keys are naturals, dates are day numbers). -/
namespace Bt.Driver
open Bt Bt.Tok Bt.Weigh

namespace WeighIO

def int : P Int := do
  let t ← next
  match t.toInt? with
  | some n => pure n
  | none => throw s!"expected int, got {t}"

def pDict : P (Dict Nat Float) := list (do let k ← nat; let v ← float; pure (k, v))
def pOptDict : P (Dict Nat (Option Float)) := list (do let k ← nat; let v ← opt float; pure (k, v))
def pTable : P (Table Nat Float) := do
  let cols ← list nat
  let rows ← list (do let d ← int; let cells ← list (opt float); pure (d, cells))
  pure { cols, rows }
def pMatrix : P (List (List Float)) := list (list float)

def prDict (d : Dict Nat Float) : List String := pList (fun p => pNat p.1 ++ pFloat p.2) d
def prOptDict (d : Dict Nat (Option Float)) : List String := pList (fun p => pNat p.1 ++ pOpt pFloat p.2) d
def prMatrix (m : List (List Float)) : List String := pList (pList pFloat) m

def methodOf : Nat → CovMethod
  | 0 => .standard | 1 => .ledoitWolf | _ => .other

def lwErrName : LWErr → String
  | .invalidLimit => "InvalidLimit" | .sumNotOne => "SumNotOne" | .fuel => "Fuel"
def wErrName : WErr → String
  | .ledoitWolfRaises => "LedoitWolfRaises" | .notImplemented => "NotImplemented"
  | .targetRowMissing => "TargetRowMissing"

def ok (l : List String) : String := "ok " ++ " ".intercalate l

def pWeigh : P String := do
  let op ← next
  match op with
  | "equal" => do
    let sel ← list nat
    pure (ok (prDict (weighEqually sel)))
  | "specified" => do
    let ws ← pDict
    let a : WeighSpecified Nat Float := { weights := ws }
    let r1 := a.call
    let r2 := r1.1.call
    pure (ok (prDict r1.2 ++ prDict r2.2))
  | "scale" => do
    let s ← float; let ws ← pDict
    pure (ok (prDict (scaleWeights s ws)))
  | "target" => do
    let f ← pTable; let now ← int
    match weighTarget f now with
    | none => pure (ok ["0"])
    | some d => pure (ok ("1" :: prDict d))
  | "ldelta" => do
    let mode ← nat
    let g ← float
    let ld ← pDict
    let cur ← pDict; let tw ← pDict
    let lim : Nat → Option Float := if mode == 0 then fun _ => some g else dictGet ld
    pure (ok (prDict (limitDeltas lim cur tw)))
  | "lweights" => do
    let limit ← float; let ws ← pDict
    match limitWeights limit ws with
    | .done r => pure ("done " ++ " ".intercalate (prDict r))
    | .nan r => pure ("nan " ++ " ".intercalate (prOptDict r))
    | .raised e => pure ("raised " ++ lwErrName e)
  | "random" => do
    let sel ← list nat; let low ← float; let high ← float; let total ← float
    let us ← list float; let perm ← list nat
    pure (ok (prDict (weighRandomly sel low high total us perm)))
  | "randspec" => do
    let tol ← float; let sel ← list nat; let low ← float; let high ← float; let total ← float
    let out ← pDict
    pure (ok (pBool (randomlySpec tol sel low high total out)))
  | "invvol" => do
    let t ← pTable; let now ← int; let lag ← int; let lb ← int; let sel ← list nat
    pure (ok (prDict (weighInvVol t now lag lb sel)))
  | "returns" => do
    let t ← pTable; let now ← int; let lag ← int; let lb ← int; let sel ← list nat
    pure (ok (prMatrix (returnsArg t now lag lb sel)))
  | "kernel" => do
    let sel ← list nat; let out ← list (opt float)
    pure (ok (prDict (weighKernel sel out)))
  | "ercspec" => do
    let tol ← float; let c ← pMatrix; let b ← list float; let w ← list float
    pure (ok (pBool (ercSpec tol c b w)))
  | "mvspec" => do
    let tol ← float; let lo ← float; let hi ← float; let rf ← float
    let mu ← list float; let c ← pMatrix; let w ← list float
    pure (ok (pBool (meanVarSpec tol lo hi rf mu c w)))
  | "tvol" => do
    let pk ← nat
    let p : TVParam Nat Float ← (if pk == 0 then do let t ← float; pure (TVParam.scalar t)
                                 else do let d ← pDict; pure (TVParam.perKey d))
    let m ← nat; let af ← float; let t ← pTable; let now ← int; let lag ← int; let lb ← int
    let ws ← pDict
    match targetVol p (methodOf m) af t now lag lb ws with
    | .error e => pure ("err " ++ wErrName e)
    | .ok (p', out) =>
      let pp := match p' with
        | .scalar x => "0" :: pFloat x
        | .perKey d => "1" :: prDict d
      pure (ok (pp ++ prOptDict out ++ pOpt pFloat (match ws with | [] => none | _ => tvVol af t now lag lb ws)))
  | "pte" => do
    let cap ← float; let af ← float; let m ← nat
    let t ← pTable; let now ← int; let lag ← int; let lb ← int
    let pos ← opt pDict; let value ← float; let tw ← pTable
    match pteRebalance cap af (methodOf m) t now lag lb pos value tw with
    | .error e => pure ("err " ++ wErrName e)
    | .ok b =>
      let vol : Option Float := match pos, frameRow tw now with
        | some ps, some row => pteVol af t now lag lb (curWeights t now value ps) (tw.cols.zip row)
        | _, _ => none
      pure (ok (pBool b ++ pOpt pFloat vol))
  | _ => throw s!"unknown weigh op {op}"

end WeighIO

def handleWeigh (line : String) : String :=
  match Tok.run WeighIO.pWeigh line with
  | .error e => "bad " ++ e
  | .ok s => s

end Bt.Driver
