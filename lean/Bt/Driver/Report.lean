import Bt.Algos.Report
import Bt.Algos.Renorm
import Bt.Driver.Engine
import Bt.Driver.Tok
/-
  `report` requests: the report functions of `Bt.Algos.Report` at `Float`, names as natural numbers
  (the harness numbers the distinct names in sorted string order, so `≤` on the numbers is pandas'
  `sort_index` order on the names).

    report hist   <fi> <boSet> <nodes: list (full short isSec mult)> <dates: list (list cell)>
                  cell = value notl pos outlay boPaid cash price?
      -> ok <dates: list (weights secWeights positions outlays herfindahl turnover? price?)> <transactions>
    report replay <boSet> <tol> <comm kind m k> <cash0> <secs: list (name mult)>
                  <txns: list (date name qty? price?)> <t0> <pxs: list (list (name price?))>
      -> ok <list (cash positions value|E err)>  |  err <error>
    report renorm <par> <v> <values: list float> <flows: list float>
      -> ok <list price?>      (RenormalizedFixedIncomeResult._price; a NaN row travels as N)
    report renorms <par> <vs: list float?> <values: list float> <flows: list float>
      -> ok <list price?>      (the normalising value given as a series on the backtest's dates)
-/
namespace Bt.Driver
open Bt.Tok Bt.Report

namespace Rep

def pNodeInfo : P (Report.Node Nat × Float) := do
  let full ← nat; let short ← nat; let isSec ← bool; let mult ← float
  pure ({ full, short, isSec }, mult)

def pCell : P (Cell Float) := do
  let value ← float; let notl ← float; let pos ← float; let outlay ← float; let boPaid ← float
  let cash ← float; let price ← opt float
  pure { value, notl, pos, outlay, boPaid, cash, price, mult := 1.0 }

/-- a date's rows with the nodes' (static) multipliers filled in -/
def mkSnap (nodes : List (Report.Node Nat × Float)) (cells : List (Cell Float)) : Snap Nat Float :=
  (nodes.zip cells).map (fun nc => (nc.1.1, { nc.2 with mult := nc.1.2 }))

def prKO (l : List (Nat × Option Float)) : List String :=
  pList (fun kx => pNat kx.1 ++ pOpt pFloat kx.2) l

def prK (l : List (Nat × Float)) : List String :=
  pList (fun kx => pNat kx.1 ++ pFloat kx.2) l

def prDay (d : DayReport Nat Float) : List String :=
  prKO d.weights ++ prKO d.secWeights ++ prK d.positions ++ prK d.outlays ++ pFloat d.herfindahl ++
  pOpt pFloat d.turnover ++ pOpt pFloat d.price

def prTxn (r : Txn Nat Float) : List String :=
  pNat r.date ++ pNat r.name ++ pFloat r.qty ++ pOpt pFloat r.price

def pHist : P String := do
  let fi ← bool; let boSet ← bool
  let nodes ← list pNodeInfo
  let rows ← list (list pCell)
  let run : Run Nat Float := { fi, boSet, dates := rows.map (mkSnap nodes) }
  pure ("ok " ++ " ".intercalate (pList prDay (reports run) ++ pList prTxn (transactions run)))

def pTxn : P (Txn Nat Float × Option Float) := do
  let date ← nat; let name ← nat; let q ← opt float; let price ← opt float
  pure ({ date, name, qty := q.getD 0.0, price }, q)

def pxOf (l : List (Nat × Option Float)) (k : Nat) : Option Float :=
  match l.find? (fun kp => kp.1 == k) with
  | some kp => kp.2
  | none => none

/-- rows of date `t` with the quantity as sent (a NaN quantity travels as `N`) -/
def rowsOfDate (t : Nat) (l : List (Txn Nat Float × Option Float)) : List (Nat × Option Float × Option Float) :=
  (l.filter (fun r => r.1.date == t)).map (fun r => (r.1.name, r.2, r.1.price))

def withValues (tol : Float) : List (RState Nat Float) → List (List (Nat × Option Float)) →
    List (RState Nat Float × Except RErr Float)
  | st :: r, px :: pr => (st, replayValue tol (pxOf px) st) :: withValues tol r pr
  | _, _ => []

def prState (sv : RState Nat Float × Except RErr Float) : List String :=
  pFloat sv.1.cash ++ pList (fun (s : RSec Nat Float) => pNat s.name ++ pFloat s.pos) sv.1.secs ++
  (match sv.2 with
   | .ok v => pFloat v
   | .error e => ["E", e.toString])

def pReplay : P String := do
  let boSet ← bool; let tol ← float
  let ck ← nat; let cm ← float; let ckk ← float
  let cash ← float
  let secs ← list (do let name ← nat; let mult ← float; pure ({ name, mult, pos := 0.0 } : RSec Nat Float))
  let txns ← list pTxn
  let t0 ← nat
  let pxs ← list (list (do let k ← nat; let p ← opt float; pure (k, p)))
  match replayRun boSet tol (commOf ck cm ckk) (fun t => rowsOfDate t txns) t0 { cash, secs } (pxs.map pxOf) with
  | .error e => pure ("err " ++ e.toString)
  | .ok l => pure ("ok " ++ " ".intercalate (pList prState (withValues tol l pxs)))

def pRenorm : P String := do
  let par ← float; let v ← float
  let values ← list float; let flows ← list float
  let out := Renorm.renormPricesS par (List.replicate values.length (some v)) values flows
  pure ("ok " ++ " ".intercalate (pList (pOpt pFloat) out))

def pRenormS : P String := do
  let par ← float
  let vs ← list (opt float)
  let values ← list float; let flows ← list float
  let out := Renorm.renormPricesS par vs values flows
  pure ("ok " ++ " ".intercalate (pList (pOpt pFloat) out))

def pReport : P String := do
  let kind ← next
  match kind with
  | "hist" => pHist
  | "replay" => pReplay
  | "renorm" => pRenorm
  | "renorms" => pRenormS
  | _ => throw s!"unknown report request {kind}"

end Rep

/-- `report <kind> …` -/
def handleReport (line : String) : String :=
  match Tok.run Rep.pReport line with
  | .error e => "bad " ++ e
  | .ok s => s

end Bt.Driver
