import Bt.Algos.Wiring
import Bt.Driver.Tok
/-
  `wiring` requests (property C19): a construction script, answered by the canonical description of the wired tree.

    wiring <spec> <n> <op>*      →  ok <node> <n> <member>*   |   err <index of the failing operation, 0 = construction> <kind>

  spec   ::= s <name> | S <kind> <name> <lazy> | T <fi> <name> L <n> <spec>* | T <fi> <name> D <n> (<key> <spec>)*
  kids   ::= L <n> <spec>* | D <n> (<key> <spec>)*
  path   ::= <n> <name>*
  op     ::= A <path> <name> <kids> | I <path> <bool> | C <path> <id> | U <n> <col>* | D <row> | X <path> <name>
           | P <path> <name> | B <bool> <N | id>
  kind   ::= 0 plain | 1 fixed income | 2 coupon | 3 hedge | 4 coupon hedge
  node   ::= S <name> <kind> <lazy> <int> <isTop> <root> <pricesSet> <now> <needupdate>
           | T <name> <fi> <int> <isTop> <root> <comm> <orig> <tickers> <stratKids> <n> <pool node>* <dataCols> <universe>
               <now> <paperTrade> <0 | 1 node> <n> <node>*
  root   ::= <levels up> | X (an object that is not an ancestor)
  member ::= <path joined with /> <full_name> <commission id | N>
-/
namespace Bt.Driver
open Bt.Wiring Bt.Tok

def pKind : P Kind := do
  let n ← nat
  pure (match n with | 0 => .plain | 1 => .fi | 2 => .coupon | 3 => .hedge | _ => .couponHedge)

def Kind.code : Kind → Nat
  | .plain => 0 | .fi => 1 | .coupon => 2 | .hedge => 3 | .couponHedge => 4

mutual
partial def pSpec : P Spec := do
  let t ← next
  match t with
  | "s" => Spec.str <$> next
  | "S" => do
    let k ← pKind; let n ← next; let l ← bool
    pure (.sec k n l)
  | "T" => do
    let fi ← bool; let n ← next
    let kids ← pKidsW
    pure (.strat fi n kids)
  | _ => throw s!"expected spec tag, got {t}"
partial def pKidsW : P (List Spec) := do
  let t ← next
  match t with
  | "L" => list pSpec
  | "D" => do
    let kv ← list (do let k ← next; let s ← pSpec; pure (k, s))
    pure (dictKids kv)
  | _ => throw s!"expected L or D, got {t}"
end

def pPathW : P Path := list next

def pOps : P (List Op) := do
  let t ← next
  match t with
  | "A" => do
    let p ← pPathW; let n ← next; let kids ← pKidsW
    pure [.attach p n kids]
  | "I" => do
    let p ← pPathW; let b ← bool
    pure [.useInt p b]
  | "C" => do
    let p ← pPathW; let c ← nat
    pure [.setComm p c]
  | "U" => do
    let cols ← list next
    pure [.setup cols]
  | "D" => do
    let i ← nat
    pure [.update i]
  | "X" => do
    let p ← pPathW; let n ← next
    pure [.touch p n]
  | "P" => do
    let p ← pPathW; let n ← next
    pure [.setupFromParent p n]
  | "B" => do
    let b ← bool; let c ← opt nat
    pure (backtestOps b c)
  | _ => throw s!"expected op tag, got {t}"

def prOptNat : Option Nat → List String
  | none => ["N"]
  | some n => [toString n]

def prRoot (depth rootUp : Nat) : List String := if rootUp ≤ depth then [toString rootUp] else ["X"]

def prSecW (depth : Nat) (s : SecW) : List String :=
  ["S", s.name, toString (Kind.code s.kind)] ++ pBool s.lazy ++ pBool s.integer ++ pBool s.isTop ++ prRoot depth s.rootUp
    ++ (match s.pricesSet with | none => ["N"] | some b => pBool b) ++ prOptNat s.now ++ pBool s.needupdate

def prCols : Option (List String) → List String
  | none => ["N"]
  | some l => pList (fun x => [x]) l

mutual
partial def prTree (depth : Nat) : Tree → List String
  | .sec s => prSecW depth s
  | .strat d ks p =>
    ["T", d.name] ++ pBool d.fi ++ pBool d.integer ++ pBool d.isTop ++ prRoot depth d.rootUp ++ prOptNat d.comm
      ++ pBool d.origPresent ++ pList (fun x => [x]) d.tickers ++ pList (fun x => [x]) d.stratKids
      ++ pList (prSecW 0) d.pool ++ prCols d.dataCols ++ prCols d.univ ++ prOptNat d.now ++ pBool d.paperTrade
      ++ (match p with | none => ["0"] | some t => "1" :: prTree 0 t)
      ++ [toString ks.length] ++ ks.flatMap (prTree (depth + 1))
end

def prInfo (i : Info) : List String := ["/".intercalate i.path, i.fullName] ++ prOptNat i.comm

/-- several operation tokens may expand to several operations (`B`); the reported index is that of the request's
    operation, so the expansion is run as a group -/
def runGroups (t : Tree) (k : Nat) : List (List Op) → Except (Nat × Err) Tree
  | [] => .ok t
  | g :: rest =>
    match runOps t k g with
    | .error (_, e) => .error (k, e)
    | .ok t' => runGroups t' (k + 1) rest

def pWiringReq : P (List String) := do
  let s ← pSpec
  let groups ← list pOps
  match build s with
  | .error e => pure ["err", "0", e.toString]
  | .ok t =>
    match runGroups t 1 groups with
    | .error (k, e) => pure ["err", toString k, e.toString]
    | .ok t' => pure (["ok"] ++ prTree 0 t' ++ pList prInfo (members t'))

def handleWiring (line : String) : String :=
  match Tok.run pWiringReq line with
  | .error e => "bad " ++ e
  | .ok toks => " ".intercalate toks

end Bt.Driver
