import Bt.Algos.Select
import Bt.Driver.Tok
/- `select` requests: the selection algos at `Float`, labels as natural numbers. -/
namespace Bt.Driver
open Bt.Tok Bt.Select

namespace Sel

def pInt : P Int := do
  let t ← next
  match t.toInt? with
  | some n => pure n
  | none => throw s!"expected int, got {t}"

def pTable : P (Table Nat Float) := do
  let cols ← list nat
  let rows ← list (list (opt float))
  pure { cols, rows }

def pPrior : P (Option (List Nat)) := opt (list nat)

def pStat : P (Option (List (Nat × Option Float))) :=
  opt (list (do let k ← nat; let x ← opt float; pure (k, x)))

def pNSpec : P (NSpec Float) := do
  let t ← next
  if t == "I" then NSpec.int <$> nat
  else if t == "R" then NSpec.real <$> float
  else throw s!"expected n spec, got {t}"

def pWin : P (Option (Nat × Nat)) := opt (do let a ← nat; let b ← nat; pure (a, b))

def tyOf : String → Option Ty
  | "Node" => some .node | "StrategyBase" => some .strategyBase | "SecurityBase" => some .securityBase
  | "Strategy" => some .strategy | "Security" => some .security | "FixedIncomeStrategy" => some .fiStrategy
  | "FixedIncomeSecurity" => some .fiSecurity | "CouponPayingSecurity" => some .couponSec
  | "HedgeSecurity" => some .hedgeSec | "CouponPayingHedgeSecurity" => some .couponHedgeSec
  | "NoneType" => some .noneType | _ => none

def pTy : P Ty := do
  let t ← next
  match tyOf t with
  | some x => pure x
  | none => throw s!"unknown class {t}"

def prStat (s : List (Nat × Option Float)) : List String :=
  pList (fun kx => pNat kx.1 ++ pOpt pFloat kx.2) s

def answer {β : Type} (f : β → List String) : Except SelErr β → String
  | .error e => "err " ++ e.toString
  | .ok b => "ok " ++ " ".intercalate (f b)

def pSelect : P String := do
  let kind ← next
  match kind with
  | "all" => do
    let t ← pTable; let now ← nat; let nd ← bool; let neg ← bool
    pure (answer (pList pNat) (selectAll t now nd neg))
  | "these" => do
    let t ← pTable; let now ← nat; let tk ← list nat; let nd ← bool; let neg ← bool
    pure (answer (pList pNat) (selectThese t now tk nd neg))
  | "hasdata" => do
    let t ← pTable; let now ← nat; let lo ← nat; let mc ← nat; let nd ← bool; let neg ← bool; let prior ← pPrior
    pure (answer (pList pNat) (selectHasData t now lo mc nd neg prior))
  | "n" => do
    let stat ← pStat; let prior ← pPrior; let n ← pNSpec; let asc ← bool; let aon ← bool; let fs ← bool
    let out ← opt (list nat)
    let rel : Except SelErr Bool := match out with
      | none => .ok true
      | some o => selectNOk stat prior n asc aon fs o
    pure (answer (fun (p : List Nat × Bool) => pList pNat p.1 ++ pBool p.2)
      (match selectN stat prior n asc aon fs, rel with
       | .error e, _ => .error e
       | .ok _, .error e => .error e
       | .ok l, .ok b => .ok (l, b)))
  | "tr" => do
    let t ← pTable; let now ← nat; let win ← pWin; let prior ← pPrior
    pure (answer (fun (r : Option (List (Nat × Option Float))) => match r with
      | none => ["F"]
      | some s => "S" :: prStat s) (statTotalReturn t now win prior))
  | "mom" => do
    let t ← pTable; let now ← nat; let win ← pWin; let prior ← pPrior; let n ← pNSpec
    let asc ← bool; let aon ← bool; let out ← opt (list nat)
    let r := selectMomentum t now win prior n asc aon
    let rel : Except SelErr Bool := match r, out with
      | .ok (some (st, _)), some o => selectNOk (some st) prior n asc aon false o
      | _, _ => .ok true
    pure (answer (fun (p : Option (List (Nat × Option Float) × List Nat) × Bool) => match p.1 with
      | none => ["F"]
      | some (st, sel) => "S" :: (prStat st ++ pList pNat sel ++ pBool p.2))
      (match r, rel with
       | .error e, _ => .error e
       | .ok _, .error e => .error e
       | .ok x, .ok b => .ok (x, b)))
  | "setstat" => do
    let scols ← list nat; let srows ← list (list (opt float)); let j ← opt nat
    pure (match setStat scols srows j with
      | none => "ok F"
      | some s => "ok S " ++ " ".intercalate (prStat s))
  | "where" => do
    let t ← pTable; let now ← nat; let scols ← list nat; let srow ← opt (list (opt bool))
    let nd ← bool; let neg ← bool; let prior ← pPrior
    pure (answer (pOpt (pList pNat)) (selectWhere t now scols srow nd neg prior))
  | "rand" => do
    let t ← pTable; let now ← nat; let n ← opt pInt; let nd ← bool; let neg ← bool; let prior ← pPrior
    let isIdx ← bool; let out ← list nat
    pure (answer (fun (p : List Nat × Bool) => pList pNat p.1 ++ pBool p.2)
      (match randomPool t now nd neg prior, selectRandomlyOk t now n nd neg prior isIdx out with
       | .error e, _ => .error e
       | .ok _, .error e => .error e
       | .ok pool, .ok b => .ok (pool, b)))
  | "regex" => do
    let hits ← list nat; let prior ← pPrior
    pure (answer (pList pNat) (selectRegex (fun k => decide (k ∈ hits)) prior))
  | "active" => do
    let rolled ← list nat; let closed ← list nat; let prior ← pPrior
    pure (answer (pList pNat) (selectActive rolled closed prior))
  | "types" => do
    let kids ← list (do let k ← nat; let ty ← pTy; pure (k, ty))
    let incl ← list pTy; let excl ← list pTy; let prior ← pPrior
    pure ("ok " ++ " ".intercalate (pList pNat (selectTypes kids incl excl prior)))
  | "resolve" => do
    let t ← pTable; let now ← nat; let ocols ← list nat; let orow ← opt (list (opt nat))
    let nd ← bool; let neg ← bool; let prior ← pPrior
    pure (answer (pList (pOpt pNat)) (resolveOnTheRun t now ocols orow nd neg prior))
  | _ => throw s!"unknown selector {kind}"

end Sel

/-- `select <kind> …` -/
def handleSelect (line : String) : String :=
  match Tok.run Sel.pSelect line with
  | .error e => "bad " ++ e
  | .ok s => s

end Bt.Driver
