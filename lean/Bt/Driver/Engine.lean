import Bt.Engine.Ops
import Bt.Algos.Rebalance
import Bt.Engine.Backtest
import Bt.Driver.Tok
/- Engine part of the driver: (de)serialisation of worlds and dispatch of `step` requests at `Float`. -/
namespace Bt.Driver
open Bt Bt.Tok

def commOf (kind : Nat) (m k : Float) : Float → Float → Float :=
  match kind with
  | 0 => fun _ _ => 0.0
  | 1 => fun _ _ => m
  | 2 => fun q _ => k * absA q
  | 3 => fun q p => k * absA q * p
  | 4 => fun q _ => let a := k * absA q; if m < a then a else m
  | _ => fun q p => let a := k * absA q * p; if m < a then a else m

def kindOf : Nat → SecKind
  | 0 => .plain | 1 => .fi | 2 => .coupon | 3 => .hedge | _ => .couponHedge
def kindNo : SecKind → Nat
  | .plain => 0 | .fi => 1 | .coupon => 2 | .hedge => 3 | .couponHedge => 4

def pSec : P (SecData Float) := do
  let name ← next; let kind ← nat; let fixedIncome ← bool; let integer ← bool; let bidofferSet ← bool
  let mult ← float; let now ← opt nat; let price ← opt float
  let value ← float; let notl ← float; let weight ← float; let position ← float; let lastPos ← float
  let outlayAcc ← float; let bidoffer ← opt float; let bidofferPaid ← float; let capital ← float
  let coupon ← float; let holdingCost ← float; let needupdate ← bool
  let prices ← list (opt float); let bidoffers ← list (opt float); let coupons ← list (opt float)
  let costLong ← opt (list (opt float)); let costShort ← opt (list (opt float))
  let rValue ← list float; let rPosition ← list float; let rNotl ← list float; let rOutlay ← list float
  let rBidofferPaid ← list float; let rCoupon ← list float; let rHolding ← list float
  pure { name, kind := kindOf kind, fixedIncome, integer, bidofferSet, mult, now, price, value, notl, weight,
         position, lastPos, outlayAcc, bidoffer, bidofferPaid, capital, coupon, holdingCost, needupdate,
         prices, bidoffers, coupons, costLong, costShort, rValue, rPosition, rNotl, rOutlay,
         rBidofferPaid, rCoupon, rHolding }

/-- strategy data plus the commission descriptor (kept for printing) -/
def pStrat : P (StratData Float) := do
  let name ← next; let fixedIncome ← bool; let bidofferSet ← bool; let paperTrade ← bool; let paperPx ← float
  let ck ← nat; let cm ← float; let ckk ← float
  let now ← opt nat; let capital ← float; let price ← float; let value ← float; let notl ← float
  let weight ← float; let netFlows ← float; let lastValue ← float; let lastNotl ← float
  let lastPrice ← float; let lastFee ← float; let bidofferPaid ← float; let bankrupt ← bool
  let rPrice ← list float; let rValue ← list float; let rNotl ← list float; let rCash ← list float
  let rFees ← list float; let rFlows ← list float; let rBidofferPaid ← list float
  pure { name, fixedIncome, bidofferSet, paperTrade, paperPx, comm := commOf ck cm ckk, now, capital, price,
         value, notl, weight, netFlows, lastValue, lastNotl, lastPrice, lastFee, bidofferPaid, bankrupt,
         rPrice, rValue, rNotl, rCash, rFees, rFlows, rBidofferPaid }

partial def pNode : P (Node Float) := do
  let t ← next
  if t == "S" then Node.sec <$> pSec
  else if t == "T" then do
    let sd ← pStrat
    let kids ← list pNode
    pure (.strat sd kids)
  else throw s!"expected node tag, got {t}"

def pWorld : P (World Float) := do
  let stale ← bool
  let root ← pNode
  pure { root, stale }

def prSec (s : SecData Float) : List String :=
  ["S", s.name] ++ pNat (kindNo s.kind) ++ pBool s.fixedIncome ++ pBool s.integer ++ pBool s.bidofferSet ++
  pFloat s.mult ++ pOpt pNat s.now ++ pOpt pFloat s.price ++ pFloat s.value ++ pFloat s.notl ++ pFloat s.weight ++
  pFloat s.position ++ pFloat s.lastPos ++ pFloat s.outlayAcc ++ pOpt pFloat s.bidoffer ++ pFloat s.bidofferPaid ++
  pFloat s.capital ++ pFloat s.coupon ++ pFloat s.holdingCost ++ pBool s.needupdate ++
  pList pFloat s.rValue ++ pList pFloat s.rPosition ++ pList pFloat s.rNotl ++ pList pFloat s.rOutlay ++
  pList pFloat s.rBidofferPaid ++ pList pFloat s.rCoupon ++ pList pFloat s.rHolding

def prStrat (d : StratData Float) : List String :=
  ["T", d.name] ++ pOpt pNat d.now ++ pFloat d.capital ++ pFloat d.price ++ pFloat d.value ++ pFloat d.notl ++
  pFloat d.weight ++ pFloat d.netFlows ++ pFloat d.lastValue ++ pFloat d.lastNotl ++ pFloat d.lastPrice ++
  pFloat d.lastFee ++ pFloat d.bidofferPaid ++ pBool d.bankrupt ++
  pList pFloat d.rPrice ++ pList pFloat d.rValue ++ pList pFloat d.rNotl ++ pList pFloat d.rCash ++
  pList pFloat d.rFees ++ pList pFloat d.rFlows ++ pList pFloat d.rBidofferPaid

partial def prNode : Node Float → List String
  | .sec s => prSec s
  | .strat d kids => prStrat d ++ [toString kids.length] ++ kids.flatMap prNode

def prWorld (w : World Float) : List String := pBool w.stale ++ prNode w.root

def pCfg : P (Cfg Float) := do
  let tol ← float; let par ← float; let atol ← float; let half ← float; let iterCap ← nat
  pure { tol, par, atol, half, one := 1.0, iterCap }

def getterOf : Nat → Getter
  | 0 => .stratRefreshing | 1 => .secLocal | 2 => .secSeries | 4 => .stratMembers | _ => .plain

/-- `step <cfg> <world> <op>` -/
def pStep : P (Except Err (World Float)) := do
  let cfg ← pCfg
  let w ← pWorld
  let op ← next
  match op with
  | "update" => do let d ← nat; pure (updRoot cfg d w)
  | "adjust" => do
    let path ← list nat; let a ← float; let u ← bool; let f ← bool
    pure (opAdjust w path a u f)
  | "allocate" => do
    let path ← list nat; let a ← float; let u ← bool
    pure (opAllocate cfg w path a u)
  | "transact" => do
    let path ← list nat; let q ← float; let u ← bool; let c ← opt float
    pure (opTransact cfg w path q u c)
  | "flatten" => do let path ← list nat; pure (opFlatten cfg w path)
  | "close" => do
    let path ← list nat; let c ← nat; let u ← bool
    pure (opClose cfg w path c u)
  | "rebalance" => do
    let path ← list nat; let wt ← float; let c ← nat; let b ← opt float; let u ← bool
    pure (opRebalance cfg w path wt c b u)
  | "rebal" => do
    let path ← list nat
    let targets ← list (do let i ← nat; let x ← float; pure (i, x))
    let cash ← opt float
    let notional ← opt float
    pure (algoRebalance cfg w path targets cash notional)
  | "read" => do
    let path ← list nat; let g ← nat
    pure (opRead cfg w path (getterOf g))
  | "btday" => do
    -- one pass of the loop body of `Backtest.run` / of the shadow copy's stepping: the strategy's algos are the
    -- real ones, so `run` is "what the real run() produced" (given), or absent when the real code did not call it
    let d ← nat; let ran ← bool
    let w2 ← if ran then some <$> pWorld else pure none
    let run : RunFn Float := fun _ _ => match w2 with | some x => pure x | none => throw Err.badPath
    pure (btDay cfg run d w)
  | "paperday" => do
    -- one step of a shadow copy (`paperDay`): on row 0 it is only updated, on any other row it gets the loop body;
    -- the model decides whether the algos run
    let d ← nat; let ran ← bool
    let w2 ← if ran then some <$> pWorld else pure none
    let run : RunFn Float := fun _ _ => match w2 with | some x => pure x | none => throw Err.badPath
    pure (paperDay cfg run d w)
  | _ => throw s!"unknown op {op}"

def handleStep (line : String) : String :=
  match Tok.run pStep line with
  | .error e => "bad " ++ e
  | .ok (.error e) => "err " ++ e.toString
  | .ok (.ok w) => "ok " ++ " ".intercalate (prWorld w)

/-- `paperseq <child clock> <update dates>` -> the dates on which the shadow copy is stepped -/
def handlePaperSeq (line : String) : String :=
  match Tok.run (do let now ← opt nat; let calls ← list nat; pure (now, calls)) line with
  | .error e => "bad " ++ e
  | .ok (now, calls) => "ok " ++ " ".intercalate (pList pNat (clockDates calls now))

/-- `session <ops>`: ops are `C` (construct) or `R i` (run backtest i); answer: the `has_run` flag of every backtest -/
def handleSession (line : String) : String :=
  let p : P (List (SessOp Float)) := list (do
    let t ← next
    if t == "C" then pure (SessOp.construct 0.0 []) else do let i ← nat; pure (SessOp.run i))
  match Tok.run p line with
  | .error e => "bad " ++ e
  | .ok ops =>
    let sd : StratData Float :=
      { name := "t", fixedIncome := false, bidofferSet := false, paperTrade := false, paperPx := 0.0, comm := fun _ _ => 0.0,
        now := none, capital := 0.0, price := 100.0, value := 0.0, notl := 0.0, weight := 0.0, netFlows := 0.0, lastValue := 0.0,
        lastNotl := 0.0, lastPrice := 100.0, lastFee := 0.0, bidofferPaid := 0.0, bankrupt := false,
        rPrice := [], rValue := [], rNotl := [], rCash := [], rFees := [], rFlows := [], rBidofferPaid := [] }
    let dummy : World Float := ⟨.strat sd [], false⟩
    let cfg : Cfg Float := default
    let s := (⟨dummy, []⟩ : Session Float).steps cfg (fun _ w => pure w) ops
    "ok " ++ " ".intercalate (pList pBool (s.bts.map (·.hasRun)))

end Bt.Driver
