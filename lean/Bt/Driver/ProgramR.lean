import Bt.Driver.Tok
import Bt.Algos.ProgramR
/- node tag `B` of `wholerunx` / `wholeruns`: a blotter-driven strategy (`ReplayTransactions` / `SimulateRFQTransactions`).
   After the tag: `<mult: N | float> <timeline: list nat> <rows: list (stamp:nat child:nat quantity:float price:float)>`.
   Time stamps travel as non-negative integers (nanoseconds since the epoch), rows in frame order. -/
namespace Bt.Driver
open Bt Bt.Tok Bt.Prog

def pProgR : P (ProgR Float) := do
  let mult ← opt float
  let tl ← list nat
  let rows ← list (do
    let s ← nat; let i ← nat; let q ← float; let px ← float
    pure ((Int.ofNat s, (i, q, px)) : Int × BRow Float))
  pure { timeline := tl.map Int.ofNat, rows, mult }

end Bt.Driver
