import Bt.Algos.Risk
import Bt.Driver.Tok
/- `risk` requests: UpdateRisk / HedgeRisks / ClosePositionsAfterDates / RollPositionsAfterDates /
   SelectActive and the lifecycle run at `Float` (names, measures and dates are naturals). -/
namespace Bt.Driver
open Bt Bt.Tok Bt.Risk

namespace RiskIO

abbrev F := Float

def pOF : P (Option F) := opt float
def pDictOF : P (Dict (Option F)) := list (do let k ← nat; let v ← pOF; pure (k, v))
def pDictF : P (Dict F) := list (do let k ← nat; let v ← float; pure (k, v))

def pAttrs : P (Attrs F) := do
  let risk ← opt pDictOF
  let risks ← opt (list (do let m ← nat; let col ← pDictOF; pure (m, col)))
  pure { risk, risks }

partial def pNode : P (Node F) := do
  let t ← next
  match t with
  | "S" => do
    let name ← nat; let now ← nat; let pos ← float; let mult ← float; let price ← pOF
    let attrs ← pAttrs
    pure (.sec { name, now, pos, mult, price, attrs })
  | "T" => do
    let name ← nat; let now ← nat; let fi ← bool
    let attrs ← pAttrs
    let kids ← list pNode
    pure (.strat { name, now, fi, attrs } kids)
  | _ => throw s!"expected node, got {t}"

def pFrame : P (Frame F) := do
  let cols ← list nat
  let rows ← list (do let d ← nat; let cells ← list pOF; pure (d, cells))
  pure { cols, rows }

def pFrames : P (Dict (Frame F)) := list (do let m ← nat; let f ← pFrame; pure (m, f))

def pEnv : P (Env F) := do
  let tol ← float; let lazy ← pDictF; let prices ← pDictOF
  pure { tol, lazy, prices }

def pPerm : P Perm := do
  let closed ← opt (list nat); let rolled ← opt (list nat)
  pure { closed, rolled }

def pDates : P (Dict (Option Nat)) := list (do let k ← nat; let d ← opt nat; pure (k, d))

def pRoll : P (Dict (RollRow F)) := list (do
  let k ← nat; let date ← opt nat; let target ← nat; let factor ← pOF
  pure (k, { date, target, factor }))

def pMatrix : P (List (List (Option F))) := list (list pOF)

def pStep : P (Step F) := do
  let now ← nat; let cands ← list nat
  let trades ← list (do let n ← nat; let q ← float; pure (n, q))
  pure { now, cands, trades }

-- printers
def prOF : Option F → List String := pOpt pFloat
def prDictOF (d : Dict (Option F)) : List String := pList (fun p => pNat p.1 ++ prOF p.2) d

def prAttrs (a : Attrs F) : List String :=
  pOpt prDictOF a.risk ++ pOpt (pList fun p => pNat p.1 ++ prDictOF p.2) a.risks

partial def prNode : Node F → List String
  | .sec s => ["S"] ++ pNat s.name ++ pNat s.now ++ pFloat s.pos ++ pFloat s.mult ++ prOF s.price ++ prAttrs s.attrs
  | .strat d kids => ["T"] ++ pNat d.name ++ pNat d.now ++ pBool d.fi ++ prAttrs d.attrs ++ pList prNode kids

def prPerm (p : Perm) : List String := pOpt (pList pNat) p.closed ++ pOpt (pList pNat) p.rolled
def prMatrix (m : List (List (Option F))) : List String := pList (pList prOF) m

def join (l : List String) : String := " ".intercalate l
def err (e : RErr) : String := "err " ++ e.toString

def pRisk : P String := do
  let op ← next
  match op with
  | "update" => do
    let tol ← float; let m ← nat; let history ← nat; let frames ← pFrames; let rootNow ← nat
    let t ← pNode
    match updateRisk tol m history frames rootNow t with
    | .error e => pure (err e)
    | .ok t' => pure ("ok " ++ join (prNode t'))
  | "hedge" => do
    let env ← pEnv; let ms ← list nat; let frames ← pFrames; let throwNan ← bool
    let extra ← opt pNode; let selected ← opt (list nat); let inv ← opt pMatrix
    let t ← pNode
    let inp := match hedgeInputs env ms frames extra selected t with
      | .error e => "inp " ++ err e
      | .ok (_, r, j) => "inp ok " ++ join (pList prOF r ++ prMatrix j)
    let res := match hedgeRisks env ms frames throwNan extra selected inv t with
      | .error e => "res " ++ err e
      | .ok t' => "res ok " ++ join (prNode t')
    pure (inp ++ " " ++ res)
  | "close" => do
    let tol ← float; let fi ← bool; let dates ← pDates; let now ← nat
    let kids ← list pNode; let perm ← pPerm
    match closePositionsAfterDates tol fi dates now kids perm with
    | .error e => pure (err e)
    | .ok (kids', perm') => pure ("ok " ++ join (pList prNode kids' ++ prPerm perm'))
  | "roll" => do
    let env ← pEnv; let fi ← bool; let roll ← pRoll; let now ← nat
    let kids ← list pNode; let perm ← pPerm
    match rollPositionsAfterDates env fi roll now kids perm with
    | .error e => pure (err e)
    | .ok (kids', perm', txs) => pure ("ok " ++ join (pList prNode kids' ++ prPerm perm' ++ prDictOF txs))
  | "select" => do
    let perm ← pPerm; let sel ← opt (list nat)
    match selectActive perm sel with
    | .error e => pure (err e)
    | .ok l => pure ("ok " ++ join (pList pNat l))
  | "run" => do
    let env ← pEnv; let fi ← bool; let dates ← pDates; let roll ← pRoll
    let kids ← list pNode; let perm ← pPerm; let steps ← list pStep
    match lifecycleRun env fi dates roll { kids, perm } steps with
    | .error e => pure (err e)
    | .ok (st, log) =>
      pure ("ok " ++ join (pList prNode st.kids ++ prPerm st.perm ++
        pList (fun (e : List Nat × Dict (Option F)) => pList pNat e.1 ++ prDictOF e.2) log))
  | _ => throw s!"unknown risk op {op}"

end RiskIO

def handleRisk (line : String) : String :=
  match Tok.run RiskIO.pRisk line with
  | .error e => "bad " ++ e
  | .ok s => s

end Bt.Driver
