import Bt.Algos.Sched
import Bt.Driver.Tok
/-
  `sched` requests (C12).  Sub-kinds (first token after `sched`):

  * `cal <list wire-stamp>`                       -> `ok <n> <#mismatch> <first mismatching position | N>`
  * `period <kind> <first> <eop> <last> <list wire-stamp> <list query>`
                                                  -> `ok <#calendar mismatches> <n> <0|1|E>…`
  * `once <list now>` / `afterdays <days> <list now>` / `everyn <n> <offset> <list now>`
                                                  -> `ok <n> <0|1>…`
  * `ondate <list int> <list now>`                -> `ok <n> <0|1>…`
  * `afterdate <date> <list now>`                 -> `ok <n> <0|1|E>…`

  wire-stamp = `year month day tod value quarter week isoyear weekday` — the civil fields and the derived
  quantities exactly as pandas reports them; the model recomputes the derived ones from (year, month, day, tod)
  and counts a calendar mismatch when any differs or the civil fields are not a valid date.
  query = `N` | `I <row>` (the label of that row) | `S <wire-stamp>`;  now = `N` | int (nanoseconds).
-/
namespace Bt.Driver
open Bt Bt.Tok Bt.Cal Bt.Sched

def pInt : P Int := do
  let t ← next
  match t.toInt? with
  | some n => pure n
  | none => throw s!"expected int, got {t}"

structure WireStamp where
  s : Stamp
  value : Int
  quarter : Int
  week : Int
  isoYear : Int
  weekday : Int

def pWireStamp : P WireStamp := do
  let year ← pInt; let month ← pInt; let day ← pInt; let tod ← pInt
  let value ← pInt; let quarter ← pInt; let week ← pInt; let isoYear ← pInt; let weekday ← pInt
  pure { s := { year, month, day, tod }, value, quarter, week, isoYear, weekday }

/-- the Lean calendar reproduces every derived field pandas reported -/
def WireStamp.agrees (w : WireStamp) : Bool :=
  w.s.valid && w.s.ns == w.value && w.s.quarter == w.quarter && w.s.week == w.week &&
  w.s.isoYear == w.isoYear && w.s.weekday == w.weekday

def kindOfNat : Nat → Except String PeriodKind
  | 0 => .ok .daily | 1 => .ok .weekly | 2 => .ok .monthly | 3 => .ok .quarterly | 4 => .ok .yearly
  | n => .error s!"unknown period kind {n}"

inductive Query where
  | none
  | row (i : Nat)
  | stamp (w : WireStamp)

def pQuery : P Query := do
  let t ← next
  match t with
  | "N" => pure .none
  | "I" => do let i ← nat; pure (.row i)
  | "S" => do let w ← pWireStamp; pure (.stamp w)
  | _ => throw s!"expected query tag, got {t}"

def prRes : Except SchedErr Bool → String
  | .ok true => "1"
  | .ok false => "0"
  | .error _ => "E"

def prBools (l : List Bool) : String :=
  " ".intercalate (toString l.length :: l.map (fun b => if b then "1" else "0"))

def pSched : P String := do
  let sub ← next
  match sub with
  | "cal" => do
    let ws ← list pWireStamp
    let bad := (ws.zipIdx.filter (fun p => !p.1.agrees)).map (·.2)
    pure s!"ok {ws.length} {bad.length} {match bad.head? with | some i => toString i | none => "N"}"
  | "period" => do
    let kn ← nat
    let k ← match kindOfNat kn with
      | .ok k => pure k
      | .error e => throw e
    let first ← bool; let eop ← bool; let last ← bool
    let ws ← list pWireStamp
    let qs ← list pQuery
    let idx := ws.map (·.s)
    let f : Flags := { runOnFirstDate := first, runOnEndOfPeriod := eop, runOnLastDate := last }
    let calBad := (ws.filter (fun w => !w.agrees)).length +
      (qs.filter (fun q => match q with | .stamp w => !w.agrees | _ => false)).length
    let res ← qs.mapM (fun q => match q with
      | .none => pure (runPeriod k f idx Option.none)
      | .row i => match idx[i]? with
        | some t => pure (runPeriod k f idx (some t))
        | Option.none => throw s!"row {i} out of range"
      | .stamp w => pure (runPeriod k f idx (some w.s)))
    pure (" ".intercalate (["ok", toString calBad, toString res.length] ++ res.map prRes))
  | "once" => do
    let calls ← list (opt pInt)
    pure ("ok " ++ prBools (trace runOnceStep false calls))
  | "afterdays" => do
    let days ← pInt
    let calls ← list (opt pInt)
    pure ("ok " ++ prBools (trace runAfterDaysStep days calls))
  | "everyn" => do
    let n ← pInt; let off ← pInt
    let calls ← list (opt pInt)
    pure ("ok " ++ prBools (trace everyNStep (everyNInit n off) calls))
  | "ondate" => do
    let dates ← list pInt
    let calls ← list (opt pInt)
    pure ("ok " ++ prBools (calls.map (runOnDate dates)))
  | "afterdate" => do
    let date ← pInt
    let calls ← list (opt pInt)
    pure (" ".intercalate (["ok", toString calls.length] ++ calls.map (fun c => prRes (runAfterDate date c))))
  | _ => throw s!"unknown sched request {sub}"

def handleSched (line : String) : String :=
  match Tok.run pSched line with
  | .error e => "bad " ++ e
  | .ok s => s

end Bt.Driver
