/-
  Token-stream parser / printer used by the driver (one request per line,
  space-separated tokens; floats travel as the decimal value of their 64-bit
  pattern, NaN / missing as `N`).
-/
namespace Bt.Tok

abbrev P := StateT Nat (ExceptT String (ReaderM (Array String)))

def next : P String := do
  let i ← get
  let toks ← read
  match toks[i]? with
  | some t => set (i + 1); pure t
  | none => throw "unexpected end of line"

def nat : P Nat := do
  let t ← next
  match t.toNat? with
  | some n => pure n
  | none => throw s!"expected nat, got {t}"

def bool : P Bool := do
  let t ← next
  if t == "1" then pure true else if t == "0" then pure false else throw s!"expected bool, got {t}"

def float : P Float := do
  let n ← nat
  pure (Float.ofBits n.toUInt64)

def opt {β : Type} (p : P β) : P (Option β) := do
  let i ← get
  let toks ← read
  match toks[i]? with
  | some "N" => set (i + 1); pure none
  | _ => some <$> p

def list {β : Type} (p : P β) : P (List β) := do
  let n ← nat
  let mut acc : Array β := #[]
  for _ in [0:n] do
    acc := acc.push (← p)
  pure acc.toList

def run {β : Type} (p : P β) (line : String) : Except String β :=
  let toks := (line.splitOn " ").filter (· ≠ "") |>.toArray
  match (p.run 0).run.run toks with
  | .ok (b, _) => .ok b
  | .error e => .error e

-- printers (token lists)
def pNat (n : Nat) : List String := [toString n]
def pBool (b : Bool) : List String := [if b then "1" else "0"]
def pFloat (x : Float) : List String := [toString x.toBits.toNat]
def pOpt {β : Type} (f : β → List String) : Option β → List String
  | none => ["N"]
  | some b => f b
def pList {β : Type} (f : β → List String) (l : List β) : List String :=
  toString l.length :: l.flatMap f

end Bt.Tok
