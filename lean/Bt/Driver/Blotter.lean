import Bt.Driver.Tok
import Bt.Algos.Blotter
/- `blotter <timeline: list nat> <stamps: list nat>`: for every position of the timeline, the positions (in the frame) of the rows the
   call at that date picks.  Time stamps travel as non-negative integers (nanoseconds since the epoch). -/
namespace Bt.Driver
open Bt.Tok Bt.Blotter

def pBlotter : P String := do
  let tl ← list nat
  let stamps ← list nat
  let tlI : List Int := tl.map Int.ofNat
  let stI : List Int := stamps.map Int.ofNat
  let out := (List.range tl.length).flatMap fun i => pList pNat (selectIdx tlI i stI)
  pure ("ok " ++ " ".intercalate out)

def handleBlotter (line : String) : String :=
  match run pBlotter line with
  | .ok s => s
  | .error e => "bad " ++ e

end Bt.Driver
