import Bt.Algos.Stack
import Bt.Driver.Tok
/-
  `stack` requests (property C13), model instantiated at `Float`.

    stack call <prog> <name> <kids> <temp> <perm>   →  ok <bool> <temp> <perm> <log> | err <kind> <temp> <perm> <log>
    stack run <n> <node>                           →  ok <node'> <log>              | err <kind> <log>

  val   ::= N | I <int> | F <bits> | D <np> <n> (<name> <bits>)*
  dict  ::= <n> (<key> <val>)*
  ra    ::= 0 (absent) | 1 (True) | 2 (False)
  prog  ::= M <ra> <id> <n> <bool>* <dflt> <dict> <dict> | S <ra> <n> <prog>* | O <ra> <n> <prog>* | X <ra> <prog>
          | R <ra> <pred> <item> <bool> | B <ra> <bits>
  pred  ::= c <bool> | g <int> | ne | num
  kid   ::= <name> <bits> <np>
  node  ::= S <name> <bits> <np> | T <name> <bits> <np> <n> <prog>* <dict> <dict> <n> <node>*
  node' ::= S <name> | T <name> <dict> <dict> <n> <node'>*
  ev    ::= V <name> | C <name> <id> <dict> <dict>
-/
namespace Bt.Driver
open Bt.Stack Bt.Tok

def pIntK : P Int := do
  let t ← next
  match t.toInt? with
  | some i => pure i
  | none => throw s!"expected int, got {t}"

def pPair {β : Type} (p : P β) : P (String × β) := do
  let k ← next
  let v ← p
  pure (k, v)

def pVal : P (Val Float) := do
  let t ← next
  match t with
  | "N" => pure .none
  | "I" => Val.int <$> pIntK
  | "F" => Val.num <$> float
  | "D" => do
    let np ← bool
    let w ← list (pPair float)
    pure (.dict np w)
  | _ => throw s!"expected value tag, got {t}"

def pDict : P (Dict Float) := list (pPair pVal)

def pRA : P RA := do
  let n ← nat
  pure (match n with | 0 => .absent | 1 => .yes | _ => .no)

def pPred : P Pred := do
  let t ← next
  match t with
  | "c" => Pred.const <$> bool
  | "g" => Pred.intGt <$> pIntK
  | "ne" => pure .nonEmpty
  | "num" => pure .isNum
  | _ => throw s!"expected pred tag, got {t}"

partial def pProg : P (Prog Float) := do
  let t ← next
  let ra ← pRA
  match t with
  | "M" => do
    let id ← nat; let script ← list bool; let dflt ← bool; let wt ← pDict; let wp ← pDict
    pure (.mock ra id script dflt wt wp)
  | "S" => Prog.stack ra <$> list pProg
  | "O" => Prog.or ra <$> list pProg
  | "X" => Prog.not ra <$> pProg
  | "R" => do
    let pred ← pPred; let item ← next; let ifNone ← bool
    pure (.require ra pred item ifNone)
  | "B" => Prog.oob ra <$> float
  | _ => throw s!"expected prog tag, got {t}"

def pKid : P (Kid Float) := do
  let name ← next; let weight ← float; let np ← bool
  pure { name, weight, np }

partial def pSNode : P (SNode Float) := do
  let t ← next
  let name ← next; let weight ← float; let np ← bool
  match t with
  | "S" => pure (.sec name weight np)
  | "T" => do
    let stack ← list pProg; let temp ← pDict; let perm ← pDict
    let kids ← list pSNode
    pure (.strat { name, weight, np, stack, temp, perm } kids)
  | _ => throw s!"expected node tag, got {t}"

def prVal : Val Float → List String
  | .none => ["N"]
  | .int i => ["I", toString i]
  | .num x => "F" :: pFloat x
  | .dict np w => "D" :: pBool np ++ pList (fun kv => kv.1 :: pFloat kv.2) w

def prDict (d : Dict Float) : List String := pList (fun kv => kv.1 :: prVal kv.2) d

def prEv : Ev Float → List String
  | .visit s => ["V", s]
  | .call s id t p => ["C", s] ++ pNat id ++ prDict t ++ prDict p

def prLog (l : List (Ev Float)) : List String := pList prEv l

partial def prSNode : SNode Float → List String
  | .sec n _ _ => ["S", n]
  | .strat d kids => ["T", d.name] ++ prDict d.temp ++ prDict d.perm ++ [toString kids.length] ++ kids.flatMap prSNode

def pStackReq : P (List String) := do
  let k ← next
  match k with
  | "call" => do
    let prog ← pProg
    let name ← next; let kids ← list pKid; let temp ← pDict; let perm ← pDict
    let tg : Tgt Float := { name, kids, temp, perm, log := [] }
    match prog.run tg with
    | .ret b tg' => pure (["ok"] ++ pBool b ++ prDict tg'.temp ++ prDict tg'.perm ++ prLog tg'.log)
    | .raise e tg' => pure (["err", e.toString] ++ prDict tg'.temp ++ prDict tg'.perm ++ prLog tg'.log)
  | "run" => do
    let n ← nat
    let t ← pSNode
    match runTimes n t [] with
    | .done t' log => pure (["ok"] ++ prSNode t' ++ prLog log)
    | .raise e log => pure (["err", e.toString] ++ prLog log)
  | _ => throw s!"unknown stack request {k}"

def handleStack (line : String) : String :=
  match Tok.run pStackReq line with
  | .error e => "bad " ++ e
  | .ok toks => " ".intercalate toks

end Bt.Driver
