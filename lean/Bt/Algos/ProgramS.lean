import Bt.Algos.ProgramX
/-
  Whole programs with algo objects that remember: `run_always(RebalanceOverTime(n))` at the end of an extended stack
      [RunPeriod, selection algos..., WeighEqually | WeighSpecified, post..., run_always(RebalanceOverTime(n))].
  `AlgoStack.__call__` then runs the algos in order while they answer True and, once one has answered False, still calls the ones
  marked `run_always` - so `RebalanceOverTime` is called on every `run()`:
    * with fresh `temp['weights']` (the stack got that far) it is re-armed: `_weights = temp['weights']`, `_days_left = n`;
    * when armed it hands `{k: cur_k + (_weights[k] - cur_k) / _days_left}` (the children's weights read through the refreshing
      getter) to the `Rebalance` it owns, counts `_days_left` down, and disarms itself at zero.
  The memory of every strategy's algo object (`Mem`) lives in the program tree (`GTreeS`); a day's run hands back the tree with
  the new memories.  Everything else is as in `Bt/Algos/ProgramX.lean`; nodes without memory are lifted (`liftS`).
  (`temp['cash']` is not modelled for these stacks: whether a `SetCash` is reached depends on where the stack stops.)
-/
namespace Bt.Prog
open Bt Bt.Select

section
variable {α : Type} [Add α] [Sub α] [Mul α] [Div α] [Neg α] [LT α] [DecidableLT α]
  [LE α] [DecidableLE α] [OfNat α 0] [OfNat α 1] [HasFloor α] [NatCast α] [HasNatFloor α]

/-- `(_weights, _days_left)` of a `RebalanceOverTime` object; `none`: disarmed (`_weights is None`) -/
abbrev Mem (α : Type) := Option (List (Nat × α) × α)

/-- a strategy's stack with memory -/
abbrev RunFnS (α : Type) := Nat → Mem α → World α → Except Err (Mem α × World α)

/-- the stack of `p` up to (not including) its last algo: `none` = the gate or a selector answered False;
    otherwise the world (refreshed if `LimitDeltas` read it) and `temp['weights']` -/
def stackWeights (cfg : Cfg α) (p : ProgX α) (path : List Nat) (d : Nat) (w : World α) :
    Except Err (Option (World α × List (Nat × α))) :=
  if p.gate.getD d false then
    match w.root.get? path with
    | some (.strat _ kids) =>
      match selSteps (tableOf p.ucols kids d) d p.sels none with
      | .error e => throw (selErr e)
      | .ok none => pure none
      | .ok (some sel) =>
        (weigherX p d sel).bind fun r =>
        match r with
        | none => pure none
        | some ws0 => (postSteps cfg path p.post (w, ws0)).map some
    | _ => throw Err.badPath
  else pure none

/-- `_days_left -= 1; if _days_left == 0: disarm` -/
def memAfter (tw : List (Nat × α)) (left : α) : Mem α :=
  if Weigh.isZeroExact (left - 1) then none else some (tw, left - 1)

/-- `RebalanceOverTime.__call__` when armed with `(tw, left)`, on the strategy at `path` -/
def rotCall (cfg : Cfg α) (path : List Nat) (tw : List (Nat × α)) (left : α) (w : World α) : Except Err (Mem α × World α) :=
  (postStep cfg path (.overTime left) (w, tw)).bind fun s =>
  (algoRebalance cfg s.1 path s.2 none none).map fun w' => (memAfter tw left, w')

/-- the stack `[…, run_always(RebalanceOverTime(n))]` of the strategy at `path`, at row `d`, the algo remembering `mem` -/
def progRunXS (cfg : Cfg α) (p : ProgX α) (n : α) (path : List Nat) : RunFnS α := fun d mem w =>
  (stackWeights cfg p path d w).bind fun r =>
  match r with
  | some (w1, ws) => rotCall cfg path ws n w1         -- fresh weights: re-armed with `n` periods
  | none =>
    match mem with
    | some (tw, left) => rotCall cfg path tw left w   -- still armed from an earlier day
    | none => pure (none, w)

/-- a stack without memory -/
def liftS (f : List Nat → RunFn α) : List Nat → RunFnS α := fun path d mem w => (f path d w).map fun w' => (mem, w')

/-- `CapitalFlow(amount)` at the head of a stack with memory -/
def withFlowS (amount : α) (f : List Nat → RunFnS α) : List Nat → RunFnS α := fun path d mem w =>
  (opAdjust w path amount true true).bind (f path d mem)

/-! ### trees and nested backtests, the memories travelling in the tree -/

inductive GTreeS (α : Type) where
  | node : (List Nat → RunFnS α) → Mem α → List (Option (GTreeS α)) → GTreeS α

mutual
def treeRunGS : GTreeS α → List Nat → Nat → World α → Except Err (GTreeS α × World α)
  | .node f m kids, path, d, w =>
    (f path d m w).bind fun r =>
    (kidsRunGS kids path 0 d r.2).map fun q => (.node f r.1 q.1, q.2)
def kidsRunGS : List (Option (GTreeS α)) → List Nat → Nat → Nat → World α →
    Except Err (List (Option (GTreeS α)) × World α)
  | [], _, _, _, w => pure ([], w)
  | none :: ks, path, i, d, w => (kidsRunGS ks path (i + 1) d w).map fun q => (none :: q.1, q.2)
  | some t :: ks, path, i, d, w =>
    (treeRunGS t (path ++ [i]) d w).bind fun r =>
    (kidsRunGS ks path (i + 1) d r.2).map fun q => (some r.1 :: q.1, q.2)
end

/-- one pass of the loop body of `Backtest.run`: `update(dt); if not bankrupt: run(); update(dt)` -/
def btDayS (cfg : Cfg α) (t : GTreeS α) (d : Nat) (w : World α) : Except Err (GTreeS α × World α) :=
  (updRoot cfg d w).bind fun w1 =>
  if w1.bankrupt then pure (t, w1)
  else (treeRunGS t [] d w1).bind fun r => (updRoot cfg d r.2).map fun w3 => (r.1, w3)

inductive SimGS (α : Type) where
  | mk : World α → GTreeS α → List (List Nat × SimGS α) → SimGS α

def SimGS.world : SimGS α → World α
  | .mk w _ _ => w

mutual
def simDayGS (cfg : Cfg α) (d : Nat) : SimGS α → Except Err (SimGS α)
  | .mk w t papers =>
    (simPapersGS cfg d papers w).bind fun (papers', w1) =>
    (btDayS cfg t d w1).map fun r => .mk r.2 r.1 papers'
def simPapersGS (cfg : Cfg α) (d : Nat) : List (List Nat × SimGS α) → World α →
    Except Err (List (List Nat × SimGS α) × World α)
  | [], w => pure ([], w)
  | (path, s) :: rest, w =>
    (simDayGS cfg d s).bind fun s' =>
    let w1 : World α := { w with root := setPaperPx s'.world.price path w.root }
    (simPapersGS cfg d rest w1).map fun (rest', w2) => ((path, s') :: rest', w2)
end

mutual
/-- the first date of the data (row 0): a tree and, recursively, its shadow copies are only updated (`Prog.simDay0`);
    no algo is called, so the memories stay as they are -/
def simDayGS0 (cfg : Cfg α) (d : Nat) : SimGS α → Except Err (SimGS α)
  | .mk w t papers =>
    (simPapersGS0 cfg d papers w).bind fun (papers', w1) =>
    (updRoot cfg d w1).map fun w2 => .mk w2 t papers'
def simPapersGS0 (cfg : Cfg α) (d : Nat) : List (List Nat × SimGS α) → World α →
    Except Err (List (List Nat × SimGS α) × World α)
  | [], w => pure ([], w)
  | (path, s) :: rest, w =>
    (simDayGS0 cfg d s).bind fun s' =>
    let w1 : World α := { w with root := setPaperPx s'.world.price path w.root }
    (simPapersGS0 cfg d rest w1).map fun (rest', w2) => ((path, s') :: rest', w2)
end

def simLoopGS (cfg : Cfg α) : List Nat → SimGS α → Except Err (SimGS α)
  | [], s => pure s
  | d :: ds, s => (simDayGS cfg d s).bind (simLoopGS cfg ds)

/-- a shadow copy (already funded) over the dates of its owner's run -/
def simShadowGS (cfg : Cfg α) : List Nat → SimGS α → Except Err (SimGS α)
  | [], s => pure s
  | d0 :: ds, s => (simDayGS0 cfg d0 s).bind (simLoopGS cfg ds)

def simRunGS (cfg : Cfg α) (capital : α) (dates : List Nat) : SimGS α → Except Err (SimGS α)
  | .mk w0 t papers =>
    match dates with
    | [] => throw Err.badPath
    | d0 :: ds =>
      (opAdjust w0 [] capital true true).bind fun w1 =>
      (simPapersGS0 cfg d0 papers w1).bind fun (papers', w2) =>
      (updRoot cfg d0 w2).bind fun w3 => simLoopGS cfg ds (.mk w3 t papers')

end
end Bt.Prog
