import Bt.Num
/-
  Risk tracking, hedging and position lifecycle algos of bt/algos.py
  (`_get_unit_risk`, `UpdateRisk`, `HedgeRisks`, `ClosePositionsAfterDates`,
  `RollPositionsAfterDates`, `SelectActive`) together with the parts of
  bt/core.py they call (`StrategyBase.transact(q, child)`,
  `_create_child_if_needed`, `StrategyBase.close`, `SecurityBase.transact`).
  The model mirrors what the code does, including what it raises.

  * Names of securities / strategies / measures are naturals; dates are day
    numbers, the code's sentinel `now == 0` is the day number `0` (never a row
    of a frame).
  * NaN / NaT cells are `none`; a risk number that is NaN is `none`.
  * `np.linalg.inv` / `np.linalg.pinv` are external: the matrix numpy returned
    (already transposed, as the code uses it) is a parameter, `none` = numpy
    raised `LinAlgError`.
  * `root.update(now)` at the end of close / roll does not change positions or
    `perm` and is not part of this model (engine model: `Bt.Engine`).
  * A security's own `now` is an input (the engine skips flat quiet securities, so
    it can lag the root's date); nothing in this model depends on it.
-/
namespace Bt.Risk
open Bt

/-- What the modelled code raises. -/
inductive RErr where
  | dateMissing      -- KeyError: `frame.index.get_loc(now)`
  | measureMissing   -- KeyError / ValueError: measure not in `unit_risk`
  | noRisksAttr      -- AttributeError: node has no `risks` frame (cannot happen since the frame is created on demand: `Bt.C20.update_risk_total`)
  | riskNotSet       -- HedgeRisks: ValueError, `risk` not set up on the target / measure not set
  | noSelected       -- KeyError: temp['selected']
  | linalg           -- np.linalg raised (singular, or non-square with pseudo=False)
  | nanNotional      -- ValueError: nan hedge notional (throw_nan)
  | notASecurity     -- the name addresses a child strategy (outside this model)
  | nanPrice         -- Exception: position open and latest price NaN
  | zeroPrice        -- Exception: cannot allocate capital, price is zero
  deriving DecidableEq, Repr, Inhabited

def RErr.toString : RErr → String
  | .dateMissing => "DateMissing" | .measureMissing => "MeasureMissing" | .noRisksAttr => "NoRisksAttr"
  | .riskNotSet => "RiskNotSet" | .noSelected => "NoSelected" | .linalg => "LinAlg"
  | .nanNotional => "NanNotional" | .notASecurity => "NotASecurity" | .nanPrice => "NanPrice"
  | .zeroPrice => "ZeroPrice"

/-! ### dicts (insertion-ordered association lists keyed by naturals) -/
section Dict
variable {β : Type}

abbrev Dict (β : Type) := List (Nat × β)

/-- `d[k]` / `k in d`. -/
def dget : Dict β → Nat → Option β
  | [], _ => none
  | (k', v) :: t, k => if k' = k then some v else dget t k

/-- `d[k] = v` (update in place or append). -/
def dset : Dict β → Nat → β → Dict β
  | [], k, v => [(k, v)]
  | (k', v') :: t, k, v => if k' = k then (k, v) :: t else (k', v') :: dset t k v

/-- `s.add(n)` on a set kept as a duplicate-free list. -/
def addName (l : List Nat) (n : Nat) : List Nat := if l.contains n then l else l ++ [n]

end Dict

/-! ### numbers that may be NaN -/
section ONum
variable {α : Type} [Add α] [Mul α] [Neg α]

def oadd : Option α → Option α → Option α
  | some x, some y => some (x + y)
  | _, _ => none

def omul : Option α → Option α → Option α
  | some x, some y => some (x * y)
  | _, _ => none

def oneg : Option α → Option α
  | some x => some (-x)
  | none => none

/-- a row of `np.matmul`: sum of products, accumulated left to right from `acc`. -/
def odotAux : Option α → List (Option α) → List (Option α) → Option α
  | acc, a :: as, b :: bs => odotAux (oadd acc (omul a b)) as bs
  | acc, _, _ => acc

end ONum

/-! ### the tree -/

/-- `risk` / `risks` attributes a node may carry. -/
structure Attrs (α : Type) where
  /-- `node.risk` (measure ↦ number); `none`: the attribute does not exist. -/
  risk : Option (Dict (Option α))
  /-- `node.risks` (column = measure ↦ rows written, keyed by date); `none`: no such attribute.
      A row never written is NaN. -/
  risks : Option (Dict (Dict (Option α)))

structure SecD (α : Type) where
  name : Nat
  now : Nat               -- the security's own `now` (0: never updated)
  pos : α
  mult : α
  price : Option α        -- `_price` (`none` = NaN)
  attrs : Attrs α

structure StratD (α : Type) where
  name : Nat
  now : Nat
  fi : Bool               -- `fixed_income`
  attrs : Attrs α

inductive Node (α : Type) where
  | sec : SecD α → Node α
  | strat : StratD α → List (Node α) → Node α

namespace Node
variable {α : Type}

def attrs : Node α → Attrs α
  | .sec s => s.attrs
  | .strat d _ => d.attrs

def name : Node α → Nat
  | .sec s => s.name
  | .strat d _ => d.name

def now : Node α → Nat
  | .sec s => s.now
  | .strat d _ => d.now

def kids : Node α → List (Node α)
  | .sec _ => []
  | .strat _ ks => ks

end Node

/-- `node.risk[m]` (NaN and "not there" both `none`; the code only reads it after writing it). -/
def riskOf {α : Type} (m : Nat) (n : Node α) : Option α := ((n.attrs.risk.getD []).lookup m).join

/-- `node.risks.loc[date, m]` (`none`: NaN / no frame / no column / row never written). -/
def histOf {α : Type} (m date : Nat) (n : Node α) : Option α :=
  (((n.attrs.risks.getD []).lookup m).getD []).lookup date |>.join

/-! ### unit risk frames -/

/-- One measure's `unit_risk` DataFrame: a column per security, a row per date. -/
structure Frame (α : Type) where
  cols : List Nat
  rows : List (Nat × List (Option α))

/-- `frame.index.get_loc(date)` followed by reading that row (`KeyError` when the date is not a row). -/
def Frame.rowAt {α : Type} (f : Frame α) (date : Nat) : Except RErr (List (Option α)) :=
  match f.rows.lookup date with
  | some r => .ok r
  | none => .error .dateMissing

section Model
variable {α : Type} [Add α] [Sub α] [Mul α] [Div α] [Neg α] [LT α] [DecidableLT α]
  [LE α] [DecidableLE α] [OfNat α 0] [OfNat α 1]

/-- `_get_unit_risk(security, frame, index)` on the row at `index`: a security without a column has
    unit risk `0.0` ("No risk data, assume zero"); a NaN cell is NaN. -/
def unitRiskRow (cols : List Nat) (row : List (Option α)) (name : Nat) : Option α :=
  match cols.idxOf? name with
  | none => some 0
  | some j => (row[j]?).join

/-- the lookup `UpdateRisk` does for one security. -/
def unitRisk (f : Frame α) (date name : Nat) : Except RErr (Option α) :=
  (f.rowAt date).map fun row => unitRiskRow f.cols row name

/-- float `!=` against zero. -/
def nonzero (x : α) : Bool := decide (x < 0) || decide (0 < x)

/-! ### UpdateRisk -/

/-- `_setup_risk`: only on a node without a `risk` attribute. -/
def setupRisk (setHist : Bool) (a : Attrs α) : Attrs α :=
  match a.risk with
  | some _ => a
  | none => { risk := some [], risks := if setHist then some [] else a.risks }

/-- the frame is created on demand: an earlier call with a smaller history depth has left `risk` without `risks`. -/
def ensureRisks (setHist : Bool) (a : Attrs α) : Attrs α :=
  if setHist then
    match a.risks with
    | some _ => a
    | none => { a with risks := some [] }
  else a

/-- `_setup_measure`: only when the measure is not yet in `risk`; with history the column is reset
    to NaN, which needs the `risks` frame to exist. -/
def setupMeasure (m : Nat) (setHist : Bool) (a : Attrs α) : Except RErr (Attrs α) :=
  if (dget (a.risk.getD []) m).isSome then .ok a
  else if setHist then
    match a.risks with
    | none => .error .noRisksAttr
    | some h => .ok { risk := some (dset (a.risk.getD []) m none), risks := some (dset h m []) }
  else .ok { risk := some (dset (a.risk.getD []) m none), risks := a.risks }

/-- the set-up part of `_set_risk_recursive`: `_setup_risk`, the frame on demand, `_setup_measure`. -/
def prepAttrs (m : Nat) (setHist : Bool) (a : Attrs α) : Except RErr (Attrs α) :=
  setupMeasure m setHist (ensureRisks setHist (setupRisk setHist a))

/-- `target.risk[m] = risk` and, within the history depth, `target.risks.loc[target.root.now, m] = risk`
    (the row of the current date: the root's clock, a flat security's own `now` may be stale). -/
def storeRisk (m : Nat) (setHist : Bool) (now : Nat) (v : Option α) (a : Attrs α) : Except RErr (Attrs α) :=
  if setHist then
    match a.risks with
    | none => .error .noRisksAttr
    | some h => .ok { risk := some (dset (a.risk.getD []) m v),
                      risks := some (dset h m (dset ((dget h m).getD []) now v)) }
  else .ok { risk := some (dset (a.risk.getD []) m v), risks := a.risks }

/-- a security's risk: `0.0` when `is_zero(position)`, else `unit_risk * position * multiplier`. -/
def secRisk (tol : α) (u : Option α) (pos mult : α) : Option α :=
  if isZero tol pos then some 0 else u.map fun x => x * pos * mult

mutual
/-- `_set_risk_recursive(target, depth, unit_risk_frame)`; `rootNow` is `target.root.now`. -/
def setRisk (tol : α) (m history : Nat) (f : Frame α) (rootNow : Nat) (depth : Nat) : Node α → Except RErr (Node α)
  | .sec s =>
    (prepAttrs m (decide (depth < history)) s.attrs).bind fun a1 =>
    (unitRisk f rootNow s.name).bind fun u =>
    (storeRisk m (decide (depth < history)) rootNow (secRisk tol u s.pos s.mult) a1).map fun a2 =>
    .sec { s with attrs := a2 }
  | .strat d kids =>
    (prepAttrs m (decide (depth < history)) d.attrs).bind fun a1 =>
    (setRiskKids tol m history f rootNow (depth + 1) kids (some 0)).bind fun r =>
    (storeRisk m (decide (depth < history)) rootNow r.2 a1).map fun a2 =>
    .strat { d with attrs := a2 } r.1

/-- the loop over `target.children.values()`: recurse, then `risk += child.risk[m]`. -/
def setRiskKids (tol : α) (m history : Nat) (f : Frame α) (rootNow : Nat) (depth : Nat) :
    List (Node α) → Option α → Except RErr (List (Node α) × Option α)
  | [], acc => .ok ([], acc)
  | k :: ks, acc =>
    (setRisk tol m history f rootNow depth k).bind fun k' =>
    (setRiskKids tol m history f rootNow depth ks (oadd acc (riskOf m k'))).map fun r =>
    (k' :: r.1, r.2)
end

/-- `UpdateRisk(measure, history)(target)`; `frames` is `target.get_data("unit_risk")`. -/
def updateRisk (tol : α) (m history : Nat) (frames : Dict (Frame α)) (rootNow : Nat) (target : Node α) :
    Except RErr (Node α) :=
  match dget frames m with
  | none => .error .measureMissing
  | some f => setRisk tol m history f rootNow 0 target

/-! ### transactions on the children of a strategy -/

/-- what the model needs to know about the world outside the tree -/
structure Env (α : Type) where
  tol : α                       -- core.TOL
  lazy : Dict α                 -- multipliers of the not-yet-created (`lazy_add`) children
  prices : Dict (Option α)      -- universe row at the current date (for a child created now)

/-- `SecurityBase.transact(q)`: nothing when `is_zero(q)` or NaN, else `position += q`. -/
def transactSec (tol : α) (q : Option α) (s : SecD α) : SecD α :=
  match q with
  | none => s
  | some x => if isZero tol x then s else { s with pos := s.pos + x }

/-- `_create_child_if_needed`: the lazy child of that name or a default `Security(name)`, set up and
    brought to the parent's date. -/
def mkChild (env : Env α) (pnow name : Nat) : SecD α :=
  { name := name, now := pnow, pos := 0, mult := (dget env.lazy name).getD 1,
    price := match dget env.prices name with
      | none => some 0
      | some p => p,
    attrs := { risk := none, risks := none } }

/-- `StrategyBase.transact(q, name)` on the list of children. -/
def transactKid (env : Env α) (pnow : Nat) (q : Option α) (name : Nat) : List (Node α) → Except RErr (List (Node α))
  | [] => .ok [.sec (transactSec env.tol q (mkChild env pnow name))]
  | .sec s :: ks =>
    if s.name = name then .ok (.sec (transactSec env.tol q s) :: ks)
    else (transactKid env pnow q name ks).map fun ks' => .sec s :: ks'
  | .strat d sub :: ks =>
    if d.name = name then .error .notASecurity
    else (transactKid env pnow q name ks).map fun ks' => .strat d sub :: ks'

/-! ### HedgeRisks -/

/-- `_get_target_risk`. -/
def targetRisk (m : Nat) (n : Node α) : Except RErr (Option α) :=
  match n.attrs.risk with
  | none => .error .riskNotSet
  | some r =>
    match dget r m with
    | none => .error .riskNotSet
    | some v => .ok v

def targetRisks (n : Node α) : List Nat → Except RErr (List (Option α))
  | [] => .ok []
  | m :: ms => (targetRisk m n).bind fun v => (targetRisks n ms).map fun vs => v :: vs

/-- element-wise `target_risk += strategy risk`. -/
def addRisks : List (Option α) → List (Option α) → List (Option α)
  | a :: as, b :: bs => oadd a b :: addRisks as bs
  | _, _ => []

/-- per measure: the frame (`.get(m)` must not be None) and the row at `target.now`. -/
def measureRows (frames : Dict (Frame α)) (now : Nat) : List Nat → Except RErr (List (List Nat × List (Option α)))
  | [] => .ok []
  | m :: ms =>
    match dget frames m with
    | none => .error .measureMissing
    | some f => (f.rowAt now).bind fun row => (measureRows frames now ms).map fun rs => (f.cols, row) :: rs

/-- multiplier of the child called `name`: the existing security's, else the lazy child's it will be created
    from, else 1 (`getattr(children.get(s, lazy_children.get(s)), "multiplier", 1.0)`). -/
def kidMult (env : Env α) : List (Node α) → Nat → α
  | [], name => (dget env.lazy name).getD 1
  | .sec s :: ks, name => if s.name = name then s.mult else kidMult env ks name
  | .strat _ _ :: ks, name => kidMult env ks name

/-- `hedge_risk`: one row per selected security, one column per measure, `unit risk * multiplier`. -/
def jacobian (mult : Nat → α) (rows : List (List Nat × List (Option α))) (secs : List Nat) : List (List (Option α)) :=
  secs.map fun s => rows.map fun cr => omul (unitRiskRow cr.1 cr.2 s) (some (mult s))

/-- `np.matmul(inv, -target_risk).flatten()`. -/
def notionals (inv : List (List (Option α))) (r : List (Option α)) : List (Option α) :=
  inv.map fun row => odotAux (some 0) row (r.map oneg)

/-- `strategy=`: the other strategy's risk is added to the target's. -/
def extraRisks (ms : List Nat) (extra : Option (Node α)) (r0 : List (Option α)) : Except RErr (List (Option α)) :=
  match extra with
  | none => .ok r0
  | some x => (targetRisks x ms).map fun rx => addRisks r0 rx

/-- everything `HedgeRisks` computes before calling numpy: (target risk, Jacobian). -/
def hedgeInputs (env : Env α) (ms : List Nat) (frames : Dict (Frame α)) (extra : Option (Node α))
    (selected : Option (List Nat)) (target : Node α) : Except RErr (List Nat × List (Option α) × List (List (Option α))) :=
  match selected with
  | none => .error .noSelected
  | some secs =>
    (targetRisks target ms).bind fun r0 =>
    (extraRisks ms extra r0).bind fun r =>
    (measureRows frames target.now ms).map fun rows => (secs, r, jacobian (kidMult env target.kids) rows secs)

/-- the hedging loop: `for notional, security in zip(notionals, securities)`. -/
def hedgeLoop (env : Env α) (throwNan : Bool) (pnow : Nat) : List (Option α × Nat) → List (Node α) → Except RErr (List (Node α))
  | [], kids => .ok kids
  | (q, s) :: rest, kids =>
    if q.isNone && throwNan then .error .nanNotional
    else (transactKid env pnow q s kids).bind fun kids' => hedgeLoop env throwNan pnow rest kids'

/-- `HedgeRisks(measures, pseudo, strategy, throw_nan)(target)`; `inv` is what
    `np.linalg.inv(hedge_risk).T` / `np.linalg.pinv(hedge_risk).T` returned (`none`: it raised). -/
def hedgeRisks (env : Env α) (ms : List Nat) (frames : Dict (Frame α)) (throwNan : Bool)
    (extra : Option (Node α)) (selected : Option (List Nat)) (inv : Option (List (List (Option α))))
    : Node α → Except RErr (Node α)
  | .sec _ => .error .notASecurity
  | .strat d kids =>
    (hedgeInputs env ms frames extra selected (.strat d kids)).bind fun inp =>
    match inv with
    | none => .error .linalg
    | some iv =>
      (hedgeLoop env throwNan d.now ((notionals iv inp.2.1).zip inp.1) kids).map fun kids' => .strat d kids'

/-! ### closing a child -/

/-- `StrategyBase.close(name, update=False)` for a security child: a fixed-income parent transacts
    `-position` when `position != 0`; otherwise `allocate(-value)` when `value != 0`, which closes out
    (`q = -position`) unless the amount is below TOL, and raises at a zero price. -/
def closeSec (tol : α) (fi : Bool) (s : SecD α) : Except RErr (SecD α) :=
  if fi then
    .ok (if nonzero s.pos then transactSec tol (some (-s.pos)) s else s)
  else
    match s.price with
    | none => if isZero tol s.pos then .ok s else .error .nanPrice
    | some p =>
      let v := s.pos * p * s.mult
      if !nonzero v then .ok s
      else if isZero tol (-v) then .ok s
      else if isZero tol p then .error .zeroPrice
      else .ok (transactSec tol (some (-s.pos)) s)

/-- `perm` entries of the lifecycle algos (`none`: key not present). -/
structure Perm where
  closed : Option (List Nat)
  rolled : Option (List Nat)
  deriving Repr, DecidableEq

def Perm.closedL (p : Perm) : List Nat := p.closed.getD []
def Perm.rolledL (p : Perm) : List Nat := p.rolled.getD []

/-! ### ClosePositionsAfterDates -/

/-- `close_dates.loc[name] <= now` (NaT compares False). -/
def dueAt (dates : Dict (Option Nat)) (now name : Nat) : Bool :=
  match dget dates name with
  | some (some d) => decide (d ≤ now)
  | _ => false

/-- one pass over the children in order: a security that has a row in `close_dates`, is not in
    `closed0` (the set on entry) and whose date has come is closed and recorded. -/
def closePass (tol : α) (fi : Bool) (dates : Dict (Option Nat)) (now : Nat) (closed0 : List Nat) :
    List (Node α) → List Nat → Except RErr (List (Node α) × List Nat)
  | [], acc => .ok ([], acc)
  | .sec s :: ks, acc =>
    if (dget dates s.name).isSome && !closed0.contains s.name && dueAt dates now s.name then
      (closeSec tol fi s).bind fun s' =>
      (closePass tol fi dates now closed0 ks (addName acc s.name)).map fun r => (.sec s' :: r.1, r.2)
    else (closePass tol fi dates now closed0 ks acc).map fun r => (.sec s :: r.1, r.2)
  | .strat d sub :: ks, acc =>
    (closePass tol fi dates now closed0 ks acc).map fun r => (.strat d sub :: r.1, r.2)

/-- `ClosePositionsAfterDates(close_dates)(target)` on (children, perm). -/
def closePositionsAfterDates (tol : α) (fi : Bool) (dates : Dict (Option Nat)) (now : Nat)
    (kids : List (Node α)) (perm : Perm) : Except RErr (List (Node α) × Perm) :=
  (closePass tol fi dates now perm.closedL kids perm.closedL).map fun r =>
    (r.1, { perm with closed := some r.2 })

/-! ### RollPositionsAfterDates -/

structure RollRow (α : Type) where
  date : Option Nat
  target : Nat
  factor : Option α

/-- `sec_fields["date"] <= target.now` (NaT compares False). -/
def RollRow.due {α : Type} (row : RollRow α) (now : Nat) : Bool :=
  match row.date with
  | some d => decide (d ≤ now)
  | none => false

/-- `transactions[new_sec] += new_quantity` (or `=` for a new key). -/
def txAdd (txs : Dict (Option α)) (tgt : Nat) (q : Option α) : Dict (Option α) :=
  match dget txs tgt with
  | some old => dset txs tgt (oadd old q)
  | none => dset txs tgt q

/-- the first loop: candidates in child order; a due one is recorded, its `factor * position` is
    added to the target's pending transaction and it is closed. -/
def rollPass (tol : α) (fi : Bool) (roll : Dict (RollRow α)) (now : Nat) (rolled0 : List Nat) :
    List (Node α) → List Nat → Dict (Option α) → Except RErr (List (Node α) × List Nat × Dict (Option α))
  | [], acc, txs => .ok ([], acc, txs)
  | .sec s :: ks, acc, txs =>
    match dget roll s.name with
    | some row =>
      if !rolled0.contains s.name && row.due now then
        (closeSec tol fi s).bind fun s' =>
        (rollPass tol fi roll now rolled0 ks (addName acc s.name)
          (txAdd txs row.target (omul row.factor (some s.pos)))).map fun r => (.sec s' :: r.1, r.2)
      else (rollPass tol fi roll now rolled0 ks acc txs).map fun r => (.sec s :: r.1, r.2)
    | none => (rollPass tol fi roll now rolled0 ks acc txs).map fun r => (.sec s :: r.1, r.2)
  | .strat d sub :: ks, acc, txs =>
    (rollPass tol fi roll now rolled0 ks acc txs).map fun r => (.strat d sub :: r.1, r.2)

/-- the second loop: `for new_sec, quantity in transactions.items(): target.transact(quantity, new_sec)`. -/
def applyTxs (env : Env α) (pnow : Nat) : Dict (Option α) → List (Node α) → Except RErr (List (Node α))
  | [], kids => .ok kids
  | (tgt, q) :: rest, kids => (transactKid env pnow q tgt kids).bind fun kids' => applyTxs env pnow rest kids'

/-- `RollPositionsAfterDates(roll_data)(target)` on (children, perm); also returns the transactions generated. -/
def rollPositionsAfterDates (env : Env α) (fi : Bool) (roll : Dict (RollRow α)) (now : Nat)
    (kids : List (Node α)) (perm : Perm) : Except RErr (List (Node α) × Perm × Dict (Option α)) :=
  (rollPass env.tol fi roll now perm.rolledL kids perm.rolledL []).bind fun r =>
  (applyTxs env now r.2.2 r.1).map fun kids' => (kids', { perm with rolled := some r.2.1 }, r.2.2)

/-! ### SelectActive -/

/-- `[s for s in selected if s not in set.union(rolled, closed)]`. -/
def selectActive (perm : Perm) (selected : Option (List Nat)) : Except RErr (List Nat) :=
  match selected with
  | none => .error .noSelected
  | some sel => .ok (sel.filter fun s => !(perm.rolledL.contains s || perm.closedL.contains s))

/-! ### a run of the lifecycle stack over several dates -/

/-- one date of `[ClosePositionsAfterDates, RollPositionsAfterDates, <select>, SelectActive, <trade>]`:
    `cands` is `temp['selected']` before `SelectActive`, `trades` what the rest of the stack transacts;
    only trades in names `SelectActive` let through are executed. -/
structure Step (α : Type) where
  now : Nat
  cands : List Nat
  trades : List (Nat × α)

structure RunState (α : Type) where
  kids : List (Node α)
  perm : Perm

def applyTrades (env : Env α) (pnow : Nat) (sel : List Nat) : List (Nat × α) → List (Node α) → Except RErr (List (Node α))
  | [], kids => .ok kids
  | (n, q) :: rest, kids =>
    if sel.contains n then (transactKid env pnow (some q) n kids).bind fun kids' => applyTrades env pnow sel rest kids'
    else applyTrades env pnow sel rest kids

/-- result of one date: the new state, what `SelectActive` returned, and the names rolled on this date. -/
def lifecycleStep (env : Env α) (fi : Bool) (dates : Dict (Option Nat)) (roll : Dict (RollRow α))
    (st : RunState α) (s : Step α) : Except RErr (RunState α × List Nat × Dict (Option α)) :=
  (closePositionsAfterDates env.tol fi dates s.now st.kids st.perm).bind fun c =>
  (rollPositionsAfterDates env fi roll s.now c.1 c.2).bind fun r =>
  (selectActive r.2.1 (some s.cands)).bind fun sel =>
  (applyTrades env s.now sel s.trades r.1).map fun kids' => ({ kids := kids', perm := r.2.1 }, sel, r.2.2)

/-- all dates; collects per date what `SelectActive` returned and the roll transactions. -/
def lifecycleRun (env : Env α) (fi : Bool) (dates : Dict (Option Nat)) (roll : Dict (RollRow α)) :
    RunState α → List (Step α) → Except RErr (RunState α × List (List Nat × Dict (Option α)))
  | st, [] => .ok (st, [])
  | st, s :: rest =>
    (lifecycleStep env fi dates roll st s).bind fun r =>
    (lifecycleRun env fi dates roll r.1 rest).map fun rr => (rr.1, r.2 :: rr.2)

end Model
end Bt.Risk
