import Bt.Engine.Ops
/-
  bt.algos.Rebalance.__call__ (algos.py l.1711-1760) as a composition of engine operations on the world:
  base captured once through the refreshing getter, children that are not targets closed (update=False),
  the optional cash fraction applied to the target weights, every target rebalanced against the captured
  base with updates deferred, then one `root.update(now)`.
-/
namespace Bt

section
variable {α : Type} [Add α] [Sub α] [Mul α] [Div α] [Neg α] [LT α] [DecidableLT α]
  [LE α] [DecidableLE α] [OfNat α 0] [OfNat α 1] [HasFloor α]

/-- close every child (by index, in child order) that is not a target and whose value (fixed income:
    notional) is non-zero; each read goes through the refreshing getter. -/
def closeNonTargets (cfg : Cfg α) (path : List Nat) (targets : List Nat) : List Nat → World α → Except Err (World α)
  | [], w => pure w
  | i :: rest, w =>
    if targets.contains i then closeNonTargets cfg path targets rest w
    else
      (refresh cfg w).bind fun w1 =>
      match w1.root.get? path, w1.root.get? (path ++ [i]) with
      | some (.strat sd _), some c =>
        let v := if sd.fixedIncome then c.notl else c.value
        if !(eqA v 0) then (opClose cfg w1 path i false).bind (closeNonTargets cfg path targets rest)
        else closeNonTargets cfg path targets rest w1
      | _, _ => throw Err.badPath

/-- `target.rebalance(w * scale, child, base, update=False)` for every target in order -/
def rebalanceTargets (cfg : Cfg α) (path : List Nat) (base scale : α) : List (Nat × α) → World α → Except Err (World α)
  | [], w => pure w
  | (i, wt) :: rest, w =>
    (opRebalance cfg w path (wt * scale) i (some base) false).bind (rebalanceTargets cfg path base scale rest)

/-- `Rebalance()(target)` with `temp['weights'] = targets`, optional `temp['cash']`, optional `temp['notional_value']` -/
def algoRebalance (cfg : Cfg α) (w : World α) (path : List Nat) (targets : List (Nat × α))
    (cash : Option α) (notional : Option α) : Except Err (World α) :=
  match w.root.get? path with
  | some (.strat sd0 kids0) =>
    -- base: a refreshing getter unless the notional is supplied for a fixed-income target
    (if sd0.fixedIncome && notional.isSome then pure w else refresh cfg w).bind fun w1 =>
    match w1.root.get? path with
    | some (.strat sd _) =>
      let base : α := if sd.fixedIncome then (match notional with | some n => n | none => sd.notl) else sd.value
      (closeNonTargets cfg path (targets.map (·.1)) (List.range kids0.length) w1).bind fun w2 =>
      let scale : α := match cash with
        | some c => if sd.fixedIncome then 1 else 1 - c
        | none => 1
      (rebalanceTargets cfg path base scale targets w2).bind fun w3 =>
      match w3.root.now with
      | some d => updRoot cfg d w3
      | none => throw Err.badPath
    | _ => throw Err.badPath
  | _ => throw Err.badPath

end
end Bt
