import Bt.Algos.ProgramX
import Bt.Algos.Blotter
/-
  Blotter-driven strategies inside the whole-program model: a strategy whose stack is `[ReplayTransactions(frame)]` or
  `[SimulateRFQTransactions(frame, model)]` (bt/algos.py):

      timeline = target.data.index ; index = timeline.get_loc(target.now)
      start = Timestamp.min if index == 0 else timeline[index - 1] ; end = target.now
      rows = frame[(timestamps > start) & (timestamps <= end)]          # RFQ: rows = model(rows, target)
      for (_, security), row in rows.iterrows():
          target[security].transact(row["quantity"], price=row["price"], update=False)
      target.root.update(target.now)

  `target.data.index` is the index of the data the backtest was set up with, *including* the synthetic first row
  `Backtest` prepends (one calendar day before the first date): on the first real date (row 1) `timeline[index - 1]` is the
  stamp of that synthetic row.  The backtest's own tree is first run on row 1, so rows stamped at or before the synthetic
  stamp are never executed there; a shadow copy is only updated on row 0 (its algos do not run there either), so it
  replays the same rows as the stand-alone backtest of its definition.

  The frame is a list of rows `(stamp, child index, quantity, price)` in the frame's own order (any order); stamps are
  integers (nanoseconds).  The children named by the rows are securities declared up front (`target[security]` is a plain
  dictionary look-up; a name that is no child raises - here: an index that is no child).  The RFQ "model" is a parameter:
  the one modelled answers every request at `price * mult`.
-/
namespace Bt.Prog
open Bt

section
variable {α : Type} [Add α] [Sub α] [Mul α] [Div α] [Neg α] [LT α] [DecidableLT α]
  [LE α] [DecidableLE α] [OfNat α 0] [OfNat α 1] [HasFloor α]

/-- a row of the frame without its stamp: child index, quantity, price -/
abbrev BRow (α : Type) := Nat × α × α

structure ProgR (α : Type) where
  /-- stamps of `target.data.index` (row 0 = the synthetic first row) -/
  timeline : List Int
  /-- the frame: (stamp, (child index, quantity, price)), in frame order -/
  rows : List (Int × BRow α)
  /-- `none`: `ReplayTransactions` (the row's price as it is); `some m`: `SimulateRFQTransactions` with a model that fills
      every request at `price * m` -/
  mult : Option α := none

/-- the price a row is executed at -/
def rowPrice (mult : Option α) (px : α) : α :=
  match mult with
  | none => px
  | some m => px * m

/-- `target[security].transact(quantity, price=price, update=False)` for one row -/
def execRow (cfg : Cfg α) (mult : Option α) (path : List Nat) (w : World α) (r : Int × BRow α) : Except Err (World α) :=
  opTransact cfg w (path ++ [r.2.1]) r.2.2.1 false (some (rowPrice mult r.2.2.2))

/-- the `for … in rows.iterrows()` loop: the rows in the order given; the first raise ends it -/
def execRows (cfg : Cfg α) (mult : Option α) (path : List Nat) : List (Int × BRow α) → World α → Except Err (World α)
  | [], w => pure w
  | r :: rest, w => (execRow cfg mult path w r).bind (execRows cfg mult path rest)

/-- the stack `[ReplayTransactions | SimulateRFQTransactions]` of the strategy at `path`, at row `d`: the rows stamped in
    `(timeline[d-1], timeline[d]]` in frame order, each a transact at its own price without update, then `root.update(now)` -/
def progRunR (cfg : Cfg α) (p : ProgR α) (path : List Nat) : RunFn α := fun d w =>
  (execRows cfg p.mult path (Blotter.select p.timeline d p.rows) w).bind fun w1 => updRoot cfg d w1

end
end Bt.Prog
