import Bt.Num
import Bt.Algos.Select
/-
  Reports of a finished backtest (bt/backtest.py: `Backtest.weights / security_weights / positions /
  herfindahl_index / turnover`, `Result.get_transactions`, `Result.prices`; bt/core.py:
  `StrategyBase.positions / outlays / get_transactions`) as functions of the node histories, and
  `bt.algos.ReplayTransactions`.

  The node histories are plain data.  A finished run is a list of dates; one date (`Snap`) lists every
  member of the tree in `members` order (depth-first preorder, the root first) with the row that date
  holds in each of its recorded series (`Cell`).  All series of all nodes are rows of one and the same
  index (every node is set up on the backtest's data frame), so the pandas operations the code uses
  become list operations on one date at a time:

  * `pd.DataFrame({name: series ...})` over series with one common index: no outer join happens, a row
    of the frame is the list of the series' rows on that date;
  * `vals[name] += series` / `vals[name] = series` (aggregation of same-named securities): `groupSum`,
    first-occurrence column order, left-to-right floating point addition;
  * `{x.name: x.prices for x in securities}` (a dict comprehension): the LAST security of a name wins
    (`lastOf`; all securities of a name read the same price column);
  * `frame.div(series, axis=0)`: row-wise division; IEEE `x/0 = ±inf`, `0/0 = NaN`;
  * `.sum(axis=1)` (skipna): NaN cells are skipped, the empty sum is 0 (`sumSome`);
  * `frame[mask].fillna(0)`: cells failing the mask become 0 (`posPart`, `negPart`);
  * `.diff()` with `iloc[0]` restored, `[trades != 0]`, `.unstack().dropna()`, `swaplevel().sort_index()`:
    `transactions` (one row per date and name with a non-zero difference, sorted by date, then name).

  NaN is `Option`: a result of a division is wrapped by `ofNum`, whose test `x ≤ x` is false exactly for
  an IEEE NaN and always true in an ordered field.  Mirrors what the code does, not what it should do.
-/
namespace Bt.Report

/-- static description of a member of the tree -/
structure Node (ι : Type) where
  full : ι          -- Node.full_name (unique in a tree)
  short : ι         -- Node.name (the ticker, for a security)
  isSec : Bool      -- isinstance(node, SecurityBase)

/-- the rows one date holds in a node's recorded series -/
structure Cell (α : Type) where
  value : α          -- `_values`
  notl : α           -- `_notl_values`
  pos : α            -- `_positions`        (securities; 0 for strategies)
  outlay : α         -- `_outlays`          (securities; 0 for strategies)
  boPaid : α         -- `_bidoffers_paid`   (0 when bid/offer accounting is off)
  cash : α           -- `_cash`             (strategies; 0 for securities)
  price : Option α   -- `_prices`: market price of a security (NaN = none), index of a strategy
  mult : α           -- `multiplier` of a security (static: the same on every date; 1 for strategies)

/-- one date: every member, root first -/
abbrev Snap (ι α : Type) := List (Node ι × Cell α)

/-- a finished run -/
structure Run (ι α : Type) where
  fi : Bool                    -- root.fixed_income
  boSet : Bool                 -- root._bidoffer_set ('bidoffer' was passed to setup)
  dates : List (Snap ι α)      -- rows of the data index up to `now`, the synthetic first row included

/-- one row of `get_transactions()` -/
structure Txn (ι α : Type) where
  date : Nat
  name : ι
  qty : α
  price : Option α
  deriving DecidableEq, Repr

section Num
variable {α : Type} [Add α] [Sub α] [Mul α] [Div α] [Neg α] [LT α] [DecidableLT α] [LE α] [DecidableLE α]
  [OfNat α 0] [OfNat α 1]

/-- a computed number as a pandas cell: NaN (the only `x` with `¬ x ≤ x`) is missing -/
def ofNum (x : α) : Option α := if x ≤ x then some x else none

/-- row-wise `a / b` as pandas shows it -/
def divO (a b : α) : Option α := ofNum (a / b)

/-- one step of a skipna sum -/
def addSome (a : α) : Option α → α
  | some x => a + x
  | none => a

/-- `Series.sum()` / `DataFrame.sum(axis=1)` with skipna: starts from 0, adds left to right, skips NaN -/
def sumSome (l : List (Option α)) : α := l.foldl addSome 0

/-- plain left-to-right sum from 0 -/
def sumL (l : List α) : α := l.foldl (fun a x => a + x) 0

/-- `outlays[outlays >= 0].fillna(0)` on one cell -/
def posPart (x : α) : α := if 0 ≤ x then x else 0

/-- `outlays[outlays < 0].fillna(0)` on one cell -/
def negPart (x : α) : α := if x < 0 then x else 0

/-- `DataFrame({'pos': a, 'neg': b}).min(axis=1)` for two present numbers -/
def minA (a b : α) : α := if b < a then b else a

/-- `trades != 0` for a number that is not NaN (a NaN difference is dropped by `dropna` anyway) -/
def isNonzero (d : α) : Bool := decide (d < 0) || decide (0 < d)

end Num

section Group
variable {ι α : Type} [DecidableEq ι] [Add α]

/-- `if name in vals: vals[name] += x  else: vals[name] = x` -/
def addTo (k : ι) (x : α) : List (ι × α) → List (ι × α)
  | [] => [(k, x)]
  | (k', y) :: r => if k' = k then (k', y + x) :: r else (k', y) :: addTo k x r

/-- the aggregation loop over the members, started from `acc` -/
def groupFrom (acc : List (ι × α)) : List (ι × α) → List (ι × α)
  | [] => acc
  | (k, x) :: r => groupFrom (addTo k x acc) r

/-- aggregation of same-named entries: first-occurrence order, sums added in list order -/
def groupSum (l : List (ι × α)) : List (ι × α) := groupFrom [] l

/-- `frame[name]` on one row -/
def getK (k : ι) : List (ι × α) → Option α
  | [] => none
  | (k', y) :: r => if k' = k then some y else getK k r

end Group

section Reports
variable {ι α : Type} [DecidableEq ι] [LE ι] [DecidableLE ι]
  [Add α] [Sub α] [Mul α] [Div α] [Neg α] [LT α] [DecidableLT α] [LE α] [DecidableLE α]
  [OfNat α 0] [OfNat α 1]

/-- the series a weight is computed from: `notional_values` under a fixed-income root, else `values` -/
def basis (fi : Bool) (c : Cell α) : α := if fi then c.notl else c.value

/-- `Backtest.weights` on one date: every member's value (notional) over the root's, keyed by full name -/
def weightsAt (fi : Bool) (s : Snap ι α) : List (ι × Option α) :=
  match s with
  | [] => []
  | (_, r) :: _ => s.map (fun nc => (nc.1.full, divO (basis fi nc.2) (basis fi r)))

/-- (ticker, f cell) of every security member, in `members` order -/
def secPairs (f : Cell α → α) (s : Snap ι α) : List (ι × α) :=
  (s.filter (fun nc => nc.1.isSec)).map (fun nc => (nc.1.short, f nc.2))

/-- a per-security series aggregated over same-named securities -/
def secAgg (f : Cell α → α) (s : Snap ι α) : List (ι × α) := groupSum (secPairs f s)

/-- `Backtest.security_weights` on one date -/
def securityWeightsAt (fi : Bool) (s : Snap ι α) : List (ι × Option α) :=
  match s with
  | [] => []
  | (_, r) :: _ => (secAgg (basis fi) s).map (fun kx => (kx.1, divO kx.2 (basis fi r)))

/-- cash of every strategy member over the root's value (not a bt report: the other half of the
    sum-to-one clause) -/
def cashFractionsAt (s : Snap ι α) : List (ι × Option α) :=
  match s with
  | [] => []
  | (_, r) :: _ => (s.filter (fun nc => !nc.1.isSec)).map (fun nc => (nc.1.full, divO nc.2.cash r.value))

/-- `Backtest.positions` (= `strategy.positions`) on one date -/
def positionsAt (s : Snap ι α) : List (ι × α) := secAgg Cell.pos s

/-- `strategy.outlays` on one date -/
def outlaysAt (s : Snap ι α) : List (ι × α) := secAgg Cell.outlay s

/-- `Backtest.herfindahl_index` on one date: `(security_weights ** 2).sum(axis=1)` -/
def herfindahlAt (fi : Bool) (s : Snap ι α) : α :=
  sumSome ((securityWeightsAt fi s).map (fun kw => kw.2.map (fun w => w * w)))

/-- total of the non-negative aggregated outlays (purchases) -/
def purchasesAt (s : Snap ι α) : α := sumL ((outlaysAt s).map (fun kx => posPart kx.2))

/-- absolute total of the negative aggregated outlays (sales) -/
def salesAt (s : Snap ι α) : α := absA (sumL ((outlaysAt s).map (fun kx => negPart kx.2)))

/-- `Backtest.turnover` on one date: min(purchases, sales) over the root's VALUE (also under a fixed-income
    root).  Without any security the outlay frame is empty; `min_outlay.reindex(values.index).fillna(0.0)`
    makes the numerator 0 on every date. -/
def turnoverAt (s : Snap ι α) : Option α :=
  match s with
  | [] => none
  | (_, r) :: _ =>
    if (outlaysAt s).isEmpty then divO 0 r.value
    else divO (minA (purchasesAt s) (salesAt s)) r.value

/-- `Result.prices[name]` / `backtest.stats.prices`: the root's `_prices` row (the strategy's index) -/
def resultPriceAt (s : Snap ι α) : Option α :=
  match s with
  | [] => none
  | (_, r) :: _ => r.price

/-- `{x.name: x.<series> for x in securities}[k]` on one date: the last security named `k` -/
def lastOf {β : Type} (f : Cell α → β) (k : ι) (s : Snap ι α) : Option β :=
  ((s.filter (fun nc => nc.1.isSec && decide (nc.1.short = k))).getLast?).map (fun nc => f nc.2)

/-- the traded quantity of a (date, ticker): first row = the position itself, later rows = difference to the
    previous row of the aggregated positions -/
def qtyAt (prev : Option (List (ι × α))) (k : ι) (cur : α) : α :=
  match prev with
  | none => cur
  | some pv =>
    match getK k pv with
    | some p => cur - p
    | none => cur            -- a column missing on the previous row: not possible in one frame

/-- bid/offer paid per unit of price: `x.bidoffers_paid / x.multiplier`, aggregated over same-named securities
    like the positions -/
def spreadAt (s : Snap ι α) : List (ι × α) := secAgg (fun c => c.boPaid / c.mult) s

/-- the reported price: the (last same-named) security's market price, plus — when bid/offer accounting is on —
    the aggregated (bid/offer paid / multiplier) of that ticker on that date over the aggregated quantity -/
def txnPrice (boSet : Bool) (k : ι) (d : α) (s : Snap ι α) : Option α :=
  match lastOf Cell.price k s with
  | some (some p) =>
    if boSet then
      match getK k (spreadAt s) with
      | some b => ofNum (p + b / d)
      | none => none
    else some p
  | _ => none

/-- the row of one (date, ticker), if the quantity is non-zero -/
def txnRow (boSet : Bool) (t : Nat) (prev : Option (List (ι × α))) (s : Snap ι α) (kx : ι × α) : Option (Txn ι α) :=
  if isNonzero (qtyAt prev kx.1 kx.2) then
    some { date := t, name := kx.1, qty := qtyAt prev kx.1 kx.2, price := txnPrice boSet kx.1 (qtyAt prev kx.1 kx.2) s }
  else none

/-- tickers of one date in `sort_index` order -/
def sortedPositions (s : Snap ι α) : List (ι × α) :=
  Bt.Select.sortBy (fun a b => decide (a.1 ≤ b.1)) (positionsAt s)

/-- the transactions of one date -/
def txnRows (boSet : Bool) (t : Nat) (prev : Option (List (ι × α))) (s : Snap ι α) : List (Txn ι α) :=
  (sortedPositions s).filterMap (txnRow boSet t prev s)

/-- transactions of the dates `t, t+1, …` given the previous date's aggregated positions -/
def txnFrom (boSet : Bool) : Nat → Option (List (ι × α)) → List (Snap ι α) → List (Txn ι α)
  | _, _, [] => []
  | t, prev, s :: rest => txnRows boSet t prev s ++ txnFrom boSet (t + 1) (some (positionsAt s)) rest

/-- `StrategyBase.get_transactions()` (= `Result.get_transactions()`) -/
def transactions (r : Run ι α) : List (Txn ι α) := txnFrom r.boSet 0 none r.dates

/-- cumulated quantity of ticker `k` over the rows dated `≤ t` -/
def cumQty (k : ι) (t : Nat) (l : List (Txn ι α)) : α :=
  sumL ((l.filter (fun r => decide (r.name = k) && decide (r.date ≤ t))).map (fun r => r.qty))

/-- all reports of one date -/
structure DayReport (ι α : Type) where
  weights : List (ι × Option α)
  secWeights : List (ι × Option α)
  positions : List (ι × α)
  outlays : List (ι × α)
  herfindahl : α
  turnover : Option α
  price : Option α

def reportAt (fi : Bool) (s : Snap ι α) : DayReport ι α :=
  { weights := weightsAt fi s, secWeights := securityWeightsAt fi s, positions := positionsAt s,
    outlays := outlaysAt s, herfindahl := herfindahlAt fi s, turnover := turnoverAt s, price := resultPriceAt s }

/-- every date's reports -/
def reports (r : Run ι α) : List (DayReport ι α) := r.dates.map (reportAt r.fi)

end Reports

/-! ### ReplayTransactions

`ReplayTransactions.__call__` on a flat strategy: the rows of the transaction frame dated in
`(previous date, now]` are executed in frame order as `child.transact(quantity, price=price, update=False)`;
then the root is updated.  `transact` at a custom price `P` books `q·p·m + q·(P − p)·m` as outlay and
`commission(q, P·m)` as fee (bt/core.py `SecurityBase.outlay`). -/

inductive RErr where
  | keyError      -- `target[security]`: no such child
  | valueError    -- custom price without bid/offer accounting
  | nanData       -- market price NaN: the code books NaN
  deriving DecidableEq, Repr

def RErr.toString : RErr → String
  | .keyError => "KeyError" | .valueError => "ValueError" | .nanData => "NanData"

/-- a security child of the replaying strategy -/
structure RSec (ι α : Type) where
  name : ι
  mult : α
  pos : α
  deriving DecidableEq, Repr

/-- the replaying strategy between two calls -/
structure RState (ι α : Type) where
  cash : α
  secs : List (RSec ι α)
  deriving DecidableEq, Repr

section Replay
variable {ι α : Type} [DecidableEq ι]
  [Add α] [Sub α] [Mul α] [Div α] [Neg α] [LT α] [DecidableLT α] [LE α] [DecidableLE α]
  [OfNat α 0] [OfNat α 1]

/-- the cash a custom-price transaction of `q` at `P` takes (market price `p`, multiplier `m`) -/
def replayOutlay (q p P m : α) : α := q * p * m + q * (P - p) * m

/-- `position += q` on the child named `k` -/
def bumpPos (k : ι) (q : α) : List (RSec ι α) → List (RSec ι α)
  | [] => []
  | s :: r => if s.name = k then { s with pos := s.pos + q } :: r else s :: bumpPos k q r

def findSec (k : ι) : List (RSec ι α) → Option (RSec ι α)
  | [] => none
  | s :: r => if s.name = k then some s else findSec k r

/-- one row: `target[k].transact(q, price=P, update=False)`; `px` = today's market prices.
    A NaN or `is_zero` quantity returns before anything is touched. -/
def replayRow (boSet : Bool) (tol : α) (fee : α → α → α) (px : ι → Option α) (st : RState ι α)
    (k : ι) (q : Option α) (P : Option α) : Except RErr (RState ι α) :=
  match findSec k st.secs with
  | none => .error .keyError
  | some s =>
    match q with
    | none => .ok st
    | some q =>
      if isZero tol q then .ok st
      else if !boSet then .error .valueError
      else match px k, P with
        | some p, some P =>
          .ok { cash := st.cash - (replayOutlay q p P s.mult + fee q (P * s.mult)),
                secs := bumpPos k q st.secs }
        | _, _ => .error .nanData

/-- one call of the algo: the rows of the date, in order -/
def replayDay (boSet : Bool) (tol : α) (fee : α → α → α) (px : ι → Option α) :
    RState ι α → List (ι × Option α × Option α) → Except RErr (RState ι α)
  | st, [] => .ok st
  | st, (k, q, P) :: rest =>
    match replayRow boSet tol fee px st k q P with
    | .error e => .error e
    | .ok st' => replayDay boSet tol fee px st' rest

/-- the rows of `get_transactions()` dated `t`, as the algo's row list -/
def rowsOn (t : Nat) (l : List (Txn ι α)) : List (ι × Option α × Option α) :=
  (l.filter (fun r => decide (r.date = t))).map (fun r => (r.name, some r.qty, r.price))

/-- a whole replay: date `t0 + j` executes the rows `rows (t0 + j)` at the market prices `pxs[j]`;
    returns the state after every date -/
def replayRun (boSet : Bool) (tol : α) (fee : α → α → α) (rows : Nat → List (ι × Option α × Option α)) :
    Nat → RState ι α → List (ι → Option α) → Except RErr (List (RState ι α))
  | _, _, [] => .ok []
  | t, st, px :: rest =>
    match replayDay boSet tol fee px st (rows t) with
    | .error e => .error e
    | .ok st' =>
      match replayRun boSet tol fee rows (t + 1) st' rest with
      | .error e => .error e
      | .ok l => .ok (st' :: l)

/-- replaying the output of `get_transactions()` -/
def replayTxns (boSet : Bool) (tol : α) (fee : α → α → α) (txns : List (Txn ι α))
    (t0 : Nat) (st : RState ι α) (pxs : List (ι → Option α)) : Except RErr (List (RState ι α)) :=
  replayRun boSet tol fee (fun t => rowsOn t txns) t0 st pxs

/-- the value the root records after the date's update: cash + Σ position·price·multiplier
    (a security with a NaN price and no position is worth 0; with a position the update raises) -/
def replayValue (tol : α) (px : ι → Option α) (st : RState ι α) : Except RErr α :=
  st.secs.foldl (fun acc s =>
    match acc with
    | .error e => .error e
    | .ok v =>
      match px s.name with
      | some p => .ok (v + s.pos * p * s.mult)
      | none => if isZero tol s.pos then .ok v else .error .nanData) (.ok st.cash)

/-! ### The original run, day by day (what the ledger books: C07)

A trade of `q` units executed at the market price `p` books `q·p·m` plus the spread cost `b`
(`|q|·½·bidoffer·m` for a market trade, `marketSpread`) as outlay and `commission(q, p·m)` as fee. -/

/-- an executed trade of the original run -/
structure OTrade (ι α : Type) where
  name : ι
  qty : α
  price : α       -- the security's market price on the date
  spread : α      -- bid/offer paid by this trade (cash, multiplier included)
  mult : α        -- the security's multiplier

/-- `abs(q) * 0.5 * bidoffer * multiplier` with `half = 0.5 * bidoffer` -/
def marketSpread (q half m : α) : α := absA q * half * m

/-- multiplier of the child named `k` (1 when there is no such child) -/
def multOf (k : ι) (secs : List (RSec ι α)) : α :=
  match findSec k secs with
  | some s => s.mult
  | none => 1

/-- `position += q`, cash falls by `cost` -/
def applyTrade (st : RState ι α) (k : ι) (q cost : α) : RState ι α :=
  { cash := st.cash - cost, secs := bumpPos k q st.secs }

/-- what the original trade takes from the strategy's cash -/
def origCost (fee : α → α → α) (m : α) (tr : OTrade ι α) : α :=
  tr.qty * tr.price * m + tr.spread + fee tr.qty (tr.price * m)

/-- the original run's trades of one date, in execution order -/
def origDay (fee : α → α → α) (st : RState ι α) (trades : List (OTrade ι α)) : RState ι α :=
  trades.foldl (fun st tr => applyTrade st tr.name tr.qty (origCost fee (multOf tr.name st.secs) tr)) st

/-- the row `get_transactions()` shows for a date's only trade of a ticker: quantity and
    market price + (spread paid / multiplier) / quantity (`txnRow_of_single_trade`) -/
def listedRow (tr : OTrade ι α) : ι × Option α × Option α :=
  (tr.name, some tr.qty, ofNum (tr.price + tr.spread / tr.mult / tr.qty))

/-- the states after every date of the original run -/
def origRun (fee : α → α → α) : RState ι α → List (List (OTrade ι α)) → List (RState ι α)
  | _, [] => []
  | st, d :: rest => origDay fee st d :: origRun fee (origDay fee st d) rest

end Replay

end Bt.Report
