import Bt.Num
/-
  `bt.backtest.RenormalizedFixedIncomeResult._price(s, v)` (bt/backtest.py l.599-608):

      returns = s.values.diff() - s.flows
      prices = bt.core.PAR * (1.0 + (returns / v).cumsum())
      prices.iloc[0] = bt.core.PAR

  as a function of the strategy's recorded value and flows rows (one common index: the backtest's dates, synthetic first row
  included).  `diff()` leaves NaN in row 0; `cumsum` (skipna) treats that NaN as 0 for the running total and shows NaN in row 0,
  which the last statement overwrites with PAR.  So row 0 is PAR and row t >= 1 is
  `PAR * (1 + ((0 + r_1/v) + r_2/v + ... + r_t/v))` with `r_s = (value_s - value_{s-1}) - flows_s`, added left to right (numpy's
  `cumsum`), each return divided by `v` *before* it is added - the operation order the `Float` instance reproduces.

  Mirrors what the code does: a normalising value of 0 gives inf / NaN rows (IEEE division), nothing is refused.
-/
namespace Bt.Renorm

section Num
variable {α : Type} [Add α] [Sub α] [Mul α] [Div α] [OfNat α 0] [OfNat α 1]

/-- rows 1.. of `values.diff() - flows` -/
def netReturns : List α → List α → List α
  | v0 :: v1 :: vs, _ :: f1 :: fs => ((v1 - v0) - f1) :: netReturns (v1 :: vs) (f1 :: fs)
  | _, _ => []

/-- `numpy.cumsum` continued from a running total: left to right -/
def cumFrom (acc : α) : List α → List α
  | [] => []
  | x :: xs => (acc + x) :: cumFrom (acc + x) xs

/-- rows 1.. of `(returns / v).cumsum()` -/
def cumReturns (v : α) (values flows : List α) : List α :=
  cumFrom 0 ((netReturns values flows).map (fun r => r / v))

/-- the renormalised price series -/
def renormPrices (par v : α) (values flows : List α) : List α :=
  match values with
  | [] => []
  | _ :: _ => par :: (cumReturns v values flows).map (fun c => par * (1 + c))

/-! ### the normalising value as a series (`returns / v` row by row), NaN as pandas treats it

  `normalizing_value` may be a `pd.Series` on the backtest's dates.  A NaN cell of `returns / v` (a missing normaliser, `0 / 0`) is
  skipped by `cumsum`: that row shows NaN, the running total carries on.  `±inf` (a non-zero return over a zero normaliser) is a
  number to `cumsum` and stays in the total.  The scalar case is the constant series. -/

/-- a computed number as a pandas cell: NaN (the only `x` with `¬ x ≤ x`) is missing -/
def ofNum [LE α] [DecidableLE α] (x : α) : Option α := if x ≤ x then some x else none

/-- rows 1.. of `returns / v` -/
def scaled [LE α] [DecidableLE α] : List α → List (Option α) → List (Option α)
  | r :: rs, v :: vs => (v.bind fun v => ofNum (r / v)) :: scaled rs vs
  | _, _ => []

/-- `Series.cumsum()` (skipna) continued from a running total -/
def cumFromO (acc : α) : List (Option α) → List (Option α)
  | [] => []
  | none :: xs => none :: cumFromO acc xs
  | some x :: xs => some (acc + x) :: cumFromO (acc + x) xs

/-- the renormalised price series for a normaliser given row by row (`vs` has one cell per date; its first cell is never used) -/
def renormPricesS [LE α] [DecidableLE α] (par : α) (vs : List (Option α)) (values flows : List α) : List (Option α) :=
  match values with
  | [] => []
  | _ :: _ => some par :: (cumFromO 0 (scaled (netReturns values flows) vs.tail)).map (Option.map fun c => par * (1 + c))

/-- the additive index a fixed-income strategy records when every date's return is measured on the base `base t`
    (`StrategyBase.update`: `price = last_price + pnl / base * PAR`, `pnl = value - (last_value + net_flows)`): rows 1.. -/
def additiveFrom (par : α) (p : α) : List α → List α → List α → List α
  | v0 :: v1 :: vs, _ :: f1 :: fs, b1 :: bs =>
      let p' := p + (v1 - (v0 + f1)) / b1 * par
      p' :: additiveFrom par p' (v1 :: vs) (f1 :: fs) bs
  | _, _, _ => []

/-- the additive index from PAR on row 0; `bases` lists the bases of rows 1.. -/
def additiveIndex (par : α) (values flows bases : List α) : List α :=
  match values with
  | [] => []
  | _ :: _ => par :: additiveFrom par par values flows bases

end Num

end Bt.Renorm
