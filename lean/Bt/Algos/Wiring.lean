/-
  Tree wiring and universe scoping (property C19).

  Code modelled (bt/core.py, bt/backtest.py of /repo):
    * `Node.__init__` (with and without `parent=`), `Node._add_children` (lists, dicts, strings, `lazy_add`
      securities, deep copies, the two duplicate checks), `_set_root`, `use_integer_positions`, `members`,
      `full_name`;
    * `StrategyBase.__init__` (default commission function), `set_commissions` / `use_integer_positions` (incl. the
      push to the shadow copy), `setup` (universe filter, sub-strategy columns also for a parent built without
      children, shadow copy `_paper`, children set up with the ORIGINAL data), the fixed-income
      guard of `setup`, `setup_from_parent`, the sub-strategy columns written by `update`,
      `_create_child_if_needed` and the catch-up `update(parent.now)` of `SecurityBase.allocate/transact`;
    * `SecurityBase.__init__/setup/update` as far as wiring goes (`lazy_add`, `_prices_set`, `now`,
      `_needupdate`; positions are zero throughout: nothing is traded by a wiring script);
    * `Backtest.__init__`: deep copy (a value copy here), `use_integer_positions`, `set_commissions`.

  Object references are modelled relative to the structure: `parent` is either the node itself (`isTop`) or the
  structural parent; `root` is the ancestor `rootUp` levels above the node (a value larger than the node's depth
  designates an object outside the tree, which is what the descendants of a shadow copy hold).  Commission
  functions are opaque ids; `none` is the node's own default `_dflt_comm_fn`.  Dates are row indices, the
  sentinel `now == 0` is `none`.
-/
namespace Bt.Wiring

/-- the five security classes -/
inductive Kind where
  | plain | fi | coupon | hedge | couponHedge
  deriving DecidableEq, Repr, Inhabited

/-- `_fixed_income` as set by the class constructors -/
def Kind.fixedIncome : Kind → Bool
  | .plain | .hedge => false
  | .fi | .coupon | .couponHedge => true

inductive Err where
  | childExists      -- ValueError("Child %s already exists")
  | fiUnderNonFi     -- ValueError("Cannot have fixed income strategy child ... of non-fixed income strategy")
  | badScript        -- the script addresses something that does not exist (driver level, never generated)
  deriving DecidableEq, Repr, Inhabited

def Err.toString : Err → String
  | .childExists => "ChildExists"
  | .fiUnderNonFi => "FiUnderNonFi"
  | .badScript => "BadScript"

/-- a security object -/
structure SecW where
  name : String
  kind : Kind
  lazy : Bool                -- `lazy_add`
  integer : Bool             -- `integer_positions`
  isTop : Bool               -- `parent is self`
  rootUp : Nat               -- `root` = the ancestor this many levels up
  pricesSet : Option Bool    -- `_prices_set` (`none` before setup)
  now : Option Nat
  needupdate : Bool
  deriving DecidableEq, Repr, Inhabited

/-- a strategy object (without its children) -/
structure StratW where
  name : String
  fi : Bool                          -- `_fixed_income`
  integer : Bool
  isTop : Bool
  rootUp : Nat
  comm : Option Nat                  -- `commission_fn` (`none` = own default)
  origPresent : Bool                 -- `_original_children_are_present`
  tickers : List String              -- `_universe_tickers`
  stratKids : List String            -- `_strat_children` (`_has_strat_children` = non-empty)
  pool : List SecW                   -- `_lazy_children` (dict: insertion order, assignment replaces in place)
  dataCols : Option (List String)    -- columns of `_original_data` (`none` before setup)
  univ : Option (List String)        -- columns of `_universe`
  now : Option Nat
  paperTrade : Bool                  -- `_paper_trade`
  deriving DecidableEq, Repr, Inhabited

inductive Tree where
  | sec (d : SecW)
  | strat (d : StratW) (kids : List Tree) (paper : Option Tree)
  deriving Repr, Inhabited

def Tree.name : Tree → String
  | .sec s => s.name
  | .strat d _ _ => d.name

def Tree.isStrat : Tree → Bool
  | .sec _ => false
  | .strat _ _ _ => true

def Tree.integer : Tree → Bool
  | .sec s => s.integer
  | .strat d _ _ => d.integer

def Tree.kids : Tree → List Tree
  | .sec _ => []
  | .strat _ ks _ => ks

/-- names of the realised children (`self.children` keys, in `_childrenv` order) -/
def names (ks : List Tree) : List String := ks.map Tree.name

/-! ### fresh objects -/

/-- `Security(name, lazy_add=…)` and the four other classes: a parentless node is its own parent and root,
    `integer_positions = True` -/
def mkSec (kind : Kind) (name : String) (lazy : Bool) : SecW :=
  { name, kind, lazy, integer := true, isTop := true, rootUp := 0, pricesSet := none, now := none, needupdate := true }

/-- `Strategy(name, children=…)` before its children are added; `present` = `children is not None and len >= 1` -/
def mkStrat (fi : Bool) (name : String) (present : Bool) : StratW :=
  { name, fi, integer := true, isTop := true, rootUp := 0, comm := none, origPresent := present, tickers := [],
    stratKids := [], pool := [], dataCols := none, univ := none, now := none, paperTrade := false }

/-! ### pushing pointers and settings down -/

mutual
/-- `_set_root(root)`: the node and every realised descendant point to the same object, i.e. one level further
    up per level of depth; lazy children and shadow copies are not reached -/
def setRoot (n : Nat) : Tree → Tree
  | .sec s => .sec { s with rootUp := n }
  | .strat d ks p => .strat { d with rootUp := n } (setRootL (n + 1) ks) p
def setRootL (n : Nat) : List Tree → List Tree
  | [] => []
  | k :: ks => setRoot n k :: setRootL n ks
end

mutual
/-- `use_integer_positions(b)`: the node, every realised descendant (`_childrenv`) and, for a strategy that has
    one, its shadow copy `_paper` (which pushes on in the same way) -/
def useInt (b : Bool) : Tree → Tree
  | .sec s => .sec { s with integer := b }
  | .strat d ks p => .strat { d with integer := b } (useIntL b ks) (useIntO b p)
def useIntL (b : Bool) : List Tree → List Tree
  | [] => []
  | k :: ks => useInt b k :: useIntL b ks
def useIntO (b : Bool) : Option Tree → Option Tree
  | none => none
  | some t => some (useInt b t)
end

mutual
/-- `set_commissions(fn)`: the strategy, every realised strategy descendant and the shadow copy; securities have
    no commission function of their own (`SecurityBase.commission` asks the parent) -/
def setComm (c : Nat) : Tree → Tree
  | .sec s => .sec s
  | .strat d ks p => .strat { d with comm := some c } (setCommL c ks) (setCommO c p)
def setCommL (c : Nat) : List Tree → List Tree
  | [] => []
  | k :: ks => setComm c k :: setCommL c ks
def setCommO (c : Nat) : Option Tree → Option Tree
  | none => none
  | some t => some (setComm c t)
end

/-- `c.parent = self` -/
def setParent : Tree → Tree
  | .sec s => .sec { s with isTop := false }
  | .strat d ks p => .strat { d with isTop := false } ks p

/-- the three lines of `_add_children` that wire a realised child:
    `c.parent = self; c._set_root(self.root); c.use_integer_positions(self.integer_positions)` -/
def adopt (d : StratW) (c : Tree) : Tree := useInt d.integer (setRoot (d.rootUp + 1) (setParent c))

/-! ### `_add_children`, one child at a time -/

/-- `self._lazy_children[c.name] = c` -/
def poolInsert (s : SecW) : List SecW → List SecW
  | [] => [s]
  | x :: xs => if x.name = s.name then s :: xs else x :: poolInsert s xs

/-- `if name not in self._universe_tickers: self._universe_tickers.append(name)` -/
def addTicker (n : String) (ts : List String) : List String := if n ∈ ts then ts else ts ++ [n]

/-- a string child: refused when a non-strategy child of that name was seen before, otherwise a default
    `Security(c, lazy_add=True)` goes to the lazy pool -/
def addStr (d : StratW) (ks : List Tree) (n : String) : Except Err (StratW × List Tree) :=
  if n ∈ d.tickers then .error .childExists
  else .ok ({ d with pool := poolInsert (mkSec .plain n true) d.pool, tickers := d.tickers ++ [n] }, ks)

/-- a node child (already a copy of its own): lazy securities go to the pool without any check, everything else
    is refused when a realised child has that name, otherwise wired and appended -/
def addNode (d : StratW) (ks : List Tree) (c : Tree) : Except Err (StratW × List Tree) :=
  match c with
  | .sec s =>
    if s.lazy then .ok ({ d with pool := poolInsert s d.pool, tickers := addTicker s.name d.tickers }, ks)
    else if s.name ∈ names ks then .error .childExists
    else .ok ({ d with tickers := addTicker s.name d.tickers }, ks ++ [adopt d (.sec s)])
  | .strat cd cks cp =>
    if cd.name ∈ names ks then .error .childExists
    else .ok ({ d with stratKids := d.stratKids ++ [cd.name] }, ks ++ [adopt d (.strat cd cks cp)])

/-- an element of the `children` argument after the objects have been constructed -/
inductive Item where
  | name (s : String)
  | node (t : Tree)
  deriving Repr, Inhabited

def addItem (d : StratW) (ks : List Tree) : Item → Except Err (StratW × List Tree)
  | .name s => addStr d ks s
  | .node t => addNode d ks t

/-- the loop of `_add_children` -/
def addAll (d : StratW) (ks : List Tree) : List Item → Except Err (StratW × List Tree)
  | [] => .ok (d, ks)
  | i :: rest =>
    match addItem d ks i with
    | .error e => .error e
    | .ok (d', ks') => addAll d' ks' rest

/-! ### the construction language -/

/-- what the user writes: a string, a security object, `Strategy(name, children=[…])` /
    `FixedIncomeStrategy(…)`; a `children` dict is the list `dictKids` makes of it -/
inductive Spec where
  | str (name : String)
  | sec (kind : Kind) (name : String) (lazy : Bool)
  | strat (fi : Bool) (name : String) (kids : List Spec)
  deriving Repr, Inhabited

/-- `c.name = name` for a dict entry (a string value is replaced by the key) -/
def Spec.rename (k : String) : Spec → Spec
  | .str _ => .str k
  | .sec kind _ l => .sec kind k l
  | .strat fi _ kids => .strat fi k kids

/-- `children={key: child}`: "preserve the names from the dictionary by renaming the nodes" -/
def dictKids (kv : List (String × Spec)) : List Spec := kv.map (fun p => p.2.rename p.1)

def Spec.name : Spec → String
  | .str n => n
  | .sec _ n _ => n
  | .strat _ n _ => n

mutual
/-- evaluating one element of a `children` list: the child object is constructed (bottom-up, as Python
    evaluates the argument before the call), strings stay strings -/
def buildItem : Spec → Except Err Item
  | .str s => .ok (.name s)
  | .sec k n l => .ok (.node (.sec (mkSec k n l)))
  | .strat fi n kids =>
    match buildItems kids with
    | .error e => .error e
    | .ok items =>
      match addAll (mkStrat fi n (!kids.isEmpty)) [] items with
      | .error e => .error e
      | .ok (d, ks) => .ok (.node (.strat d ks none))
def buildItems : List Spec → Except Err (List Item)
  | [] => .ok []
  | s :: rest =>
    match buildItem s with
    | .error e => .error e
    | .ok i =>
      match buildItems rest with
      | .error e => .error e
      | .ok is => .ok (i :: is)
end

/-- constructing a tree from a specification -/
def build (s : Spec) : Except Err Tree :=
  match buildItem s with
  | .error e => .error e
  | .ok (.node t) => .ok t
  | .ok (.name _) => .error .badScript

/-! ### addressing a strategy inside the tree -/

abbrev Path := List String

mutual
/-- apply `f` to the strategy reached from the top by the child names in the path -/
def modifyAt (f : StratW → List Tree → Option Tree → Except Err Tree) : Path → Tree → Except Err Tree
  | _, .sec _ => .error .badScript
  | [], .strat d ks p => f d ks p
  | n :: rest, .strat d ks p =>
    match modifyAtL f n rest ks with
    | .error e => .error e
    | .ok ks' => .ok (.strat d ks' p)
def modifyAtL (f : StratW → List Tree → Option Tree → Except Err Tree) (n : String) (rest : Path) :
    List Tree → Except Err (List Tree)
  | [] => .error .badScript
  | k :: ks =>
    if k.name = n then
      match modifyAt f rest k with
      | .error e => .error e
      | .ok k' => .ok (k' :: ks)
    else
      match modifyAtL f n rest ks with
      | .error e => .error e
      | .ok ks' => .ok (k :: ks')
end

/-! ### children attached later: `Strategy(name, children=kids, parent=P)` -/

/-- `Node.__init__` with a parent: the empty new node is registered with the parent first (duplicate check
    against the realised children, wiring, `_strat_children`), then its own children are added to it in place -/
def attachNode (name : String) (kids : List Spec) (d : StratW) (ks : List Tree) (p : Option Tree) : Except Err Tree :=
  match buildItems kids with
  | .error e => .error e
  | .ok items =>
    if name ∈ names ks then .error .childExists
    else
      match adopt d (.strat (mkStrat false name (!kids.isEmpty)) [] none) with
      | .sec _ => .error .badScript
      | .strat cd _ _ =>
        match addAll cd [] items with
        | .error e => .error e
        | .ok (cd', cks) => .ok (.strat { d with stratKids := d.stratKids ++ [name] } (ks ++ [.strat cd' cks none]) p)

/-! ### setup -/

/-- `funiverse[c] = np.nan` for each name: an existing column is overwritten in place, a new one is appended -/
def addCols (base : List String) : List String → List String
  | [] => base
  | c :: cs => addCols (if c ∈ base then base else base ++ [c]) cs

/-- columns of `_universe` right after `setup`: the declared tickers that are in the data, in the data's order (all
    data columns for a strategy constructed without children), then a column per name in `_strat_children` -/
def universeCols (d : StratW) (cols : List String) : List String :=
  addCols (if d.origPresent then cols.filter (fun c => c ∈ d.tickers) else cols) d.stratKids

def setupSec (cols : List String) (s : SecW) : SecW := { s with pricesSet := some (decide (s.name ∈ cols)) }

def setupD (cols : List String) (d : StratW) : StratW :=
  { d with dataCols := some cols, univ := some (universeCols d cols), paperTrade := !d.isTop }

/-- the shadow copy's own fields: `paper.parent = paper; paper._set_root(paper); paper._paper_trade = False` -/
def asTopD (d : StratW) : StratW := { d with isTop := true, rootUp := 0 }

mutual
/-- `setup(universe)`: every child is set up with the original data; a strategy that is not its own parent
    gets a shadow copy: a deep copy made its own parent, re-rooted as a whole (`_set_root`) and set up as a top
    node (re-rooting and setting up commute: `Bt.Wiring.setupL_setRootL`) -/
def setupNode (cols : List String) : Tree → Tree
  | .sec s => .sec (setupSec cols s)
  | .strat d ks _ =>
    .strat (setupD cols d) (setupL cols ks)
      (if d.isTop then none else some (.strat (setupD cols (asTopD d)) (setRootL 1 (setupL cols ks)) none))
def setupL (cols : List String) : List Tree → List Tree
  | [] => []
  | k :: ks => setupNode cols k :: setupL cols ks
end

mutual
/-- the guard of `StrategyBase.setup`: no fixed-income strategy under a strategy that is not -/
def fiOk (parentFi : Bool) : Tree → Bool
  | .sec _ => true
  | .strat d ks _ => (!d.fi || parentFi) && fiOkL d.fi ks
def fiOkL (parentFi : Bool) : List Tree → Bool
  | [] => true
  | k :: ks => fiOk parentFi k && fiOkL parentFi ks
end

/-- `root.setup(data)` -/
def setupTop (cols : List String) (t : Tree) : Except Err Tree :=
  if fiOk true t then .ok (setupNode cols t) else .error .fiUnderNonFi

/-! ### update (what it does to wiring: `now`, idle securities, sub-strategy columns, shadow copies) -/

/-- `SecurityBase.update(date)` at zero position and zero weight -/
def secUpdate (date : Option Nat) (s : SecW) : SecW :=
  if date = s.now then s else { s with now := date, needupdate := false }

def stratCols (d : StratW) : Option (List String) :=
  match d.univ with
  | none => none
  | some u => some (addCols u d.stratKids)

mutual
def updateNode (i : Nat) : Tree → Tree
  | .sec s => .sec (if s.needupdate then secUpdate (some i) s else s)
  | .strat d ks p =>
    .strat { d with now := some i, univ := stratCols d } (updateL i ks)
      (if d.paperTrade && d.now != some i then updateO i p else p)
def updateL (i : Nat) : List Tree → List Tree
  | [] => []
  | k :: ks => updateNode i k :: updateL i ks
def updateO (i : Nat) : Option Tree → Option Tree
  | none => none
  | some t => some (updateNode i t)
end

/-! ### lazy creation on first use -/

def poolFind (n : String) : List SecW → Option SecW
  | [] => none
  | x :: xs => if x.name = n then some x else poolFind n xs

def poolErase (n : String) : List SecW → List SecW
  | [] => []
  | x :: xs => if x.name = n then xs else x :: poolErase n xs

/-- `self._lazy_children.pop(child, Security(child))`, then `c.lazy_add = False` -/
def popLazy (n : String) (pool : List SecW) : SecW :=
  match poolFind n pool with
  | some s => { s with lazy := false }
  | none => mkSec .plain n false

/-- the created child: wired by `_add_children`, `setup(self._universe)`, `update(self.now)` -/
def createdChild (d : StratW) (n : String) : Tree :=
  match adopt d (.sec (popLazy n d.pool)) with
  | .sec s => .sec (secUpdate d.now (setupSec (d.univ.getD []) s))
  | .strat cd ks p => .strat cd ks p

/-- the catch-up of `allocate/transact`: `if self._needupdate or self.now != self.parent.now: self.update(parent.now)` -/
def catchUp (now : Option Nat) : Tree → Tree
  | .sec s => .sec (secUpdate now s)
  | .strat d ks p => .strat d ks p

def catchUpNamed (now : Option Nat) (n : String) : List Tree → List Tree
  | [] => []
  | k :: ks => if k.name = n then catchUp now k :: ks else k :: catchUpNamed now n ks

/-- `strategy.allocate(0, child=n)` / `strategy.transact(0, child=n)`: `_create_child_if_needed(n)`, then the
    child catches up with the parent's date; nothing is traded.  Only after setup, and not on a sub-strategy. -/
def touchNode (n : String) (d : StratW) (ks : List Tree) (p : Option Tree) : Except Err Tree :=
  match d.univ with
  | none => .error .badScript
  | some _ =>
    if n ∈ names ks then
      if n ∈ d.stratKids then .error .badScript
      else .ok (.strat d (catchUpNamed d.now n ks) p)
    else
      .ok (.strat { d with pool := poolErase n d.pool, tickers := addTicker n d.tickers } (ks ++ [createdChild d n]) p)

/-! ### `setup_from_parent` of a child attached after the parent's setup -/

def setupNamed (cols : List String) (n : String) : List Tree → List Tree
  | [] => []
  | k :: ks => if k.name = n then setupNode cols k :: ks else k :: setupNamed cols n ks

def findNamed (n : String) : List Tree → Option Tree
  | [] => none
  | k :: ks => if k.name = n then some k else findNamed n ks

/-- `child.setup(parent._original_data, **kwargs)`, then
    `if child.name not in parent._universe: parent._universe[child.name] = np.nan` -/
def setupFromParentNode (n : String) (d : StratW) (ks : List Tree) (p : Option Tree) : Except Err Tree :=
  match d.dataCols, d.univ, findNamed n ks with
  | some cols, some u, some (.strat cd cks cp) =>
    if fiOk d.fi (.strat cd cks cp) then
      .ok (.strat { d with univ := some (addCols u [n]) } (setupNamed cols n ks) p)
    else .error .fiUnderNonFi
  | _, _, _ => .error .badScript

/-! ### scripts -/

inductive Op where
  | attach (path : Path) (name : String) (kids : List Spec)   -- `Strategy(name, children=kids, parent=node(path))`
  | useInt (path : Path) (b : Bool)                           -- `node(path).use_integer_positions(b)`
  | setComm (path : Path) (c : Nat)                           -- `node(path).set_commissions(fn_c)`
  | setup (cols : List String)                                -- `root.setup(data)`
  | update (i : Nat)                                          -- `root.update(dates[i])`
  | touch (path : Path) (name : String)                       -- `node(path).allocate/transact(0, child=name)`
  | setupFromParent (path : Path) (name : String)             -- `node(path)[name].setup_from_parent()`
  deriving Repr, Inhabited

/-- `bt.Backtest(root, data, integer_positions=b, commissions=fn).strategy`: a deep copy with the two settings
    pushed from the top -/
def backtestOps (b : Bool) (c : Option Nat) : List Op :=
  .useInt [] b :: (match c with | none => [] | some id => [.setComm [] id])

def applyOp (t : Tree) : Op → Except Err Tree
  | .attach path name kids => modifyAt (attachNode name kids) path t
  | .useInt path b => modifyAt (fun d ks p => .ok (useInt b (.strat d ks p))) path t
  | .setComm path c => modifyAt (fun d ks p => .ok (setComm c (.strat d ks p))) path t
  | .setup cols => setupTop cols t
  | .update i => .ok (updateNode i t)
  | .touch path name => modifyAt (touchNode name) path t
  | .setupFromParent path name => modifyAt (setupFromParentNode name) path t

/-- run the operations in order; the index of the failing operation is reported with the error -/
def runOps (t : Tree) (k : Nat) : List Op → Except (Nat × Err) Tree
  | [] => .ok t
  | op :: rest =>
    match applyOp t op with
    | .error e => .error (k, e)
    | .ok t' => runOps t' (k + 1) rest

/-- a whole script: construct, then operate.  The construction is operation 0. -/
def runScript (s : Spec) (ops : List Op) : Except (Nat × Err) Tree :=
  match build s with
  | .error e => .error (0, e)
  | .ok t => runOps t 1 ops

/-! ### what the code computes from the pointers: `members`, `full_name` -/

/-- `full_name`: the node's name if it is its own parent, else the parent's full name, `>`, the name -/
def fullOf (isTop : Bool) (parentFull name : String) : String :=
  if isTop then name else parentFull ++ ">" ++ name

/-- one entry of `members` -/
structure Info where
  path : Path                -- structural position: names from the top down to the node
  fullName : String          -- `full_name`, computed through the parent pointers as the code does
  isTop : Bool
  rootUp : Nat
  integer : Bool
  isStrat : Bool
  comm : Option Nat          -- a strategy's `commission_fn`; for a security the one its trades are charged
                             -- with, `self.parent.commission_fn`
  deriving DecidableEq, Repr, Inhabited

mutual
/-- `members`: `res = [self]; for c in self.children.values(): res.extend(c.members)` -/
def infos (pfx : Path) (parentFull : String) (parentComm : Option Nat) : Tree → List Info
  | .sec s =>
    [{ path := pfx ++ [s.name], fullName := fullOf s.isTop parentFull s.name, isTop := s.isTop, rootUp := s.rootUp,
       integer := s.integer, isStrat := false, comm := parentComm }]
  | .strat d ks _ =>
    { path := pfx ++ [d.name], fullName := fullOf d.isTop parentFull d.name, isTop := d.isTop, rootUp := d.rootUp,
      integer := d.integer, isStrat := true, comm := d.comm }
      :: infosL (pfx ++ [d.name]) (fullOf d.isTop parentFull d.name) d.comm ks
def infosL (pfx : Path) (parentFull : String) (parentComm : Option Nat) : List Tree → List Info
  | [] => []
  | k :: ks => infos pfx parentFull parentComm k ++ infosL pfx parentFull parentComm ks
end

def members (t : Tree) : List Info := infos [] "" none t

/-- `>`-joined names -/
def joinPath : Path → String
  | [] => ""
  | n :: ns => ns.foldl (fun acc x => acc ++ ">" ++ x) n

/-- the node the parent pointer designates, as a structural path -/
def Info.parentPath (i : Info) : Path := if i.isTop then i.path else i.path.dropLast

/-- the node the root pointer designates (`none`: an object outside the tree) -/
def Info.rootPath (i : Info) : Option Path :=
  if i.rootUp < i.path.length then some (i.path.take (i.path.length - i.rootUp)) else none

end Bt.Wiring
