import Bt.Algos.Program
import Bt.Algos.Select
import Bt.Algos.ProgramF
/-
  Whole programs, extended: the selection part of a stack is any sequence of the selection algos modelled for C14
  (`Bt/Algos/Select.lean`: SelectAll, SelectThese, SelectHasData, SelectMomentum = StatTotalReturn + SelectN), evaluated on the
  strategy's universe *as the model itself holds it* — the price columns of the security children up to the current row and the
  recorded price index of sub-strategy children —, followed by WeighEqually / WeighSpecified and Rebalance.

  Date offsets (lookback, lag) are resolved to row positions by pandas on the Python side and travel as one entry per row of
  the index (`lo[d]`, `win[d]`), exactly as in the C14 protocol.

  Frame-driven algos (`Bt/Algos/ProgramF.lean`): `SelectWhere(signal)`, `SetStat(stat, lag)` + `SelectN`, `WeighTarget(weights)`
  read a frame the user supplies at `target.now` (or `now − lag`); the row they read on each row of the index is resolved on the
  Python side and travels with the program (`rows[d]`, `ProgX.target`), `none` where the frame has no row for the date.
  `Require`, `SelectRegex`, `SelectTypes` act on `temp['selected']` alone; `CloseDead` (a `WStep`) closes the children whose
  universe price at `target.now` is `<= 0` and drops them from `temp['weights']`.
-/
namespace Bt.Prog
open Bt Bt.Select

section
variable {α : Type} [Add α] [Sub α] [Mul α] [Div α] [Neg α] [LT α] [DecidableLT α]
  [LE α] [DecidableLE α] [OfNat α 0] [OfNat α 1] [HasFloor α] [NatCast α] [HasNatFloor α]

/-- a cell of the universe: a security's price column; a sub-strategy's price index (the parent writes
    `universe.loc[date, child] = child.price` on every update, so past rows are the child's recorded index) -/
def colCell (r d : Nat) : Node α → Option α
  | .sec s => cell s.prices r
  | .strat sd _ => if r == d then some sd.price else sd.rPrice[r]?

/-- `target.universe` at row `d`: columns = the universe's columns (as child indices), rows `0..d` -/
def tableOf (ucols : List Nat) (kids : List (Node α)) (d : Nat) : Table Nat α :=
  { cols := ucols,
    rows := (List.range (d + 1)).map fun r => ucols.map fun i =>
      match kids[i]? with
      | some k => colCell r d k
      | none => none }

inductive SelStep (α : Type) where
  | all (nd neg : Bool)
  | these (idx : List Nat) (nd neg : Bool)
  /-- `SelectHasData(lookback, min_count)`: `lo[d]` = first visible row with date ≥ now − lookback -/
  | hasData (lo : List Nat) (minCount : Nat) (nd neg : Bool)
  /-- `SelectMomentum(n, lookback, lag, sort_descending, all_or_none)`: `win[d]` = positions of `loc[t0 − lookback : t0]` -/
  | momentum (win : List (Option (Nat × Nat))) (n : NSpec α) (asc aon : Bool)
  /-- `SelectWhere(signal, include_no_data, include_negative)`: `scols` = the signal frame's columns (child indices, in the
      frame's order); `rows[d]` = `signal.loc[now]` on row `d` (`none`: the date is not in the frame's index - the algo leaves
      `temp['selected']` as it is and answers True); a cell is `some true` exactly when `sig == True` holds (NaN: `none`) -/
  | where_ (scols : List Nat) (rows : List (Option (List (Option Bool)))) (nd neg : Bool)
  /-- `SetStat(stat, lag)` followed by `SelectN(n, sort_descending, all_or_none, filter_selected)`: `scols` = the statistic
      frame's columns; `rows[d]` = `stat.loc[now - lag]` on row `d` (`none`: that date is not in the frame's index - `SetStat`
      answers False, the stack stops) -/
  | statN (scols : List Nat) (rows : List (Option (List (Option α)))) (n : NSpec α) (asc aon fs : Bool)
  /-- `Require(lambda x: len(x) > 0, 'selected', if_none)` -/
  | require (ifNone : Bool)
  /-- `SelectRegex(regex)`: `ok` = the children whose name the expression matches (`re.search`, evaluated on the Python side) -/
  | regex (ok : List Nat)
  /-- `SelectTypes(include_types, exclude_types)`: `kids` = `target.children` with their classes -/
  | types (kids : List (Nat × Ty)) (incl excl : List Ty)

/-- one selection algo on `temp['selected'] = prior`; `none` = the algo returned False (the stack stops), `some s` = it
    returned True leaving `temp['selected'] = s` (`s = none`: still not set) -/
def selStep (t : Table Nat α) (d : Nat) (prior : Option (List Nat)) :
    SelStep α → Except SelErr (Option (Option (List Nat)))
  | .all nd neg => (selectAll t d nd neg).map fun l => some (some l)
  | .these idx nd neg => (selectThese t d idx nd neg).map fun l => some (some l)
  | .hasData lo mc nd neg => (selectHasData t d (lo.getD d 0) mc nd neg prior).map fun l => some (some l)
  | .momentum win n asc aon =>
    (selectMomentum t d ((win.getD d none)) prior n asc aon).map fun r => r.map fun x => some x.2
  | .where_ scols rows nd neg => (selectWhere t d scols (rows.getD d none) nd neg prior).map some
  | .statN scols rows n asc aon fs =>
    (selectStatN scols (rows.getD d none) prior n asc aon fs).map fun r => r.map some
  | .require ifNone => pure (if requireSel ifNone prior then some prior else none)
  | .regex ok => (selectRegex (fun k => ok.contains k) prior).map fun l => some (some l)
  | .types kids incl excl => pure (some (some (selectTypes kids incl excl prior)))

/-- the selection algos in stack order; `none` = some algo returned False -/
def selSteps (t : Table Nat α) (d : Nat) : List (SelStep α) → Option (List Nat) → Except SelErr (Option (Option (List Nat)))
  | [], prior => pure (some prior)
  | s :: rest, prior =>
    (selStep t d prior s).bind fun r =>
    match r with
    | none => pure none
    | some sel => selSteps t d rest sel

/-! ### weight post-processing between the weigher and `Rebalance`

  `ScaleWeights(s)`, `LimitWeights(l)` and `LimitDeltas(limit)` rewrite `temp['weights']`; the harness algo `SetCash(c)` sets
  `temp['cash']`, which only `Rebalance` reads (so its position in the stack is immaterial: field `cash`).

  * `LimitWeights` is `Weigh.limitWeights` (with `ffn.limit_weights`): when it hands back weights the stack goes on with them
    (`{}` for an infeasible cap included); when `ffn` raises (`LWOut.raised`) the run raises; when it leaves NaN weights
    (`LWOut.nan`: the excess cannot be spread over weights that sum to zero) the model stops with `Err.nanData` - the engine
    model does not carry NaN weights.  Sums are left to right (`sumA`): that is what pandas/numpy do for fewer than 8 terms
    (from 8 on numpy sums pairwise in blocks; on `Float` the model is bit-exact only below that, and the generators stay below).
  * `LimitDeltas` reads `target.children[k].weight` - a refreshing getter (`Node.weight`: `if root.stale: root.update(now)`), so
    with at least one child the tree is refreshed first; the current weights are the `weight` fields of the children.  The
    code iterates over `set(children.keys() + tw.keys())`: the body for key `k` touches only entry `k`, but keys that are new to
    the dict are appended in iteration order, which fixes the order `Rebalance` trades them in.  That order (a function of the
    string hashes of the process) is a parameter: `order`. -/

/-- `LimitDeltas.__call__` with the iteration order of the key set given -/
def limitDeltasOrd (order : List Nat) (lim : Nat → Option α) (cur tw : Weigh.Dict Nat α) : Weigh.Dict Nat α :=
  order.foldl (Weigh.ldStep lim cur) tw

inductive WStep (α : Type) where
  /-- `ScaleWeights(scale)` -/
  | scale (s : α)
  /-- `LimitWeights(limit)` -/
  | limitW (l : α)
  /-- `LimitDeltas(limit)`: `glob = some l` a global limit, otherwise the limit dict `per`; `order`: iteration order of the key set -/
  | limitD (order : List Nat) (glob : Option α) (per : List (Nat × α))
  /-- `RebalanceOverTime(n)` standing in for `Rebalance` at the end of the stack (no `run_always` wrapper): it is then only
      ever called with fresh `temp['weights']`, which re-arms it (`_days_left = n`) - its memory is never used -, and hands
      `{k: cur_k + (w_k - cur_k) / n}` to the `Rebalance` it owns.  Only meaningful as the last step. -/
  | overTime (n : α)
  /-- `CloseDead()`: every child whose universe price at `target.now` is `<= 0` is closed (`target.close(c)`) and dropped
      from `temp['weights']` (`closeDead`, Bt/Algos/ProgramF.lean) -/
  | closeDead

/-- the limit that applies to key `k` -/
def ldLim (glob : Option α) (per : List (Nat × α)) : Nat → Option α :=
  match glob with
  | some g => fun _ => some g
  | none => Weigh.dictGet per

/-- `{k: target.children[k].weight}` in child order -/
def curWeights (kids : List (Node α)) : Weigh.Dict Nat α :=
  (List.range kids.length).zip (kids.map Node.weight)

def lwErr : Weigh.LWErr → Err := fun _ => Err.badPath

/-- `RebalanceOverTime`: `curr + (w - curr) / days_left` for every name of the target (`curr` = 0.0 for a name that is no child) -/
def rotTargets (daysLeft : α) (cur ws : Weigh.Dict Nat α) : Weigh.Dict Nat α :=
  ws.map fun p => (p.1, Weigh.dictGetD cur p.1 0 + (p.2 - Weigh.dictGetD cur p.1 0) / daysLeft)

/-- one post-processing algo on (the world, `temp['weights']`) of the strategy at `path` -/
def postStep (cfg : Cfg α) (path : List Nat) : WStep α → World α × List (Nat × α) → Except Err (World α × List (Nat × α))
  | .scale s, (w, ws) => pure (w, Weigh.scaleWeights s ws)
  | .limitW l, (w, ws) =>
    match Weigh.limitWeights l ws with
    | .done r => pure (w, r)
    | .nan _ => throw Err.nanData
    | .raised e => throw (lwErr e)
  | .limitD order glob per, (w, ws) =>
    match w.root.get? path with
    | some (.strat _ kids0) =>
      if kids0.isEmpty then pure (w, limitDeltasOrd order (ldLim glob per) [] ws)
      else
        (refresh cfg w).bind fun w1 =>
        match w1.root.get? path with
        | some (.strat _ kids) => pure (w1, limitDeltasOrd order (ldLim glob per) (curWeights kids) ws)
        | _ => throw Err.badPath
    | _ => throw Err.badPath
  | .overTime n, (w, ws) =>
    -- the children's weights are read through the refreshing getter (and `Rebalance` refreshes first in any case)
    (refresh cfg w).bind fun w1 =>
    match w1.root.get? path with
    | some (.strat _ kids) => pure (w1, rotTargets n (curWeights kids) ws)
    | _ => throw Err.badPath
  | .closeDead, (w, ws) => closeDead cfg path w ws

/-- the post-processing algos in stack order -/
def postSteps (cfg : Cfg α) (path : List Nat) : List (WStep α) → World α × List (Nat × α) → Except Err (World α × List (Nat × α))
  | [], s => pure s
  | st :: rest, s => (postStep cfg path st s).bind (postSteps cfg path rest)

structure ProgX (α : Type) where
  gate : List Bool
  ucols : List Nat
  sels : List (SelStep α)
  wgh : Wgh α
  /-- the algos between the weigher and `Rebalance` -/
  post : List (WStep α) := []
  /-- `temp['cash']` when a `SetCash` sits in the stack -/
  cash : Option α := none
  /-- `some rows`: the weigher is `WeighTarget(frame)` (and `wgh` is not consulted): `rows[d]` is the frame's row for the date
      of row `d` with missing entries dropped (`none`: the date is not in the frame's index - WeighTarget answers False, the
      stack stops) -/
  target : Option (List (Option (List (Nat × α)))) := none

/-- errors of the selection algos (KeyError, IndexError, ...) surface as an error of the run -/
def selErr : SelErr → Err := fun _ => Err.badPath

/-- what the weigher leaves in `temp['weights']` on row `d`, `temp['selected']` being `sel`:
    `.ok none` = `WeighTarget` answered False (the stack stops); an error = `WeighEqually` without `temp['selected']` (KeyError) -/
def weigherX (p : ProgX α) (d : Nat) (sel : Option (List Nat)) : Except Err (Option (List (Nat × α))) :=
  match p.target with
  | some rows => pure (rows.getD d none)
  | none =>
    match p.wgh, sel with
    | .equally, none => throw Err.badPath
    | wg, sel => pure (some (weights wg (sel.getD [])))

/-- the stack `[RunPeriod, sels..., weigher, post..., (SetCash,) Rebalance]` of the strategy at `path`, at row `d` -/
def progRunX (cfg : Cfg α) (p : ProgX α) (path : List Nat) : RunFn α := fun d w =>
  if p.gate.getD d false then
    match w.root.get? path with
    | some (.strat _ kids) =>
      match selSteps (tableOf p.ucols kids d) d p.sels none with
      | .error e => throw (selErr e)
      | .ok none => pure w                          -- a selector returned False: the stack stopped
      | .ok (some sel) =>
        (weigherX p d sel).bind fun r =>
        match r with
        | none => pure w                            -- WeighTarget: no row for this date
        | some ws0 =>
          (postSteps cfg path p.post (w, ws0)).bind fun s =>
          algoRebalance cfg s.1 path s.2 p.cash none
    | _ => throw Err.badPath
  else pure w

/-- the stack of a fixed-income program: `[RunPeriod, WeighSpecified, SetNotional(series), Rebalance]`; `notional[d]` is the entry
    of the notional series on row `d` (`none`: the date is not in the series' index — SetNotional returns False, the stack stops) -/
structure ProgFI (α : Type) where
  gate : List Bool
  ws : List (Nat × α)
  notional : List (Option α)

def progRunFI (cfg : Cfg α) (p : ProgFI α) (path : List Nat) : RunFn α := fun d w =>
  if p.gate.getD d false then
    match p.notional.getD d none with
    | none => pure w
    | some nv => algoRebalance cfg w path p.ws none (some nv)
  else pure w

/-- the stack `[RunPeriod, WeighTarget(frame), Rebalance]`: `rows[d]` is the frame's row for the date of row `d` with missing
    entries dropped (`none`: the date is not in the frame's index — WeighTarget returns False, the stack stops) -/
structure ProgT (α : Type) where
  gate : List Bool
  rows : List (Option (List (Nat × α)))

def progRunT (cfg : Cfg α) (p : ProgT α) (path : List Nat) : RunFn α := fun d w =>
  if p.gate.getD d false then
    match p.rows.getD d none with
    | none => pure w
    | some ws => algoRebalance cfg w path ws none none
  else pure w

/-- `CapitalFlow(amount)` at the head of a stack: `target.adjust(amount)` (a flow, marks the tree stale) on every call of `run()`,
    whatever the scheduler behind it answers -/
def withFlow (amount : α) (f : List Nat → RunFn α) : List Nat → RunFn α := fun path d w =>
  (opAdjust w path amount true true).bind (f path d)

/-! ### trees of arbitrary per-strategy run functions, and nested backtests over them -/

inductive GTree (α : Type) where
  | node : (List Nat → RunFn α) → List (Option (GTree α)) → GTree α

mutual
def treeRunG : GTree α → List Nat → RunFn α
  | .node f kids, path => fun d w => (f path d w).bind fun w1 => kidsRunG kids path 0 d w1
def kidsRunG : List (Option (GTree α)) → List Nat → Nat → RunFn α
  | [], _, _ => fun _ w => pure w
  | none :: ks, path, i => kidsRunG ks path (i + 1)
  | some t :: ks, path, i => fun d w =>
    (treeRunG t (path ++ [i]) d w).bind fun w1 => kidsRunG ks path (i + 1) d w1
end

inductive SimG (α : Type) where
  | mk : World α → GTree α → List (List Nat × SimG α) → SimG α

def SimG.world : SimG α → World α
  | .mk w _ _ => w

mutual
def simDayG (cfg : Cfg α) (d : Nat) : SimG α → Except Err (SimG α)
  | .mk w t papers =>
    (simPapersG cfg d papers w).bind fun (papers', w1) =>
    (btDay cfg (treeRunG t []) d w1).map fun w2 => .mk w2 t papers'
def simPapersG (cfg : Cfg α) (d : Nat) : List (List Nat × SimG α) → World α → Except Err (List (List Nat × SimG α) × World α)
  | [], w => pure ([], w)
  | (path, s) :: rest, w =>
    (simDayG cfg d s).bind fun s' =>
    let w1 : World α := { w with root := setPaperPx s'.world.price path w.root }
    (simPapersG cfg d rest w1).map fun (rest', w2) => ((path, s') :: rest', w2)
end

mutual
/-- the first date of the data (row 0): a tree and, recursively, its shadow copies are only updated (`Prog.simDay0`) -/
def simDayG0 (cfg : Cfg α) (d : Nat) : SimG α → Except Err (SimG α)
  | .mk w t papers =>
    (simPapersG0 cfg d papers w).bind fun (papers', w1) =>
    (updRoot cfg d w1).map fun w2 => .mk w2 t papers'
def simPapersG0 (cfg : Cfg α) (d : Nat) : List (List Nat × SimG α) → World α → Except Err (List (List Nat × SimG α) × World α)
  | [], w => pure ([], w)
  | (path, s) :: rest, w =>
    (simDayG0 cfg d s).bind fun s' =>
    let w1 : World α := { w with root := setPaperPx s'.world.price path w.root }
    (simPapersG0 cfg d rest w1).map fun (rest', w2) => ((path, s') :: rest', w2)
end

def simLoopG (cfg : Cfg α) : List Nat → SimG α → Except Err (SimG α)
  | [], s => pure s
  | d :: ds, s => (simDayG cfg d s).bind (simLoopG cfg ds)

/-- a shadow copy (already funded) over the dates of its owner's run: updated on the first date, the full loop body on
    every later date -/
def simShadowG (cfg : Cfg α) : List Nat → SimG α → Except Err (SimG α)
  | [], s => pure s
  | d0 :: ds, s => (simDayG0 cfg d0 s).bind (simLoopG cfg ds)

def simRunG (cfg : Cfg α) (capital : α) (dates : List Nat) : SimG α → Except Err (SimG α)
  | .mk w0 t papers =>
    match dates with
    | [] => throw Err.badPath
    | d0 :: ds =>
      (opAdjust w0 [] capital true true).bind fun w1 =>
      (simPapersG0 cfg d0 papers w1).bind fun (papers', w2) =>
      (updRoot cfg d0 w2).bind fun w3 => simLoopG cfg ds (.mk w3 t papers')

end
end Bt.Prog
