import Bt.Engine.Backtest
import Bt.Algos.Rebalance
import Bt.Algos.Weigh
/-
  Whole programs: `Strategy.run()` for stacks of the shape
      [ RunDaily/Weekly/Monthly/Quarterly/Yearly(flags), SelectAll / SelectThese, WeighEqually / WeighSpecified, Rebalance ]
  as a `RunFn` on the world, so that `btRun cfg (treeRun ..)` is an executable model of a complete
  `Backtest.run()` — compared with the real code on whole generated backtests (protocol `whole-run`).

  * the scheduler is represented by its answers per row (`gate`), computed by the scheduler model of
    `Bt/Algos/Sched.lean` from the data index (row 0 is the synthetic row: `positionRule` is false there);
  * the selectors read the strategy's universe at the current row: for a security child that is its price column
    at row `d` (`cell s.prices d` — the model's no-look-ahead is visible here), for a sub-strategy child the
    child's current price index; the universe column order is a parameter (child indices in column order);
  * `WeighEqually` gives `1/n`, `WeighSpecified` a fixed table (by child index, in the dict's order);
  * `Rebalance` is `algoRebalance` (Bt/Algos/Rebalance.lean);
  * `Strategy.run`: own stack first, then `run()` of every child in `_childrenv` order (securities: no-op).
-/
namespace Bt.Prog
open Bt

section
variable {α : Type} [Add α] [Sub α] [Mul α] [Div α] [Neg α] [LT α] [DecidableLT α]
  [LE α] [DecidableLE α] [OfNat α 0] [OfNat α 1] [HasFloor α] [NatCast α]

inductive Sel where
  /-- `SelectAll(include_no_data, include_negative)` -/
  | all (includeNoData includeNegative : Bool)
  /-- `SelectThese(tickers, include_no_data, include_negative)`; tickers as child indices, in the given order -/
  | these (idx : List Nat) (includeNoData includeNegative : Bool)
  deriving Repr

inductive Wgh (α : Type) where
  | equally
  | specified (ws : List (Nat × α))

/-- one strategy's algo stack -/
structure Prog (α : Type) where
  gate : List Bool        -- the scheduler's answer on every row of the data index
  ucols : List Nat        -- child indices in the order of the universe's columns
  sel : Sel
  wgh : Wgh α

/-- `target.universe.loc[now, name]` -/
def uniPrice (d : Nat) : Node α → Option α
  | .sec s => cell s.prices d
  | .strat sd _ => some sd.price

/-- `dropna()` and `> 0` (the latter unless `include_negative`); with `include_no_data` no filter at all -/
def eligible (nd neg : Bool) (d : Nat) (k : Node α) : Bool :=
  if nd then true
  else match uniPrice d k with
    | none => false
    | some p => neg || decide (0 < p)

def selected (sel : Sel) (ucols : List Nat) (kids : List (Node α)) (d : Nat) : List Nat :=
  let ok (nd neg : Bool) (i : Nat) : Bool := match kids[i]? with
    | some k => eligible nd neg d k
    | none => false
  match sel with
  | .all nd neg => ucols.filter (ok nd neg)
  | .these idx nd neg => idx.filter (ok nd neg)

def weights (wgh : Wgh α) (sel : List Nat) : List (Nat × α) :=
  match wgh with
  | .equally => if sel.isEmpty then [] else sel.map fun i => (i, (1 : α) / (sel.length : α))
  | .specified ws => ws

/-- the stack of one strategy at `path`, at row `d` -/
def progRun (cfg : Cfg α) (p : Prog α) (path : List Nat) : RunFn α := fun d w =>
  if p.gate.getD d false then
    match w.root.get? path with
    | some (.strat _ kids) =>
      algoRebalance cfg w path (weights p.wgh (selected p.sel p.ucols kids d)) none none
    | _ => throw Err.badPath
  else pure w

/-- the programs of a tree of strategies, aligned with the children lists (`none` for a security) -/
inductive ProgTree (α : Type) where
  | node : Prog α → List (Option (ProgTree α)) → ProgTree α

mutual
/-- `Strategy.run()`: own stack, then every child's `run()` in order -/
def treeRun (cfg : Cfg α) : ProgTree α → List Nat → RunFn α
  | .node p kids, path => fun d w =>
    (progRun cfg p path d w).bind fun w1 => kidsRun cfg kids path 0 d w1
def kidsRun (cfg : Cfg α) : List (Option (ProgTree α)) → List Nat → Nat → RunFn α
  | [], _, _ => fun _ w => pure w
  | none :: ks, path, i => kidsRun cfg ks path (i + 1)
  | some t :: ks, path, i => fun d w =>
    (treeRun cfg t (path ++ [i]) d w).bind fun w1 => kidsRun cfg ks path (i + 1) d w1
end

/-- a complete `Backtest.run()` of a program tree (after `setup`) -/
def backtest (cfg : Cfg α) (t : ProgTree α) (capital : α) (dates : List Nat) (w0 : World α) : Except Err (World α) :=
  btRun cfg (treeRun cfg t []) capital dates w0

/-! ### nested backtests: every sub-strategy carries a shadow copy that is itself a complete backtest -/

/-- overwrite `paperPx` (the price the shadow copy reports) of the strategy at `path` -/
def setPaperPx (px : α) : List Nat → Node α → Node α
  | [], .strat sd kids => .strat { sd with paperPx := px } kids
  | [], n => n
  | _ :: _, .sec s => .sec s
  | i :: rest, .strat sd kids =>
    match kids[i]? with
    | some k => .strat sd (kids.set i (setPaperPx px rest k))
    | none => .strat sd kids

/-- a running backtest: the tree, its programs, and for every sub-strategy (by path) the shadow copy `setup` made
    of it - a backtest of the same definition on the same data, funded with the code's 1 000 000 -/
inductive Sim (α : Type) where
  | mk : World α → ProgTree α → List (List Nat × Sim α) → Sim α

def Sim.world : Sim α → World α
  | .mk w _ _ => w

mutual
/-- one new date after the first: every shadow copy is stepped with the full loop body (StrategyBase.update l.857-866; it is a separate
    object graph, so when exactly inside the parent's update this happens is immaterial), its price becomes the child's
    `paperPx`, then the loop body runs on the tree itself -/
def simDay (cfg : Cfg α) (d : Nat) : Sim α → Except Err (Sim α)
  | .mk w t papers =>
    (simPapers cfg d papers w).bind fun (papers', w1) =>
    (btDay cfg (treeRun cfg t []) d w1).map fun w2 => .mk w2 t papers'
def simPapers (cfg : Cfg α) (d : Nat) : List (List Nat × Sim α) → World α → Except Err (List (List Nat × Sim α) × World α)
  | [], w => pure ([], w)
  | (path, s) :: rest, w =>
    (simDay cfg d s).bind fun s' =>
    let w1 : World α := { w with root := setPaperPx s'.world.price path w.root }
    (simPapers cfg d rest w1).map fun (rest', w2) => ((path, s') :: rest', w2)
end

mutual
/-- the first date of the data (row 0, the dummy row a `Backtest` prepends): nobody's algos run there - `Backtest.run` only
    calls `update(dates[0])`, and `StrategyBase.update` steps a shadow copy by `paper.update(date)` alone when `inow == 0` -,
    so a tree and, recursively, all its shadow copies are only updated; the copies' prices still reach `paperPx` -/
def simDay0 (cfg : Cfg α) (d : Nat) : Sim α → Except Err (Sim α)
  | .mk w t papers =>
    (simPapers0 cfg d papers w).bind fun (papers', w1) =>
    (updRoot cfg d w1).map fun w2 => .mk w2 t papers'
def simPapers0 (cfg : Cfg α) (d : Nat) : List (List Nat × Sim α) → World α → Except Err (List (List Nat × Sim α) × World α)
  | [], w => pure ([], w)
  | (path, s) :: rest, w =>
    (simDay0 cfg d s).bind fun s' =>
    let w1 : World α := { w with root := setPaperPx s'.world.price path w.root }
    (simPapers0 cfg d rest w1).map fun (rest', w2) => ((path, s') :: rest', w2)
end

def simLoop (cfg : Cfg α) : List Nat → Sim α → Except Err (Sim α)
  | [], s => pure s
  | d :: ds, s => (simDay cfg d s).bind (simLoop cfg ds)

/-- a shadow copy (already funded) over the dates of its owner's run: updated on the first date, the full loop body on
    every later date -/
def simShadow (cfg : Cfg α) : List Nat → Sim α → Except Err (Sim α)
  | [], s => pure s
  | d0 :: ds, s => (simDay0 cfg d0 s).bind (simLoop cfg ds)

/-- `Backtest.run()` of a nested tree after `setup`: the root is funded and updated on the first date without
    running its algos (its shadow copies are only updated there as well: `simPapers0`), then the loop -/
def simRun (cfg : Cfg α) (capital : α) (dates : List Nat) : Sim α → Except Err (Sim α)
  | .mk w0 t papers =>
    match dates with
    | [] => throw Err.badPath
    | d0 :: ds =>
      (opAdjust w0 [] capital true true).bind fun w1 =>
      (simPapers0 cfg d0 papers w1).bind fun (papers', w2) =>
      (updRoot cfg d0 w2).bind fun w3 => simLoop cfg ds (.mk w3 t papers')

end
end Bt.Prog
