/-
  Civil calendar used by the scheduler model (C12).  Everything is *forward*:
  a timestamp is a civil triple (year, month, day) plus the nanoseconds elapsed
  in that day; day number, nanosecond value, weekday, quarter and ISO year/week
  are computed from it.  No inverse (day number -> civil date) is needed: the
  harness supplies the civil fields pandas reports and the driver checks that
  every derived quantity equals what pandas reports for the same timestamp
  (`Timestamp.value`, `.quarter`, `.week`, `.isocalendar()`, `.weekday()`).

  pandas anchors: Timestamp.year/month/day/quarter/week/date()/isocalendar().
-/
namespace Bt.Cal

/-- Gregorian leap year. -/
def isLeap (y : Int) : Bool := decide (y % 4 = 0 ∧ (y % 100 ≠ 0 ∨ y % 400 = 0))

/-- number of leap years among the years `1 .. y` (proleptic Gregorian, floor division). -/
def leapsThrough (y : Int) : Int := y / 4 - y / 100 + y / 400

/-- day number (days since 1970-01-01) of 1 January of year `y`. -/
def jan1 (y : Int) : Int := 365 * (y - 1970) + (leapsThrough (y - 1) - leapsThrough 1969)

def leapDay (leap : Bool) : Int := if leap then 1 else 0

def yearLen (y : Int) : Int := 365 + leapDay (isLeap y)

/-- days of the year before the first of month `m` (`m = 13`: the whole year). -/
def daysBeforeMonth (leap : Bool) (m : Int) : Int :=
  if m ≤ 2 then 31 * (m - 1) else (153 * (m - 3) + 2) / 5 + 59 + leapDay leap

def daysInMonth (leap : Bool) (m : Int) : Int := daysBeforeMonth leap (m + 1) - daysBeforeMonth leap m

/-- days since 1970-01-01 of the civil date `y-m-d`. -/
def daysFromCivil (y m d : Int) : Int := jan1 y + daysBeforeMonth (isLeap y) m + (d - 1)

def nsPerDay : Int := 86400000000000

/-- A timestamp as pandas shows it: civil date + nanoseconds since midnight. -/
structure Stamp where
  year : Int
  month : Int
  day : Int
  tod : Int
deriving DecidableEq, Repr

namespace Stamp

/-- the civil fields denote an existing instant -/
def valid (s : Stamp) : Bool :=
  decide (1 ≤ s.month ∧ s.month ≤ 12 ∧ 1 ≤ s.day ∧ s.day ≤ daysInMonth (isLeap s.year) s.month ∧
          0 ≤ s.tod ∧ s.tod < nsPerDay)

def dayNo (s : Stamp) : Int := daysFromCivil s.year s.month s.day

/-- `Timestamp.value` -/
def ns (s : Stamp) : Int := s.dayNo * nsPerDay + s.tod

/-- `Timestamp.quarter` -/
def quarter (s : Stamp) : Int := (s.month + 2) / 3

/-- `Timestamp.weekday()`: Monday = 0 (1970-01-01 was a Thursday). -/
def weekday (s : Stamp) : Int := (s.dayNo + 3) % 7

/-- index of the Monday-to-Sunday week containing the day (week 0 contains 1970-01-01). -/
def mondayWeek (s : Stamp) : Int := (s.dayNo + 3) / 7

/-- day number of the Thursday of that week (Thursdays are the multiples of 7). -/
def thursday (s : Stamp) : Int := 7 * s.mondayWeek

/-- ISO-8601 year: the calendar year that contains the Thursday of the week. -/
def isoYear (s : Stamp) : Int :=
  if s.thursday < jan1 s.year then s.year - 1
  else if jan1 (s.year + 1) ≤ s.thursday then s.year + 1
  else s.year

/-- ISO-8601 week number = `Timestamp.week` = `isocalendar()[1]`. -/
def week (s : Stamp) : Int := (s.thursday - jan1 s.isoYear) / 7 + 1

end Stamp
end Bt.Cal
