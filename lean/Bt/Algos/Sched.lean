import Bt.Algos.SchedCal
/-
  Schedulers of bt/algos.py as they are (C12):

  * `RunPeriod.__call__` (l.140-181): position logic over the data index, shared by
    RunDaily / RunWeekly / RunMonthly / RunQuarterly / RunYearly, whose
    `compare_dates` (l.204-295) are `compareDates`.
  * RunOnce (l.106), RunOnDate (l.298), RunAfterDate (l.322), RunAfterDays (l.348),
    RunEveryNPeriods (l.420-456) as state machines over the sequence of calls.

  The index is an arbitrary list of timestamps (the code never assumes it is sorted;
  the theorems assume it strictly increasing, which is what `Backtest` feeds).
  `target.now` is `Option Stamp`: `none` stands for Python `None` and for the integer
  sentinel `0` a strategy carries before its first update (neither is in the index).
-/
namespace Bt.Sched
open Bt.Cal

inductive SchedErr where
  /-- `index.get_loc(now)` returned a slice / mask (label occurs more than once); the arithmetic on it raises -/
  | ambiguousLoc
  /-- `0 > Timestamp` : RunAfterDate called before the first update -/
  | typeError
deriving DecidableEq, Repr

inductive PeriodKind where
  | daily | weekly | monthly | quarterly | yearly
deriving DecidableEq, Repr

/-- constructor arguments of `RunPeriod` -/
structure Flags where
  runOnFirstDate : Bool
  runOnEndOfPeriod : Bool
  runOnLastDate : Bool
deriving DecidableEq, Repr

/-! ### the five `compare_dates` -/

/-- `now.date() != date_to_compare.date()` -/
def cmpDaily (a b : Stamp) : Bool := !(a.year == b.year && a.month == b.month && a.day == b.day)
/-- `now.isocalendar()[:2] != other.isocalendar()[:2]`  (ISO year, ISO week number) -/
def cmpWeekly (a b : Stamp) : Bool := a.isoYear != b.isoYear || a.week != b.week
/-- `now.year != other.year or now.month != other.month` -/
def cmpMonthly (a b : Stamp) : Bool := a.year != b.year || a.month != b.month
/-- `now.year != other.year or now.quarter != other.quarter` -/
def cmpQuarterly (a b : Stamp) : Bool := a.year != b.year || a.quarter != b.quarter
/-- `now.year != other.year` -/
def cmpYearly (a b : Stamp) : Bool := a.year != b.year

def compareDates : PeriodKind → Stamp → Stamp → Bool
  | .daily => cmpDaily
  | .weekly => cmpWeekly
  | .monthly => cmpMonthly
  | .quarterly => cmpQuarterly
  | .yearly => cmpYearly

/-! ### `now in index` and `index.get_loc(now)` -/

/-- timestamps are equal when their nanosecond values are -/
def sameInstant (t s : Stamp) : Bool := s.ns == t.ns

/-- how often the label occurs in the index -/
def occurrences (t : Stamp) (idx : List Stamp) : Nat := idx.countP (sameInstant t)

/-- position of the first occurrence (`idx.length` when there is none) -/
def firstPos (t : Stamp) (idx : List Stamp) : Nat := idx.findIdx (sameInstant t)

/-! ### `RunPeriod.__call__` -/

/-- the date `now` is compared with: previous row, or next row in end-of-period mode -/
def neighbour (f : Flags) (i : Nat) : Nat := if f.runOnEndOfPeriod then i + 1 else i - 1

/-- interior rows: `compare_dates(now, index[i ± 1])` -/
def interiorRule (k : PeriodKind) (f : Flags) (idx : List Stamp) (i : Nat) : Bool :=
  match idx[i]?, idx[neighbour f i]? with
  | some a, some b => compareDates k a b
  | _, _ => false

/-- the `if index == 0 … elif index == 1 … elif index == len-1 … else` cascade -/
def positionRule (k : PeriodKind) (f : Flags) (idx : List Stamp) (i : Nat) : Bool :=
  if i = 0 then false
  else if i = 1 then f.runOnFirstDate
  else if i = idx.length - 1 then f.runOnLastDate
  else interiorRule k f idx i

def runPeriod (k : PeriodKind) (f : Flags) (idx : List Stamp) (now : Option Stamp) : Except SchedErr Bool :=
  match now with
  | none => .ok false                                   -- `now is None` / sentinel 0 not in index
  | some t =>
    match occurrences t idx with
    | 0 => .ok false                                    -- `now not in target.data.index`
    | 1 => .ok (positionRule k f idx (firstPos t idx))
    | _ => .error .ambiguousLoc

/-! ### counting and date schedulers -/

/-- run a state machine over a sequence of calls, collecting the returned booleans -/
def trace {σ τ : Type} (step : σ → τ → Bool × σ) : σ → List τ → List Bool
  | _, [] => []
  | s, t :: ts => (step s t).1 :: trace step (step s t).2 ts

/-- RunOnce: state = `has_run` -/
def runOnceStep (hasRun : Bool) (_now : Option Int) : Bool × Bool :=
  if !hasRun then (true, true) else (false, hasRun)

/-- RunOnDate: `target.now in self.dates` (dates and now as nanosecond values) -/
def runOnDate (dates : List Int) (now : Option Int) : Bool :=
  match now with
  | none => false
  | some t => dates.contains t

/-- RunAfterDate: `target.now > self.date` -/
def runAfterDate (date : Int) (now : Option Int) : Except SchedErr Bool :=
  match now with
  | none => .error .typeError
  | some t => .ok (decide (date < t))

/-- RunAfterDays: state = `self.days` -/
def runAfterDaysStep (days : Int) (_now : Option Int) : Bool × Int :=
  if days > 0 then (false, days - 1) else (true, days)

/-- RunEveryNPeriods: state = (`idx`, `lcall`); `lcall = none` is the initial `0` -/
structure EveryN where
  n : Int
  idx : Int
  lcall : Option Int
deriving DecidableEq, Repr

def everyNInit (n offset : Int) : EveryN := { n := n, idx := n - offset - 1, lcall := none }

def everyNStep (s : EveryN) (now : Option Int) : Bool × EveryN :=
  if s.lcall = now then (false, s)
  else if s.idx = s.n - 1 then (true, { s with lcall := now, idx := 0 })
  else (false, { s with lcall := now, idx := s.idx + 1 })

end Bt.Sched
