import Bt.Num
/-
  Weighting algos of bt/algos.py (l.955-1589) and the `ffn` helpers that carry
  the C15 property (`limit_weights`, `random_weights`, `calc_inv_vol_weights`,
  `to_returns`).  The model mirrors what the code does, including its errors.

  * `temp['weights']` (a dict or a Series) is an association list in insertion
    order (`Dict κ α`); a NaN / non-finite weight the code can leave behind is
    `none` in a `Dict κ (Option α)` result.
  * Dates are integers (day numbers); `now - lag` and `t0 - lookback` are
    integer subtraction (the harness converts the `DateOffset`s with pandas).
  * NaN cells of the universe are `none`.
  * The `ffn`/`scipy`/`sklearn` optimisers (`calc_erc_weights`,
    `calc_mean_var_weights`, `ledoit_wolf`) are parameters: the model says what
    bt hands them and what it does with their result; the relation their result
    has to satisfy is the executable predicate `ercSpec` / `meanVarSpec`.
-/
namespace Bt.Weigh
open Bt

/-- `np.sqrt` / `math.sqrt`. -/
class HasSqrt (α : Type) where
  sqrtA : α → α
export HasSqrt (sqrtA)

instance : HasSqrt Float := ⟨Float.sqrt⟩
instance natCastFloat : NatCast Float := ⟨Float.ofNat⟩

/-! ### dicts (insertion-ordered association lists) -/
section Dict
variable {κ : Type} [DecidableEq κ] {β : Type}

abbrev Dict (κ β : Type) := List (κ × β)

/-- `d[k]` / `k in d`. -/
def dictGet : Dict κ β → κ → Option β
  | [], _ => none
  | (k', v) :: t, k => if k' = k then some v else dictGet t k

/-- `d[k] if k in d else dflt`. -/
def dictGetD (d : Dict κ β) (k : κ) (dflt : β) : β := (dictGet d k).getD dflt

/-- `d[k] = v` (update in place or append). -/
def dictSet : Dict κ β → κ → β → Dict κ β
  | [], k, v => [(k, v)]
  | (k', v') :: t, k, v => if k' = k then (k, v) :: t else (k', v') :: dictSet t k v

def dictKeys (d : Dict κ β) : List κ := d.map Prod.fst
def dictVals (d : Dict κ β) : List β := d.map Prod.snd

/-- `dict(pairs)` / a dict comprehension over a list that may repeat keys. -/
def dictOfPairs (ps : List (κ × β)) : Dict κ β := ps.foldl (fun d p => dictSet d p.1 p.2) []

/-- pair the keys with possibly missing values and drop the missing ones (`Series.dropna()`). -/
def dropnaDict (keys : List κ) (vals : List (Option β)) : Dict κ β :=
  (keys.zip vals).filterMap fun p => p.2.map fun v => (p.1, v)

end Dict

section Num
variable {α : Type} [Add α] [Sub α] [Mul α] [Div α] [Neg α] [LT α] [DecidableLT α]
  [LE α] [DecidableLE α] [OfNat α 0] [OfNat α 1] [NatCast α]

/-- left-to-right sum starting at 0 (`sum(...)`, `Series.sum()` on a short series). -/
def sumA (l : List α) : α := l.foldl (· + ·) 0

/-- `max(a, b)` / `min(a, b)` of Python (first argument wins ties). -/
def maxA (a b : α) : α := if a < b then b else a
def minA (a b : α) : α := if b < a then b else a

/-- `np.sign`. -/
def signA (x : α) : α := if x < 0 then -1 else if 0 < x then 1 else 0

/-! ### WeighEqually, WeighSpecified, ScaleWeights, WeighTarget -/
section Direct
variable {κ : Type} [DecidableEq κ]

/-- `WeighEqually.__call__`: `{}` for an empty selection, else `{x: 1.0/n for x in selected}`. -/
def weighEqually (sel : List κ) : Dict κ α :=
  match sel with
  | [] => []
  | _ => dictOfPairs (sel.map fun x => (x, 1 / (sel.length : α)))

/-- `WeighSpecified`: the algo object keeps its own dict; every call hands out a copy. -/
structure WeighSpecified (κ α : Type) where
  weights : Dict κ α

/-- one call: (the algo afterwards, the new `temp['weights']`). -/
def WeighSpecified.call (a : WeighSpecified κ α) : WeighSpecified κ α × Dict κ α := (a, a.weights)

/-- `ScaleWeights.__call__`: `{k: scale * w}`. -/
def scaleWeights (s : α) (ws : Dict κ α) : Dict κ α := ws.map fun p => (p.1, s * p.2)

/-- a dated frame: column labels and `(date, cells)` rows. -/
structure Table (κ α : Type) where
  cols : List κ
  rows : List (Int × List (Option α))

/-- `weights.loc[now]` when `now in weights.index`. -/
def frameRow (f : Table κ α) (now : Int) : Option (List (Option α)) :=
  match f.rows.find? (fun r => r.1 == now) with
  | some r => some r.2
  | none => none

/-- `WeighTarget.__call__`: `none` = returned False and left `temp` alone. -/
def weighTarget (f : Table κ α) (now : Int) : Option (Dict κ α) :=
  match frameRow f now with
  | some row => some (dropnaDict f.cols row)
  | none => none

end Direct

/-! ### LimitDeltas -/
section LimitDeltas
variable {κ : Type} [DecidableEq κ]

/-- the clipped weight, when the move is larger than the limit (`None` limit: key not in the limit dict). -/
def ldNew (lim : Option α) (tgt cur : α) : Option α :=
  match lim with
  | none => none
  | some l => if l < absA (tgt - cur) then some (cur + l * signA (tgt - cur)) else none

/-- body of the loop for key `k`. -/
def ldStep (lim : κ → Option α) (cur : Dict κ α) (tw : Dict κ α) (k : κ) : Dict κ α :=
  match ldNew (lim k) (dictGetD tw k 0) (dictGetD cur k 0) with
  | some v => dictSet tw k v
  | none => tw

/-- `set(children.keys() + tw.keys())` in a canonical order (the loop body only touches its own key). -/
def ldKeys (cur tw : Dict κ α) : List κ :=
  dictKeys tw ++ (dictKeys cur).filter fun k => !(dictKeys tw).contains k

/-- `LimitDeltas.__call__`: `lim k` is the global limit or the entry of the limit dict;
    `cur` are the current child weights. -/
def limitDeltas (lim : κ → Option α) (cur tw : Dict κ α) : Dict κ α :=
  (ldKeys cur tw).foldl (ldStep lim cur) tw

end LimitDeltas

/-! ### LimitWeights and `ffn.limit_weights` -/
section LimitWeights
variable {κ : Type} [DecidableEq κ]

inductive LWErr where
  | invalidLimit   -- ValueError("invalid limit -> 1 / limit must be <= len(weights)")
  | sumNotOne      -- ValueError("Expecting weights (that sum to 1) ...")
  | fuel           -- model only: recursion budget exhausted (never with budget length+1, see `lw_fuel_suffices`)
  deriving DecidableEq, Repr

/-- result of `ffn.limit_weights`: weights, weights some of which are NaN, or an exception. -/
inductive LWOut (κ α : Type) where
  | done (ws : Dict κ α)
  | nan (ws : Dict κ (Option α))
  | raised (e : LWErr)
  deriving DecidableEq

/-- `(res[res > limit] - limit).sum()`. -/
def lwExcess (limit : α) (vs : List α) : α := sumA ((vs.filter fun w => limit < w).map fun w => w - limit)

/-- `res[res < limit]`. -/
def lwBelow (limit : α) (vs : List α) : List α := vs.filter fun w => w < limit

/-- one weight after a round: capped, topped up proportionally, or (exactly at the limit) untouched. -/
def lwAdj (limit s e w : α) : α :=
  if limit < w then limit else if w < limit then w + (w / s) * e else w

/-- `np.round(total, 1) != 1.0` is False, i.e. `rint(total*10) == 10` (half-to-even). -/
def lwSumOk (total : α) : Bool :=
  decide (((19 : Nat) : α) / ((2 : Nat) : α) ≤ total * ((10 : Nat) : α)) &&
  decide (total * ((10 : Nat) : α) ≤ ((21 : Nat) : α) / ((2 : Nat) : α))

def isZeroExact (x : α) : Bool := !(decide (x < 0)) && !(decide (0 < x))

/-- one pass of the body.  When the weights below the limit are present but sum to exactly zero the
    code divides by zero: entries become NaN (returned as such) or ±inf (the recursive call then
    raises on the NaN sum). -/
def lwRound (limit : α) (ws : Dict κ α) : LWOut κ α :=
  let vs := dictVals ws
  let below := lwBelow limit vs
  let s := sumA below
  if !below.isEmpty && isZeroExact s then
    if !(vs.any fun w => limit < w) then
      .nan (ws.map fun p => (p.1, if p.2 < limit then none else some p.2))
    else if below.all isZeroExact then
      .nan (ws.map fun p => (p.1, if p.2 < limit then none else if limit < p.2 then some limit else some p.2))
    else .raised .sumNotOne
  else
    .done (ws.map fun p => (p.1, lwAdj limit s (lwExcess limit vs) p.2))

/-- `ffn.limit_weights` with the recursion depth as fuel. -/
def limitWeightsAux (limit : α) : Nat → Dict κ α → LWOut κ α
  | 0, _ => .raised .fuel
  | f + 1, ws =>
    if (ws.length : α) < 1 / limit then .raised .invalidLimit
    else if !(lwSumOk (sumA (dictVals ws))) then .raised .sumNotOne
    else match lwRound limit ws with
      | .done res => if (dictVals res).any (fun w => limit < w) then limitWeightsAux limit f res else .done res
      | out => out

def ffnLimitWeights (limit : α) (ws : Dict κ α) : LWOut κ α := limitWeightsAux limit (ws.length + 1) ws

/-- `LimitWeights.__call__` on an existing `temp['weights']`. -/
def limitWeights (limit : α) (ws : Dict κ α) : LWOut κ α :=
  match ws with
  | [] => .done []
  | _ => if limit < 1 / (ws.length : α) then .done [] else ffnLimitWeights limit ws

/-- the whole algo: `none` = `'weights' not in temp` (nothing happens). -/
def limitWeightsAlgo (limit : α) (temp : Option (Dict κ α)) : Option (LWOut κ α) :=
  temp.map (limitWeights limit)

end LimitWeights

/-! ### WeighRandomly / `ffn.random_weights` (the uniform draws are inputs) -/
section Random
variable {κ : Type} [DecidableEq κ]

/-- the weight drawn at one step: `rn` weights remain after this one, `tgt = drawn so far − total`,
    `u ∈ [0,1)` the uniform draw (`random.uniform(a,b) = a + (b-a)*random()`). -/
def rwStep (low high : α) (rn : Nat) (tgt u : α) : α :=
  let lowb := maxA (-((rn : α) * high) - tgt) low
  let highb := minA (-((rn : α) * low) - tgt) high
  lowb + (highb - lowb) * u

/-- the loop of `random_weights` before the shuffle. -/
def rwLoop (low high : α) : Nat → α → List α → List α
  | 0, _, _ => []
  | _ + 1, _, [] => []
  | n + 1, tgt, u :: us => rwStep low high n tgt u :: rwLoop low high n (tgt + rwStep low high n tgt u) us

/-- infeasible parameters raise ValueError. -/
def rwFeasible (n : Nat) (low high total : α) : Bool :=
  !(decide (high < low)) && !(decide ((n : α) * high < total)) && !(decide (total < (n : α) * low))

/-- `ffn.random_weights(n, (low, high), total)` before `random.shuffle`; `none` = ValueError. -/
def randomWeights (n : Nat) (low high total : α) (us : List α) : Option (List α) :=
  if rwFeasible n low high total then some (rwLoop low high n (-total) us) else none

/-- `WeighRandomly.__call__`: `perm` is the permutation `random.shuffle` applied. -/
def weighRandomly (sel : List κ) (low high total : α) (us : List α) (perm : List Nat) : Dict κ α :=
  match randomWeights sel.length low high total us with
  | none => []
  | some w => dictOfPairs (sel.zip (perm.filterMap fun i => w[i]?))

/-- the documented relation, checked on actual outputs: `{}` when infeasible, otherwise one weight per
    selected name inside the bounds and the requested total (tolerance `tol`). -/
def randomlySpec (tol : α) (sel : List κ) (low high total : α) (out : Dict κ α) : Bool :=
  if rwFeasible sel.length low high total then
    decide (dictKeys out = sel) &&
    (dictVals out).all (fun w => decide (low - tol ≤ w) && decide (w ≤ high + tol)) &&
    decide (absA (sumA (dictVals out) - total) ≤ tol)
  else out.isEmpty

end Random

/-! ### the trailing window, returns, dropna -/
section Window
variable {κ : Type} [DecidableEq κ]

/-- `universe.loc[t0 - lookback : t0]` with `t0 = now - lag`, the universe itself being `loc[:now]`. -/
def inWindow (now lag lookback d : Int) : Bool :=
  decide ((now - lag) - lookback ≤ d) && decide (d ≤ now - lag) && decide (d ≤ now)

def windowRows (t : Table κ α) (now lag lookback : Int) : List (Int × List (Option α)) :=
  t.rows.filter fun r => inWindow now lag lookback r.1

/-- `[..., selected]`: the cells of the selected columns, in selection order. -/
def pickCols (cols sel : List κ) (cells : List (Option α)) : List (Option α) :=
  sel.map fun k => (cells[cols.idxOf k]?).join

def windowPrices (t : Table κ α) (now lag lookback : Int) (sel : List κ) : List (List (Option α)) :=
  (windowRows t now lag lookback).map fun r => pickCols t.cols sel r.2

/-- `p1 / p0 - 1`. -/
def retCell (prev cur : Option α) : Option α :=
  match prev, cur with
  | some p, some c => some (c / p - 1)
  | _, _ => none

def toReturnsFrom (prev : List (Option α)) : List (List (Option α)) → List (List (Option α))
  | [] => []
  | r :: rs => List.zipWith retCell prev r :: toReturnsFrom r rs

/-- `prices / prices.shift(1) - 1`: first row all NaN. -/
def toReturns : List (List (Option α)) → List (List (Option α))
  | [] => []
  | r :: rs => (r.map fun _ => none) :: toReturnsFrom r rs

def allSome : List (Option α) → Option (List α)
  | [] => some []
  | none :: _ => none
  | some x :: t => (allSome t).map fun l => x :: l

/-- `DataFrame.dropna()`: rows with any NaN go. -/
def dropnaRows (m : List (List (Option α))) : List (List α) := m.filterMap allSome

/-- what bt hands to `calc_inv_vol_weights` / `calc_erc_weights` / `calc_mean_var_weights`:
    `prc.to_returns().dropna()` of the window. -/
def returnsArg (t : Table κ α) (now lag lookback : Int) (sel : List κ) : List (List α) :=
  dropnaRows (toReturns (windowPrices t now lag lookback sel))

/-- columns of a complete matrix. -/
def colsOf (n : Nat) (m : List (List α)) : List (List α) :=
  (List.range n).map fun j => m.filterMap fun r => r[j]?

/-- columns of a matrix with missing cells. -/
def colsOpt (n : Nat) (m : List (List (Option α))) : List (List (Option α)) :=
  (List.range n).map fun j => m.map fun r => (r[j]?).join

end Window

/-! ### statistics -/
section Stats
variable [HasSqrt α]

def meanA (xs : List α) : α := sumA xs / (xs.length : α)

/-- sample variance (`ddof=1`); NaN with fewer than two observations. -/
def varA (xs : List α) : Option α :=
  if xs.length < 2 then none
  else some (sumA (xs.map fun x => (x - meanA xs) * (x - meanA xs)) / ((xs.length - 1 : Nat) : α))

def stdA (xs : List α) : Option α := (varA xs).map sqrtA

/-- `1.0 / std`, with `inf` (zero volatility) turned into NaN. -/
def invVols (sig : List (Option α)) : List (Option α) :=
  sig.map fun o => o.bind fun s => if 0 < s then some (1 / s) else none

/-- `Series.sum()` skipping NaN. -/
def sumSome (l : List (Option α)) : α := sumA (l.filterMap id)

/-- `ffn.calc_inv_vol_weights` from the column volatilities: `vol / vol.sum()`. -/
def invVolWeights (sig : List (Option α)) : List (Option α) :=
  (invVols sig).map fun o => o.map fun v => v / sumSome (invVols sig)

/-- rows where both are present (pandas' pairwise-complete covariance). -/
def pairRows (xs ys : List (Option α)) : List (α × α) :=
  (xs.zip ys).filterMap fun p =>
    match p.1, p.2 with
    | some x, some y => some (x, y)
    | _, _ => none

/-- `DataFrame.cov()` entry: NaN with fewer than two common observations. -/
def covPair (xs ys : List (Option α)) : Option α :=
  let ps := pairRows xs ys
  if ps.length < 2 then none
  else
    let mx := meanA (ps.map Prod.fst)
    let my := meanA (ps.map Prod.snd)
    some (sumA (ps.map fun p => (p.1 - mx) * (p.2 - my)) / ((ps.length - 1 : Nat) : α))

def covMatrix (cols : List (List (Option α))) : List (List (Option α)) :=
  cols.map fun x => cols.map fun y => covPair x y

/-- dot product; NaN anywhere makes it NaN (`np.matmul`). -/
def dotOpt : List (Option α) → List (Option α) → Option α
  | a :: as, b :: bs =>
    match a, b, dotOpt as bs with
    | some x, some y, some r => some (x * y + r)
    | _, _, _ => none
  | _, _ => some 0

/-- `w.T @ (C @ w)`. -/
def quadForm (w : List (Option α)) (c : List (List (Option α))) : Option α :=
  dotOpt w (c.map fun row => dotOpt row w)

/-- `np.sqrt(q * af)`; NaN for a negative argument. -/
def volOf (af q : α) : Option α := if q * af < 0 then none else some (sqrtA (q * af))

def exAnteVol (af : α) (w : List (Option α)) (c : List (List (Option α))) : Option α :=
  (quadForm w c).bind (volOf af)

end Stats

/-! ### WeighInvVol and the kernels bt only wraps (WeighERC, WeighMeanVar) -/
section Kernels
variable {κ : Type} [DecidableEq κ] [HasSqrt α]

/-- the 0- and 1-asset shortcuts shared by WeighInvVol / WeighERC / WeighMeanVar. -/
def kernelFront (sel : List κ) : Option (Dict κ α) :=
  match sel with
  | [] => some []
  | [x] => some [(x, 1)]
  | _ => none

/-- `WeighInvVol.__call__`. -/
def weighInvVol (t : Table κ α) (now lag lookback : Int) (sel : List κ) : Dict κ α :=
  match kernelFront sel with
  | some d => d
  | none =>
    dropnaDict sel (invVolWeights ((colsOf sel.length (returnsArg t now lag lookback sel)).map stdA))

/-- `WeighERC` / `WeighMeanVar`: the optimiser's answer `kernelOut` (computed from
    `returnsArg t now lag lookback sel`) with NaN entries dropped. -/
def weighKernel (sel : List κ) (kernelOut : List (Option α)) : Dict κ α :=
  match kernelFront sel with
  | some d => d
  | none => dropnaDict sel kernelOut

/-- `C @ w` for complete data. -/
def matVec (c : List (List α)) (w : List α) : List α := c.map fun row => sumA (List.zipWith (· * ·) row w)

/-- risk contributions `w_i (Cw)_i`. -/
def riskContrib (c : List (List α)) (w : List α) : List α := List.zipWith (· * ·) w (matVec c w)

/-- documented relation of equal-risk-contribution weights with budget `b`, tolerance `tol`:
    non-negative, sum one, each risk contribution equals its share of the total. -/
def ercSpec (tol : α) (c : List (List α)) (b w : List α) : Bool :=
  let rc := riskContrib c w
  let tot := sumA rc
  w.all (fun x => decide (-tol ≤ x)) &&
  decide (absA (sumA w - 1) ≤ tol) &&
  (List.zipWith (fun r bi => decide (absA (r - bi * tot) ≤ tol * tot)) rc b).all id

/-- Sharpe utility `(μ·w − rf)/√(wᵀCw)` the mean-variance optimiser maximises. -/
def mvUtility (mu : List α) (c : List (List α)) (rf : α) (w : List α) : α :=
  (sumA (List.zipWith (· * ·) mu w) - rf) / sqrtA (sumA (List.zipWith (· * ·) w (matVec c w)))

/-- checked relation for mean-variance weights: inside the bounds, sum one, and at least as good as the
    optimiser's equal-weight starting point. -/
def meanVarSpec (tol lo hi rf : α) (mu : List α) (c : List (List α)) (w : List α) : Bool :=
  w.all (fun x => decide (lo - tol ≤ x) && decide (x ≤ hi + tol)) &&
  decide (absA (sumA w - 1) ≤ tol) &&
  decide (mvUtility mu c rf (w.map fun _ => 1 / (w.length : α)) - tol ≤ mvUtility mu c rf w)

end Kernels

/-! ### TargetVol and PTE_Rebalance -/
section Vol
variable {κ : Type} [DecidableEq κ] [HasSqrt α]

inductive CovMethod where
  | standard | ledoitWolf | other
  deriving DecidableEq, Repr

inductive WErr where
  | ledoitWolfRaises   -- sklearn's ledoit_wolf is handed returns whose first row is NaN: ValueError
  | notImplemented     -- NotImplementedError("covar_method not implemented")
  | targetRowMissing   -- KeyError: `target_weights.loc[now]`
  deriving DecidableEq, Repr

/-- `target_volatility` attribute: a number until the first non-empty call, a dict afterwards. -/
inductive TVParam (κ α : Type) where
  | scalar (t : α)
  | perKey (d : Dict κ α)

/-- `if isinstance(self.target_volatility, (float, int)): self.target_volatility = {k: tv for k in keys}`. -/
def tvFreeze (p : TVParam κ α) (keys : List κ) : Dict κ α :=
  match p with
  | .scalar t => dictOfPairs (keys.map fun k => (k, t))
  | .perKey d => d

/-- `w * tv[k] / vol` for keys in the dict; a NaN or zero vol leaves a non-finite weight (`none`). -/
def tvScaleCell (vol : Option α) (tv : Dict κ α) (k : κ) (w : α) : Option α :=
  match dictGet tv k with
  | none => some w
  | some t =>
    match vol with
    | some v => if 0 < v then some (w * t / v) else none
    | none => none

/-- covariance of the window's returns for the given columns (`returns.cov()`, no dropna). -/
def windowCov (t : Table κ α) (now lag lookback : Int) (cols : List κ) : List (List (Option α)) :=
  covMatrix (colsOpt cols.length (toReturns (windowPrices t now lag lookback cols)))

/-- ex-ante volatility TargetVol computes for `ws`. -/
def tvVol (af : α) (t : Table κ α) (now lag lookback : Int) (ws : Dict κ α) : Option α :=
  exAnteVol af ((dictVals ws).map some) (windowCov t now lag lookback (dictKeys ws))

/-- `TargetVol.__call__`: (the algo's `target_volatility` afterwards, the new `temp['weights']`). -/
def targetVol (p : TVParam κ α) (m : CovMethod) (af : α) (t : Table κ α) (now lag lookback : Int)
    (ws : Dict κ α) : Except WErr (TVParam κ α × Dict κ (Option α)) :=
  match ws with
  | [] => .ok (p, [])
  | _ =>
    match m with
    | .ledoitWolf => .error .ledoitWolfRaises
    | .other => .error .notImplemented
    | .standard =>
      let tv := tvFreeze p (dictKeys ws)
      .ok (.perKey tv, ws.map fun q => (q.1, tvScaleCell (tvVol af t now lag lookback ws) tv q.1 q.2))

/-- `positions * prices / value` at `now` (a NaN price gives a NaN weight). -/
def curWeights (t : Table κ α) (now : Int) (value : α) (pos : Dict κ α) : Dict κ (Option α) :=
  let cells := (frameRow t now).getD []
  pos.map fun p => (p.1, ((cells[t.cols.idxOf p.1]?).join).map fun px => p.2 * px / value)

/-- columns of the difference vector: held names first, then target names not held. -/
def pteCols (cur tgt : Dict κ (Option α)) : List κ :=
  dictKeys cur ++ (dictKeys tgt).filter fun k => !(dictKeys cur).contains k

/-- `weights[c] = current - target` (absent = 0). -/
def pteDiff (cur tgt : Dict κ (Option α)) (c : κ) : Option α :=
  let a : Option α := (dictGet cur c).getD (some 0)
  match dictGet tgt c with
  | none => a
  | some o =>
    match a, o with
    | some x, some y => some (x - y)
    | _, _ => none

/-- the tracking-error volatility. -/
def pteVol (af : α) (t : Table κ α) (now lag lookback : Int) (cur tgt : Dict κ (Option α)) : Option α :=
  let cols := pteCols cur tgt
  exAnteVol af (cols.map (pteDiff cur tgt)) (windowCov t now lag lookback cols)

/-- `PTE_Rebalance.__call__`; `pos = none` is the `positions.shape == (0, 0)` shortcut. -/
def pteRebalance (cap af : α) (m : CovMethod) (t : Table κ α) (now lag lookback : Int)
    (pos : Option (Dict κ α)) (value : α) (tw : Table κ α) : Except WErr Bool :=
  match pos with
  | none => .ok true
  | some pos =>
    match frameRow tw now with
    | none => .error .targetRowMissing
    | some row =>
      match m with
      | .ledoitWolf => .error .ledoitWolfRaises
      | .other => .error .notImplemented
      | .standard =>
        match pteVol af t now lag lookback (curWeights t now value pos) (tw.cols.zip row) with
        | none => .ok false
        | some v => .ok (decide (cap < v))

end Vol

end Num
end Bt.Weigh
