import Bt.Num
/-
  Control flow of algo stacks (property C13).

  Code modelled (bt/core.py, bt/algos.py of /repo):
    * `AlgoStack.__init__` / `AlgoStack.__call__` — both execution modes; which one is used is decided
      once, at construction, by `any(hasattr(x, "run_always") for x in algos)`;
    * `run_always` decorator (sets the attribute to True; the attribute may also be present and falsy);
    * `Or`, `Not`, `Require`, `RunIfOutOfBounds`;
    * `Strategy.run` — `temp = {}`, own stack, then every child in `_childrenv` order (securities: no-op).

  An algo is, for the stack, an attribute (`RA`) and a call that either returns a bool together with the
  new state or raises (`Out`).  The combinators are written once for an arbitrary state type `σ` (so the
  theorems hold for every algo whatsoever, nested stacks included) and instantiated at the concrete
  target state `Tgt` by the scripted-mock language `Prog` which the driver executes.
-/
namespace Bt.Stack

/-- Exceptions the modelled code raises. -/
inductive Err where
  | attributeError   -- RunIfOutOfBounds, cash branch: `targets.value`
  | zeroDivision     -- RunIfOutOfBounds: target weight 0 with plain Python floats on both sides
  | typeError        -- RunIfOutOfBounds: `cname in targets` with a non-container `temp['weights']`
  deriving DecidableEq, Repr, Inhabited

def Err.toString : Err → String
  | .attributeError => "AttributeError"
  | .zeroDivision => "ZeroDivisionError"
  | .typeError => "TypeError"

/-- The `run_always` attribute of an algo object: absent, present and truthy, present and falsy. -/
inductive RA where
  | absent | yes | no
  deriving DecidableEq, Repr, Inhabited

/-- `hasattr(algo, "run_always")` -/
def RA.has : RA → Bool
  | .absent => false
  | _ => true

/-- `hasattr(algo, "run_always") and algo.run_always` -/
def RA.on : RA → Bool
  | .yes => true
  | _ => false

/-- Outcome of calling an algo: it returns a bool, or it raises; the state reached is kept in both cases
    (side effects made before an exception stay visible in Python). -/
inductive Out (σ : Type) where
  | ret (b : Bool) (s : σ)
  | raise (e : Err) (s : σ)

/-- An algo as the stack sees it. -/
structure AlgoFn (σ : Type) where
  ra : RA
  run : σ → Out σ

/-- `run_always(f)`: sets the attribute to True and returns the same object. -/
def runAlways {σ : Type} (a : AlgoFn σ) : AlgoFn σ := { a with ra := .yes }

section Generic
variable {σ : Type}

/-- `AlgoStack.__init__`: `self.check_run_always = any(hasattr(x, "run_always") for x in self.algos)` -/
def checkRunAlways (algos : List (AlgoFn σ)) : Bool := algos.any (fun a => a.ra.has)

/-- normal running mode:
    `for algo in self.algos: if not algo(target): return False` / `return True` -/
def plainLoop : List (AlgoFn σ) → σ → Out σ
  | [], s => .ret true s
  | a :: rest, s =>
    match a.run s with
    | .raise e s1 => .raise e s1
    | .ret r s1 => if r then plainLoop rest s1 else .ret false s1

/-- run mode when at least one algo has a `run_always` attribute; `res` is the loop variable:
    `if res: res = algo(target)` / `elif hasattr(algo, "run_always"): if algo.run_always: algo(target)` -/
def alwaysLoop : List (AlgoFn σ) → Bool → σ → Out σ
  | [], res, s => .ret res s
  | a :: rest, res, s =>
    if res then
      match a.run s with
      | .raise e s1 => .raise e s1
      | .ret r s1 => alwaysLoop rest r s1
    else if a.ra.has then
      if a.ra.on then
        match a.run s with
        | .raise e s1 => .raise e s1
        | .ret _ s1 => alwaysLoop rest false s1
      else alwaysLoop rest false s
    else alwaysLoop rest false s

/-- `AlgoStack.__call__` -/
def stackCall (algos : List (AlgoFn σ)) (s : σ) : Out σ :=
  if checkRunAlways algos then alwaysLoop algos true s else plainLoop algos s

/-- `Or.__call__`: `res = False; for algo in list: tempRes = algo(target); res = res | tempRes; return res` -/
def orLoop : List (AlgoFn σ) → Bool → σ → Out σ
  | [], res, s => .ret res s
  | a :: rest, res, s =>
    match a.run s with
    | .raise e s1 => .raise e s1
    | .ret r s1 => orLoop rest (res || r) s1

def orCall (algos : List (AlgoFn σ)) (s : σ) : Out σ := orLoop algos false s

/-- `Not.__call__`: `return not self._algo(target)` -/
def notCall (a : AlgoFn σ) (s : σ) : Out σ :=
  match a.run s with
  | .raise e s1 => .raise e s1
  | .ret r s1 => .ret (!r) s1

end Generic

/-! ### Concrete target state: temp / perm dictionaries, children weights, call log -/

/-- Values stored in `temp` / `perm` by the mocks. -/
inductive Val (α : Type) where
  | none                                            -- Python `None`
  | int (i : Int)
  | num (x : α)                                     -- a float
  | dict (np : Bool) (w : List (String × α))        -- name → float (dict of Python floats, or `np`: numpy-valued / Series)
  deriving DecidableEq

abbrev Dict (α : Type) := List (String × Val α)

section Dicts
variable {α : Type}

/-- `d[k]` / `k in d` -/
def dget (k : String) : Dict α → Option (Val α)
  | [] => none
  | (k', v) :: r => if k' == k then some v else dget k r

/-- `d[k] = v` (insertion order kept, as Python does) -/
def dset (k : String) (v : Val α) : Dict α → Dict α
  | [] => [(k, v)]
  | (k', v') :: r => if k' == k then (k, v) :: r else (k', v') :: dset k v r

def dsetAll (ws : List (String × Val α)) (d : Dict α) : Dict α :=
  ws.foldl (fun acc kv => dset kv.1 kv.2 acc) d

/-- lookup in a weights mapping -/
def wget (k : String) : List (String × α) → Option α
  | [] => none
  | (k', v) :: r => if k' == k then some v else wget k r

end Dicts

/-- A child of the target as `RunIfOutOfBounds` sees it: `c.name`, `c.weight`, and whether that weight is a
    numpy float (decides what a division by a zero target does). -/
structure Kid (α : Type) where
  name : String
  weight : α
  np : Bool

/-- What the harness observes. -/
inductive Ev (α : Type) where
  | visit (strat : String)                                     -- `Strategy.run` entered
  | call (strat : String) (id : Nat) (temp perm : Dict α)      -- mock `id` called on `strat`; temp/perm as it found them
  deriving DecidableEq

def Ev.isVisit {α : Type} : Ev α → Bool
  | .visit _ => true
  | .call .. => false

/-- mock `id` was called -/
def Ev.isCallOf {α : Type} (id : Nat) : Ev α → Bool
  | .visit _ => false
  | .call _ i _ _ => i == id

/-- The target strategy as the algos see it, plus the global observation log. -/
structure Tgt (α : Type) where
  name : String
  kids : List (Kid α)
  temp : Dict α
  perm : Dict α
  log : List (Ev α)

section Concrete
variable {α : Type}

/-- number of calls of mock `id` recorded so far -/
def callsOf (id : Nat) (log : List (Ev α)) : Nat := (log.filter (Ev.isCallOf id)).length

/-- value a scripted mock returns on its `k`-th call (0-based) -/
def scriptAt (script : List Bool) (dflt : Bool) (k : Nat) : Bool := script.getD k dflt

/-- A scripted mock algo: records the call (with temp and perm as found), writes its entries into temp and
    perm, returns the next value of its script (`dflt` once the script is exhausted). -/
def mockCall (id : Nat) (script : List Bool) (dflt : Bool) (wtemp wperm : List (String × Val α))
    (tg : Tgt α) : Out (Tgt α) :=
  .ret (scriptAt script dflt (callsOf id tg.log))
    { tg with log := tg.log ++ [Ev.call tg.name id tg.temp tg.perm],
              temp := dsetAll wtemp tg.temp,
              perm := dsetAll wperm tg.perm }

/-- `Require.__call__` on the temp dictionary:
    `if item not in temp: return if_none` / `item = temp[item]` / `if item is None: return if_none` /
    `return pred(item)` -/
def requireVal (pred : Val α → Bool) (item : String) (ifNone : Bool) (temp : Dict α) : Bool :=
  match dget item temp with
  | Option.none => ifNone
  | some Val.none => ifNone
  | some v => pred v

def requireCall (pred : Val α → Bool) (item : String) (ifNone : Bool) (tg : Tgt α) : Out (Tgt α) :=
  .ret (requireVal pred item ifNone tg.temp) tg

end Concrete

section OutOfBounds
variable {α : Type} [Sub α] [Div α] [Neg α] [LT α] [DecidableLT α] [OfNat α 0]

/-- `==` on non-NaN numbers -/
def eqZ (a : α) : Bool := !(decide (a < 0)) && !(decide (0 < a))

/-- `abs((c.weight - targets[cname]) / targets[cname]) > tolerance` for one child.
    With a zero target the division is a `ZeroDivisionError` on Python floats; when either operand is a
    numpy float it is IEEE (`±inf > tol` for a non-zero numerator, `nan > tol` = False for `0/0`; the
    tolerance is finite). -/
def deviates (tol : α) (ieee : Bool) (w t : α) : Except Err Bool :=
  if eqZ t then
    if ieee then .ok (!(eqZ (w - t))) else .error .zeroDivision
  else .ok (decide (tol < absA ((w - t) / t)))

/-- the loop `for cname in target.children: if cname in targets: ... if deviation > tol: return True`;
    `false` = the loop ran to its end. -/
def oobKids (tol : α) (np : Bool) (targets : List (String × α)) : List (Kid α) → Except Err Bool
  | [] => .ok false
  | k :: ks =>
    match wget k.name targets with
    | none => oobKids tol np targets ks
    | some t =>
      match deviates tol (k.np || np) k.weight t with
      | .error e => .error e
      | .ok true => .ok true
      | .ok false => oobKids tol np targets ks

/-- `RunIfOutOfBounds.__call__` on (temp, children) -/
def oobVal (tol : α) (temp : Dict α) (kids : List (Kid α)) : Except Err Bool :=
  match dget "weights" temp with
  | none => .ok true
  | some wv =>
    let loop : Except Err Bool :=
      match wv, kids with
      | .dict np targets, ks => oobKids tol np targets ks
      | _, [] => .ok false
      | _, _ :: _ => .error .typeError            -- `cname in None` / `cname in 3`
    match loop with
    | .error e => .error e
    | .ok true => .ok true
    | .ok false =>
      match dget "cash" temp with
      | none => .ok false
      | some _ => .error .attributeError          -- `targets.value`
                                                  -- (dict, Series, None, numbers: none has `.value`)

def oobCall (tol : α) (tg : Tgt α) : Out (Tgt α) :=
  match oobVal tol tg.temp tg.kids with
  | .ok b => .ret b tg
  | .error e => .raise e tg

end OutOfBounds

/-! ### The scripted algo language executed by the driver -/

/-- Predicates handed to `Require` by the harness (total Python lambdas with the same meaning). -/
inductive Pred where
  | const (b : Bool)        -- `lambda x: b`
  | intGt (n : Int)         -- `lambda x: type(x) is int and x > n`
  | nonEmpty                -- `lambda x: isinstance(x, (dict, pd.Series)) and len(x) > 0`
  | isNum                   -- `lambda x: type(x) is float`
  deriving Repr

def Pred.eval {α : Type} : Pred → Val α → Bool
  | .const b, _ => b
  | .intGt n, .int i => decide (n < i)
  | .intGt _, _ => false
  | .nonEmpty, .dict _ w => !w.isEmpty
  | .nonEmpty, _ => false
  | .isNum, .num _ => true
  | .isNum, _ => false

/-- Algo objects: every one carries its `run_always` attribute. -/
inductive Prog (α : Type) where
  | mock (ra : RA) (id : Nat) (script : List Bool) (dflt : Bool) (wtemp wperm : List (String × Val α))
  | stack (ra : RA) (ps : List (Prog α))          -- nested `AlgoStack(*ps)`
  | or (ra : RA) (ps : List (Prog α))             -- `Or(ps)`
  | not (ra : RA) (p : Prog α)                    -- `Not(p)`
  | require (ra : RA) (pred : Pred) (item : String) (ifNone : Bool)
  | oob (ra : RA) (tol : α)                       -- `RunIfOutOfBounds(tol)`

def Prog.ra {α : Type} : Prog α → RA
  | .mock ra .. => ra
  | .stack ra _ => ra
  | .or ra _ => ra
  | .not ra _ => ra
  | .require ra .. => ra
  | .oob ra _ => ra

section Progs
variable {α : Type} [Sub α] [Div α] [Neg α] [LT α] [DecidableLT α] [OfNat α 0]

mutual
/-- calling the algo object on the target -/
def Prog.run : Prog α → Tgt α → Out (Tgt α)
  | .mock _ id script dflt wt wp => mockCall id script dflt wt wp
  | .stack _ ps => stackCall (denoteL ps)
  | .or _ ps => orCall (denoteL ps)
  | .not _ p => notCall ⟨p.ra, Prog.run p⟩
  | .require _ pred item ifNone => requireCall pred.eval item ifNone
  | .oob _ tol => oobCall tol

/-- the algo list of a stack / an `Or` -/
def denoteL : List (Prog α) → List (AlgoFn (Tgt α))
  | [] => []
  | p :: ps => ⟨p.ra, Prog.run p⟩ :: denoteL ps
end

def Prog.toAlgo (p : Prog α) : AlgoFn (Tgt α) := ⟨p.ra, p.run⟩

end Progs

/-! ### `Strategy.run` on a tree -/

/-- what `Strategy.run` needs of a strategy node -/
structure SData (α : Type) where
  name : String
  weight : α
  np : Bool
  stack : List (Prog α)        -- `Strategy(name, algos)` → `AlgoStack(*algos)`
  temp : Dict α
  perm : Dict α

inductive SNode (α : Type) where
  | sec (name : String) (weight : α) (np : Bool)
  | strat (d : SData α) (kids : List (SNode α))

/-- result of a tree run -/
inductive TOut (β α : Type) where
  | done (t : β) (log : List (Ev α))
  | raise (e : Err) (log : List (Ev α))

section Tree
variable {α : Type}

def SNode.kid : SNode α → Kid α
  | .sec n w np => ⟨n, w, np⟩
  | .strat d _ => ⟨d.name, d.weight, d.np⟩

/-- the target handed to the stack by `Strategy.run`: `self.temp = {}` first -/
def freshTgt (d : SData α) (kids : List (SNode α)) (log : List (Ev α)) : Tgt α :=
  { name := d.name, kids := kids.map SNode.kid, temp := [], perm := d.perm, log := log ++ [Ev.visit d.name] }

variable [Sub α] [Div α] [Neg α] [LT α] [DecidableLT α] [OfNat α 0]

mutual
/-- `node.run()`: securities do nothing; a strategy clears temp, calls its stack (result ignored), then
    runs its children in `_childrenv` order. An exception ends everything. -/
def runNode : SNode α → List (Ev α) → TOut (SNode α) α
  | .sec n w np, log => .done (.sec n w np) log
  | .strat d kids, log =>
    match stackCall (denoteL d.stack) (freshTgt d kids log) with
    | .raise e tg => .raise e tg.log
    | .ret _ tg =>
      match runKids kids tg.log with
      | .raise e l => .raise e l
      | .done kids' l => .done (.strat { d with temp := tg.temp, perm := tg.perm } kids') l

def runKids : List (SNode α) → List (Ev α) → TOut (List (SNode α)) α
  | [], log => .done [] log
  | k :: ks, log =>
    match runNode k log with
    | .raise e l => .raise e l
    | .done k' l =>
      match runKids ks l with
      | .raise e l' => .raise e l'
      | .done ks' l' => .done (k' :: ks') l'
end

/-- `n` successive `root.run()` calls -/
def runTimes : Nat → SNode α → List (Ev α) → TOut (SNode α) α
  | 0, t, log => .done t log
  | n + 1, t, log =>
    match runNode t log with
    | .raise e l => .raise e l
    | .done t' l => runTimes n t' l

end Tree

end Bt.Stack
