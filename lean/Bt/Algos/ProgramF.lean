import Bt.Algos.Program
import Bt.Algos.Select
/-
  Pieces of the extended whole-program model (`Bt/Algos/ProgramX.lean`) that are driven by frames the user hands to the algos:

  * `SelectWhere(signal)`                      — `Select.selectWhere` on the frame's row for the current date;
  * `SetStat(stat, lag)` + `SelectN(...)`      — `selectStatN`: `Select.setStat` on the frame's row at `now − lag`, then `Select.selectN`;
  * `Require(lambda x: len(x) > 0, 'selected', if_none)` — `requireSel`;
  * `CloseDead()`                              — `closeDeadLoop`: `target.close(c)` for every child whose universe price at
                                                 `target.now` is `<= 0`, the name dropped from `temp['weights']`.

  Frames are indexed by dates; which row of a frame a date (or `date − lag`) hits is resolved by pandas on the Python side and
  travels as one entry per row of the backtest's index (`rows[d]`), like the windows of `SelectHasData` / `SelectMomentum`.
-/
namespace Bt.Prog
open Bt Bt.Select

section sel
variable {ι α : Type} [DecidableEq ι] [LT α] [DecidableLT α] [LE α] [DecidableLE α] [OfNat α 0] [OfNat α 1]
  [Mul α] [HasNatFloor α]

/-- `AlgoStack(SetStat(frame, lag), SelectN(n, sort_descending, all_or_none, filter_selected))`.
    `srow` = the frame's row at `t0 = now − lag` (`none`: `t0` is not in the frame's index — `SetStat` answers False and the
    stack stops: result `none`); otherwise `temp['stat'] = frame.loc[t0]` (`Select.setStat`) and `SelectN` ranks it. -/
def selectStatN (scols : List ι) (srow : Option (List (Option α))) (prior : Option (List ι)) (n : NSpec α)
    (asc aon fs : Bool) : Except SelErr (Option (List ι)) :=
  match setStat scols srow.toList (srow.map fun _ => 0) with
  | none => .ok none
  | some st => (selectN (some st) prior n asc aon fs).map some

end sel

/-- `Require(lambda x: len(x) > 0, 'selected', if_none)`: the answer of the algo -/
def requireSel {ι : Type} (ifNone : Bool) : Option (List ι) → Bool
  | none => ifNone
  | some l => !l.isEmpty

section dead
variable {α : Type} [Add α] [Sub α] [Mul α] [Div α] [Neg α] [LT α] [DecidableLT α]
  [LE α] [DecidableLE α] [OfNat α 0] [OfNat α 1] [HasFloor α] [NatCast α]

/-- `universe[c].loc[now] <= 0` (a missing price compares False) -/
def isDead : Option α → Bool
  | some p => decide (p ≤ 0)
  | none => false

/-- `del targets[c]` -/
def dropKey (i : Nat) (ws : List (Nat × α)) : List (Nat × α) := ws.filter fun p => p.1 != i

/-- the loop of `CloseDead.__call__` over `target.children` (child indices, in order) at row `r = target.now`:
    `if target.universe[c].loc[now] <= 0: target.close(c); if c in targets: del targets[c]`.  `close` updates the tree
    (`update=True`), so every test reads the tree the previous closes left. -/
def closeDeadLoop (cfg : Cfg α) (path : List Nat) (r : Nat) :
    List Nat → World α × List (Nat × α) → Except Err (World α × List (Nat × α))
  | [], s => pure s
  | i :: rest, (w, ws) =>
    match w.root.get? (path ++ [i]) with
    | some k =>
      if isDead (uniPrice r k) then
        (opClose cfg w path i true).bind fun w1 => closeDeadLoop cfg path r rest (w1, dropKey i ws)
      else closeDeadLoop cfg path r rest (w, ws)
    | none => throw Err.badPath

/-- `CloseDead()(target)` on the strategy at `path` with `temp['weights'] = ws` -/
def closeDead (cfg : Cfg α) (path : List Nat) (w : World α) (ws : List (Nat × α)) :
    Except Err (World α × List (Nat × α)) :=
  match w.root.get? path with
  | some (.strat sd kids) =>
    match sd.now with
    | some r => closeDeadLoop cfg path r (List.range kids.length) (w, ws)
    | none => throw Err.badPath
  | _ => throw Err.badPath

end dead
end Bt.Prog
