/-
  Selection algos of bt/algos.py as list functions over a price table.

  A table is the strategy's universe: column names and rows of `Option α` cells (NaN = `none`);
  `now` is the index of the current row.  `target.universe` is `_universe.loc[:now]`, so every
  selector below reads only `rows.take (now+1)`.
  Date arithmetic (`now - lookback`, `now - lag`) is resolved by the caller into row indices
  (`lo`, `hi1`, `t0row`); the harness checks that resolution against what pandas slices.

  Errors the code raises are explicit (`SelErr`).  `temp['selected']` / `temp['stat']` absent is
  `none`.  Mirrors what the code does, not what it should do.
-/
namespace Bt.Select

/-- the exceptions the selection algos (or pandas / random below them) raise -/
inductive SelErr where
  | keyError      -- label not in columns / index, or temp key missing
  | indexError    -- `iloc[-1]` on an empty window
  | typeError     -- float slice bound, `random.sample` on a pandas Index
  | valueError    -- negative n
  deriving DecidableEq, Repr

def SelErr.toString : SelErr → String
  | .keyError => "KeyError" | .indexError => "IndexError"
  | .typeError => "TypeError" | .valueError => "ValueError"

/-- conversions the fractional `n` of SelectN needs: `int(x)` for `x ≥ 0` and `float(len)` -/
class HasNatFloor (α : Type) where
  natFloor : α → Nat
  natCast : Nat → α
export HasNatFloor (natFloor natCast)

instance : HasNatFloor Float := ⟨fun x => x.floor.toUInt64.toNat, Float.ofNat⟩

structure Table (ι α : Type) where
  cols : List ι
  rows : List (List (Option α))

section Basic
variable {ι : Type} [DecidableEq ι]

/-- label lookup in a row: `row[k]` (first match), `none` = label not present -/
def lookup {β : Type} : List ι → List β → ι → Option β
  | c :: cs, x :: xs, k => if c = k then some x else lookup cs xs k
  | _, _, _ => none

/-- all labels are columns (otherwise pandas raises KeyError) -/
def allKnown (cols : List ι) (ks : List ι) : Bool := ks.all (fun k => decide (k ∈ cols))

/-- `[x for x in l if all entries are not NaN]`: `none` as soon as one entry is missing -/
def allSome {β : Type} : List (Option β) → Option (List β)
  | [] => some []
  | none :: _ => none
  | some x :: xs => match allSome xs with
    | none => none
    | some l => some (x :: l)

end Basic

section Tradable
variable {ι α : Type} [DecidableEq ι] [LT α] [DecidableLT α] [OfNat α 0]

/-- the test `dropna()` + (`include_negative` or `> 0`) applies to a cell -/
def tradable (neg : Bool) : Option α → Bool
  | none => false
  | some p => neg || decide (0 < p)

def tradableAt (cols : List ι) (row : List (Option α)) (neg : Bool) (k : ι) : Bool :=
  match lookup cols row k with
  | some x => tradable neg x
  | none => false

/-- `universe.loc[now, ks].dropna()` then `[universe > 0]`: the block shared by SelectAll, SelectThese,
    SelectWhere, SelectRandomly, ResolveOnTheRun.  With `include_no_data` nothing is looked up and
    nothing is filtered — zero and negative prices pass as well. -/
def tradFilter (cols : List ι) (row : List (Option α)) (nd neg : Bool) (ks : List ι) : Except SelErr (List ι) :=
  if nd then .ok ks
  else if allKnown cols ks then .ok (ks.filter (tradableAt cols row neg))
  else .error .keyError

/-- rows a strategy can see at `now` (`_universe.loc[:now]`) -/
def Table.visible (t : Table ι α) (now : Nat) : List (List (Option α)) := t.rows.take (now + 1)

/-- `universe.loc[now]` -/
def Table.rowAt (t : Table ι α) (now : Nat) : Option (List (Option α)) := (t.visible now)[now]?

/-- rows `lo ≤ j < hi1` of the visible universe (a `.loc[a:b]` slice resolved to positions) -/
def Table.window (t : Table ι α) (now lo hi1 : Nat) : List (List (Option α)) :=
  ((t.visible now).take hi1).drop lo

/-- filter `ks` on the current row -/
def filterNow (t : Table ι α) (now : Nat) (nd neg : Bool) (ks : List ι) : Except SelErr (List ι) :=
  if nd then .ok ks
  else match t.rowAt now with
    | none => .error .keyError
    | some row => tradFilter t.cols row false neg ks

/-- SelectAll.__call__ -/
def selectAll (t : Table ι α) (now : Nat) (nd neg : Bool) : Except SelErr (List ι) :=
  filterNow t now nd neg t.cols

/-- SelectThese.__call__ -/
def selectThese (t : Table ι α) (now : Nat) (tickers : List ι) (nd neg : Bool) : Except SelErr (List ι) :=
  filterNow t now nd neg tickers

/-- a cell that `count()` counts -/
def present : Option (Option α) → Bool
  | some (some _) => true
  | _ => false

/-- `filt.count()[k]` -/
def countIn (cols : List ι) (w : List (List (Option α))) (k : ι) : Nat :=
  w.countP (fun r => present (lookup cols r k))

/-- `cnt[key]` for a boolean Series `key` indexed by `sel`, `cnt` being indexed by a sub-list of `sel`:
    pandas aligns the key by label.  A label that occurs twice in `sel` makes the aligned mask longer than
    `cnt`; that is accepted only through the all-True shortcut, otherwise numpy raises IndexError.
    (`key` depends on the label only: equal labels are the same universe column.) -/
def boolIndex (sel cnt : List ι) (key : ι → Bool) : Except SelErr (List ι) :=
  if decide (cnt = sel) || cnt.all (fun k => decide (sel.count k = 1)) || cnt.all key
  then .ok (cnt.filter key)
  else .error .indexError

/-- SelectHasData.__call__; `lo` = position of the first visible row with date ≥ now − lookback -/
def selectHasData (t : Table ι α) (now lo minCount : Nat) (nd neg : Bool) (prior : Option (List ι)) :
    Except SelErr (List ι) :=
  let sel := prior.getD t.cols
  if allKnown t.cols sel then
    let cnt := sel.filter (fun k => decide (minCount ≤ countIn t.cols (t.window now lo (now + 1)) k))
    if nd then .ok cnt
    else match t.rowAt now with
      | none => .error .keyError
      | some row =>
        match boolIndex sel cnt (tradableAt t.cols row true) with      -- cnt[~isnull]
        | .error e => .error e
        | .ok c1 => if neg then .ok c1 else boolIndex sel c1 (tradableAt t.cols row false)   -- cnt[... > 0]
  else .error .keyError

/-- SelectWhere: columns whose signal cell is True -/
def sigTrue (scols : List ι) (srow : List (Option Bool)) : List ι :=
  ((scols.zip srow).filter (fun kb => kb.2 == some true)).map Prod.fst

/-- SelectWhere.__call__; `srow` = `signal.loc[now]` or `none` when `now` is not in the signal's index.
    Result: the new content of temp['selected'] (unchanged when the date is absent). -/
def selectWhere (t : Table ι α) (now : Nat) (scols : List ι) (srow : Option (List (Option Bool)))
    (nd neg : Bool) (prior : Option (List ι)) : Except SelErr (Option (List ι)) :=
  match srow with
  | none => .ok prior
  | some r =>
    match filterNow t now nd neg (sigTrue scols r) with
    | .error e => .error e
    | .ok l => .ok (some l)

/-- SelectRandomly before sampling -/
def randomPool (t : Table ι α) (now : Nat) (nd neg : Bool) (prior : Option (List ι)) : Except SelErr (List ι) :=
  filterNow t now nd neg (prior.getD t.cols)

/-- `n = self.n if self.n < len(sel) else len(sel)`; `random.sample` raises on a negative size -/
def sampleSize (n : Int) (len : Nat) : Except SelErr Nat :=
  if n < 0 then .error .valueError else .ok (min n.toNat len)

/-- what `random.sample(pool, k)` may return: `k` draws without replacement (positions, so a label
    occurs at most as often as in the pool) -/
def isSampleOf (pool : List ι) (k : Nat) (out : List ι) : Bool :=
  decide (out.length = k) && out.all (fun x => decide (out.count x ≤ pool.count x))

/-- SelectRandomly.__call__ as a checked relation on the actual output `out`.
    `priorIsIndex`: temp['selected'] is a pandas Index (what SelectAll(include_no_data=True) leaves);
    `random.sample` refuses it when no filter turned it into a list. -/
def selectRandomlyOk (t : Table ι α) (now : Nat) (n : Option Int) (nd neg : Bool) (prior : Option (List ι))
    (priorIsIndex : Bool) (out : List ι) : Except SelErr Bool :=
  match randomPool t now nd neg prior with
  | .error e => .error e
  | .ok pool =>
    match n with
    | none => .ok (decide (out = pool))
    | some n =>
      if nd && priorIsIndex then .error .typeError
      else match sampleSize n pool.length with
        | .error e => .error e
        | .ok k => .ok (isSampleOf pool k out)

/-- ResolveOnTheRun.__call__.  `ocols`/`orow`: the on-the-run frame's columns and its row at `now`
    (`none` = `now` not in its index); a NaN name is `none` and, with include_no_data, is passed on. -/
def resolveOnTheRun (t : Table ι α) (now : Nat) (ocols : List ι) (orow : Option (List (Option ι)))
    (nd neg : Bool) (prior : Option (List ι)) : Except SelErr (List (Option ι)) :=
  match prior with
  | none => .error .keyError
  | some sel =>
    let aliases := sel.filter (fun s => decide (s ∈ ocols))
    let rest := (sel.filter (fun s => !decide (s ∈ ocols))).map some
    match orow with
    | none => .error .keyError
    | some r =>
      let resolved : List (Option ι) := aliases.map (fun a => (lookup ocols r a).join)
      if nd then .ok (resolved ++ rest)
      else match allSome resolved with
        | none => .error .keyError
        | some names =>
          match filterNow t now false neg names with
          | .error e => .error e
          | .ok l => .ok (l.map some ++ rest)

end Tradable

section Rank
variable {ι α : Type} [DecidableEq ι] [LT α] [DecidableLT α] [LE α] [DecidableLE α] [OfNat α 0] [OfNat α 1]

/-- `stat.dropna()` -/
def dropna (s : List (ι × Option α)) : List (ι × α) :=
  s.filterMap (fun kx => kx.2.map (fun x => (kx.1, x)))

/-- the series SelectN ranks: non-missing statistics, restricted to temp['selected'] when
    `filter_selected` is set and a selection exists -/
def eligible (s : List (ι × Option α)) (prior : Option (List ι)) (fs : Bool) : List (ι × α) :=
  match fs, prior with
  | true, some p => (dropna s).filter (fun kx => decide (kx.1 ∈ p))
  | _, _ => dropna s

/-- sort order of `sort_values(ascending=asc)` -/
def before (asc : Bool) (a b : ι × α) : Bool :=
  if asc then decide (a.2 ≤ b.2) else decide (b.2 ≤ a.2)

/-- insertion of `x` before the first element it may precede -/
def insertBy {β : Type} (le : β → β → Bool) (x : β) : List β → List β
  | [] => [x]
  | y :: ys => if le x y then x :: y :: ys else y :: insertBy le x ys

/-- stable insertion sort (earlier elements stay first among ties) -/
def sortBy {β : Type} (le : β → β → Bool) : List β → List β
  | [] => []
  | x :: xs => insertBy le x (sortBy le xs)

/-- a stable sort (pandas' default quicksort is not stable: ties are covered by `selectNOk`) -/
def ranked (asc : Bool) (E : List (ι × α)) : List (ι × α) := sortBy (before asc) E

/-- the parameter n of SelectN: a Python int or a float -/
inductive NSpec (α : Type) where
  | int (k : Nat)
  | real (x : α)

variable [Mul α] [HasNatFloor α]

/-- `keep_n`: n itself, or `int(n * len(stat))` when n < 1; a negative n is refused by `__init__`,
    a float ≥ 1 makes `stat[:keep_n]` raise TypeError -/
def keepN : NSpec α → Nat → Except SelErr Nat
  | .int k, _ => .ok k
  | .real x, len =>
    if x < 0 then .error .valueError
    else if x < 1 then .ok (natFloor (x * natCast len))
    else .error .typeError

/-- `SelectN.__init__`: "n cannot be negative" -/
def nRefused : NSpec α → Bool
  | .int _ => false
  | .real x => decide (x < 0)

/-- `all_or_none` -/
def allOrNone {β : Type} (aon : Bool) (k : Nat) (sel : List β) : List β :=
  if aon && decide (sel.length < k) then [] else sel

/-- SelectN.__call__ (with the stable sort) -/
def selectN (stat : Option (List (ι × Option α))) (prior : Option (List ι)) (n : NSpec α)
    (asc aon fs : Bool) : Except SelErr (List ι) :=
  if nRefused n then .error .valueError else
  match stat with
  | none => .error .keyError
  | some s =>
    match keepN n (eligible s prior fs).length with
    | .error e => .error e
    | .ok k => .ok (allOrNone aon k (((ranked asc (eligible s prior fs)).take k).map Prod.fst))

/-- value of a label in a ranked series -/
def valOf (E : List (ι × α)) (k : ι) : Option α := lookup (E.map Prod.fst) (E.map Prod.snd) k

/-- `a` may stand before `b` in the sorted series -/
def leDir (asc : Bool) (a b : α) : Bool := if asc then decide (a ≤ b) else decide (b ≤ a)

def sortedDir (asc : Bool) : List α → Bool
  | [] => true
  | a :: l => l.all (fun b => leDir asc a b) && sortedDir asc l

/-- `out` is a valid "first k of E sorted": k labels (or all), each from E and no more often than in E, in sorted order,
    and every label left out ranks no better than every label taken -/
def isTopK (asc : Bool) (E : List (ι × α)) (k : Nat) (out : List ι) : Bool :=
  decide (out.length = min k E.length) &&
  out.all (fun o => (valOf E o).isSome) &&
  out.all (fun o => decide (out.count o ≤ (E.map Prod.fst).count o)) &&
  sortedDir asc (out.filterMap (valOf E)) &&
  E.all (fun e => decide (e.1 ∈ out) || out.all (fun o => match valOf E o with
    | some v => leDir asc v e.2
    | none => false))

/-- SelectN.__call__ as a relation on the actual output (any sort, stable or not) -/
def selectNOk (stat : Option (List (ι × Option α))) (prior : Option (List ι)) (n : NSpec α)
    (asc aon fs : Bool) (out : List ι) : Except SelErr Bool :=
  if nRefused n then .error .valueError else
  match stat with
  | none => .error .keyError
  | some s =>
    match keepN n (eligible s prior fs).length with
    | .error e => .error e
    | .ok k =>
      if aon && decide ((eligible s prior fs).length < k) then .ok (decide (out = []))
      else .ok (isTopK asc (eligible s prior fs) k out)

variable [Div α] [Sub α]

/-- `last / first - 1` for one column; NaN when either end is missing.  The code does not guard the
    division: a zero first price gives ±inf (kept) or NaN (0/0, dropped) in doubles — the `r ≤ r` test is
    false exactly for a NaN result and always true in an ordered field. -/
def retCell : Option (Option α) → Option (Option α) → Option α
  | some (some f), some (some l) => if l / f - 1 ≤ l / f - 1 then some (l / f - 1) else none
  | _, _ => none

/-- StatTotalReturn.__call__.  `win = none`: the data starts after `t0 = now − lag` (returns False);
    `some (lo, hi1)`: positions of `universe.loc[t0 − lookback : t0]`.  Result `none` = returned False
    (temp untouched), `some stat` = the new temp['stat']. -/
def statTotalReturn (t : Table ι α) (now : Nat) (win : Option (Nat × Nat)) (prior : Option (List ι)) :
    Except SelErr (Option (List (ι × Option α))) :=
  match prior with
  | none => .error .keyError
  | some sel =>
    if allKnown t.cols sel then
      match win with
      | none => .ok none
      | some (lo, hi1) =>
        match (t.window now lo hi1).head?, (t.window now lo hi1).getLast? with
        | some first, some last =>
          .ok (some (sel.map (fun k => (k, retCell (lookup t.cols first k) (lookup t.cols last k)))))
        | _, _ => .error .indexError
    else .error .keyError

/-- SelectMomentum = AlgoStack(StatTotalReturn, SelectN(filter_selected=False)):
    `none` = the stack stopped (False), `some (stat, selected)` otherwise -/
def selectMomentum (t : Table ι α) (now : Nat) (win : Option (Nat × Nat)) (prior : Option (List ι))
    (n : NSpec α) (asc aon : Bool) : Except SelErr (Option (List (ι × Option α) × List ι)) :=
  if nRefused n then .error .valueError else
  match statTotalReturn t now win prior with
  | .error e => .error e
  | .ok none => .ok none
  | .ok (some st) =>
    match selectN (some st) prior n asc aon false with
    | .error e => .error e
    | .ok sel => .ok (some (st, sel))

end Rank

section Plain
variable {ι α : Type} [DecidableEq ι]

/-- SetStat.__call__: `t0row` = position of `now − lag` in the stat frame's index (`none`: absent → False) -/
def setStat (scols : List ι) (srows : List (List (Option α))) (t0row : Option Nat) :
    Option (List (ι × Option α)) :=
  match t0row with
  | none => none
  | some j =>
    match srows[j]? with
    | none => none
    | some r => some (scols.zip r)

/-- SelectRegex.__call__ with `regex.search` as a predicate -/
def selectRegex (p : ι → Bool) (prior : Option (List ι)) : Except SelErr (List ι) :=
  match prior with
  | none => .error .keyError
  | some s => .ok (s.filter p)

/-- SelectActive.__call__ -/
def selectActive (rolled closed : List ι) (prior : Option (List ι)) : Except SelErr (List ι) :=
  match prior with
  | none => .error .keyError
  | some s => .ok (s.filter (fun k => !(decide (k ∈ rolled) || decide (k ∈ closed))))

/-- node classes of bt/core.py (+ NoneType, the default of exclude_types) -/
inductive Ty where
  | node | strategyBase | securityBase | strategy | security | fiStrategy | fiSecurity
  | couponSec | hedgeSec | couponHedgeSec | noneType
  deriving DecidableEq, Repr

/-- direct base class -/
def Ty.parent : Ty → Option Ty
  | .node => none
  | .strategyBase => some .node
  | .securityBase => some .node
  | .strategy => some .strategyBase
  | .security => some .securityBase
  | .fiStrategy => some .strategy
  | .fiSecurity => some .securityBase
  | .couponSec => some .fiSecurity
  | .hedgeSec => some .securityBase
  | .couponHedgeSec => some .couponSec
  | .noneType => none

/-- `issubclass(a, b)` (the hierarchy has depth 5) -/
def Ty.isSub (a b : Ty) : Bool :=
  let rec go : Nat → Ty → Bool
    | 0, x => decide (x = b)
    | f + 1, x => decide (x = b) || (match x.parent with
      | none => false
      | some p => go f p)
  go 5 a

/-- `isinstance(obj of class a, tuple ts)` -/
def isInstance (a : Ty) (ts : List Ty) : Bool := ts.any (fun b => a.isSub b)

/-- SelectTypes.__call__: `kids` = target.children in insertion order with their classes -/
def selectTypes (kids : List (ι × Ty)) (incl excl : List Ty) (prior : Option (List ι)) : List ι :=
  let excl' := if excl.isEmpty then [Ty.noneType] else excl
  let sel := (kids.filter (fun kt => isInstance kt.2 incl && !isInstance kt.2 excl')).map Prod.fst
  match prior with
  | none => sel
  | some p => sel.filter (fun s => decide (s ∈ p))

end Plain

end Bt.Select
