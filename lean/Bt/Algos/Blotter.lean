/-
  The rows a blotter-driven algo (`ReplayTransactions`, `SimulateRFQTransactions`) picks on one call:

      timeline = target.data.index ; index = timeline.get_loc(target.now)
      start = Timestamp.min if index == 0 else timeline[index - 1] ; end = target.now
      rows = frame[(timestamps > start) & (timestamps <= end)]

  a boolean mask over the whole frame: the rows dated in `(previous date, now]`, in the frame's own order, whatever that order is.
  Time stamps are integers (nanoseconds in pandas); a row is a stamp and a payload.
-/
namespace Bt.Blotter

/-- is a row stamped `stamp` picked by the call at position `i` of the timeline? -/
def inWindow (timeline : List Int) (i : Nat) (stamp : Int) : Bool :=
  match timeline[i]? with
  | none => false
  | some now =>
    decide (stamp ≤ now) &&
    (match i with
     | 0 => true
     | j + 1 => match timeline[j]? with
       | some prev => decide (prev < stamp)
       | none => true)

/-- the rows of one call, in frame order -/
def select {β : Type} (timeline : List Int) (i : Nat) (rows : List (Int × β)) : List (Int × β) :=
  rows.filter fun r => inWindow timeline i r.1

/-- positions (in the frame) of the rows of one call -/
def selectIdx (timeline : List Int) (i : Nat) (stamps : List Int) : List Nat :=
  ((List.range stamps.length).zip stamps).filterMap fun p => if inWindow timeline i p.2 then some p.1 else none

end Bt.Blotter
