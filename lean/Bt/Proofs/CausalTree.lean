import Bt.Proofs.CausalSec
/-! C04 (no look-ahead), part 2: truncation of the supplied data commutes with the tree-level operations
    (`update`, `allocate`, `transact`, one level of `flatten`, path addressing) executed at clocks `≤ t`. -/
set_option linter.unusedSectionVars false
namespace Bt.P04
open Bt Bt.P08

variable {K : Type} [Field K] [LinearOrder K] [IsStrictOrderedRing K] [HasFloor K]

/-! ### truncated trees -/

section basics
variable (t : Nat)

@[simp] theorem trunc_sec (s : SecData K) : Node.trunc t (.sec s) = .sec (s.trunc t) := rfl
@[simp] theorem trunc_strat (sd : StratData K) (ks : List (Node K)) :
    Node.trunc t (.strat sd ks) = .strat sd (Node.truncL t ks) := rfl
@[simp] theorem truncL_nil : Node.truncL t ([] : List (Node K)) = [] := rfl
@[simp] theorem truncL_cons (k : Node K) (ks : List (Node K)) :
    Node.truncL t (k :: ks) = Node.trunc t k :: Node.truncL t ks := rfl

theorem truncL_eq_map (ks : List (Node K)) : Node.truncL t ks = ks.map (Node.trunc t) := by
  induction ks with
  | nil => rfl
  | cons k ks ih => rw [truncL_cons, ih]; rfl

@[simp] theorem truncL_length (ks : List (Node K)) : (Node.truncL t ks).length = ks.length := by
  rw [truncL_eq_map, List.length_map]

@[simp] theorem truncL_isEmpty (ks : List (Node K)) : (Node.truncL t ks).isEmpty = ks.isEmpty := by
  cases ks <;> rfl

theorem truncL_getElem? (ks : List (Node K)) (i : Nat) :
    (Node.truncL t ks)[i]? = (ks[i]?).map (Node.trunc t) := by
  rw [truncL_eq_map, List.getElem?_map]

theorem truncL_set (ks : List (Node K)) (i : Nat) (k : Node K) :
    Node.truncL t (ks.set i k) = (Node.truncL t ks).set i (k.trunc t) := by
  rw [truncL_eq_map, truncL_eq_map, List.map_set]

variable (n : Node K)
@[simp] theorem node_trunc_value : (n.trunc t).value = n.value := by cases n <;> rfl
@[simp] theorem node_trunc_notl : (n.trunc t).notl = n.notl := by cases n <;> rfl
@[simp] theorem node_trunc_weight : (n.trunc t).weight = n.weight := by cases n <;> rfl
@[simp] theorem node_trunc_skipped : (n.trunc t).skipped = n.skipped := by cases n <;> rfl
@[simp] theorem node_trunc_fixedIncome : (n.trunc t).fixedIncome = n.fixedIncome := by cases n <;> rfl
@[simp] theorem node_trunc_bidofferPaid : (n.trunc t).bidofferPaid = n.bidofferPaid := by cases n <;> rfl
@[simp] theorem node_trunc_now : (n.trunc t).now = n.now := by cases n <;> rfl
@[simp] theorem node_trunc_isSec : (n.trunc t).isSec = n.isSec := by cases n <;> rfl
@[simp] theorem node_trunc_name : (n.trunc t).name = n.name := by cases n <;> rfl

theorem setWeight_trunc (w : K) : (n.trunc t).setWeight w = (n.setWeight w).trunc t := by cases n <;> rfl

theorem childWeight_trunc (cfg : Cfg K) (fi : Bool) (v nt : K) :
    childWeight cfg fi v nt (n.trunc t) = childWeight cfg fi v nt n := by
  unfold childWeight; rw [node_trunc_notl, node_trunc_value]

theorem kidsWeights_trunc (cfg : Cfg K) (fi : Bool) (v nt : K) (ks : List (Node K)) :
    kidsWeights cfg fi v nt (Node.truncL t ks) = Node.truncL t (kidsWeights cfg fi v nt ks) := by
  induction ks with
  | nil => rfl
  | cons k ks ih =>
    rw [truncL_cons, kidsWeights_cons, kidsWeights_cons, truncL_cons, ih, node_trunc_skipped, childWeight_trunc,
      setWeight_trunc]
    congr 1
    exact ite_comm Iff.rfl (Node.trunc t) rfl rfl

theorem accAdd_trunc (bo : Bool) (acc : Acc K) : accAdd bo acc (n.trunc t) = accAdd bo acc n := by
  unfold accAdd; rw [node_trunc_value, node_trunc_notl, node_trunc_bidofferPaid]

theorem sweepSec_trunc (np : Bool) (s : SecData K) (acc : Acc K) :
    sweepSec np (s.trunc t) acc = ((sweepSec np s acc).1.trunc t, (sweepSec np s acc).2) := by
  unfold sweepSec
  cases np <;> rfl

/-- `get?` of a truncated tree -/
theorem get?_trunc : ∀ (n : Node K) (path : List Nat), (n.trunc t).get? path = (n.get? path).map (Node.trunc t)
  | n, [] => by rw [Node.get?, Node.get?]; rfl
  | .sec s, i :: rest => by rw [trunc_sec, Node.get?, Node.get?]; rfl
  | .strat sd ks, i :: rest => by
    rw [trunc_strat, Node.get?, Node.get?, truncL_getElem?]
    cases h : ks[i]? with
    | none => rfl
    | some k => exact get?_trunc k rest

end basics

/-! ### `update(d)` of a tree, `d ≤ t` -/

/-- what the children loop returns, truncated -/
def truncKA (t : Nat) (r : List (Node K) × Acc K) : List (Node K) × Acc K := (Node.truncL t r.1, r.2)

theorem stratFinish_trunc (cfg : Cfg K) (d t : Nat) (np : Bool) (sd1 : StratData K) (r : List (Node K) × Acc K) :
    stratFinish cfg d np sd1 (truncKA t r) = (stratFinish cfg d np sd1 r).map (Node.trunc t) := by
  unfold stratFinish truncKA
  rw [map_map']
  congr 1
  funext sd3
  rw [kidsWeights_trunc]; rfl

mutual
/-- **`update(d)` of any node on truncated data, `d ≤ t`** -/
theorem updNode_trunc (cfg : Cfg K) {d t : Nat} (h : d ≤ t) :
    (n : Node K) → updNode cfg d (n.trunc t) = (updNode cfg d n).map (Node.trunc t)
  | .sec s => by
    rw [trunc_sec, updNode.eq_1, updNode.eq_1, secUpdate_trunc cfg s h, map_map', map_map']; rfl
  | .strat sd kids => by
    rw [trunc_strat, updNode_strat, updNode_strat]
    exact bind_comm (truncKA t) (Node.trunc t) (updKids_trunc cfg h kids _ _ _) fun r _ =>
      stratFinish_trunc cfg d t _ _ r

theorem updKids_trunc (cfg : Cfg K) {d t : Nat} (h : d ≤ t) :
    (ks : List (Node K)) → ∀ (newpt bo : Bool) (acc : Acc K),
      updKids cfg d newpt bo (Node.truncL t ks) acc = (updKids cfg d newpt bo ks acc).map (truncKA t)
  | [], newpt, bo, acc => by rw [truncL_nil, updKids.eq_1]; rfl
  | .sec s :: ks, newpt, bo, acc => by
    rw [truncL_cons, trunc_sec, updKids_sec, updKids_sec, sweepSec_trunc]
    refine ite_comm Iff.rfl (Except.map (truncKA t)) ?_ ?_
    · rw [updKids_trunc cfg h ks, map_map', map_map']; rfl
    · refine bind_comm (SecData.trunc t) (truncKA t) (secUpdate_trunc cfg _ h) fun s1 _ => ?_
      have e : accAdd bo (sweepSec newpt s acc).2 (.sec (s1.trunc t)) =
          accAdd bo (sweepSec newpt s acc).2 (.sec s1) := accAdd_trunc t (.sec s1) bo _
      show Except.map _ (updKids cfg d newpt bo (Node.truncL t ks)
        (accAdd bo (sweepSec newpt s acc).2 (.sec (s1.trunc t)))) = _
      rw [e, updKids_trunc cfg h ks, map_map', map_map']; rfl
  | .strat sd kk :: ks, newpt, bo, acc => by
    rw [truncL_cons, trunc_strat, updKids_strat, updKids_strat, ← trunc_strat]
    refine bind_comm (Node.trunc t) (truncKA t) (updNode_trunc cfg h (.strat sd kk)) fun k1 _ => ?_
    rw [accAdd_trunc, updKids_trunc cfg h ks, map_map', map_map']; rfl
end

/-! ### clocks of a tree -/

theorem nowsInL_getElem? {P : Nat → Prop} : ∀ (ks : List (Node K)) (i : Nat) (k : Node K),
    NowsInL P ks → ks[i]? = some k → NowsIn P k
  | [], i, k, _, h => by simp at h
  | a :: ks, 0, k, hn, h => by
    simp only [List.getElem?_cons_zero, Option.some.injEq] at h
    subst h; simp only [NowsInL] at hn; exact hn.1
  | a :: ks, i + 1, k, hn, h => by
    simp only [List.getElem?_cons_succ] at h
    simp only [NowsInL] at hn
    exact nowsInL_getElem? ks i k hn.2 h

mutual
theorem nowsIn_trunc {P : Nat → Prop} (t : Nat) : (n : Node K) → (NowsIn P (n.trunc t) ↔ NowsIn P n)
  | .sec s => by simp [NowsIn]
  | .strat sd ks => by simp only [trunc_strat, NowsIn, nowsInL_trunc t ks]
theorem nowsInL_trunc {P : Nat → Prop} (t : Nat) : (ks : List (Node K)) → (NowsInL P (Node.truncL t ks) ↔ NowsInL P ks)
  | [] => by simp [NowsInL]
  | k :: ks => by simp only [truncL_cons, NowsInL, nowsIn_trunc t k, nowsInL_trunc t ks]
end

/-! ### `allocate` / `transact` pushed down a tree -/

/-- node + adjustments, truncated -/
def truncNA (t : Nat) (r : Node K × List (Adj K)) : Node K × List (Adj K) := (r.1.trunc t, r.2)
/-- strategy data + children, truncated -/
def truncSK (t : Nat) (r : StratData K × List (Node K)) : StratData K × List (Node K) := (r.1, Node.truncL t r.2)

mutual
theorem allocNode_trunc (cfg : Cfg K) (t : Nat) :
    (n : Node K) → ∀ (pnow : Option Nat) (comm : K → K → K) (amount : K),
      NowLE t pnow → NowsIn (· ≤ t) n →
      allocNode cfg pnow comm amount (n.trunc t) = (allocNode cfg pnow comm amount n).map (truncNA t)
  | .sec s, pnow, comm, amount, hp, _ => by
    rw [trunc_sec, allocNode.eq_1, allocNode.eq_1, secAllocate_trunc cfg comm s hp, map_map', map_map']; rfl
  | .strat sd kids, pnow, comm, amount, _, hn => by
    rw [trunc_strat, allocNode.eq_2, allocNode.eq_2]
    simp only [NowsIn] at hn
    show Except.map _ (allocKids cfg amount (Node.truncL t kids) _) = Except.map _ (Except.map _ (allocKids cfg amount kids _))
    rw [allocKids_trunc cfg t kids amount (sd.adjust _) hn.1 hn.2, map_map', map_map']; rfl

theorem allocKids_trunc (cfg : Cfg K) (t : Nat) :
    (ks : List (Node K)) → ∀ (amount : K) (sd : StratData K),
      NowLE t sd.now → NowsInL (· ≤ t) ks →
      allocKids cfg amount (Node.truncL t ks) sd = (allocKids cfg amount ks sd).map (truncSK t)
  | [], amount, sd, _, _ => by rw [truncL_nil, allocKids.eq_1]; rfl
  | k :: ks, amount, sd, hp, hn => by
    rw [truncL_cons, allocKids.eq_2, allocKids.eq_2, node_trunc_weight]
    simp only [NowsInL] at hn
    refine bind_comm (truncNA t) (truncSK t) (allocNode_trunc cfg t k _ _ _ hp hn.1) fun r _ => ?_
    show Except.map _ (allocKids cfg amount (Node.truncL t ks) (r.2.foldl StratData.adjust sd)) = _
    rw [allocKids_trunc cfg t ks amount _ (by rw [foldl_adjust_now]; exact hp) hn.2, map_map', map_map']; rfl
end

mutual
theorem transNode_trunc (cfg : Cfg K) (t : Nat) :
    (n : Node K) → ∀ (pnow : Option Nat) (comm : K → K → K) (q : K) (custom : Option K),
      NowLE t pnow → NowsIn (· ≤ t) n →
      transNode cfg pnow comm q custom (n.trunc t) = (transNode cfg pnow comm q custom n).map (truncNA t)
  | .sec s, pnow, comm, q, custom, hp, _ => by
    rw [trunc_sec, transNode.eq_1, transNode.eq_1, secTransact_trunc cfg comm s hp, map_map', map_map']; rfl
  | .strat sd kids, pnow, comm, q, custom, _, hn => by
    rw [trunc_strat, transNode.eq_2, transNode.eq_2]
    simp only [NowsIn] at hn
    rw [transKids_trunc cfg t kids q _ hn.1 hn.2, map_map', map_map']; rfl

theorem transKids_trunc (cfg : Cfg K) (t : Nat) :
    (ks : List (Node K)) → ∀ (q : K) (sd : StratData K),
      NowLE t sd.now → NowsInL (· ≤ t) ks →
      transKids cfg q (Node.truncL t ks) sd = (transKids cfg q ks sd).map (truncSK t)
  | [], q, sd, _, _ => by rw [truncL_nil, transKids.eq_1]; rfl
  | k :: ks, q, sd, hp, hn => by
    rw [truncL_cons, transKids.eq_2, transKids.eq_2, node_trunc_weight]
    simp only [NowsInL] at hn
    refine bind_comm (truncNA t) (truncSK t) (transNode_trunc cfg t k _ _ _ _ hp hn.1) fun r _ => ?_
    show Except.map _ (transKids cfg q (Node.truncL t ks) (r.2.foldl StratData.adjust sd)) = _
    rw [transKids_trunc cfg t ks q _ (by rw [foldl_adjust_now]; exact hp) hn.2, map_map', map_map']; rfl
end

/-! ### one level of `flatten` -/

theorem flattenKidsMV_trunc (cfg : Cfg K) (t : Nat) :
    ∀ (ks : List (Node K)) (sd : StratData K), NowLE t sd.now → NowsInL (· ≤ t) ks →
      flattenKidsMV cfg (Node.truncL t ks) sd = (flattenKidsMV cfg ks sd).map (truncSK t)
  | [], sd, _, _ => by rw [truncL_nil, flattenKidsMV]; rfl
  | k :: ks, sd, hp, hn => by
    rw [truncL_cons, flattenKidsMV, flattenKidsMV, node_trunc_value]
    simp only [NowsInL] at hn
    refine ite_comm Iff.rfl (Except.map (truncSK t)) ?_ ?_
    · rw [flattenKidsMV_trunc cfg t ks sd hp hn.2, map_map', map_map']; rfl
    · refine bind_comm (truncNA t) (truncSK t) (allocNode_trunc cfg t k _ _ _ hp hn.1) fun r _ => ?_
      show Except.map _ (flattenKidsMV cfg (Node.truncL t ks) (r.2.foldl StratData.adjust sd)) = _
      rw [flattenKidsMV_trunc cfg t ks _ (by rw [foldl_adjust_now]; exact hp) hn.2, map_map', map_map']; rfl

theorem flattenKidsFI_trunc (cfg : Cfg K) (t : Nat) :
    ∀ (ks : List (Node K)) (sd : StratData K), NowLE t sd.now →
      flattenKidsFI cfg (Node.truncL t ks) sd = (flattenKidsFI cfg ks sd).map (truncSK t)
  | [], sd, _ => by rw [truncL_nil, flattenKidsFI]; rfl
  | .strat _ _ :: ks, sd, _ => by rw [truncL_cons, trunc_strat, flattenKidsFI, flattenKidsFI]; rfl
  | .sec s :: ks, sd, hp => by
    rw [truncL_cons, trunc_sec, flattenKidsFI, flattenKidsFI]
    refine ite_comm Iff.rfl (Except.map (truncSK t)) ?_ ?_
    · rw [flattenKidsFI_trunc cfg t ks sd hp, map_map', map_map']; rfl
    · refine bind_comm (truncPair t) (truncSK t) (secTransact_trunc cfg _ s hp _ _ _) fun r _ => ?_
      show Except.map _ (flattenKidsFI cfg (Node.truncL t ks) (r.2.toList.foldl StratData.adjust sd)) = _
      rw [flattenKidsFI_trunc cfg t ks _ (by rw [foldl_adjust_now]; exact hp), map_map', map_map']; rfl

theorem flattenStrat_trunc (cfg : Cfg K) (t : Nat) (sd : StratData K) (ks : List (Node K))
    (hp : NowLE t sd.now) (hn : NowsInL (· ≤ t) ks) :
    flattenStrat cfg sd (Node.truncL t ks) = (flattenStrat cfg sd ks).map (truncSK t) := by
  unfold flattenStrat
  exact ite_comm Iff.rfl (Except.map (truncSK t)) (flattenKidsFI_trunc cfg t ks sd hp)
    (flattenKidsMV_trunc cfg t ks sd hp hn)

/-! ### operations addressed by a path -/

/-- result of a node-level operation, truncated -/
def truncRes (t : Nat) (r : OpRes K) : OpRes K := (r.1.trunc t, r.2)

/-- the parent handed to a node-level operation has its clock at or before `t` -/
def ParLE (t : Nat) (par : Option (StratData K)) : Prop := ∀ p, par = some p → NowLE t p.now

theorem parLE_none (t : Nat) : ParLE t (none : Option (StratData K)) := fun _ h => by cases h

theorem flatF_trunc (cfg : Cfg K) (t : Nat) (par : Option (StratData K)) (n : Node K)
    (hn : NowsIn (· ≤ t) n) : flatF cfg par (n.trunc t) = (flatF cfg par n).map (truncRes t) := by
  cases n with
  | sec s => rfl
  | strat sd ks =>
    simp only [NowsIn] at hn
    simp only [trunc_strat, flatF]
    rw [flattenStrat_trunc cfg t sd ks hn.1 hn.2, map_map', map_map']; rfl

theorem modAt_trunc {t : Nat} {f : Option (StratData K) → Node K → Except Err (OpRes K)}
    (hf : ∀ par n, ParLE t par → NowsIn (· ≤ t) n → f par (n.trunc t) = (f par n).map (truncRes t)) :
    ∀ (path : List Nat) (par : Option (StratData K)) (n : Node K), ParLE t par → NowsIn (· ≤ t) n →
      modAt f path par (n.trunc t) = (modAt f path par n).map (truncRes t)
  | [], par, n, hp, hn => by rw [modAt.eq_1, modAt.eq_1]; exact hf par n hp hn
  | i :: rest, par, .sec s, _, _ => by rw [trunc_sec, modAt.eq_2, modAt.eq_2]; rfl
  | i :: rest, par, .strat sd kids, _, hn => by
    rw [trunc_strat, modAt.eq_3, modAt.eq_3, truncL_getElem?]
    simp only [NowsIn] at hn
    cases hk : kids[i]? with
    | none => rfl
    | some k =>
      simp only [Option.map_some]
      rw [modAt_trunc hf rest (some sd) k (fun p hp => by cases hp; exact hn.1)
        (nowsInL_getElem? kids i k hn.2 hk), map_map', map_map']
      congr 1
      funext r
      simp only [truncRes, trunc_strat, truncL_set]

end Bt.P04
