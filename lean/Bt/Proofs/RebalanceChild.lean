import Bt.Proofs.RebalanceOutcome
/-! C06 with costs / at any path, part 7: from `ChildOut` to the statements about one child (target reached up
    to costs; within a unit; exactly; closed), the root as a special path, and the sum over the targets. -/
set_option linter.unusedSectionVars false
namespace Bt.P06
open Bt Bt.Rebal

variable {K : Type} [Field K] [LinearOrder K] [IsStrictOrderedRing K] [HasFloor K]

section child
variable {cfg : Cfg K} {comm : K → K → K} {V : K} {T : List (Nat × K)} {cash : Option K} {tot : K} {i : Nat}
  {s t : SecData K} {q : K}

/-- the job of a child that is not a target, or whose scaled target weight is negligible, is the closing one -/
theorem ChildOut.close_job (h : ChildOut cfg comm V T cash tot i s t q) (hnd : (T.map (·.1)).Nodup)
    (hc : i ∉ T.map (·.1) ∨ ∃ wt, (i, wt) ∈ T ∧ isZero cfg.tol (wt * cashScale cash) = true) :
    PlanSized cfg comm V s none q := by
  rcases hc with hni | ⟨wt, hi, hz⟩
  · rcases h.job with ⟨_, hp⟩ | ⟨wt', hi', _⟩
    · exact hp
    · exact absurd (List.mem_map.2 ⟨(i, wt'), hi', rfl⟩) hni
  · have hp := h.target_job hnd wt hi
    unfold PlanSized at hp ⊢
    rw [planN_negl cfg V s _ hz] at hp
    exact hp

/-- a child that is not a target (or whose scaled target weight is negligible) is closed: position and value
    exactly 0 when its value and position were above `TOL`, untouched otherwise -/
theorem ChildOut.closed (h : ChildOut cfg comm V T cash tot i s t q) (d : Nat) (htol : 0 < cfg.tol)
    (hr : RSec d s) (hnd : (T.map (·.1)).Nodup)
    (hc : i ∉ T.map (·.1) ∨ ∃ wt, (i, wt) ∈ T ∧ isZero cfg.tol (wt * cashScale cash) = true) :
    (isZero cfg.tol s.value = false → isZero cfg.tol s.position = false → t.position = 0 ∧ t.value = 0) ∧
    (isZero cfg.tol s.value = true ∨ isZero cfg.tol s.position = true →
      t.position = s.position ∧ t.value = s.value ∧ childCost comm s t = 0) := by
  obtain ⟨_, c1, c2⟩ := closed_outcome cfg comm d V s q htol hr (h.close_job hnd hc)
  constructor
  · intro h1 h2
    have hq := c1 h1 h2
    have hp : t.position = 0 := by rw [h.pos, hq]; ring
    exact ⟨hp, by rw [h.val, hp]; ring⟩
  · intro h1
    have hq := c2 h1
    subst hq
    refine ⟨by rw [h.pos, add_zero], by rw [h.value_eq, add_zero, hr.val], ?_⟩
    rw [h.cost, costOf_zero]

/-- **fractional units with costs**: a target with a non-negligible scaled weight, whose cached weight was its
    value share of the base — untouched, or closed through the shortcut because the target value is below `TOL`,
    or its value misses `weight × V` by exactly the cost booked for its trade, up to `isclose`'s tolerance -/
theorem ChildOut.frac_target (h : ChildOut cfg comm V T cash tot i s t q) (d : Nat) (htol : 0 < cfg.tol)
    (hr : RSec d s) (hint : s.integer = false) (hnd : (T.map (·.1)).Nodup) (wt : K) (hi : (i, wt) ∈ T)
    (hz : isZero cfg.tol (wt * cashScale cash) = false) (hw : s.weight * V = s.value) :
    (t.position = s.position ∧ childCost comm s t = 0) ∨
    (t.position = 0 ∧ |wt * cashScale cash * V| < cfg.tol) ∨
    (t.position ≠ s.position ∧
      |t.value - wt * cashScale cash * V + childCost comm s t|
        ≤ cfg.atol + cfg.tol * |wt * cashScale cash * V - s.value|) := by
  rcases target_frac_bound cfg comm d V s _ q htol hr hint hz hw (h.target_job hnd wt hi) with
    rfl | ⟨hq, hlt⟩ | ⟨hqz, hb⟩
  · left; exact ⟨by rw [h.pos, add_zero], by rw [h.cost, costOf_zero]⟩
  · right; left; exact ⟨by rw [h.pos, hq]; ring, hlt⟩
  · right; right
    refine ⟨?_, by rw [h.value_eq, h.cost]; exact hb⟩
    rw [h.pos]
    intro e
    exact ne_zero_of_isZero_false htol hqz (by linarith)

/-- **no costs**: a target on a fractional, cost-free, up-to-date security whose trade is not swallowed by
    `TOL` ends with value exactly `weight × V`, nothing booked -/
theorem ChildOut.exact_target (h : ChildOut cfg comm V T cash tot i s t q) (d : Nat) (hatol : 0 ≤ cfg.atol)
    (htol : 0 < cfg.tol) (hn : NiceSec cfg d s) (hcomm : ∀ q x, comm q x = 0) (hnd : (T.map (·.1)).Nodup)
    (wt : K) (hi : (i, wt) ∈ T) (hw : s.weight * V = s.value)
    (hx : TargetExact cfg V s (wt * cashScale cash)) :
    t.value = wt * cashScale cash * V ∧ childCost comm s t = 0 := by
  obtain ⟨e1, e2⟩ := target_exact_nocost cfg comm d V s _ q hatol htol hn hcomm hw hx (h.target_job hnd wt hi)
  exact ⟨by rw [h.value_eq]; exact e1, by rw [h.cost]; exact e2⟩

/-- **whole units with costs**: untouched; or closed through the unchecked skip (target below `TOL`, or within
    one unit's value of it); or `isclose`; or value plus cost booked is below the target by less than the full
    outlay of one more unit, the quantity traded being whole -/
theorem ChildOut.int_target [FloorRing K] (hfloor : ∀ x : K, floorA x = (⌊x⌋ : K))
    (hceil : ∀ x : K, ceilA x = (⌈x⌉ : K)) (h : ChildOut cfg comm V T cash tot i s t q) (d : Nat)
    (htol : 0 < cfg.tol) (hr : RSec d s) (hint : s.integer = true) (hwhole : ∃ z : ℤ, s.position = (z : K))
    (hnd : (T.map (·.1)).Nodup) (wt : K) (hi : (i, wt) ∈ T)
    (hz : isZero cfg.tol (wt * cashScale cash) = false) (hw : s.weight * V = s.value) :
    (t.position = s.position ∧ childCost comm s t = 0) ∨
    (t.position = 0 ∧ (|wt * cashScale cash * V| < cfg.tol ∨
      |t.value - wt * cashScale cash * V| < |px s * s.mult|)) ∨
    (t.position ≠ s.position ∧
      |t.value - wt * cashScale cash * V + childCost comm s t|
        ≤ cfg.atol + cfg.tol * |wt * cashScale cash * V - s.value|) ∨
    (t.position ≠ s.position ∧ (∃ n : ℤ, t.position - s.position = (n : K)) ∧
      outF cfg comm s (t.position - s.position) < wt * cashScale cash * V - s.value ∧
      wt * cashScale cash * V - s.value < outF cfg comm s (t.position - s.position + 1) ∧
      -unitOutlay cfg comm s (t.position - s.position)
        < t.value - wt * cashScale cash * V + childCost comm s t ∧
      t.value - wt * cashScale cash * V + childCost comm s t < 0) := by
  have hq : t.position - s.position = q := by rw [h.pos]; ring
  rcases target_int_bound hfloor hceil cfg comm d V s _ q htol hr hint hz hw hwhole (h.target_job hnd wt hi) with
    rfl | ⟨hq0, hb⟩ | ⟨hqz, hb⟩ | ⟨hqz, hn, b1, b2, b3, b4⟩
  · left; exact ⟨by rw [h.pos, add_zero], by rw [h.cost, costOf_zero]⟩
  · right; left
    refine ⟨by rw [h.pos, hq0]; ring, ?_⟩
    rw [h.value_eq]; exact hb
  · right; right; left
    refine ⟨?_, by rw [h.value_eq, h.cost]; exact hb⟩
    rw [h.pos]
    intro e
    exact ne_zero_of_isZero_false htol hqz (by linarith)
  · right; right; right
    rw [hq, h.value_eq, h.cost]
    refine ⟨?_, hn, b1, b2, b3, b4⟩
    rw [h.pos]
    intro e
    exact ne_zero_of_isZero_false htol hqz (by linarith)

end child

/-! ### the root as a path -/

theorem flatW_eq_PW (root : Node K) (sd : StratData K) (ss : List (SecData K)) :
    flatW sd ss = PW root [] sd (ss.map Node.sec) := by
  simp only [PW, putAt_nil, flatW]

theorem world_eq_flatW (w : World K) (sdF : StratData K) (ssF : List (SecData K)) (hst : w.stale = false)
    (hg : w.root.get? [] = some (.strat sdF (ssF.map Node.sec))) : w = flatW sdF ssF := by
  cases w with
  | mk r st =>
    simp only at hst hg
    rw [get?_nil] at hg
    cases hg
    subst hst
    rfl

/-- the bankruptcy step on a flat strategy: the total is negative and the strategy is not bankrupt yet -/
theorem bankruptStep_flat (cfg : Cfg K) (d : Nat) (sd3 : StratData K) (ss3 : List (SecData K))
    (hnow : sd3.now = some d) (hr : ∀ t ∈ ss3, UpdReady d t) (h : BankruptStep cfg d (flatW sd3 ss3)) :
    sd3.capital + worthSum ss3 < 0 ∧ sd3.bankrupt = false := by
  obtain ⟨sdr, kidsr, hroot, hb, _, kids1, acc, hk, hneg⟩ := h
  simp only [flatW, Node.strat.injEq] at hroot
  obtain ⟨rfl, rfl⟩ := hroot
  rw [stratDateChange_same d sd3 hnow] at hk
  obtain ⟨ss1, acc1, h1, _, _, h4, h5⟩ := updKids_flatC cfg d sd3.bidofferSet ss3 ⟨sd3.capital, 0, 0, 0⟩ hr
  simp only at hk
  rw [h1] at hk
  simp only [Except.ok.injEq, Prod.mk.injEq] at hk
  obtain ⟨_, rfl⟩ := hk
  simp only at h4 h5
  refine ⟨?_, hb⟩
  rw [h4, h5] at hneg
  linarith

/-! ### the sum over the targets -/

theorem zipWith_childCost_sum (comm : K → K → K) : ∀ (ss ssF : List (SecData K)), ssF.length = ss.length →
    (List.zipWith (childCost comm) ss ssF).sum =
      (boSumL ssF - boSumL ss) + (List.zipWith (feeBetween comm) ss ssF).sum
  | [], ssF, h => by
    have : ssF = [] := List.eq_nil_of_length_eq_zero (by simpa using h)
    rw [this]; simp [boSumL]
  | s :: ss, [], h => by simp at h
  | s :: ss, t :: ssF, h => by
    have ih := zipWith_childCost_sum comm ss ssF (by simpa using h)
    simp only [List.zipWith_cons_cons, List.sum_cons, boSumL, List.map_cons] at ih ⊢
    rw [ih, childCost]
    ring

theorem list_sum_le_sum {α : Type} (f g : α → K) : ∀ (l : List α), (∀ x ∈ l, f x ≤ g x) →
    (l.map f).sum ≤ (l.map g).sum
  | [], _ => le_refl _
  | a :: l, h => by
    simp only [List.map_cons, List.sum_cons]
    exact add_le_add (h a List.mem_cons_self) (list_sum_le_sum f g l (fun x hx => h x (List.mem_cons_of_mem _ hx)))

theorem list_sum_map_add {α : Type} (f g : α → K) : ∀ (l : List α),
    (l.map fun x => f x + g x).sum = (l.map f).sum + (l.map g).sum
  | [] => by simp
  | a :: l => by
    simp only [List.map_cons, List.sum_cons, list_sum_map_add f g l]; ring

/-- distance of target `x = (index, weight)` to its target value after the call (0 for a missing child) -/
def devT (ssF : List (SecData K)) (V scale : K) (x : Nat × K) : K :=
  |((ssF[x.1]?).map (·.value)).getD 0 - x.2 * scale * V|

/-- `isclose`'s tolerance on the amount allocated to target `x` -/
def tolT (cfg : Cfg K) (ss : List (SecData K)) (V scale : K) (x : Nat × K) : K :=
  cfg.atol + cfg.tol * |x.2 * scale * V - ((ss[x.1]?).map (·.value)).getD 0|

/-- Strategy level: if every child's booked cost is non-negative and every target's value plus booked cost is
    within the tolerance of its target value, the targets' distances to their target values add up to at most
    the costs booked in the call plus the tolerances. -/
theorem sum_dev_le (cfg : Cfg K) (comm : K → K → K) (V scale : K) (T : List (Nat × K))
    (ss ssF : List (SecData K)) (hlen : ssF.length = ss.length) (hnd : (T.map (·.1)).Nodup)
    (hin : ∀ i ∈ T.map (·.1), i < ss.length)
    (hc0 : ∀ (i : Nat) (s t : SecData K), ss[i]? = some s → ssF[i]? = some t → 0 ≤ childCost comm s t)
    (hdev : ∀ (i : Nat) (wt : K) (s t : SecData K), (i, wt) ∈ T → ss[i]? = some s → ssF[i]? = some t →
      |t.value - wt * scale * V + childCost comm s t| ≤ cfg.atol + cfg.tol * |wt * scale * V - s.value|) :
    (T.map (devT ssF V scale)).sum ≤
      (boSumL ssF - boSumL ss) + (List.zipWith (feeBetween comm) ss ssF).sum +
        (T.map (tolT cfg ss V scale)).sum := by
  set L := List.zipWith (childCost comm) ss ssF with hL
  have hLlen : L.length = ss.length := zipWith_length' _ ss ssF hlen
  have hLget : ∀ (i : Nat) (s t : SecData K), ss[i]? = some s → ssF[i]? = some t →
      L[i]? = some (childCost comm s t) := fun i s t hs ht => zipWith_get _ ss ssF i s t hs ht
  have step1 : ∀ x ∈ T, devT ssF V scale x ≤ (fun x : Nat × K => L[x.1]?.getD 0) x + tolT cfg ss V scale x := by
    intro x hx
    obtain ⟨i, wt⟩ := x
    have hlt : i < ss.length := hin i (List.mem_map.2 ⟨(i, wt), hx, rfl⟩)
    have hs : ss[i]? = some ss[i] := List.getElem?_eq_getElem hlt
    have hlt' : i < ssF.length := by rw [hlen]; exact hlt
    have ht : ssF[i]? = some ssF[i] := List.getElem?_eq_getElem hlt'
    have hd := hdev i wt _ _ hx hs ht
    have hc := hc0 i _ _ hs ht
    simp only [devT, tolT, hs, ht, Option.map_some, Option.getD_some, hLget i _ _ hs ht]
    have := abs_le.1 hd
    rw [abs_le]
    constructor <;> linarith
  have step2 := list_sum_le_sum _ _ T step1
  rw [list_sum_map_add] at step2
  have step3 : (T.map fun x : Nat × K => L[x.1]?.getD 0).sum ≤ L.sum := by
    have := sum_picked_le (T.map (·.1)) L hnd
      (by
        intro x hx
        obtain ⟨i, hi⟩ := List.mem_iff_getElem?.1 hx
        have hlt : i < ss.length := by rw [← hLlen]; exact lt_of_getElem? hi
        have hlt' : i < ssF.length := by rw [hlen]; exact hlt
        rw [hLget i _ _ (List.getElem?_eq_getElem hlt) (List.getElem?_eq_getElem hlt')] at hi
        cases hi
        exact hc0 i _ _ (List.getElem?_eq_getElem hlt) (List.getElem?_eq_getElem hlt'))
      (by intro i hi; rw [hLlen]; exact hin i hi)
    rw [List.map_map] at this
    exact this
  rw [hL, zipWith_childCost_sum comm ss ssF hlen] at step3
  linarith

end Bt.P06
