import Bt.Proofs.LedgerNodeDay
/-! C07 (cash ledger): a trade on a security addressed through the tree is charged once — to the
    security's own parent — and creates no flow; the flows of a whole tree. -/
set_option linter.unusedSectionVars false
namespace Bt.P07
open Bt Bt.P08 Bt.P04

variable {K : Type} [Field K] [LinearOrder K] [IsStrictOrderedRing K] [HasFloor K]

/-! ### an operation on a security child: who is touched -/

/-- `modAt f` on the security `i` of the strategy at `p`: `f` runs once, on that security with its own
    parent's data; the parent books the adjustments; every other strategy keeps its data, every other
    security is untouched -/
theorem modAt_snoc_frame (f : Option (StratData K) → Node K → Except Err (OpRes K)) :
    ∀ (p : List Nat) (i : Nat) (par : Option (StratData K)) (n : Node K) (r : OpRes K)
      (sd : StratData K) (ks : List (Node K)) (s : SecData K),
      n.get? p = some (.strat sd ks) → ks[i]? = some (.sec s) → modAt f (p ++ [i]) par n = .ok r →
      ∃ k' adjs, f (some sd) (.sec s) = .ok (k', adjs, r.2.2) ∧ r.2.1 = [] ∧
        (∀ q sd0 ks0, n.get? q = some (.strat sd0 ks0) →
          ∃ ks0', r.1.get? q = some (.strat (if q = p then adjs.foldl StratData.adjust sd0 else sd0) ks0')) ∧
        (∀ q s0, n.get? q = some (.sec s0) → q ≠ p ++ [i] → r.1.get? q = some (.sec s0)) ∧
        r.1.get? (p ++ [i]) = some k'
  | [], i, par, n, r, sd, ks, s, hn, hk, h => by
    rw [get?_nil] at hn; cases hn
    rw [List.nil_append, modAt.eq_3] at h
    simp only [hk] at h
    obtain ⟨⟨k', adjs, st⟩, hm, rfl⟩ := map_eq_ok h
    rw [modAt.eq_1] at hm
    have hlt : i < ks.length := by
      by_contra hc
      rw [List.getElem?_eq_none (Nat.le_of_not_lt hc)] at hk; cases hk
    refine ⟨k', adjs, hm, rfl, fun q sd0 ks0 hq => ?_, fun q s0 hq hne => ?_, ?_⟩
    · cases q with
      | nil =>
        rw [get?_nil] at hq
        simp only [Option.some.injEq, Node.strat.injEq] at hq
        obtain ⟨rfl, rfl⟩ := hq
        exact ⟨ks.set i k', by rw [get?_nil, if_pos rfl]⟩
      | cons j q' =>
        rw [get?_cons_strat] at hq
        by_cases hij : i = j
        · subst hij
          rw [hk] at hq
          cases q' with
          | nil => simp [get?_nil] at hq
          | cons a b => simp [get?_cons_sec] at hq
        · refine ⟨ks0, ?_⟩
          rw [get?_cons_strat, List.getElem?_set_ne hij, if_neg (by simp)]; exact hq
    · cases q with
      | nil => rw [get?_nil] at hq; cases hq
      | cons j q' =>
        rw [get?_cons_strat] at hq
        by_cases hij : i = j
        · subst hij
          rw [hk] at hq
          cases q' with
          | nil => exact absurd rfl hne
          | cons a b => simp [get?_cons_sec] at hq
        · rw [get?_cons_strat, List.getElem?_set_ne hij]; exact hq
    · rw [List.nil_append, get?_cons_strat, List.getElem?_set_self hlt]
      exact get?_nil _
  | j :: p', i, par, .sec s1, r, sd, ks, s, hn, hk, h => by rw [get?_cons_sec] at hn; cases hn
  | j :: p', i, par, .strat sdn ksn, r, sd, ks, s, hn, hk, h => by
    rw [get?_cons_strat] at hn
    rw [List.cons_append, modAt.eq_3] at h
    cases hc : ksn[j]? with
    | none => rw [hc] at hn; cases hn
    | some c =>
      rw [hc] at hn
      simp only [hc] at h
      obtain ⟨⟨c', adjs1, st⟩, hm, rfl⟩ := map_eq_ok h
      obtain ⟨k', adjs, hf, ha, hst, hsec, hget⟩ := modAt_snoc_frame f p' i (some sdn) c _ sd ks s hn hk hm
      simp only at ha hf hst hsec hget
      subst ha
      have hlt : j < ksn.length := by
        by_contra hcc
        rw [List.getElem?_eq_none (Nat.le_of_not_lt hcc)] at hc; cases hc
      refine ⟨k', adjs, hf, rfl, fun q sd0 ks0 hq => ?_, fun q s0 hq hne => ?_, ?_⟩
      · cases q with
        | nil =>
          rw [get?_nil] at hq
          simp only [Option.some.injEq, Node.strat.injEq] at hq
          obtain ⟨rfl, rfl⟩ := hq
          exact ⟨ksn.set j c', by rw [get?_nil, if_neg (by simp)]; rfl⟩
        | cons j' q' =>
          rw [get?_cons_strat] at hq
          by_cases hjj : j = j'
          · subst hjj
            rw [hc] at hq
            obtain ⟨ks0', hg⟩ := hst q' sd0 ks0 hq
            refine ⟨ks0', ?_⟩
            rw [get?_cons_strat, List.getElem?_set_self hlt]
            simp only [List.cons.injEq, true_and]
            exact hg
          · refine ⟨ks0, ?_⟩
            rw [get?_cons_strat, List.getElem?_set_ne hjj, if_neg (by simp [Ne.symm hjj])]; exact hq
      · cases q with
        | nil => rw [get?_nil] at hq; cases hq
        | cons j' q' =>
          rw [get?_cons_strat] at hq
          by_cases hjj : j = j'
          · subst hjj
            rw [hc] at hq
            rw [get?_cons_strat, List.getElem?_set_self hlt]
            exact hsec q' s0 hq (fun e => hne (by rw [e]; rfl))
          · rw [get?_cons_strat, List.getElem?_set_ne hjj]; exact hq
      · rw [List.cons_append, get?_cons_strat, List.getElem?_set_self hlt]
        exact hget

/-- who a security-level trade touches, in a world -/
structure TradeFrame (w w' : World K) (p : List Nat) (i : Nat) (s' : SecData K) (adjs : List (Adj K)) :
    Prop where
  /-- every strategy other than the security's own parent keeps all its data; the parent books `adjs` -/
  strat : ∀ q sd0 ks0, w.root.get? q = some (.strat sd0 ks0) →
    ∃ ks0', w'.root.get? q = some (.strat (if q = p then adjs.foldl StratData.adjust sd0 else sd0) ks0')
  /-- every other security is untouched -/
  sec : ∀ q s0, w.root.get? q = some (.sec s0) → q ≠ p ++ [i] → w'.root.get? q = some (.sec s0)
  /-- the traded security takes the place of the old one -/
  traded : w'.root.get? (p ++ [i]) = some (.sec s')

section trade
variable {cfg : Cfg K}

/-- **`transact` on a security addressed through the tree** -/
theorem opTransact_sec_frame {w w' : World K} {p : List Nat} {i : Nat} {q : K} {u : Bool} {custom : Option K}
    {sd : StratData K} {ks : List (Node K)} {s : SecData K}
    (hp : w.root.get? p = some (.strat sd ks)) (hk : ks[i]? = some (.sec s))
    (h : opTransact cfg w (p ++ [i]) q u custom = .ok w') :
    ∃ s' oa, secTransact cfg sd.now sd.comm s q true custom = .ok (s', oa) ∧
      TradeFrame w w' p i s' oa.toList := by
  unfold opTransact World.modify at h
  obtain ⟨⟨r, adjs0, st⟩, hm, rfl⟩ := map_eq_ok h
  obtain ⟨k', adjs, hf, _, h1, h2, h3⟩ := modAt_snoc_frame _ p i none w.root _ sd ks s hp hk hm
  simp only at hf
  obtain ⟨⟨s', oa⟩, hs, he⟩ := map_eq_ok hf
  simp only [Prod.mk.injEq] at he
  obtain ⟨rfl, rfl, -⟩ := he
  exact ⟨s', oa, hs, h1, h2, h3⟩

/-- **`allocate` on a security addressed through the tree** -/
theorem opAllocate_sec_frame {w w' : World K} {p : List Nat} {i : Nat} {amount : K} {u : Bool}
    {sd : StratData K} {ks : List (Node K)} {s : SecData K}
    (hp : w.root.get? p = some (.strat sd ks)) (hk : ks[i]? = some (.sec s))
    (h : opAllocate cfg w (p ++ [i]) amount u = .ok w') :
    ∃ s' oa, secAllocate cfg sd.now sd.comm s amount = .ok (s', oa) ∧
      TradeFrame w w' p i s' oa.toList := by
  unfold opAllocate World.modify at h
  obtain ⟨⟨r, adjs0, st⟩, hm, rfl⟩ := map_eq_ok h
  obtain ⟨k', adjs, hf, _, h1, h2, h3⟩ := modAt_snoc_frame _ p i none w.root _ sd ks s hp hk hm
  simp only at hf
  obtain ⟨⟨s', oa⟩, hs, he⟩ := map_eq_ok hf
  simp only [Prod.mk.injEq] at he
  obtain ⟨rfl, rfl, -⟩ := he
  exact ⟨s', oa, hs, h1, h2, h3⟩

/-- the adjustment of a trade is not a flow: booking it leaves the flows alone, moves cash by the amount and
    the fee accumulator by the fee -/
theorem book_trade (oa : Option (Adj K)) (hnf : ∀ a ∈ oa.toList, a.flow = false) (sd : StratData K) :
    (oa.toList.foldl StratData.adjust sd).netFlows = sd.netFlows ∧
    (oa.toList.foldl StratData.adjust sd).capital = sd.capital + adjAmounts oa.toList ∧
    (oa.toList.foldl StratData.adjust sd).lastFee = sd.lastFee + adjFees oa.toList ∧
    oa.toList.foldl StratData.adjust sd =
      { sd with capital := sd.capital + adjAmounts oa.toList, lastFee := sd.lastFee + adjFees oa.toList } := by
  rw [foldl_adjust_nonflow _ sd hnf]
  exact ⟨rfl, rfl, rfl, rfl⟩

theorem secTransact_nonflow {pn : Option Nat} {comm : K → K → K} {s s' : SecData K} {q : K} {c : Option K}
    {oa : Option (Adj K)} (h : secTransact cfg pn comm s q true c = .ok (s', oa)) :
    ∀ a ∈ oa.toList, a.flow = false := by
  unfold secTransact at h
  obtain ⟨s1, _, h2⟩ := bind_eq_ok h
  exact secTransactCore_adj_nonflow h2

theorem secAllocate_nonflow {pn : Option Nat} {comm : K → K → K} {s s' : SecData K} {amount : K}
    {oa : Option (Adj K)} (h : secAllocate cfg pn comm s amount = .ok (s', oa)) :
    ∀ a ∈ oa.toList, a.flow = false := by
  obtain ⟨s1, _, ⟨_, _, rfl⟩ | ⟨q, _, ht⟩⟩ := secAllocate_cases h
  · simp
  · exact secTransactCore_adj_nonflow ht

/-- everything a security-level trade does to the tree, in one statement -/
structure ChargedOnce (w w' : World K) (p : List Nat) (i : Nat) (sd : StratData K) (s s' : SecData K)
    (oa : Option (Adj K)) : Prop where
  /-- the (at most one) adjustment is not a flow -/
  nonflow : ∀ a ∈ oa.toList, a.flow = false
  /-- the traded security takes the place of the old one -/
  traded : w'.root.get? (p ++ [i]) = some (.sec s')
  /-- the security's own parent books the amount on its cash and the fee on its fee accumulator — nothing else -/
  parent : ∃ ks', w'.root.get? p = some (.strat
    { sd with capital := sd.capital + adjAmounts oa.toList, lastFee := sd.lastFee + adjFees oa.toList } ks')
  /-- every other strategy keeps all its data -/
  others : ∀ q0 sd0 ks0, w.root.get? q0 = some (.strat sd0 ks0) → q0 ≠ p →
    ∃ ks0', w'.root.get? q0 = some (.strat sd0 ks0')
  /-- every other security is untouched -/
  otherSecs : ∀ q0 s0, w.root.get? q0 = some (.sec s0) → q0 ≠ p ++ [i] → w'.root.get? q0 = some (.sec s0)
  /-- no strategy's flows move -/
  flows : ∀ q0 sd0 ks0, w.root.get? q0 = some (.strat sd0 ks0) →
    ∃ sd0' ks0', w'.root.get? q0 = some (.strat sd0' ks0') ∧ sd0'.netFlows = sd0.netFlows
  /-- the outlay the security records for the parent's date is what the parent paid, net of the fee -/
  outlay : ∀ d, sd.now = some d → d < s.rOutlay.length →
    secOutlayTot d s' - secOutlayTot d s = -(adjAmounts oa.toList + adjFees oa.toList)

theorem chargedOnce_of_frame {w w' : World K} {p : List Nat} {i : Nat} {sd : StratData K}
    {ks : List (Node K)} {s s' : SecData K} {oa : Option (Adj K)}
    (hp : w.root.get? p = some (.strat sd ks))
    (hnf : ∀ a ∈ oa.toList, a.flow = false) (hf : TradeFrame w w' p i s' oa.toList)
    (hout : ∀ d, sd.now = some d → d < s.rOutlay.length → SecOp d s s' oa) :
    ChargedOnce w w' p i sd s s' oa := by
  refine ⟨hnf, hf.traded, ?_, fun q0 sd0 ks0 h0 hne => ?_, hf.sec, fun q0 sd0 ks0 h0 => ?_,
    fun d hd hl => ?_⟩
  · obtain ⟨ks', h1⟩ := hf.strat p sd ks hp
    rw [if_pos rfl, (book_trade oa hnf sd).2.2.2] at h1
    exact ⟨ks', h1⟩
  · obtain ⟨ks', h1⟩ := hf.strat q0 sd0 ks0 h0
    rw [if_neg hne] at h1
    exact ⟨ks', h1⟩
  · obtain ⟨ks', h1⟩ := hf.strat q0 sd0 ks0 h0
    refine ⟨_, ks', h1, ?_⟩
    split
    · exact (book_trade oa hnf sd0).1
    · rfl
  · have := (hout d hd hl).net
    simp only [adjNet] at this
    linear_combination this

/-- **a `transact` on a security addressed through the tree is charged once**: `SecurityBase.transact`
    (refresh, then the trade proper) runs once, with the commission function and the date of the security's own
    parent -/
theorem opTransact_sec_once {w w' : World K} {p : List Nat} {i : Nat} {q : K} {u : Bool} {custom : Option K}
    {sd : StratData K} {ks : List (Node K)} {s : SecData K}
    (hp : w.root.get? p = some (.strat sd ks)) (hk : ks[i]? = some (.sec s))
    (h : opTransact cfg w (p ++ [i]) q u custom = .ok w') :
    ∃ s1 s' oa, secRefresh cfg sd.now s = .ok s1 ∧ secTransactCore cfg sd.comm s1 q custom = .ok (s', oa) ∧
      ChargedOnce w w' p i sd s s' oa := by
  obtain ⟨s', oa, hs, hf⟩ := opTransact_sec_frame hp hk h
  have hs' := hs
  unfold secTransact at hs'
  obtain ⟨s1, h1, h2⟩ := bind_eq_ok hs'
  simp only [↓reduceIte] at h1
  refine ⟨s1, s', oa, h1, h2, chargedOnce_of_frame hp (secTransactCore_adj_nonflow h2) hf fun d hd hl => ?_⟩
  rw [hd] at hs
  exact secTransact_op hl hs

/-- **an `allocate` on a security addressed through the tree is charged once** (the sizing probes return
    numbers only; at most one trade is executed) -/
theorem opAllocate_sec_once {w w' : World K} {p : List Nat} {i : Nat} {amount : K} {u : Bool}
    {sd : StratData K} {ks : List (Node K)} {s : SecData K}
    (hp : w.root.get? p = some (.strat sd ks)) (hk : ks[i]? = some (.sec s))
    (h : opAllocate cfg w (p ++ [i]) amount u = .ok w') :
    ∃ s' oa, secAllocate cfg sd.now sd.comm s amount = .ok (s', oa) ∧ ChargedOnce w w' p i sd s s' oa := by
  obtain ⟨s', oa, hs, hf⟩ := opAllocate_sec_frame hp hk h
  refine ⟨s', oa, hs, chargedOnce_of_frame hp (secAllocate_nonflow hs) hf fun d hd hl => ?_⟩
  rw [hd] at hs
  exact secAllocate_op hl hs

end trade

/-! ### the flows of a whole tree -/

/-- `Σ net_flows` over all strategies of the tree -/
def totalFlows (n : Node K) : K := nodeSum (fun _ => 0) (fun sd => sd.netFlows) n

mutual
/-- `Σ passedDown` over all strategies of the tree: the flows booked by all sub-strategies -/
def sumPassed : Node K → K
  | .sec _ => 0
  | .strat _ ks => passedDown ks + sumPassedL ks
def sumPassedL : List (Node K) → K
  | [] => 0
  | k :: ks => sumPassed k + sumPassedL ks
end

/-- the flows the node itself has booked -/
def ownFlows : Node K → K
  | .sec _ => 0
  | .strat sd _ => sd.netFlows

mutual
theorem totalFlows_eq : (n : Node K) → totalFlows n = ownFlows n + sumPassed n
  | .sec s => by simp [totalFlows, nodeSum, ownFlows, sumPassed]
  | .strat sd ks => by
    have := totalFlowsL_eq ks
    simp only [totalFlows] at this ⊢
    rw [nodeSum, this, ownFlows, sumPassed]
theorem totalFlowsL_eq : (ks : List (Node K)) →
    kidsSum (fun _ => (0 : K)) (fun sd => sd.netFlows) ks = passedDown ks + sumPassedL ks
  | [] => by simp [kidsSum, passedDown, sumPassedL]
  | .sec s :: ks => by
    rw [kidsSum, totalFlowsL_eq ks]
    simp [nodeSum, passedDown, sumPassedL, sumPassed]
  | .strat sd kk :: ks => by
    have h1 := totalFlows_eq (.strat sd kk)
    simp only [totalFlows] at h1
    rw [kidsSum, totalFlowsL_eq ks, h1]
    simp only [ownFlows, passedDown, sumPassedL]; ring
end

/-- in a run at clock `d` the root books as flows exactly the flow adjustments made directly on it; hence
    all flows created in the tree are those plus what the strategies passed to their sub-strategies -/
theorem LRun.flows {cfg : Cfg K} {d : Nat} {w w' : World K} {T : List (AdjCall K)} (hg : GoodR d w.root)
    (h : LRun cfg d w T w') :
    ownFlows w'.root = ownFlows w.root + rootFlowIn T ∧
    totalFlows w'.root - totalFlows w.root = rootFlowIn T + (sumPassed w'.root - sumPassed w.root) := by
  obtain ⟨hl, hg', _⟩ := h.ledger hg
  obtain ⟨sd, ks, hr⟩ := hg.2
  obtain ⟨sd', ks', hr'⟩ := hg'.2
  have h2 := hl.2
  rw [hr, hr'] at h2 ⊢
  simp only [kidTerm] at h2
  refine ⟨h2, ?_⟩
  rw [totalFlows_eq, totalFlows_eq]
  simp only [ownFlows, h2]; ring

end Bt.P07
