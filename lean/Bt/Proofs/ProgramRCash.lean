import Bt.Proofs.ProgramRPos
import Bt.Props.C07
/-! Cash under a flat blotter-driven strategy: one row of the frame (`transact(quantity, price=price, update=False)` on a security
    child of the root) takes `quantity × price × multiplier` plus the commission at `(quantity, price × multiplier)` out of the
    root's cash - nothing when `is_zero(quantity)` -, the rows of one call take the sum, in any grouping.  Helper lemmas for
    `Bt.Props.C18_progr`. -/
set_option linter.unusedSectionVars false
set_option linter.unusedVariables false
set_option linter.unusedSimpArgs false
namespace Bt.PProgR
open Bt Bt.P08 Bt.Prog Bt.Blotter

section cash
variable {K : Type} [Field K] [LinearOrder K] [IsStrictOrderedRing K] [HasFloor K]
variable {cfg : Cfg K}

/-! ### the multiplier is static -/

theorem secBaseUpdate_mult {d : Nat} {s s1 : SecData K} (h : secBaseUpdate cfg d s = .ok s1) : s1.mult = s.mult := by
  rcases secBaseUpdate_cases h with ⟨_, rfl⟩ | ⟨_, v, _, rfl⟩
  · rfl
  · simp

theorem secTail_mult {d : Nat} {k : SecKind} {s1 s' : SecData K} (h : secTail cfg d k s1 = .ok s') : s'.mult = s1.mult := by
  cases k with
  | plain => cases h; rfl
  | fi => cases h; rfl
  | hedge => cases h; rfl
  | coupon =>
    obtain ⟨c, hc, _, _, rfl⟩ := secCouponTail_ok h
    rfl
  | couponHedge =>
    obtain ⟨s2, h', rfl⟩ := map_eq_ok h
    obtain ⟨c, hc, _, _, rfl⟩ := secCouponTail_ok h'
    rfl

theorem secUpdate_mult {d : Nat} {s s' : SecData K} (h : secUpdate cfg d s = .ok s') : s'.mult = s.mult := by
  rw [secUpdate_eq] at h
  obtain ⟨s1, hb, ht⟩ := bind_eq_ok h
  exact (secTail_mult ht).trans (secBaseUpdate_mult hb)

theorem secRefresh_mult {pn : Option Nat} {s s' : SecData K} (h : secRefresh cfg pn s = .ok s') : s'.mult = s.mult := by
  unfold secRefresh at h
  split at h
  · cases pn with
    | none => cases h
    | some d => exact secUpdate_mult h
  · cases h; rfl

/-! ### one custom-price trade -/

/-- what a custom-price trade of `q` at `cp` costs a security's parent -/
def tradeCost (cfg : Cfg K) (comm : K → K → K) (m q cp : K) : K :=
  if isZero cfg.tol q = true then 0 else q * cp * m + comm q (cp * m)

theorem secTransactCore_custom {comm : K → K → K} {s : SecData K} {q cp : K} {r : SecData K × Option (Adj K)}
    (h : secTransactCore cfg comm s q (some cp) = .ok r) :
    r.1.mult = s.mult ∧ (r.2.toList.foldl (fun c (a : Adj K) => c + a.amount) 0) = - tradeCost cfg comm s.mult q cp := by
  obtain ⟨s', a⟩ := r
  cases a with
  | none =>
    unfold secTransactCore at h
    split at h
    · rename_i hz; cases h; simp [tradeCost, hz]
    · split at h
      · cases h
      · obtain ⟨⟨full, outlay, fee, bo⟩, _, h⟩ := bind_eq_ok h
        cases h
  | some adj =>
    have hz : isZero cfg.tol q = false := by
      unfold secTransactCore at h
      split at h
      · cases h
      · rename_i hz; simpa using hz
    obtain ⟨p, _, _, _, _, _, _, ha, _, hs⟩ := C07.transact_books_custom cfg comm s s' q cp adj h
    refine ⟨by rw [hs], ?_⟩
    simp only [Option.toList_some, List.foldl_cons, List.foldl_nil, zero_add, ha, tradeCost, hz]
    simp only [Bool.false_eq_true, ↓reduceIte, neg_inj]
    ring

/-! ### the root's cash -/

/-- cash of the root strategy -/
def rootCap (w : World K) : K :=
  match w.root with
  | .strat sd _ => sd.capital
  | .sec _ => 0

/-- commission function of the root strategy -/
def rootComm (w : World K) : K → K → K :=
  match w.root with
  | .strat sd _ => sd.comm
  | .sec _ => fun _ _ => 0

/-- multiplier of the root's `j`-th child (0 when there is none / for a sub-strategy) -/
def multAt (w : World K) (j : Nat) : K :=
  match w.root with
  | .strat _ ks => ((ks[j]?).map fun k => match k with | .sec s => s.mult | .strat _ _ => 0).getD 0
  | .sec _ => 0

/-- what a row of the frame costs the root -/
def rowCost (cfg : Cfg K) (mult : Option K) (w : World K) (r : Int × BRow K) : K :=
  tradeCost cfg (rootComm w) (multAt w r.2.1) r.2.2.1 (rowPrice mult r.2.2.2)

theorem foldl_adjust_capital : ∀ (l : List (Adj K)) (sd : StratData K),
    (l.foldl StratData.adjust sd).capital = sd.capital + l.foldl (fun c (a : Adj K) => c + a.amount) 0
  | [], sd => by simp
  | a :: l, sd => by
    rw [List.foldl_cons, foldl_adjust_capital l, List.foldl_cons]
    have : ∀ (l : List (Adj K)) (x : K), l.foldl (fun c (a : Adj K) => c + a.amount) x = x + l.foldl (fun c (a : Adj K) => c + a.amount) 0 := by
      intro l
      induction l with
      | nil => intro x; simp
      | cons b l ih => intro x; rw [List.foldl_cons, ih, List.foldl_cons, ih (0 + b.amount)]; ring
    rw [this l (0 + a.amount)]
    simp only [StratData.adjust]
    ring

theorem foldl_adjust_comm : ∀ (l : List (Adj K)) (sd : StratData K), (l.foldl StratData.adjust sd).comm = sd.comm
  | [], _ => rfl
  | a :: l, sd => by rw [List.foldl_cons, foldl_adjust_comm l]; rfl

/-- **one row**: the root's cash goes down by the row's cost; commission function and multipliers stay -/
theorem execRow_cash {mult : Option K} {w w' : World K} {r : Int × BRow K} (hf : Flat w)
    (h : execRow cfg mult [] w r = .ok w') :
    rootCap w' = rootCap w - rowCost cfg mult w r ∧ rootComm w' = rootComm w ∧ ∀ j, multAt w' j = multAt w j := by
  obtain ⟨sd, ks, hr, hs⟩ := hf
  obtain ⟨stamp, i, q, px⟩ := r
  simp only [execRow, opTransact, World.modify, List.nil_append] at h
  obtain ⟨⟨root', adjs, st⟩, hm, hw'⟩ := map_eq_ok h
  rw [hr] at hm
  simp only [modAt] at hm
  cases hki : ks[i]? with
  | none => rw [hki] at hm; cases hm
  | some k =>
    rw [hki] at hm
    obtain ⟨s, rfl⟩ := (isSec_iff k).1 (hs k (List.mem_of_getElem? hki))
    obtain ⟨⟨k', adjs', st'⟩, hk', hroot⟩ := map_eq_ok hm
    obtain ⟨⟨s', a⟩, hs', hk''⟩ := map_eq_ok hk'
    simp only [Prod.mk.injEq] at hk'' hroot
    obtain ⟨rfl, rfl, -⟩ := hk''
    obtain ⟨rfl, -, -⟩ := hroot
    subst hw'
    unfold secTransact at hs'
    simp only [if_true] at hs'
    obtain ⟨s1, h1, h2⟩ := bind_eq_ok hs'
    obtain ⟨hm2, hc2⟩ := secTransactCore_custom h2
    have hm1 := secRefresh_mult h1
    have hlt : i < ks.length := (List.getElem?_eq_some_iff.1 hki).1
    refine ⟨?_, ?_, fun j => ?_⟩
    · simp only [rootCap, rowCost, rootComm, multAt, hr, hki, Option.map_some, Option.getD_some]
      rw [foldl_adjust_capital, hc2, hm1]
      ring
    · simp only [rootComm, hr]
      exact foldl_adjust_comm _ sd
    · simp only [multAt, hr]
      by_cases hij : i = j
      · subst hij
        rw [List.getElem?_set_self hlt, hki]
        simp only [Option.map_some, Option.getD_some]
        rw [hm2, hm1]
      · rw [List.getElem?_set_ne hij]

/-- sum of the costs of a list of rows (at the commission function and multipliers of `w`) -/
def costSum (cfg : Cfg K) (mult : Option K) (w : World K) : List (Int × BRow K) → K
  | [] => 0
  | r :: rs => rowCost cfg mult w r + costSum cfg mult w rs

theorem rowCost_congr {mult : Option K} {w w1 : World K} (hc : rootComm w1 = rootComm w) (hm : ∀ j, multAt w1 j = multAt w j)
    (r : Int × BRow K) : rowCost cfg mult w1 r = rowCost cfg mult w r := by
  simp only [rowCost, hc, hm]

theorem costSum_congr {mult : Option K} {w w1 : World K} (hc : rootComm w1 = rootComm w) (hm : ∀ j, multAt w1 j = multAt w j) :
    ∀ rows : List (Int × BRow K), costSum cfg mult w1 rows = costSum cfg mult w rows
  | [] => rfl
  | r :: rs => by simp only [costSum, rowCost_congr hc hm, costSum_congr hc hm rs]

/-- **the rows of one call**: the root's cash goes down by the sum of the rows' costs -/
theorem execRows_cash {mult : Option K} : ∀ (rows : List (Int × BRow K)) {w w' : World K}, Flat w →
    execRows cfg mult [] rows w = .ok w' →
    rootCap w' = rootCap w - costSum cfg mult w rows ∧ rootComm w' = rootComm w ∧ ∀ j, multAt w' j = multAt w j
  | [], w, w', hf, h => by
    rw [execRows_nil] at h; cases h
    exact ⟨by simp [costSum], rfl, fun _ => rfl⟩
  | r :: rest, w, w', hf, h => by
    rw [execRows_cons] at h
    obtain ⟨w1, h1, h2⟩ := bind_eq_ok h
    obtain ⟨hc1, hk1, hm1⟩ := execRow_cash hf h1
    obtain ⟨hf1, _⟩ := execRow_pos hf h1
    obtain ⟨hc2, hk2, hm2⟩ := execRows_cash rest hf1 h2
    refine ⟨?_, hk2.trans hk1, fun j => (hm2 j).trans (hm1 j)⟩
    rw [hc2, hc1, costSum_congr hk1 hm1, costSum]
    ring

end cash
end Bt.PProgR
