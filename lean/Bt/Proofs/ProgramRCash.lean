import Bt.Proofs.ProgramRPos
import Bt.Props.C07
/-! Cash under a flat blotter-driven strategy: one row of the frame (`transact(quantity, price=price, update=False)` on a security
    child of the root) takes `quantity × price × multiplier` plus the commission at `(quantity, price × multiplier)` out of the
    root's cash - nothing when `is_zero(quantity)` -, the rows of one call take the sum, in any grouping.  Helper lemmas for
    `Bt.Props.C18_progr`. -/
set_option linter.unusedSectionVars false
set_option linter.unusedVariables false
set_option linter.unusedSimpArgs false
namespace Bt.PProgR
open Bt Bt.P08 Bt.Prog Bt.Blotter

section cash
variable {K : Type} [Field K] [LinearOrder K] [IsStrictOrderedRing K] [HasFloor K]
variable {cfg : Cfg K}

/-! ### the multiplier is static -/

theorem secBaseUpdate_mult {d : Nat} {s s1 : SecData K} (h : secBaseUpdate cfg d s = .ok s1) : s1.mult = s.mult := by
  rcases secBaseUpdate_cases h with ⟨_, rfl⟩ | ⟨_, v, _, rfl⟩
  · rfl
  · simp

theorem secTail_mult {d : Nat} {k : SecKind} {s1 s' : SecData K} (h : secTail cfg d k s1 = .ok s') : s'.mult = s1.mult := by
  cases k with
  | plain => cases h; rfl
  | fi => cases h; rfl
  | hedge => cases h; rfl
  | coupon =>
    obtain ⟨c, hc, _, _, rfl⟩ := secCouponTail_ok h
    rfl
  | couponHedge =>
    obtain ⟨s2, h', rfl⟩ := map_eq_ok h
    obtain ⟨c, hc, _, _, rfl⟩ := secCouponTail_ok h'
    rfl

theorem secUpdate_mult {d : Nat} {s s' : SecData K} (h : secUpdate cfg d s = .ok s') : s'.mult = s.mult := by
  rw [secUpdate_eq] at h
  obtain ⟨s1, hb, ht⟩ := bind_eq_ok h
  exact (secTail_mult ht).trans (secBaseUpdate_mult hb)

theorem secRefresh_mult {pn : Option Nat} {s s' : SecData K} (h : secRefresh cfg pn s = .ok s') : s'.mult = s.mult := by
  unfold secRefresh at h
  split at h
  · cases pn with
    | none => cases h
    | some d => exact secUpdate_mult h
  · cases h; rfl

/-! ### one custom-price trade -/

/-- what a custom-price trade of `q` at `cp` costs a security's parent -/
def tradeCost (cfg : Cfg K) (comm : K → K → K) (m q cp : K) : K :=
  if isZero cfg.tol q = true then 0 else q * cp * m + comm q (cp * m)

theorem secTransactCore_custom {comm : K → K → K} {s : SecData K} {q cp : K} {r : SecData K × Option (Adj K)}
    (h : secTransactCore cfg comm s q (some cp) = .ok r) :
    r.1.mult = s.mult ∧ (r.2.toList.foldl (fun c (a : Adj K) => c + a.amount) 0) = - tradeCost cfg comm s.mult q cp := by
  obtain ⟨s', a⟩ := r
  cases a with
  | none =>
    unfold secTransactCore at h
    split at h
    · rename_i hz; cases h; simp [tradeCost, hz]
    · split at h
      · cases h
      · obtain ⟨⟨full, outlay, fee, bo⟩, _, h⟩ := bind_eq_ok h
        cases h
  | some adj =>
    have hz : isZero cfg.tol q = false := by
      unfold secTransactCore at h
      split at h
      · cases h
      · rename_i hz; simpa using hz
    obtain ⟨p, _, _, _, _, _, _, ha, _, hs⟩ := C07.transact_books_custom cfg comm s s' q cp adj h
    refine ⟨by rw [hs], ?_⟩
    simp only [Option.toList_some, List.foldl_cons, List.foldl_nil, zero_add, ha, tradeCost, hz]
    simp only [Bool.false_eq_true, ↓reduceIte, neg_inj]
    ring

/-! ### the root's cash -/

/-- cash of the root strategy -/
def rootCap (w : World K) : K :=
  match w.root with
  | .strat sd _ => sd.capital
  | .sec _ => 0

/-- commission function of the root strategy -/
def rootComm (w : World K) : K → K → K :=
  match w.root with
  | .strat sd _ => sd.comm
  | .sec _ => fun _ _ => 0

/-- multiplier of the root's `j`-th child (0 when there is none / for a sub-strategy) -/
def multAt (w : World K) (j : Nat) : K :=
  match w.root with
  | .strat _ ks => ((ks[j]?).map fun k => match k with | .sec s => s.mult | .strat _ _ => 0).getD 0
  | .sec _ => 0

/-- what a row of the frame costs the root -/
def rowCost (cfg : Cfg K) (mult : Option K) (w : World K) (r : Int × BRow K) : K :=
  tradeCost cfg (rootComm w) (multAt w r.2.1) r.2.2.1 (rowPrice mult r.2.2.2)

theorem foldl_adjust_capital : ∀ (l : List (Adj K)) (sd : StratData K),
    (l.foldl StratData.adjust sd).capital = sd.capital + l.foldl (fun c (a : Adj K) => c + a.amount) 0
  | [], sd => by simp
  | a :: l, sd => by
    rw [List.foldl_cons, foldl_adjust_capital l, List.foldl_cons]
    have : ∀ (l : List (Adj K)) (x : K), l.foldl (fun c (a : Adj K) => c + a.amount) x = x + l.foldl (fun c (a : Adj K) => c + a.amount) 0 := by
      intro l
      induction l with
      | nil => intro x; simp
      | cons b l ih => intro x; rw [List.foldl_cons, ih, List.foldl_cons, ih (0 + b.amount)]; ring
    rw [this l (0 + a.amount)]
    simp only [StratData.adjust]
    ring

theorem foldl_adjust_comm : ∀ (l : List (Adj K)) (sd : StratData K), (l.foldl StratData.adjust sd).comm = sd.comm
  | [], _ => rfl
  | a :: l, sd => by rw [List.foldl_cons, foldl_adjust_comm l]; rfl

/-- **one row**: the root's cash goes down by the row's cost; commission function and multipliers stay -/
theorem execRow_cash {mult : Option K} {w w' : World K} {r : Int × BRow K} (hf : Flat w)
    (h : execRow cfg mult [] w r = .ok w') :
    rootCap w' = rootCap w - rowCost cfg mult w r ∧ rootComm w' = rootComm w ∧ ∀ j, multAt w' j = multAt w j := by
  obtain ⟨sd, ks, hr, hs⟩ := hf
  obtain ⟨stamp, i, q, px⟩ := r
  simp only [execRow, opTransact, World.modify, List.nil_append] at h
  obtain ⟨⟨root', adjs, st⟩, hm, hw'⟩ := map_eq_ok h
  rw [hr] at hm
  simp only [modAt] at hm
  cases hki : ks[i]? with
  | none => rw [hki] at hm; cases hm
  | some k =>
    rw [hki] at hm
    obtain ⟨s, rfl⟩ := (isSec_iff k).1 (hs k (List.mem_of_getElem? hki))
    obtain ⟨⟨k', adjs', st'⟩, hk', hroot⟩ := map_eq_ok hm
    obtain ⟨⟨s', a⟩, hs', hk''⟩ := map_eq_ok hk'
    simp only [Prod.mk.injEq] at hk'' hroot
    obtain ⟨rfl, rfl, -⟩ := hk''
    obtain ⟨rfl, -, -⟩ := hroot
    subst hw'
    unfold secTransact at hs'
    simp only [if_true] at hs'
    obtain ⟨s1, h1, h2⟩ := bind_eq_ok hs'
    obtain ⟨hm2, hc2⟩ := secTransactCore_custom h2
    have hm1 := secRefresh_mult h1
    have hlt : i < ks.length := (List.getElem?_eq_some_iff.1 hki).1
    refine ⟨?_, ?_, fun j => ?_⟩
    · simp only [rootCap, rowCost, rootComm, multAt, hr, hki, Option.map_some, Option.getD_some]
      rw [foldl_adjust_capital, hc2, hm1]
      ring
    · simp only [rootComm, hr]
      exact foldl_adjust_comm _ sd
    · simp only [multAt, hr]
      by_cases hij : i = j
      · subst hij
        rw [List.getElem?_set_self hlt, hki]
        simp only [Option.map_some, Option.getD_some]
        rw [hm2, hm1]
      · rw [List.getElem?_set_ne hij]

/-- sum of the costs of a list of rows (at the commission function and multipliers of `w`) -/
def costSum (cfg : Cfg K) (mult : Option K) (w : World K) : List (Int × BRow K) → K
  | [] => 0
  | r :: rs => rowCost cfg mult w r + costSum cfg mult w rs

theorem rowCost_congr {mult : Option K} {w w1 : World K} (hc : rootComm w1 = rootComm w) (hm : ∀ j, multAt w1 j = multAt w j)
    (r : Int × BRow K) : rowCost cfg mult w1 r = rowCost cfg mult w r := by
  simp only [rowCost, hc, hm]

theorem costSum_congr {mult : Option K} {w w1 : World K} (hc : rootComm w1 = rootComm w) (hm : ∀ j, multAt w1 j = multAt w j) :
    ∀ rows : List (Int × BRow K), costSum cfg mult w1 rows = costSum cfg mult w rows
  | [] => rfl
  | r :: rs => by simp only [costSum, rowCost_congr hc hm, costSum_congr hc hm rs]

/-- **the rows of one call**: the root's cash goes down by the sum of the rows' costs -/
theorem execRows_cash {mult : Option K} : ∀ (rows : List (Int × BRow K)) {w w' : World K}, Flat w →
    execRows cfg mult [] rows w = .ok w' →
    rootCap w' = rootCap w - costSum cfg mult w rows ∧ rootComm w' = rootComm w ∧ ∀ j, multAt w' j = multAt w j
  | [], w, w', hf, h => by
    rw [execRows_nil] at h; cases h
    exact ⟨by simp [costSum], rfl, fun _ => rfl⟩
  | r :: rest, w, w', hf, h => by
    rw [execRows_cons] at h
    obtain ⟨w1, h1, h2⟩ := bind_eq_ok h
    obtain ⟨hc1, hk1, hm1⟩ := execRow_cash hf h1
    obtain ⟨hf1, _⟩ := execRow_pos hf h1
    obtain ⟨hc2, hk2, hm2⟩ := execRows_cash rest hf1 h2
    refine ⟨?_, hk2.trans hk1, fun j => (hm2 j).trans (hm1 j)⟩
    rw [hc2, hc1, costSum_congr hk1 hm1, costSum]
    ring

end cash
end Bt.PProgR

namespace Bt.PProgR
open Bt Bt.P08 Bt.Prog Bt.Blotter Bt.FI

section upd
variable {K : Type} [Field K] [LinearOrder K] [IsStrictOrderedRing K] [HasFloor K]
variable {cfg : Cfg K}

/-! ### `root.update`: the cash moves by the carry parked on the securities, commission function and multipliers stay -/

/-- multiplier of a node (a sub-strategy has none: 0) -/
def nmult : Node K → K
  | .sec s => s.mult
  | .strat _ _ => 0

theorem multAt_eq (w : World K) (sd : StratData K) (ks : List (Node K)) (h : w.root = .strat sd ks) (j : Nat) :
    multAt w j = ((ks.map nmult)[j]?).getD 0 := by
  simp only [multAt, h, List.getElem?_map]
  cases ks[j]? with
  | none => rfl
  | some k => cases k <;> rfl

theorem stratDateChange_comm (d : Nat) (sd : StratData K) : (stratDateChange d sd).1.comm = sd.comm := by
  unfold stratDateChange
  cases h : sd.now with
  | none => rfl
  | some n => dsimp only; split <;> rfl

theorem stratSetTotals_comm (d : Nat) (sd : StratData K) (val notl bo : K) : (stratSetTotals d sd val notl bo).comm = sd.comm := by
  unfold stratSetTotals; dsimp only; split <;> rfl

theorem stratWrite_comm {d : Nat} {newpt : Bool} {sd sd3 : StratData K} {val notl bo : K}
    (h : stratWrite cfg d newpt sd val notl bo = .ok sd3) : sd3.comm = sd.comm := by
  rcases FI.stratWrite_inv cfg d newpt sd sd3 val notl bo h with ⟨_, rfl⟩ | ⟨_, ret, _, rfl⟩
  · rfl
  · exact stratSetTotals_comm d sd val notl bo

theorem stratRows_comm (d : Nat) (sd : StratData K) : (stratRows d sd).comm = sd.comm := by
  unfold stratRows; dsimp only; split <;> rfl

theorem stratRows_capital (d : Nat) (sd : StratData K) : (stratRows d sd).capital = sd.capital := by
  unfold stratRows; dsimp only; split <;> rfl

theorem stratDateChange_now (d : Nat) (sd : StratData K) : (stratDateChange d sd).1.now = some d := by
  unfold stratDateChange
  cases h : sd.now with
  | none => rfl
  | some n =>
    dsimp only
    split <;> rfl

theorem stratSetTotals_now (d : Nat) (sd : StratData K) (val notl bo : K) : (stratSetTotals d sd val notl bo).now = sd.now := by
  unfold stratSetTotals; dsimp only; split <;> rfl

theorem stratWrite_now {d : Nat} {newpt : Bool} {sd sd3 : StratData K} {val notl bo : K}
    (h : stratWrite cfg d newpt sd val notl bo = .ok sd3) : sd3.now = sd.now := by
  rcases FI.stratWrite_inv cfg d newpt sd sd3 val notl bo h with ⟨_, rfl⟩ | ⟨_, ret, _, rfl⟩
  · rfl
  · exact stratSetTotals_now d sd val notl bo

theorem stratRows_now (d : Nat) (sd : StratData K) : (stratRows d sd).now = sd.now := by
  unfold stratRows; dsimp only; split <;> rfl

theorem sweepSec_mult (np : Bool) (s : SecData K) (acc : Acc K) : (sweepSec np s acc).1.mult = s.mult := by
  unfold sweepSec; cases np <;> rfl

/-- the children loop of `update` over securities: same multipliers -/
theorem updKids_mult {d : Nat} {newpt bo : Bool} : ∀ (ks : List (Node K)) (acc : Acc K) (ks' : List (Node K)) (acc' : Acc K),
    (∀ k ∈ ks, k.isSec = true) → updKids cfg d newpt bo ks acc = .ok (ks', acc') → ks'.map nmult = ks.map nmult
  | [], acc, ks', acc', _, h => by
    rw [updKids] at h; cases h; rfl
  | .strat sd kk :: ks, acc, ks', acc', hs, h => by
    have := hs (.strat sd kk) (List.mem_cons_self ..)
    simp [Node.isSec] at this
  | .sec s :: ks, acc, ks', acc', hs, h => by
    rw [updKids_sec] at h
    have hs' : ∀ k ∈ ks, k.isSec = true := fun k hk => hs k (List.mem_cons_of_mem _ hk)
    split at h
    · obtain ⟨r, hr, he⟩ := map_eq_ok h
      cases he
      have hb := updKids_mult ks _ r.1 r.2 hs' hr
      simp only [List.map_cons, nmult, sweepSec_mult, hb]
    · obtain ⟨s1, h1, h⟩ := bind_eq_ok h
      obtain ⟨r, hr, he⟩ := map_eq_ok h
      cases he
      have hb := updKids_mult ks _ r.1 r.2 hs' hr
      simp only [List.map_cons, nmult, hb]
      rw [secUpdate_mult h1, sweepSec_mult]

theorem kidsWeights_mult (fi : Bool) (val notl : K) (ks : List (Node K)) :
    (kidsWeights cfg fi val notl ks).map nmult = ks.map nmult := by
  unfold kidsWeights
  rw [List.map_map]
  refine List.map_congr_left fun k _ => ?_
  simp only [Function.comp]
  split
  · rfl
  · cases k <;> rfl

/-- carry (coupon less holding cost) parked on the root's securities -/
def parked (w : World K) : K :=
  match w.root with
  | .strat _ ks => kidsParked ks
  | .sec _ => 0

/-- clock of the root -/
def rootNow (w : World K) : Option Nat :=
  match w.root with
  | .strat sd _ => sd.now
  | .sec _ => none

/-- **`root.update` that does not end flagged**: the root's cash goes up by the carry parked on its securities when the date is
    new (and stays otherwise); commission function and multipliers stay -/
theorem updRoot_cash {d : Nat} {w w' : World K} (hf : Flat w) (h : updRoot cfg d w = .ok w') (hb : w'.bankrupt = false) :
    rootCap w' = rootCap w + (if rootNow w ≠ some d then parked w else 0) ∧ rootComm w' = rootComm w ∧
      (∀ j, multAt w' j = multAt w j) ∧ rootNow w' = some d := by
  obtain ⟨sd, ks, hr, hs⟩ := hf
  obtain ⟨v, hv⟩ := P16.rootTotal_of_updRoot h
  have hflag := P16.updRoot_bankrupt hv h
  rw [hb] at hflag
  obtain ⟨root, st⟩ := w
  simp only at hr
  subst hr
  rw [updRoot_strat] at h
  obtain ⟨r, hk, h⟩ := bind_eq_ok h
  have hv' : v = r.2.val + r.2.coupons := by
    simp only [P16.rootTotal, hk, P08.map_ok] at hv
    cases hv; rfl
  have hcond : bankruptCond cfg (stratDateChange d sd).1 (r.2.val + r.2.coupons) = false := by
    rw [P16.bankruptCond_eq]
    have h1 : (World.bankrupt ⟨Node.strat sd ks, st⟩ || P16.trigger cfg (World.rootFI ⟨Node.strat sd ks, st⟩) v) = false :=
      hflag.symm
    rw [Bool.or_eq_false_iff] at h1
    have hfi : (stratDateChange d sd).1.fixedIncome = sd.fixedIncome := by
      unfold stratDateChange; split
      · rfl
      · split <;> rfl
    rw [hfi, ← hv']
    have h2 : P16.trigger cfg sd.fixedIncome v = false := h1.2
    rw [h2]; simp
  rw [hcond] at h
  simp only [Bool.false_eq_true, ↓reduceIte] at h
  obtain ⟨n, hn, rfl⟩ := map_eq_ok h
  unfold stratFinish at hn
  obtain ⟨sd3, hw3, rfl⟩ := map_eq_ok hn
  obtain ⟨r1, r2⟩ := r
  have hmk := updKids_mult ks _ r1 r2 hs hk
  obtain ⟨_, hc, _⟩ := FI.updKids_spec cfg d _ _ ks r1 _ r2 hk
  dsimp only at hc
  rw [zero_add] at hc
  obtain ⟨w1, _⟩ := FI.stratWrite_frame cfg d _ _ sd3 _ _ _ hw3
  dsimp only at w1
  have hnp : (stratDateChange d sd).2 = decide (sd.now ≠ some d) := by
    rw [Bool.eq_iff_iff, stratDateChange_snd]; simp
  refine ⟨?_, ?_, fun j => ?_, ?_⟩
  · simp only [rootCap, rootNow, parked]
    rw [stratRows_capital, w1, (FI.stratDateChange_frame d sd).1, hc, hnp]
    by_cases hd : sd.now = some d <;> simp [hd]
  · simp only [rootComm]
    rw [stratRows_comm, stratWrite_comm hw3]
    exact stratDateChange_comm d sd
  · rw [multAt_eq _ _ _ rfl j, multAt_eq ⟨Node.strat sd ks, st⟩ sd ks rfl j, kidsWeights_mult, hmk]
  · simp only [rootNow]
    rw [stratRows_now, stratWrite_now hw3]
    exact stratDateChange_now d sd

/-! ### the row loop keeps the root's clock and what is parked; one day of the loop -/

theorem foldl_adjust_now : ∀ (l : List (Adj K)) (sd : StratData K), (l.foldl StratData.adjust sd).now = sd.now
  | [], _ => rfl
  | a :: l, sd => by rw [List.foldl_cons, foldl_adjust_now l]; rfl

theorem execRow_now {mult : Option K} {w w' : World K} {r : Int × BRow K} (h : execRow cfg mult [] w r = .ok w') :
    rootNow w' = rootNow w := by
  obtain ⟨stamp, i, q, px⟩ := r
  simp only [execRow, opTransact, World.modify, List.nil_append] at h
  obtain ⟨⟨root', adjs, st⟩, hm, hw'⟩ := map_eq_ok h
  subst hw'
  obtain ⟨root, stale⟩ := w
  cases root with
  | sec s => simp only [modAt] at hm; cases hm
  | strat sd ks =>
    simp only [modAt] at hm
    cases hki : ks[i]? with
    | none => rw [hki] at hm; cases hm
    | some k =>
      rw [hki] at hm
      obtain ⟨⟨k', adjs', st'⟩, hk', hroot⟩ := map_eq_ok hm
      simp only [Prod.mk.injEq] at hroot
      obtain ⟨rfl, -, -⟩ := hroot
      simp only [rootNow]
      exact foldl_adjust_now adjs' sd

theorem execRows_now {mult : Option K} : ∀ (rows : List (Int × BRow K)) {w w' : World K},
    execRows cfg mult [] rows w = .ok w' → rootNow w' = rootNow w
  | [], w, w', h => by rw [execRows_nil] at h; cases h; rfl
  | r :: rest, w, w', h => by
    rw [execRows_cons] at h
    obtain ⟨w1, h1, h2⟩ := bind_eq_ok h
    rw [execRows_now rest h2, execRow_now h1]

/-- **one day** of a backtest of a flat blotter-driven strategy that ends unflagged: the root's cash goes up by the carry its
    securities parked on the earlier date (the opening update sweeps it; the two later updates of the date sweep nothing) and down
    by the cost of every row of the day's window, each row priced on its own at its listed price -/
theorem btDay_cash (p : ProgR K) {d : Nat} {w w' : World K} (hf : Flat w)
    (h : btDay cfg (progRunR cfg p []) d w = .ok w') (hb : w'.bankrupt = false) :
    rootCap w' = rootCap w + (if rootNow w ≠ some d then parked w else 0)
        - costSum cfg p.mult w (select p.timeline d p.rows) ∧
      rootComm w' = rootComm w ∧ (∀ j, multAt w' j = multAt w j) ∧ rootNow w' = some d := by
  unfold btDay at h
  obtain ⟨w1, h1, h⟩ := bind_eq_ok h
  split at h
  · rename_i hw1; cases h; rw [hb] at hw1; cases hw1
  · rename_i hw1
    have hb1 : w1.bankrupt = false := by simpa using hw1
    obtain ⟨w3, h3, h4⟩ := bind_eq_ok h
    simp only [progRunR] at h3
    obtain ⟨w2, h2, h3⟩ := bind_eq_ok h3
    have hb3 : w3.bankrupt = false := updRoot_not_bankrupt h4 hb
    obtain ⟨hf1, _⟩ := updRoot_pos hf h1 hb1
    obtain ⟨hf2, _⟩ := execRows_pos _ hf1 h2
    obtain ⟨hf3, _⟩ := updRoot_pos hf2 h3 hb3
    obtain ⟨c1, k1, m1, n1⟩ := updRoot_cash hf h1 hb1
    obtain ⟨c2, k2, m2⟩ := execRows_cash _ hf1 h2
    have n2 : rootNow w2 = some d := (execRows_now _ h2).trans n1
    obtain ⟨c3, k3, m3, n3⟩ := updRoot_cash hf2 h3 hb3
    obtain ⟨c4, k4, m4, n4⟩ := updRoot_cash hf3 h4 hb
    refine ⟨?_, ((k4.trans k3).trans k2).trans k1, fun j => (((m4 j).trans (m3 j)).trans (m2 j)).trans (m1 j), n4⟩
    rw [c4, c3, c2, c1, costSum_congr k1 m1]
    simp [n2, n3]

end upd
end Bt.PProgR

namespace Bt.PProgR
open Bt Bt.P08 Bt.Prog Bt.Blotter

/-! ### the windows partition the frame, for any per-row amount (generic copy of the lemmas about `qsum`) -/
section gwindows
variable {K : Type} [Field K] [LinearOrder K] [IsStrictOrderedRing K] [HasFloor K]
variable {f : Int × BRow K → K}

/-- sum of a per-row amount over a list of rows -/
def gsum (f : Int × BRow K → K) : List (Int × BRow K) → K
  | [] => 0
  | r :: rs => f r + gsum f rs

/-- … and over the windows of a list of dates -/
def gdaysSum (f : Int × BRow K → K) (tl : List Int) (rows : List (Int × BRow K)) : List Nat → K
  | [] => 0
  | d :: ds => gsum f (select tl d rows) + gdaysSum f tl rows ds

theorem gsum_select_cons (tl : List Int) (d : Nat) (r : Int × BRow K) (rs : List (Int × BRow K)) :
    gsum f (select tl d (r :: rs)) = (if inWindow tl d r.1 = true then f r else 0) + gsum f (select tl d rs) := by
  unfold select
  rw [List.filter_cons]
  split
  · rfl
  · exact (zero_add _).symm

/-- the sum over the days of what a single row contributes -/
def growDays (f : Int × BRow K → K) (tl : List Int) (r : Int × BRow K) : List Nat → K
  | [] => 0
  | d :: ds => (if inWindow tl d r.1 = true then f r else 0) + growDays f tl r ds

theorem gdaysSum_nil (tl : List Int) : ∀ ds : List Nat, gdaysSum f tl ([] : List (Int × BRow K)) ds = 0
  | [] => rfl
  | d :: ds => by rw [gdaysSum, gdaysSum_nil tl ds]; simp [select, gsum]

theorem gdaysSum_cons (tl : List Int) (r : Int × BRow K) (rs : List (Int × BRow K)) :
    ∀ ds : List Nat, gdaysSum f tl (r :: rs) ds = growDays f tl r ds + gdaysSum f tl rs ds
  | [] => by simp [gdaysSum, growDays]
  | d :: ds => by
    rw [gdaysSum, gdaysSum, growDays, gsum_select_cons, gdaysSum_cons tl r rs ds]
    ac_rfl

theorem growDays_none (tl : List Int) (r : Int × BRow K) :
    ∀ ds : List Nat, (∀ d ∈ ds, inWindow tl d r.1 = false) → growDays f tl r ds = 0
  | [], _ => rfl
  | d :: ds, h => by
    rw [growDays, h d (List.mem_cons_self ..), growDays_none tl r ds fun x hx => h x (List.mem_cons_of_mem _ hx)]
    simp

/-- a row picked by exactly one of the (distinct) dates is counted once -/
theorem growDays_one (tl : List Int) (r : Int × BRow K) (d0 : Nat) (h0 : inWindow tl d0 r.1 = true) :
    ∀ ds : List Nat, ds.Nodup → d0 ∈ ds → (∀ d ∈ ds, d ≠ d0 → inWindow tl d r.1 = false) →
      growDays f tl r ds = f r
  | [], _, hm, _ => by cases hm
  | d :: ds, hnd, hm, hoth => by
    rw [growDays]
    rw [List.nodup_cons] at hnd
    by_cases hd : d = d0
    · subst hd
      rw [if_pos h0, growDays_none tl r ds fun x hx => hoth x (List.mem_cons_of_mem _ hx) (fun e => hnd.1 (e ▸ hx))]
      simp
    · have : d0 ∈ ds := by
        rcases List.mem_cons.1 hm with e | e
        · exact absurd e.symm hd
        · exact e
      rw [hoth d (List.mem_cons_self ..) hd,
        growDays_one tl r d0 h0 ds hnd.2 this fun x hx => hoth x (List.mem_cons_of_mem _ hx)]
      simp

/-- on an increasing timeline `a = tl[0] < … < tl[n] = b` (length `n + 1`): the rows of the windows `1..n` are the rows
    stamped in `(a, b]`, each in exactly one window -/
theorem growDays_range (tl : List Int) (hs : tl.Pairwise (· < ·)) (n : Nat) (hlen : tl.length = n + 1)
    (a b : Int) (ha : tl[0]? = some a) (hb : tl[n]? = some b) (r : Int × BRow K) :
    growDays f tl r (List.range' 1 n) = if a < r.1 ∧ r.1 ≤ b then f r else 0 := by
  by_cases hin : a < r.1 ∧ r.1 ≤ b
  · rw [if_pos hin]
    obtain ⟨d0, h0⟩ := C04.window_covers tl r.1 ⟨b, List.mem_of_getElem? hb, hin.2⟩
    have hd0lt : d0 < n + 1 := hlen ▸ inWindow_lt_length h0
    have hd0pos : d0 ≠ 0 := by
      rintro rfl
      rw [inWindow_zero ha] at h0
      have : r.1 ≤ a := by simpa using h0
      omega
    refine growDays_one tl r d0 h0 _ (List.nodup_range' (step := 1) (by omega)) ?_ ?_
    · rw [List.mem_range'_1]; omega
    · intro d _ hne
      rcases Nat.lt_or_gt_of_ne hne with hlt | hgt
      · cases hdw : inWindow tl d r.1 with
        | false => rfl
        | true =>
          have := C04.window_disjoint tl hs d d0 hlt r.1 hdw
          rw [h0] at this; cases this
      · exact C04.window_disjoint tl hs d0 d hgt r.1 h0
  · rw [if_neg hin]
    refine growDays_none tl r _ fun d hd => ?_
    rw [List.mem_range'_1] at hd
    cases hdw : inWindow tl d r.1 with
    | false => rfl
    | true =>
      exfalso
      apply hin
      have hdlt : d < tl.length := inWindow_lt_length hdw
      constructor
      · -- not in window 0 (disjoint), so `a < stamp`
        have h0f : inWindow tl 0 r.1 = false := by
          cases h0w : inWindow tl 0 r.1 with
          | false => rfl
          | true =>
            have := C04.window_disjoint tl hs 0 d (by omega) r.1 h0w
            rw [hdw] at this; cases this
        rw [inWindow_zero ha] at h0f
        have : ¬ r.1 ≤ a := by simpa using h0f
        omega
      · -- `stamp ≤ tl[d] ≤ tl[n]`
        have hle := C04.inWindow_le (List.getElem?_eq_getElem hdlt) hdw
        have hnlt : n < tl.length := by omega
        have hbn : b = tl[n] := by
          rw [List.getElem?_eq_getElem hnlt] at hb; exact (Option.some.inj hb).symm
        rcases Nat.lt_or_ge d n with hlt | hge
        · have := List.pairwise_iff_getElem.mp hs d n hdlt hnlt hlt
          omega
        · have : d = n := by omega
          subst this; omega

/-- **each row exactly once**: the sum over the windows of rows `1..n` is the sum over the rows stamped in `(a, b]` -/
theorem gdaysSum_range (tl : List Int) (hs : tl.Pairwise (· < ·)) (n : Nat) (hlen : tl.length = n + 1)
    (a b : Int) (ha : tl[0]? = some a) (hb : tl[n]? = some b) :
    ∀ rows : List (Int × BRow K), gdaysSum f tl rows (List.range' 1 n) =
      gsum f (rows.filter fun r => decide (a < r.1 ∧ r.1 ≤ b))
  | [] => by rw [gdaysSum_nil]; rfl
  | r :: rs => by
    rw [gdaysSum_cons, growDays_range tl hs n hlen a b ha hb r, gdaysSum_range tl hs n hlen a b ha hb rs, List.filter_cons]
    by_cases hin : a < r.1 ∧ r.1 ≤ b
    · rw [if_pos hin, if_pos (by simpa using hin), gsum]
    · rw [if_neg hin, if_neg (by simpa using hin), zero_add]


end gwindows
end Bt.PProgR

namespace Bt.PProgR
open Bt Bt.P08 Bt.Prog Bt.Blotter

/-! ### books without carry: the whole run -/
section dry
variable {K : Type} [Field K] [LinearOrder K] [IsStrictOrderedRing K] [HasFloor K]
variable {cfg : Cfg K}

/-- a security that parks nothing: not coupon-paying, nothing parked -/
def DrySec (s : SecData K) : Prop := s.capital = 0 ∧ s.kind ≠ .coupon ∧ s.kind ≠ .couponHedge

/-- a flat root all of whose securities park nothing -/
def Dry (w : World K) : Prop := ∃ sd ks, w.root = .strat sd ks ∧ ∀ k ∈ ks, ∃ s, k = .sec s ∧ DrySec s

theorem Dry.flat {w : World K} (h : Dry w) : Flat w := by
  obtain ⟨sd, ks, hr, hs⟩ := h
  exact ⟨sd, ks, hr, fun k hk => by obtain ⟨s, rfl, _⟩ := hs k hk; rfl⟩

theorem kidsParked_dry : ∀ ks : List (Node K), (∀ k ∈ ks, ∃ s, k = .sec s ∧ DrySec s) → FI.kidsParked ks = 0
  | [], _ => rfl
  | k :: ks, h => by
    obtain ⟨s, rfl, hd⟩ := h k (List.mem_cons_self ..)
    rw [FI.kidsParked, hd.1, kidsParked_dry ks fun x hx => h x (List.mem_cons_of_mem _ hx), add_zero]

theorem Dry.parked {w : World K} (h : Dry w) : parked w = 0 := by
  obtain ⟨sd, ks, hr, hs⟩ := h
  simp only [PProgR.parked, hr]
  exact kidsParked_dry ks hs

theorem secBaseUpdate_capital {d : Nat} {s s1 : SecData K} (h : secBaseUpdate cfg d s = .ok s1) : s1.capital = s.capital := by
  rcases secBaseUpdate_cases h with ⟨_, rfl⟩ | ⟨_, v, _, rfl⟩
  · rfl
  · simp

theorem secUpdate_dry {d : Nat} {s s' : SecData K} (hd : DrySec s) (h : secUpdate cfg d s = .ok s') : DrySec s' := by
  have ht := P16.secUpdate_tag h
  have hk : s'.kind = s.kind := by
    have := congrArg (fun t => t.2.1) (show (s'.name, s'.kind, s'.fixedIncome) = (s.name, s.kind, s.fixedIncome) from by
      have := ht; simp only [P16.secTag, P16.SecTag.mk.injEq] at this; exact Prod.ext this.1 (Prod.ext this.2.1 this.2.2))
    exact this
  rw [secUpdate_eq] at h
  obtain ⟨s1, hb, htl⟩ := bind_eq_ok h
  have hc1 := secBaseUpdate_capital hb
  refine ⟨?_, hk ▸ hd.2.1, hk ▸ hd.2.2⟩
  cases hkind : s.kind with
  | plain => rw [hkind] at htl; cases htl; rw [hc1, hd.1]
  | fi => rw [hkind] at htl; cases htl; simp [hc1, hd.1]
  | hedge => rw [hkind] at htl; cases htl; simp [hc1, hd.1]
  | coupon => exact absurd hkind hd.2.1
  | couponHedge => exact absurd hkind hd.2.2

theorem secRefresh_dry {pn : Option Nat} {s s' : SecData K} (hd : DrySec s) (h : secRefresh cfg pn s = .ok s') : DrySec s' := by
  unfold secRefresh at h
  split at h
  · cases pn with
    | none => cases h
    | some d => exact secUpdate_dry hd h
  · cases h; exact hd

theorem secTransactCore_dry {comm : K → K → K} {s : SecData K} {q : K} {custom : Option K} {r : SecData K × Option (Adj K)}
    (hd : DrySec s) (h : secTransactCore cfg comm s q custom = .ok r) : DrySec r.1 := by
  unfold secTransactCore at h
  split at h
  · cases h; exact hd
  · split at h
    · cases h
    · obtain ⟨⟨full, outlay, fee, bo⟩, _, h⟩ := bind_eq_ok h
      cases h; exact hd

theorem execRow_dry {mult : Option K} {w w' : World K} {r : Int × BRow K} (hd : Dry w)
    (h : execRow cfg mult [] w r = .ok w') : Dry w' := by
  obtain ⟨sd, ks, hr, hs⟩ := hd
  obtain ⟨stamp, i, q, px⟩ := r
  simp only [execRow, opTransact, World.modify, List.nil_append] at h
  obtain ⟨⟨root', adjs, st⟩, hm, hw'⟩ := map_eq_ok h
  rw [hr] at hm
  simp only [modAt] at hm
  cases hki : ks[i]? with
  | none => rw [hki] at hm; cases hm
  | some k =>
    rw [hki] at hm
    obtain ⟨s, rfl, hds⟩ := hs k (List.mem_of_getElem? hki)
    obtain ⟨⟨k', adjs', st'⟩, hk', hroot⟩ := map_eq_ok hm
    obtain ⟨⟨s', a⟩, hs', hk''⟩ := map_eq_ok hk'
    simp only [Prod.mk.injEq] at hk'' hroot
    obtain ⟨rfl, -, -⟩ := hk''
    obtain ⟨rfl, -, -⟩ := hroot
    subst hw'
    unfold secTransact at hs'
    simp only [if_true] at hs'
    obtain ⟨s1, h1, h2⟩ := bind_eq_ok hs'
    have hd' : DrySec s' := secTransactCore_dry (secRefresh_dry hds h1) h2
    refine ⟨_, _, rfl, fun k hk => ?_⟩
    rcases List.mem_or_eq_of_mem_set hk with hk | hk
    · exact hs k hk
    · exact ⟨s', hk, hd'⟩

theorem execRows_dry {mult : Option K} : ∀ (rows : List (Int × BRow K)) {w w' : World K}, Dry w →
    execRows cfg mult [] rows w = .ok w' → Dry w'
  | [], w, w', hd, h => by rw [execRows_nil] at h; cases h; exact hd
  | r :: rest, w, w', hd, h => by
    rw [execRows_cons] at h
    obtain ⟨w1, h1, h2⟩ := bind_eq_ok h
    exact execRows_dry rest (execRow_dry hd h1) h2

theorem sweepSec_dry (np : Bool) (s : SecData K) (acc : Acc K) (hd : DrySec s) : DrySec (sweepSec np s acc).1 := by
  unfold sweepSec; cases np
  · exact hd
  · exact ⟨rfl, hd.2.1, hd.2.2⟩

theorem updKids_dry {d : Nat} {newpt bo : Bool} : ∀ (ks : List (Node K)) (acc : Acc K) (ks' : List (Node K)) (acc' : Acc K),
    (∀ k ∈ ks, ∃ s, k = .sec s ∧ DrySec s) → updKids cfg d newpt bo ks acc = .ok (ks', acc') →
    ∀ k ∈ ks', ∃ s, k = .sec s ∧ DrySec s
  | [], acc, ks', acc', _, h => by
    rw [updKids] at h; cases h; exact fun _ hk => (by cases hk)
  | .strat sd kk :: ks, acc, ks', acc', hs, h => by
    obtain ⟨s, hk, _⟩ := hs (.strat sd kk) (List.mem_cons_self ..)
    cases hk
  | .sec s :: ks, acc, ks', acc', hs, h => by
    rw [updKids_sec] at h
    obtain ⟨s0, hs0, hd0⟩ := hs (.sec s) (List.mem_cons_self ..)
    cases hs0
    have hs' : ∀ k ∈ ks, ∃ s, k = .sec s ∧ DrySec s := fun k hk => hs k (List.mem_cons_of_mem _ hk)
    split at h
    · obtain ⟨r, hr, he⟩ := map_eq_ok h
      cases he
      have ha := updKids_dry ks _ r.1 r.2 hs' hr
      intro k hk
      rcases List.mem_cons.1 hk with rfl | hk
      · exact ⟨_, rfl, sweepSec_dry _ _ _ hd0⟩
      · exact ha k hk
    · obtain ⟨s1, h1, h⟩ := bind_eq_ok h
      obtain ⟨r, hr, he⟩ := map_eq_ok h
      cases he
      have ha := updKids_dry ks _ r.1 r.2 hs' hr
      intro k hk
      rcases List.mem_cons.1 hk with rfl | hk
      · exact ⟨_, rfl, secUpdate_dry (sweepSec_dry _ _ _ hd0) h1⟩
      · exact ha k hk

theorem kidsWeights_dry (fi : Bool) (val notl : K) (ks : List (Node K)) (hs : ∀ k ∈ ks, ∃ s, k = .sec s ∧ DrySec s) :
    ∀ k ∈ kidsWeights cfg fi val notl ks, ∃ s, k = .sec s ∧ DrySec s := by
  unfold kidsWeights
  intro k hk
  obtain ⟨k0, hk0, rfl⟩ := List.mem_map.1 hk
  obtain ⟨s, rfl, hd⟩ := hs k0 hk0
  split
  · exact ⟨s, rfl, hd⟩
  · exact ⟨_, rfl, hd⟩

/-- `root.update` that does not end flagged keeps a book without carry without carry -/
theorem updRoot_dry {d : Nat} {w w' : World K} (hdry : Dry w) (h : updRoot cfg d w = .ok w') (hb : w'.bankrupt = false) : Dry w' := by
  obtain ⟨sd, ks, hr, hs⟩ := hdry
  obtain ⟨v, hv⟩ := P16.rootTotal_of_updRoot h
  have hflag := P16.updRoot_bankrupt hv h
  rw [hb] at hflag
  obtain ⟨root, st⟩ := w
  simp only at hr
  subst hr
  rw [updRoot_strat] at h
  obtain ⟨r, hk, h⟩ := bind_eq_ok h
  have hv' : v = r.2.val + r.2.coupons := by
    simp only [P16.rootTotal, hk, P08.map_ok] at hv
    cases hv; rfl
  have hcond : bankruptCond cfg (stratDateChange d sd).1 (r.2.val + r.2.coupons) = false := by
    rw [P16.bankruptCond_eq]
    have h1 : (World.bankrupt ⟨Node.strat sd ks, st⟩ || P16.trigger cfg (World.rootFI ⟨Node.strat sd ks, st⟩) v) = false :=
      hflag.symm
    rw [Bool.or_eq_false_iff] at h1
    have hfi : (stratDateChange d sd).1.fixedIncome = sd.fixedIncome := by
      unfold stratDateChange; split
      · rfl
      · split <;> rfl
    rw [hfi, ← hv']
    have h2 : P16.trigger cfg sd.fixedIncome v = false := h1.2
    rw [h2]; simp
  rw [hcond] at h
  simp only [Bool.false_eq_true, ↓reduceIte] at h
  obtain ⟨n, hn, rfl⟩ := map_eq_ok h
  unfold stratFinish at hn
  obtain ⟨sd3, hw3, rfl⟩ := map_eq_ok hn
  obtain ⟨r1, r2⟩ := r
  exact ⟨_, _, rfl, kidsWeights_dry _ _ _ r1 (updKids_dry ks _ r1 r2 hs hk)⟩

/-- **one day** on a book without carry: the cash goes down by the cost of the day's rows -/
theorem btDay_cash_dry (p : ProgR K) {d : Nat} {w w' : World K} (hdry : Dry w)
    (h : btDay cfg (progRunR cfg p []) d w = .ok w') (hb : w'.bankrupt = false) :
    Dry w' ∧ rootCap w' = rootCap w - costSum cfg p.mult w (select p.timeline d p.rows) ∧
      rootComm w' = rootComm w ∧ ∀ j, multAt w' j = multAt w j := by
  obtain ⟨c, k, m, _⟩ := btDay_cash p hdry.flat h hb
  refine ⟨?_, by rw [c, hdry.parked]; simp, k, m⟩
  unfold btDay at h
  obtain ⟨w1, h1, h⟩ := bind_eq_ok h
  split at h
  · rename_i hw1; cases h; rw [hb] at hw1; cases hw1
  · rename_i hw1
    have hb1 : w1.bankrupt = false := by simpa using hw1
    obtain ⟨w3, h3, h4⟩ := bind_eq_ok h
    simp only [progRunR] at h3
    obtain ⟨w2, h2, h3⟩ := bind_eq_ok h3
    have hb3 : w3.bankrupt = false := updRoot_not_bankrupt h4 hb
    exact updRoot_dry (updRoot_dry (execRows_dry _ (updRoot_dry hdry h1 hb1) h2) h3 hb3) h4 hb

theorem costSum_eq_gsum (mult : Option K) (w : World K) : ∀ rows : List (Int × BRow K),
    costSum cfg mult w rows = gsum (rowCost cfg mult w) rows
  | [] => rfl
  | r :: rs => by rw [costSum, gsum, costSum_eq_gsum mult w rs]

/-- **the loop** on a book without carry: the sum over the days, at the commission function and multipliers of the start -/
theorem btLoop_cash_dry (p : ProgR K) : ∀ (ds : List Nat) {w w' : World K}, Dry w →
    btLoop cfg (progRunR cfg p []) ds w = .ok w' → w'.bankrupt = false →
    Dry w' ∧ rootCap w' = rootCap w - gdaysSum (rowCost cfg p.mult w) p.timeline p.rows ds ∧
      rootComm w' = rootComm w ∧ ∀ j, multAt w' j = multAt w j
  | [], w, w', hd, h, _ => by
    rw [btLoop] at h; cases h
    exact ⟨hd, by simp [gdaysSum], rfl, fun _ => rfl⟩
  | d :: ds, w, w', hd, h, hb => by
    rw [btLoop] at h
    obtain ⟨w1, h1, h2⟩ := bind_eq_ok h
    have hb1 : w1.bankrupt = false := btLoop_not_bankrupt ds h2 hb
    obtain ⟨hd1, c1, k1, m1⟩ := btDay_cash_dry p hd h1 hb1
    obtain ⟨hd2, c2, k2, m2⟩ := btLoop_cash_dry p ds hd1 h2 hb
    refine ⟨hd2, ?_, k2.trans k1, fun j => (m2 j).trans (m1 j)⟩
    have e : rowCost cfg p.mult w1 = rowCost cfg p.mult w := funext fun r => rowCost_congr k1 m1 r
    rw [c2, c1, e, gdaysSum, costSum_eq_gsum]
    ring

end dry
end Bt.PProgR

namespace Bt.PProgR
open Bt Bt.P08 Bt.Prog Bt.Blotter

section run
variable {K : Type} [Field K] [LinearOrder K] [IsStrictOrderedRing K] [HasFloor K]
variable {cfg : Cfg K}

/-- `adjust(amount)` on the root: the cash goes up by the amount; the book is as it was -/
theorem opAdjust_root_cash {w w' : World K} {amount : K} {u fl : Bool} (hd : Dry w)
    (h : opAdjust w [] amount u fl = .ok w') :
    Dry w' ∧ rootCap w' = rootCap w + amount ∧ rootComm w' = rootComm w ∧ ∀ j, multAt w' j = multAt w j := by
  obtain ⟨sd, ks, hr, hs⟩ := hd
  simp only [opAdjust, World.modify] at h
  obtain ⟨⟨root', adjs, st⟩, hm, hw'⟩ := map_eq_ok h
  rw [hr] at hm
  simp only [modAt] at hm
  cases hm
  subst hw'
  refine ⟨⟨_, _, rfl, hs⟩, ?_, ?_, fun j => ?_⟩
  · simp [rootCap, hr, StratData.adjust]
  · simp [rootComm, hr, StratData.adjust]
  · simp [multAt, hr]

/-- **the complete backtest** of a flat blotter-driven strategy on a book without carry: initial capital, first row, loop -/
theorem btRun_cash_dry (p : ProgR K) {capital : K} {d0 : Nat} {ds : List Nat} {w w' : World K} (hd : Dry w)
    (h : btRun cfg (progRunR cfg p []) capital (d0 :: ds) w = .ok w') (hb : w'.bankrupt = false) :
    Dry w' ∧ rootCap w' = rootCap w + capital - gdaysSum (rowCost cfg p.mult w) p.timeline p.rows ds := by
  simp only [btRun] at h
  obtain ⟨w1, h1, h⟩ := bind_eq_ok h
  obtain ⟨w2, h2, h3⟩ := bind_eq_ok h
  have hb2 : w2.bankrupt = false := btLoop_not_bankrupt ds h3 hb
  obtain ⟨hd1, c1, k1, m1⟩ := opAdjust_root_cash hd h1
  have hd2 := updRoot_dry hd1 h2 hb2
  obtain ⟨c2, k2, m2, _⟩ := updRoot_cash hd1.flat h2 hb2
  obtain ⟨hd3, c3, _, _⟩ := btLoop_cash_dry p ds hd2 h3 hb
  refine ⟨hd3, ?_⟩
  have e : rowCost cfg p.mult w2 = rowCost cfg p.mult w :=
    funext fun r => rowCost_congr (k2.trans k1) (fun j => (m2 j).trans (m1 j)) r
  rw [c3, c2, c1, hd1.parked, e]
  simp

end run
end Bt.PProgR
