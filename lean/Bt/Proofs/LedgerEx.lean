import Bt.Engine.Ops
/-! Concrete `Rat` fixtures used by the satisfiability `example`s of C07 / C03 / C02. -/
namespace Bt.LEx

def cfg : Cfg Rat := { tol := 1/1000000, par := 100, atol := 1/100000000, half := 1/2, one := 1, iterCap := 10000 }

/-- proportional + fixed commission -/
def comm : Rat → Rat → Rat := fun q p => (if q < 0 then -q else q) * p / 1000 + 1

/-- a plain security with bid/offer data, multiplier 2, long 3 units at 50, on date 1 -/
def sec : SecData Rat := {
  name := "a", kind := .plain, fixedIncome := false, integer := false, bidofferSet := true,
  mult := 2, now := some 1, price := some 50, value := 300, notl := 300, weight := 3/10, position := 3, lastPos := 3,
  outlayAcc := 0, bidoffer := some (1/5), bidofferPaid := 0, capital := 0, coupon := 0, holdingCost := 0,
  needupdate := true,
  prices := [some 49, some 50, some 51], bidoffers := [some (1/5), some (1/5), some (1/5)], coupons := [],
  costLong := none, costShort := none,
  rValue := [0, 300, 0], rPosition := [0, 3, 0], rNotl := [0, 300, 0], rOutlay := [0, 0, 0],
  rBidofferPaid := [0, 0, 0], rCoupon := [0, 0, 0], rHolding := [0, 0, 0] }

/-- a second plain security, flat, price 20, multiplier 1 -/
def sec2 : SecData Rat := {
  name := "b", kind := .plain, fixedIncome := false, integer := false, bidofferSet := true,
  mult := 1, now := some 1, price := some 20, value := 0, notl := 0, weight := 0, position := 0, lastPos := 0,
  outlayAcc := 0, bidoffer := some (1/10), bidofferPaid := 0, capital := 0, coupon := 0, holdingCost := 0,
  needupdate := false,
  prices := [some 19, some 20, some 22], bidoffers := [some (1/10), some (1/10), some (1/10)], coupons := [],
  costLong := none, costShort := none,
  rValue := [0, 0, 0], rPosition := [0, 0, 0], rNotl := [0, 0, 0], rOutlay := [0, 0, 0],
  rBidofferPaid := [0, 0, 0], rCoupon := [0, 0, 0], rHolding := [0, 0, 0] }

/-- a market-value strategy on date 1: cash 700, value 1000, index 105 (last 100 on value 950 + flows 0) -/
def strat : StratData Rat := {
  name := "s", fixedIncome := false, bidofferSet := true, paperTrade := false, paperPx := 0, comm := comm,
  now := some 1, capital := 700, price := 105, value := 1000, notl := 300, weight := 1,
  netFlows := 50, lastValue := 900, lastNotl := 300, lastPrice := 100, lastFee := 2, bidofferPaid := 0,
  bankrupt := false,
  rPrice := [100, 105, 0], rValue := [900, 1000, 0], rNotl := [300, 300, 0], rCash := [600, 700, 0],
  rFees := [0, 2, 0], rFlows := [0, 50, 0], rBidofferPaid := [0, 0, 0] }

/-- a sub-strategy (weight 1/2 in its parent) holding `sec2` with weight 1 -/
def sub : StratData Rat := {
  name := "t", fixedIncome := false, bidofferSet := true, paperTrade := false, paperPx := 0, comm := comm,
  now := some 1, capital := 100, price := 100, value := 100, notl := 0, weight := 1/2,
  netFlows := 0, lastValue := 100, lastNotl := 0, lastPrice := 100, lastFee := 0, bidofferPaid := 0,
  bankrupt := false,
  rPrice := [100, 100, 0], rValue := [100, 100, 0], rNotl := [0, 0, 0], rCash := [100, 100, 0],
  rFees := [0, 0, 0], rFlows := [0, 0, 0], rBidofferPaid := [0, 0, 0] }

end Bt.LEx
