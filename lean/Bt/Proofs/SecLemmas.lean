import Bt.Proofs.Basic
/-! Projection (frame) lemmas for the small steps of `SecurityBase.update`, and inversion
    lemmas for `secBaseUpdate` / `secUpdate` / `secCouponTail`. -/
namespace Bt
set_option linter.unusedSectionVars false
variable {K : Type} [Field K] [LinearOrder K] [IsStrictOrderedRing K] [HasFloor K]

@[simp] theorem secDateChange_name (d : Nat) (s : SecData K) : (secDateChange d s).name = s.name := by unfold secDateChange; split <;> rfl
@[simp] theorem secDateChange_kind (d : Nat) (s : SecData K) : (secDateChange d s).kind = s.kind := by unfold secDateChange; split <;> rfl
@[simp] theorem secDateChange_fixedIncome (d : Nat) (s : SecData K) : (secDateChange d s).fixedIncome = s.fixedIncome := by unfold secDateChange; split <;> rfl
@[simp] theorem secDateChange_integer (d : Nat) (s : SecData K) : (secDateChange d s).integer = s.integer := by unfold secDateChange; split <;> rfl
@[simp] theorem secDateChange_bidofferSet (d : Nat) (s : SecData K) : (secDateChange d s).bidofferSet = s.bidofferSet := by unfold secDateChange; split <;> rfl
@[simp] theorem secDateChange_mult (d : Nat) (s : SecData K) : (secDateChange d s).mult = s.mult := by unfold secDateChange; split <;> rfl
@[simp] theorem secDateChange_value (d : Nat) (s : SecData K) : (secDateChange d s).value = s.value := by unfold secDateChange; split <;> rfl
@[simp] theorem secDateChange_notl (d : Nat) (s : SecData K) : (secDateChange d s).notl = s.notl := by unfold secDateChange; split <;> rfl
@[simp] theorem secDateChange_weight (d : Nat) (s : SecData K) : (secDateChange d s).weight = s.weight := by unfold secDateChange; split <;> rfl
@[simp] theorem secDateChange_position (d : Nat) (s : SecData K) : (secDateChange d s).position = s.position := by unfold secDateChange; split <;> rfl
@[simp] theorem secDateChange_lastPos (d : Nat) (s : SecData K) : (secDateChange d s).lastPos = s.lastPos := by unfold secDateChange; split <;> rfl
@[simp] theorem secDateChange_outlayAcc (d : Nat) (s : SecData K) : (secDateChange d s).outlayAcc = s.outlayAcc := by unfold secDateChange; split <;> rfl
@[simp] theorem secDateChange_capital (d : Nat) (s : SecData K) : (secDateChange d s).capital = s.capital := by unfold secDateChange; split <;> rfl
@[simp] theorem secDateChange_coupon (d : Nat) (s : SecData K) : (secDateChange d s).coupon = s.coupon := by unfold secDateChange; split <;> rfl
@[simp] theorem secDateChange_holdingCost (d : Nat) (s : SecData K) : (secDateChange d s).holdingCost = s.holdingCost := by unfold secDateChange; split <;> rfl
@[simp] theorem secDateChange_needupdate (d : Nat) (s : SecData K) : (secDateChange d s).needupdate = s.needupdate := by unfold secDateChange; split <;> rfl
@[simp] theorem secDateChange_prices (d : Nat) (s : SecData K) : (secDateChange d s).prices = s.prices := by unfold secDateChange; split <;> rfl
@[simp] theorem secDateChange_bidoffers (d : Nat) (s : SecData K) : (secDateChange d s).bidoffers = s.bidoffers := by unfold secDateChange; split <;> rfl
@[simp] theorem secDateChange_coupons (d : Nat) (s : SecData K) : (secDateChange d s).coupons = s.coupons := by unfold secDateChange; split <;> rfl
@[simp] theorem secDateChange_costLong (d : Nat) (s : SecData K) : (secDateChange d s).costLong = s.costLong := by unfold secDateChange; split <;> rfl
@[simp] theorem secDateChange_costShort (d : Nat) (s : SecData K) : (secDateChange d s).costShort = s.costShort := by unfold secDateChange; split <;> rfl
@[simp] theorem secDateChange_rValue (d : Nat) (s : SecData K) : (secDateChange d s).rValue = s.rValue := by unfold secDateChange; split <;> rfl
@[simp] theorem secDateChange_rPosition (d : Nat) (s : SecData K) : (secDateChange d s).rPosition = s.rPosition := by unfold secDateChange; split <;> rfl
@[simp] theorem secDateChange_rNotl (d : Nat) (s : SecData K) : (secDateChange d s).rNotl = s.rNotl := by unfold secDateChange; split <;> rfl
@[simp] theorem secDateChange_rOutlay (d : Nat) (s : SecData K) : (secDateChange d s).rOutlay = s.rOutlay := by unfold secDateChange; split <;> rfl
@[simp] theorem secDateChange_rBidofferPaid (d : Nat) (s : SecData K) : (secDateChange d s).rBidofferPaid = s.rBidofferPaid := by unfold secDateChange; split <;> rfl
@[simp] theorem secDateChange_rCoupon (d : Nat) (s : SecData K) : (secDateChange d s).rCoupon = s.rCoupon := by unfold secDateChange; split <;> rfl
@[simp] theorem secDateChange_rHolding (d : Nat) (s : SecData K) : (secDateChange d s).rHolding = s.rHolding := by unfold secDateChange; split <;> rfl

@[simp] theorem secRecordPos_name (d : Nat) (s : SecData K) : (secRecordPos d s).name = s.name := rfl
@[simp] theorem secRecordPos_kind (d : Nat) (s : SecData K) : (secRecordPos d s).kind = s.kind := rfl
@[simp] theorem secRecordPos_fixedIncome (d : Nat) (s : SecData K) : (secRecordPos d s).fixedIncome = s.fixedIncome := rfl
@[simp] theorem secRecordPos_integer (d : Nat) (s : SecData K) : (secRecordPos d s).integer = s.integer := rfl
@[simp] theorem secRecordPos_bidofferSet (d : Nat) (s : SecData K) : (secRecordPos d s).bidofferSet = s.bidofferSet := rfl
@[simp] theorem secRecordPos_mult (d : Nat) (s : SecData K) : (secRecordPos d s).mult = s.mult := rfl
@[simp] theorem secRecordPos_now (d : Nat) (s : SecData K) : (secRecordPos d s).now = s.now := rfl
@[simp] theorem secRecordPos_price (d : Nat) (s : SecData K) : (secRecordPos d s).price = s.price := rfl
@[simp] theorem secRecordPos_value (d : Nat) (s : SecData K) : (secRecordPos d s).value = s.value := rfl
@[simp] theorem secRecordPos_notl (d : Nat) (s : SecData K) : (secRecordPos d s).notl = s.notl := rfl
@[simp] theorem secRecordPos_weight (d : Nat) (s : SecData K) : (secRecordPos d s).weight = s.weight := rfl
@[simp] theorem secRecordPos_position (d : Nat) (s : SecData K) : (secRecordPos d s).position = s.position := rfl
@[simp] theorem secRecordPos_outlayAcc (d : Nat) (s : SecData K) : (secRecordPos d s).outlayAcc = s.outlayAcc := rfl
@[simp] theorem secRecordPos_bidoffer (d : Nat) (s : SecData K) : (secRecordPos d s).bidoffer = s.bidoffer := rfl
@[simp] theorem secRecordPos_bidofferPaid (d : Nat) (s : SecData K) : (secRecordPos d s).bidofferPaid = s.bidofferPaid := rfl
@[simp] theorem secRecordPos_capital (d : Nat) (s : SecData K) : (secRecordPos d s).capital = s.capital := rfl
@[simp] theorem secRecordPos_coupon (d : Nat) (s : SecData K) : (secRecordPos d s).coupon = s.coupon := rfl
@[simp] theorem secRecordPos_holdingCost (d : Nat) (s : SecData K) : (secRecordPos d s).holdingCost = s.holdingCost := rfl
@[simp] theorem secRecordPos_needupdate (d : Nat) (s : SecData K) : (secRecordPos d s).needupdate = s.needupdate := rfl
@[simp] theorem secRecordPos_prices (d : Nat) (s : SecData K) : (secRecordPos d s).prices = s.prices := rfl
@[simp] theorem secRecordPos_bidoffers (d : Nat) (s : SecData K) : (secRecordPos d s).bidoffers = s.bidoffers := rfl
@[simp] theorem secRecordPos_coupons (d : Nat) (s : SecData K) : (secRecordPos d s).coupons = s.coupons := rfl
@[simp] theorem secRecordPos_costLong (d : Nat) (s : SecData K) : (secRecordPos d s).costLong = s.costLong := rfl
@[simp] theorem secRecordPos_costShort (d : Nat) (s : SecData K) : (secRecordPos d s).costShort = s.costShort := rfl
@[simp] theorem secRecordPos_rValue (d : Nat) (s : SecData K) : (secRecordPos d s).rValue = s.rValue := rfl
@[simp] theorem secRecordPos_rNotl (d : Nat) (s : SecData K) : (secRecordPos d s).rNotl = s.rNotl := rfl
@[simp] theorem secRecordPos_rOutlay (d : Nat) (s : SecData K) : (secRecordPos d s).rOutlay = s.rOutlay := rfl
@[simp] theorem secRecordPos_rBidofferPaid (d : Nat) (s : SecData K) : (secRecordPos d s).rBidofferPaid = s.rBidofferPaid := rfl
@[simp] theorem secRecordPos_rCoupon (d : Nat) (s : SecData K) : (secRecordPos d s).rCoupon = s.rCoupon := rfl
@[simp] theorem secRecordPos_rHolding (d : Nat) (s : SecData K) : (secRecordPos d s).rHolding = s.rHolding := rfl

@[simp] theorem secSetValue_name (d : Nat) (v : K) (s : SecData K) : (secSetValue d v s).name = s.name := rfl
@[simp] theorem secSetValue_kind (d : Nat) (v : K) (s : SecData K) : (secSetValue d v s).kind = s.kind := rfl
@[simp] theorem secSetValue_fixedIncome (d : Nat) (v : K) (s : SecData K) : (secSetValue d v s).fixedIncome = s.fixedIncome := rfl
@[simp] theorem secSetValue_integer (d : Nat) (v : K) (s : SecData K) : (secSetValue d v s).integer = s.integer := rfl
@[simp] theorem secSetValue_bidofferSet (d : Nat) (v : K) (s : SecData K) : (secSetValue d v s).bidofferSet = s.bidofferSet := rfl
@[simp] theorem secSetValue_mult (d : Nat) (v : K) (s : SecData K) : (secSetValue d v s).mult = s.mult := rfl
@[simp] theorem secSetValue_now (d : Nat) (v : K) (s : SecData K) : (secSetValue d v s).now = s.now := rfl
@[simp] theorem secSetValue_price (d : Nat) (v : K) (s : SecData K) : (secSetValue d v s).price = s.price := rfl
@[simp] theorem secSetValue_weight (d : Nat) (v : K) (s : SecData K) : (secSetValue d v s).weight = s.weight := rfl
@[simp] theorem secSetValue_position (d : Nat) (v : K) (s : SecData K) : (secSetValue d v s).position = s.position := rfl
@[simp] theorem secSetValue_lastPos (d : Nat) (v : K) (s : SecData K) : (secSetValue d v s).lastPos = s.lastPos := rfl
@[simp] theorem secSetValue_outlayAcc (d : Nat) (v : K) (s : SecData K) : (secSetValue d v s).outlayAcc = s.outlayAcc := rfl
@[simp] theorem secSetValue_bidoffer (d : Nat) (v : K) (s : SecData K) : (secSetValue d v s).bidoffer = s.bidoffer := rfl
@[simp] theorem secSetValue_bidofferPaid (d : Nat) (v : K) (s : SecData K) : (secSetValue d v s).bidofferPaid = s.bidofferPaid := rfl
@[simp] theorem secSetValue_capital (d : Nat) (v : K) (s : SecData K) : (secSetValue d v s).capital = s.capital := rfl
@[simp] theorem secSetValue_coupon (d : Nat) (v : K) (s : SecData K) : (secSetValue d v s).coupon = s.coupon := rfl
@[simp] theorem secSetValue_holdingCost (d : Nat) (v : K) (s : SecData K) : (secSetValue d v s).holdingCost = s.holdingCost := rfl
@[simp] theorem secSetValue_needupdate (d : Nat) (v : K) (s : SecData K) : (secSetValue d v s).needupdate = s.needupdate := rfl
@[simp] theorem secSetValue_prices (d : Nat) (v : K) (s : SecData K) : (secSetValue d v s).prices = s.prices := rfl
@[simp] theorem secSetValue_bidoffers (d : Nat) (v : K) (s : SecData K) : (secSetValue d v s).bidoffers = s.bidoffers := rfl
@[simp] theorem secSetValue_coupons (d : Nat) (v : K) (s : SecData K) : (secSetValue d v s).coupons = s.coupons := rfl
@[simp] theorem secSetValue_costLong (d : Nat) (v : K) (s : SecData K) : (secSetValue d v s).costLong = s.costLong := rfl
@[simp] theorem secSetValue_costShort (d : Nat) (v : K) (s : SecData K) : (secSetValue d v s).costShort = s.costShort := rfl
@[simp] theorem secSetValue_rPosition (d : Nat) (v : K) (s : SecData K) : (secSetValue d v s).rPosition = s.rPosition := rfl
@[simp] theorem secSetValue_rOutlay (d : Nat) (v : K) (s : SecData K) : (secSetValue d v s).rOutlay = s.rOutlay := rfl
@[simp] theorem secSetValue_rBidofferPaid (d : Nat) (v : K) (s : SecData K) : (secSetValue d v s).rBidofferPaid = s.rBidofferPaid := rfl
@[simp] theorem secSetValue_rCoupon (d : Nat) (v : K) (s : SecData K) : (secSetValue d v s).rCoupon = s.rCoupon := rfl
@[simp] theorem secSetValue_rHolding (d : Nat) (v : K) (s : SecData K) : (secSetValue d v s).rHolding = s.rHolding := rfl

@[simp] theorem secQuiet_name (cfg : Cfg K) (s : SecData K) : (secQuiet cfg s).name = s.name := by unfold secQuiet; split <;> rfl
@[simp] theorem secQuiet_kind (cfg : Cfg K) (s : SecData K) : (secQuiet cfg s).kind = s.kind := by unfold secQuiet; split <;> rfl
@[simp] theorem secQuiet_fixedIncome (cfg : Cfg K) (s : SecData K) : (secQuiet cfg s).fixedIncome = s.fixedIncome := by unfold secQuiet; split <;> rfl
@[simp] theorem secQuiet_integer (cfg : Cfg K) (s : SecData K) : (secQuiet cfg s).integer = s.integer := by unfold secQuiet; split <;> rfl
@[simp] theorem secQuiet_bidofferSet (cfg : Cfg K) (s : SecData K) : (secQuiet cfg s).bidofferSet = s.bidofferSet := by unfold secQuiet; split <;> rfl
@[simp] theorem secQuiet_mult (cfg : Cfg K) (s : SecData K) : (secQuiet cfg s).mult = s.mult := by unfold secQuiet; split <;> rfl
@[simp] theorem secQuiet_now (cfg : Cfg K) (s : SecData K) : (secQuiet cfg s).now = s.now := by unfold secQuiet; split <;> rfl
@[simp] theorem secQuiet_price (cfg : Cfg K) (s : SecData K) : (secQuiet cfg s).price = s.price := by unfold secQuiet; split <;> rfl
@[simp] theorem secQuiet_value (cfg : Cfg K) (s : SecData K) : (secQuiet cfg s).value = s.value := by unfold secQuiet; split <;> rfl
@[simp] theorem secQuiet_notl (cfg : Cfg K) (s : SecData K) : (secQuiet cfg s).notl = s.notl := by unfold secQuiet; split <;> rfl
@[simp] theorem secQuiet_weight (cfg : Cfg K) (s : SecData K) : (secQuiet cfg s).weight = s.weight := by unfold secQuiet; split <;> rfl
@[simp] theorem secQuiet_position (cfg : Cfg K) (s : SecData K) : (secQuiet cfg s).position = s.position := by unfold secQuiet; split <;> rfl
@[simp] theorem secQuiet_lastPos (cfg : Cfg K) (s : SecData K) : (secQuiet cfg s).lastPos = s.lastPos := by unfold secQuiet; split <;> rfl
@[simp] theorem secQuiet_outlayAcc (cfg : Cfg K) (s : SecData K) : (secQuiet cfg s).outlayAcc = s.outlayAcc := by unfold secQuiet; split <;> rfl
@[simp] theorem secQuiet_bidoffer (cfg : Cfg K) (s : SecData K) : (secQuiet cfg s).bidoffer = s.bidoffer := by unfold secQuiet; split <;> rfl
@[simp] theorem secQuiet_bidofferPaid (cfg : Cfg K) (s : SecData K) : (secQuiet cfg s).bidofferPaid = s.bidofferPaid := by unfold secQuiet; split <;> rfl
@[simp] theorem secQuiet_capital (cfg : Cfg K) (s : SecData K) : (secQuiet cfg s).capital = s.capital := by unfold secQuiet; split <;> rfl
@[simp] theorem secQuiet_coupon (cfg : Cfg K) (s : SecData K) : (secQuiet cfg s).coupon = s.coupon := by unfold secQuiet; split <;> rfl
@[simp] theorem secQuiet_holdingCost (cfg : Cfg K) (s : SecData K) : (secQuiet cfg s).holdingCost = s.holdingCost := by unfold secQuiet; split <;> rfl
@[simp] theorem secQuiet_prices (cfg : Cfg K) (s : SecData K) : (secQuiet cfg s).prices = s.prices := by unfold secQuiet; split <;> rfl
@[simp] theorem secQuiet_bidoffers (cfg : Cfg K) (s : SecData K) : (secQuiet cfg s).bidoffers = s.bidoffers := by unfold secQuiet; split <;> rfl
@[simp] theorem secQuiet_coupons (cfg : Cfg K) (s : SecData K) : (secQuiet cfg s).coupons = s.coupons := by unfold secQuiet; split <;> rfl
@[simp] theorem secQuiet_costLong (cfg : Cfg K) (s : SecData K) : (secQuiet cfg s).costLong = s.costLong := by unfold secQuiet; split <;> rfl
@[simp] theorem secQuiet_costShort (cfg : Cfg K) (s : SecData K) : (secQuiet cfg s).costShort = s.costShort := by unfold secQuiet; split <;> rfl
@[simp] theorem secQuiet_rValue (cfg : Cfg K) (s : SecData K) : (secQuiet cfg s).rValue = s.rValue := by unfold secQuiet; split <;> rfl
@[simp] theorem secQuiet_rPosition (cfg : Cfg K) (s : SecData K) : (secQuiet cfg s).rPosition = s.rPosition := by unfold secQuiet; split <;> rfl
@[simp] theorem secQuiet_rNotl (cfg : Cfg K) (s : SecData K) : (secQuiet cfg s).rNotl = s.rNotl := by unfold secQuiet; split <;> rfl
@[simp] theorem secQuiet_rOutlay (cfg : Cfg K) (s : SecData K) : (secQuiet cfg s).rOutlay = s.rOutlay := by unfold secQuiet; split <;> rfl
@[simp] theorem secQuiet_rBidofferPaid (cfg : Cfg K) (s : SecData K) : (secQuiet cfg s).rBidofferPaid = s.rBidofferPaid := by unfold secQuiet; split <;> rfl
@[simp] theorem secQuiet_rCoupon (cfg : Cfg K) (s : SecData K) : (secQuiet cfg s).rCoupon = s.rCoupon := by unfold secQuiet; split <;> rfl
@[simp] theorem secQuiet_rHolding (cfg : Cfg K) (s : SecData K) : (secQuiet cfg s).rHolding = s.rHolding := by unfold secQuiet; split <;> rfl

@[simp] theorem secFlushOutlay_name (d : Nat) (s : SecData K) : (secFlushOutlay d s).name = s.name := by unfold secFlushOutlay; split <;> rfl
@[simp] theorem secFlushOutlay_kind (d : Nat) (s : SecData K) : (secFlushOutlay d s).kind = s.kind := by unfold secFlushOutlay; split <;> rfl
@[simp] theorem secFlushOutlay_fixedIncome (d : Nat) (s : SecData K) : (secFlushOutlay d s).fixedIncome = s.fixedIncome := by unfold secFlushOutlay; split <;> rfl
@[simp] theorem secFlushOutlay_integer (d : Nat) (s : SecData K) : (secFlushOutlay d s).integer = s.integer := by unfold secFlushOutlay; split <;> rfl
@[simp] theorem secFlushOutlay_bidofferSet (d : Nat) (s : SecData K) : (secFlushOutlay d s).bidofferSet = s.bidofferSet := by unfold secFlushOutlay; split <;> rfl
@[simp] theorem secFlushOutlay_mult (d : Nat) (s : SecData K) : (secFlushOutlay d s).mult = s.mult := by unfold secFlushOutlay; split <;> rfl
@[simp] theorem secFlushOutlay_now (d : Nat) (s : SecData K) : (secFlushOutlay d s).now = s.now := by unfold secFlushOutlay; split <;> rfl
@[simp] theorem secFlushOutlay_price (d : Nat) (s : SecData K) : (secFlushOutlay d s).price = s.price := by unfold secFlushOutlay; split <;> rfl
@[simp] theorem secFlushOutlay_value (d : Nat) (s : SecData K) : (secFlushOutlay d s).value = s.value := by unfold secFlushOutlay; split <;> rfl
@[simp] theorem secFlushOutlay_notl (d : Nat) (s : SecData K) : (secFlushOutlay d s).notl = s.notl := by unfold secFlushOutlay; split <;> rfl
@[simp] theorem secFlushOutlay_weight (d : Nat) (s : SecData K) : (secFlushOutlay d s).weight = s.weight := by unfold secFlushOutlay; split <;> rfl
@[simp] theorem secFlushOutlay_position (d : Nat) (s : SecData K) : (secFlushOutlay d s).position = s.position := by unfold secFlushOutlay; split <;> rfl
@[simp] theorem secFlushOutlay_lastPos (d : Nat) (s : SecData K) : (secFlushOutlay d s).lastPos = s.lastPos := by unfold secFlushOutlay; split <;> rfl
@[simp] theorem secFlushOutlay_bidoffer (d : Nat) (s : SecData K) : (secFlushOutlay d s).bidoffer = s.bidoffer := by unfold secFlushOutlay; split <;> rfl
@[simp] theorem secFlushOutlay_bidofferPaid (d : Nat) (s : SecData K) : (secFlushOutlay d s).bidofferPaid = s.bidofferPaid := by unfold secFlushOutlay; split <;> rfl
@[simp] theorem secFlushOutlay_capital (d : Nat) (s : SecData K) : (secFlushOutlay d s).capital = s.capital := by unfold secFlushOutlay; split <;> rfl
@[simp] theorem secFlushOutlay_coupon (d : Nat) (s : SecData K) : (secFlushOutlay d s).coupon = s.coupon := by unfold secFlushOutlay; split <;> rfl
@[simp] theorem secFlushOutlay_holdingCost (d : Nat) (s : SecData K) : (secFlushOutlay d s).holdingCost = s.holdingCost := by unfold secFlushOutlay; split <;> rfl
@[simp] theorem secFlushOutlay_needupdate (d : Nat) (s : SecData K) : (secFlushOutlay d s).needupdate = s.needupdate := by unfold secFlushOutlay; split <;> rfl
@[simp] theorem secFlushOutlay_prices (d : Nat) (s : SecData K) : (secFlushOutlay d s).prices = s.prices := by unfold secFlushOutlay; split <;> rfl
@[simp] theorem secFlushOutlay_bidoffers (d : Nat) (s : SecData K) : (secFlushOutlay d s).bidoffers = s.bidoffers := by unfold secFlushOutlay; split <;> rfl
@[simp] theorem secFlushOutlay_coupons (d : Nat) (s : SecData K) : (secFlushOutlay d s).coupons = s.coupons := by unfold secFlushOutlay; split <;> rfl
@[simp] theorem secFlushOutlay_costLong (d : Nat) (s : SecData K) : (secFlushOutlay d s).costLong = s.costLong := by unfold secFlushOutlay; split <;> rfl
@[simp] theorem secFlushOutlay_costShort (d : Nat) (s : SecData K) : (secFlushOutlay d s).costShort = s.costShort := by unfold secFlushOutlay; split <;> rfl
@[simp] theorem secFlushOutlay_rValue (d : Nat) (s : SecData K) : (secFlushOutlay d s).rValue = s.rValue := by unfold secFlushOutlay; split <;> rfl
@[simp] theorem secFlushOutlay_rPosition (d : Nat) (s : SecData K) : (secFlushOutlay d s).rPosition = s.rPosition := by unfold secFlushOutlay; split <;> rfl
@[simp] theorem secFlushOutlay_rNotl (d : Nat) (s : SecData K) : (secFlushOutlay d s).rNotl = s.rNotl := by unfold secFlushOutlay; split <;> rfl
@[simp] theorem secFlushOutlay_rBidofferPaid (d : Nat) (s : SecData K) : (secFlushOutlay d s).rBidofferPaid = s.rBidofferPaid := by unfold secFlushOutlay; split <;> rfl
@[simp] theorem secFlushOutlay_rCoupon (d : Nat) (s : SecData K) : (secFlushOutlay d s).rCoupon = s.rCoupon := by unfold secFlushOutlay; split <;> rfl
@[simp] theorem secFlushOutlay_rHolding (d : Nat) (s : SecData K) : (secFlushOutlay d s).rHolding = s.rHolding := by unfold secFlushOutlay; split <;> rfl

@[simp] theorem secRowBidoffer_name (d : Nat) (s : SecData K) : (secRowBidoffer d s).name = s.name := by unfold secRowBidoffer; split <;> rfl
@[simp] theorem secRowBidoffer_kind (d : Nat) (s : SecData K) : (secRowBidoffer d s).kind = s.kind := by unfold secRowBidoffer; split <;> rfl
@[simp] theorem secRowBidoffer_fixedIncome (d : Nat) (s : SecData K) : (secRowBidoffer d s).fixedIncome = s.fixedIncome := by unfold secRowBidoffer; split <;> rfl
@[simp] theorem secRowBidoffer_integer (d : Nat) (s : SecData K) : (secRowBidoffer d s).integer = s.integer := by unfold secRowBidoffer; split <;> rfl
@[simp] theorem secRowBidoffer_bidofferSet (d : Nat) (s : SecData K) : (secRowBidoffer d s).bidofferSet = s.bidofferSet := by unfold secRowBidoffer; split <;> rfl
@[simp] theorem secRowBidoffer_mult (d : Nat) (s : SecData K) : (secRowBidoffer d s).mult = s.mult := by unfold secRowBidoffer; split <;> rfl
@[simp] theorem secRowBidoffer_now (d : Nat) (s : SecData K) : (secRowBidoffer d s).now = s.now := by unfold secRowBidoffer; split <;> rfl
@[simp] theorem secRowBidoffer_price (d : Nat) (s : SecData K) : (secRowBidoffer d s).price = s.price := by unfold secRowBidoffer; split <;> rfl
@[simp] theorem secRowBidoffer_value (d : Nat) (s : SecData K) : (secRowBidoffer d s).value = s.value := by unfold secRowBidoffer; split <;> rfl
@[simp] theorem secRowBidoffer_notl (d : Nat) (s : SecData K) : (secRowBidoffer d s).notl = s.notl := by unfold secRowBidoffer; split <;> rfl
@[simp] theorem secRowBidoffer_weight (d : Nat) (s : SecData K) : (secRowBidoffer d s).weight = s.weight := by unfold secRowBidoffer; split <;> rfl
@[simp] theorem secRowBidoffer_position (d : Nat) (s : SecData K) : (secRowBidoffer d s).position = s.position := by unfold secRowBidoffer; split <;> rfl
@[simp] theorem secRowBidoffer_lastPos (d : Nat) (s : SecData K) : (secRowBidoffer d s).lastPos = s.lastPos := by unfold secRowBidoffer; split <;> rfl
@[simp] theorem secRowBidoffer_outlayAcc (d : Nat) (s : SecData K) : (secRowBidoffer d s).outlayAcc = s.outlayAcc := by unfold secRowBidoffer; split <;> rfl
@[simp] theorem secRowBidoffer_bidoffer (d : Nat) (s : SecData K) : (secRowBidoffer d s).bidoffer = s.bidoffer := by unfold secRowBidoffer; split <;> rfl
@[simp] theorem secRowBidoffer_bidofferPaid (d : Nat) (s : SecData K) : (secRowBidoffer d s).bidofferPaid = s.bidofferPaid := by unfold secRowBidoffer; split <;> rfl
@[simp] theorem secRowBidoffer_capital (d : Nat) (s : SecData K) : (secRowBidoffer d s).capital = s.capital := by unfold secRowBidoffer; split <;> rfl
@[simp] theorem secRowBidoffer_coupon (d : Nat) (s : SecData K) : (secRowBidoffer d s).coupon = s.coupon := by unfold secRowBidoffer; split <;> rfl
@[simp] theorem secRowBidoffer_holdingCost (d : Nat) (s : SecData K) : (secRowBidoffer d s).holdingCost = s.holdingCost := by unfold secRowBidoffer; split <;> rfl
@[simp] theorem secRowBidoffer_needupdate (d : Nat) (s : SecData K) : (secRowBidoffer d s).needupdate = s.needupdate := by unfold secRowBidoffer; split <;> rfl
@[simp] theorem secRowBidoffer_prices (d : Nat) (s : SecData K) : (secRowBidoffer d s).prices = s.prices := by unfold secRowBidoffer; split <;> rfl
@[simp] theorem secRowBidoffer_bidoffers (d : Nat) (s : SecData K) : (secRowBidoffer d s).bidoffers = s.bidoffers := by unfold secRowBidoffer; split <;> rfl
@[simp] theorem secRowBidoffer_coupons (d : Nat) (s : SecData K) : (secRowBidoffer d s).coupons = s.coupons := by unfold secRowBidoffer; split <;> rfl
@[simp] theorem secRowBidoffer_costLong (d : Nat) (s : SecData K) : (secRowBidoffer d s).costLong = s.costLong := by unfold secRowBidoffer; split <;> rfl
@[simp] theorem secRowBidoffer_costShort (d : Nat) (s : SecData K) : (secRowBidoffer d s).costShort = s.costShort := by unfold secRowBidoffer; split <;> rfl
@[simp] theorem secRowBidoffer_rValue (d : Nat) (s : SecData K) : (secRowBidoffer d s).rValue = s.rValue := by unfold secRowBidoffer; split <;> rfl
@[simp] theorem secRowBidoffer_rPosition (d : Nat) (s : SecData K) : (secRowBidoffer d s).rPosition = s.rPosition := by unfold secRowBidoffer; split <;> rfl
@[simp] theorem secRowBidoffer_rNotl (d : Nat) (s : SecData K) : (secRowBidoffer d s).rNotl = s.rNotl := by unfold secRowBidoffer; split <;> rfl
@[simp] theorem secRowBidoffer_rOutlay (d : Nat) (s : SecData K) : (secRowBidoffer d s).rOutlay = s.rOutlay := by unfold secRowBidoffer; split <;> rfl
@[simp] theorem secRowBidoffer_rCoupon (d : Nat) (s : SecData K) : (secRowBidoffer d s).rCoupon = s.rCoupon := by unfold secRowBidoffer; split <;> rfl
@[simp] theorem secRowBidoffer_rHolding (d : Nat) (s : SecData K) : (secRowBidoffer d s).rHolding = s.rHolding := by unfold secRowBidoffer; split <;> rfl

@[simp] theorem secFiTail_name (d : Nat) (s : SecData K) : (secFiTail d s).name = s.name := rfl
@[simp] theorem secFiTail_kind (d : Nat) (s : SecData K) : (secFiTail d s).kind = s.kind := rfl
@[simp] theorem secFiTail_fixedIncome (d : Nat) (s : SecData K) : (secFiTail d s).fixedIncome = s.fixedIncome := rfl
@[simp] theorem secFiTail_integer (d : Nat) (s : SecData K) : (secFiTail d s).integer = s.integer := rfl
@[simp] theorem secFiTail_bidofferSet (d : Nat) (s : SecData K) : (secFiTail d s).bidofferSet = s.bidofferSet := rfl
@[simp] theorem secFiTail_mult (d : Nat) (s : SecData K) : (secFiTail d s).mult = s.mult := rfl
@[simp] theorem secFiTail_now (d : Nat) (s : SecData K) : (secFiTail d s).now = s.now := rfl
@[simp] theorem secFiTail_price (d : Nat) (s : SecData K) : (secFiTail d s).price = s.price := rfl
@[simp] theorem secFiTail_value (d : Nat) (s : SecData K) : (secFiTail d s).value = s.value := rfl
@[simp] theorem secFiTail_weight (d : Nat) (s : SecData K) : (secFiTail d s).weight = s.weight := rfl
@[simp] theorem secFiTail_position (d : Nat) (s : SecData K) : (secFiTail d s).position = s.position := rfl
@[simp] theorem secFiTail_lastPos (d : Nat) (s : SecData K) : (secFiTail d s).lastPos = s.lastPos := rfl
@[simp] theorem secFiTail_outlayAcc (d : Nat) (s : SecData K) : (secFiTail d s).outlayAcc = s.outlayAcc := rfl
@[simp] theorem secFiTail_bidoffer (d : Nat) (s : SecData K) : (secFiTail d s).bidoffer = s.bidoffer := rfl
@[simp] theorem secFiTail_bidofferPaid (d : Nat) (s : SecData K) : (secFiTail d s).bidofferPaid = s.bidofferPaid := rfl
@[simp] theorem secFiTail_capital (d : Nat) (s : SecData K) : (secFiTail d s).capital = s.capital := rfl
@[simp] theorem secFiTail_coupon (d : Nat) (s : SecData K) : (secFiTail d s).coupon = s.coupon := rfl
@[simp] theorem secFiTail_holdingCost (d : Nat) (s : SecData K) : (secFiTail d s).holdingCost = s.holdingCost := rfl
@[simp] theorem secFiTail_needupdate (d : Nat) (s : SecData K) : (secFiTail d s).needupdate = s.needupdate := rfl
@[simp] theorem secFiTail_prices (d : Nat) (s : SecData K) : (secFiTail d s).prices = s.prices := rfl
@[simp] theorem secFiTail_bidoffers (d : Nat) (s : SecData K) : (secFiTail d s).bidoffers = s.bidoffers := rfl
@[simp] theorem secFiTail_coupons (d : Nat) (s : SecData K) : (secFiTail d s).coupons = s.coupons := rfl
@[simp] theorem secFiTail_costLong (d : Nat) (s : SecData K) : (secFiTail d s).costLong = s.costLong := rfl
@[simp] theorem secFiTail_costShort (d : Nat) (s : SecData K) : (secFiTail d s).costShort = s.costShort := rfl
@[simp] theorem secFiTail_rValue (d : Nat) (s : SecData K) : (secFiTail d s).rValue = s.rValue := rfl
@[simp] theorem secFiTail_rPosition (d : Nat) (s : SecData K) : (secFiTail d s).rPosition = s.rPosition := rfl
@[simp] theorem secFiTail_rOutlay (d : Nat) (s : SecData K) : (secFiTail d s).rOutlay = s.rOutlay := rfl
@[simp] theorem secFiTail_rBidofferPaid (d : Nat) (s : SecData K) : (secFiTail d s).rBidofferPaid = s.rBidofferPaid := rfl
@[simp] theorem secFiTail_rCoupon (d : Nat) (s : SecData K) : (secFiTail d s).rCoupon = s.rCoupon := rfl
@[simp] theorem secFiTail_rHolding (d : Nat) (s : SecData K) : (secFiTail d s).rHolding = s.rHolding := rfl

@[simp] theorem secHedgeTail_name (s : SecData K) : (secHedgeTail s).name = s.name := rfl
@[simp] theorem secHedgeTail_kind (s : SecData K) : (secHedgeTail s).kind = s.kind := rfl
@[simp] theorem secHedgeTail_fixedIncome (s : SecData K) : (secHedgeTail s).fixedIncome = s.fixedIncome := rfl
@[simp] theorem secHedgeTail_integer (s : SecData K) : (secHedgeTail s).integer = s.integer := rfl
@[simp] theorem secHedgeTail_bidofferSet (s : SecData K) : (secHedgeTail s).bidofferSet = s.bidofferSet := rfl
@[simp] theorem secHedgeTail_mult (s : SecData K) : (secHedgeTail s).mult = s.mult := rfl
@[simp] theorem secHedgeTail_now (s : SecData K) : (secHedgeTail s).now = s.now := rfl
@[simp] theorem secHedgeTail_price (s : SecData K) : (secHedgeTail s).price = s.price := rfl
@[simp] theorem secHedgeTail_value (s : SecData K) : (secHedgeTail s).value = s.value := rfl
@[simp] theorem secHedgeTail_weight (s : SecData K) : (secHedgeTail s).weight = s.weight := rfl
@[simp] theorem secHedgeTail_position (s : SecData K) : (secHedgeTail s).position = s.position := rfl
@[simp] theorem secHedgeTail_lastPos (s : SecData K) : (secHedgeTail s).lastPos = s.lastPos := rfl
@[simp] theorem secHedgeTail_outlayAcc (s : SecData K) : (secHedgeTail s).outlayAcc = s.outlayAcc := rfl
@[simp] theorem secHedgeTail_bidoffer (s : SecData K) : (secHedgeTail s).bidoffer = s.bidoffer := rfl
@[simp] theorem secHedgeTail_bidofferPaid (s : SecData K) : (secHedgeTail s).bidofferPaid = s.bidofferPaid := rfl
@[simp] theorem secHedgeTail_capital (s : SecData K) : (secHedgeTail s).capital = s.capital := rfl
@[simp] theorem secHedgeTail_coupon (s : SecData K) : (secHedgeTail s).coupon = s.coupon := rfl
@[simp] theorem secHedgeTail_holdingCost (s : SecData K) : (secHedgeTail s).holdingCost = s.holdingCost := rfl
@[simp] theorem secHedgeTail_needupdate (s : SecData K) : (secHedgeTail s).needupdate = s.needupdate := rfl
@[simp] theorem secHedgeTail_prices (s : SecData K) : (secHedgeTail s).prices = s.prices := rfl
@[simp] theorem secHedgeTail_bidoffers (s : SecData K) : (secHedgeTail s).bidoffers = s.bidoffers := rfl
@[simp] theorem secHedgeTail_coupons (s : SecData K) : (secHedgeTail s).coupons = s.coupons := rfl
@[simp] theorem secHedgeTail_costLong (s : SecData K) : (secHedgeTail s).costLong = s.costLong := rfl
@[simp] theorem secHedgeTail_costShort (s : SecData K) : (secHedgeTail s).costShort = s.costShort := rfl
@[simp] theorem secHedgeTail_rValue (s : SecData K) : (secHedgeTail s).rValue = s.rValue := rfl
@[simp] theorem secHedgeTail_rPosition (s : SecData K) : (secHedgeTail s).rPosition = s.rPosition := rfl
@[simp] theorem secHedgeTail_rOutlay (s : SecData K) : (secHedgeTail s).rOutlay = s.rOutlay := rfl
@[simp] theorem secHedgeTail_rBidofferPaid (s : SecData K) : (secHedgeTail s).rBidofferPaid = s.rBidofferPaid := rfl
@[simp] theorem secHedgeTail_rCoupon (s : SecData K) : (secHedgeTail s).rCoupon = s.rCoupon := rfl
@[simp] theorem secHedgeTail_rHolding (s : SecData K) : (secHedgeTail s).rHolding = s.rHolding := rfl

/-! changed fields -/
@[simp] theorem secRecordPos_rPosition (d : Nat) (s : SecData K) :
    (secRecordPos d s).rPosition = s.rPosition.set d s.position := rfl
@[simp] theorem secRecordPos_lastPos (d : Nat) (s : SecData K) : (secRecordPos d s).lastPos = s.position := rfl
@[simp] theorem secSetValue_value (d : Nat) (v : K) (s : SecData K) : (secSetValue d v s).value = v := rfl
@[simp] theorem secSetValue_notl (d : Nat) (v : K) (s : SecData K) : (secSetValue d v s).notl = v := rfl
@[simp] theorem secSetValue_rValue (d : Nat) (v : K) (s : SecData K) :
    (secSetValue d v s).rValue = s.rValue.set d v := rfl
@[simp] theorem secSetValue_rNotl (d : Nat) (v : K) (s : SecData K) :
    (secSetValue d v s).rNotl = s.rNotl.set d v := rfl
@[simp] theorem secFiTail_notl (d : Nat) (s : SecData K) : (secFiTail d s).notl = s.position := rfl
@[simp] theorem secFiTail_rNotl (d : Nat) (s : SecData K) :
    (secFiTail d s).rNotl = s.rNotl.set d s.position := rfl
@[simp] theorem secHedgeTail_notl (s : SecData K) : (secHedgeTail s).notl = 0 := rfl
@[simp] theorem secHedgeTail_rNotl (s : SecData K) : (secHedgeTail s).rNotl = s.rNotl.map fun _ => 0 := rfl

theorem secQuiet_needupdate (cfg : Cfg K) (s : SecData K) :
    (secQuiet cfg s).needupdate =
      (if (isZero cfg.tol s.weight && isZero cfg.tol s.position) = true then false else s.needupdate) := by
  unfold secQuiet; split <;> rfl

theorem secDateChange_now_of_ne (d : Nat) (s : SecData K) (h : s.now ≠ some d) :
    (secDateChange d s).now = some d := by
  unfold secDateChange; simp [h]

@[simp] theorem secDateChange_now (d : Nat) (s : SecData K) : (secDateChange d s).now = some d := by
  unfold secDateChange
  split
  · rfl
  · rename_i h; simpa using h

theorem secEarly_false_iff (d : Nat) (s : SecData K) :
    secEarly d s = false ↔ (s.now ≠ some d ∨ s.lastPos ≠ s.position) := by
  unfold secEarly
  rw [Bool.and_eq_false_iff, eqA_false_iff]
  simp

theorem secEarly_true_iff (d : Nat) (s : SecData K) :
    secEarly d s = true ↔ (s.now = some d ∧ s.lastPos = s.position) := by
  unfold secEarly
  rw [Bool.and_eq_true, eqA_iff]
  simp

/-! inversions -/
theorem secBaseUpdate_early {cfg : Cfg K} {d : Nat} {s : SecData K} (h : secEarly d s = true) :
    secBaseUpdate cfg d s = .ok s := by
  unfold secBaseUpdate; simp [h]; rfl

theorem secBaseUpdate_inv {cfg : Cfg K} {d : Nat} {s s1 : SecData K} (h : secEarly d s = false)
    (h2 : secBaseUpdate cfg d s = .ok s1) :
    ∃ v, secMarkValue cfg (secRecordPos d (secDateChange d s)) = .ok v ∧
      s1 = secRowBidoffer d (secFlushOutlay d (secQuiet cfg (secSetValue d v (secRecordPos d (secDateChange d s))))) := by
  unfold secBaseUpdate at h2
  simp only [h, Bool.false_eq_true, ↓reduceIte] at h2
  obtain ⟨v, hv, rfl⟩ := Except.map_eq_ok h2
  exact ⟨v, hv, rfl⟩

theorem secCouponTail_inv {cfg : Cfg K} {d : Nat} {s s' : SecData K} (h : secCouponTail cfg d s = .ok s') :
    ∃ cpn hc, s' = { s with coupon := cpn, holdingCost := hc, capital := cpn - hc,
                            rCoupon := s.rCoupon.set d cpn, rHolding := s.rHolding.set d hc } := by
  unfold secCouponTail at h
  obtain ⟨cpn, _, h⟩ := Except.bind_eq_ok h
  obtain ⟨hc, _, h⟩ := Except.bind_eq_ok h
  exact ⟨cpn, hc, (Except.pure_eq_ok h).symm⟩

/-- the five class-specific shapes of `update` -/
theorem secUpdate_inv {cfg : Cfg K} {d : Nat} {s s' : SecData K} (h : secUpdate cfg d s = .ok s') :
    ∃ s1, secBaseUpdate cfg d s = .ok s1 ∧
      ((s.kind = .plain ∧ s' = s1) ∨ (s.kind = .fi ∧ s' = secFiTail d s1) ∨
       (s.kind = .hedge ∧ s' = secHedgeTail s1) ∨
       (s.kind = .coupon ∧ secCouponTail cfg d (secFiTail d s1) = .ok s') ∨
       (s.kind = .couponHedge ∧ ∃ s2, secCouponTail cfg d (secFiTail d s1) = .ok s2 ∧ s' = secHedgeTail s2)) := by
  unfold secUpdate at h
  obtain ⟨s1, h1, h⟩ := Except.bind_eq_ok h
  refine ⟨s1, h1, ?_⟩
  cases hk : s.kind <;> simp only [hk] at h
  · exact Or.inl ⟨rfl, (Except.pure_eq_ok h).symm⟩
  · exact Or.inr (Or.inl ⟨rfl, (Except.pure_eq_ok h).symm⟩)
  · exact Or.inr (Or.inr (Or.inr (Or.inl ⟨rfl, h⟩)))
  · exact Or.inr (Or.inr (Or.inl ⟨rfl, (Except.pure_eq_ok h).symm⟩))
  · obtain ⟨s2, h2, rfl⟩ := Except.map_eq_ok h
    exact Or.inr (Or.inr (Or.inr (Or.inr ⟨rfl, s2, h2, rfl⟩)))

end Bt
