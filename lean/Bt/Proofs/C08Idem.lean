import Bt.Proofs.C08Strat
/-! C08: the second `update` of the same date returns the tree unchanged (mutual induction). -/
set_option linter.unusedSectionVars false
namespace Bt.P08
open Bt

variable {K : Type} [Field K] [LinearOrder K] [IsStrictOrderedRing K] [HasFloor K]

/-- Second pass over children `ks'` that have already been updated for `d`, after the parent has
    (re)assigned weights: nothing changes and the accumulators grow by `dv`, `dn`. -/
def Pass2 (cfg : Cfg K) (d : Nat) (ks' : List (Node K)) (dv dn : K) : Prop :=
  ∀ (fi : Bool) (v n : K) (bo2 : Bool) (acc2 : Acc K), ∃ a2,
    updKids cfg d false bo2 (kidsWeights cfg fi v n ks') acc2 = .ok (kidsWeights cfg fi v n ks', a2) ∧
    a2.val = acc2.val + dv ∧ a2.notl = acc2.notl + dn ∧ a2.coupons = acc2.coupons

theorem pass2_nil (cfg : Cfg K) (d : Nat) : Pass2 cfg d [] 0 0 := by
  intro fi v n bo2 acc2
  refine ⟨acc2, ?_, by simp, by simp, rfl⟩
  show updKids cfg d false bo2 [] acc2 = _
  rw [updKids.eq_1]; rfl

theorem updKids_sec_skip {cfg : Cfg K} {d : Nat} {bo : Bool} {s : SecData K} {ks : List (Node K)}
    {acc : Acc K} (hn : s.needupdate = false) :
    updKids cfg d false bo (.sec s :: ks) acc =
      (updKids cfg d false bo ks acc).map fun r => (.sec s :: r.1, r.2) := by
  rw [updKids_sec]
  simp only [sweepSec, Bool.false_eq_true, ↓reduceIte, hn, Bool.not_false]

theorem updKids_sec_live {cfg : Cfg K} {d : Nat} {bo : Bool} {s : SecData K} {ks : List (Node K)}
    {acc : Acc K} (hn : s.needupdate = true) (hfix : secUpdate cfg d s = .ok s) :
    updKids cfg d false bo (.sec s :: ks) acc =
      (updKids cfg d false bo ks (accAdd bo acc (.sec s))).map fun r => (.sec s :: r.1, r.2) := by
  rw [updKids_sec]
  simp only [sweepSec, Bool.false_eq_true, ↓reduceIte, hn, Bool.not_true]
  rw [hfix, bind_ok]

theorem pass2_cons_skipped {cfg : Cfg K} {d : Nat} {s0 : SecData K} {ks' : List (Node K)} {dv dn : K}
    (hn : s0.needupdate = false) (hrest : Pass2 cfg d ks' dv dn) :
    Pass2 cfg d (.sec s0 :: ks') dv dn := by
  intro fi v n bo2 acc2
  obtain ⟨a2, h, h1, h2, h3⟩ := hrest fi v n bo2 acc2
  refine ⟨a2, ?_, h1, h2, h3⟩
  rw [kidsWeights_cons]
  simp only [Node.skipped, hn, Bool.not_false, ↓reduceIte]
  rw [updKids_sec_skip hn, h]; rfl

theorem pass2_cons_live {cfg : Cfg K} {d : Nat} {s1 : SecData K} {ks' : List (Node K)}
    {dv dn dv' dn' : K}
    (hfix : secUpdate cfg d s1 = .ok s1) (hn : s1.needupdate = true) (hrest : Pass2 cfg d ks' dv dn)
    (hv : dv' = s1.value + dv) (hn' : dn' = absA s1.notl + dn) :
    Pass2 cfg d (.sec s1 :: ks') dv' dn' := by
  intro fi v n bo2 acc2
  obtain ⟨a2, h, h1, h2, h3⟩ := hrest fi v n bo2
    (accAdd bo2 acc2 (.sec { s1 with weight := childWeight cfg fi v n (.sec s1) }))
  refine ⟨a2, ?_, ?_, ?_, ?_⟩
  · rw [kidsWeights_cons]
    simp only [Node.skipped, hn, Bool.not_true, Bool.false_eq_true, ↓reduceIte]
    show updKids cfg d false bo2
      (.sec { s1 with weight := childWeight cfg fi v n (.sec s1) } :: kidsWeights cfg fi v n ks') acc2 = _
    rw [updKids_sec_live (by exact hn) (secUpdate_fixed_weight hfix _), h]; rfl
  · rw [h1, hv]; simp only [accAdd, Node.value]; ring
  · rw [h2, hn']; simp only [accAdd, Node.notl]; ring
  · rw [h3]; rfl

theorem pass2_cons_strat {cfg : Cfg K} {d : Nat} {sd' : StratData K} {kk' ks' : List (Node K)}
    {dv dn dv' dn' : K}
    (hfix : updNode cfg d (.strat sd' kk') = .ok (.strat sd' kk')) (hrest : Pass2 cfg d ks' dv dn)
    (hv : dv' = sd'.value + dv) (hn' : dn' = absA sd'.notl + dn) :
    Pass2 cfg d (.strat sd' kk' :: ks') dv' dn' := by
  intro fi v n bo2 acc2
  obtain ⟨a2, h, h1, h2, h3⟩ := hrest fi v n bo2
    (accAdd bo2 acc2 (.strat { sd' with weight := childWeight cfg fi v n (.strat sd' kk') } kk'))
  refine ⟨a2, ?_, ?_, ?_, ?_⟩
  · rw [kidsWeights_cons]
    simp only [Node.skipped, Bool.false_eq_true, ↓reduceIte, Node.setWeight]
    rw [updKids_strat]
    have := updNode_fixed_setWeight hfix (childWeight cfg fi v n (.strat sd' kk'))
    simp only [Node.setWeight] at this
    rw [this, bind_ok, h]; rfl
  · rw [h1, hv]; simp only [accAdd, Node.value]; ring
  · rw [h2, hn']; simp only [accAdd, Node.notl]; ring
  · rw [h3]; rfl

/-- `{sd with capital := sd.capital + 0}` is `sd` -/
theorem capital_add_zero (sd : StratData K) : { sd with capital := sd.capital + 0 } = sd := by
  cases sd; simp

theorem stratChanged_rows (cfg : Cfg K) (d : Nat) (np : Bool) (sd : StratData K) (v n : K) :
    stratChanged cfg np (stratRows d sd) v n = stratChanged cfg np sd v n := by
  simp [stratChanged]

/-- The state `stratFinish` leaves behind is a fixed point of a same-date pass. -/
theorem stratFinish_pass2 {cfg : Cfg K} (htol : 0 < cfg.tol) {d : Nat} {newpt : Bool}
    {sd1 : StratData K} {kids1 : List (Node K)} {acc : Acc K} {n' : Node K}
    (hnow : sd1.now = some d)
    (hQ : Pass2 cfg d kids1 (acc.val - sd1.capital) acc.notl)
    (hf : stratFinish cfg d newpt sd1 (kids1, acc) = .ok n') :
    ∃ sdR kidsW, n' = .strat sdR kidsW ∧ sdR.now = some d ∧ sdR.bankrupt = sd1.bankrupt ∧
      sdR.fixedIncome = sd1.fixedIncome ∧
      ∃ a2, updKids cfg d false sdR.bidofferSet kidsW ⟨sdR.capital, 0, 0, 0⟩ = .ok (kidsW, a2) ∧
        a2.val + a2.coupons = acc.val + acc.coupons ∧
        stratFinish cfg d false sdR (kidsW, a2) = .ok (.strat sdR kidsW) := by
  unfold stratFinish at hf
  obtain ⟨sd3, hw, rfl⟩ := map_eq_ok hf
  simp only at hw
  obtain ⟨h3now, h3cap, h3bo, h3fi, h3bk⟩ := stratWrite_proj hw
  simp only at h3now h3cap h3bo h3fi h3bk
  refine ⟨stratRows d sd3, _, rfl, by simp [h3now, hnow], by simp [h3bk], by simp [h3fi], ?_⟩
  obtain ⟨a2, hk2, hv, hn, hc⟩ := hQ sd3.fixedIncome (acc.val + acc.coupons) acc.notl
    (stratRows d sd3).bidofferSet ⟨(stratRows d sd3).capital, 0, 0, 0⟩
  simp only [stratRows_capital, h3cap, zero_add] at hv hn hc
  have hc0 : a2.coupons = 0 := hc
  have hval : a2.val + a2.coupons = acc.val + acc.coupons := by rw [hc0, hv]; ring
  refine ⟨a2, hk2, hval, ?_⟩
  unfold stratFinish
  simp only
  rw [hval, hn, hc0, capital_add_zero]
  have hs := stratWrite_settled htol hw
  rw [← stratChanged_rows cfg d] at hs
  rw [stratWrite_noop _ hs, map_ok, stratRows_idem, stratRows_fixedIncome, kidsWeights_idem]

mutual
/-- second `updNode` of the same date is the identity on the result of the first -/
theorem updNode_idem_aux (cfg : Cfg K) (htol : 0 < cfg.tol) (d : Nat) :
    (n : Node K) → NoDust cfg n → ∀ n', updNode cfg d n = .ok n' → updNode cfg d n' = .ok n'
  | .sec s, _, n', h => by
    rw [updNode.eq_1] at h
    obtain ⟨s', hs, rfl⟩ := map_eq_ok h
    rw [updNode.eq_1, secUpdate_idem hs]; rfl
  | .strat sd kids, hnd, n', h => by
    rw [updNode_strat] at h
    obtain ⟨⟨kids1, acc⟩, hk, hf⟩ := bind_eq_ok h
    have hQ := updKids_pass2 cfg htol d kids (by simpa [NoDust] using hnd) _ _ _ _ _ hk
    simp only [sub_zero] at hQ
    obtain ⟨sdR, kidsW, rfl, hnow, -, -, a2, hk2, -, hf2⟩ :=
      stratFinish_pass2 htol (stratDateChange_now d sd) hQ hf
    rw [updNode_strat, stratDateChange_same hnow]
    simp only
    rw [hk2, bind_ok, hf2]

theorem updKids_pass2 (cfg : Cfg K) (htol : 0 < cfg.tol) (d : Nat) :
    (ks : List (Node K)) → NoDustL cfg ks → ∀ (newpt bo : Bool) (acc : Acc K) ks' a,
      updKids cfg d newpt bo ks acc = .ok (ks', a) →
      Pass2 cfg d ks' (a.val - acc.val) (a.notl - acc.notl)
  | [], _, newpt, bo, acc, ks', a, h => by
    rw [updKids.eq_1] at h
    cases h
    simpa using pass2_nil cfg d
  | .sec s :: ks, hnd, newpt, bo, acc, ks', a, h => by
    rw [updKids_sec] at h
    have hnd' : (isZero cfg.tol s.position = true → s.position = 0) ∧ NoDustL cfg ks := by
      simpa [NoDustL, NoDust] using hnd
    have hsw_val : (sweepSec newpt s acc).2.val = acc.val := by
      unfold sweepSec; split <;> rfl
    have hsw_notl : (sweepSec newpt s acc).2.notl = acc.notl := by
      unfold sweepSec; split <;> rfl
    have hsw_pos : (sweepSec newpt s acc).1.position = s.position := by
      unfold sweepSec; split <;> rfl
    by_cases hn : (sweepSec newpt s acc).1.needupdate = true
    · simp only [hn, Bool.not_true, Bool.false_eq_true, ↓reduceIte] at h
      obtain ⟨s1, hs1, h⟩ := bind_eq_ok h
      obtain ⟨⟨ks1, a1⟩, hrest, hr⟩ := map_eq_ok h
      cases hr
      have ih := updKids_pass2 cfg htol d ks hnd'.2 _ _ _ _ _ hrest
      simp only [accAdd, Node.value, Node.notl] at ih
      by_cases hn1 : s1.needupdate = true
      · refine pass2_cons_live (secUpdate_idem hs1) hn1 ih ?_ ?_
        · rw [hsw_val]; ring
        · rw [hsw_notl]; ring
      · have hn1' : s1.needupdate = false := by simpa using hn1
        obtain ⟨hv0, hn0⟩ := secUpdate_quiet_zero (by rw [hsw_pos]; exact hnd'.1) hs1 hn hn1'
        rw [hv0, hn0, hsw_val, hsw_notl] at ih
        simp only [absA_zero, add_zero] at ih
        exact pass2_cons_skipped hn1' ih
    · have hn' : (sweepSec newpt s acc).1.needupdate = false := by simpa using hn
      simp only [hn', Bool.not_false, ↓reduceIte] at h
      obtain ⟨⟨ks1, a1⟩, hrest, hr⟩ := map_eq_ok h
      cases hr
      have ih := updKids_pass2 cfg htol d ks hnd'.2 _ _ _ _ _ hrest
      rw [hsw_val, hsw_notl] at ih
      exact pass2_cons_skipped hn' ih
  | .strat sd kk :: ks, hnd, newpt, bo, acc, ks', a, h => by
    rw [updKids_strat] at h
    have hnd' : NoDust cfg (.strat sd kk) ∧ NoDustL cfg ks := by
      simpa [NoDustL] using hnd
    obtain ⟨k1, hk1, h⟩ := bind_eq_ok h
    obtain ⟨⟨ks1, a1⟩, hrest, hr⟩ := map_eq_ok h
    cases hr
    have ih := updKids_pass2 cfg htol d ks hnd'.2 _ _ _ _ _ hrest
    have hfix := updNode_idem_aux cfg htol d (.strat sd kk) hnd'.1 _ hk1
    obtain ⟨sd', kk', rfl⟩ := updNode_strat_isStrat hk1
    simp only [accAdd, Node.value, Node.notl] at ih
    refine pass2_cons_strat hfix ih ?_ ?_ <;> ring
end

end Bt.P08
