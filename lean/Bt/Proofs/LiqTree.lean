import Bt.Proofs.LiqSec
/-! C16 (liquidation), tree level: relations between trees, `allocate` pushed into an already liquidated
    sub-strategy, one level of `flatten`, and what `update(d)` of a whole tree establishes. -/
set_option linter.unusedSectionVars false
namespace Bt.P16
open Bt

variable {K : Type} [Field K] [LinearOrder K] [IsStrictOrderedRing K] [HasFloor K]

/-! ### flatness -/

/-- every security below the node has `position = 0` -/
def _root_.Bt.Node.allFlat (n : Node K) : Prop := AllSecs (fun s => s.position = 0) n
/-- the same for a list of children -/
def allFlatL (ks : List (Node K)) : Prop := AllSecsKids (fun s => s.position = 0) ks

@[simp] theorem allFlat_sec (s : SecData K) : (Node.sec s).allFlat ↔ s.position = 0 := by
  simp [Node.allFlat]
@[simp] theorem allFlat_strat (sd : StratData K) (ks : List (Node K)) :
    (Node.strat sd ks).allFlat ↔ allFlatL ks := by simp [Node.allFlat, allFlatL]
@[simp] theorem allFlatL_nil : allFlatL ([] : List (Node K)) ↔ True := by simp [allFlatL]
@[simp] theorem allFlatL_cons (k : Node K) (ks : List (Node K)) :
    allFlatL (k :: ks) ↔ k.allFlat ∧ allFlatL ks := by simp [allFlatL, Node.allFlat]

/-! ### generic facts about `TreeRel` -/
section Rel
variable {P P' P'' : StratData K → List (Node K) → StratData K → List (Node K) → Prop}
  {S S' S'' : SecData K → SecData K → Prop}

theorem treeRel_mono (hP : ∀ a b c e, P a b c e → P' a b c e) (hS : ∀ s s', S s s' → S' s s') :
    (∀ n n' : Node K, TreeRel P S n n' → TreeRel P' S' n n') ∧
    (∀ l l' : List (Node K), TreeRelKids P S l l' → TreeRelKids P' S' l l') := by
  apply Node.induct
  · intro s n' h
    cases n' with
    | sec s' => simp only [TreeRel] at *; exact hS _ _ h
    | strat sd' kids' => simp [TreeRel] at h
  · intro sd kids ih n' h
    cases n' with
    | sec s' => simp [TreeRel] at h
    | strat sd' kids' => simp only [TreeRel] at *; exact ⟨hP _ _ _ _ h.1, ih _ h.2⟩
  · intro l' h
    cases l' with
    | nil => simp [TreeRelKids]
    | cons k' ks' => simp [TreeRelKids] at h
  · intro k ks ihk ihks l' h
    cases l' with
    | nil => simp [TreeRelKids] at h
    | cons k' ks' => simp only [TreeRelKids] at *; exact ⟨ihk _ h.1, ihks _ h.2⟩

theorem treeRel_trans
    (hP : ∀ a b c e f g, P a b c e → P' c e f g → P'' a b f g)
    (hS : ∀ s s' s'', S s s' → S' s' s'' → S'' s s'') :
    (∀ n n' n'' : Node K, TreeRel P S n n' → TreeRel P' S' n' n'' → TreeRel P'' S'' n n'') ∧
    (∀ l l' l'' : List (Node K), TreeRelKids P S l l' → TreeRelKids P' S' l' l'' →
      TreeRelKids P'' S'' l l'') := by
  apply Node.induct
  · intro s n' n'' h h'
    cases n' with
    | strat sd' kids' => simp [TreeRel] at h
    | sec s' =>
      cases n'' with
      | strat sd'' kids'' => simp [TreeRel] at h'
      | sec s'' => simp only [TreeRel] at *; exact hS _ _ _ h h'
  · intro sd kids ih n' n'' h h'
    cases n' with
    | sec s' => simp [TreeRel] at h
    | strat sd' kids' =>
      cases n'' with
      | sec s'' => simp [TreeRel] at h'
      | strat sd'' kids'' =>
        simp only [TreeRel] at *
        exact ⟨hP _ _ _ _ _ _ h.1 h'.1, ih _ _ h.2 h'.2⟩
  · intro l' l'' h h'
    cases l' with
    | cons k' ks' => simp [TreeRelKids] at h
    | nil =>
      cases l'' with
      | nil => simp [TreeRelKids]
      | cons k'' ks'' => simp [TreeRelKids] at h'
  · intro k ks ihk ihks l' l'' h h'
    cases l' with
    | nil => simp [TreeRelKids] at h
    | cons k' ks' =>
      cases l'' with
      | nil => simp [TreeRelKids] at h'
      | cons k'' ks'' =>
        simp only [TreeRelKids] at *
        exact ⟨ihk _ _ h.1 h'.1, ihks _ _ h.2 h'.2⟩

/-- a tree is related to itself as soon as every node is -/
theorem treeRel_diag {Q : StratData K → Prop} {I : SecData K → Prop}
    (hP : ∀ sd ks, Q sd → P sd ks sd ks) (hS : ∀ s, I s → S s s) :
    (∀ n : Node K, AllNodes Q I n → TreeRel P S n n) ∧
    (∀ l : List (Node K), AllNodesKids Q I l → TreeRelKids P S l l) := by
  apply Node.induct
  · intro s h; simp only [TreeRel, AllNodes_sec] at *; exact hS _ h
  · intro sd kids ih h
    simp only [TreeRel, AllNodes_strat] at *
    exact ⟨hP _ _ h.1, ih h.2⟩
  · intro _; simp [TreeRelKids]
  · intro k ks ihk ihks h
    simp only [TreeRelKids, AllNodesKids_cons] at *
    exact ⟨ihk h.1, ihks h.2⟩

theorem treeRel_refl (hP : ∀ sd ks, P sd ks sd ks) (hS : ∀ s, S s s) :
    (∀ n : Node K, TreeRel P S n n) ∧ (∀ l : List (Node K), TreeRelKids P S l l) := by
  apply Node.induct
  · intro s; simp only [TreeRel]; exact hS _
  · intro sd kids ih; simp only [TreeRel]; exact ⟨hP _ _, ih⟩
  · simp [TreeRelKids]
  · intro k ks ihk ihks; simp only [TreeRelKids]; exact ⟨ihk, ihks⟩

theorem treeRelKids_getElem? : ∀ {l l' : List (Node K)} {i : Nat} {k : Node K},
    TreeRelKids P S l l' → l[i]? = some k → ∃ k', l'[i]? = some k' ∧ TreeRel P S k k'
  | [], [], i, k, _, h => by simp at h
  | [], _ :: _, i, k, h, _ => by simp [TreeRelKids] at h
  | _ :: _, [], i, k, h, _ => by simp [TreeRelKids] at h
  | a :: l, a' :: l', 0, k, h, hk => by
    simp only [TreeRelKids] at h
    simp only [List.getElem?_cons_zero, Option.some.injEq] at hk
    subst hk
    exact ⟨a', by simp, h.1⟩
  | a :: l, a' :: l', i + 1, k, h, hk => by
    simp only [TreeRelKids] at h
    simp only [List.getElem?_cons_succ] at hk ⊢
    exact treeRelKids_getElem? h.2 hk

theorem treeRelKids_getElem?' : ∀ {l l' : List (Node K)} {i : Nat} {k' : Node K},
    TreeRelKids P S l l' → l'[i]? = some k' → ∃ k, l[i]? = some k ∧ TreeRel P S k k'
  | [], [], i, k, _, h => by simp at h
  | [], _ :: _, i, k, h, _ => by simp [TreeRelKids] at h
  | _ :: _, [], i, k, h, _ => by simp [TreeRelKids] at h
  | a :: l, a' :: l', 0, k, h, hk => by
    simp only [TreeRelKids] at h
    simp only [List.getElem?_cons_zero, Option.some.injEq] at hk
    subst hk
    exact ⟨a, by simp, h.1⟩
  | a :: l, a' :: l', i + 1, k, h, hk => by
    simp only [TreeRelKids] at h
    simp only [List.getElem?_cons_succ] at hk ⊢
    exact treeRelKids_getElem?' h.2 hk

theorem treeRelKids_set (hrefl : ∀ l : List (Node K), TreeRelKids P S l l) :
    ∀ (l : List (Node K)) (i : Nat) {k k' : Node K}, l[i]? = some k → TreeRel P S k k' →
      TreeRelKids P S l (l.set i k')
  | [], i, k, k', h, _ => by simp at h
  | a :: l, 0, k, k', h, hk => by
    simp only [List.getElem?_cons_zero, Option.some.injEq] at h
    subst h
    simp only [List.set_cons_zero, TreeRelKids]
    exact ⟨hk, hrefl l⟩
  | a :: l, i + 1, k, k', h, hk => by
    simp only [List.getElem?_cons_succ] at h
    simp only [List.set_cons_succ, TreeRelKids]
    exact ⟨(hrefl [a]).1, treeRelKids_set hrefl l i h hk⟩

theorem treeRelKids_drop : ∀ (i : Nat) {l l' : List (Node K)}, TreeRelKids P S l l' →
    TreeRelKids P S (l.drop i) (l'.drop i)
  | 0, l, l', h => by simpa using h
  | i + 1, [], [], h => by simpa using h
  | i + 1, [], _ :: _, h => by simp [TreeRelKids] at h
  | i + 1, _ :: _, [], h => by simp [TreeRelKids] at h
  | i + 1, a :: l, a' :: l', h => by
    simp only [TreeRelKids] at h
    simp only [List.drop_succ_cons]
    exact treeRelKids_drop i h.2

/-- the node at a path of a related tree is related -/
theorem treeRel_get? : ∀ (path : List Nat) {n n' m : Node K}, TreeRel P S n n' → n.get? path = some m →
    ∃ m', n'.get? path = some m' ∧ TreeRel P S m m'
  | [], n, n', m, h, hg => by
    cases n <;> (simp only [Node.get?] at hg; cases hg; exact ⟨n', by cases n' <;> rfl, h⟩)
  | i :: rest, .sec s, n', m, h, hg => by simp [Node.get?] at hg
  | i :: rest, .strat sd kids, .sec s', m, h, hg => by simp [TreeRel] at h
  | i :: rest, .strat sd kids, .strat sd' kids', m, h, hg => by
    simp only [TreeRel] at h
    simp only [Node.get?] at hg ⊢
    split at hg
    · cases hg
    · rename_i c hc
      obtain ⟨c', hc', hrel⟩ := treeRelKids_getElem? h.2 hc
      rw [hc']
      exact treeRel_get? rest hrel hg

end Rel

/-! ### the relations used below -/

/-- clocks of strategies are kept -/
abbrev NowEq : StratData K → List (Node K) → StratData K → List (Node K) → Prop :=
  fun sd _ sd' _ => sd'.now = sd.now

/-- flat stays flat (and the shape and the clocks are kept) -/
abbrev FRel : Node K → Node K → Prop := TreeRel NowEq (fun s s' => s.position = 0 → s'.position = 0)
abbrev FRelL : List (Node K) → List (Node K) → Prop :=
  TreeRelKids NowEq (fun s s' => s.position = 0 → s'.position = 0)

/-- what the trades of a liquidation do to a tree: `SecPre` is kept, flat stays flat, weights are kept -/
abbrev TStep (cfg : Cfg K) (d : Nat) (s s' : SecData K) : Prop :=
  (SecPre cfg d s → SecPre cfg d s') ∧ (s.position = 0 → s'.position = 0)
abbrev TRel (cfg : Cfg K) (d : Nat) : Node K → Node K → Prop := TreeRel NowEq (TStep cfg d)
abbrev TRelL (cfg : Cfg K) (d : Nat) : List (Node K) → List (Node K) → Prop :=
  TreeRelKids NowEq (TStep cfg d)

/-- every security on the right is closed and fit for further liquidation -/
abbrev CRel (cfg : Cfg K) (d : Nat) : Node K → Node K → Prop :=
  TreeRel NowEq (fun _ s' => SecPre cfg d s' ∧ s'.position = 0)
abbrev CRelL (cfg : Cfg K) (d : Nat) : List (Node K) → List (Node K) → Prop :=
  TreeRelKids NowEq (fun _ s' => SecPre cfg d s' ∧ s'.position = 0)

theorem FRel.refl : (∀ n : Node K, FRel n n) ∧ (∀ l : List (Node K), FRelL l l) :=
  treeRel_refl (fun _ _ => rfl) (fun _ h => h)

theorem TRel.refl (cfg : Cfg K) (d : Nat) : (∀ n : Node K, TRel cfg d n n) ∧ (∀ l : List (Node K), TRelL cfg d l l) :=
  treeRel_refl (fun _ _ => rfl) (fun _ => ⟨fun h => h, fun h => h⟩)

theorem FRel.trans {a b c : Node K} (h1 : FRel a b) (h2 : FRel b c) : FRel a c :=
  (treeRel_trans (fun _ _ _ _ _ _ h h' => h'.trans h) (fun _ _ _ h h' hp => h' (h hp))).1 _ _ _ h1 h2

theorem TRel.toF {cfg : Cfg K} {d : Nat} {a b : Node K} (h : TRel cfg d a b) : FRel a b :=
  (treeRel_mono (fun _ _ _ _ h => h) (fun _ _ h => h.2)).1 _ _ h

theorem CRel.toT {cfg : Cfg K} {d : Nat} :
    (∀ a b : Node K, CRel cfg d a b → TRel cfg d a b) ∧
    (∀ a b : List (Node K), CRelL cfg d a b → TRelL cfg d a b) :=
  treeRel_mono (fun _ _ _ _ h => h) (fun _ _ h => ⟨fun _ => h.1, fun _ => h.2⟩)

/-- flatness travels along `FRel` -/
theorem FRel.allFlat {a b : Node K} (h : FRel a b) (ha : a.allFlat) : b.allFlat :=
  (TreeRel.transfer (A := fun s => s.position = 0) (B := fun s => s.position = 0)
    (fun _ _ hs hp => hs hp)).1 a b h ha

theorem CRel.allFlat {cfg : Cfg K} {d : Nat} :
    (∀ a b : Node K, CRel cfg d a b → b.allFlat) ∧
    (∀ a b : List (Node K), CRelL cfg d a b → allFlatL b) := by
  constructor
  · intro a b h
    exact (TreeRel.transfer (A := fun _ => True) (B := fun s => s.position = 0)
      (fun _ _ hs _ => hs.2)).1 a b h ((AllSecs.mono (A := fun _ => True) (fun _ _ => trivial)).1 a (by
        have : ∀ n : Node K, AllSecs (fun _ => True) n := by
          intro n
          exact (Node.induct (motive := fun n => AllSecs (fun _ => True) n)
            (motiveL := fun l => AllSecsKids (fun _ => True) l) (fun _ => by simp)
            (fun _ _ ih => by simpa using ih) (by simp) (fun _ _ h1 h2 => by simpa using ⟨h1, h2⟩)).1 n
        exact this a))
  · intro a b h
    exact (TreeRel.transfer (A := fun _ => True) (B := fun s => s.position = 0)
      (fun _ _ hs _ => hs.2)).2 a b h (by
        have : ∀ l : List (Node K), AllSecsKids (fun _ => True) l := by
          intro l
          exact (Node.induct (motive := fun n => AllSecs (fun _ => True) n)
            (motiveL := fun l => AllSecsKids (fun _ => True) l) (fun _ => by simp)
            (fun _ _ ih => by simpa using ih) (by simp) (fun _ _ h1 h2 => by simpa using ⟨h1, h2⟩)).2 l
        exact this a)

/-- strategies' clocks are all `d` -/
abbrev Qd (d : Nat) : StratData K → Prop := fun sd => sd.now = some d

/-- `AllNodes (Qd d) (SecPre cfg d)` travels along `TRel` -/
theorem TRel.pre {cfg : Cfg K} {d : Nat} {a b : Node K} (h : TRel cfg d a b)
    (ha : AllNodes (Qd d) (SecPre cfg d) a) : AllNodes (Qd d) (SecPre cfg d) b :=
  (TreeRel.transferAll (QA := Qd d) (QB := Qd d) (A := SecPre cfg d) (B := SecPre cfg d)
    (fun _ _ _ _ hp hq => hp.trans hq) (fun _ _ hs ha => hs.1 ha)).1 a b h ha

/-! ### `allocate` pushed into an already liquidated sub-strategy -/

/-- flat, weight `0`, fit for liquidation: such a security is not traded by `allocate(amount × weight)` -/
abbrev InertS (cfg : Cfg K) (d : Nat) (s : SecData K) : Prop :=
  SecPre cfg d s ∧ s.position = 0 ∧ s.weight = 0
abbrev InertN (cfg : Cfg K) (d : Nat) : Node K → Prop := AllNodes (Qd d) (InertS cfg d)
abbrev IRel (cfg : Cfg K) (d : Nat) : Node K → Node K → Prop := TreeRel NowEq (fun _ s' => InertS cfg d s')
abbrev IRelL (cfg : Cfg K) (d : Nat) : List (Node K) → List (Node K) → Prop :=
  TreeRelKids NowEq (fun _ s' => InertS cfg d s')

theorem IRel.toC {cfg : Cfg K} {d : Nat} :
    (∀ a b : Node K, IRel cfg d a b → CRel cfg d a b) ∧
    (∀ a b : List (Node K), IRelL cfg d a b → CRelL cfg d a b) :=
  treeRel_mono (fun _ _ _ _ h => h) (fun _ _ h => ⟨h.1, h.2.1⟩)

theorem allocNode_inert {cfg : Cfg K} (htol : 0 < cfg.tol) {d : Nat} :
    (∀ (n : Node K) pn comm amount r, pn = some d → InertN cfg d n → (∀ s, n = .sec s → amount = 0) →
      allocNode cfg pn comm amount n = .ok r → IRel cfg d n r.1) ∧
    (∀ (ks : List (Node K)) amount sd r, sd.now = some d → AllNodesKids (Qd d) (InertS cfg d) ks →
      allocKids cfg amount ks sd = .ok r → r.1.now = some d ∧ IRelL cfg d ks r.2) := by
  apply Node.induct
  · intro s pn comm amount r hpn hi ha h
    rw [allocNode] at h
    obtain ⟨⟨s', a⟩, h1, rfl⟩ := Except.map_eq_ok h
    subst hpn
    rw [ha s rfl] at h1
    simp only [AllNodes_sec] at hi
    obtain ⟨hpre, hp, hw⟩ := secAllocate_zero htol hi.1 h1
    simp only [TreeRel]
    exact ⟨hpre, by rw [hp]; exact hi.2.1, by rw [hw]; exact hi.2.2⟩
  · intro sd kids ih pn comm amount r _ hi _ h
    rw [allocNode] at h
    obtain ⟨⟨sd2, kids2⟩, h1, rfl⟩ := Except.map_eq_ok h
    simp only [AllNodes_strat] at hi
    obtain ⟨hnow, hrel⟩ := ih amount _ _ (show (sd.adjust _).now = some d from hi.1) hi.2 h1
    simp only [TreeRel]
    exact ⟨hnow.trans hi.1.symm, hrel⟩
  · intro amount sd r hsd _ h
    rw [allocKids] at h
    cases (Except.pure_eq_ok h)
    exact ⟨hsd, by simp [TreeRelKids]⟩
  · intro k ks ihk ihks amount sd r hsd hi h
    rw [allocKids] at h
    obtain ⟨⟨k', adjs⟩, h1, h⟩ := Except.bind_eq_ok h
    obtain ⟨⟨sd'', ks'⟩, h2, rfl⟩ := Except.map_eq_ok h
    simp only [AllNodesKids_cons] at hi
    have hk := ihk sd.now sd.comm (amount * k.weight) _ hsd hi.1 (fun s hs => by
      subst hs
      have := hi.1
      simp only [AllNodes_sec] at this
      show amount * s.weight = 0
      rw [this.2.2, mul_zero]) h1
    obtain ⟨hnow, hrest⟩ := ihks amount _ _ (by rw [P08.foldl_adjust_now]; exact hsd) hi.2 h2
    simp only [TreeRelKids]
    exact ⟨hnow, hk, hrest⟩

/-! ### one level of `flatten` -/

/-- what `flatten` of a market-value strategy needs of a child: a security is up to date for `d`;
    a sub-strategy has been liquidated and re-weighted (flat securities of weight `0`) -/
def KidReady (cfg : Cfg K) (d : Nat) : Node K → Prop
  | .sec s => SecLiq cfg d s ∧ NDW cfg s
  | .strat sd ks => InertN cfg d (.strat sd ks)

theorem inert_diag {cfg : Cfg K} {d : Nat} {n : Node K} (h : InertN cfg d n) : CRel cfg d n n :=
  (treeRel_diag (P := NowEq) (S := fun _ s' => SecPre cfg d s' ∧ s'.position = 0)
    (fun _ _ _ => rfl) (fun _ hs => ⟨hs.1, hs.2.1⟩)).1 n h

/-- **`flatten` of a market-value strategy, one level**: every child with `value ≠ 0` gets
    `allocate(-value, update=False)`.  With security children up to date and sub-strategy children
    already liquidated, every security below is flat afterwards. -/
theorem flattenKidsMV_flat {cfg : Cfg K} (htol : 0 < cfg.tol) {d : Nat} :
    ∀ (ks : List (Node K)) (sd sd' : StratData K) (ks' : List (Node K)), sd.now = some d →
      (∀ k ∈ ks, KidReady cfg d k) → flattenKidsMV cfg ks sd = .ok (sd', ks') →
      sd'.now = some d ∧ CRelL cfg d ks ks'
  | [], sd, sd', ks', hsd, _, h => by
    rw [flattenKidsMV] at h
    cases (Except.pure_eq_ok h)
    exact ⟨hsd, by simp [TreeRelKids]⟩
  | k :: ks, sd, sd', ks', hsd, hr, h => by
    rw [flattenKidsMV] at h
    have hk := hr k (by simp)
    have hrs : ∀ k' ∈ ks, KidReady cfg d k' := fun k' hk' => hr k' (by simp [hk'])
    split at h
    · rename_i hv
      obtain ⟨⟨sd2, ks2⟩, h2, hrr⟩ := Except.map_eq_ok h
      cases hrr
      obtain ⟨hnow, hrest⟩ := flattenKidsMV_flat htol ks sd _ _ hsd hrs h2
      refine ⟨hnow, ?_⟩
      simp only [TreeRelKids]
      refine ⟨?_, hrest⟩
      cases k with
      | sec s =>
        simp only [KidReady] at hk
        have hv0 : s.value = 0 := (eqA_iff _ _).1 hv
        simp only [TreeRel]
        refine ⟨hk.1.pre hk.2, ?_⟩
        by_contra hp
        have := (hk.1.open_ hp).2.2.2
        rw [hv0, isZero_zero htol] at this
        cases this
      | strat sdk kk => exact inert_diag hk
    · rename_i hv
      obtain ⟨⟨k', adjs⟩, h1, h⟩ := Except.bind_eq_ok h
      obtain ⟨⟨sd2, ks2⟩, h2, hrr⟩ := Except.map_eq_ok h
      cases hrr
      obtain ⟨hnow, hrest⟩ := flattenKidsMV_flat htol ks _ _ _
        (by rw [P08.foldl_adjust_now]; exact hsd) hrs h2
      refine ⟨hnow, ?_⟩
      simp only [TreeRelKids]
      refine ⟨?_, hrest⟩
      cases k with
      | sec s =>
        simp only [KidReady] at hk
        rw [allocNode, hsd] at h1
        obtain ⟨⟨s', a⟩, hs, hrr⟩ := Except.map_eq_ok h1
        cases hrr
        have hv0 : s.value ≠ 0 := fun h0 => by
          have : eqA (Node.sec s).value 0 = true := (eqA_iff _ _).2 h0
          exact hv this
        obtain ⟨hp, hpre, _⟩ := secAllocate_close htol hk.1 hk.2 hv0 hs
        simp only [TreeRel]
        exact ⟨hpre, hp⟩
      | strat sdk kk =>
        exact IRel.toC.1 _ _ ((allocNode_inert htol).1 _ _ _ _ _ hsd hk (fun s hs => by cases hs) h1)

/-- **`flatten` of a fixed-income strategy, one level**: `transact(-position)` for every security with
    `position ≠ 0` (a sub-strategy child makes the code raise) -/
theorem flattenKidsFI_flat {cfg : Cfg K} {d : Nat} :
    ∀ (ks : List (Node K)) (sd sd' : StratData K) (ks' : List (Node K)), sd.now = some d →
      AllNodesKids (Qd d) (SecPre cfg d) ks → flattenKidsFI cfg ks sd = .ok (sd', ks') →
      sd'.now = some d ∧ CRelL cfg d ks ks'
  | [], sd, sd', ks', hsd, _, h => by
    rw [flattenKidsFI] at h
    cases (Except.pure_eq_ok h)
    exact ⟨hsd, by simp [TreeRelKids]⟩
  | .strat _ _ :: ks, sd, sd', ks', _, _, h => by
    rw [flattenKidsFI] at h; cases h
  | .sec s :: ks, sd, sd', ks', hsd, hr, h => by
    rw [flattenKidsFI] at h
    simp only [AllNodesKids_cons, AllNodes_sec] at hr
    split at h
    · rename_i hv
      obtain ⟨⟨sd2, ks2⟩, h2, hrr⟩ := Except.map_eq_ok h
      cases hrr
      obtain ⟨hnow, hrest⟩ := flattenKidsFI_flat ks sd _ _ hsd hr.2 h2
      refine ⟨hnow, ?_⟩
      simp only [TreeRelKids, TreeRel]
      exact ⟨⟨hr.1, (eqA_iff _ _).1 hv⟩, hrest⟩
    · rename_i hv
      obtain ⟨⟨s', adj⟩, h1, h⟩ := Except.bind_eq_ok h
      obtain ⟨⟨sd2, ks2⟩, h2, hrr⟩ := Except.map_eq_ok h
      cases hrr
      obtain ⟨hnow, hrest⟩ := flattenKidsFI_flat ks _ _ _
        (by rw [P08.foldl_adjust_now]; exact hsd) hr.2 h2
      refine ⟨hnow, ?_⟩
      rw [hsd] at h1
      have hp : s.position ≠ 0 := fun h0 => hv ((eqA_iff _ _).2 h0)
      obtain ⟨hp', hpre, _⟩ := secTransact_close hr.1 hp h1
      simp only [TreeRelKids, TreeRel]
      exact ⟨⟨hpre, hp'⟩, hrest⟩

/-- what `flatten` needs of the strategy it runs on, once its sub-strategies are done -/
def FlatReady (cfg : Cfg K) (d : Nat) : Node K → Prop
  | .sec _ => False
  | .strat sd ks => sd.now = some d ∧
      (if sd.fixedIncome then AllNodesKids (Qd d) (SecPre cfg d) ks else ∀ k ∈ ks, KidReady cfg d k)

theorem flatF_flat {cfg : Cfg K} (htol : 0 < cfg.tol) {d : Nat} {par : Option (StratData K)} {n : Node K}
    {r : OpRes K} (hr : FlatReady cfg d n) (h : P08.flatF cfg par n = .ok r) :
    CRel cfg d n r.1 ∧ r.2.2 = true := by
  cases n with
  | sec s => cases hr
  | strat sd ks =>
    simp only [P08.flatF] at h
    obtain ⟨⟨sd', ks'⟩, hfl, rfl⟩ := Except.map_eq_ok h
    simp only [FlatReady] at hr
    unfold flattenStrat at hfl
    refine ⟨?_, rfl⟩
    simp only [TreeRel]
    split at hfl
    · rename_i hfi
      rw [if_pos hfi] at hr
      obtain ⟨hnow, hrel⟩ := flattenKidsFI_flat ks sd _ _ hr.1 hr.2 hfl
      exact ⟨hnow.trans hr.1.symm, hrel⟩
    · rename_i hfi
      rw [if_neg hfi] at hr
      obtain ⟨hnow, hrel⟩ := flattenKidsMV_flat htol ks sd _ _ hr.1 hr.2 hfl
      exact ⟨hnow.trans hr.1.symm, hrel⟩

/-! ### `update(d)` of a whole tree -/

/-- a flat security carries weight `0` -/
abbrev W3 (s : SecData K) : Prop := s.position = 0 → s.weight = 0

/-- `update(d)`: positions are kept, every strategy's clock is `d`, every security is `SecLiq` -/
abbrev URel (cfg : Cfg K) (d : Nat) : Node K → Node K → Prop :=
  TreeRel (fun _ _ sd' _ => sd'.now = some d) (fun s s' => s'.position = s.position ∧ SecLiq cfg d s')
abbrev URelL (cfg : Cfg K) (d : Nat) : List (Node K) → List (Node K) → Prop :=
  TreeRelKids (fun _ _ sd' _ => sd'.now = some d) (fun s s' => s'.position = s.position ∧ SecLiq cfg d s')

/-- children as the loop of `update` leaves them, before the parent re-weights them -/
def PostKids (cfg : Cfg K) (d : Nat) : List (Node K) → Prop
  | [] => True
  | .sec s :: ks => SecLiq cfg d s ∧ PostKids cfg d ks
  | .strat _ kk :: ks => AllSecsKids W3 kk ∧ PostKids cfg d ks

theorem URelL.reweigh {cfg : Cfg K} {d : Nat} (fi : Bool) (val notl : K) :
    ∀ (ks ks1 : List (Node K)), URelL cfg d ks ks1 → URelL cfg d ks (kidsWeights cfg fi val notl ks1)
  | [], [], _ => by simp [kidsWeights, TreeRelKids]
  | [], _ :: _, h => by simp [TreeRelKids] at h
  | _ :: _, [], h => by simp [TreeRelKids] at h
  | k :: ks, k1 :: ks1, h => by
    simp only [TreeRelKids] at h
    rw [P08.kidsWeights_cons]
    simp only [TreeRelKids]
    refine ⟨?_, URelL.reweigh fi val notl ks ks1 h.2⟩
    split
    · exact h.1
    · rename_i hsk
      cases k1 with
      | sec s1 =>
        cases k with
        | strat _ _ => simp [TreeRel] at h
        | sec s =>
          have h1 := h.1
          simp only [TreeRel, Node.setWeight] at h1 ⊢
          have hn : s1.needupdate = true := by
            simpa [Node.skipped] using hsk
          exact ⟨h1.1, h1.2.setWeight hn _⟩
      | strat sd1 kk1 =>
        cases k with
        | sec _ => simp [TreeRel] at h
        | strat sd kk =>
          have h1 := h.1
          simp only [TreeRel, Node.setWeight] at h1 ⊢
          exact h1

theorem childWeight_zero (cfg : Cfg K) (fi : Bool) (val notl : K) {s : SecData K}
    (hv : s.value = 0) (hn : s.notl = 0) : childWeight cfg fi val notl (.sec s) = 0 := by
  unfold childWeight
  simp only [Node.value, Node.notl, hv, hn, zero_div]
  split <;> split <;> rfl

theorem PostKids.reweigh {cfg : Cfg K} {d : Nat} (fi : Bool) (val notl : K) :
    ∀ (ks1 : List (Node K)), PostKids cfg d ks1 → AllSecsKids W3 (kidsWeights cfg fi val notl ks1)
  | [], _ => by simp [kidsWeights]
  | .sec s :: ks1, h => by
    simp only [PostKids] at h
    rw [P08.kidsWeights_cons]
    simp only [AllSecsKids_cons]
    refine ⟨?_, PostKids.reweigh fi val notl ks1 h.2⟩
    split
    · rename_i hsk
      have hn : s.needupdate = false := by simpa [Node.skipped] using hsk
      simp only [AllSecs_sec]
      exact fun _ => (h.1.off hn).2
    · simp only [Node.setWeight, AllSecs_sec]
      intro hp
      have hp' : s.position = 0 := hp
      exact childWeight_zero cfg fi val notl (h.1.settled hp').1 (h.1.settled hp').2
  | .strat sd kk :: ks1, h => by
    simp only [PostKids] at h
    rw [P08.kidsWeights_cons]
    simp only [AllSecsKids_cons]
    refine ⟨?_, PostKids.reweigh fi val notl ks1 h.2⟩
    split
    · simpa using h.1
    · simpa [Node.setWeight] using h.1

mutual
/-- **`update(d)` of any tree whose securities satisfy `SecPre`**: positions are untouched, every
    security ends `SecLiq`, and below a strategy every flat security has weight `0` — except that a
    weight within `TOL` of zero must be assumed exactly zero (`SecPre.ndw`). -/
theorem updNode_liq {cfg : Cfg K} {d : Nat} :
    (n : Node K) → ∀ n', AllSecs (SecPre cfg d) n → updNode cfg d n = .ok n' →
      URel cfg d n n' ∧ (∀ sd ks, n' = .strat sd ks → AllSecsKids W3 ks)
  | .sec s, n', hp, h => by
    obtain ⟨s', hs, rfl⟩ := updNode_sec_inv h
    simp only [AllSecs_sec] at hp
    obtain ⟨hl, hpos, _⟩ := secUpdate_liq hp hs
    refine ⟨by simp only [TreeRel]; exact ⟨hpos, hl⟩, fun _ _ hh => by cases hh⟩
  | .strat sd kids, n', hp, h => by
    obtain ⟨kids1, acc, sd3, hk, hw, rfl⟩ := updNode_strat_inv h
    simp only [AllSecs_strat] at hp
    obtain ⟨hrel, hpost⟩ := updKids_liq kids _ _ _ _ _ hp hk
    refine ⟨?_, fun sd' ks' hh => ?_⟩
    · simp only [TreeRel]
      refine ⟨?_, URelL.reweigh _ _ _ _ _ hrel⟩
      rw [stratRows_now, (stratWrite_frame hw).2.2.1]
      show (stratDateChange d sd).1.now = some d
      exact stratDateChange_now d sd
    · cases hh
      exact PostKids.reweigh _ _ _ _ hpost

theorem updKids_liq {cfg : Cfg K} {d : Nat} :
    (ks : List (Node K)) → ∀ (newpt bo : Bool) (acc : Acc K) ks1 a, AllSecsKids (SecPre cfg d) ks →
      updKids cfg d newpt bo ks acc = .ok (ks1, a) → URelL cfg d ks ks1 ∧ PostKids cfg d ks1
  | [], newpt, bo, acc, ks1, a, _, h => by
    rw [updKids.eq_1] at h; cases h
    exact ⟨by simp [TreeRelKids], by simp [PostKids]⟩
  | .sec s :: ks, newpt, bo, acc, ks1, a, hp, h => by
    rw [P08.updKids_sec] at h
    simp only [AllSecsKids_cons, AllSecs_sec] at hp
    have hsw := hp.1.sweep newpt acc
    split at h
    · rename_i hn
      obtain ⟨⟨ks2, a2⟩, hrest, hr⟩ := Except.map_eq_ok h
      cases hr
      obtain ⟨hrel, hpost⟩ := updKids_liq ks _ _ _ _ _ hp.2 hrest
      have hn' : (sweepSec newpt s acc).1.needupdate = false := by simpa using hn
      -- a skipped security: exactly flat, worth nothing, weight 0
      obtain ⟨h0, hv, hnl, hw, hlp0⟩ := hsw.off hn'
      have hl : SecLiq cfg d (sweepSec newpt s acc).1 :=
        ⟨fun hpp => absurd h0 hpp, hsw.nodust, hsw.mark0, fun _ => ⟨hv, hw⟩, fun _ => ⟨hv, hnl⟩,
          by rw [hlp0, h0], hsw.rowp⟩
      simp only [TreeRelKids, TreeRel, PostKids]
      exact ⟨⟨⟨by simp, hl⟩, hrel⟩, hl, hpost⟩
    · obtain ⟨s1, hs1, h⟩ := Except.bind_eq_ok h
      obtain ⟨⟨ks2, a2⟩, hrest, hr⟩ := Except.map_eq_ok h
      cases hr
      obtain ⟨hrel, hpost⟩ := updKids_liq ks _ _ _ _ _ hp.2 hrest
      obtain ⟨hl, hpos, _⟩ := secUpdate_liq hsw hs1
      simp only [TreeRelKids, TreeRel, PostKids]
      exact ⟨⟨⟨by rw [hpos]; simp, hl⟩, hrel⟩, hl, hpost⟩
  | .strat sd kk :: ks, newpt, bo, acc, ks1, a, hp, h => by
    rw [P08.updKids_strat] at h
    obtain ⟨k1, hk1, h⟩ := Except.bind_eq_ok h
    obtain ⟨⟨ks2, a2⟩, hrest, hr⟩ := Except.map_eq_ok h
    cases hr
    simp only [AllSecsKids_cons] at hp
    obtain ⟨hrel, hpost⟩ := updKids_liq ks _ _ _ _ _ hp.2 hrest
    obtain ⟨hrel1, hw1⟩ := updNode_liq (.strat sd kk) _ hp.1 hk1
    obtain ⟨sd', kk', rfl⟩ := P08.updNode_strat_isStrat hk1
    simp only [TreeRelKids, PostKids]
    exact ⟨⟨hrel1, hrel⟩, hw1 _ _ rfl, hpost⟩
end

end Bt.P16
