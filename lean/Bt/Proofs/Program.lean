import Bt.Algos.Program
import Bt.Proofs.CausalAlgo
import Bt.Proofs.Flags
import Bt.Proofs.Paper
import Bt.Proofs.TerminalRun
import Bt.Proofs.RebalancePath
/-! Whole programs (`Bt.Algos.Program`, namespace `Bt.Prog`): helper lemmas for the program-level instances of
    C04 (no look-ahead), C09 (shadow copy = stand-alone backtest) and C16 (bankruptcy flags).

    * `progRun` / `treeRun` / `kidsRun` are sequences of public calls (`RunC cfg C`, for every clock predicate `C`
      the world satisfies) — hence `P04.RunPublic` and `P16.RunPublic` with no hypothesis;
    * they commute with truncation of the supplied data after `t` at every date `d ≤ t` on every world whose
      clocks are `≤ t` (`P04.CausalStrong`, hence `P04.Causal`): the selectors read row `d` only;
    * a closed gate makes them the identity;
    * `Sim`: a shadow copy is stepped independently of its parent; funding then stepping over `d0 :: ds` is the
      stand-alone `simRun`; the price the parent reads is the stepped copy's price. -/
set_option linter.unusedSectionVars false
set_option linter.unusedVariables false
namespace Bt.PProg
open Bt Bt.P08 Bt.P04 Bt.Prog

variable {K : Type} [Field K] [LinearOrder K] [IsStrictOrderedRing K] [HasFloor K]

/-! ### the selectors read row `d` only -/

theorem uniPrice_trunc {d t : Nat} (h : d ≤ t) (k : Node K) : uniPrice d (k.trunc t) = uniPrice d k := by
  cases k with
  | sec s => exact cell_take s.prices h
  | strat sd ks => rfl

theorem eligible_trunc {d t : Nat} (h : d ≤ t) (nd neg : Bool) (k : Node K) :
    eligible nd neg d (k.trunc t) = eligible nd neg d k := by
  unfold eligible
  rw [uniPrice_trunc h]

/-- `selected` on the children of a truncated strategy, `d ≤ t` -/
theorem selected_truncL {d t : Nat} (h : d ≤ t) (sel : Sel) (ucols : List Nat) (kids : List (Node K)) :
    selected sel ucols (Node.truncL t kids) d = selected sel ucols kids d := by
  cases sel with
  | all nd neg =>
    simp only [selected]
    congr 1; funext i
    rw [truncL_getElem?]
    cases kids[i]? with
    | none => rfl
    | some k => exact eligible_trunc h nd neg k
  | these idx nd neg =>
    simp only [selected]
    congr 1; funext i
    rw [truncL_getElem?]
    cases kids[i]? with
    | none => rfl
    | some k => exact eligible_trunc h nd neg k

/-! ### one strategy's stack -/

section run
variable {cfg : Cfg K}

/-- the stack of one strategy is a sequence of public calls whose explicit `root.update` is at a date in `C`,
    on every world whose clocks lie in `C` -/
theorem progRun_runC {C : Nat → Prop} {p : Prog K} {path : List Nat} {d : Nat} {w w' : World K}
    (hw : WOK C w) (h : progRun cfg p path d w = .ok w') : RunC cfg C w w' := by
  unfold progRun at h
  split at h
  · split at h
    · exact algoRebalance_runC hw h
    · cases h
  · cases h; exact .nil _

/-- … and commutes with truncation after `t` at a date `d ≤ t`, all clocks being `≤ t` -/
theorem progRun_trunc (p : Prog K) (path : List Nat) {d t : Nat} (hd : d ≤ t) {w : World K}
    (hw : ClockLE t w) :
    progRun cfg p path d (w.trunc t) = (progRun cfg p path d w).map (World.trunc t) := by
  unfold progRun
  cases hg : p.gate.getD d false with
  | false => rfl
  | true =>
    simp only [↓reduceIte]
    rw [world_trunc_root, get?_trunc]
    cases hn : w.root.get? path with
    | none => rfl
    | some n =>
      cases n with
      | sec s => rfl
      | strat sd kids =>
        simp only [Option.map_some, trunc_strat]
        rw [selected_truncL hd]
        exact algoRebalance_trunc hw path _ none none

theorem progRun_gate_closed (p : Prog K) (path : List Nat) (d : Nat) (w : World K)
    (h : p.gate.getD d false = false) : progRun cfg p path d w = .ok w := by
  unfold progRun
  rw [h]; rfl

/-! ### a tree of strategies -/

theorem treeRun_node (p : Prog K) (kids : List (Option (ProgTree K))) (path : List Nat) (d : Nat) (w : World K) :
    treeRun cfg (.node p kids) path d w =
      (progRun cfg p path d w).bind fun w1 => kidsRun cfg kids path 0 d w1 := by
  rw [treeRun]

theorem kidsRun_nil (path : List Nat) (i d : Nat) (w : World K) :
    kidsRun cfg [] path i d w = .ok w := by
  rw [kidsRun]; rfl

theorem kidsRun_none (ks : List (Option (ProgTree K))) (path : List Nat) (i d : Nat) (w : World K) :
    kidsRun cfg (none :: ks) path i d w = kidsRun cfg ks path (i + 1) d w := by
  rw [kidsRun]

theorem kidsRun_some (tr : ProgTree K) (ks : List (Option (ProgTree K))) (path : List Nat) (i d : Nat)
    (w : World K) :
    kidsRun cfg (some tr :: ks) path i d w =
      (treeRun cfg tr (path ++ [i]) d w).bind fun w1 => kidsRun cfg ks path (i + 1) d w1 := by
  rw [kidsRun]

mutual
theorem treeRun_runC {C : Nat → Prop} : (tr : ProgTree K) → ∀ (path : List Nat) (d : Nat) (w w' : World K),
    WOK C w → treeRun cfg tr path d w = .ok w' → RunC cfg C w w'
  | .node p kids, path, d, w, w', hw, h => by
    rw [treeRun_node] at h
    obtain ⟨w1, h1, h2⟩ := bind_eq_ok h
    have r1 : RunC cfg C w w1 := progRun_runC hw h1
    exact r1.append (kidsRun_runC kids path 0 d w1 w' (r1.wok hw) h2)
theorem kidsRun_runC {C : Nat → Prop} : (ks : List (Option (ProgTree K))) → ∀ (path : List Nat) (i d : Nat)
    (w w' : World K), WOK C w → kidsRun cfg ks path i d w = .ok w' → RunC cfg C w w'
  | [], path, i, d, w, w', hw, h => by
    rw [kidsRun_nil] at h; cases h; exact .nil _
  | none :: ks, path, i, d, w, w', hw, h => by
    rw [kidsRun_none] at h
    exact kidsRun_runC ks path (i + 1) d w w' hw h
  | some tr :: ks, path, i, d, w, w', hw, h => by
    rw [kidsRun_some] at h
    obtain ⟨w1, h1, h2⟩ := bind_eq_ok h
    have r1 : RunC cfg C w w1 := treeRun_runC tr (path ++ [i]) d w w1 hw h1
    exact r1.append (kidsRun_runC ks path (i + 1) d w1 w' (r1.wok hw) h2)
end

mutual
theorem treeRun_trunc {t : Nat} : (tr : ProgTree K) → ∀ (path : List Nat) (d : Nat) (w : World K),
    d ≤ t → ClockLE t w →
    treeRun cfg tr path d (w.trunc t) = (treeRun cfg tr path d w).map (World.trunc t)
  | .node p kids, path, d, w, hd, hw => by
    rw [treeRun_node, treeRun_node]
    exact bind_comm (World.trunc t) (World.trunc t) (progRun_trunc p path hd hw) fun w1 h1 =>
      kidsRun_trunc kids path 0 d w1 hd ((progRun_runC (C := (· ≤ t)) hw h1).wok hw)
theorem kidsRun_trunc {t : Nat} : (ks : List (Option (ProgTree K))) → ∀ (path : List Nat) (i d : Nat)
    (w : World K), d ≤ t → ClockLE t w →
    kidsRun cfg ks path i d (w.trunc t) = (kidsRun cfg ks path i d w).map (World.trunc t)
  | [], path, i, d, w, hd, hw => by
    rw [kidsRun_nil, kidsRun_nil]; rfl
  | none :: ks, path, i, d, w, hd, hw => by
    rw [kidsRun_none, kidsRun_none]
    exact kidsRun_trunc ks path (i + 1) d w hd hw
  | some tr :: ks, path, i, d, w, hd, hw => by
    rw [kidsRun_some, kidsRun_some]
    exact bind_comm (World.trunc t) (World.trunc t) (treeRun_trunc tr (path ++ [i]) d w hd hw) fun w1 h1 =>
      kidsRun_trunc ks path (i + 1) d w1 hd ((treeRun_runC (C := (· ≤ t)) tr _ d w w1 hw h1).wok hw)
end

/-! ### consequences: `RunPublic` (both notions), `Causal` -/

theorem wok_true (w : World K) : WOK (fun _ => True) w :=
  ⟨nowsIn_all (fun _ => trivial) _, fun _ _ => trivial⟩

theorem progRun_public (p : Prog K) (path : List Nat) : P04.RunPublic cfg (progRun cfg p path) :=
  fun _ _ _ hw h => progRun_runC hw h
theorem treeRun_public (tr : ProgTree K) (path : List Nat) : P04.RunPublic cfg (treeRun cfg tr path) :=
  fun d w w2 hw h => treeRun_runC tr path d w w2 hw h
theorem kidsRun_public (ks : List (Option (ProgTree K))) (path : List Nat) (i : Nat) :
    P04.RunPublic cfg (kidsRun cfg ks path i) :=
  fun d w w2 hw h => kidsRun_runC ks path i d w w2 hw h

/-- the unconditional notion of C16 (`∀ d w w', run d w = .ok w' → P08.Run cfg w w'`) -/
theorem progRun_public16 (p : Prog K) (path : List Nat) : P16.RunPublic cfg (progRun cfg p path) :=
  fun _ w _ h => (progRun_runC (wok_true w) h).toPublic
theorem treeRun_public16 (tr : ProgTree K) (path : List Nat) : P16.RunPublic cfg (treeRun cfg tr path) :=
  fun d w w' h => (treeRun_runC tr path d w w' (wok_true w) h).toPublic
theorem kidsRun_public16 (ks : List (Option (ProgTree K))) (path : List Nat) (i : Nat) :
    P16.RunPublic cfg (kidsRun cfg ks path i) :=
  fun d w w' h => (kidsRun_runC ks path i d w w' (wok_true w) h).toPublic

/-- the two notions: C16's is C04's without the clock hypothesis and without the restriction on the dates of
    explicit updates; each program satisfies both.  In general C16's follows from C04's on worlds at a clock: -/
theorem run_of_runPublic04 {run : RunFn K} (h : P04.RunPublic cfg run) {d : Nat} {w w' : World K}
    (hw : AtClock d w) (hr : run d w = .ok w') : P08.Run cfg w w' := h.run hw hr

theorem progRun_causalStrong (p : Prog K) (path : List Nat) (t : Nat) : CausalStrong t (progRun cfg p path) :=
  fun _ hd _ hw => progRun_trunc p path hd hw
theorem treeRun_causalStrong (tr : ProgTree K) (path : List Nat) (t : Nat) :
    CausalStrong t (treeRun cfg tr path) :=
  fun d hd w hw => treeRun_trunc tr path d w hd hw
theorem kidsRun_causalStrong (ks : List (Option (ProgTree K))) (path : List Nat) (i t : Nat) :
    CausalStrong t (kidsRun cfg ks path i) :=
  fun d hd w hw => kidsRun_trunc ks path i d w hd hw

/-! ### `Backtest.run` (first row included) on two data sets that agree up to `t` -/

theorem ok_of_map_eq {f : World K → World K} {x y : Except Err (World K)} {a b : World K}
    (hx : x = .ok a) (hy : y = .ok b) (h : x.map f = y.map f) : f a = f b := by
  subst hx; subst hy
  simpa [Except.map] using h

/-- `backtest_causal` for `btRun`: initial capital, the update of the first row `d0 ≤ t`, then the loop -/
theorem btRun_causal {t : Nat} {run : RunFn K} (hc : Causal t run) (hp : P04.RunPublic cfg run)
    {w w' : World K} (hw : w.trunc t = w'.trunc t) (hz : HedgeZero w.root) (c : K) (d0 : Nat) (hd0 : d0 ≤ t)
    (pre post : List Nat) (hpre : ∀ d ∈ pre, d ≤ t) (hpost : ∀ d ∈ post, t < d) {r r' : World K}
    (h : btRun cfg run c (d0 :: (pre ++ post)) w = .ok r)
    (h' : btRun cfg run c (d0 :: (pre ++ post)) w' = .ok r') :
    (∀ j, j ≤ t → rowsAt j r.root = rowsAt j r'.root) ∧ rowLens r.root = rowLens r'.root := by
  simp only [btRun] at h h'
  obtain ⟨w1, h1, h⟩ := bind_eq_ok h
  obtain ⟨w2, h2, h⟩ := bind_eq_ok h
  obtain ⟨w1', h1', h'⟩ := bind_eq_ok h'
  obtain ⟨w2', h2', h'⟩ := bind_eq_ok h'
  have e1 : w1.trunc t = w1'.trunc t := by
    refine ok_of_map_eq h1 h1' ?_
    rw [← opAdjust_root_trunc, ← opAdjust_root_trunc, hw]
  have e2 : w2.trunc t = w2'.trunc t := by
    refine ok_of_map_eq h2 h2' ?_
    rw [← updRoot_trunc cfg hd0, ← updRoot_trunc cfg hd0, e1]
  have hz1 : HedgeZero w1.root := RunC.hedgeZero (cfg := cfg) (wok_true w) (.single (.adjust _ _ _ _ h1)) hz
  have hz2 : HedgeZero w2.root := updRoot_hedgeZero h2 hz1
  exact backtest_causal_pair hc hc hp hp e2 hz2 pre post hpre hpost h h'

/-- a complete backtest all of whose dates lie after `t`, from a tree whose clocks (if set) lie after `t`, writes
    recorded rows only at indices `> t` -/
theorem btRun_frozen {t : Nat} {run : RunFn K} (hp : P04.RunPublic cfg run) (c : K) (dates : List Nat)
    (hds : ∀ d ∈ dates, t < d) {w r : World K} (hw : WOK (t < ·) w) (h : btRun cfg run c dates w = .ok r) :
    Frozen (t < ·) w.root r.root := by
  cases dates with
  | nil => cases h
  | cons d0 ds =>
    simp only [btRun] at h
    obtain ⟨w1, h1, h⟩ := bind_eq_ok h
    obtain ⟨w2, h2, h⟩ := bind_eq_ok h
    have f1 : Frozen (t < ·) w.root w1.root := RunC.frozen (cfg := cfg) hw (.single (.adjust _ _ _ _ h1))
    have f2 : Frozen (t < ·) w1.root w2.root :=
      frozen_mono_eq (hds d0 (List.mem_cons_self ..)) (updRoot_frozen_at h2).1
    have f3 := btLoop_frozen hp ds (fun x hx => hds x (List.mem_cons_of_mem _ hx)) w2 r h
    exact Frozen.trans _ _ _ f1 (Frozen.trans _ _ _ f2 f3)

/-- the degenerate case of `btRun_causal`: `t` lies before the first date — nothing is recorded at indices `≤ t`,
    the rows there are those of the initial trees, which agree -/
theorem btRun_causal_late {t : Nat} {run : RunFn K} (hp : P04.RunPublic cfg run) {w w' : World K}
    (hw : w.trunc t = w'.trunc t) (hz : HedgeZero w.root) (hck : WOK (t < ·) w) (hck' : WOK (t < ·) w') (c : K)
    (dates : List Nat) (hds : ∀ d ∈ dates, t < d) {r r' : World K}
    (h : btRun cfg run c dates w = .ok r) (h' : btRun cfg run c dates w' = .ok r') :
    (∀ j, j ≤ t → rowsAt j r.root = rowsAt j r'.root) ∧ rowLens r.root = rowLens r'.root := by
  have hf := btRun_frozen hp c dates hds hck h
  have hf' := btRun_frozen hp c dates hds hck' h'
  have hrows := allRows_of_trunc_eq hw
  have hz' : HedgeZero w'.root := hedgeZero_of_trunc_eq hw hz
  refine ⟨fun j hj => ?_, ?_⟩
  · rw [hf.rowsAt_eq hz (Nat.not_lt.2 hj), hf'.rowsAt_eq hz' (Nat.not_lt.2 hj)]
    unfold rowsAt; rw [hrows]
  · rw [hf.rowLens_eq, hf'.rowLens_eq]; unfold rowLens; rw [hrows]

/-! ### after the bankruptcy the program is irrelevant -/

/-- a complete backtest whose first part `d0 :: ds1` ends flagged continues with `root.update` only -/
theorem backtest_bankrupt_rest (tr : ProgTree K) (capital : K) (d0 : Nat) (ds1 ds2 : List Nat) (w0 wm : World K)
    (h : Prog.backtest cfg tr capital (d0 :: ds1) w0 = .ok wm) (hb : wm.bankrupt = true) :
    Prog.backtest cfg tr capital (d0 :: (ds1 ++ ds2)) w0 = P16.updLoop cfg ds2 wm := by
  unfold Prog.backtest at h ⊢
  rw [P09.btRun_prefix, h, bind_ok]
  exact P16.btLoop_bankrupt _ ds2 hb

end run

/-! ### closed gates -/

section gates
variable {α : Type}

mutual
/-- every program of the tree has its gate closed at row `d` -/
def gateClosed (d : Nat) : ProgTree α → Bool
  | .node p kids => !(p.gate.getD d false) && gateClosedL d kids
def gateClosedL (d : Nat) : List (Option (ProgTree α)) → Bool
  | [] => true
  | none :: ks => gateClosedL d ks
  | some t :: ks => gateClosed d t && gateClosedL d ks
end

theorem gateClosed_node (d : Nat) (p : Prog α) (kids : List (Option (ProgTree α))) :
    gateClosed d (.node p kids) = (!(p.gate.getD d false) && gateClosedL d kids) := by rw [gateClosed]
theorem gateClosedL_nil (d : Nat) : gateClosedL d ([] : List (Option (ProgTree α))) = true := by rw [gateClosedL]
theorem gateClosedL_none (d : Nat) (ks : List (Option (ProgTree α))) :
    gateClosedL d (none :: ks) = gateClosedL d ks := by rw [gateClosedL]
theorem gateClosedL_some (d : Nat) (t : ProgTree α) (ks : List (Option (ProgTree α))) :
    gateClosedL d (some t :: ks) = (gateClosed d t && gateClosedL d ks) := by rw [gateClosedL]

mutual
/-- every program of the tree satisfies `P` -/
def AllProgs (P : Prog α → Prop) : ProgTree α → Prop
  | .node p kids => P p ∧ AllProgsL P kids
def AllProgsL (P : Prog α → Prop) : List (Option (ProgTree α)) → Prop
  | [] => True
  | none :: ks => AllProgsL P ks
  | some t :: ks => AllProgs P t ∧ AllProgsL P ks
end

mutual
theorem gateClosed_of_allProgs {d : Nat} : (tr : ProgTree α) →
    AllProgs (fun p => p.gate.getD d false = false) tr → gateClosed d tr = true
  | .node p kids, h => by
    rw [AllProgs] at h
    rw [gateClosed_node, h.1, gateClosedL_of_allProgs kids h.2]; rfl
theorem gateClosedL_of_allProgs {d : Nat} : (ks : List (Option (ProgTree α))) →
    AllProgsL (fun p => p.gate.getD d false = false) ks → gateClosedL d ks = true
  | [], _ => gateClosedL_nil d
  | none :: ks, h => by
    rw [AllProgsL] at h
    rw [gateClosedL_none]; exact gateClosedL_of_allProgs ks h
  | some t :: ks, h => by
    rw [AllProgsL] at h
    rw [gateClosedL_some, gateClosed_of_allProgs t h.1, gateClosedL_of_allProgs ks h.2]; rfl
end

mutual
theorem allProgs_mono {P Q : Prog α → Prop} (h : ∀ p, P p → Q p) : (tr : ProgTree α) →
    AllProgs P tr → AllProgs Q tr
  | .node p kids, hp => by
    rw [AllProgs] at hp ⊢
    exact ⟨h p hp.1, allProgsL_mono h kids hp.2⟩
theorem allProgsL_mono {P Q : Prog α → Prop} (h : ∀ p, P p → Q p) : (ks : List (Option (ProgTree α))) →
    AllProgsL P ks → AllProgsL Q ks
  | [], _ => by rw [AllProgsL]; trivial
  | none :: ks, hp => by
    rw [AllProgsL] at hp ⊢
    exact allProgsL_mono h ks hp
  | some t :: ks, hp => by
    rw [AllProgsL] at hp ⊢
    exact ⟨allProgs_mono h t hp.1, allProgsL_mono h ks hp.2⟩
end

end gates

section sim
variable {cfg : Cfg K}

mutual
/-- with every gate of the tree closed at `d`, `Strategy.run()` returns the tree as it is -/
theorem treeRun_gate_closed {d : Nat} : (tr : ProgTree K) → ∀ (path : List Nat) (w : World K),
    gateClosed d tr = true → treeRun cfg tr path d w = .ok w
  | .node p kids, path, w, h => by
    rw [gateClosed_node, Bool.and_eq_true] at h
    rw [treeRun_node, progRun_gate_closed p path d w (by simpa using h.1), bind_ok]
    exact kidsRun_gate_closed kids path 0 w h.2
theorem kidsRun_gate_closed {d : Nat} : (ks : List (Option (ProgTree K))) → ∀ (path : List Nat) (i : Nat)
    (w : World K), gateClosedL d ks = true → kidsRun cfg ks path i d w = .ok w
  | [], path, i, w, _ => kidsRun_nil path i d w
  | none :: ks, path, i, w, h => by
    rw [gateClosedL_none] at h
    rw [kidsRun_none]; exact kidsRun_gate_closed ks path (i + 1) w h
  | some tr :: ks, path, i, w, h => by
    rw [gateClosedL_some, Bool.and_eq_true] at h
    rw [kidsRun_some, treeRun_gate_closed tr (path ++ [i]) w h.1, bind_ok]
    exact kidsRun_gate_closed ks path (i + 1) w h.2
end

/-! ### nested backtests: unfolding -/

theorem simDay_mk (d : Nat) (w : World K) (t : ProgTree K) (papers : List (List Nat × Sim K)) :
    simDay cfg d (.mk w t papers) =
      (simPapers cfg d papers w).bind fun r =>
        (btDay cfg (treeRun cfg t []) d r.2).map fun w2 => Sim.mk w2 t r.1 := by
  rw [simDay]

theorem simPapers_nil (d : Nat) (w : World K) : simPapers cfg d [] w = .ok ([], w) := by
  rw [simPapers]; rfl

theorem simPapers_cons (d : Nat) (path : List Nat) (s : Sim K) (rest : List (List Nat × Sim K)) (w : World K) :
    simPapers cfg d ((path, s) :: rest) w =
      (simDay cfg d s).bind fun s' =>
        (simPapers cfg d rest { w with root := setPaperPx s'.world.price path w.root }).map fun r =>
          ((path, s') :: r.1, r.2) := by
  rw [simPapers]

theorem simLoop_nil (s : Sim K) : simLoop cfg [] s = .ok s := rfl
theorem simLoop_cons (d : Nat) (ds : List Nat) (s : Sim K) :
    simLoop cfg (d :: ds) s = (simDay cfg d s).bind (simLoop cfg ds) := rfl

theorem simDay0_mk (d : Nat) (w : World K) (t : ProgTree K) (papers : List (List Nat × Sim K)) :
    simDay0 cfg d (.mk w t papers) =
      (simPapers0 cfg d papers w).bind fun r =>
        (updRoot cfg d r.2).map fun w2 => Sim.mk w2 t r.1 := by
  rw [simDay0]

theorem simPapers0_nil (d : Nat) (w : World K) : simPapers0 cfg d [] w = .ok ([], w) := by
  rw [simPapers0]; rfl

theorem simPapers0_cons (d : Nat) (path : List Nat) (s : Sim K) (rest : List (List Nat × Sim K)) (w : World K) :
    simPapers0 cfg d ((path, s) :: rest) w =
      (simDay0 cfg d s).bind fun s' =>
        (simPapers0 cfg d rest { w with root := setPaperPx s'.world.price path w.root }).map fun r =>
          ((path, s') :: r.1, r.2) := by
  rw [simPapers0]

theorem simShadow_nil (s : Sim K) : simShadow cfg [] s = .ok s := rfl
theorem simShadow_cons (d0 : Nat) (ds : List Nat) (s : Sim K) :
    simShadow cfg (d0 :: ds) s = (simDay0 cfg d0 s).bind (simLoop cfg ds) := rfl

theorem simRun_mk (c : K) (d0 : Nat) (ds : List Nat) (w0 : World K) (t : ProgTree K)
    (papers : List (List Nat × Sim K)) :
    simRun cfg c (d0 :: ds) (.mk w0 t papers) =
      (opAdjust w0 [] c true true).bind fun w1 =>
      (simPapers0 cfg d0 papers w1).bind fun r =>
      (updRoot cfg d0 r.2).bind fun w3 => simLoop cfg ds (.mk w3 t r.1) := rfl

theorem simLoop_append (ds1 ds2 : List Nat) (s : Sim K) :
    simLoop cfg (ds1 ++ ds2) s = (simLoop cfg ds1 s).bind (simLoop cfg ds2) := by
  induction ds1 generalizing s with
  | nil => rfl
  | cons d ds1 ih =>
    rw [List.cons_append, simLoop_cons, simLoop_cons, P09.bind_assoc']
    exact P09.bind_congr' _ fun s1 _ => ih s1

/-- the stand-alone run over a prefix of the dates is the state the whole run passes through -/
theorem simRun_prefix (c : K) (d0 : Nat) (ds1 ds2 : List Nat) (s : Sim K) :
    simRun cfg c (d0 :: (ds1 ++ ds2)) s = (simRun cfg c (d0 :: ds1) s).bind (simLoop cfg ds2) := by
  obtain ⟨w0, t, papers⟩ := s
  rw [simRun_mk, simRun_mk, P09.bind_assoc']
  refine P09.bind_congr' _ fun w1 _ => ?_
  rw [P09.bind_assoc']
  refine P09.bind_congr' _ fun r _ => ?_
  rw [P09.bind_assoc']
  refine P09.bind_congr' _ fun w3 _ => ?_
  exact simLoop_append ds1 ds2 _

/-! ### a leaf definition (no sub-strategies): `Sim` is `Prog.backtest` -/

theorem map_bind' {ε α β γ : Type} (x : Except ε α) (f : α → β) (g : β → Except ε γ) :
    (x.map f).bind g = x.bind fun a => g (f a) := by cases x <;> rfl

theorem simDay_leaf (d : Nat) (w : World K) (t : ProgTree K) :
    simDay cfg d (.mk w t []) = (btDay cfg (treeRun cfg t []) d w).map fun w2 => Sim.mk w2 t [] := by
  rw [simDay_mk, simPapers_nil]; rfl

theorem simLoop_leaf (t : ProgTree K) : ∀ (ds : List Nat) (w : World K),
    simLoop cfg ds (.mk w t []) = (btLoop cfg (treeRun cfg t []) ds w).map fun w2 => Sim.mk w2 t []
  | [], w => rfl
  | d :: ds, w => by
    rw [simLoop_cons, simDay_leaf, map_bind', btLoop]
    cases btDay cfg (treeRun cfg t []) d w with
    | error e => rfl
    | ok w1 => exact simLoop_leaf t ds w1

theorem simRun_leaf (c : K) (t : ProgTree K) (dates : List Nat) (w0 : World K) :
    simRun cfg c dates (.mk w0 t []) = (Prog.backtest cfg t c dates w0).map fun w2 => Sim.mk w2 t [] := by
  cases dates with
  | nil => rfl
  | cons d0 ds =>
    rw [simRun_mk]
    unfold Prog.backtest btRun
    simp only
    cases opAdjust w0 [] c true true with
    | error e => rfl
    | ok w1 =>
      rw [bind_ok, bind_ok, simPapers0_nil, bind_ok]
      cases updRoot cfg d0 w1 with
      | error e => rfl
      | ok w3 => exact simLoop_leaf t ds w3

/-- **the two models of the stepping of a shadow copy agree**: for a leaf definition, `simShadow` (structural: the first date
    of the owner's run) is `paperLoop` (`Bt.Engine.Backtest`: the row test `inow == 0` of the code) when the first date is row 0
    and the clock never returns to it -/
theorem simShadow_leaf (t : ProgTree K) (ds : List Nat) (w : World K) (hpos : ∀ d ∈ ds, d ≠ 0) :
    simShadow cfg (0 :: ds) (.mk w t []) =
      (paperLoop cfg (treeRun cfg t []) (0 :: ds) w).map fun w2 => Sim.mk w2 t [] := by
  rw [simShadow_cons, simDay0_mk, simPapers0_nil, bind_ok, map_bind', P09.paperLoop_zero_cons cfg _ ds w hpos]
  cases updRoot cfg 0 w with
  | error e => rfl
  | ok w1 => exact simLoop_leaf t ds w1

/-! ### `setPaperPx` moves no position -/

theorem noDustL_set {k k' : Node K} (hk : P08.NoDust cfg k' ↔ P08.NoDust cfg k) :
    ∀ (ks : List (Node K)) (i : Nat), ks[i]? = some k → (P08.NoDustL cfg (ks.set i k') ↔ P08.NoDustL cfg ks)
  | [], i, h => by simp at h
  | a :: ks, 0, h => by
    simp only [List.getElem?_cons_zero, Option.some.injEq] at h
    subst h
    simp only [List.set_cons_zero, noDustL_cons, hk]
  | a :: ks, i + 1, h => by
    simp only [List.getElem?_cons_succ] at h
    simp only [List.set_cons_succ, noDustL_cons, noDustL_set hk ks i h]

theorem noDust_setPaperPx (px : K) : ∀ (path : List Nat) (n : Node K),
    P08.NoDust cfg (setPaperPx px path n) ↔ P08.NoDust cfg n
  | [], .strat sd kids => by rw [setPaperPx, noDust_strat, noDust_strat]
  | [], .sec s => by
    rw [setPaperPx]
    intro _ _ h; cases h
  | i :: rest, .sec s => by rw [setPaperPx]
  | i :: rest, .strat sd kids => by
    rw [setPaperPx]
    cases hk : kids[i]? with
    | none => rfl
    | some k =>
      simp only
      rw [noDust_strat, noDust_strat]
      exact noDustL_set (noDust_setPaperPx px rest k) kids i hk

theorem simPapers_noDust {d : Nat} : ∀ (papers : List (List Nat × Sim K)) (w : World K)
    (r : List (List Nat × Sim K) × World K), simPapers cfg d papers w = .ok r →
    (P08.NoDust cfg r.2.root ↔ P08.NoDust cfg w.root)
  | [], w, r, h => by rw [simPapers_nil] at h; cases h; rfl
  | (path, s) :: rest, w, r, h => by
    rw [simPapers_cons] at h
    obtain ⟨s', _, h⟩ := bind_eq_ok h
    obtain ⟨r1, h1, rfl⟩ := map_eq_ok h
    exact (simPapers_noDust rest _ r1 h1).trans (noDust_setPaperPx _ path w.root)

/-! ### funding then stepping over `d0 :: ds` is the stand-alone `simRun` -/

/-- **the shadow copy of a definition (any nesting, any programs) is its stand-alone backtest**: on the first date a
    shadow copy is only updated (`simDay0`) - exactly what `Backtest.run` does to its own tree there - and on the later
    dates both get the loop body; the copy's own shadow copies (`papers`) are stepped identically on both sides.
    No hypothesis: counting schedulers, open gates on the first date, dusty trees are all covered. -/
theorem simShadow_funded_eq_simRun (c : K) (d0 : Nat) (ds : List Nat) (w0 : World K)
    (t : ProgTree K) (papers : List (List Nat × Sim K)) :
    (opAdjust w0 [] c true true).bind (fun w1 => simShadow cfg (d0 :: ds) (.mk w1 t papers)) =
      simRun cfg c (d0 :: ds) (.mk w0 t papers) := by
  rw [simRun_mk]
  refine P09.bind_congr' _ fun w1 _ => ?_
  rw [simShadow_cons, simDay0_mk, P09.bind_assoc']
  refine P09.bind_congr' _ fun r _ => ?_
  rw [map_bind']

/-- the first date of a stand-alone run is `simDay0` of the funded tree -/
theorem simRun_eq_simDay0 (c : K) (d0 : Nat) (ds : List Nat) (w0 : World K)
    (t : ProgTree K) (papers : List (List Nat × Sim K)) :
    simRun cfg c (d0 :: ds) (.mk w0 t papers) =
      (opAdjust w0 [] c true true).bind fun w1 => (simDay0 cfg d0 (.mk w1 t papers)).bind (simLoop cfg ds) :=
  (simShadow_funded_eq_simRun c d0 ds w0 t papers).symm

end sim

/-! ### the shadow copies of a run evolve on their own -/

section papers
variable {cfg : Cfg K}

/-- every shadow copy keeps its path and is stepped by its own `simDay`, whatever the parent's world is -/
theorem forall₂_mem_left {α β : Type} {R : α → β → Prop} : ∀ {l1 : List α} {l2 : List β},
    List.Forall₂ R l1 l2 → ∀ a ∈ l1, ∃ b ∈ l2, R a b
  | [], [], _, a, h => by cases h
  | x :: l1, y :: l2, .cons hxy t, a, h => by
    rcases List.mem_cons.1 h with rfl | h'
    · exact ⟨y, List.mem_cons_self .., hxy⟩
    · obtain ⟨b, hb, hr⟩ := forall₂_mem_left t a h'
      exact ⟨b, List.mem_cons_of_mem _ hb, hr⟩

theorem simPapers_forall₂ {d : Nat} : ∀ (papers : List (List Nat × Sim K)) (w : World K)
    (r : List (List Nat × Sim K) × World K), simPapers cfg d papers w = .ok r →
    List.Forall₂ (fun a b => a.1 = b.1 ∧ simDay cfg d a.2 = .ok b.2) papers r.1
  | [], w, r, h => by rw [simPapers_nil] at h; cases h; exact .nil
  | (path, s) :: rest, w, r, h => by
    rw [simPapers_cons] at h
    obtain ⟨s', hs, h⟩ := bind_eq_ok h
    obtain ⟨r1, h1, rfl⟩ := map_eq_ok h
    exact .cons ⟨rfl, hs⟩ (simPapers_forall₂ rest _ r1 h1)

theorem simDay_papers {d : Nat} {w : World K} {t : ProgTree K} {papers : List (List Nat × Sim K)} {S' : Sim K}
    (h : simDay cfg d (.mk w t papers) = .ok S') :
    ∃ w' papers', S' = .mk w' t papers' ∧
      List.Forall₂ (fun a b => a.1 = b.1 ∧ simDay cfg d a.2 = .ok b.2) papers papers' := by
  rw [simDay_mk] at h
  obtain ⟨r, hr, h⟩ := bind_eq_ok h
  obtain ⟨w2, _, rfl⟩ := map_eq_ok h
  exact ⟨w2, r.1, rfl, simPapers_forall₂ _ _ _ hr⟩

theorem simPapers0_forall₂ {d : Nat} : ∀ (papers : List (List Nat × Sim K)) (w : World K)
    (r : List (List Nat × Sim K) × World K), simPapers0 cfg d papers w = .ok r →
    List.Forall₂ (fun a b => a.1 = b.1 ∧ simDay0 cfg d a.2 = .ok b.2) papers r.1
  | [], w, r, h => by rw [simPapers0_nil] at h; cases h; exact .nil
  | (path, s) :: rest, w, r, h => by
    rw [simPapers0_cons] at h
    obtain ⟨s', hs, h⟩ := bind_eq_ok h
    obtain ⟨r1, h1, rfl⟩ := map_eq_ok h
    exact .cons ⟨rfl, hs⟩ (simPapers0_forall₂ rest _ r1 h1)

theorem simDay0_papers {d : Nat} {w : World K} {t : ProgTree K} {papers : List (List Nat × Sim K)} {S' : Sim K}
    (h : simDay0 cfg d (.mk w t papers) = .ok S') :
    ∃ w' papers', S' = .mk w' t papers' ∧
      List.Forall₂ (fun a b => a.1 = b.1 ∧ simDay0 cfg d a.2 = .ok b.2) papers papers' := by
  rw [simDay0_mk] at h
  obtain ⟨r, hr, h⟩ := bind_eq_ok h
  obtain ⟨w2, _, rfl⟩ := map_eq_ok h
  exact ⟨w2, r.1, rfl, simPapers0_forall₂ _ _ _ hr⟩

theorem forall₂_loop_refl : ∀ (papers : List (List Nat × Sim K)),
    List.Forall₂ (fun a b => a.1 = b.1 ∧ simLoop cfg [] a.2 = .ok b.2) papers papers
  | [] => .nil
  | a :: l => .cons ⟨rfl, rfl⟩ (forall₂_loop_refl l)

theorem forall₂_loop_cons {d : Nat} {ds : List Nat} : ∀ {l1 l2 l3 : List (List Nat × Sim K)},
    List.Forall₂ (fun a b => a.1 = b.1 ∧ simDay cfg d a.2 = .ok b.2) l1 l2 →
    List.Forall₂ (fun a b => a.1 = b.1 ∧ simLoop cfg ds a.2 = .ok b.2) l2 l3 →
    List.Forall₂ (fun a b => a.1 = b.1 ∧ simLoop cfg (d :: ds) a.2 = .ok b.2) l1 l3
  | [], [], [], _, _ => .nil
  | a :: l1, b :: l2, c :: l3, .cons h1 t1, .cons h2 t2 =>
    .cons ⟨h1.1.trans h2.1, by rw [simLoop_cons, h1.2, bind_ok]; exact h2.2⟩ (forall₂_loop_cons t1 t2)

theorem simLoop_papers {t : ProgTree K} : ∀ (ds : List Nat) {w : World K} {papers : List (List Nat × Sim K)}
    {S' : Sim K}, simLoop cfg ds (.mk w t papers) = .ok S' →
    ∃ w' papers', S' = .mk w' t papers' ∧
      List.Forall₂ (fun a b => a.1 = b.1 ∧ simLoop cfg ds a.2 = .ok b.2) papers papers'
  | [], w, papers, S', h => by
    cases h; exact ⟨w, papers, rfl, forall₂_loop_refl papers⟩
  | d :: ds, w, papers, S', h => by
    rw [simLoop_cons] at h
    obtain ⟨S1, h1, h2⟩ := bind_eq_ok h
    obtain ⟨w1, p1, rfl, f1⟩ := simDay_papers h1
    obtain ⟨w2, p2, rfl, f2⟩ := simLoop_papers ds h2
    exact ⟨w2, p2, rfl, forall₂_loop_cons f1 f2⟩

theorem forall₂_shadow_cons {d : Nat} {ds : List Nat} : ∀ {l1 l2 l3 : List (List Nat × Sim K)},
    List.Forall₂ (fun a b => a.1 = b.1 ∧ simDay0 cfg d a.2 = .ok b.2) l1 l2 →
    List.Forall₂ (fun a b => a.1 = b.1 ∧ simLoop cfg ds a.2 = .ok b.2) l2 l3 →
    List.Forall₂ (fun a b => a.1 = b.1 ∧ simShadow cfg (d :: ds) a.2 = .ok b.2) l1 l3
  | [], [], [], _, _ => .nil
  | a :: l1, b :: l2, c :: l3, .cons h1 t1, .cons h2 t2 =>
    .cons ⟨h1.1.trans h2.1, by rw [simShadow_cons, h1.2, bind_ok]; exact h2.2⟩ (forall₂_shadow_cons t1 t2)

/-- after a whole `simRun` of the parent every shadow copy has been stepped by its own `simShadow` over all the
    dates (update on the first, the loop body on the others) — whatever the parent's tree, programs, capital -/
theorem simRun_papers {c : K} {d0 : Nat} {ds : List Nat} {w0 : World K} {t : ProgTree K}
    {papers : List (List Nat × Sim K)} {S' : Sim K} (h : simRun cfg c (d0 :: ds) (.mk w0 t papers) = .ok S') :
    ∃ w' papers', S' = .mk w' t papers' ∧
      List.Forall₂ (fun a b => a.1 = b.1 ∧ simShadow cfg (d0 :: ds) a.2 = .ok b.2) papers papers' := by
  rw [simRun_mk] at h
  obtain ⟨w1, _, h⟩ := bind_eq_ok h
  obtain ⟨r, hr, h⟩ := bind_eq_ok h
  obtain ⟨w3, _, h⟩ := bind_eq_ok h
  obtain ⟨w2, p2, rfl, f2⟩ := simLoop_papers ds h
  exact ⟨w2, p2, rfl, forall₂_shadow_cons (simPapers0_forall₂ _ _ _ hr) f2⟩

end papers

/-! ### the price the parent reads is the shadow copy's -/

section price
variable {cfg : Cfg K}

theorem get?_sec_cons (s : SecData K) (i : Nat) (rest : List Nat) : (Node.sec s).get? (i :: rest) = none := by
  rw [Node.get?]

theorem get?_strat_cons (sd : StratData K) (kids : List (Node K)) (i : Nat) (rest : List Nat) :
    (Node.strat sd kids).get? (i :: rest) = (kids[i]?).bind fun k => k.get? rest := by
  rw [Node.get?]
  cases kids[i]? <;> rfl

/-- the strategy at `p` after `setPaperPx px p`: same data except `paperPx := px`, same children -/
theorem setPaperPx_get?_self (px : K) : ∀ (p : List Nat) (n : Node K) (sd : StratData K) (kk : List (Node K)),
    n.get? p = some (.strat sd kk) → (setPaperPx px p n).get? p = some (.strat { sd with paperPx := px } kk)
  | [], n, sd, kk, h => by
    rw [Rebal.get?_nil] at h
    cases h
    rw [setPaperPx, Rebal.get?_nil]
  | i :: rest, .sec s, sd, kk, h => by rw [get?_sec_cons] at h; cases h
  | i :: rest, .strat sdn kids, sd, kk, h => by
    rw [get?_strat_cons] at h
    rw [setPaperPx]
    cases hk : kids[i]? with
    | none => rw [hk] at h; cases h
    | some k =>
      rw [hk] at h
      simp only [Option.bind_some] at h ⊢
      have hi : i < kids.length := (List.getElem?_eq_some_iff.1 hk).1
      rw [get?_strat_cons, List.getElem?_set_self hi]
      exact setPaperPx_get?_self px rest k sd kk h

/-- a strategy at another path keeps its data (its children may contain the overwritten one) -/
theorem setPaperPx_get?_ne (px : K) : ∀ (p q : List Nat) (n : Node K) (sd : StratData K) (kk : List (Node K)),
    q ≠ p → n.get? q = some (.strat sd kk) → ∃ kk', (setPaperPx px p n).get? q = some (.strat sd kk')
  | [], [], n, sd, kk, hne, h => absurd rfl hne
  | [], j :: qr, .sec s, sd, kk, hne, h => by rw [get?_sec_cons] at h; cases h
  | [], j :: qr, .strat sdn kids, sd, kk, hne, h => by
    rw [setPaperPx]
    rw [get?_strat_cons] at h ⊢
    exact ⟨kk, h⟩
  | i :: rest, q, .sec s, sd, kk, hne, h => by rw [setPaperPx]; exact ⟨kk, h⟩
  | i :: rest, [], .strat sdn kids, sd, kk, hne, h => by
    rw [Rebal.get?_nil] at h
    cases h
    rw [Rebal.get?_nil]
    rw [setPaperPx]
    cases kids[i]? with
    | none => exact ⟨_, rfl⟩
    | some k => exact ⟨_, rfl⟩
  | i :: rest, j :: qr, .strat sdn kids, sd, kk, hne, h => by
    rw [setPaperPx]
    cases hk : kids[i]? with
    | none => exact ⟨kk, h⟩
    | some k =>
      simp only
      rw [get?_strat_cons] at h ⊢
      have hi : i < kids.length := (List.getElem?_eq_some_iff.1 hk).1
      by_cases hji : j = i
      · subst hji
        rw [hk] at h
        simp only [Option.bind_some] at h
        rw [List.getElem?_set_self hi]
        simp only [Option.bind_some]
        exact setPaperPx_get?_ne px rest qr k sd kk (fun e => hne (by rw [e])) h
      · rw [List.getElem?_set_ne (fun e => hji e.symm)]
        exact ⟨kk, h⟩

/-- `paperPx` and `paperTrade` of a strategy: what no engine operation writes -/
def PaperRel (a b : StratData K) : Prop := b.paperPx = a.paperPx ∧ b.paperTrade = a.paperTrade

theorem paperLaws (cfg : Cfg K) : Laws cfg (fun _ => True) (fun _ _ => True) (PaperRel (K := K)) where
  rsRefl := fun _ => trivial
  rsTrans := fun _ _ => trivial
  rdRefl := fun _ => ⟨rfl, rfl⟩
  rdTrans := fun h1 h2 => ⟨h2.1.trans h1.1, h2.2.trans h1.2⟩
  secUpdate := fun _ _ => trivial
  secTrade := fun _ => trivial
  sweep := fun _ _ _ => trivial
  secWeight := fun _ _ => trivial
  dateChange := fun sd _ => ⟨(P09.stratDateChange_paper _ sd).2.1, (P09.stratDateChange_paper _ sd).1⟩
  capital := fun _ _ => ⟨rfl, rfl⟩
  write := fun _ h => ⟨(P09.stratWrite_paper h).2.1, (P09.stratWrite_paper h).1⟩
  rows := fun sd _ => by unfold stratRows; dsimp only; split <;> exact ⟨rfl, rfl⟩
  adjust := fun _ _ => ⟨rfl, rfl⟩
  stratWeight := fun _ _ => ⟨rfl, rfl⟩
  bankrupt := fun _ => ⟨rfl, rfl⟩
  secNow := fun _ _ _ _ => trivial
  stratNow := fun _ _ _ _ => trivial

theorem liftL_getElem? {Rs : SecData K → SecData K → Prop} {Rd : StratData K → StratData K → Prop} :
    ∀ (ks ks' : List (Node K)) (i : Nat) (k : Node K), LiftL Rs Rd ks ks' → ks[i]? = some k →
      ∃ k', ks'[i]? = some k' ∧ Lift Rs Rd k k'
  | [], _, i, k, _, h => by simp at h
  | a :: ks, [], i, k, hl, _ => by simp at hl
  | a :: ks, a' :: ks', 0, k, hl, h => by
    simp only [liftL_cons] at hl
    simp only [List.getElem?_cons_zero, Option.some.injEq] at h
    subst h
    exact ⟨a', rfl, hl.1⟩
  | a :: ks, a' :: ks', i + 1, k, hl, h => by
    simp only [liftL_cons] at hl
    simp only [List.getElem?_cons_succ] at h ⊢
    exact liftL_getElem? ks ks' i k hl.2 h

/-- related trees have related strategies at every path -/
theorem lift_get?_strat {Rs : SecData K → SecData K → Prop} {Rd : StratData K → StratData K → Prop} :
    ∀ (p : List Nat) (n n' : Node K), Lift Rs Rd n n' → ∀ (sd : StratData K) (kk : List (Node K)),
      n.get? p = some (.strat sd kk) → ∃ sd' kk', n'.get? p = some (.strat sd' kk') ∧ Rd sd sd'
  | [], n, n', hl, sd, kk, h => by
    rw [Rebal.get?_nil] at h
    cases h
    cases n' with
    | sec s' => simp at hl
    | strat sd' kk' =>
      simp only [lift_strat] at hl
      exact ⟨sd', kk', Rebal.get?_nil _, hl.1⟩
  | i :: rest, .sec s, n', hl, sd, kk, h => by rw [get?_sec_cons] at h; cases h
  | i :: rest, .strat sdn ks, .sec s', hl, sd, kk, h => by simp at hl
  | i :: rest, .strat sdn ks, .strat sdn' ks', hl, sd, kk, h => by
    simp only [lift_strat] at hl
    rw [get?_strat_cons] at h ⊢
    cases hk : ks[i]? with
    | none => rw [hk] at h; cases h
    | some k =>
      rw [hk] at h
      obtain ⟨k', hk', hlk⟩ := liftL_getElem? ks ks' i k hl.2 hk
      rw [hk']
      exact lift_get?_strat rest k k' hlk sd kk h

/-- the strategy at `p` is paper-traded and its shadow copy reports `px` -/
def PaperIn (px : K) (n : Node K) (p : List Nat) : Prop :=
  ∃ sd kk, n.get? p = some (.strat sd kk) ∧ sd.paperTrade = true ∧ sd.paperPx = px

/-- … and it shows `px` as its own price, recorded at row `d` of its price series -/
def PaperAt (d : Nat) (px : K) (n : Node K) (p : List Nat) : Prop :=
  ∃ sd kk, n.get? p = some (.strat sd kk) ∧ sd.paperTrade = true ∧ sd.paperPx = px ∧ sd.price = px ∧
    (d < sd.rPrice.length → sd.rPrice[d]? = some px)

theorem PaperAt.paperIn {d : Nat} {px : K} {n : Node K} {p : List Nat} (h : PaperAt d px n p) : PaperIn px n p := by
  obtain ⟨sd, kk, h1, h2, h3, _⟩ := h
  exact ⟨sd, kk, h1, h2, h3⟩

theorem paperIn_of_lift {px : K} {n n' : Node K} {p : List Nat}
    (hl : Lift (fun _ _ => True) (PaperRel (K := K)) n n') (h : PaperIn px n p) : PaperIn px n' p := by
  obtain ⟨sd, kk, h1, h2, h3⟩ := h
  obtain ⟨sd', kk', g1, g2⟩ := lift_get?_strat p n n' hl sd kk h1
  exact ⟨sd', kk', g1, g2.2.trans h2, g2.1.trans h3⟩

/-- `setPaperPx` at any path keeps every paper-traded strategy paper-traded; at its own path it sets the price
    reported, at other paths it keeps it -/
theorem setPaperPx_paperIn_self {px : K} {n : Node K} {p : List Nat} {sd : StratData K} {kk : List (Node K)}
    (h : n.get? p = some (.strat sd kk)) (hp : sd.paperTrade = true) : PaperIn px (setPaperPx px p n) p :=
  ⟨_, kk, setPaperPx_get?_self px p n sd kk h, hp, rfl⟩

theorem setPaperPx_paperIn_ne {px px' : K} {n : Node K} {p q : List Nat} (hne : q ≠ p) (h : PaperIn px' n q) :
    PaperIn px' (setPaperPx px p n) q := by
  obtain ⟨sd, kk, h1, h2, h3⟩ := h
  obtain ⟨kk', g⟩ := setPaperPx_get?_ne px p q n sd kk hne h1
  exact ⟨sd, kk', g, h2, h3⟩

/-- `update(d)` of a paper-traded strategy: its price is the price its shadow copy reports -/
theorem updNode_self_price {d : Nat} {sd : StratData K} {kk : List (Node K)} {n' : Node K}
    (h : updNode cfg d (.strat sd kk) = .ok n') (hp : sd.paperTrade = true) : PaperAt d sd.paperPx n' [] := by
  rw [updNode_strat] at h
  obtain ⟨r, _, hf⟩ := bind_eq_ok h
  unfold stratFinish at hf
  obtain ⟨sd3, hw, hn⟩ := map_eq_ok hf
  obtain ⟨h1, h2, h3⟩ := P09.stratWrite_paper hw
  obtain ⟨g1, g2, g3⟩ := P09.stratDateChange_paper d sd
  simp only at h1 h2 h3
  have hpt : sd3.paperTrade = true := by rw [h1, g1, hp]
  have hpx : sd3.paperPx = sd.paperPx := by rw [h2, g2]
  subst hn
  refine ⟨stratRows d sd3, _, Rebal.get?_nil _, ?_⟩
  unfold stratRows
  rw [if_pos hpt]
  refine ⟨hpt, hpx, hpx, fun hd => ?_⟩
  simp only [List.length_set] at hd
  simp only [List.getElem?_set_self hd, hpx]

theorem paperAt_weighted {d : Nat} {px x : K} {k : Node K} {rest : List Nat} (h : PaperAt d px k rest) :
    PaperAt d px (if k.skipped then k else k.setWeight x) rest := by
  split
  · exact h
  · obtain ⟨sd, kk, h1, h2⟩ := h
    cases k with
    | sec s =>
      cases rest with
      | nil => rw [Rebal.get?_nil] at h1; cases h1
      | cons j r => rw [get?_sec_cons] at h1; cases h1
    | strat sdk kkk =>
      cases rest with
      | nil =>
        rw [Rebal.get?_nil] at h1
        cases h1
        exact ⟨{ sd with weight := x }, kk, Rebal.get?_nil _, h2⟩
      | cons j r =>
        refine ⟨sd, kk, ?_, h2⟩
        rw [← h1]
        simp only [Node.setWeight, Node.get?]

/-- **`update(d)` of any tree**: every paper-traded strategy of the tree comes out with its shadow copy's price as
    its own, recorded at row `d` -/
theorem updNode_paperAt {d : Nat} {px : K} : ∀ (p : List Nat) (n n' : Node K),
    updNode cfg d n = .ok n' → PaperIn px n p → PaperAt d px n' p
  | [], n, n', h, ⟨sd, kk, h1, h2, h3⟩ => by
    rw [Rebal.get?_nil] at h1
    cases h1
    exact h3 ▸ updNode_self_price h h2
  | i :: rest, .sec s, n', h, ⟨sd, kk, h1, _⟩ => by rw [get?_sec_cons] at h1; cases h1
  | i :: rest, .strat sdR kidsR, n', h, ⟨sd, kk, h1, h2, h3⟩ => by
    rw [get?_strat_cons] at h1
    cases hk : kidsR[i]? with
    | none => rw [hk] at h1; cases h1
    | some k =>
      rw [hk] at h1
      simp only [Option.bind_some] at h1
      cases k with
      | sec s =>
        cases rest with
        | nil => rw [Rebal.get?_nil] at h1; cases h1
        | cons j r => rw [get?_sec_cons] at h1; cases h1
      | strat sdk kkk =>
        rw [updNode_strat] at h
        obtain ⟨⟨kids1, acc⟩, hkids, hf⟩ := bind_eq_ok h
        unfold stratFinish at hf
        obtain ⟨sd3, _, hn⟩ := map_eq_ok hf
        subst hn
        obtain ⟨k1, hk1, hu⟩ := Rebal.updKids_get_strat cfg d _ _ kidsR _ kids1 acc i sdk kkk hkids hk
        have hin : PaperAt d px k1 rest := updNode_paperAt rest (.strat sdk kkk) k1 hu ⟨sd, kk, h1, h2, h3⟩
        have hw := paperAt_weighted (x := childWeight cfg sd3.fixedIncome (acc.val + acc.coupons) acc.notl k1) hin
        obtain ⟨sd', kk', g1, g2⟩ := hw
        refine ⟨sd', kk', ?_, g2⟩
        rw [get?_strat_cons, Rebal.kidsWeights_get cfg _ _ _ kids1 i k1 hk1]
        exact g1

/-- **`root.update(d)`**, the liquidating branch included: the last thing it does is an `update(d)` of the whole
    tree, and nothing before that writes `paperPx` -/
theorem updRoot_paperAt {d : Nat} {px : K} {w w' : World K} {p : List Nat}
    (h : updRoot cfg d w = .ok w') (hin : PaperIn px w.root p) : PaperAt d px w'.root p := by
  obtain ⟨root, st⟩ := w
  cases root with
  | sec s => cases h
  | strat sd kids =>
    rw [updRoot_strat] at h
    obtain ⟨⟨kids1, acc⟩, hk, h⟩ := bind_eq_ok h
    split at h
    · obtain ⟨wF, hfl, h⟩ := bind_eq_ok h
      obtain ⟨n, hn, rfl⟩ := map_eq_ok h
      have L := paperLaws cfg
      have hkids := updKids_lift L trivial kids _ _ _ _ _ hk
      have h0 : Lift (fun _ _ => True) (PaperRel (K := K)) (.strat sd kids)
          (.strat (stratDateChange d sd).1 kids1) := by
        simp only [lift_strat]; exact ⟨L.dateChange sd trivial, hkids⟩
      have hB : Lift (fun _ _ => True) (PaperRel (K := K)) (.strat (stratDateChange d sd).1 kids1)
          (bankruptWorld (stratDateChange d sd).1 (kids1, acc)).root := by
        simp only [bankruptWorld, lift_strat]
        exact ⟨L.rdTrans (L.capital _ ((stratDateChange d sd).1.capital + acc.coupons)) (L.bankrupt _),
          liftL_refl L _⟩
      have hF := flattenAt_lift L (fun _ _ hw' => refreshNB_lift L hw') (wok_true _) hfl
      have hall := lift_trans L _ _ _ h0 (lift_trans L _ _ _ hB hF.1)
      exact updNode_paperAt p _ _ hn (paperIn_of_lift hall hin)
    · obtain ⟨n, hf, rfl⟩ := map_eq_ok h
      have hn : updNode cfg d (.strat sd kids) = .ok n := by
        rw [updNode_strat, hk, bind_ok]; exact hf
      exact updNode_paperAt p _ _ hn hin

/-- a day of `Backtest.run` with algos that only issue public calls -/
theorem btDay_paperAt {run : RunFn K}
    (hrun : ∀ d w w', run d w = .ok w' → RunC cfg (fun _ => True) w w') {d : Nat} {px : K} {w w' : World K}
    {p : List Nat} (h : btDay cfg run d w = .ok w') (hin : PaperIn px w.root p) : PaperAt d px w'.root p := by
  unfold btDay at h
  obtain ⟨w1, h1, h⟩ := bind_eq_ok h
  have h1' := updRoot_paperAt h1 hin
  split at h
  · cases h; exact h1'
  · obtain ⟨w2, h2, h3⟩ := bind_eq_ok h
    have hl := ((hrun d w1 w2 h2).lift (paperLaws cfg) (wok_true w1)).1
    exact updRoot_paperAt h3 (paperIn_of_lift hl h1'.paperIn)

theorem treeRun_runC_true (tr : ProgTree K) (path : List Nat) :
    ∀ d w w', treeRun cfg tr path d w = .ok w' → RunC cfg (fun _ => True) w w' :=
  fun d w w' h => treeRun_runC tr path d w w' (wok_true w) h

/-- the strategy at `q` is paper-traded -/
def PaperT (n : Node K) (q : List Nat) : Prop := ∃ px, PaperIn px n q

theorem paperT_iff {n : Node K} {q : List Nat} :
    PaperT n q ↔ ∃ sd kk, n.get? q = some (.strat sd kk) ∧ sd.paperTrade = true :=
  ⟨fun ⟨_, sd, kk, h1, h2, _⟩ => ⟨sd, kk, h1, h2⟩, fun ⟨sd, kk, h1, h2⟩ => ⟨sd.paperPx, sd, kk, h1, h2, rfl⟩⟩

theorem setPaperPx_paperT {px : K} {n : Node K} {p q : List Nat} (h : PaperT n q) :
    PaperT (setPaperPx px p n) q := by
  by_cases hqp : q = p
  · subst hqp
    obtain ⟨sd, kk, h1, h2⟩ := paperT_iff.1 h
    exact ⟨px, setPaperPx_paperIn_self h1 h2⟩
  · obtain ⟨px', h'⟩ := h
    exact ⟨px', setPaperPx_paperIn_ne hqp h'⟩

theorem forall₂_paths {R : Sim K → Sim K → Prop} : ∀ {l1 l2 : List (List Nat × Sim K)},
    List.Forall₂ (fun a b => a.1 = b.1 ∧ R a.2 b.2) l1 l2 → l1.map (·.1) = l2.map (·.1)
  | [], [], _ => rfl
  | a :: l1, b :: l2, .cons h t => by
    simp only [List.map_cons, h.1, forall₂_paths t]

theorem simPapers_paperT {d : Nat} {q : List Nat} : ∀ (papers : List (List Nat × Sim K)) (w : World K)
    (r : List (List Nat × Sim K) × World K), simPapers cfg d papers w = .ok r →
    PaperT w.root q → PaperT r.2.root q
  | [], w, r, h, hq => by rw [simPapers_nil] at h; cases h; exact hq
  | (path, s) :: rest, w, r, h, hq => by
    rw [simPapers_cons] at h
    obtain ⟨s', _, h⟩ := bind_eq_ok h
    obtain ⟨r1, h1, rfl⟩ := map_eq_ok h
    exact simPapers_paperT rest _ r1 h1 (setPaperPx_paperT hq)

/-- a price reported at `q` survives the stepping of shadow copies at other paths -/
theorem simPapers_keep {d : Nat} {q : List Nat} {px : K} : ∀ (papers : List (List Nat × Sim K)) (w : World K)
    (r : List (List Nat × Sim K) × World K), simPapers cfg d papers w = .ok r →
    q ∉ papers.map (·.1) → PaperIn px w.root q → PaperIn px r.2.root q
  | [], w, r, h, _, hq => by rw [simPapers_nil] at h; cases h; exact hq
  | (path, s) :: rest, w, r, h, hn, hq => by
    rw [simPapers_cons] at h
    obtain ⟨s', _, h⟩ := bind_eq_ok h
    obtain ⟨r1, h1, rfl⟩ := map_eq_ok h
    simp only [List.map_cons, List.mem_cons, not_or] at hn
    exact simPapers_keep rest _ r1 h1 hn.2 (setPaperPx_paperIn_ne hn.1 hq)

/-- after the shadow copies have been stepped, every paper-traded strategy that has one (distinct paths) reports
    the price of its stepped copy -/
theorem simPapers_paperIn {d : Nat} : ∀ (papers : List (List Nat × Sim K)) (w : World K)
    (r : List (List Nat × Sim K) × World K), simPapers cfg d papers w = .ok r →
    (papers.map (·.1)).Nodup → ∀ q s', (q, s') ∈ r.1 → PaperT w.root q → PaperIn s'.world.price r.2.root q
  | [], w, r, h, _, q, s', hm, _ => by rw [simPapers_nil] at h; cases h; cases hm
  | (path, s) :: rest, w, r, h, hnd, q, s'', hm, hq => by
    rw [simPapers_cons] at h
    obtain ⟨s', _, h⟩ := bind_eq_ok h
    obtain ⟨r1, h1, rfl⟩ := map_eq_ok h
    simp only [List.map_cons, List.nodup_cons] at hnd
    rcases List.mem_cons.1 hm with heq | hm'
    · cases heq
      obtain ⟨sd, kk, g1, g2⟩ := paperT_iff.1 hq
      exact simPapers_keep rest _ r1 h1 hnd.1 (setPaperPx_paperIn_self g1 g2)
    · exact simPapers_paperIn rest _ r1 h1 hnd.2 q s'' hm' (setPaperPx_paperT hq)

theorem simPapers0_paperT {d : Nat} {q : List Nat} : ∀ (papers : List (List Nat × Sim K)) (w : World K)
    (r : List (List Nat × Sim K) × World K), simPapers0 cfg d papers w = .ok r →
    PaperT w.root q → PaperT r.2.root q
  | [], w, r, h, hq => by rw [simPapers0_nil] at h; cases h; exact hq
  | (path, s) :: rest, w, r, h, hq => by
    rw [simPapers0_cons] at h
    obtain ⟨s', _, h⟩ := bind_eq_ok h
    obtain ⟨r1, h1, rfl⟩ := map_eq_ok h
    exact simPapers0_paperT rest _ r1 h1 (setPaperPx_paperT hq)

/-- a price reported at `q` survives the stepping of shadow copies at other paths -/
theorem simPapers0_keep {d : Nat} {q : List Nat} {px : K} : ∀ (papers : List (List Nat × Sim K)) (w : World K)
    (r : List (List Nat × Sim K) × World K), simPapers0 cfg d papers w = .ok r →
    q ∉ papers.map (·.1) → PaperIn px w.root q → PaperIn px r.2.root q
  | [], w, r, h, _, hq => by rw [simPapers0_nil] at h; cases h; exact hq
  | (path, s) :: rest, w, r, h, hn, hq => by
    rw [simPapers0_cons] at h
    obtain ⟨s', _, h⟩ := bind_eq_ok h
    obtain ⟨r1, h1, rfl⟩ := map_eq_ok h
    simp only [List.map_cons, List.mem_cons, not_or] at hn
    exact simPapers0_keep rest _ r1 h1 hn.2 (setPaperPx_paperIn_ne hn.1 hq)

/-- after the shadow copies have been stepped, every paper-traded strategy that has one (distinct paths) reports
    the price of its stepped copy -/
theorem simPapers0_paperIn {d : Nat} : ∀ (papers : List (List Nat × Sim K)) (w : World K)
    (r : List (List Nat × Sim K) × World K), simPapers0 cfg d papers w = .ok r →
    (papers.map (·.1)).Nodup → ∀ q s', (q, s') ∈ r.1 → PaperT w.root q → PaperIn s'.world.price r.2.root q
  | [], w, r, h, _, q, s', hm, _ => by rw [simPapers0_nil] at h; cases h; cases hm
  | (path, s) :: rest, w, r, h, hnd, q, s'', hm, hq => by
    rw [simPapers0_cons] at h
    obtain ⟨s', _, h⟩ := bind_eq_ok h
    obtain ⟨r1, h1, rfl⟩ := map_eq_ok h
    simp only [List.map_cons, List.nodup_cons] at hnd
    rcases List.mem_cons.1 hm with heq | hm'
    · cases heq
      obtain ⟨sd, kk, g1, g2⟩ := paperT_iff.1 hq
      exact simPapers0_keep rest _ r1 h1 hnd.1 (setPaperPx_paperIn_self g1 g2)
    · exact simPapers0_paperIn rest _ r1 h1 hnd.2 q s'' hm' (setPaperPx_paperT hq)

/-- **one date of a nested backtest**: every shadow copy is stepped by its own `simDay`, and at the end of the
    day every paper-traded strategy of the tree that has a shadow copy shows the stepped copy's price as its own
    price, recorded at row `d` -/
theorem simDay_child_price {d : Nat} {w : World K} {t : ProgTree K} {papers : List (List Nat × Sim K)}
    {S' : Sim K} (h : simDay cfg d (.mk w t papers) = .ok S') (hnd : (papers.map (·.1)).Nodup) :
    ∃ w' papers', S' = .mk w' t papers' ∧
      List.Forall₂ (fun a b => a.1 = b.1 ∧ simDay cfg d a.2 = .ok b.2) papers papers' ∧
      ∀ q s', (q, s') ∈ papers' → PaperT w.root q → PaperAt d s'.world.price w'.root q := by
  rw [simDay_mk] at h
  obtain ⟨r, hr, h⟩ := bind_eq_ok h
  obtain ⟨w2, h2, rfl⟩ := map_eq_ok h
  exact ⟨w2, r.1, rfl, simPapers_forall₂ _ _ _ hr, fun q s' hm hq =>
    btDay_paperAt (treeRun_runC_true t []) h2 (simPapers_paperIn _ _ _ hr hnd q s' hm hq)⟩

theorem simDay_paperT {d : Nat} {S S' : Sim K} {q : List Nat} (h : simDay cfg d S = .ok S')
    (hq : PaperT S.world.root q) : PaperT S'.world.root q := by
  obtain ⟨w, t, papers⟩ := S
  rw [simDay_mk] at h
  obtain ⟨r, hr, h⟩ := bind_eq_ok h
  obtain ⟨w2, h2, rfl⟩ := map_eq_ok h
  obtain ⟨px, hin⟩ := simPapers_paperT _ _ _ hr hq
  exact ⟨px, (btDay_paperAt (treeRun_runC_true t []) h2 hin).paperIn⟩

theorem simLoop_paperT {q : List Nat} : ∀ (ds : List Nat) {S S' : Sim K}, simLoop cfg ds S = .ok S' →
    PaperT S.world.root q → PaperT S'.world.root q
  | [], S, S', h, hq => by cases h; exact hq
  | d :: ds, S, S', h, hq => by
    rw [simLoop_cons] at h
    obtain ⟨S1, h1, h2⟩ := bind_eq_ok h
    exact simLoop_paperT ds h2 (simDay_paperT h1 hq)

/-- the first date of `simRun` (capital, shadow copies stepped, `update(d0)`) -/
theorem simRun_first_child_price {c : K} {d0 : Nat} {w0 : World K} {t : ProgTree K}
    {papers : List (List Nat × Sim K)} {S' : Sim K} (h : simRun cfg c [d0] (.mk w0 t papers) = .ok S')
    (hnd : (papers.map (·.1)).Nodup) :
    ∃ w' papers', S' = .mk w' t papers' ∧
      ∀ q s', (q, s') ∈ papers' → PaperT w0.root q → PaperAt d0 s'.world.price w'.root q := by
  rw [simRun_mk] at h
  obtain ⟨w1, h1, h⟩ := bind_eq_ok h
  obtain ⟨r, hr, h⟩ := bind_eq_ok h
  obtain ⟨w3, h3, h⟩ := bind_eq_ok h
  cases h
  refine ⟨w3, r.1, rfl, fun q s' hm hq => ?_⟩
  have hl := ((RunC.single (C := fun _ => True) (.adjust _ _ _ _ h1)).lift (paperLaws cfg) (wok_true w0)).1
  obtain ⟨px, hin⟩ := hq
  exact updRoot_paperAt h3 (simPapers0_paperIn _ _ _ hr hnd q s' hm ⟨px, paperIn_of_lift hl hin⟩)

/-- **a whole nested backtest**: at the end, on the last date `dl`, every paper-traded strategy that has a shadow
    copy shows the final copy's price, recorded at row `dl` -/
theorem simRun_child_price {c : K} {d0 : Nat} {ds : List Nat} {w0 : World K} {t : ProgTree K}
    {papers : List (List Nat × Sim K)} {S' : Sim K} (h : simRun cfg c (d0 :: ds) (.mk w0 t papers) = .ok S')
    (hnd : (papers.map (·.1)).Nodup) :
    ∃ w' papers', S' = .mk w' t papers' ∧
      ∀ q s', (q, s') ∈ papers' → PaperT w0.root q →
        PaperAt (ds.getLastD d0) s'.world.price w'.root q := by
  rcases List.eq_nil_or_concat ds with rfl | ⟨ds', dl, rfl⟩
  · exact simRun_first_child_price h hnd
  · rw [List.concat_eq_append] at h ⊢
    have hlast : (ds' ++ [dl]).getLastD d0 = dl := by simp
    rw [hlast]
    rw [simRun_prefix] at h
    obtain ⟨S1, h1, h2⟩ := bind_eq_ok h
    obtain ⟨w1, p1, rfl, f1⟩ := simRun_papers h1
    rw [simLoop_cons] at h2
    obtain ⟨S2, h2, h3⟩ := bind_eq_ok h2
    cases h3
    have hnd1 : (p1.map (·.1)).Nodup := by
      rw [← forall₂_paths (R := fun a b => simShadow cfg (d0 :: ds') a = .ok b) f1]; exact hnd
    obtain ⟨w', papers', rfl, _, hp⟩ := simDay_child_price h2 hnd1
    refine ⟨w', papers', rfl, fun q s' hm hq => hp q s' hm ?_⟩
    -- the strategy at `q` is still paper-traded in `w1`
    rw [simRun_mk] at h1
    obtain ⟨wa, ha, h1⟩ := bind_eq_ok h1
    obtain ⟨r, hr, h1⟩ := bind_eq_ok h1
    obtain ⟨w3, h3, h1⟩ := bind_eq_ok h1
    have hl := ((RunC.single (C := fun _ => True) (.adjust _ _ _ _ ha)).lift (paperLaws cfg) (wok_true w0)).1
    obtain ⟨px, hin⟩ := hq
    obtain ⟨px', hin'⟩ := simPapers0_paperT _ _ _ hr ⟨px, paperIn_of_lift hl hin⟩
    exact simLoop_paperT ds' h1 ⟨px', (updRoot_paperAt h3 hin').paperIn⟩

end price

end Bt.PProg
