import Bt.Algos.Report
import Bt.Proofs.Select
import Mathlib.Algebra.Order.Field.Basic
import Mathlib.Algebra.BigOperators.Group.List.Basic
import Mathlib.Algebra.Order.BigOperators.Group.List
import Mathlib.Data.List.Perm.Basic
import Mathlib.Tactic.Ring
import Mathlib.Tactic.Linarith
import Mathlib.Tactic.FieldSimp
/-! Helper lemmas about the report model (`Bt.Algos.Report`) over a linearly ordered field. -/
namespace Bt.Report
set_option linter.unusedSectionVars false
set_option linter.unusedSimpArgs false
set_option linter.unusedVariables false

section Field
variable {ι : Type} [DecidableEq ι] {K : Type} [Field K] [LinearOrder K] [IsStrictOrderedRing K]

/-! ### numbers -/

theorem ofNum_eq (x : K) : ofNum x = some x := by simp [ofNum]

theorem divO_eq (a b : K) : divO a b = some (a / b) := by simp [divO, ofNum_eq]

theorem foldl_add (l : List K) (a : K) : l.foldl (fun a x => a + x) a = a + l.sum := by
  induction l generalizing a with
  | nil => simp
  | cons x xs ih => simp [List.foldl_cons, ih, add_assoc]

theorem sumL_eq (l : List K) : sumL l = l.sum := by
  unfold sumL; rw [foldl_add]; simp

theorem foldl_addSome (l : List (Option K)) (a : K) : l.foldl addSome a = a + (l.filterMap id).sum := by
  induction l generalizing a with
  | nil => simp
  | cons o os ih =>
    cases o with
    | none => simp [List.foldl_cons, ih, addSome]
    | some x => simp [List.foldl_cons, ih, addSome, add_assoc]

theorem sumSome_eq (l : List (Option K)) : sumSome l = (l.filterMap id).sum := by
  unfold sumSome; rw [foldl_addSome]; simp

theorem sumSome_map_some (l : List K) : sumSome (l.map some) = l.sum := by
  rw [sumSome_eq]; congr 1; induction l with
  | nil => rfl
  | cons x xs ih => simp [ih]

theorem absA_eq (x : K) : absA x = |x| := by
  unfold absA
  by_cases h : x < 0
  · simp [h, abs_of_neg h]
  · simp [h, abs_of_nonneg (not_lt.1 h)]

theorem posPart_eq (x : K) : posPart x = max x 0 := by
  unfold posPart
  by_cases h : 0 ≤ x
  · simp [h]
  · simp [h, le_of_lt (not_le.1 h)]

theorem negPart_eq (x : K) : negPart x = min x 0 := by
  unfold negPart
  by_cases h : x < 0
  · simp [h, le_of_lt h]
  · simp [h, not_lt.1 h]

theorem minA_eq (a b : K) : minA a b = min a b := by
  unfold minA
  by_cases h : b < a
  · simp [h, min_eq_right (le_of_lt h)]
  · simp [h, min_eq_left (not_lt.1 h)]

theorem isNonzero_iff (d : K) : isNonzero d = true ↔ d ≠ 0 := by
  unfold isNonzero
  simp only [Bool.or_eq_true, decide_eq_true_eq]
  constructor
  · rintro (h | h)
    · exact ne_of_lt h
    · exact ne_of_gt h
  · intro h
    exact lt_or_gt_of_ne h

theorem isNonzero_false (d : K) : isNonzero d = false ↔ d = 0 := by
  rw [← not_iff_not]; simp [isNonzero_iff]

/-- sales: the absolute value of a sum of non-positive terms is the sum of their negations -/
theorem abs_sum_min (l : List K) : |(l.map (fun x => min x 0)).sum| = (l.map (fun x => max (-x) 0)).sum := by
  have h1 : (l.map (fun x => min x 0)).sum ≤ 0 := by
    induction l with
    | nil => simp
    | cons x xs ih => simp only [List.map_cons, List.sum_cons]; have := min_le_right x 0; linarith
  rw [abs_of_nonpos h1]
  induction l with
  | nil => simp
  | cons x xs ih =>
    have hx : -(min x 0) = max (-x) 0 := by
      rcases le_total x 0 with h | h
      · rw [min_eq_left h, max_eq_left (by linarith)]
      · rw [min_eq_right h, max_eq_right (by linarith)]; simp
    have h2 : (xs.map (fun x => min x 0)).sum ≤ 0 := by
      clear ih h1
      induction xs with
      | nil => simp
      | cons y ys ih => simp only [List.map_cons, List.sum_cons]; have := min_le_right y 0; linarith
    simp only [List.map_cons, List.sum_cons, neg_add, hx, ih h2]

/-! ### aggregation of same-named entries -/

/-- the sum of the entries named `k` -/
def sumFor (k : ι) (l : List (ι × K)) : K := ((l.filter (fun kx => decide (kx.1 = k))).map Prod.snd).sum

theorem sumFor_nil (k : ι) : sumFor k ([] : List (ι × K)) = 0 := rfl

theorem sumFor_cons (k : ι) (a : ι × K) (l : List (ι × K)) :
    sumFor k (a :: l) = (if a.1 = k then a.2 else 0) + sumFor k l := by
  unfold sumFor
  by_cases h : a.1 = k <;> simp [List.filter_cons, h]

theorem sumFor_perm {l₁ l₂ : List (ι × K)} (p : l₁.Perm l₂) (k : ι) : sumFor k l₁ = sumFor k l₂ := by
  unfold sumFor
  exact ((p.filter _).map _).sum_eq

theorem getK_addTo_self (k : ι) (x : K) (acc : List (ι × K)) :
    getK k (addTo k x acc) = some ((getK k acc).getD 0 + x) := by
  induction acc with
  | nil => simp [addTo, getK]
  | cons a r ih =>
    obtain ⟨k', y⟩ := a
    by_cases h : k' = k
    · simp [addTo, getK, h]
    · simp [addTo, getK, h, ih]

theorem getK_addTo_ne {k k' : ι} (h : k' ≠ k) (x : K) (acc : List (ι × K)) :
    getK k' (addTo k x acc) = getK k' acc := by
  induction acc with
  | nil => simp [addTo, getK, Ne.symm h]
  | cons a r ih =>
    obtain ⟨k'', y⟩ := a
    by_cases h2 : k'' = k
    · subst h2
      by_cases h3 : k'' = k'
      · exact absurd h3.symm h
      · simp [addTo, getK, h3]
    · by_cases h3 : k'' = k'
      · subst h3; simp [addTo, getK, h]
      · simp [addTo, getK, h2, h3, ih]

theorem getK_isSome_iff (k : ι) (l : List (ι × K)) : (getK k l).isSome ↔ k ∈ l.map Prod.fst := by
  induction l with
  | nil => simp [getK]
  | cons a r ih =>
    obtain ⟨k', y⟩ := a
    by_cases h : k' = k
    · simp [getK, h]
    · simp [getK, h, ih, Ne.symm h]

/-- the aggregation loop: a name has a column iff it had one or occurs; the column holds the old value
    plus the sum of the new entries of that name -/
theorem getK_groupFrom (k : ι) (l acc : List (ι × K)) :
    getK k (groupFrom acc l) =
      if (getK k acc).isSome ∨ k ∈ l.map Prod.fst then some ((getK k acc).getD 0 + sumFor k l) else none := by
  induction l generalizing acc with
  | nil =>
    cases h : getK k acc <;> simp [groupFrom, sumFor_nil, h]
  | cons a r ih =>
    obtain ⟨k', x⟩ := a
    rw [groupFrom, ih, sumFor_cons]
    by_cases h : k' = k
    · subst h
      simp [getK_addTo_self, add_assoc]
    · simp only [getK_addTo_ne (Ne.symm h) x acc, h, ↓reduceIte, zero_add, List.map_cons, List.mem_cons,
        Ne.symm h, false_or]

theorem getK_groupSum (k : ι) (l : List (ι × K)) :
    getK k (groupSum l) = if k ∈ l.map Prod.fst then some (sumFor k l) else none := by
  unfold groupSum
  rw [getK_groupFrom]
  have : ((getK k ([] : List (ι × K))).isSome = true) = False := by simp [getK]
  simp only [this, false_or]
  simp [getK]

/-- aggregation is a permutation-invariant sum per name -/
theorem getK_groupSum_perm {l₁ l₂ : List (ι × K)} (p : l₁.Perm l₂) (k : ι) :
    getK k (groupSum l₁) = getK k (groupSum l₂) := by
  rw [getK_groupSum, getK_groupSum, sumFor_perm p k]
  have : k ∈ l₁.map Prod.fst ↔ k ∈ l₂.map Prod.fst := (p.map _).mem_iff
  by_cases h : k ∈ l₁.map Prod.fst
  · simp [h, this.1 h]
  · simp [h, mt this.2 h]

theorem sum_addTo (k : ι) (x : K) (acc : List (ι × K)) :
    ((addTo k x acc).map Prod.snd).sum = (acc.map Prod.snd).sum + x := by
  induction acc with
  | nil => simp [addTo]
  | cons a r ih =>
    obtain ⟨k', y⟩ := a
    by_cases h : k' = k
    · simp [addTo, h]; ring
    · simp [addTo, h, ih]; ring

theorem sum_groupFrom (l acc : List (ι × K)) :
    ((groupFrom acc l).map Prod.snd).sum = (acc.map Prod.snd).sum + (l.map Prod.snd).sum := by
  induction l generalizing acc with
  | nil => simp [groupFrom]
  | cons a r ih =>
    obtain ⟨k, x⟩ := a
    rw [groupFrom, ih, sum_addTo]; simp; ring

/-- the columns of an aggregated frame add up to the sum of all entries -/
theorem sum_groupSum (l : List (ι × K)) : ((groupSum l).map Prod.snd).sum = (l.map Prod.snd).sum := by
  unfold groupSum; rw [sum_groupFrom]; simp

theorem keys_addTo (k : ι) (x : K) (acc : List (ι × K)) :
    (addTo k x acc).map Prod.fst = if k ∈ acc.map Prod.fst then acc.map Prod.fst else acc.map Prod.fst ++ [k] := by
  induction acc with
  | nil => simp [addTo]
  | cons a r ih =>
    obtain ⟨k', y⟩ := a
    by_cases h : k' = k
    · simp [addTo, h]
    · simp only [addTo, h, ↓reduceIte, List.map_cons, ih, List.mem_cons, Ne.symm h, false_or]
      by_cases h2 : k ∈ r.map Prod.fst <;> simp [h2]

theorem nodup_addTo (k : ι) (x : K) (acc : List (ι × K)) (h : (acc.map Prod.fst).Nodup) :
    ((addTo k x acc).map Prod.fst).Nodup := by
  rw [keys_addTo]
  by_cases h2 : k ∈ acc.map Prod.fst
  · simp [h2, h]
  · simp only [h2, ↓reduceIte]
    rw [List.nodup_append]
    refine ⟨h, by simp, ?_⟩
    intro a ha b hb
    simp at hb; subst hb
    intro hab; subst hab; exact h2 ha

theorem nodup_groupFrom (l acc : List (ι × K)) (h : (acc.map Prod.fst).Nodup) :
    ((groupFrom acc l).map Prod.fst).Nodup := by
  induction l generalizing acc with
  | nil => simpa [groupFrom]
  | cons a r ih =>
    obtain ⟨k, x⟩ := a
    rw [groupFrom]; exact ih _ (nodup_addTo k x acc h)

/-- an aggregated frame has one column per name -/
theorem nodup_groupSum (l : List (ι × K)) : ((groupSum l).map Prod.fst).Nodup :=
  nodup_groupFrom l [] (by simp)

theorem getK_of_mem_nodup {l : List (ι × K)} (h : (l.map Prod.fst).Nodup) {k : ι} {x : K} (hm : (k, x) ∈ l) :
    getK k l = some x := by
  induction l with
  | nil => simp at hm
  | cons a r ih =>
    obtain ⟨k', y⟩ := a
    simp only [List.map_cons, List.nodup_cons] at h
    rcases List.mem_cons.1 hm with h1 | h1
    · cases h1; simp [getK]
    · have : k' ≠ k := by
        intro e; subst e; exact h.1 (List.mem_map.2 ⟨(k', x), h1, rfl⟩)
      simp [getK, this, ih h.2 h1]

theorem mem_of_getK {l : List (ι × K)} {k : ι} {x : K} (h : getK k l = some x) : (k, x) ∈ l := by
  induction l with
  | nil => simp [getK] at h
  | cons a r ih =>
    obtain ⟨k', y⟩ := a
    by_cases h2 : k' = k
    · simp [getK, h2] at h; subst h; subst h2; simp
    · simp [getK, h2] at h; exact List.mem_cons_of_mem _ (ih h)

/-! ### transactions: the quantities telescope -/

section Txn
variable [LE ι] [DecidableLE ι]

/-- the position the previous row holds for `k` (0 before the first row) -/
def base (prev : Option (List (ι × K))) (k : ι) : K :=
  match prev with
  | none => 0
  | some pv => (getK k pv).getD 0

theorem qtyAt_eq (prev : Option (List (ι × K))) (k : ι) (cur : K) : qtyAt prev k cur = cur - base prev k := by
  cases prev with
  | none => simp [qtyAt, base]
  | some pv => cases h : getK k pv <;> simp [qtyAt, base, h]

theorem cumQty_nil (k : ι) (t : Nat) : cumQty k t ([] : List (Txn ι K)) = 0 := by
  simp [cumQty, sumL_eq]

theorem cumQty_cons (k : ι) (t' : Nat) (r : Txn ι K) (l : List (Txn ι K)) :
    cumQty k t' (r :: l) = (if r.name = k ∧ r.date ≤ t' then r.qty else 0) + cumQty k t' l := by
  unfold cumQty
  rw [sumL_eq, sumL_eq]
  by_cases h : r.name = k ∧ r.date ≤ t'
  · have : (decide (r.name = k) && decide (r.date ≤ t')) = true := by simp [h.1, h.2]
    simp [List.filter_cons, this, h]
  · have : (decide (r.name = k) && decide (r.date ≤ t')) = false := by
      rw [Bool.and_eq_false_iff]
      by_cases h1 : r.name = k
      · right; simp; by_contra h2; exact h ⟨h1, by omega⟩
      · left; simp [h1]
    simp [List.filter_cons, this, h]

theorem cumQty_append (k : ι) (t' : Nat) (l₁ l₂ : List (Txn ι K)) :
    cumQty k t' (l₁ ++ l₂) = cumQty k t' l₁ + cumQty k t' l₂ := by
  induction l₁ with
  | nil => simp [cumQty_nil]
  | cons r l ih => rw [List.cons_append, cumQty_cons, cumQty_cons, ih, add_assoc]

theorem cumQty_zero_of_later (k : ι) (t' : Nat) (l : List (Txn ι K)) (h : ∀ r ∈ l, t' < r.date) :
    cumQty k t' l = 0 := by
  induction l with
  | nil => exact cumQty_nil k t'
  | cons r l ih =>
    rw [cumQty_cons, ih (fun x hx => h x (List.mem_cons_of_mem _ hx))]
    have : ¬ (r.name = k ∧ r.date ≤ t') := by
      intro hh; have := h r (List.mem_cons_self ..); omega
    simp [this]

/-- what the entry `kx` of a date's aggregated positions adds to the cumulated quantity of `k` -/
def contrib (prev : Option (List (ι × K))) (k : ι) (kx : ι × K) : K :=
  if kx.1 = k then qtyAt prev kx.1 kx.2 else 0

theorem cumQty_filterMap_rows (bo : Bool) (t : Nat) (prev : Option (List (ι × K))) (s : Snap ι K) (k : ι) (t' : Nat)
    (l : List (ι × K)) :
    cumQty k t' (l.filterMap (txnRow bo t prev s)) = if t ≤ t' then (l.map (contrib prev k)).sum else 0 := by
  induction l with
  | nil => simp [cumQty_nil]
  | cons kx r ih =>
    rw [List.filterMap_cons]
    by_cases hz : isNonzero (qtyAt prev kx.1 kx.2) = true
    · simp only [txnRow, hz, ↓reduceIte]
      rw [cumQty_cons, ih]
      by_cases ht : t ≤ t'
      · by_cases hk : kx.1 = k <;> simp [ht, hk, contrib]
      · by_cases hk : kx.1 = k <;> simp [ht, hk]
    · have hz0 : qtyAt prev kx.1 kx.2 = 0 := (isNonzero_false _).1 (by simpa using hz)
      simp only [txnRow, hz, Bool.false_eq_true, ↓reduceIte]
      rw [ih]
      by_cases ht : t ≤ t'
      · by_cases hk : kx.1 = k
        · subst hk; simp [ht, contrib, hz0]
        · simp [ht, hk, contrib]
      · simp [ht]

theorem sum_contrib (prev : Option (List (ι × K))) (k : ι) (l : List (ι × K)) (h : (l.map Prod.fst).Nodup) :
    (l.map (contrib prev k)).sum = match getK k l with
      | some cur => qtyAt prev k cur
      | none => 0 := by
  induction l with
  | nil => simp [getK]
  | cons a r ih =>
    obtain ⟨k', y⟩ := a
    simp only [List.map_cons, List.nodup_cons] at h
    by_cases hk : k' = k
    · subst hk
      have hnone : getK k' r = none := by
        cases hg : getK k' r with
        | none => rfl
        | some v => exact absurd (List.mem_map.2 ⟨(k', v), mem_of_getK hg, rfl⟩) h.1
      have hr := ih h.2
      rw [hnone] at hr
      simp [contrib, getK, hr]
    · simp [contrib, getK, hk, ih h.2]

theorem cumQty_txnRows (bo : Bool) (t : Nat) (prev : Option (List (ι × K))) (s : Snap ι K) (k : ι) (t' : Nat) :
    cumQty k t' (txnRows bo t prev s) =
      if t ≤ t' then (match getK k (positionsAt s) with
        | some cur => cur - base prev k
        | none => 0) else 0 := by
  unfold txnRows
  rw [cumQty_filterMap_rows]
  by_cases ht : t ≤ t'
  · simp only [ht, ↓reduceIte]
    have hp : (sortedPositions s).Perm (positionsAt s) := Bt.Select.sortBy_perm _ _
    have hnd : ((positionsAt s).map Prod.fst).Nodup := nodup_groupSum _
    rw [(hp.map (contrib prev k)).sum_eq, sum_contrib prev k _ hnd]
    cases getK k (positionsAt s) with
    | none => rfl
    | some cur => simp [qtyAt_eq]
  · simp [ht]

theorem date_txnRows {bo : Bool} {t : Nat} {prev : Option (List (ι × K))} {s : Snap ι K} {r : Txn ι K}
    (h : r ∈ txnRows bo t prev s) : r.date = t := by
  unfold txnRows at h
  rcases List.mem_filterMap.1 h with ⟨kx, _, hr⟩
  unfold txnRow at hr
  split at hr
  · cases hr; rfl
  · cases hr

theorem date_txnFrom {bo : Bool} : ∀ (H : List (Snap ι K)) (t : Nat) (prev : Option (List (ι × K))) (r : Txn ι K),
    r ∈ txnFrom bo t prev H → t ≤ r.date
  | [], _, _, _, h => by simp [txnFrom] at h
  | s :: rest, t, prev, r, h => by
    rw [txnFrom, List.mem_append] at h
    rcases h with h | h
    · exact le_of_eq (date_txnRows h).symm
    · have := date_txnFrom rest (t + 1) _ r h; omega

/-- telescoping: the quantities of `k` listed up to the date `t0 + j` add up to the aggregated position of that
    date minus the position before the first listed date -/
theorem cumQty_txnFrom (bo : Bool) (k : ι) : ∀ (H : List (Snap ι K)) (t0 : Nat) (prev : Option (List (ι × K))),
    (∀ s ∈ H, (getK k (positionsAt s)).isSome) → ∀ (j : Nat) (s : Snap ι K), H[j]? = some s →
    cumQty k (t0 + j) (txnFrom bo t0 prev H) = (getK k (positionsAt s)).getD 0 - base prev k
  | [], _, _, _, j, s, hs => by simp at hs
  | s0 :: rest, t0, prev, hk, j, s, hs => by
    rw [txnFrom, cumQty_append, cumQty_txnRows]
    have h0 := hk s0 (List.mem_cons_self ..)
    obtain ⟨c0, hc0⟩ := Option.isSome_iff_exists.1 h0
    cases j with
    | zero =>
      simp only [List.getElem?_cons_zero, Option.some.injEq] at hs
      subst hs
      rw [cumQty_zero_of_later]
      · simp [hc0]
      · intro r hr; have := date_txnFrom rest (t0 + 1) _ r hr; omega
    | succ j =>
      simp only [List.getElem?_cons_succ] at hs
      have ih := cumQty_txnFrom bo k rest (t0 + 1) (some (positionsAt s0))
        (fun x hx => hk x (List.mem_cons_of_mem _ hx)) j s hs
      have e : t0 + (j + 1) = t0 + 1 + j := by omega
      rw [e, ih]
      have hle : t0 ≤ t0 + 1 + j := by omega
      simp only [hc0, base, hle, ↓reduceIte, Option.getD_some]
      ring

end Txn

/-! ### replay -/

section Replay

theorem findSec_bumpPos_shape (k k' : ι) (q : K) (l : List (RSec ι K)) :
    (findSec k (bumpPos k' q l)).map (fun s => (s.name, s.mult)) = (findSec k l).map (fun s => (s.name, s.mult)) := by
  induction l with
  | nil => simp [findSec, bumpPos]
  | cons s r ih =>
    obtain ⟨n, m, p⟩ := s
    by_cases h1 : n = k'
    · subst h1
      by_cases h2 : n = k
      · subst h2; simp [findSec, bumpPos]
      · simp [findSec, bumpPos, h2]
    · by_cases h2 : n = k
      · subst h2; simp [findSec, bumpPos, h1]
      · simp [findSec, bumpPos, h1, h2, ih]

theorem multOf_bumpPos (k k' : ι) (q : K) (l : List (RSec ι K)) : multOf k (bumpPos k' q l) = multOf k l := by
  have h := findSec_bumpPos_shape k k' q l
  unfold multOf
  cases h1 : findSec k (bumpPos k' q l) <;> cases h2 : findSec k l <;> simp [h1, h2] at h ⊢
  exact h.2

theorem found_bumpPos (k k' : ι) (q : K) (l : List (RSec ι K)) :
    (findSec k (bumpPos k' q l)).isSome = (findSec k l).isSome := by
  have h := findSec_bumpPos_shape k k' q l
  cases h1 : findSec k (bumpPos k' q l) <;> cases h2 : findSec k l <;> simp [h1, h2] at h ⊢

theorem bumpPos_comm (k k' : ι) (q q' : K) (l : List (RSec ι K)) :
    bumpPos k q (bumpPos k' q' l) = bumpPos k' q' (bumpPos k q l) := by
  induction l with
  | nil => simp [bumpPos]
  | cons s r ih =>
    obtain ⟨n, m, p⟩ := s
    by_cases h1 : n = k
    · subst h1
      by_cases h2 : n = k'
      · subst h2; simp [bumpPos, add_right_comm]
      · simp [bumpPos, h2]
    · by_cases h2 : n = k'
      · subst h2; simp [bumpPos, h1]
      · simp [bumpPos, h1, h2, ih]

/-- a trade of the original run that the list shows as a row of its own and that the replay can repeat -/
structure GoodTrade (tol : K) (fee : K → K → K) (secs : List (RSec ι K)) (px : ι → Option K) (tr : OTrade ι K) : Prop where
  found : (findSec tr.name secs).isSome = true
  nz : isZero tol tr.qty = false
  price : px tr.name = some tr.price
  multEq : multOf tr.name secs = tr.mult
  multNz : tr.mult ≠ 0
  feeEq : fee tr.qty ((tr.price + tr.spread / tr.mult / tr.qty) * tr.mult) = fee tr.qty (tr.price * tr.mult)

theorem GoodTrade.bump {tol : K} {fee : K → K → K} {secs : List (RSec ι K)} {px : ι → Option K} {tr : OTrade ι K}
    (h : GoodTrade tol fee secs px tr) (k' : ι) (q : K) : GoodTrade tol fee (bumpPos k' q secs) px tr :=
  ⟨by rw [found_bumpPos]; exact h.found, h.nz, h.price, by rw [multOf_bumpPos]; exact h.multEq, h.multNz, h.feeEq⟩

theorem qty_ne_zero {tol : K} (htol : 0 < tol) {q : K} (h : isZero tol q = false) : q ≠ 0 := by
  intro e; subst e
  simp [isZero, absA, htol] at h

/-- one row: the replayed transaction books what the original trade booked -/
theorem replayRow_listed {tol : K} (htol : 0 < tol) {fee : K → K → K} {px : ι → Option K} (st : RState ι K)
    {tr : OTrade ι K} (h : GoodTrade tol fee st.secs px tr) :
    replayRow true tol fee px st tr.name (some tr.qty) (ofNum (tr.price + tr.spread / tr.mult / tr.qty)) =
      .ok (applyTrade st tr.name tr.qty (origCost fee (multOf tr.name st.secs) tr)) := by
  obtain ⟨s, hs⟩ := Option.isSome_iff_exists.1 h.found
  have hm : multOf tr.name st.secs = s.mult := by simp [multOf, hs]
  have hsm : s.mult = tr.mult := by rw [← hm]; exact h.multEq
  have hq := qty_ne_zero htol h.nz
  have hmz := h.multNz
  have hcost : replayOutlay tr.qty tr.price (tr.price + tr.spread / tr.mult / tr.qty) s.mult +
      fee tr.qty ((tr.price + tr.spread / tr.mult / tr.qty) * s.mult) = origCost fee s.mult tr := by
    rw [hsm]
    unfold replayOutlay origCost
    rw [h.feeEq]
    have e : tr.qty * (tr.price + tr.spread / tr.mult / tr.qty - tr.price) * tr.mult = tr.spread := by
      field_simp; ring
    rw [e]
  unfold replayRow
  simp only [hs, h.nz, Bool.false_eq_true, ↓reduceIte, Bool.not_true, h.price, ofNum_eq]
  rw [hcost, hm]
  rfl

theorem replayDay_listed_same_order {tol : K} (htol : 0 < tol) {fee : K → K → K} {px : ι → Option K} :
    ∀ (trades : List (OTrade ι K)) (st : RState ι K), (∀ tr ∈ trades, GoodTrade tol fee st.secs px tr) →
    replayDay true tol fee px st (trades.map listedRow) = .ok (origDay fee st trades)
  | [], st, _ => by simp [replayDay, origDay]
  | tr :: rest, st, h => by
    have h0 := h tr (List.mem_cons_self ..)
    simp only [List.map_cons, listedRow, replayDay]
    rw [replayRow_listed htol st h0]
    have ih := replayDay_listed_same_order htol rest (applyTrade st tr.name tr.qty (origCost fee (multOf tr.name st.secs) tr))
      (fun x hx => (h x (List.mem_cons_of_mem _ hx)).bump _ _)
    simp only [ih]
    simp [origDay, List.foldl_cons]

/-- the original day's result does not depend on the order in which its trades were executed -/
theorem origDay_perm {fee : K → K → K} {l₁ l₂ : List (OTrade ι K)} (p : l₁.Perm l₂) (st : RState ι K) :
    origDay fee st l₁ = origDay fee st l₂ := by
  unfold origDay
  apply p.foldl_eq'
  intro x _ y _ z
  simp only [applyTrade, multOf_bumpPos, bumpPos_comm x.name y.name]
  congr 1
  ring

/-- a state with the same children (names, multipliers) -/
def SameShape (a b : List (RSec ι K)) : Prop :=
  ∀ k, (findSec k b).isSome = (findSec k a).isSome ∧ multOf k b = multOf k a

theorem SameShape.refl (a : List (RSec ι K)) : SameShape a a := fun _ => ⟨rfl, rfl⟩

theorem sameShape_origDay (fee : K → K → K) : ∀ (trades : List (OTrade ι K)) (st : RState ι K),
    SameShape st.secs (origDay fee st trades).secs
  | [], st => by simpa [origDay] using SameShape.refl st.secs
  | tr :: rest, st => by
    intro k
    have ih := sameShape_origDay fee rest (applyTrade st tr.name tr.qty (origCost fee (multOf tr.name st.secs) tr)) k
    simp only [origDay, List.foldl_cons] at ih ⊢
    simp only [applyTrade, found_bumpPos, multOf_bumpPos] at ih
    exact ih

theorem GoodTrade.shape {tol : K} {fee : K → K → K} {a b : List (RSec ι K)} {px : ι → Option K} {tr : OTrade ι K}
    (h : GoodTrade tol fee a px tr) (hs : SameShape a b) : GoodTrade tol fee b px tr :=
  ⟨by rw [(hs tr.name).1]; exact h.found, h.nz, h.price, by rw [(hs tr.name).2]; exact h.multEq, h.multNz, h.feeEq⟩

end Replay

/-! ### the per-date reports in closed form -/

section Reports
variable [LE ι] [DecidableLE ι]

theorem sum_map_div (l : List K) (c : K) : (l.map (fun x => x / c)).sum = l.sum / c := by
  induction l with
  | nil => simp
  | cons x xs ih => simp [ih, add_div]

theorem weightsAt_eq (fi : Bool) (n0 : Node ι) (r : Cell K) (rest : Snap ι K) :
    weightsAt fi ((n0, r) :: rest) =
      ((n0, r) :: rest).map (fun nc => (nc.1.full, some (basis fi nc.2 / basis fi r))) := by
  simp [weightsAt, divO_eq]

theorem securityWeightsAt_eq (fi : Bool) (n0 : Node ι) (r : Cell K) (rest : Snap ι K) :
    securityWeightsAt fi ((n0, r) :: rest) =
      (secAgg (basis fi) ((n0, r) :: rest)).map (fun kx => (kx.1, some (kx.2 / basis fi r))) := by
  simp [securityWeightsAt, divO_eq]

theorem cashFractionsAt_eq (n0 : Node ι) (r : Cell K) (rest : Snap ι K) :
    cashFractionsAt ((n0, r) :: rest) =
      (((n0, r) :: rest).filter (fun nc => !nc.1.isSec)).map (fun nc => (nc.1.full, some (nc.2.cash / r.value))) := by
  simp [cashFractionsAt, divO_eq]

theorem sum_secPairs (f : Cell K → K) (s : Snap ι K) :
    ((secPairs f s).map Prod.snd).sum = ((s.filter (fun nc => nc.1.isSec)).map (fun nc => f nc.2)).sum := by
  unfold secPairs
  rw [List.map_map]
  rfl

/-- the aggregated security weights add up to (sum of all securities' values) / root value -/
theorem sumSome_securityWeights (fi : Bool) (n0 : Node ι) (r : Cell K) (rest : Snap ι K) :
    sumSome ((securityWeightsAt fi ((n0, r) :: rest)).map Prod.snd) =
      ((((n0, r) :: rest).filter (fun nc => nc.1.isSec)).map (fun nc => basis fi nc.2)).sum / basis fi r := by
  rw [securityWeightsAt_eq, List.map_map]
  have : (Prod.snd ∘ fun (kx : ι × K) => (kx.1, some (kx.2 / basis fi r))) = some ∘ (fun x => x / basis fi r) ∘ Prod.snd := by
    funext kx; rfl
  rw [this, ← List.map_map, sumSome_map_some, ← List.map_map, sum_map_div]
  unfold secAgg
  rw [sum_groupSum, sum_secPairs]

theorem sumSome_cashFractions (n0 : Node ι) (r : Cell K) (rest : Snap ι K) :
    sumSome ((cashFractionsAt ((n0, r) :: rest)).map Prod.snd) =
      ((((n0, r) :: rest).filter (fun nc => !nc.1.isSec)).map (fun nc => nc.2.cash)).sum / r.value := by
  rw [cashFractionsAt_eq, List.map_map]
  have : (Prod.snd ∘ fun (nc : Node ι × Cell K) => (nc.1.full, some (nc.2.cash / r.value))) =
      some ∘ (fun x => x / r.value) ∘ (fun nc => nc.2.cash) := by
    funext kx; rfl
  rw [this, ← List.map_map, sumSome_map_some, ← List.map_map, sum_map_div]

theorem herfindahlAt_eq (fi : Bool) (n0 : Node ι) (r : Cell K) (rest : Snap ι K) :
    herfindahlAt fi ((n0, r) :: rest) =
      ((secAgg (basis fi) ((n0, r) :: rest)).map (fun kx => (kx.2 / basis fi r) * (kx.2 / basis fi r))).sum := by
  unfold herfindahlAt
  rw [securityWeightsAt_eq, List.map_map]
  have : ((fun (kw : ι × Option K) => Option.map (fun w => w * w) kw.2) ∘
      fun (kx : ι × K) => (kx.1, some (kx.2 / basis fi r))) =
      some ∘ (fun (kx : ι × K) => (kx.2 / basis fi r) * (kx.2 / basis fi r)) := by
    funext kx; rfl
  rw [this, ← List.map_map, sumSome_map_some]

theorem purchasesAt_eq (s : Snap ι K) : purchasesAt s = ((outlaysAt s).map (fun kx => max kx.2 0)).sum := by
  unfold purchasesAt
  rw [sumL_eq]
  congr 1
  exact List.map_congr_left (fun kx _ => posPart_eq kx.2)

theorem salesAt_eq (s : Snap ι K) : salesAt s = ((outlaysAt s).map (fun kx => max (-kx.2) 0)).sum := by
  unfold salesAt
  rw [sumL_eq, absA_eq]
  have h1 : (outlaysAt s).map (fun kx => negPart kx.2) = ((outlaysAt s).map Prod.snd).map (fun x => min x 0) := by
    rw [List.map_map]; exact List.map_congr_left (fun kx _ => negPart_eq kx.2)
  have h2 : (outlaysAt s).map (fun kx => max (-kx.2) 0) = ((outlaysAt s).map Prod.snd).map (fun x => max (-x) 0) := by
    rw [List.map_map]; rfl
  rw [h1, h2, abs_sum_min]

theorem turnoverAt_eq (n0 : Node ι) (r : Cell K) (rest : Snap ι K) (h : outlaysAt ((n0, r) :: rest) ≠ []) :
    turnoverAt ((n0, r) :: rest) =
      some (min ((outlaysAt ((n0, r) :: rest)).map (fun kx => max kx.2 0)).sum
                ((outlaysAt ((n0, r) :: rest)).map (fun kx => max (-kx.2) 0)).sum / r.value) := by
  unfold turnoverAt
  have : (outlaysAt ((n0, r) :: rest)).isEmpty = false := by
    cases h2 : outlaysAt ((n0, r) :: rest) with
    | nil => exact absurd h2 h
    | cons a l => rfl
  simp only [this, Bool.false_eq_true, ↓reduceIte, divO_eq, minA_eq, purchasesAt_eq, salesAt_eq]

end Reports

/-! ### the replay, date by date -/

section ReplayRun

/-- one date of the original run -/
structure ODay (ι K : Type) where
  px : ι → Option K              -- the market prices of the date
  trades : List (OTrade ι K)     -- the executed trades, in execution order
  shown : List (OTrade ι K)      -- the same trades in the order the list shows them (sorted by name)

/-- every trade of the date is shown as a row of its own and can be repeated by the replay -/
def GoodDay (tol : K) (fee : K → K → K) (secs : List (RSec ι K)) (d : ODay ι K) : Prop :=
  d.shown.Perm d.trades ∧ (d.trades.map (fun tr => tr.name)).Nodup ∧ ∀ tr ∈ d.trades, GoodTrade tol fee secs d.px tr

theorem GoodDay.shape {tol : K} {fee : K → K → K} {a b : List (RSec ι K)} {d : ODay ι K}
    (h : GoodDay tol fee a d) (hs : SameShape a b) : GoodDay tol fee b d :=
  ⟨h.1, h.2.1, fun tr htr => (h.2.2 tr htr).shape hs⟩

theorem replayDay_listed {tol : K} (htol : 0 < tol) {fee : K → K → K} (st : RState ι K) {d : ODay ι K}
    (h : GoodDay tol fee st.secs d) :
    replayDay true tol fee d.px st (d.shown.map listedRow) = .ok (origDay fee st d.trades) := by
  rw [replayDay_listed_same_order htol d.shown st (fun tr htr => h.2.2 tr (h.1.mem_iff.1 htr)), origDay_perm h.1]

theorem replayRun_listed {tol : K} (htol : 0 < tol) (fee : K → K → K) (rows : Nat → List (ι × Option K × Option K)) :
    ∀ (days : List (ODay ι K)) (t0 : Nat) (st : RState ι K),
      (∀ j d, days[j]? = some d → rows (t0 + j) = d.shown.map listedRow) →
      (∀ d ∈ days, GoodDay tol fee st.secs d) →
      replayRun true tol fee rows t0 st (days.map (fun d => d.px)) = .ok (origRun fee st (days.map (fun d => d.trades)))
  | [], _, _, _, _ => by simp [replayRun, origRun]
  | d :: rest, t0, st, hrows, hgood => by
    have h0 := hgood d (List.mem_cons_self ..)
    have hr0 : rows t0 = d.shown.map listedRow := by simpa using hrows 0 d (by simp)
    simp only [List.map_cons, replayRun, origRun, hr0, replayDay_listed htol st h0]
    have ih := replayRun_listed htol fee rows rest (t0 + 1) (origDay fee st d.trades)
      (fun j x hx => by
        have := hrows (j + 1) x (by simpa using hx)
        rw [← this]; congr 1; omega)
      (fun x hx => (hgood x (List.mem_cons_of_mem _ hx)).shape (sameShape_origDay fee d.trades st))
    simp only [ih]

end ReplayRun

/-! ### the replay reproduces the positions of every run whose replay completes -/

section ReplayPositions
variable [LE ι] [DecidableLE ι]

/-- position of the child named `k` -/
def posOfSec (k : ι) (secs : List (RSec ι K)) : Option K := (findSec k secs).map (fun s => s.pos)

theorem posOfSec_bumpPos (k k' : ι) (q : K) (l : List (RSec ι K)) :
    posOfSec k (bumpPos k' q l) = (posOfSec k l).map (fun x => x + (if k' = k then q else 0)) := by
  unfold posOfSec
  induction l with
  | nil => simp [findSec, bumpPos]
  | cons s r ih =>
    obtain ⟨n, m, p⟩ := s
    by_cases h1 : n = k'
    · subst h1
      by_cases h2 : n = k
      · subst h2; simp [findSec, bumpPos]
      · simp [findSec, bumpPos, h2]
        cases findSec k r <;> simp
    · by_cases h2 : n = k
      · subst h2; simp [findSec, bumpPos, h1]
        intro e; exact absurd e.symm h1
      · simp [findSec, bumpPos, h1, h2]
        simpa using ih

/-- the quantity the rows of one call add to the child `k` -/
def dayQty (k : ι) (rows : List (ι × Option K × Option K)) : K :=
  ((rows.filter (fun r => decide (r.1 = k))).map (fun r => r.2.1.getD 0)).sum

theorem dayQty_nil (k : ι) : dayQty k ([] : List (ι × Option K × Option K)) = 0 := rfl

theorem dayQty_cons (k : ι) (r : ι × Option K × Option K) (l : List (ι × Option K × Option K)) :
    dayQty k (r :: l) = (if r.1 = k then r.2.1.getD 0 else 0) + dayQty k l := by
  unfold dayQty
  by_cases h : r.1 = k <;> simp [List.filter_cons, h]

/-- a row whose quantity is present and not `is_zero` either fails or bumps exactly that child -/
theorem replayRow_secs {bo : Bool} {tol : K} {fee : K → K → K} {px : ι → Option K} {st st' : RState ι K} {k : ι} {q : K}
    {P : Option K} (hz : isZero tol q = false) (h : replayRow bo tol fee px st k (some q) P = .ok st') :
    st'.secs = bumpPos k q st.secs := by
  unfold replayRow at h
  cases hf : findSec k st.secs with
  | none => simp [hf] at h
  | some s =>
    simp only [hf, hz, Bool.false_eq_true, ↓reduceIte] at h
    cases bo with
    | false => simp at h
    | true =>
      simp only [Bool.not_true, Bool.false_eq_true, ↓reduceIte] at h
      cases hp : px k with
      | none => simp [hp] at h
      | some p =>
        cases P with
        | none => simp [hp] at h
        | some P =>
          simp only [hp] at h
          cases h; rfl

theorem replayDay_pos {bo : Bool} {tol : K} {fee : K → K → K} {px : ι → Option K} (k : ι) :
    ∀ (rows : List (ι × Option K × Option K)) (st st' : RState ι K),
      (∀ r ∈ rows, ∃ q, r.2.1 = some q ∧ isZero tol q = false) →
      replayDay bo tol fee px st rows = .ok st' →
      posOfSec k st'.secs = (posOfSec k st.secs).map (fun x => x + dayQty k rows)
  | [], st, st', _, h => by
    simp only [replayDay] at h; cases h
    cases posOfSec k st.secs <;> simp [dayQty_nil]
  | (k', oq, P) :: rest, st, st', hq, h => by
    obtain ⟨q, hq1, hq2⟩ := hq (k', oq, P) (List.mem_cons_self ..)
    simp only at hq1; subst hq1
    simp only [replayDay] at h
    cases hr : replayRow bo tol fee px st k' (some q) P with
    | error e => simp [hr] at h
    | ok st1 =>
      simp only [hr] at h
      have ih := replayDay_pos k rest st1 st' (fun r hr => hq r (List.mem_cons_of_mem _ hr)) h
      rw [ih, replayRow_secs hq2 hr, posOfSec_bumpPos, dayQty_cons]
      cases posOfSec k st.secs with
      | none => rfl
      | some x => simp; ring

theorem replayRun_pos {bo : Bool} {tol : K} {fee : K → K → K} (rows : Nat → List (ι × Option K × Option K)) (k : ι)
    (hq : ∀ t, ∀ r ∈ rows t, ∃ q, r.2.1 = some q ∧ isZero tol q = false) :
    ∀ (pxs : List (ι → Option K)) (t0 : Nat) (st : RState ι K) (states : List (RState ι K)),
      replayRun bo tol fee rows t0 st pxs = .ok states →
      ∀ (j : Nat) (sj : RState ι K), states[j]? = some sj →
      posOfSec k sj.secs = (posOfSec k st.secs).map (fun x => x + ((List.range (j + 1)).map (fun i => dayQty k (rows (t0 + i)))).sum)
  | [], _, _, states, h, j, sj, hj => by
    simp only [replayRun] at h; cases h; simp at hj
  | px :: rest, t0, st, states, h, j, sj, hj => by
    simp only [replayRun] at h
    cases hd : replayDay bo tol fee px st (rows t0) with
    | error e => simp [hd] at h
    | ok st1 =>
      simp only [hd] at h
      cases hr : replayRun bo tol fee rows (t0 + 1) st1 rest with
      | error e => simp [hr] at h
      | ok l =>
        simp only [hr] at h
        cases h
        have h1 := replayDay_pos k (rows t0) st st1 (hq t0) hd
        cases j with
        | zero =>
          simp only [List.getElem?_cons_zero, Option.some.injEq] at hj
          subst hj
          rw [h1]; simp
        | succ j =>
          simp only [List.getElem?_cons_succ] at hj
          have ih := replayRun_pos rows k hq rest (t0 + 1) st1 l hr j sj hj
          rw [ih, h1]
          have e : ((List.range (j + 1 + 1)).map (fun i => dayQty k (rows (t0 + i)))).sum =
              dayQty k (rows t0) + ((List.range (j + 1)).map (fun i => dayQty k (rows (t0 + 1 + i)))).sum := by
            rw [List.range_succ_eq_map (n := j + 1)]
            simp only [List.map_cons, List.sum_cons, List.map_map, Nat.add_zero]
            congr 2
            apply List.map_congr_left
            intro i _
            simp only [Function.comp]
            congr 2
            omega
          cases posOfSec k st.secs with
          | none => rfl
          | some x => simp only [Option.map_some, Option.map_map, e]; congr 1; ring

theorem dayQty_rowsOn (k : ι) (t : Nat) : ∀ (l : List (Txn ι K)),
    dayQty k (rowsOn t l) = ((l.filter (fun r => decide (r.name = k) && decide (r.date = t))).map (fun r => r.qty)).sum
  | [] => by simp [rowsOn, dayQty]
  | r :: l => by
    have ih := dayQty_rowsOn k t l
    unfold rowsOn at ih ⊢
    by_cases h1 : r.date = t <;> by_cases h2 : r.name = k <;>
      simp [List.filter_cons, h1, h2, dayQty_cons, ih]

theorem cumQty_zero_eq (k : ι) : ∀ (l : List (Txn ι K)), cumQty k 0 l = dayQty k (rowsOn 0 l)
  | [] => by simp [cumQty_nil, rowsOn, dayQty]
  | r :: l => by
    rw [cumQty_cons, cumQty_zero_eq k l, dayQty_rowsOn, dayQty_rowsOn]
    by_cases h1 : r.date = 0 <;> by_cases h2 : r.name = k <;> simp [List.filter_cons, h1, h2]

theorem cumQty_succ (k : ι) (t : Nat) : ∀ (l : List (Txn ι K)),
    cumQty k (t + 1) l = cumQty k t l + dayQty k (rowsOn (t + 1) l)
  | [] => by simp [cumQty_nil, rowsOn, dayQty]
  | r :: l => by
    rw [cumQty_cons, cumQty_cons, cumQty_succ k t l, dayQty_rowsOn, dayQty_rowsOn]
    by_cases h2 : r.name = k
    · rcases Nat.lt_trichotomy r.date (t + 1) with h | h | h
      · have a : r.date ≤ t + 1 := by omega
        have b : r.date ≤ t := by omega
        have c : ¬ r.date = t + 1 := by omega
        simp [List.filter_cons, h2, a, b, c]; ring
      · have a : r.date ≤ t + 1 := by omega
        have b : ¬ r.date ≤ t := by omega
        simp [List.filter_cons, h2, a, b, h]; ring
      · have a : ¬ r.date ≤ t + 1 := by omega
        have b : ¬ r.date ≤ t := by omega
        have c : ¬ r.date = t + 1 := by omega
        simp [List.filter_cons, h2, a, b, c]
    · simp [List.filter_cons, h2]

theorem sum_dayQty_eq_cumQty (k : ι) (l : List (Txn ι K)) : ∀ j : Nat,
    ((List.range (j + 1)).map (fun i => dayQty k (rowsOn (0 + i) l))).sum = cumQty k j l
  | 0 => by simp [cumQty_zero_eq]
  | j + 1 => by
    rw [List.range_succ, List.map_append, List.sum_append, sum_dayQty_eq_cumQty k l j, cumQty_succ]
    simp

end ReplayPositions

end Field

/-! ### concrete runs over ℚ used by the examples and witnesses of `Bt.Props.C18` -/

section Examples

def nodeS (full short : Nat) : Node Nat := { full, short, isSec := false }
def nodeC (full short : Nat) : Node Nat := { full, short, isSec := true }

/-- a strategy's row -/
def cellS (value notl cash price : ℚ) : Cell ℚ :=
  { value, notl, pos := 0, outlay := 0, boPaid := 0, cash, price := some price, mult := 1 }

/-- a security's row (multiplier 1) -/
def cellC (value notl pos outlay boPaid price : ℚ) : Cell ℚ :=
  { value, notl, pos, outlay, boPaid, cash := 0, price := some price, mult := 1 }

/-- a security's row with a multiplier -/
def cellM (value notl pos outlay boPaid price mult : ℚ) : Cell ℚ :=
  { value, notl, pos, outlay, boPaid, cash := 0, price := some price, mult }

/-- root (cash 40) over a security `5` (3 units @10), a sub-strategy (cash 10) and its own security `5` (2 units @10):
    100 = (40 + 10) + (30 + 20) -/
def exSnap : Snap Nat ℚ :=
  [ (nodeS 0 0, cellS 100 50 40 101),
    (nodeC 1 5, cellC 30 30 3 30 0 10),
    (nodeS 2 2, cellS 30 20 10 100),
    (nodeC 3 5, cellC 20 20 2 (-10) 1 10),
    (nodeC 4 7, cellC 0 0 0 (-5) 0 4) ]

/-- the date before `exSnap`: nothing held -/
def exSnap0 : Snap Nat ℚ :=
  [ (nodeS 0 0, cellS 100 0 90 100),
    (nodeC 1 5, cellC 0 0 0 0 0 9),
    (nodeS 2 2, cellS 10 0 10 100),
    (nodeC 3 5, cellC 0 0 0 0 0 9),
    (nodeC 4 7, cellC 0 0 0 0 0 4) ]

def exRun : Run Nat ℚ := { fi := false, boSet := true, dates := [exSnap0, exSnap] }

/-- no commission -/
def fee0 : ℚ → ℚ → ℚ := fun _ _ => 0
/-- commission proportional to the traded notional -/
def feeProp : ℚ → ℚ → ℚ := fun q p => absA q * p / 100

def tolQ : ℚ := 1 / 10 ^ 16

/-- one security `1` (multiplier 1), 1000 in cash -/
def rtStart : RState Nat ℚ := { cash := 1000, secs := [{ name := 1, mult := 1, pos := 0 }] }

/-- a same-date round trip: buy 4 @10 and sell 4 @10, each paying 1 of spread -/
def rtTrades : List (OTrade Nat ℚ) := [{ name := 1, qty := 4, price := 10, spread := 1, mult := 1 }, { name := 1, qty := -4, price := 10, spread := 1, mult := 1 }]

/-- the histories that round trip leaves: the position is 0 before and after, the date's bid/offer paid is 2, cash 998 -/
def rtRun : Run Nat ℚ :=
  { fi := false, boSet := true,
    dates := [ [(nodeS 0 0, cellS 1000 0 1000 100), (nodeC 1 1, cellC 0 0 0 0 0 10)],
               [(nodeS 0 0, cellS 998 0 998 (998 / 10)), (nodeC 1 1, cellC 0 0 0 2 2 10)] ] }

/-- a single buy of 4 @10 paying 1 of spread -/
def oneTrade : OTrade Nat ℚ := { name := 1, qty := 4, price := 10, spread := 1, mult := 1 }

/-- the histories of that single buy -/
def oneRun : Run Nat ℚ :=
  { fi := false, boSet := true,
    dates := [ [(nodeS 0 0, cellS 1000 0 1000 100), (nodeC 1 1, cellC 0 0 0 0 0 10)],
               [(nodeS 0 0, cellS 999 40 959 (999 / 10)), (nodeC 1 1, cellC 40 40 4 41 1 10)] ] }

def px10 : Nat → Option ℚ := fun _ => some 10

/-- one security `1` with multiplier 10, 1000 in cash -/
def mStart : RState Nat ℚ := { cash := 1000, secs := [{ name := 1, mult := 10, pos := 0 }] }

/-- a buy of 4 @10 on a multiplier-10 security with half spread 1/4: 4·¼·10 = 10 of spread (cash) -/
def mTrade : OTrade Nat ℚ := { name := 1, qty := 4, price := 10, spread := 10, mult := 10 }

/-- the histories of that buy -/
def mRun : Run Nat ℚ :=
  { fi := false, boSet := true,
    dates := [ [(nodeS 0 0, cellS 1000 0 1000 100), (nodeC 1 1, cellM 0 0 0 0 0 10 10)],
               [(nodeS 0 0, cellS 990 400 590 99), (nodeC 1 1, cellM 400 400 4 410 10 10 10)] ] }

/-- a ticker `5` held by two nodes: the first bought 3 and paid 1 of spread, the second bought 2 and paid nothing -/
def sharedSnap : Snap Nat ℚ :=
  [ (nodeS 0 0, cellS 100 50 40 101), (nodeC 1 5, cellC 30 30 3 31 1 10), (nodeS 2 2, cellS 30 20 10 100),
    (nodeC 3 5, cellC 20 20 2 20 0 10) ]

/-! the formulas the code used BEFORE the repairs 1793789 / 445d8ee / 9e115a9 (kept for the witnesses only) -/

/-- pre-repair `get_transactions` price: only the LAST same-named security's bid/offer paid, divided by the
    quantity alone (multiplier ignored) -/
def txnPriceOld (k : Nat) (d : ℚ) (s : Snap Nat ℚ) : Option ℚ :=
  match lastOf Cell.price k s, lastOf Cell.boPaid k s with
  | some (some p), some b => some (p + b / d)
  | _, _ => none

/-- pre-repair `Backtest.turnover`: NaN on every date of a run without securities -/
def turnoverAtOld (s : Snap Nat ℚ) : Option ℚ :=
  if (outlaysAt s).isEmpty then none else turnoverAt s

end Examples

end Bt.Report
