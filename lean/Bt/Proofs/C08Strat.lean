import Bt.Proofs.C08Sec
/-! Helper lemmas for C08 (strategy level): the second `update` of the same date. -/
set_option linter.unusedSectionVars false
namespace Bt.P08
open Bt

variable {K : Type} [Field K] [LinearOrder K] [IsStrictOrderedRing K] [HasFloor K]

/-! ### the no-dust hypothesis -/

mutual
/-- No security of the tree holds a position that `is_zero` calls zero without being zero. -/
def NoDust (cfg : Cfg K) : Node K → Prop
  | .sec s => isZero cfg.tol s.position = true → s.position = 0
  | .strat _ ks => NoDustL cfg ks
def NoDustL (cfg : Cfg K) : List (Node K) → Prop
  | [] => True
  | k :: ks => NoDust cfg k ∧ NoDustL cfg ks
end

/-! ### securities: weight is not read once the early return is taken; quiet means flat -/

theorem secTail_weight (cfg : Cfg K) (d : Nat) (k : SecKind) (s : SecData K) (w : K) :
    secTail cfg d k { s with weight := w } =
      (secTail cfg d k s).map fun t => { t with weight := w } := by
  cases k with
  | plain => rfl
  | fi => rfl
  | hedge => rfl
  | coupon =>
    show secCouponTail cfg d _ = Except.map _ (secCouponTail cfg d _)
    rw [secCouponTail_eq, secCouponTail_eq]
    change (cpnE cfg d s.position s.coupons).bind _ =
      Except.map _ ((cpnE cfg d s.position s.coupons).bind _)
    cases cpnE cfg d s.position s.coupons with
    | error e => rfl
    | ok c =>
      simp only [bind_ok]
      change (hcE d s.position s.costLong s.costShort).bind _ =
        Except.map _ ((hcE d s.position s.costLong s.costShort).bind _)
      cases hcE d s.position s.costLong s.costShort <;> rfl
  | couponHedge =>
    show Except.map _ (secCouponTail cfg d _) = Except.map _ (Except.map _ (secCouponTail cfg d _))
    rw [secCouponTail_eq, secCouponTail_eq]
    change Except.map _ ((cpnE cfg d s.position s.coupons).bind _) =
      Except.map _ (Except.map _ ((cpnE cfg d s.position s.coupons).bind _))
    cases cpnE cfg d s.position s.coupons with
    | error e => rfl
    | ok c =>
      simp only [bind_ok]
      change Except.map _ ((hcE d s.position s.costLong s.costShort).bind _) =
        Except.map _ (Except.map _ ((hcE d s.position s.costLong s.costShort).bind _))
      cases hcE d s.position s.costLong s.costShort <;> rfl

theorem secUpdate_early {cfg : Cfg K} {d : Nat} {s s' : SecData K}
    (h : secUpdate cfg d s = .ok s') : secEarly d s' = true := by
  rw [secUpdate_eq] at h
  obtain ⟨s1, hb, ht⟩ := bind_eq_ok h
  obtain ⟨hnow, hlp, hpos, -⟩ := secTail_proj ht
  rw [secEarly_iff, hnow, hlp, hpos]
  exact (secEarly_iff d s1).1 (secBaseUpdate_early hb)

theorem secUpdate_weight {cfg : Cfg K} {d : Nat} {s : SecData K} (he : secEarly d s = true) (w : K) :
    secUpdate cfg d { s with weight := w } =
      (secUpdate cfg d s).map fun t => { t with weight := w } := by
  have he' : secEarly d { s with weight := w } = true := he
  rw [secUpdate_eq, secUpdate_eq, secBaseUpdate_of_early he, secBaseUpdate_of_early he']
  simp only [bind_ok]
  exact secTail_weight cfg d s.kind s w

theorem secUpdate_fixed_weight {cfg : Cfg K} {d : Nat} {s : SecData K}
    (h : secUpdate cfg d s = .ok s) (w : K) :
    secUpdate cfg d { s with weight := w } = .ok { s with weight := w } := by
  rw [secUpdate_weight (secUpdate_early h), h]; rfl

@[simp] theorem secDateChange_needupdate (d : Nat) (s : SecData K) :
    (secDateChange d s).needupdate = s.needupdate := by
  unfold secDateChange; split <;> rfl

theorem secTail_notl {cfg : Cfg K} {d : Nat} {k : SecKind} {s1 s' : SecData K}
    (h : secTail cfg d k s1 = .ok s') :
    s'.notl = s1.notl ∨ s'.notl = s1.position ∨ s'.notl = 0 := by
  cases k with
  | plain => cases h; exact .inl rfl
  | fi => cases h; exact .inr (.inl rfl)
  | hedge => cases h; exact .inr (.inr rfl)
  | coupon =>
    obtain ⟨c, hc, _, _, rfl⟩ := secCouponTail_ok h
    exact .inr (.inl rfl)
  | couponHedge =>
    obtain ⟨s2, h', rfl⟩ := map_eq_ok h
    exact .inr (.inr rfl)

/-- A security that `update` switched to `needupdate = False` contributes nothing to its parent's
    totals, provided its position is exactly zero when `is_zero` says so. -/
theorem secUpdate_quiet_zero {cfg : Cfg K} {d : Nat} {s s1 : SecData K}
    (hnd : isZero cfg.tol s.position = true → s.position = 0)
    (h : secUpdate cfg d s = .ok s1) (hn : s.needupdate = true) (hn1 : s1.needupdate = false) :
    s1.value = 0 ∧ s1.notl = 0 := by
  rw [secUpdate_eq] at h
  obtain ⟨s0, hb, ht⟩ := bind_eq_ok h
  obtain ⟨-, -, hpos, -, hneed, hval, -, -⟩ := secTail_proj ht
  rcases secBaseUpdate_cases hb with ⟨_, rfl⟩ | ⟨_, v, hv, rfl⟩
  · rw [hneed, hn] at hn1; cases hn1
  · simp only [secRowBidoffer_needupdate, secFlushOutlay_needupdate] at hneed
    rw [hneed] at hn1
    have hq : isZero cfg.tol s.position = true := by
      unfold secQuiet at hn1
      split at hn1
      · rename_i hc
        simp only [Bool.and_eq_true] at hc
        simpa [secSetValue, secRecordPos] using hc.2
      · simp [secSetValue, secRecordPos, hn] at hn1
    have hp0 : s.position = 0 := hnd hq
    have hv0 : v = 0 := by
      unfold secMarkValue at hv
      split at hv
      · split at hv
        · cases hv; rfl
        · cases hv
      · cases hv
        simp [secRecordPos, hp0]
    subst hv0
    have hs0v : s1.value = 0 := by rw [hval]; simp [secSetValue]
    refine ⟨hs0v, ?_⟩
    rcases secTail_notl ht with h1 | h1 | h1
    · rw [h1]; simp [secSetValue]
    · rw [h1]; simp [secSetValue, secRecordPos, hp0]
    · exact h1

/-! ### strategy steps -/

theorem stratDateChange_same {d : Nat} {sd : StratData K} (h : sd.now = some d) :
    stratDateChange d sd = (sd, false) := by
  unfold stratDateChange
  cases sd
  simp_all

@[simp] theorem stratDateChange_now (d : Nat) (sd : StratData K) :
    (stratDateChange d sd).1.now = some d := by
  unfold stratDateChange; split
  · rfl
  · split <;> rfl

@[simp] theorem stratDateChange_bankrupt (d : Nat) (sd : StratData K) :
    (stratDateChange d sd).1.bankrupt = sd.bankrupt := by
  unfold stratDateChange; split
  · rfl
  · split <;> rfl

@[simp] theorem stratDateChange_fixedIncome (d : Nat) (sd : StratData K) :
    (stratDateChange d sd).1.fixedIncome = sd.fixedIncome := by
  unfold stratDateChange; split
  · rfl
  · split <;> rfl

theorem stratDateChange_weight (d : Nat) (sd : StratData K) (w : K) :
    stratDateChange d { sd with weight := w } =
      ({ (stratDateChange d sd).1 with weight := w }, (stratDateChange d sd).2) := by
  unfold stratDateChange
  cases hn : sd.now with
  | none => simp
  | some n => by_cases h : n = d <;> simp [h]

/-- what `stratWrite` can return -/
theorem stratWrite_cases {cfg : Cfg K} {d : Nat} {np : Bool} {sd sd3 : StratData K} {val notl bo : K}
    (h : stratWrite cfg d np sd val notl bo = .ok sd3) :
    (stratChanged cfg np sd val notl = false ∧ sd3 = sd) ∨
    (stratChanged cfg np sd val notl = true ∧
      ∃ p, sd3 = stratSetPrice d (stratSetTotals d sd val notl bo) p) := by
  unfold stratWrite at h
  by_cases hc : stratChanged cfg np sd val notl = true
  · right
    refine ⟨hc, ?_⟩
    simp only [hc, ↓reduceIte] at h
    split at h
    · obtain ⟨r, _, rfl⟩ := map_eq_ok h; exact ⟨_, rfl⟩
    · obtain ⟨r, _, rfl⟩ := map_eq_ok h; exact ⟨_, rfl⟩
  · left
    simp only [hc] at h
    cases h
    exact ⟨by simpa using hc, rfl⟩

theorem stratWrite_noop {cfg : Cfg K} {d : Nat} {np : Bool} {sd : StratData K} {val notl : K} (bo : K)
    (h : stratChanged cfg np sd val notl = false) : stratWrite cfg d np sd val notl bo = .ok sd := by
  unfold stratWrite; simp [h]

section stratproj
variable (d : Nat) (sd : StratData K) (val notl bo p : K)

@[simp] theorem stratSetTotals_now : (stratSetTotals d sd val notl bo).now = sd.now := by
  unfold stratSetTotals; simp only; split <;> rfl
@[simp] theorem stratSetTotals_capital : (stratSetTotals d sd val notl bo).capital = sd.capital := by
  unfold stratSetTotals; simp only; split <;> rfl
@[simp] theorem stratSetTotals_bidofferSet :
    (stratSetTotals d sd val notl bo).bidofferSet = sd.bidofferSet := by
  unfold stratSetTotals; simp only; split <;> rfl
@[simp] theorem stratSetTotals_fixedIncome :
    (stratSetTotals d sd val notl bo).fixedIncome = sd.fixedIncome := by
  unfold stratSetTotals; simp only; split <;> rfl
@[simp] theorem stratSetTotals_bankrupt : (stratSetTotals d sd val notl bo).bankrupt = sd.bankrupt := by
  unfold stratSetTotals; simp only; split <;> rfl
@[simp] theorem stratSetTotals_value : (stratSetTotals d sd val notl bo).value = val := by
  unfold stratSetTotals; simp only; split <;> rfl
@[simp] theorem stratSetTotals_notl : (stratSetTotals d sd val notl bo).notl = notl := by
  unfold stratSetTotals; simp only; split <;> rfl

@[simp] theorem stratRows_now : (stratRows d sd).now = sd.now := by
  unfold stratRows; simp only; split <;> rfl
@[simp] theorem stratRows_capital : (stratRows d sd).capital = sd.capital := by
  unfold stratRows; simp only; split <;> rfl
@[simp] theorem stratRows_bidofferSet : (stratRows d sd).bidofferSet = sd.bidofferSet := by
  unfold stratRows; simp only; split <;> rfl
@[simp] theorem stratRows_fixedIncome : (stratRows d sd).fixedIncome = sd.fixedIncome := by
  unfold stratRows; simp only; split <;> rfl
@[simp] theorem stratRows_bankrupt : (stratRows d sd).bankrupt = sd.bankrupt := by
  unfold stratRows; simp only; split <;> rfl
@[simp] theorem stratRows_value : (stratRows d sd).value = sd.value := by
  unfold stratRows; simp only; split <;> rfl
@[simp] theorem stratRows_notl : (stratRows d sd).notl = sd.notl := by
  unfold stratRows; simp only; split <;> rfl

theorem stratRows_idem : stratRows d (stratRows d sd) = stratRows d sd := by
  unfold stratRows
  by_cases h : sd.paperTrade = true <;> simp [h, List.set_set]

theorem stratRows_weight (w : K) :
    stratRows d { sd with weight := w } = { stratRows d sd with weight := w } := by
  unfold stratRows
  by_cases h : sd.paperTrade = true <;> simp [h]

end stratproj

/-- fields `stratWrite` leaves alone, and the totals it leaves behind -/
theorem stratWrite_proj {cfg : Cfg K} {d : Nat} {np : Bool} {sd sd3 : StratData K} {val notl bo : K}
    (h : stratWrite cfg d np sd val notl bo = .ok sd3) :
    sd3.now = sd.now ∧ sd3.capital = sd.capital ∧ sd3.bidofferSet = sd.bidofferSet ∧
    sd3.fixedIncome = sd.fixedIncome ∧ sd3.bankrupt = sd.bankrupt := by
  rcases stratWrite_cases h with ⟨_, rfl⟩ | ⟨_, p, rfl⟩
  · simp
  · simp [stratSetPrice]

theorem stratChanged_self {cfg : Cfg K} (htol : 0 < cfg.tol) (sd : StratData K) :
    stratChanged cfg false sd sd.value sd.notl = false := by
  simp [stratChanged, isZero_zero htol]

/-- after `stratWrite` the write guard of a same-date re-run is off -/
theorem stratWrite_settled {cfg : Cfg K} (htol : 0 < cfg.tol) {d : Nat} {np : Bool}
    {sd sd3 : StratData K} {val notl bo : K}
    (h : stratWrite cfg d np sd val notl bo = .ok sd3) :
    stratChanged cfg false sd3 val notl = false := by
  rcases stratWrite_cases h with ⟨hc, rfl⟩ | ⟨_, p, rfl⟩
  · simp only [stratChanged, Bool.or_eq_false_iff] at hc
    simp [stratChanged, hc.1.2, hc.2]
  · simp [stratChanged, stratSetPrice, isZero_zero htol]

theorem stratWrite_weight (cfg : Cfg K) (d : Nat) (np : Bool) (sd : StratData K) (val notl bo w : K) :
    stratWrite cfg d np { sd with weight := w } val notl bo =
      (stratWrite cfg d np sd val notl bo).map fun t => { t with weight := w } := by
  unfold stratWrite
  have hc : stratChanged cfg np { sd with weight := w } val notl = stratChanged cfg np sd val notl := rfl
  rw [hc]
  by_cases h : stratChanged cfg np sd val notl = true
  · simp only [h, ↓reduceIte]
    have e : stratSetTotals d { sd with weight := w } val notl bo =
        { stratSetTotals d sd val notl bo with weight := w } := by
      unfold stratSetTotals
      by_cases hb : sd.bidofferSet = true <;> simp [hb]
    rw [e]
    show (if (stratSetTotals d sd val notl bo).fixedIncome = true
        then Except.map _ (fiReturn cfg (stratSetTotals d sd val notl bo))
        else Except.map _ (mvReturn cfg (stratSetTotals d sd val notl bo))) = _
    split
    · cases fiReturn cfg (stratSetTotals d sd val notl bo) <;> rfl
    · cases mvReturn cfg (stratSetTotals d sd val notl bo) <;> rfl
  · simp only [h]; rfl

/-! ### weights -/

@[simp] theorem setWeight_value (w : K) (k : Node K) : (k.setWeight w).value = k.value := by
  cases k <;> rfl
@[simp] theorem setWeight_notl (w : K) (k : Node K) : (k.setWeight w).notl = k.notl := by
  cases k <;> rfl
@[simp] theorem setWeight_bidofferPaid (w : K) (k : Node K) :
    (k.setWeight w).bidofferPaid = k.bidofferPaid := by
  cases k <;> rfl
@[simp] theorem setWeight_skipped (w : K) (k : Node K) : (k.setWeight w).skipped = k.skipped := by
  cases k <;> rfl
@[simp] theorem setWeight_setWeight (w w' : K) (k : Node K) :
    (k.setWeight w).setWeight w' = k.setWeight w' := by
  cases k <;> rfl

theorem childWeight_setWeight (cfg : Cfg K) (fi : Bool) (v n w : K) (k : Node K) :
    childWeight cfg fi v n (k.setWeight w) = childWeight cfg fi v n k := by
  simp [childWeight]

theorem kidsWeights_idem (cfg : Cfg K) (fi : Bool) (v n : K) (ks : List (Node K)) :
    kidsWeights cfg fi v n (kidsWeights cfg fi v n ks) = kidsWeights cfg fi v n ks := by
  unfold kidsWeights
  rw [List.map_map]
  apply List.map_congr_left
  intro k _
  by_cases h : k.skipped = true
  · simp [h]
  · simp [h, childWeight_setWeight]

theorem kidsWeights_cons (cfg : Cfg K) (fi : Bool) (v n : K) (k : Node K) (ks : List (Node K)) :
    kidsWeights cfg fi v n (k :: ks) =
      (if k.skipped then k else k.setWeight (childWeight cfg fi v n k)) :: kidsWeights cfg fi v n ks := rfl

/-! ### unfolding `updNode` / `updKids` / `updRoot` -/

section
variable {α : Type} [Add α] [Sub α] [Mul α] [Div α] [Neg α] [LT α] [DecidableLT α]
  [LE α] [DecidableLE α] [OfNat α 0] [OfNat α 1] [HasFloor α]
/-- everything `StrategyBase.update` does after the children loop -/
def stratFinish (cfg : Cfg α) (d : Nat) (newpt : Bool) (sd1 : StratData α) (r : List (Node α) × Acc α) :
    Except Err (Node α) :=
  (stratWrite cfg d newpt { sd1 with capital := sd1.capital + r.2.coupons } (r.2.val + r.2.coupons)
      r.2.notl r.2.bo).map fun sd3 =>
    .strat (stratRows d sd3) (kidsWeights cfg sd3.fixedIncome (r.2.val + r.2.coupons) r.2.notl r.1)

/-- the root-only bankruptcy test of l.723 -/
def bankruptCond (cfg : Cfg α) (sd1 : StratData α) (val : α) : Bool :=
  val < 0 && !sd1.bankrupt && !sd1.fixedIncome && !(isZero cfg.tol val)

/-- the world the bankruptcy step liquidates: flag set, totals not yet written -/
def bankruptWorld (sd1 : StratData α) (r : List (Node α) × Acc α) : World α :=
  { root := .strat { sd1 with capital := sd1.capital + r.2.coupons, bankrupt := true } r.1, stale := false }

/-- what `flatten` does to the strategy it is called on, once its sub-strategies are flat -/
def flatF (cfg : Cfg α) : Option (StratData α) → Node α → Except Err (OpRes α) := fun _ n =>
  match n with
  | .sec _ => throw Err.badPath
  | .strat sd2 ks2 => (flattenStrat cfg sd2 ks2).map fun (sd', ks') => (.strat sd' ks', [], true)

theorem flattenAt_strat (cfg : Cfg α) (rf : World α → Except Err (World α)) (sd0 : StratData α)
    (kids : List (Node α)) (path : List Nat) (w : World α) :
    flattenAt cfg rf (.strat sd0 kids) path w =
      (flattenSubs cfg rf kids path 0 w).bind fun w1 =>
      match w1.root.get? path with
      | some (.strat sd ks) =>
        (if !sd.fixedIncome && !ks.isEmpty && w1.stale then rf w1 else pure w1).bind fun w2 =>
        w2.modify path (flatF cfg)
      | _ => throw Err.badPath := by
  rw [flattenAt.eq_2]; rfl
end

theorem updNode_strat (cfg : Cfg K) (d : Nat) (sd : StratData K) (kids : List (Node K)) :
    updNode cfg d (.strat sd kids) =
      (updKids cfg d (stratDateChange d sd).2 (stratDateChange d sd).1.bidofferSet kids
        ⟨(stratDateChange d sd).1.capital, 0, 0, 0⟩).bind
        (stratFinish cfg d (stratDateChange d sd).2 (stratDateChange d sd).1) := by
  rw [updNode.eq_2]; rfl

theorem updKids_sec (cfg : Cfg K) (d : Nat) (newpt bo : Bool) (s : SecData K) (ks : List (Node K))
    (acc : Acc K) :
    updKids cfg d newpt bo (.sec s :: ks) acc =
      if !(sweepSec newpt s acc).1.needupdate then
        (updKids cfg d newpt bo ks (sweepSec newpt s acc).2).map fun r =>
          (.sec (sweepSec newpt s acc).1 :: r.1, r.2)
      else
        (secUpdate cfg d (sweepSec newpt s acc).1).bind fun s1 =>
        (updKids cfg d newpt bo ks (accAdd bo (sweepSec newpt s acc).2 (.sec s1))).map fun r =>
          (.sec s1 :: r.1, r.2) := by
  rw [updKids.eq_2]

theorem updKids_strat (cfg : Cfg K) (d : Nat) (newpt bo : Bool) (sd : StratData K)
    (kk ks : List (Node K)) (acc : Acc K) :
    updKids cfg d newpt bo (.strat sd kk :: ks) acc =
      (updNode cfg d (.strat sd kk)).bind fun k1 =>
      (updKids cfg d newpt bo ks (accAdd bo acc k1)).map fun r => (k1 :: r.1, r.2) := by
  rw [updKids.eq_3]

theorem updNode_strat_isStrat {cfg : Cfg K} {d : Nat} {sd : StratData K} {kids : List (Node K)}
    {n' : Node K} (h : updNode cfg d (.strat sd kids) = .ok n') : ∃ sd' kids', n' = .strat sd' kids' := by
  rw [updNode_strat] at h
  obtain ⟨r, _, h⟩ := bind_eq_ok h
  obtain ⟨sd3, _, rfl⟩ := map_eq_ok h
  exact ⟨_, _, rfl⟩

/-- `update` never reads the strategy's own `weight` -/
theorem updNode_setWeight (cfg : Cfg K) (d : Nat) (sd : StratData K) (kids : List (Node K)) (w : K) :
    updNode cfg d (.strat { sd with weight := w } kids) =
      (updNode cfg d (.strat sd kids)).map (Node.setWeight w) := by
  rw [updNode_strat, updNode_strat, stratDateChange_weight]
  change (updKids cfg d (stratDateChange d sd).2 (stratDateChange d sd).1.bidofferSet kids
        ⟨(stratDateChange d sd).1.capital, 0, 0, 0⟩).bind _ = _
  cases updKids cfg d (stratDateChange d sd).2 (stratDateChange d sd).1.bidofferSet kids
        ⟨(stratDateChange d sd).1.capital, 0, 0, 0⟩ with
  | error e => rfl
  | ok r =>
    simp only [bind_ok]
    unfold stratFinish
    change Except.map _ (stratWrite cfg d _ { { (stratDateChange d sd).1 with
      capital := (stratDateChange d sd).1.capital + r.2.coupons } with weight := w } _ _ _) = _
    rw [stratWrite_weight]
    cases stratWrite cfg d (stratDateChange d sd).2 { (stratDateChange d sd).1 with
      capital := (stratDateChange d sd).1.capital + r.2.coupons } (r.2.val + r.2.coupons) r.2.notl r.2.bo with
    | error e => rfl
    | ok sd3 =>
      simp only [map_ok]
      rw [stratRows_weight]
      rfl

theorem updNode_fixed_setWeight {cfg : Cfg K} {d : Nat} {sd : StratData K} {kids : List (Node K)}
    (h : updNode cfg d (.strat sd kids) = .ok (.strat sd kids)) (w : K) :
    updNode cfg d ((Node.strat sd kids).setWeight w) = .ok ((Node.strat sd kids).setWeight w) := by
  show updNode cfg d (.strat { sd with weight := w } kids) = _
  rw [updNode_setWeight, h]; rfl

end Bt.P08
