import Bt.Proofs.Risk
import Mathlib.Data.Matrix.Mul
import Mathlib.Algebra.BigOperators.Fin
import Mathlib.LinearAlgebra.Matrix.NonsingularInverse
/-! C20 helpers: the hedge of `HedgeRisks` in matrix form.  The list model is related to functions on `Fin`
    (`List.ofFn`), the linear algebra is Mathlib's `Matrix`. -/
set_option linter.unusedSectionVars false
set_option linter.unusedSimpArgs false
set_option linter.unusedVariables false
namespace Bt.Risk
open Bt Matrix

variable {K : Type} [Field K] [LinearOrder K] [IsStrictOrderedRing K]

/-! ### lists built from functions on `Fin` -/

theorem targetRisks_ofFn (t : Node K) : ∀ {k : Nat} (msF : Fin k → Nat) (r : Fin k → Option K),
    (∀ j, targetRisk (msF j) t = .ok (r j)) → targetRisks t (List.ofFn msF) = .ok (List.ofFn r) := by
  intro k
  induction k with
  | zero => intro msF r _; simp [targetRisks]
  | succ k ih =>
    intro msF r h
    rw [List.ofFn_succ, List.ofFn_succ (f := r), targetRisks, h 0]
    simp only [Except.bind]
    rw [ih (fun i => msF i.succ) (fun i => r i.succ) (fun j => h j.succ)]
    rfl

theorem odotAux_ofFn : ∀ {k : Nat} (acc : K) (a b : Fin k → K),
    odotAux (some acc) (List.ofFn fun j => some (a j)) (List.ofFn fun j => some (b j)) = some (acc + ∑ j, a j * b j) := by
  intro k
  induction k with
  | zero => intro acc a b; simp [odotAux]
  | succ k ih =>
    intro acc a b
    rw [List.ofFn_succ, List.ofFn_succ (f := fun j => some (b j)), odotAux]
    simp only [omul_some, oadd_some]
    rw [ih (acc + a 0 * b 0) (fun j => a j.succ) (fun j => b j.succ), Fin.sum_univ_succ]
    congr 1; ring

/-- the notional of instrument `i`: row `i` of the supplied matrix times minus the target risk -/
def hedgeQ {n k : Nat} (Pt : Fin n → Fin k → K) (r : Fin k → K) (i : Fin n) : K := ∑ j, Pt i j * -(r j)

theorem notionals_ofFn {n k : Nat} (Pt : Fin n → Fin k → K) (r : Fin k → K) :
    notionals (List.ofFn fun i => List.ofFn fun j => some (Pt i j)) (List.ofFn fun j => some (r j)) =
      List.ofFn fun i => some (hedgeQ Pt r i) := by
  unfold notionals
  rw [List.map_ofFn]
  congr 1
  funext i
  simp only [Function.comp]
  rw [List.map_ofFn]
  have : (oneg ∘ fun j => some (r j)) = fun j => some (-(r j)) := by funext j; rfl
  rw [this, odotAux_ofFn 0 (fun j => Pt i j) (fun j => -(r j))]
  simp [hedgeQ]

theorem zip_ofFn {β γ : Type} : ∀ {n : Nat} (a : Fin n → β) (b : Fin n → γ),
    (List.ofFn a).zip (List.ofFn b) = List.ofFn fun i => (a i, b i) := by
  intro n
  induction n with
  | zero => intro a b; simp
  | succ n ih =>
    intro a b
    rw [List.ofFn_succ, List.ofFn_succ (f := b), List.ofFn_succ (f := fun i => (a i, b i)), List.zip_cons_cons,
      ih (fun i => a i.succ) (fun i => b i.succ)]

/-- `hedge_risk` as the code builds it: row `i` = instrument `i`, column `j` = measure `j`, entries the unit
    risks read off the tables times the instrument's multiplier. -/
theorem jacobian_ofFn {n k : Nat} (mult : Nat → K) (cols : Fin k → List Nat) (row : Fin k → List (Option K))
    (instr : Fin n → Nat) :
    jacobian mult (List.ofFn fun j => (cols j, row j)) (List.ofFn instr) =
      List.ofFn fun i => List.ofFn fun j => omul (unitRiskRow (cols j) (row j) (instr i)) (some (mult (instr i))) := by
  unfold jacobian
  rw [List.map_ofFn]
  congr 1
  funext i
  simp only [Function.comp]
  rw [List.map_ofFn]
  rfl

theorem kidMult_eq_multOf (env : Env K) (ks : List (Node K)) (name : Nat) : kidMult env ks name = multOf env ks name := by
  induction ks with
  | nil => rfl
  | cons k ks ih =>
    cases k with
    | sec s => simp only [kidMult, multOf, ih]
    | strat d sub => simpa [kidMult, multOf] using ih

theorem measureRows_ofFn (frames : Dict (Frame K)) (now : Nat) : ∀ {k : Nat} (msF : Fin k → Nat) (fr : Fin k → Frame K)
    (row : Fin k → List (Option K)), (∀ j, dget frames (msF j) = some (fr j)) → (∀ j, (fr j).rowAt now = .ok (row j)) →
    measureRows frames now (List.ofFn msF) = .ok (List.ofFn fun j => ((fr j).cols, row j)) := by
  intro k
  induction k with
  | zero => intro msF fr row _ _; simp [measureRows]
  | succ k ih =>
    intro msF fr row h1 h2
    rw [List.ofFn_succ, List.ofFn_succ (f := fun j => ((fr j).cols, row j)), measureRows, h1 0]
    simp only [h2 0, Except.bind]
    rw [ih (fun i => msF i.succ) (fun i => fr i.succ) (fun i => row i.succ) (fun j => h1 j.succ) (fun j => h2 j.succ)]
    rfl

/-! ### what the hedge does to the exposure -/

/-- `HedgeRisks` with finite target risk `r` and supplied matrix `Pt` (n instruments × k measures, as the code
    uses it after the transpose): the children are changed by `n` transactions and every linear exposure moves
    by `Σ_i q_i × unit_i × multiplier_i`, `q_i = Σ_j Pt i j × (−r_j)`. -/
theorem hedge_exposure {n k : Nat} (env : Env K) (msF : Fin k → Nat) (instr : Fin n → Nat) (frames : Dict (Frame K))
    (throwNan : Bool) (d : StratD K) (kids : List (Node K)) (r : Fin k → K)
    (hr : ∀ j, targetRisk (msF j) (.strat d kids) = .ok (some (r j)))
    (Pt : Fin n → Fin k → K) (t' : Node K)
    (hh : hedgeRisks env (List.ofFn msF) frames throwNan none (some (List.ofFn instr))
            (some (List.ofFn fun i => List.ofFn fun j => some (Pt i j))) (.strat d kids) = .ok t')
    (hq : ∀ i, isZero env.tol (hedgeQ Pt r i) = true → hedgeQ Pt r i = 0) :
    ∃ kids', t' = .strat d kids' ∧
      (∀ u : Nat → K, linExpoL u kids' = linExpoL u kids + ∑ i, hedgeQ Pt r i * u (instr i) * multOf env kids (instr i)) ∧
      (∀ n2, multOf env kids' n2 = multOf env kids n2) := by
  unfold hedgeRisks at hh
  obtain ⟨inp, hinp, hh⟩ := Except.bind_eq_ok hh
  simp only at hh
  obtain ⟨kids', hloop, rfl⟩ := Except.map_eq_ok hh
  -- what the inputs are
  unfold hedgeInputs at hinp
  simp only at hinp
  rw [targetRisks_ofFn _ msF (fun j => some (r j)) hr] at hinp
  simp only [Except.bind, extraRisks] at hinp
  obtain ⟨rows, _, rfl⟩ := Except.map_eq_ok hinp
  simp only at hloop
  rw [notionals_ofFn, zip_ofFn] at hloop
  have hl : (List.ofFn fun i => (some (hedgeQ Pt r i), instr i)) =
      (List.ofFn fun i => (hedgeQ Pt r i, instr i)).map fun p => (some p.1, p.2) := by
    rw [List.map_ofFn]; rfl
  rw [hl] at hloop
  refine ⟨kids', rfl, ?_, ?_⟩
  · intro u
    obtain ⟨e, _⟩ := hedgeLoop_linExpo env throwNan d.now u _ kids kids' (by
      intro p hp
      simp only [List.mem_ofFn] at hp
      obtain ⟨i, rfl⟩ := hp
      exact hq i) hloop
    rw [e, List.map_ofFn, List.sum_ofFn]
    rfl
  · intro n2
    obtain ⟨_, e⟩ := hedgeLoop_linExpo env throwNan d.now (fun _ => 0) _ kids kids' (by
      intro p hp
      simp only [List.mem_ofFn] at hp
      obtain ⟨i, rfl⟩ := hp
      exact hq i) hloop
    exact e n2

/-! ### linear algebra -/

/-- square case: with `Hinv * H = 1` the hedge `q = −(Hinv)ᵀ r` cancels the risk in every measure -/
theorem hedge_cancels {k : Nat} (H Hinv : Matrix (Fin k) (Fin k) K) (hinv : H * Hinv = 1) (r : Fin k → K) (j : Fin k) :
    r j + ∑ i, (∑ j', Hinv j' i * -(r j')) * H i j = 0 := by
  have hinv' : Hinv * H = 1 := mul_eq_one_comm.mp hinv
  have h1 : (fun i => ∑ j', Hinv j' i * -(r j')) = (-r) ᵥ* Hinv := by
    funext i; simp [vecMul, dotProduct, mul_comm]
  have h2 : ∑ i, (∑ j', Hinv j' i * -(r j')) * H i j = (((-r) ᵥ* Hinv) ᵥ* H) j := by
    rw [← h1]; simp [vecMul, dotProduct]
  rw [h2, vecMul_vecMul, hinv', vecMul_one]
  simp

/-- the residual risk after a hedge with the supplied matrix `P` (k × n; the code uses `Pᵀ`) -/
def residual {n k : Nat} (H : Matrix (Fin n) (Fin k) K) (P : Matrix (Fin k) (Fin n) K) (r : Fin k → K) : Fin k → K :=
  r + (-(r ᵥ* P)) ᵥ* H

theorem residual_apply {n k : Nat} (H : Matrix (Fin n) (Fin k) K) (P : Matrix (Fin k) (Fin n) K) (r : Fin k → K) (j : Fin k) :
    residual H P r j = r j + ∑ i, (∑ j', P j' i * -(r j')) * H i j := by
  simp only [residual, Pi.add_apply, vecMul, dotProduct, Pi.neg_apply]
  congr 1
  apply Finset.sum_congr rfl
  intro i _
  congr 1
  rw [← Finset.sum_neg_distrib]
  apply Finset.sum_congr rfl
  intro j' _
  ring

/-- normal equations from Penrose (1) `H P H = H` and (4) `(P H)ᵀ = P H` -/
theorem residual_normal {n k : Nat} (H : Matrix (Fin n) (Fin k) K) (P : Matrix (Fin k) (Fin n) K) (r : Fin k → K)
    (p1 : H * P * H = H) (p4 : (P * H)ᵀ = P * H) : H *ᵥ residual H P r = 0 := by
  unfold residual
  rw [mulVec_add, neg_vecMul, mulVec_neg, vecMul_vecMul, ← mulVec_transpose, p4, mulVec_mulVec, ← Matrix.mul_assoc, p1]
  simp

theorem dotProduct_self_nonneg' {k : Nat} (v : Fin k → K) : 0 ≤ v ⬝ᵥ v := by
  unfold dotProduct
  exact Finset.sum_nonneg fun i _ => mul_self_nonneg (v i)

/-- least squares: no other vector of notionals leaves a smaller sum of squared risks -/
theorem residual_least_squares {n k : Nat} (H : Matrix (Fin n) (Fin k) K) (P : Matrix (Fin k) (Fin n) K) (r : Fin k → K)
    (p1 : H * P * H = H) (p4 : (P * H)ᵀ = P * H) (q' : Fin n → K) :
    residual H P r ⬝ᵥ residual H P r ≤ (r + q' ᵥ* H) ⬝ᵥ (r + q' ᵥ* H) := by
  set ρ := residual H P r with hρ
  have hn : H *ᵥ ρ = 0 := residual_normal H P r p1 p4
  set dlt : Fin n → K := q' + r ᵥ* P with hd
  have hsplit : r + q' ᵥ* H = ρ + dlt ᵥ* H := by
    rw [hρ, hd]; unfold residual
    rw [add_vecMul, neg_vecMul]; abel
  have hcross : ρ ⬝ᵥ (dlt ᵥ* H) = 0 := by
    rw [dotProduct_comm, ← dotProduct_mulVec, hn]; simp
  rw [hsplit, add_dotProduct, dotProduct_add, dotProduct_add, hcross, dotProduct_comm (dlt ᵥ* H) ρ, hcross]
  have := dotProduct_self_nonneg' (dlt ᵥ* H)
  linarith

/-- the notionals lie in the column space of `H` (Penrose (2) `P H P = P`, (3) `(H P)ᵀ = H P`): among all
    least-squares solutions they have the smallest sum of squares -/
theorem notional_min_norm {n k : Nat} (H : Matrix (Fin n) (Fin k) K) (P : Matrix (Fin k) (Fin n) K) (r : Fin k → K)
    (p2 : P * H * P = P) (p3 : (H * P)ᵀ = H * P) (q' : Fin n → K)
    (hsame : q' ᵥ* H = (-(r ᵥ* P)) ᵥ* H) :
    (-(r ᵥ* P)) ⬝ᵥ (-(r ᵥ* P)) ≤ q' ⬝ᵥ q' := by
  set q := -(r ᵥ* P) with hq
  -- q = H *ᵥ w for w = -(P *ᵥ (r ᵥ* P))
  have hP : r ᵥ* P = H *ᵥ (P *ᵥ (r ᵥ* P)) := by
    calc r ᵥ* P = r ᵥ* (P * H * P) := by rw [p2]
      _ = (r ᵥ* P) ᵥ* (H * P) := by rw [Matrix.mul_assoc, vecMul_vecMul]
      _ = (H * P)ᵀ *ᵥ (r ᵥ* P) := by rw [mulVec_transpose]
      _ = H *ᵥ (P *ᵥ (r ᵥ* P)) := by rw [p3, mulVec_mulVec]
  have hz : (q' - q) ᵥ* H = 0 := by rw [sub_vecMul, hsame]; simp
  have hqw : q = H *ᵥ (-(P *ᵥ (r ᵥ* P))) := by
    rw [mulVec_neg, ← hP]
  have hcross : q ⬝ᵥ (q' - q) = 0 := by
    have e : q ⬝ᵥ (q' - q) = (q' - q) ⬝ᵥ (H *ᵥ (-(P *ᵥ (r ᵥ* P)))) := by
      rw [dotProduct_comm, ← hqw]
    rw [e, dotProduct_mulVec, hz]; simp
  have hs : q' = q + (q' - q) := by abel
  rw [hs, add_dotProduct, dotProduct_add, dotProduct_add, hcross, dotProduct_comm (q' - q) q, hcross]
  have := dotProduct_self_nonneg' (q' - q)
  simp only [add_sub_cancel] at *
  linarith


/-! ### hedge followed by a fresh UpdateRisk -/

/-- after the hedge a fresh `UpdateRisk` of a hedged measure reads `r_j + Σ_i q_i × unit_i × multiplier_i` -/
theorem hedge_fresh_risk {n k : Nat} (env : Env K) (msF : Fin k → Nat) (instr : Fin n → Nat) (frames : Dict (Frame K))
    (throwNan : Bool) (d : StratD K) (kids : List (Node K)) (r : Fin k → K)
    (hr : ∀ j, targetRisk (msF j) (.strat d kids) = .ok (some (r j)))
    (Pt : Fin n → Fin k → K) (t' : Node K)
    (hh : hedgeRisks env (List.ofFn msF) frames throwNan none (some (List.ofFn instr))
            (some (List.ofFn fun i => List.ofFn fun j => some (Pt i j))) (.strat d kids) = .ok t')
    (hq : ∀ i, isZero env.tol (hedgeQ Pt r i) = true → hedgeQ Pt r i = 0)
    (j : Fin k) (fr : Frame K) (rootNow : Nat) (row : List (Option K)) (hfr : dget frames (msF j) = some fr)
    (hrow : fr.rowAt rootNow = .ok row) (u : Nat → K) (hu : ∀ name, unitRiskRow fr.cols row name = some (u name))
    (hfresh : r j = linExpoL u kids) (hnd : NoDust env.tol t')
    (hist : Nat) (t'' : Node K) (hup : updateRisk env.tol (msF j) hist frames rootNow t' = .ok t'') :
    riskOf (msF j) t'' = some (r j + ∑ i, hedgeQ Pt r i * u (instr i) * multOf env kids (instr i)) := by
  obtain ⟨kids', rfl, hexp, _⟩ := hedge_exposure env msF instr frames throwNan d kids r hr Pt t' hh hq
  unfold updateRisk at hup
  rw [hfr] at hup
  simp only at hup
  rw [setRisk_linExpo hrow hu hnd hup, linExpo_strat, hexp u, hfresh]

end Bt.Risk
