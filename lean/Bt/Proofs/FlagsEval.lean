import Bt.Proofs.Flags
import Bt.Proofs.C08Eval
/-! Fuel-driven clones of `flattenAt`, `refreshNB`, `updRoot` (bankruptcy branch included), `rootTotal`,
    `btDay`, `btLoop`, `btRun` that the kernel can evaluate (the model's `updNode` / `flattenAt` are compiled by
    well-founded recursion and do not reduce), with their soundness theorems.  Used only to check concrete
    instances (`example`s) by `decide +kernel`. -/
set_option linter.unusedSectionVars false
namespace Bt.P16
open Bt Bt.P08

section
variable {α : Type} [Add α] [Sub α] [Mul α] [Div α] [Neg α] [LT α] [DecidableLT α]
  [LE α] [DecidableLE α] [OfNat α 0] [OfNat α 1] [HasFloor α]

/-- the loop over sub-strategies of `flatten`, the recursive call abstracted -/
def flattenSubsF (rec : Node α → List Nat → World α → Except Err (World α)) :
    List (Node α) → List Nat → Nat → World α → Except Err (World α)
  | [], _, _, w => pure w
  | .strat sd kk :: ks, path, i, w =>
    (rec (.strat sd kk) (path ++ [i]) w).bind fun w1 => flattenSubsF rec ks path (i + 1) w1
  | .sec _ :: ks, path, i, w => flattenSubsF rec ks path (i + 1) w

/-- `flattenAt` with fuel (≥ depth of the tree) -/
def flattenAtF (cfg : Cfg α) (rf : World α → Except Err (World α)) :
    Nat → Node α → List Nat → World α → Except Err (World α)
  | 0, _, _, _ => throw Err.badPath
  | _ + 1, .sec _, _, _ => throw Err.badPath
  | f + 1, .strat _ kids, path, w =>
    (flattenSubsF (flattenAtF cfg rf f) kids path 0 w).bind fun w1 =>
    match w1.root.get? path with
    | some (.strat sd ks) =>
      (if !sd.fixedIncome && !ks.isEmpty && w1.stale then rf w1 else pure w1).bind fun w2 =>
      w2.modify path (flatF cfg)
    | _ => throw Err.badPath

theorem flattenSubsF_sound {cfg : Cfg α} {rf : World α → Except Err (World α)}
    {rec : Node α → List Nat → World α → Except Err (World α)}
    (hrec : ∀ n p w w', rec n p w = .ok w' → flattenAt cfg rf n p w = .ok w') :
    ∀ (ks : List (Node α)) (path : List Nat) (i : Nat) (w w' : World α),
      flattenSubsF rec ks path i w = .ok w' → flattenSubs cfg rf ks path i w = .ok w'
  | [], path, i, w, w', h => by rw [flattenSubs.eq_1]; exact h
  | .strat sd kk :: ks, path, i, w, w', h => by
    rw [flattenSubs.eq_2]
    rw [flattenSubsF] at h
    obtain ⟨w1, h1, h⟩ := bind_eq_ok h
    rw [hrec _ _ _ _ h1]
    exact flattenSubsF_sound hrec ks path (i + 1) w1 w' h
  | .sec s :: ks, path, i, w, w', h => by
    rw [flattenSubs.eq_3]
    rw [flattenSubsF] at h
    exact flattenSubsF_sound hrec ks path (i + 1) w w' h

/-- whatever the clone returns (with a getter refresh `rf'` that is itself sound for `rf`) is what
    `flattenAt` returns -/
theorem flattenAtF_sound {cfg : Cfg α} {rf rf' : World α → Except Err (World α)}
    (hrf : ∀ w w', rf' w = .ok w' → rf w = .ok w') :
    ∀ (f : Nat) (n : Node α) (path : List Nat) (w w' : World α),
      flattenAtF cfg rf' f n path w = .ok w' → flattenAt cfg rf n path w = .ok w'
  | 0, _, _, _, _, h => by cases h
  | f + 1, .sec s, path, w, w', h => by cases h
  | f + 1, .strat sd0 kids, path, w, w', h => by
    rw [flattenAt_strat]
    rw [flattenAtF] at h
    obtain ⟨w1, h1, h⟩ := bind_eq_ok h
    rw [flattenSubsF_sound (flattenAtF_sound hrf f) kids path 0 w w1 h1, bind_ok]
    split at h
    · rename_i sd ks hg
      rw [hg]
      obtain ⟨w2, h2, h⟩ := bind_eq_ok h
      simp only
      split at h2
      · rename_i hc
        rw [if_pos hc, hrf _ _ h2, bind_ok]; exact h
      · rename_i hc
        rw [if_neg hc]; cases h2; exact h
    · cases h

/-- `refreshNB` through the fuelled `updNode` -/
def refreshNBF (cfg : Cfg α) (f : Nat) (w : World α) : Except Err (World α) :=
  match w.root.now with
  | some d => (updNodeF cfg d f w.root).map fun n => { root := n, stale := false }
  | none => throw Err.badPath

theorem refreshNBF_sound {cfg : Cfg α} {f : Nat} {w w' : World α} (h : refreshNBF cfg f w = .ok w') :
    refreshNB cfg w = .ok w' := by
  unfold refreshNBF at h
  unfold refreshNB
  split at h
  · rename_i d hd
    obtain ⟨n, hn, rfl⟩ := map_eq_ok h
    simp only [hd]
    rw [updNodeF_sound f _ _ hn]; rfl
  · cases h

/-- `rootTotal` with fuel -/
def rootTotalE (cfg : Cfg α) (d f : Nat) (w : World α) : Except Err α :=
  match w.root with
  | .sec _ => throw Err.badPath
  | .strat sd kids =>
    (updKidsF (updNodeF cfg d f) cfg d (stratDateChange d sd).2 (stratDateChange d sd).1.bidofferSet kids
      ⟨(stratDateChange d sd).1.capital, 0, 0, 0⟩).map fun r => r.2.val + r.2.coupons

theorem rootTotalE_sound {cfg : Cfg α} {d f : Nat} {w : World α} {v : α}
    (h : rootTotalE cfg d f w = .ok v) : rootTotal cfg d w = .ok v := by
  obtain ⟨root, st⟩ := w
  cases root with
  | sec s => cases h
  | strat sd kids =>
    simp only [rootTotalE] at h
    obtain ⟨r, hk, rfl⟩ := map_eq_ok h
    simp only [rootTotal]
    rw [updKidsF_sound (updNodeF_sound f) _ _ _ _ _ hk]; rfl

/-- `updRoot` with fuel, bankruptcy branch included -/
def updRootE (cfg : Cfg α) (d f : Nat) (w : World α) : Except Err (World α) :=
  match w.root with
  | .sec _ => throw Err.badPath
  | .strat sd kids =>
    (updKidsF (updNodeF cfg d f) cfg d (stratDateChange d sd).2 (stratDateChange d sd).1.bidofferSet kids
      ⟨(stratDateChange d sd).1.capital, 0, 0, 0⟩).bind fun r =>
      if bankruptCond cfg (stratDateChange d sd).1 (r.2.val + r.2.coupons) then
        (flattenAtF cfg (refreshNBF cfg f) f (bankruptWorld (stratDateChange d sd).1 r).root []
            (bankruptWorld (stratDateChange d sd).1 r)).bind fun wF =>
        (updNodeF cfg d f wF.root).map fun n => { root := n, stale := false }
      else (stratFinish cfg d (stratDateChange d sd).2 (stratDateChange d sd).1 r).map fun n =>
        { root := n, stale := false }

theorem updRootE_sound {cfg : Cfg α} {d f : Nat} {w w' : World α}
    (h : updRootE cfg d f w = .ok w') : updRoot cfg d w = .ok w' := by
  obtain ⟨root, st⟩ := w
  cases root with
  | sec s => cases h
  | strat sd kids =>
    simp only [updRootE] at h
    obtain ⟨r, hk, h⟩ := bind_eq_ok h
    show (updKids cfg d (stratDateChange d sd).2 (stratDateChange d sd).1.bidofferSet kids
      ⟨(stratDateChange d sd).1.capital, 0, 0, 0⟩).bind (fun r =>
      if bankruptCond cfg (stratDateChange d sd).1 (r.2.val + r.2.coupons) then
        (flattenAt cfg (refreshNB cfg) (bankruptWorld (stratDateChange d sd).1 r).root []
            (bankruptWorld (stratDateChange d sd).1 r)).bind fun wF =>
        (updNode cfg d wF.root).map fun n => ({ root := n, stale := false } : World α)
      else (stratWrite cfg d (stratDateChange d sd).2 { (stratDateChange d sd).1 with
        capital := (stratDateChange d sd).1.capital + r.2.coupons } (r.2.val + r.2.coupons)
        r.2.notl r.2.bo).map fun sd3 =>
      ({ root := .strat (stratRows d sd3)
          (kidsWeights cfg sd3.fixedIncome (r.2.val + r.2.coupons) r.2.notl r.1), stale := false } : World α)) = _
    rw [updKidsF_sound (updNodeF_sound f) _ _ _ _ _ hk, bind_ok]
    split at h
    · rename_i hc
      obtain ⟨wF, hfl, h⟩ := bind_eq_ok h
      obtain ⟨n, hn, rfl⟩ := map_eq_ok h
      simp only [hc, ↓reduceIte]
      rw [flattenAtF_sound (fun _ _ => refreshNBF_sound) f _ _ _ _ hfl, bind_ok,
        updNodeF_sound f _ _ hn]; rfl
    · rename_i hc
      obtain ⟨n, hf, rfl⟩ := map_eq_ok h
      unfold stratFinish at hf
      obtain ⟨sd3, hw, rfl⟩ := map_eq_ok hf
      simp only [hc, Bool.false_eq_true, ↓reduceIte]
      rw [hw]; rfl

/-- `btDay` / `btLoop` / `btRun` through `updRootE` -/
def btDayE (cfg : Cfg α) (run : RunFn α) (f d : Nat) (w : World α) : Except Err (World α) :=
  (updRootE cfg d f w).bind fun w1 =>
  if w1.bankrupt then pure w1
  else (run d w1).bind fun w2 => updRootE cfg d f w2

def btLoopE (cfg : Cfg α) (run : RunFn α) (f : Nat) : List Nat → World α → Except Err (World α)
  | [], w => pure w
  | d :: ds, w => (btDayE cfg run f d w).bind fun w' => btLoopE cfg run f ds w'

def btRunE (cfg : Cfg α) (run : RunFn α) (f : Nat) (capital : α) (dates : List Nat) (w0 : World α) :
    Except Err (World α) :=
  match dates with
  | [] => throw Err.badPath
  | d0 :: ds =>
    (opAdjust w0 [] capital true true).bind fun w1 =>
    (updRootE cfg d0 f w1).bind fun w2 => btLoopE cfg run f ds w2

theorem btDayE_sound {cfg : Cfg α} {run : RunFn α} {f d : Nat} {w w' : World α}
    (h : btDayE cfg run f d w = .ok w') : btDay cfg run d w = .ok w' := by
  unfold btDayE at h
  unfold btDay
  obtain ⟨w1, h1, h⟩ := bind_eq_ok h
  rw [updRootE_sound h1, bind_ok]
  split at h
  · rename_i hb; rw [if_pos hb]; exact h
  · rename_i hb
    rw [if_neg hb]
    obtain ⟨w2, h2, h⟩ := bind_eq_ok h
    rw [h2, bind_ok]; exact updRootE_sound h

theorem btLoopE_sound {cfg : Cfg α} {run : RunFn α} {f : Nat} :
    ∀ (ds : List Nat) (w w' : World α), btLoopE cfg run f ds w = .ok w' → btLoop cfg run ds w = .ok w'
  | [], w, w', h => by rw [btLoop]; exact h
  | d :: ds, w, w', h => by
    rw [btLoop]
    rw [btLoopE] at h
    obtain ⟨w1, h1, h⟩ := bind_eq_ok h
    rw [btDayE_sound h1, bind_ok]
    exact btLoopE_sound ds w1 w' h

theorem btRunE_sound {cfg : Cfg α} {run : RunFn α} {f : Nat} {capital : α} {dates : List Nat}
    {w w' : World α} (h : btRunE cfg run f capital dates w = .ok w') :
    btRun cfg run capital dates w = .ok w' := by
  unfold btRunE at h
  unfold btRun
  cases dates with
  | nil => cases h
  | cons d0 ds =>
    simp only at h ⊢
    obtain ⟨w1, h1, h⟩ := bind_eq_ok h
    obtain ⟨w2, h2, h⟩ := bind_eq_ok h
    rw [h1, bind_ok, updRootE_sound h2, bind_ok]
    exact btLoopE_sound ds w2 w' h

end

/-- reading a witness off an evaluated projection -/
theorem exists_of_toOption_map {ε α β : Type} {x : Except ε α} {f : α → β} {b : β}
    (h : x.toOption.map f = some b) : ∃ a, x = .ok a ∧ f a = b := by
  cases x with
  | error e => cases h
  | ok a => exact ⟨a, rfl, by simpa [Except.toOption] using h⟩

/-! ### concrete instances used by the `example`s of `Bt.Props.C16_flags` -/

def cfgQ : Cfg Rat := { tol := 1/1000, par := 100, atol := 1/100000000, half := 1/2, one := 1, iterCap := 10000 }

/-- a plain security over four rows whose price halves on row 2 -/
def secA : SecData Rat :=
  { name := "a", kind := .plain, fixedIncome := false, integer := false, bidofferSet := false, mult := 1,
    now := none, price := none, value := 0, notl := 0, weight := 0, position := 0, lastPos := 0,
    outlayAcc := 0, bidoffer := some 0, bidofferPaid := 0, capital := 0, coupon := 0, holdingCost := 0,
    needupdate := true, prices := [some 10, some 10, some 5, some 5], bidoffers := [],
    coupons := [], costLong := none, costShort := none,
    rValue := [0, 0, 0, 0], rPosition := [0, 0, 0, 0], rNotl := [0, 0, 0, 0], rOutlay := [0, 0, 0, 0],
    rBidofferPaid := [0, 0, 0, 0], rCoupon := [0, 0, 0, 0], rHolding := [0, 0, 0, 0] }

def stratR : StratData Rat :=
  { name := "root", fixedIncome := false, bidofferSet := false, paperTrade := false, paperPx := 100,
    comm := fun _ _ => 0, now := none, capital := 0, price := 100, value := 0, notl := 0, weight := 0,
    netFlows := 0, lastValue := 0, lastNotl := 0, lastPrice := 100, lastFee := 0, bidofferPaid := 0,
    bankrupt := false, rPrice := [100, 0, 0, 0], rValue := [0, 0, 0, 0], rNotl := [0, 0, 0, 0],
    rCash := [0, 0, 0, 0], rFees := [0, 0, 0, 0], rFlows := [0, 0, 0, 0], rBidofferPaid := [0, 0, 0, 0] }

/-- a fresh tree: root over a sub-strategy (holding `a`) and a fixed-income security `b` -/
def tree0 : Node Rat :=
  .strat stratR
    [ .strat { stratR with name := "sub" } [.sec secA],
      .sec { secA with name := "b", kind := .fi, fixedIncome := true } ]

def w0 : World Rat := ⟨tree0, false⟩

/-- the same tree under a fixed-income root -/
def w0FI : World Rat :=
  ⟨.strat { stratR with fixedIncome := true }
    [ .strat { stratR with name := "sub" } [.sec secA],
      .sec { secA with name := "b", kind := .fi, fixedIncome := true } ], false⟩

/-- a sub-strategy on row 1 after it has bought 30 `a` at 10 on 200 of borrowed cash -/
def subLev : Node Rat :=
  .strat { stratR with name := "sub", now := some 1, capital := -200, value := 100, lastValue := 100, weight := 1 }
    [.sec { secA with now := some 1, price := some 10, position := 30, lastPos := 30, value := 300,
                      notl := 300, weight := 3 }]

/-- the tree on row 1 with that sub-strategy -/
def wLev : World Rat :=
  ⟨.strat { stratR with now := some 1, value := 100, lastValue := 100 }
    [ subLev, .sec { secA with name := "b", kind := .fi, fixedIncome := true } ], false⟩

/-- `wLev` under a fixed-income root -/
def wLevFI : World Rat :=
  match wLev.root with
  | .strat sd ks => ⟨.strat { sd with fixedIncome := true } ks, false⟩
  | n => ⟨n, false⟩

/-- the algos: on row 1 give the sub-strategy 100 and have it buy 300 worth of `a`; nothing afterwards -/
def runQ : RunFn Rat := fun d w =>
  if d == 1 then (opAllocate cfgQ w [0] 100 true).bind fun w1 => opAllocate cfgQ w1 [0, 0] 300 true
  else pure w

theorem runQ_public : RunPublic cfgQ runQ := by
  intro d w w' h
  unfold runQ at h
  split at h
  · obtain ⟨w1, h1, h2⟩ := bind_eq_ok h
    exact .cons (.allocate _ _ _ h1) (.cons (.allocate _ _ _ h2) (.nil _))
  · cases h; exact .nil _

end Bt.P16
