import Bt.Proofs.LedgerDay
import Bt.Proofs.LedgerEx
/-! Concrete `Rat` fixtures and their facts for the `example`s of `Bt.Props.C02_day`. -/
namespace Bt.DEx
open Bt

/-- the `LEx` configuration with `TOL = 0` (dust-free) -/
def cfg0 : Cfg Rat := { LEx.cfg with tol := 0 }

/-- `LEx.sec2` (flat, skipped by the update loop) carrying the whole weight of its parent -/
def sec2w : SecData Rat := { LEx.sec2 with weight := 1 }

def root : StratData Rat := { LEx.strat with capital := 600 }

/-- root (cash 600) ─ a (3 units at 50, multiplier 2), sub (cash 100) ─ b (flat, quiet); everything on date 1;
    value 1000 = 600 + 300 + 100 -/
def tree : Node Rat := .strat root [.sec LEx.sec, .strat LEx.sub [.sec sec2w]]

def w0 : World Rat := { root := tree, stale := false }

/-- the day's algo: buy 2 units of `a`, then an external flow of 25 into the root -/
def run : RunFn Rat := fun _ w => (opTransact cfg0 w [0] 2 false none).bind fun w1 => opAdjust w1 [] 25 true true

theorem cfg0_dustFree : DustFree cfg0 := by
  intro x h
  rw [isZero_iff] at h
  exact absurd h (not_lt.mpr (abs_nonneg x))

theorem run_public : P04.RunPublic cfg0 run :=
  P04.runPublic_seq (P04.runPublic_transact [0] 2 false none) (P04.runPublic_adjust [] 25 true true)

theorem w0_dayInv : P02.DayInv 1 w0.root := by
  simp only [w0, tree, P02.DayInv, P02.DayInvL, P02.SecOK]
  exact ⟨rfl, Or.inl rfl, ⟨rfl, Or.inl rfl, trivial⟩, trivial⟩

theorem w0_dayW : P02.DayW 1 w0 := ⟨w0_dayInv, _, _, rfl⟩

theorem w0_close : P02.CloseInv 1 w0 where
  strat := ⟨_, _, rfl⟩
  day := w0_dayInv
  clocks := by
    simp only [w0, tree, P02.ClocksIn, P02.ClocksInL]
    refine ⟨?_, ?_, ⟨?_, ?_, trivial⟩, trivial⟩ <;> intro x hx <;> cases hx <;> exact le_refl 1
  quiet := by
    simp only [w0, tree, Quiet, AllSecs_strat, AllSecsKids_cons, AllSecs_sec, AllSecsKids_nil, SecQuiet]
    exact ⟨fun h => (by cases h), ⟨fun _ => ⟨rfl, rfl, rfl⟩, trivial⟩, trivial⟩
  marked := by
    simp only [w0, tree, AllSecs_strat, AllSecsKids_cons, AllSecs_sec, AllSecsKids_nil, SecMarked]
    refine ⟨⟨fun p hp => ?_, fun hp => by cases hp⟩, ⟨⟨fun p hp => ?_, fun hp => by cases hp⟩, trivial⟩, trivial⟩
    · cases hp; decide +kernel
    · cases hp; decide +kernel
  balanced := by
    norm_num [w0, tree, root, sec2w, Node.value, total, nodeSum, kidsSum, secWorth, LEx.strat, LEx.sec, LEx.sec2, LEx.sub]

/-- the same tree with the root's cash at −500 (value −100): bankrupt at the next opening -/
def wBroke : World Rat :=
  { root := .strat { root with capital := -500, value := -100 } [.sec LEx.sec, .strat LEx.sub [.sec sec2w]],
    stale := false }

theorem wBroke_close : P02.CloseInv 1 wBroke := by
  have hc := w0_close
  exact ⟨⟨_, _, rfl⟩, by have := hc.day; simpa [w0, wBroke, tree, P02.DayInv] using this,
    by have := hc.clocks; simpa [w0, wBroke, tree, P02.ClocksIn] using this,
    by have := hc.quiet; simpa [w0, wBroke, tree, Quiet] using this,
    by have := hc.marked; simpa [w0, wBroke, tree] using this,
    by norm_num [wBroke, root, sec2w, Node.value, total, nodeSum, kidsSum, secWorth, LEx.strat, LEx.sec,
      LEx.sec2, LEx.sub]⟩

/-- the same tree with the sub-strategy's child at weight 0: an `allocate` into the sub-strategy trades nothing -/
def treeIdle : Node Rat := .strat root [.sec LEx.sec, .strat LEx.sub [.sec LEx.sec2]]
def wIdle : World Rat := { root := treeIdle, stale := false }

theorem wIdle_dayW : P02.DayW 1 wIdle := by
  refine ⟨?_, _, _, rfl⟩
  simp only [wIdle, treeIdle, P02.DayInv, P02.DayInvL, P02.SecOK]
  exact ⟨rfl, Or.inl rfl, ⟨rfl, Or.inl rfl, trivial⟩, trivial⟩

end Bt.DEx
