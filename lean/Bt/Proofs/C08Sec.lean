import Bt.Engine.Ops
import Mathlib.Algebra.Order.Field.Basic
import Mathlib.Tactic.Ring
import Mathlib.Tactic.Linarith
/-! Helper lemmas for C08 (security level): numeric interface, projections of the small step
    functions of `SecurityBase.update`, idempotence of `secUpdate`. -/
set_option linter.unusedSectionVars false
namespace Bt.P08
open Bt

variable {K : Type} [Field K] [LinearOrder K] [IsStrictOrderedRing K] [HasFloor K]

/-! ### numeric interface -/

theorem absA_eq_abs (x : K) : absA x = |x| := by
  unfold absA
  split
  · rename_i h; rw [abs_of_neg h]
  · rename_i h; rw [abs_of_nonneg (not_lt.mp h)]

@[simp] theorem absA_zero : absA (0 : K) = 0 := by simp [absA]

theorem isZero_iff (tol x : K) : isZero tol x = true ↔ |x| < tol := by
  simp [isZero, absA_eq_abs]

theorem isZero_zero {tol : K} (h : 0 < tol) : isZero tol 0 = true := by
  simp [isZero_iff, h]

theorem eqA_iff (a b : K) : eqA a b = true ↔ a = b := by
  unfold eqA
  simp only [Bool.and_eq_true, Bool.not_eq_true', decide_eq_false_iff_not, not_lt]
  constructor
  · rintro ⟨h1, h2⟩; exact le_antisymm h2 h1
  · rintro rfl; exact ⟨le_refl _, le_refl _⟩

@[simp] theorem eqA_self (a : K) : eqA a a = true := (eqA_iff a a).2 rfl

/-! ### Except plumbing -/

theorem map_eq_ok {ε α β : Type} {f : α → β} {x : Except ε α} {b : β}
    (h : Except.map f x = .ok b) : ∃ a, x = .ok a ∧ f a = b := by
  cases x with
  | error e => cases h
  | ok a => exact ⟨a, rfl, by simpa [Except.map] using h⟩

theorem bind_eq_ok {ε α β : Type} {f : α → Except ε β} {x : Except ε α} {b : β}
    (h : Except.bind x f = .ok b) : ∃ a, x = .ok a ∧ f a = .ok b := by
  cases x with
  | error e => cases h
  | ok a => exact ⟨a, rfl, by simpa [Except.bind] using h⟩

@[simp] theorem map_ok {ε α β : Type} (f : α → β) (a : α) :
    Except.map f (.ok a : Except ε α) = .ok (f a) := rfl

@[simp] theorem bind_ok {ε α β : Type} (f : α → Except ε β) (a : α) :
    Except.bind (.ok a : Except ε α) f = f a := rfl

@[simp] theorem pure_eq_ok {ε α : Type} (a : α) : (pure a : Except ε α) = .ok a := rfl

/-! ### lists -/

theorem map_const_set_same {α β : Type} (c : β) (l : List α) (d : Nat) :
    (l.map fun _ => c).set d c = l.map fun _ => c := by
  induction l generalizing d with
  | nil => rfl
  | cons a l ih => cases d with
    | zero => rfl
    | succ d => simp [ih]

theorem map_zero_set_map_zero (l : List K) (d : Nat) (x : K) :
    ((l.map fun _ => (0 : K)).set d x).map (fun _ => (0 : K)) = l.map fun _ => (0 : K) := by
  rw [List.map_set, List.map_map]
  exact map_const_set_same 0 l d

/-! ### the tails of the subclass `update`s -/

/-- coupon of the date (l.1836-1846) from the fields it reads -/
def cpnE (cfg : Cfg K) (d : Nat) (pos : K) (coupons : List (Option K)) : Except Err K :=
  match cell coupons d with
  | none => if isZero cfg.tol pos then pure 0 else throw Err.nanCouponOpenPosition
  | some c => pure (pos * c)

/-- holding cost of the date (l.1848-1858) from the fields it reads -/
def hcE (d : Nat) (pos : K) (costLong costShort : Option (List (Option K))) : Except Err K :=
  if 0 < pos && costLong.isSome then
    match cell (costLong.getD []) d with
    | none => throw Err.nanData
    | some c => pure (pos * c)
  else if pos < 0 && costShort.isSome then
    match cell (costShort.getD []) d with
    | none => throw Err.nanData
    | some c => pure (-pos * c)
  else pure 0

theorem secCouponTail_eq (cfg : Cfg K) (d : Nat) (s : SecData K) :
    secCouponTail cfg d s =
      (cpnE cfg d s.position s.coupons).bind fun cpn =>
      (hcE d s.position s.costLong s.costShort).bind fun hc =>
      pure { s with coupon := cpn, holdingCost := hc, capital := cpn - hc,
                    rCoupon := s.rCoupon.set d cpn, rHolding := s.rHolding.set d hc } := rfl

/-- the subclass tail of `update`, by kind -/
def secTail (cfg : Cfg K) (d : Nat) (k : SecKind) (s1 : SecData K) : Except Err (SecData K) :=
  match k with
  | .plain => pure s1
  | .fi => pure (secFiTail d s1)
  | .hedge => pure (secHedgeTail s1)
  | .coupon => secCouponTail cfg d (secFiTail d s1)
  | .couponHedge => (secCouponTail cfg d (secFiTail d s1)).map secHedgeTail

theorem secUpdate_eq (cfg : Cfg K) (d : Nat) (s : SecData K) :
    secUpdate cfg d s = (secBaseUpdate cfg d s).bind (secTail cfg d s.kind) := by
  unfold secUpdate secTail
  cases s.kind <;> rfl

/-- the record `secCouponTail` builds -/
def withCoupon (d : Nat) (s : SecData K) (cpn hc : K) : SecData K :=
  { s with coupon := cpn, holdingCost := hc, capital := cpn - hc,
           rCoupon := s.rCoupon.set d cpn, rHolding := s.rHolding.set d hc }

theorem secCouponTail_ok {cfg : Cfg K} {d : Nat} {s s' : SecData K}
    (h : secCouponTail cfg d s = .ok s') :
    ∃ c hc, cpnE cfg d s.position s.coupons = .ok c ∧
      hcE d s.position s.costLong s.costShort = .ok hc ∧ s' = withCoupon d s c hc := by
  rw [secCouponTail_eq] at h
  obtain ⟨c, h1, h⟩ := bind_eq_ok h
  obtain ⟨hc, h2, h⟩ := bind_eq_ok h
  exact ⟨c, hc, h1, h2, by cases h; rfl⟩

theorem secCouponTail_of {cfg : Cfg K} {d : Nat} {s : SecData K} {c hc : K}
    (h1 : cpnE cfg d s.position s.coupons = .ok c)
    (h2 : hcE d s.position s.costLong s.costShort = .ok hc) :
    secCouponTail cfg d s = .ok (withCoupon d s c hc) := by
  rw [secCouponTail_eq, h1, bind_ok, h2, bind_ok]; rfl

/-- fields no tail touches -/
theorem secTail_proj {cfg : Cfg K} {d : Nat} {k : SecKind} {s1 s' : SecData K}
    (h : secTail cfg d k s1 = .ok s') :
    s'.now = s1.now ∧ s'.lastPos = s1.lastPos ∧ s'.position = s1.position ∧ s'.kind = s1.kind ∧
    s'.needupdate = s1.needupdate ∧ s'.value = s1.value ∧ s'.weight = s1.weight ∧
    s'.bidofferPaid = s1.bidofferPaid := by
  cases k with
  | plain => cases h; simp
  | fi => cases h; simp [secFiTail]
  | hedge => cases h; simp [secHedgeTail]
  | coupon =>
    obtain ⟨c, hc, _, _, rfl⟩ := secCouponTail_ok h
    simp [secFiTail, withCoupon]
  | couponHedge =>
    obtain ⟨s2, h', rfl⟩ := map_eq_ok h
    obtain ⟨c, hc, _, _, rfl⟩ := secCouponTail_ok h'
    simp [secFiTail, secHedgeTail, withCoupon]

theorem secTail_idem {cfg : Cfg K} {d : Nat} {k : SecKind} {s1 s' : SecData K}
    (h : secTail cfg d k s1 = .ok s') : secTail cfg d k s' = .ok s' := by
  cases k with
  | plain => rfl
  | fi => cases h; simp [secTail, secFiTail, List.set_set]
  | hedge => cases h; simp [secTail, secHedgeTail, List.map_map]
  | coupon =>
    obtain ⟨c, hc, h1, h2, rfl⟩ := secCouponTail_ok h
    refine (secCouponTail_of (c := c) (hc := hc) ?_ ?_).trans ?_
    · exact h1
    · exact h2
    · simp [secFiTail, withCoupon, List.set_set]
  | couponHedge =>
    obtain ⟨s2, h', rfl⟩ := map_eq_ok h
    obtain ⟨c, hc, h1, h2, rfl⟩ := secCouponTail_ok h'
    show Except.map secHedgeTail (secCouponTail cfg d _) = _
    rw [secCouponTail_of (c := c) (hc := hc) (by exact h1) (by exact h2)]
    simp [secFiTail, secHedgeTail, withCoupon, List.set_set, Function.comp_def]

/-! ### `SecurityBase.update` proper -/

theorem secBaseUpdate_cases {cfg : Cfg K} {d : Nat} {s s1 : SecData K}
    (h : secBaseUpdate cfg d s = .ok s1) :
    (secEarly d s = true ∧ s1 = s) ∨
    (secEarly d s = false ∧ ∃ v, secMarkValue cfg (secRecordPos d (secDateChange d s)) = .ok v ∧
      s1 = secRowBidoffer d (secFlushOutlay d (secQuiet cfg
        (secSetValue d v (secRecordPos d (secDateChange d s)))))) := by
  unfold secBaseUpdate at h
  by_cases he : secEarly d s = true
  · left; simp only [he, ↓reduceIte] at h; cases h; exact ⟨he, rfl⟩
  · right
    simp only [he] at h
    obtain ⟨v, hv, rfl⟩ := map_eq_ok h
    exact ⟨by simpa using he, v, hv, rfl⟩

theorem secBaseUpdate_of_early {cfg : Cfg K} {d : Nat} {s : SecData K} (h : secEarly d s = true) :
    secBaseUpdate cfg d s = .ok s := by
  unfold secBaseUpdate; simp [h]

section proj
variable (cfg : Cfg K) (d : Nat) (v : K) (s : SecData K)

@[simp] theorem secDateChange_now : (secDateChange d s).now = some d := by
  unfold secDateChange; split
  · rfl
  · rename_i h; simpa using h
@[simp] theorem secDateChange_position : (secDateChange d s).position = s.position := by
  unfold secDateChange; split <;> rfl
@[simp] theorem secDateChange_kind : (secDateChange d s).kind = s.kind := by
  unfold secDateChange; split <;> rfl
@[simp] theorem secDateChange_weight : (secDateChange d s).weight = s.weight := by
  unfold secDateChange; split <;> rfl

@[simp] theorem secQuiet_now : (secQuiet cfg s).now = s.now := by unfold secQuiet; split <;> rfl
@[simp] theorem secQuiet_position : (secQuiet cfg s).position = s.position := by
  unfold secQuiet; split <;> rfl
@[simp] theorem secQuiet_lastPos : (secQuiet cfg s).lastPos = s.lastPos := by
  unfold secQuiet; split <;> rfl
@[simp] theorem secQuiet_kind : (secQuiet cfg s).kind = s.kind := by unfold secQuiet; split <;> rfl
@[simp] theorem secQuiet_value : (secQuiet cfg s).value = s.value := by unfold secQuiet; split <;> rfl
@[simp] theorem secQuiet_notl : (secQuiet cfg s).notl = s.notl := by unfold secQuiet; split <;> rfl
@[simp] theorem secQuiet_weight : (secQuiet cfg s).weight = s.weight := by
  unfold secQuiet; split <;> rfl

@[simp] theorem secFlushOutlay_now : (secFlushOutlay d s).now = s.now := by
  unfold secFlushOutlay; split <;> rfl
@[simp] theorem secFlushOutlay_position : (secFlushOutlay d s).position = s.position := by
  unfold secFlushOutlay; split <;> rfl
@[simp] theorem secFlushOutlay_lastPos : (secFlushOutlay d s).lastPos = s.lastPos := by
  unfold secFlushOutlay; split <;> rfl
@[simp] theorem secFlushOutlay_kind : (secFlushOutlay d s).kind = s.kind := by
  unfold secFlushOutlay; split <;> rfl
@[simp] theorem secFlushOutlay_value : (secFlushOutlay d s).value = s.value := by
  unfold secFlushOutlay; split <;> rfl
@[simp] theorem secFlushOutlay_notl : (secFlushOutlay d s).notl = s.notl := by
  unfold secFlushOutlay; split <;> rfl
@[simp] theorem secFlushOutlay_weight : (secFlushOutlay d s).weight = s.weight := by
  unfold secFlushOutlay; split <;> rfl
@[simp] theorem secFlushOutlay_needupdate : (secFlushOutlay d s).needupdate = s.needupdate := by
  unfold secFlushOutlay; split <;> rfl

@[simp] theorem secRowBidoffer_now : (secRowBidoffer d s).now = s.now := by
  unfold secRowBidoffer; split <;> rfl
@[simp] theorem secRowBidoffer_position : (secRowBidoffer d s).position = s.position := by
  unfold secRowBidoffer; split <;> rfl
@[simp] theorem secRowBidoffer_lastPos : (secRowBidoffer d s).lastPos = s.lastPos := by
  unfold secRowBidoffer; split <;> rfl
@[simp] theorem secRowBidoffer_kind : (secRowBidoffer d s).kind = s.kind := by
  unfold secRowBidoffer; split <;> rfl
@[simp] theorem secRowBidoffer_value : (secRowBidoffer d s).value = s.value := by
  unfold secRowBidoffer; split <;> rfl
@[simp] theorem secRowBidoffer_notl : (secRowBidoffer d s).notl = s.notl := by
  unfold secRowBidoffer; split <;> rfl
@[simp] theorem secRowBidoffer_weight : (secRowBidoffer d s).weight = s.weight := by
  unfold secRowBidoffer; split <;> rfl
@[simp] theorem secRowBidoffer_needupdate : (secRowBidoffer d s).needupdate = s.needupdate := by
  unfold secRowBidoffer; split <;> rfl

end proj

theorem secEarly_iff (d : Nat) (s : SecData K) :
    secEarly d s = true ↔ s.now = some d ∧ s.lastPos = s.position := by
  simp [secEarly, eqA_iff]

/-- after `SecurityBase.update(d)` the early-return test for `d` holds -/
theorem secBaseUpdate_early {cfg : Cfg K} {d : Nat} {s s1 : SecData K}
    (h : secBaseUpdate cfg d s = .ok s1) : secEarly d s1 = true := by
  rcases secBaseUpdate_cases h with ⟨he, rfl⟩ | ⟨_, v, _, rfl⟩
  · exact he
  · rw [secEarly_iff]; simp [secSetValue, secRecordPos]

theorem secBaseUpdate_kind_position {cfg : Cfg K} {d : Nat} {s s1 : SecData K}
    (h : secBaseUpdate cfg d s = .ok s1) : s1.kind = s.kind ∧ s1.position = s.position := by
  rcases secBaseUpdate_cases h with ⟨_, rfl⟩ | ⟨_, v, _, rfl⟩
  · exact ⟨rfl, rfl⟩
  · simp [secSetValue, secRecordPos]

/-- **`secUpdate` is idempotent.** -/
theorem secUpdate_idem {cfg : Cfg K} {d : Nat} {s s' : SecData K}
    (h : secUpdate cfg d s = .ok s') : secUpdate cfg d s' = .ok s' := by
  rw [secUpdate_eq] at h ⊢
  obtain ⟨s1, hb, ht⟩ := bind_eq_ok h
  obtain ⟨hnow, hlp, hpos, hkind, -⟩ := secTail_proj ht
  have he1 := (secEarly_iff d s1).1 (secBaseUpdate_early hb)
  have he' : secEarly d s' = true := by
    rw [secEarly_iff, hnow, hlp, hpos]; exact he1
  rw [secBaseUpdate_of_early he', bind_ok, hkind, (secBaseUpdate_kind_position hb).1]
  exact secTail_idem ht

end Bt.P08
