import Bt.Proofs.SecLemmas
/-! What `secUpdate` does to the fields the C01 theorems talk about. -/
namespace Bt
set_option linter.unusedSectionVars false
variable {K : Type} [Field K] [LinearOrder K] [IsStrictOrderedRing K] [HasFloor K]

/-- fields `update` never touches (and row lengths) -/
structure SecFrame (s s' : SecData K) : Prop where
  name : s'.name = s.name
  kind : s'.kind = s.kind
  fixedIncome : s'.fixedIncome = s.fixedIncome
  integer : s'.integer = s.integer
  bidofferSet : s'.bidofferSet = s.bidofferSet
  mult : s'.mult = s.mult
  weight : s'.weight = s.weight
  position : s'.position = s.position
  prices : s'.prices = s.prices
  lenValue : s'.rValue.length = s.rValue.length
  lenPosition : s'.rPosition.length = s.rPosition.length
  lenNotl : s'.rNotl.length = s.rNotl.length

theorem SecFrame.refl (s : SecData K) : SecFrame s s := ⟨rfl, rfl, rfl, rfl, rfl, rfl, rfl, rfl, rfl, rfl, rfl, rfl⟩

theorem SecFrame.trans {a b c : SecData K} (h1 : SecFrame a b) (h2 : SecFrame b c) : SecFrame a c :=
  ⟨h2.name.trans h1.name, h2.kind.trans h1.kind, h2.fixedIncome.trans h1.fixedIncome,
   h2.integer.trans h1.integer, h2.bidofferSet.trans h1.bidofferSet, h2.mult.trans h1.mult,
   h2.weight.trans h1.weight, h2.position.trans h1.position, h2.prices.trans h1.prices,
   h2.lenValue.trans h1.lenValue, h2.lenPosition.trans h1.lenPosition, h2.lenNotl.trans h1.lenNotl⟩

theorem secBaseUpdate_frame {cfg : Cfg K} {d : Nat} {s s1 : SecData K}
    (h : secBaseUpdate cfg d s = .ok s1) : SecFrame s s1 := by
  cases he : secEarly d s
  · obtain ⟨v, _, rfl⟩ := secBaseUpdate_inv he h
    constructor <;> simp
  · rw [secBaseUpdate_early he] at h
    cases h; exact SecFrame.refl s

theorem secFiTail_frame (d : Nat) (s : SecData K) : SecFrame s (secFiTail d s) := by
  constructor <;> simp
theorem secHedgeTail_frame (s : SecData K) : SecFrame s (secHedgeTail s) := by
  constructor <;> simp
theorem secCouponTail_frame {cfg : Cfg K} {d : Nat} {s s' : SecData K}
    (h : secCouponTail cfg d s = .ok s') : SecFrame s s' := by
  obtain ⟨cpn, hc, rfl⟩ := secCouponTail_inv h
  constructor <;> rfl

theorem secUpdate_frame {cfg : Cfg K} {d : Nat} {s s' : SecData K}
    (h : secUpdate cfg d s = .ok s') : SecFrame s s' := by
  obtain ⟨s1, h1, hk⟩ := secUpdate_inv h
  have f1 := secBaseUpdate_frame h1
  rcases hk with ⟨_, rfl⟩ | ⟨_, rfl⟩ | ⟨_, rfl⟩ | ⟨_, hc⟩ | ⟨_, s2, hc, rfl⟩
  · exact f1
  · exact f1.trans (secFiTail_frame d s1)
  · exact f1.trans (secHedgeTail_frame s1)
  · exact (f1.trans (secFiTail_frame d s1)).trans (secCouponTail_frame hc)
  · exact ((f1.trans (secFiTail_frame d s1)).trans (secCouponTail_frame hc)).trans (secHedgeTail_frame s2)

/-- the fields the base update sets when it is not the early return -/
structure SecBaseFresh (cfg : Cfg K) (d : Nat) (s s1 : SecData K) : Prop where
  now : s1.now = some d
  lastPos : s1.lastPos = s.position
  price : s1.price = (secDateChange d s).price
  marks : secMarkValue cfg (secRecordPos d (secDateChange d s)) = .ok s1.value
  notl : s1.notl = s1.value
  needupdate : s1.needupdate =
    (if (isZero cfg.tol s.weight && isZero cfg.tol s.position) = true then false else s.needupdate)
  rValue : s1.rValue = s.rValue.set d s1.value
  rNotl : s1.rNotl = s.rNotl.set d s1.value
  rPosition : s1.rPosition = s.rPosition.set d s.position

theorem secBaseUpdate_fresh {cfg : Cfg K} {d : Nat} {s s1 : SecData K} (he : secEarly d s = false)
    (h : secBaseUpdate cfg d s = .ok s1) : SecBaseFresh cfg d s s1 := by
  obtain ⟨v, hv, rfl⟩ := secBaseUpdate_inv he h
  constructor <;> simp [secQuiet_needupdate, hv]

/-- fields the class-specific tails leave alone -/
structure SecTailFrame (s s' : SecData K) : Prop where
  now : s'.now = s.now
  lastPos : s'.lastPos = s.lastPos
  price : s'.price = s.price
  value : s'.value = s.value
  needupdate : s'.needupdate = s.needupdate
  rValue : s'.rValue = s.rValue
  rPosition : s'.rPosition = s.rPosition

theorem SecTailFrame.refl (s : SecData K) : SecTailFrame s s := ⟨rfl, rfl, rfl, rfl, rfl, rfl, rfl⟩
theorem SecTailFrame.trans {a b c : SecData K} (h1 : SecTailFrame a b) (h2 : SecTailFrame b c) :
    SecTailFrame a c :=
  ⟨h2.now.trans h1.now, h2.lastPos.trans h1.lastPos, h2.price.trans h1.price, h2.value.trans h1.value,
   h2.needupdate.trans h1.needupdate, h2.rValue.trans h1.rValue, h2.rPosition.trans h1.rPosition⟩
theorem secFiTail_tail (d : Nat) (s : SecData K) : SecTailFrame s (secFiTail d s) := by
  constructor <;> simp
theorem secHedgeTail_tail (s : SecData K) : SecTailFrame s (secHedgeTail s) := by
  constructor <;> simp
theorem secCouponTail_tail {cfg : Cfg K} {d : Nat} {s s' : SecData K}
    (h : secCouponTail cfg d s = .ok s') : SecTailFrame s s' := by
  obtain ⟨cpn, hc, rfl⟩ := secCouponTail_inv h
  constructor <;> rfl
theorem secCouponTail_notl {cfg : Cfg K} {d : Nat} {s s' : SecData K}
    (h : secCouponTail cfg d s = .ok s') : s'.notl = s.notl ∧ s'.rNotl = s.rNotl := by
  obtain ⟨cpn, hc, rfl⟩ := secCouponTail_inv h
  exact ⟨rfl, rfl⟩

/-- `update` = base update followed by a tail that leaves value/price/now/rows of value and position alone -/
theorem secUpdate_base {cfg : Cfg K} {d : Nat} {s s' : SecData K} (h : secUpdate cfg d s = .ok s') :
    ∃ s1, secBaseUpdate cfg d s = .ok s1 ∧ SecTailFrame s1 s' := by
  obtain ⟨s1, h1, hk⟩ := secUpdate_inv h
  refine ⟨s1, h1, ?_⟩
  rcases hk with ⟨_, rfl⟩ | ⟨_, rfl⟩ | ⟨_, rfl⟩ | ⟨_, hc⟩ | ⟨_, s2, hc, rfl⟩
  · exact SecTailFrame.refl _
  · exact secFiTail_tail d s1
  · exact secHedgeTail_tail s1
  · exact (secFiTail_tail d s1).trans (secCouponTail_tail hc)
  · exact ((secFiTail_tail d s1).trans (secCouponTail_tail hc)).trans (secHedgeTail_tail s2)

/-- notional by class (whatever the base update did) -/
theorem secUpdate_notl_kind {cfg : Cfg K} {d : Nat} {s s' : SecData K} (h : secUpdate cfg d s = .ok s') :
    ((s.kind = .fi ∨ s.kind = .coupon) → s'.notl = s'.position) ∧
    ((s.kind = .hedge ∨ s.kind = .couponHedge) → s'.notl = 0) := by
  have hf := secUpdate_frame h
  obtain ⟨s1, h1, hk⟩ := secUpdate_inv h
  have f1 := secBaseUpdate_frame h1
  rcases hk with ⟨k, rfl⟩ | ⟨k, rfl⟩ | ⟨k, rfl⟩ | ⟨k, hc⟩ | ⟨k, s2, hc, rfl⟩ <;> simp [k]
  · have := (secCouponTail_notl hc).1
    rw [this, hf.position]; simp [f1.position]

theorem secUpdate_notl_plain {cfg : Cfg K} {d : Nat} {s s' : SecData K} (h : secUpdate cfg d s = .ok s')
    (hk : s.kind = .plain) : secBaseUpdate cfg d s = .ok s' := by
  obtain ⟨s1, h1, hk'⟩ := secUpdate_inv h
  rcases hk' with ⟨k, rfl⟩ | ⟨k, rfl⟩ | ⟨k, rfl⟩ | ⟨k, hc⟩ | ⟨k, s2, hc, rfl⟩ <;> simp [hk] at k
  exact h1

/-- the notional row holds the notional (non-plain classes, any call; plain: after a real update) -/
theorem secUpdate_rNotl {cfg : Cfg K} {d : Nat} {s s' : SecData K} (h : secUpdate cfg d s = .ok s')
    (hd : d < s.rNotl.length) (hne : s.kind ≠ .plain ∨ secEarly d s = false) :
    s'.rNotl[d]? = some s'.notl := by
  obtain ⟨s1, h1, hk⟩ := secUpdate_inv h
  have f1 := secBaseUpdate_frame h1
  have hd1 : d < s1.rNotl.length := by rw [f1.lenNotl]; exact hd
  rcases hk with ⟨k, rfl⟩ | ⟨k, rfl⟩ | ⟨k, rfl⟩ | ⟨k, hc⟩ | ⟨k, s2, hc, rfl⟩
  · rcases hne with hne | hne
    · exact absurd k hne
    · have fr := secBaseUpdate_fresh hne h1
      rw [fr.rNotl, fr.notl]; simp [hd]
  · simp [hd1]
  · simp [hd1]
  · obtain ⟨e1, e2⟩ := secCouponTail_notl hc
    rw [e1, e2]; simp [hd1]
  · have hd2 : d < s2.rNotl.length := by
      rw [(secCouponTail_frame hc).lenNotl]; simpa using hd1
    simp [hd2]

end Bt
