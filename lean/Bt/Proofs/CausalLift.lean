import Bt.Engine.Backtest
import Bt.Proofs.C08RowsRead
/-! C04 (no look-ahead), part 3: one generic pass over every operation of the engine.

    `Lift Rs Rd n n'`: the trees `n`, `n'` have the same shape, every security is related to its image by
    `Rs` and every strategy by `Rd`.  `Laws cfg C Rs Rd` lists what the small steps of the engine must
    satisfy (for `update` steps only at dates in `C`); the theorems below then give `Lift Rs Rd` between the
    input and the output of *every* engine operation executed while all the clocks of the tree lie in `C`.

    Instances (end of file): the clocks stay inside `C` (`clockLaws`), recorded rows are written only at
    indices in `P` (`frozenLaws`), hedge notional rows stay zero (`hedgeLaws`). -/
set_option linter.unusedSectionVars false
namespace Bt.P04
open Bt Bt.P08

variable {K : Type} [Field K] [LinearOrder K] [IsStrictOrderedRing K] [HasFloor K]

/-- a clock, if set, lies in `C` -/
def Ck (C : Nat → Prop) (now : Option Nat) : Prop := ∀ d, now = some d → C d

theorem ck_none (C : Nat → Prop) : Ck C none := fun _ h => by cases h
theorem ck_some {C : Nat → Prop} {d : Nat} (h : C d) : Ck C (some d) := fun _ h' => by cases h'; exact h

/-! ### pointwise relations between two trees -/

mutual
def Lift (Rs : SecData K → SecData K → Prop) (Rd : StratData K → StratData K → Prop) : Node K → Node K → Prop
  | .sec s, .sec s' => Rs s s'
  | .strat sd ks, .strat sd' ks' => Rd sd sd' ∧ LiftL Rs Rd ks ks'
  | _, _ => False
def LiftL (Rs : SecData K → SecData K → Prop) (Rd : StratData K → StratData K → Prop) :
    List (Node K) → List (Node K) → Prop
  | [], [] => True
  | k :: ks, k' :: ks' => Lift Rs Rd k k' ∧ LiftL Rs Rd ks ks'
  | _, _ => False
end

section liftsimp
variable (Rs : SecData K → SecData K → Prop) (Rd : StratData K → StratData K → Prop)
@[simp] theorem lift_sec (s s' : SecData K) : Lift Rs Rd (.sec s) (.sec s') ↔ Rs s s' := by simp [Lift]
@[simp] theorem lift_strat (sd sd' : StratData K) (ks ks' : List (Node K)) :
    Lift Rs Rd (.strat sd ks) (.strat sd' ks') ↔ Rd sd sd' ∧ LiftL Rs Rd ks ks' := by simp [Lift]
@[simp] theorem lift_sec_strat (s : SecData K) (sd' : StratData K) (ks') :
    Lift Rs Rd (.sec s) (.strat sd' ks') ↔ False := by simp [Lift]
@[simp] theorem lift_strat_sec (sd : StratData K) (ks) (s' : SecData K) :
    Lift Rs Rd (.strat sd ks) (.sec s') ↔ False := by simp [Lift]
@[simp] theorem liftL_nil : LiftL Rs Rd ([] : List (Node K)) [] ↔ True := by simp [LiftL]
@[simp] theorem liftL_cons (k k' : Node K) (ks ks' : List (Node K)) :
    LiftL Rs Rd (k :: ks) (k' :: ks') ↔ Lift Rs Rd k k' ∧ LiftL Rs Rd ks ks' := by simp [LiftL]
@[simp] theorem liftL_nil_cons (k' : Node K) (ks' : List (Node K)) :
    LiftL Rs Rd [] (k' :: ks') ↔ False := by simp [LiftL]
@[simp] theorem liftL_cons_nil (k : Node K) (ks : List (Node K)) :
    LiftL Rs Rd (k :: ks) [] ↔ False := by simp [LiftL]
end liftsimp

mutual
theorem Lift.mono {Rs Rs' : SecData K → SecData K → Prop} {Rd Rd' : StratData K → StratData K → Prop}
    (hs : ∀ a b, Rs a b → Rs' a b) (hd : ∀ a b, Rd a b → Rd' a b) :
    (n n' : Node K) → Lift Rs Rd n n' → Lift Rs' Rd' n n'
  | .sec s, .sec s', h => by simp only [lift_sec] at *; exact hs _ _ h
  | .strat sd ks, .strat sd' ks', h => by
    simp only [lift_strat] at *
    exact ⟨hd _ _ h.1, LiftL.mono hs hd ks ks' h.2⟩
  | .sec _, .strat _ _, h => by simp at h
  | .strat _ _, .sec _, h => by simp at h
theorem LiftL.mono {Rs Rs' : SecData K → SecData K → Prop} {Rd Rd' : StratData K → StratData K → Prop}
    (hs : ∀ a b, Rs a b → Rs' a b) (hd : ∀ a b, Rd a b → Rd' a b) :
    (ks ks' : List (Node K)) → LiftL Rs Rd ks ks' → LiftL Rs' Rd' ks ks'
  | [], [], _ => by simp
  | k :: ks, k' :: ks', h => by
    simp only [liftL_cons] at *
    exact ⟨Lift.mono hs hd k k' h.1, LiftL.mono hs hd ks ks' h.2⟩
  | [], _ :: _, h => by simp at h
  | _ :: _, [], h => by simp at h
end

mutual
/-- `Frozen P` of C08 is the lifting of its two one-node relations -/
theorem lift_frozen {P : Nat → Prop} : (n n' : Node K) →
    (Lift (SecFrozen P) (StratFrozen P) n n' ↔ Frozen P n n')
  | .sec s, .sec s' => by simp
  | .strat sd ks, .strat sd' ks' => by simp [liftL_frozen ks ks']
  | .sec _, .strat _ _ => by simp
  | .strat _ _, .sec _ => by simp
theorem liftL_frozen {P : Nat → Prop} : (ks ks' : List (Node K)) →
    (LiftL (SecFrozen P) (StratFrozen P) ks ks' ↔ FrozenL P ks ks')
  | [], [] => by simp
  | k :: ks, k' :: ks' => by simp [lift_frozen k k', liftL_frozen ks ks']
  | [], _ :: _ => by simp
  | _ :: _, [] => by simp
end

/-! ### what the small steps must satisfy -/

/-- The one-node facts from which everything else follows.  `C` is the set of dates at which `update`
    steps may run; `Rs`/`Rd` must carry the clock (`secNow`, `stratNow`). -/
structure Laws (cfg : Cfg K) (C : Nat → Prop) (Rs : SecData K → SecData K → Prop)
    (Rd : StratData K → StratData K → Prop) : Prop where
  rsRefl : ∀ s, Rs s s
  rsTrans : ∀ {a b c}, Rs a b → Rs b c → Rs a c
  rdRefl : ∀ sd, Rd sd sd
  rdTrans : ∀ {a b c}, Rd a b → Rd b c → Rd a c
  secUpdate : ∀ {d s s'}, C d → Bt.secUpdate cfg d s = .ok s' → Rs s s'
  secTrade : ∀ {comm s q custom r}, secTransactCore cfg comm s q custom = .ok r → Rs s r.1
  sweep : ∀ np s (acc : Acc K), Rs s (sweepSec np s acc).1
  secWeight : ∀ s (w : K), Rs s { s with weight := w }
  dateChange : ∀ {d} sd, C d → Rd sd (stratDateChange d sd).1
  capital : ∀ sd (c : K), Rd sd { sd with capital := c }
  write : ∀ {d np sd v n b sd3}, C d → stratWrite cfg d np sd v n b = .ok sd3 → Rd sd sd3
  rows : ∀ {d} sd, C d → Rd sd (stratRows d sd)
  adjust : ∀ sd (a : Adj K), Rd sd (sd.adjust a)
  stratWeight : ∀ sd (w : K), Rd sd { sd with weight := w }
  bankrupt : ∀ sd, Rd sd { sd with bankrupt := true }
  secNow : ∀ {s s'}, Rs s s' → Ck C s.now → Ck C s'.now
  stratNow : ∀ {sd sd'}, Rd sd sd' → Ck C sd.now → Ck C sd'.now

section generic
variable {cfg : Cfg K} {C : Nat → Prop} {Rs : SecData K → SecData K → Prop}
  {Rd : StratData K → StratData K → Prop}

mutual
theorem lift_refl (L : Laws cfg C Rs Rd) : (n : Node K) → Lift Rs Rd n n
  | .sec s => by simp [L.rsRefl]
  | .strat sd ks => by simp [L.rdRefl, liftL_refl L ks]
theorem liftL_refl (L : Laws cfg C Rs Rd) : (ks : List (Node K)) → LiftL Rs Rd ks ks
  | [] => by simp
  | k :: ks => by simp [lift_refl L k, liftL_refl L ks]
end

mutual
theorem lift_trans (L : Laws cfg C Rs Rd) :
    (n n' n'' : Node K) → Lift Rs Rd n n' → Lift Rs Rd n' n'' → Lift Rs Rd n n''
  | .sec s, .sec s', .sec s'', h1, h2 => by
    simp only [lift_sec] at *; exact L.rsTrans h1 h2
  | .strat sd ks, .strat sd' ks', .strat sd'' ks'', h1, h2 => by
    simp only [lift_strat] at *
    exact ⟨L.rdTrans h1.1 h2.1, liftL_trans L ks ks' ks'' h1.2 h2.2⟩
  | .sec _, .strat _ _, _, h1, _ => by simp at h1
  | .strat _ _, .sec _, _, h1, _ => by simp at h1
  | .sec _, .sec _, .strat _ _, _, h2 => by simp at h2
  | .strat _ _, .strat _ _, .sec _, _, h2 => by simp at h2
theorem liftL_trans (L : Laws cfg C Rs Rd) :
    (ks ks' ks'' : List (Node K)) → LiftL Rs Rd ks ks' → LiftL Rs Rd ks' ks'' → LiftL Rs Rd ks ks''
  | [], [], [], _, _ => by simp
  | k :: ks, k' :: ks', k'' :: ks'', h1, h2 => by
    simp only [liftL_cons] at *
    exact ⟨lift_trans L k k' k'' h1.1 h2.1, liftL_trans L ks ks' ks'' h1.2 h2.2⟩
  | [], _ :: _, _, h1, _ => by simp at h1
  | _ :: _, [], _, h1, _ => by simp at h1
  | [], [], _ :: _, _, h2 => by simp at h2
  | _ :: _, _ :: _, [], _, h2 => by simp at h2
end

mutual
/-- the clocks of the strategies stay inside `C` -/
theorem lift_nowsIn (L : Laws cfg C Rs Rd) : (n n' : Node K) → Lift Rs Rd n n' → NowsIn C n → NowsIn C n'
  | .sec s, .sec s', _, _ => by simp [NowsIn]
  | .strat sd ks, .strat sd' ks', h, hn => by
    simp only [lift_strat] at h
    simp only [NowsIn] at hn ⊢
    exact ⟨L.stratNow h.1 hn.1, liftL_nowsIn L ks ks' h.2 hn.2⟩
  | .sec _, .strat _ _, h, _ => by simp at h
  | .strat _ _, .sec _, h, _ => by simp at h
theorem liftL_nowsIn (L : Laws cfg C Rs Rd) :
    (ks ks' : List (Node K)) → LiftL Rs Rd ks ks' → NowsInL C ks → NowsInL C ks'
  | [], [], _, _ => by simp [NowsInL]
  | k :: ks, k' :: ks', h, hn => by
    simp only [liftL_cons] at h
    simp only [NowsInL] at hn ⊢
    exact ⟨lift_nowsIn L k k' h.1 hn.1, liftL_nowsIn L ks ks' h.2 hn.2⟩
  | [], _ :: _, h, _ => by simp at h
  | _ :: _, [], h, _ => by simp at h
end

theorem lift_rootNow (L : Laws cfg C Rs Rd) {n n' : Node K} (h : Lift Rs Rd n n') (hn : Ck C n.now) :
    Ck C n'.now := by
  cases n with
  | sec s => cases n' with
    | sec s' => simp only [lift_sec] at h; exact L.secNow h hn
    | strat _ _ => simp at h
  | strat sd ks => cases n' with
    | sec _ => simp at h
    | strat sd' ks' => simp only [lift_strat] at h; exact L.stratNow h.1 hn

theorem liftL_set (L : Laws cfg C Rs Rd) {k k' : Node K} (hk : Lift Rs Rd k k') :
    ∀ (ks : List (Node K)) (i : Nat), ks[i]? = some k → LiftL Rs Rd ks (ks.set i k')
  | [], i, h => by simp at h
  | a :: ks, 0, h => by
    simp only [List.getElem?_cons_zero, Option.some.injEq] at h
    subst h
    simp only [List.set_cons_zero, liftL_cons]
    exact ⟨hk, liftL_refl L ks⟩
  | a :: ks, i + 1, h => by
    simp only [List.getElem?_cons_succ] at h
    simp only [List.set_cons_succ, liftL_cons]
    exact ⟨lift_refl L a, liftL_set L hk ks i h⟩

/-! ### securities -/

theorem secRefresh_lift (L : Laws cfg C Rs Rd) {pnow : Option Nat} {s s' : SecData K}
    (hp : Ck C pnow) (h : secRefresh cfg pnow s = .ok s') : Rs s s' := by
  unfold secRefresh at h
  split at h
  · cases pnow with
    | none => cases h
    | some d => exact L.secUpdate (hp d rfl) h
  · cases h; exact L.rsRefl _

theorem secTransact_lift (L : Laws cfg C Rs Rd) {pnow : Option Nat} {comm : K → K → K}
    {s : SecData K} {q : K} {u : Bool} {custom : Option K} {r : SecData K × Option (Adj K)}
    (hp : Ck C pnow) (h : secTransact cfg pnow comm s q u custom = .ok r) : Rs s r.1 := by
  unfold secTransact at h
  obtain ⟨s1, h1, h2⟩ := bind_eq_ok h
  refine L.rsTrans ?_ (L.secTrade h2)
  split at h1
  · exact secRefresh_lift L hp h1
  · cases h1; exact L.rsRefl _

theorem secAllocate_lift (L : Laws cfg C Rs Rd) {pnow : Option Nat} {comm : K → K → K}
    {s : SecData K} {amount : K} {r : SecData K × Option (Adj K)}
    (hp : Ck C pnow) (h : secAllocate cfg pnow comm s amount = .ok r) : Rs s r.1 := by
  unfold secAllocate at h
  obtain ⟨s1, h1, h⟩ := bind_eq_ok h
  obtain ⟨oq, _, h⟩ := bind_eq_ok h
  refine L.rsTrans (secRefresh_lift L hp h1) ?_
  cases oq with
  | none => cases h; exact L.rsRefl _
  | some q => exact L.secTrade h

/-! ### `update(d)` of a tree, `C d` -/

theorem foldl_adjust_lift (L : Laws cfg C Rs Rd) (adjs : List (Adj K)) (sd : StratData K) :
    Rd sd (adjs.foldl StratData.adjust sd) := by
  induction adjs generalizing sd with
  | nil => exact L.rdRefl sd
  | cons a as ih => rw [List.foldl_cons]; exact L.rdTrans (L.adjust sd a) (ih _)

theorem setWeight_lift (L : Laws cfg C Rs Rd) (w : K) (k : Node K) : Lift Rs Rd k (k.setWeight w) := by
  cases k with
  | sec s => simp only [Node.setWeight, lift_sec]; exact L.secWeight s w
  | strat sd ks =>
    simp only [Node.setWeight, lift_strat]
    exact ⟨L.stratWeight sd w, liftL_refl L ks⟩

theorem kidsWeights_lift (L : Laws cfg C Rs Rd) (fi : Bool) (v n : K) :
    ∀ ks : List (Node K), LiftL Rs Rd ks (kidsWeights cfg fi v n ks)
  | [] => by simp [kidsWeights]
  | k :: ks => by
    rw [kidsWeights_cons, liftL_cons]
    refine ⟨?_, kidsWeights_lift L fi v n ks⟩
    split
    · exact lift_refl L k
    · exact setWeight_lift L _ k

theorem stratFinish_lift (L : Laws cfg C Rs Rd) {d : Nat} (hC : C d) {np : Bool}
    {sd1 : StratData K} {r : List (Node K) × Acc K} {n' : Node K}
    (h : stratFinish cfg d np sd1 r = .ok n') : Lift Rs Rd (.strat sd1 r.1) n' := by
  unfold stratFinish at h
  obtain ⟨sd3, hw, rfl⟩ := map_eq_ok h
  simp only [lift_strat]
  exact ⟨L.rdTrans (L.capital _ _) <| L.rdTrans (L.write hC hw) (L.rows _ hC), kidsWeights_lift L ..⟩

mutual
theorem updNode_lift (L : Laws cfg C Rs Rd) {d : Nat} (hC : C d) :
    (n : Node K) → ∀ n', updNode cfg d n = .ok n' → Lift Rs Rd n n'
  | .sec s, n', h => by
    rw [updNode.eq_1] at h
    obtain ⟨s', hs, rfl⟩ := map_eq_ok h
    simpa using L.secUpdate hC hs
  | .strat sd kids, n', h => by
    rw [updNode_strat] at h
    obtain ⟨⟨kids1, acc⟩, hk, hf⟩ := bind_eq_ok h
    have h0 : Lift Rs Rd (.strat sd kids) (.strat (stratDateChange d sd).1 kids1) := by
      simp only [lift_strat]
      exact ⟨L.dateChange sd hC, updKids_lift L hC kids _ _ _ _ _ hk⟩
    exact lift_trans L _ _ _ h0 (stratFinish_lift L hC hf)

theorem updKids_lift (L : Laws cfg C Rs Rd) {d : Nat} (hC : C d) :
    (ks : List (Node K)) → ∀ (newpt bo : Bool) (acc : Acc K) ks' a,
      updKids cfg d newpt bo ks acc = .ok (ks', a) → LiftL Rs Rd ks ks'
  | [], newpt, bo, acc, ks', a, h => by
    rw [updKids.eq_1] at h; cases h; simp
  | .sec s :: ks, newpt, bo, acc, ks', a, h => by
    rw [updKids_sec] at h
    split at h
    · obtain ⟨⟨ks1, a1⟩, hrest, hr⟩ := map_eq_ok h
      cases hr
      rw [liftL_cons, lift_sec]
      exact ⟨L.sweep .., updKids_lift L hC ks _ _ _ _ _ hrest⟩
    · obtain ⟨s1, hs1, h⟩ := bind_eq_ok h
      obtain ⟨⟨ks1, a1⟩, hrest, hr⟩ := map_eq_ok h
      cases hr
      rw [liftL_cons, lift_sec]
      exact ⟨L.rsTrans (L.sweep ..) (L.secUpdate hC hs1), updKids_lift L hC ks _ _ _ _ _ hrest⟩
  | .strat sd kk :: ks, newpt, bo, acc, ks', a, h => by
    rw [updKids_strat] at h
    obtain ⟨k1, hk1, h⟩ := bind_eq_ok h
    obtain ⟨⟨ks1, a1⟩, hrest, hr⟩ := map_eq_ok h
    cases hr
    rw [liftL_cons]
    exact ⟨updNode_lift L hC (.strat sd kk) _ hk1, updKids_lift L hC ks _ _ _ _ _ hrest⟩
end

/-! ### `allocate` / `transact` pushed down a tree whose clocks lie in `C` -/

mutual
theorem allocNode_lift (L : Laws cfg C Rs Rd) :
    (n : Node K) → ∀ (pnow : Option Nat) (comm : K → K → K) (amount : K) r,
      Ck C pnow → NowsIn C n → allocNode cfg pnow comm amount n = .ok r → Lift Rs Rd n r.1
  | .sec s, pnow, comm, amount, r, hp, _, h => by
    rw [allocNode.eq_1] at h
    obtain ⟨⟨s', a⟩, hs, rfl⟩ := map_eq_ok h
    simpa using secAllocate_lift L hp hs
  | .strat sd kids, pnow, comm, amount, r, _, hn, h => by
    rw [allocNode.eq_2] at h
    obtain ⟨⟨sd2, kids2⟩, hk, rfl⟩ := map_eq_ok h
    simp only [NowsIn] at hn
    obtain ⟨h1, -, h3⟩ := allocKids_lift L kids amount (sd.adjust _) _ _ hn.1 hn.2 hk
    simp only [lift_strat]
    exact ⟨L.rdTrans (L.adjust sd _) h1, h3⟩

theorem allocKids_lift (L : Laws cfg C Rs Rd) :
    (ks : List (Node K)) → ∀ (amount : K) (sd sd' : StratData K) ks',
      Ck C sd.now → NowsInL C ks → allocKids cfg amount ks sd = .ok (sd', ks') →
      Rd sd sd' ∧ sd'.now = sd.now ∧ LiftL Rs Rd ks ks'
  | [], amount, sd, sd', ks', _, _, h => by
    rw [allocKids.eq_1] at h; cases h
    exact ⟨L.rdRefl _, rfl, by simp⟩
  | k :: ks, amount, sd, sd', ks', hp, hn, h => by
    rw [allocKids.eq_2] at h
    obtain ⟨⟨k', adjs⟩, hk, h⟩ := bind_eq_ok h
    obtain ⟨⟨sd2, ks2⟩, hrest, hr⟩ := map_eq_ok h
    cases hr
    simp only [NowsInL] at hn
    have hk' := allocNode_lift L k _ _ _ _ hp hn.1 hk
    obtain ⟨h1, h2, h3⟩ := allocKids_lift L ks amount _ _ _
      (by rw [foldl_adjust_now]; exact hp) hn.2 hrest
    refine ⟨L.rdTrans (foldl_adjust_lift L adjs sd) h1, by rw [h2, foldl_adjust_now], ?_⟩
    simp only [liftL_cons]
    exact ⟨hk', h3⟩
end

mutual
theorem transNode_lift (L : Laws cfg C Rs Rd) :
    (n : Node K) → ∀ (pnow : Option Nat) (comm : K → K → K) (q : K) (custom : Option K) r,
      Ck C pnow → NowsIn C n → transNode cfg pnow comm q custom n = .ok r → Lift Rs Rd n r.1
  | .sec s, pnow, comm, q, custom, r, hp, _, h => by
    rw [transNode.eq_1] at h
    obtain ⟨⟨s', a⟩, hs, rfl⟩ := map_eq_ok h
    simpa using secTransact_lift L hp hs
  | .strat sd kids, pnow, comm, q, custom, r, _, hn, h => by
    rw [transNode.eq_2] at h
    obtain ⟨⟨sd2, kids2⟩, hk, rfl⟩ := map_eq_ok h
    simp only [NowsIn] at hn
    obtain ⟨h1, -, h3⟩ := transKids_lift L kids q _ _ _ hn.1 hn.2 hk
    simp only [lift_strat]
    exact ⟨h1, h3⟩

theorem transKids_lift (L : Laws cfg C Rs Rd) :
    (ks : List (Node K)) → ∀ (q : K) (sd sd' : StratData K) ks',
      Ck C sd.now → NowsInL C ks → transKids cfg q ks sd = .ok (sd', ks') →
      Rd sd sd' ∧ sd'.now = sd.now ∧ LiftL Rs Rd ks ks'
  | [], q, sd, sd', ks', _, _, h => by
    rw [transKids.eq_1] at h; cases h
    exact ⟨L.rdRefl _, rfl, by simp⟩
  | k :: ks, q, sd, sd', ks', hp, hn, h => by
    rw [transKids.eq_2] at h
    obtain ⟨⟨k', adjs⟩, hk, h⟩ := bind_eq_ok h
    obtain ⟨⟨sd2, ks2⟩, hrest, hr⟩ := map_eq_ok h
    cases hr
    simp only [NowsInL] at hn
    have hk' := transNode_lift L k _ _ _ _ _ hp hn.1 hk
    obtain ⟨h1, h2, h3⟩ := transKids_lift L ks q _ _ _
      (by rw [foldl_adjust_now]; exact hp) hn.2 hrest
    refine ⟨L.rdTrans (foldl_adjust_lift L adjs sd) h1, by rw [h2, foldl_adjust_now], ?_⟩
    simp only [liftL_cons]
    exact ⟨hk', h3⟩
end

/-! ### one level of `flatten` -/

theorem flattenKidsMV_lift (L : Laws cfg C Rs Rd) :
    ∀ (ks : List (Node K)) (sd sd' : StratData K) (ks' : List (Node K)),
      Ck C sd.now → NowsInL C ks → flattenKidsMV cfg ks sd = .ok (sd', ks') →
      Rd sd sd' ∧ LiftL Rs Rd ks ks'
  | [], sd, sd', ks', _, _, h => by
    rw [flattenKidsMV] at h; cases h; exact ⟨L.rdRefl _, by simp⟩
  | k :: ks, sd, sd', ks', hp, hn, h => by
    rw [flattenKidsMV] at h
    simp only [NowsInL] at hn
    split at h
    · obtain ⟨⟨sd2, ks2⟩, h2, hr⟩ := map_eq_ok h
      cases hr
      obtain ⟨h1, h3⟩ := flattenKidsMV_lift L ks sd _ _ hp hn.2 h2
      exact ⟨h1, by simp only [liftL_cons]; exact ⟨lift_refl L k, h3⟩⟩
    · obtain ⟨⟨k', adjs⟩, hk, h⟩ := bind_eq_ok h
      obtain ⟨⟨sd2, ks2⟩, h2, hr⟩ := map_eq_ok h
      cases hr
      obtain ⟨h1, h3⟩ := flattenKidsMV_lift L ks _ _ _ (by rw [foldl_adjust_now]; exact hp) hn.2 h2
      have hk' := allocNode_lift L k _ _ _ _ hp hn.1 hk
      exact ⟨L.rdTrans (foldl_adjust_lift L adjs sd) h1, by simp only [liftL_cons]; exact ⟨hk', h3⟩⟩

theorem flattenKidsFI_lift (L : Laws cfg C Rs Rd) :
    ∀ (ks : List (Node K)) (sd sd' : StratData K) (ks' : List (Node K)),
      Ck C sd.now → flattenKidsFI cfg ks sd = .ok (sd', ks') → Rd sd sd' ∧ LiftL Rs Rd ks ks'
  | [], sd, sd', ks', _, h => by
    rw [flattenKidsFI] at h; cases h; exact ⟨L.rdRefl _, by simp⟩
  | .strat _ _ :: ks, sd, sd', ks', _, h => by
    rw [flattenKidsFI] at h; cases h
  | .sec s :: ks, sd, sd', ks', hp, h => by
    rw [flattenKidsFI] at h
    split at h
    · obtain ⟨⟨sd2, ks2⟩, h2, hr⟩ := map_eq_ok h
      cases hr
      obtain ⟨h1, h3⟩ := flattenKidsFI_lift L ks sd _ _ hp h2
      exact ⟨h1, by simp only [liftL_cons]; exact ⟨lift_refl L _, h3⟩⟩
    · obtain ⟨⟨s', adj⟩, hk, h⟩ := bind_eq_ok h
      obtain ⟨⟨sd2, ks2⟩, h2, hr⟩ := map_eq_ok h
      cases hr
      obtain ⟨h1, h3⟩ := flattenKidsFI_lift L ks _ _ _ (by rw [foldl_adjust_now]; exact hp) h2
      have hk' := secTransact_lift L hp hk
      exact ⟨L.rdTrans (foldl_adjust_lift L _ sd) h1,
        by simp only [liftL_cons, lift_sec]; exact ⟨hk', h3⟩⟩

theorem flatF_lift (L : Laws cfg C Rs Rd) {par : Option (StratData K)} {n : Node K} {r : OpRes K}
    (hn : NowsIn C n) (h : flatF cfg par n = .ok r) : Lift Rs Rd n r.1 := by
  cases n with
  | sec s => cases h
  | strat sd ks =>
    simp only [flatF] at h
    obtain ⟨⟨sd', ks'⟩, hfl, rfl⟩ := map_eq_ok h
    simp only [NowsIn] at hn
    unfold flattenStrat at hfl
    simp only [lift_strat]
    split at hfl
    · exact flattenKidsFI_lift L _ _ _ _ hn.1 hfl
    · exact flattenKidsMV_lift L _ _ _ _ hn.1 hn.2 hfl

/-! ### operations addressed by a path -/

/-- the parent handed to a node-level operation has its clock in `C` -/
def ParCk (C : Nat → Prop) (par : Option (StratData K)) : Prop := ∀ p, par = some p → Ck C p.now

theorem parCk_none (C : Nat → Prop) : ParCk C (none : Option (StratData K)) := fun _ h => by cases h

theorem nowsInL_get {P : Nat → Prop} : ∀ (ks : List (Node K)) (i : Nat) (k : Node K),
    NowsInL P ks → ks[i]? = some k → NowsIn P k
  | [], i, k, _, h => by simp at h
  | a :: ks, 0, k, hn, h => by
    simp only [List.getElem?_cons_zero, Option.some.injEq] at h
    subst h; simp only [NowsInL] at hn; exact hn.1
  | a :: ks, i + 1, k, hn, h => by
    simp only [List.getElem?_cons_succ] at h
    simp only [NowsInL] at hn
    exact nowsInL_get ks i k hn.2 h

theorem modAt_lift (L : Laws cfg C Rs Rd) {f : Option (StratData K) → Node K → Except Err (OpRes K)}
    (hf : ∀ par n r, ParCk C par → NowsIn C n → f par n = .ok r → Lift Rs Rd n r.1) :
    ∀ (path : List Nat) (par : Option (StratData K)) (n : Node K) (r : OpRes K),
      ParCk C par → NowsIn C n → modAt f path par n = .ok r → Lift Rs Rd n r.1
  | [], par, n, r, hp, hn, h => by rw [modAt.eq_1] at h; exact hf _ _ _ hp hn h
  | i :: rest, par, .sec s, r, _, _, h => by rw [modAt.eq_2] at h; cases h
  | i :: rest, par, .strat sd kids, r, _, hn, h => by
    rw [modAt.eq_3] at h
    simp only [NowsIn] at hn
    split at h
    · cases h
    · rename_i k hk
      obtain ⟨⟨k', adjs, st⟩, hm, rfl⟩ := map_eq_ok h
      have := modAt_lift L hf rest (some sd) k _ (fun p hp => by cases hp; exact hn.1)
        (nowsInL_get kids i k hn.2 hk) hm
      simp only [lift_strat]
      exact ⟨foldl_adjust_lift L adjs sd, liftL_set L this kids i hk⟩

/-- the clocks of a world lie in `C`: every strategy's clock and the root's own -/
def WOK (C : Nat → Prop) (w : World K) : Prop := NowsIn C w.root ∧ Ck C w.root.now

theorem lift_wok (L : Laws cfg C Rs Rd) {w w' : World K} (h : Lift Rs Rd w.root w'.root) (hw : WOK C w) :
    WOK C w' :=
  ⟨lift_nowsIn L _ _ h hw.1, lift_rootNow L h hw.2⟩

theorem modify_lift (L : Laws cfg C Rs Rd) {f : Option (StratData K) → Node K → Except Err (OpRes K)}
    (hf : ∀ par n r, ParCk C par → NowsIn C n → f par n = .ok r → Lift Rs Rd n r.1)
    {w w' : World K} {path : List Nat} (hw : WOK C w)
    (h : w.modify path f = .ok w') : Lift Rs Rd w.root w'.root := by
  unfold World.modify at h
  obtain ⟨⟨r, adjs, st⟩, hm, rfl⟩ := map_eq_ok h
  exact modAt_lift L hf _ _ _ _ (parCk_none C) hw.1 hm

/-! ### `root.update`, refresh, recursive flatten -/

/-- after `update(d)` every strategy of the tree has its clock at `d` -/
theorem kidsWeights_nowsIn {P : Nat → Prop} (fi : Bool) (v n : K) :
    ∀ ks : List (Node K), NowsInL P ks → NowsInL P (kidsWeights cfg fi v n ks)
  | [], _ => by simp [kidsWeights, NowsInL]
  | k :: ks, h => by
    rw [kidsWeights_cons]
    simp only [NowsInL] at h ⊢
    refine ⟨?_, kidsWeights_nowsIn fi v n ks h.2⟩
    split
    · exact h.1
    · cases k with
      | sec s => simp [Node.setWeight, NowsIn]
      | strat sd kk => simpa [Node.setWeight, NowsIn] using h.1

theorem stratFinish_nowsEq {d : Nat} {np : Bool} {sd1 : StratData K} {r : List (Node K) × Acc K}
    {n' : Node K} (hnow : sd1.now = some d) (hk : NowsInL (· = d) r.1)
    (h : stratFinish cfg d np sd1 r = .ok n') : NowsIn (· = d) n' := by
  unfold stratFinish at h
  obtain ⟨sd3, hw, rfl⟩ := map_eq_ok h
  simp only [NowsIn]
  refine ⟨fun x hx => ?_, kidsWeights_nowsIn _ _ _ _ hk⟩
  rw [stratRows_now, (stratWrite_proj hw).1] at hx
  change sd1.now = some x at hx
  rw [hnow] at hx; cases hx; rfl

mutual
theorem updNode_nowsEq {d : Nat} : (n : Node K) → ∀ n', updNode cfg d n = .ok n' → NowsIn (· = d) n'
  | .sec s, n', h => by
    rw [updNode.eq_1] at h
    obtain ⟨s', _, rfl⟩ := map_eq_ok h
    simp [NowsIn]
  | .strat sd kids, n', h => by
    rw [updNode_strat] at h
    obtain ⟨⟨kids1, acc⟩, hk, hf⟩ := bind_eq_ok h
    exact stratFinish_nowsEq (stratDateChange_now d sd) (updKids_nowsEq kids _ _ _ _ _ hk) hf
theorem updKids_nowsEq {d : Nat} : (ks : List (Node K)) → ∀ (newpt bo : Bool) (acc : Acc K) ks' a,
    updKids cfg d newpt bo ks acc = .ok (ks', a) → NowsInL (· = d) ks'
  | [], newpt, bo, acc, ks', a, h => by
    rw [updKids.eq_1] at h; cases h; simp [NowsInL]
  | .sec s :: ks, newpt, bo, acc, ks', a, h => by
    rw [updKids_sec] at h
    split at h
    · obtain ⟨⟨ks1, a1⟩, hrest, hr⟩ := map_eq_ok h
      cases hr
      simp only [NowsInL, NowsIn, true_and]
      exact updKids_nowsEq ks _ _ _ _ _ hrest
    · obtain ⟨s1, _, h⟩ := bind_eq_ok h
      obtain ⟨⟨ks1, a1⟩, hrest, hr⟩ := map_eq_ok h
      cases hr
      simp only [NowsInL, NowsIn, true_and]
      exact updKids_nowsEq ks _ _ _ _ _ hrest
  | .strat sd kk :: ks, newpt, bo, acc, ks', a, h => by
    rw [updKids_strat] at h
    obtain ⟨k1, hk1, h⟩ := bind_eq_ok h
    obtain ⟨⟨ks1, a1⟩, hrest, hr⟩ := map_eq_ok h
    cases hr
    simp only [NowsInL]
    exact ⟨updNode_nowsEq (.strat sd kk) _ hk1, updKids_nowsEq ks _ _ _ _ _ hrest⟩
end

mutual
theorem nowsIn_mono {P Q : Nat → Prop} (h : ∀ d, P d → Q d) : (n : Node K) → NowsIn P n → NowsIn Q n
  | .sec _, _ => by simp [NowsIn]
  | .strat sd ks, hn => by
    simp only [NowsIn] at hn ⊢
    exact ⟨fun d hd => h d (hn.1 d hd), nowsInL_mono h ks hn.2⟩
theorem nowsInL_mono {P Q : Nat → Prop} (h : ∀ d, P d → Q d) : (ks : List (Node K)) → NowsInL P ks → NowsInL Q ks
  | [], _ => by simp [NowsInL]
  | k :: ks, hn => by
    simp only [NowsInL] at hn ⊢
    exact ⟨nowsIn_mono h k hn.1, nowsInL_mono h ks hn.2⟩
end

/-- a strategy root whose strategies all have a clock in `C` -/
theorem wok_of_nowsIn_strat {w : World K} {sd : StratData K} {ks : List (Node K)} (hr : w.root = .strat sd ks)
    (h : NowsIn C w.root) : WOK C w := by
  refine ⟨h, ?_⟩
  rw [hr] at h ⊢
  simp only [NowsIn] at h
  exact h.1

theorem wok_mono {P Q : Nat → Prop} (h : ∀ d, P d → Q d) {w : World K} (hw : WOK P w) : WOK Q w :=
  ⟨nowsIn_mono h _ hw.1, fun d hd => h d (hw.2 d hd)⟩

theorem refreshNB_lift (L : Laws cfg C Rs Rd) {w w' : World K} (hw : WOK C w)
    (h : refreshNB cfg w = .ok w') : Lift Rs Rd w.root w'.root := by
  unfold refreshNB at h
  split at h
  · rename_i d hd
    obtain ⟨n, hn, rfl⟩ := map_eq_ok h
    exact updNode_lift L (hw.2 d hd) _ _ hn
  · cases h

/-- recursive `flatten` with any getter refresh that satisfies the relation on worlds with clocks in `C` -/
theorem flattenAt_lift (L : Laws cfg C Rs Rd) {rf : World K → Except Err (World K)}
    (hrf : ∀ w w', WOK C w → rf w = .ok w' → Lift Rs Rd w.root w'.root)
    {n : Node K} {path : List Nat} {w w' : World K} (hw : WOK C w)
    (h : flattenAt cfg rf n path w = .ok w') : Lift Rs Rd w.root w'.root ∧ WOK C w' :=
  flattenAt_inv (I := fun x => Lift Rs Rd w.root x.root ∧ WOK C x)
    (fun _ _ h1 hI =>
      have hab := hrf _ _ hI.2 h1
      ⟨lift_trans L _ _ _ hI.1 hab, lift_wok L hab hI.2⟩)
    (fun _ _ _ h1 hI =>
      have hab := modify_lift L (fun _ _ _ _ hn hr => flatF_lift L hn hr) hI.2 h1
      ⟨lift_trans L _ _ _ hI.1 hab, lift_wok L hab hI.2⟩)
    n path w w' h ⟨lift_refl L _, hw⟩

/-- **`root.update(d)`, `C d`** — no assumption on the clocks of the input: every strategy is moved to `d`
    before its clock is read.  The output has all its clocks at `d`. -/
theorem updRoot_lift (L : Laws cfg C Rs Rd) {d : Nat} (hC : C d) {w w' : World K}
    (h : updRoot cfg d w = .ok w') : Lift Rs Rd w.root w'.root ∧ WOK (· = d) w' := by
  obtain ⟨root, st⟩ := w
  cases root with
  | sec s => cases h
  | strat sd kids =>
    rw [updRoot_strat] at h
    obtain ⟨⟨kids1, acc⟩, hk, h⟩ := bind_eq_ok h
    have hkids := updKids_lift L hC kids _ _ _ _ _ hk
    have hkn := updKids_nowsEq kids _ _ _ _ _ hk
    have h0 : Lift Rs Rd (.strat sd kids) (.strat (stratDateChange d sd).1 kids1) := by
      simp only [lift_strat]; exact ⟨L.dateChange sd hC, hkids⟩
    split at h
    · obtain ⟨wF, hfl, h⟩ := bind_eq_ok h
      obtain ⟨n, hn, rfl⟩ := map_eq_ok h
      have hB : Lift Rs Rd (.strat (stratDateChange d sd).1 kids1)
          (bankruptWorld (stratDateChange d sd).1 (kids1, acc)).root := by
        simp only [bankruptWorld, lift_strat]
        exact ⟨L.rdTrans (L.capital _ ((stratDateChange d sd).1.capital + acc.coupons)) (L.bankrupt _), liftL_refl L _⟩
      have hBok : WOK C (bankruptWorld (stratDateChange d sd).1 (kids1, acc)) := by
        refine wok_of_nowsIn_strat (sd := _) (ks := kids1) rfl ?_
        simp only [bankruptWorld, NowsIn]
        refine ⟨fun x hx => ?_, nowsInL_mono (fun x hx => hx ▸ hC) _ hkn⟩
        change (stratDateChange d sd).1.now = some x at hx
        rw [stratDateChange_now] at hx; cases hx; exact hC
      have hF := flattenAt_lift L (fun _ _ hw' => refreshNB_lift L hw') hBok hfl
      refine ⟨lift_trans L _ _ _ h0 <| lift_trans L _ _ _ hB <| lift_trans L _ _ _ hF.1
        (updNode_lift L hC _ _ hn), ?_⟩
      -- the final world: its root is a strategy (same shape as the input) with all clocks at `d`
      have hne := updNode_nowsEq _ _ hn
      have hshape := lift_trans L _ _ _ hB hF.1
      cases hwF : wF.root with
      | sec s' => rw [hwF] at hshape; simp at hshape
      | strat sdF ksF =>
        rw [hwF] at hn
        obtain ⟨sd', ks', rfl⟩ := updNode_strat_isStrat hn
        exact wok_of_nowsIn_strat (sd := sd') (ks := ks') rfl hne
    · obtain ⟨n, hf, rfl⟩ := map_eq_ok h
      refine ⟨lift_trans L _ _ _ h0 (stratFinish_lift L hC hf), ?_⟩
      have hne := stratFinish_nowsEq (stratDateChange_now d sd) hkn hf
      have hf' := hf
      unfold stratFinish at hf'
      obtain ⟨sd3, _, rfl⟩ := map_eq_ok hf'
      exact wok_of_nowsIn_strat rfl hne

theorem refresh_lift (L : Laws cfg C Rs Rd) {w w' : World K} (hw : WOK C w)
    (h : refresh cfg w = .ok w') : Lift Rs Rd w.root w'.root := by
  unfold refresh at h
  split at h
  · split at h
    · rename_i d hd
      exact (updRoot_lift L (hw.2 d hd) h).1
    · cases h
  · cases h; exact lift_refl L _

/-! ### the public operations, on a world whose clocks lie in `C` -/

theorem opAdjust_lift (L : Laws cfg C Rs Rd) {w w' : World K} {path : List Nat} {amount : K} {u fl : Bool}
    (hw : WOK C w) (h : opAdjust w path amount u fl = .ok w') : Lift Rs Rd w.root w'.root := by
  unfold opAdjust at h
  refine modify_lift L (fun par n r _ _ hr => ?_) hw h
  cases n with
  | sec s => cases hr
  | strat sd kids =>
    cases hr
    simp only [lift_strat]
    exact ⟨L.adjust sd _, liftL_refl L _⟩

theorem opAllocate_lift (L : Laws cfg C Rs Rd) {w w' : World K} {path : List Nat} {amount : K} {u : Bool}
    (hw : WOK C w) (h : opAllocate cfg w path amount u = .ok w') : Lift Rs Rd w.root w'.root := by
  unfold opAllocate at h
  refine modify_lift L (fun par n r hp hn hr => ?_) hw h
  cases n with
  | sec s =>
    cases par with
    | none => cases hr
    | some p =>
      simp only at hr
      obtain ⟨⟨s', a⟩, hs, rfl⟩ := map_eq_ok hr
      simpa using secAllocate_lift L (hp p rfl) hs
  | strat sd kids =>
    simp only [NowsIn] at hn
    cases par with
    | none =>
      simp only at hr
      obtain ⟨⟨sd2, kids2⟩, hk, rfl⟩ := map_eq_ok hr
      obtain ⟨h1, -, h3⟩ := allocKids_lift L kids amount _ _ _ (by exact hn.1) hn.2 hk
      simp only [lift_strat]
      exact ⟨L.rdTrans (L.adjust sd _) <| L.rdTrans (L.adjust _ _) h1, h3⟩
    | some p =>
      simp only at hr
      obtain ⟨⟨n', adjs⟩, hk, rfl⟩ := map_eq_ok hr
      exact allocNode_lift L _ _ _ _ _ (hp p rfl) (by simpa [NowsIn] using hn) hk

theorem opTransact_lift (L : Laws cfg C Rs Rd) {w w' : World K} {path : List Nat} {q : K} {u : Bool}
    {custom : Option K} (hw : WOK C w) (h : opTransact cfg w path q u custom = .ok w') :
    Lift Rs Rd w.root w'.root := by
  unfold opTransact at h
  refine modify_lift L (fun par n r hp hn hr => ?_) hw h
  cases n with
  | sec s =>
    cases par with
    | none => cases hr
    | some p =>
      simp only at hr
      obtain ⟨⟨s', a⟩, hs, rfl⟩ := map_eq_ok hr
      simpa using secTransact_lift L (hp p rfl) hs
  | strat sd kids =>
    have hr' : (transKids cfg q kids sd).map (fun x : StratData K × List (Node K) =>
        ((Node.strat x.1 x.2, [], u) : OpRes K)) = .ok r := by
      cases par <;> exact hr
    obtain ⟨⟨sd2, kids2⟩, hk, rfl⟩ := map_eq_ok hr'
    simp only [NowsIn] at hn
    obtain ⟨h1, -, h3⟩ := transKids_lift L kids q _ _ _ hn.1 hn.2 hk
    simp only [lift_strat]
    exact ⟨h1, h3⟩

theorem opFlatten_lift (L : Laws cfg C Rs Rd) {w w' : World K} {path : List Nat}
    (hw : WOK C w) (h : opFlatten cfg w path = .ok w') : Lift Rs Rd w.root w'.root := by
  unfold opFlatten at h
  split at h
  · exact (flattenAt_lift L (fun _ _ hw' => refresh_lift L hw') hw h).1
  · cases h

theorem opClose_lift (L : Laws cfg C Rs Rd) {w w' : World K} {path : List Nat} {child : Nat} {u : Bool}
    (hw : WOK C w) (h : opClose cfg w path child u = .ok w') : Lift Rs Rd w.root w'.root := by
  unfold opClose at h
  split at h
  · obtain ⟨w1, h1, h⟩ := bind_eq_ok h
    have hw1 : Lift Rs Rd w.root w1.root := by
      split at h1
      · split at h1
        · exact opFlatten_lift L hw h1
        · cases h1; exact lift_refl L _
      · simp only [Bool.false_eq_true, ↓reduceIte] at h1
        cases h1; exact lift_refl L _
    have hok1 := lift_wok L hw1 hw
    refine lift_trans L _ _ _ hw1 ?_
    split at h
    · split at h
      · cases h
      · split at h
        · split at h
          · exact opTransact_lift L hok1 h
          · cases h; exact lift_refl L _
        · cases h
    · obtain ⟨w2, h2, h⟩ := bind_eq_ok h
      have hw2 := refresh_lift L hok1 h2
      refine lift_trans L _ _ _ hw2 ?_
      split at h
      · split at h
        · exact opAllocate_lift L (lift_wok L hw2 hok1) h
        · cases h; exact lift_refl L _
      · cases h
  · cases h

theorem opRebalance_lift (L : Laws cfg C Rs Rd) {w w' : World K} {path : List Nat} {weight : K}
    {child : Nat} {base : Option K} {u : Bool} (hw : WOK C w)
    (h : opRebalance cfg w path weight child base u = .ok w') : Lift Rs Rd w.root w'.root := by
  unfold opRebalance at h
  split at h
  · exact opClose_lift L hw h
  · obtain ⟨w1, h1, h⟩ := bind_eq_ok h
    have hw1 : Lift Rs Rd w.root w1.root := by
      split at h1
      · exact refresh_lift L hw h1
      · cases h1; exact lift_refl L _
    have hok1 := lift_wok L hw1 hw
    obtain ⟨w2, h2, h⟩ := bind_eq_ok h
    have hw2 := refresh_lift L hok1 h2
    have hok2 := lift_wok L hw2 hok1
    refine lift_trans L _ _ _ hw1 <| lift_trans L _ _ _ hw2 ?_
    split at h
    · simp only at h
      split at h
      · split at h
        · exact opTransact_lift L hok2 h
        · exact opAllocate_lift L hok2 h
      · exact opAllocate_lift L hok2 h
    · cases h

mutual
theorem localRefreshAll_lift (L : Laws cfg C Rs Rd) {rootNow : Nat} (hC : C rootNow) :
    (n : Node K) → ∀ (pnow : Option Nat) n', localRefreshAll cfg rootNow pnow n = .ok n' → Lift Rs Rd n n'
  | .sec s, pnow, n', h => by
    rw [localRefreshAll.eq_1] at h
    split at h
    · obtain ⟨s', hs, rfl⟩ := map_eq_ok h
      simpa using L.secUpdate hC hs
    · cases h; exact lift_refl L _
  | .strat sd kids, pnow, n', h => by
    rw [localRefreshAll.eq_2] at h
    obtain ⟨ks, hk, rfl⟩ := map_eq_ok h
    simp only [lift_strat]
    exact ⟨L.rdRefl _, localRefreshKids_lift L hC kids _ _ hk⟩
theorem localRefreshKids_lift (L : Laws cfg C Rs Rd) {rootNow : Nat} (hC : C rootNow) :
    (ks : List (Node K)) → ∀ (pnow : Option Nat) ks', localRefreshKids cfg rootNow pnow ks = .ok ks' →
      LiftL Rs Rd ks ks'
  | [], pnow, ks', h => by rw [localRefreshKids.eq_1] at h; cases h; simp
  | k :: ks, pnow, ks', h => by
    rw [localRefreshKids.eq_2] at h
    obtain ⟨k', hk, h⟩ := bind_eq_ok h
    obtain ⟨ks1, hks, rfl⟩ := map_eq_ok h
    simp only [liftL_cons]
    exact ⟨localRefreshAll_lift L hC k _ _ hk, localRefreshKids_lift L hC ks _ _ hks⟩
end

/-- the local refresh of a security getter, as a node-level operation (`rootNow` = the root's clock) -/
def localF (cfg : Cfg K) (rootNow : Option Nat) : Option (StratData K) → Node K → Except Err (OpRes K) :=
  fun par n =>
    match par, n with
    | some p, .sec s =>
      if s.needupdate || s.now != p.now then
        match rootNow with
        | some d => (secUpdate cfg d s).map fun s' => (.sec s', [], false)
        | none => throw Err.badPath
      else pure (n, [], false)
    | _, _ => throw Err.badPath

theorem opRead_eq (cfg : Cfg K) (w : World K) (path : List Nat) (g : Getter) :
    opRead cfg w path g =
      match g with
      | .plain => pure w
      | .stratRefreshing => refresh cfg w
      | .secLocal => w.modify path (localF cfg w.root.now)
      | .secSeries => (w.modify path (localF cfg w.root.now)).bind (refresh cfg)
      | .stratMembers =>
        (refresh cfg w).bind fun w1 =>
        match w1.root.now with
        | none => throw Err.badPath
        | some d =>
          w1.modify path fun par n =>
            (localRefreshAll cfg d (par.bind (·.now)) n).map fun n' => (n', [], false) := by
  unfold opRead localF
  cases g <;> rfl

theorem localF_lift (L : Laws cfg C Rs Rd) {rootNow : Option Nat} (hr : Ck C rootNow)
    {par : Option (StratData K)} {n : Node K} {r : OpRes K}
    (h : localF cfg rootNow par n = .ok r) : Lift Rs Rd n r.1 := by
  unfold localF at h
  split at h
  · split at h
    · split at h
      · rename_i d
        obtain ⟨s', hs, rfl⟩ := map_eq_ok h
        simpa using L.secUpdate (hr d rfl) hs
      · cases h
    · cases h; exact lift_refl L _
  · cases h

theorem opRead_lift (L : Laws cfg C Rs Rd) {w w' : World K} {path : List Nat} {g : Getter}
    (hw : WOK C w) (h : opRead cfg w path g = .ok w') : Lift Rs Rd w.root w'.root := by
  rw [opRead_eq] at h
  cases g with
  | plain => cases h; exact lift_refl L _
  | stratRefreshing => exact refresh_lift L hw h
  | secLocal => exact modify_lift L (fun _ _ _ _ _ hr => localF_lift L hw.2 hr) hw h
  | secSeries =>
    obtain ⟨w1, h1, h2⟩ := bind_eq_ok h
    have hw1 := modify_lift L (fun _ _ _ _ _ hr => localF_lift L hw.2 hr) hw h1
    exact lift_trans L _ _ _ hw1 (refresh_lift L (lift_wok L hw1 hw) h2)
  | stratMembers =>
    obtain ⟨w1, h1, h⟩ := bind_eq_ok h
    have hw1 := refresh_lift L hw h1
    have hok1 := lift_wok L hw1 hw
    refine lift_trans L _ _ _ hw1 ?_
    split at h
    · cases h
    · rename_i d hd
      refine modify_lift L (fun par n r _ _ hr => ?_) hok1 h
      obtain ⟨n', hn, rfl⟩ := map_eq_ok hr
      exact localRefreshAll_lift L (hok1.2 d hd) _ _ _ hn

/-! ### sequences of public calls whose explicit `update`s are at dates in `C` -/

/-- one call of the public API; an explicit `root.update(d)` only with `C d` -/
inductive StepC (cfg : Cfg K) (C : Nat → Prop) : World K → World K → Prop
  | update {w w'} (d : Nat) : C d → updRoot cfg d w = .ok w' → StepC cfg C w w'
  | adjust {w w'} (path : List Nat) (amount : K) (u fl : Bool) :
      opAdjust w path amount u fl = .ok w' → StepC cfg C w w'
  | allocate {w w'} (path : List Nat) (amount : K) (u : Bool) :
      opAllocate cfg w path amount u = .ok w' → StepC cfg C w w'
  | transact {w w'} (path : List Nat) (q : K) (u : Bool) (custom : Option K) :
      opTransact cfg w path q u custom = .ok w' → StepC cfg C w w'
  | flatten {w w'} (path : List Nat) : opFlatten cfg w path = .ok w' → StepC cfg C w w'
  | close {w w'} (path : List Nat) (child : Nat) (u : Bool) :
      opClose cfg w path child u = .ok w' → StepC cfg C w w'
  | rebalance {w w'} (path : List Nat) (weight : K) (child : Nat) (base : Option K) (u : Bool) :
      opRebalance cfg w path weight child base u = .ok w' → StepC cfg C w w'
  | read {w w'} (path : List Nat) (g : Getter) : opRead cfg w path g = .ok w' → StepC cfg C w w'

/-- any finite sequence of such calls -/
inductive RunC (cfg : Cfg K) (C : Nat → Prop) : World K → World K → Prop
  | nil (w) : RunC cfg C w w
  | cons {w w' w''} : StepC cfg C w w' → RunC cfg C w' w'' → RunC cfg C w w''

theorem StepC.toPublic {w w' : World K} (h : StepC cfg C w w') : PublicStep cfg w w' := by
  cases h with
  | update d _ h => exact .update d h
  | adjust p a u f h => exact .adjust p a u f h
  | allocate p a u h => exact .allocate p a u h
  | transact p q u c h => exact .transact p q u c h
  | flatten p h => exact .flatten p h
  | close p c u h => exact .close p c u h
  | rebalance p wt c b u h => exact .rebalance p wt c b u h
  | read p g h => exact .read p g h

theorem RunC.toPublic {w w' : World K} (h : RunC cfg C w w') : Run cfg w w' := by
  induction h with
  | nil w => exact .nil w
  | cons hs _ ih => exact .cons hs.toPublic ih

theorem StepC.mono {C' : Nat → Prop} (hC : ∀ d, C d → C' d) {w w' : World K} (h : StepC cfg C w w') :
    StepC cfg C' w w' := by
  cases h with
  | update d hd h => exact .update d (hC d hd) h
  | adjust p a u f h => exact .adjust p a u f h
  | allocate p a u h => exact .allocate p a u h
  | transact p q u c h => exact .transact p q u c h
  | flatten p h => exact .flatten p h
  | close p c u h => exact .close p c u h
  | rebalance p wt c b u h => exact .rebalance p wt c b u h
  | read p g h => exact .read p g h

theorem RunC.mono {C' : Nat → Prop} (hC : ∀ d, C d → C' d) {w w' : World K} (h : RunC cfg C w w') :
    RunC cfg C' w w' := by
  induction h with
  | nil w => exact .nil w
  | cons hs _ ih => exact .cons (hs.mono hC) ih

theorem RunC.append {w w' w'' : World K} (h1 : RunC cfg C w w') (h2 : RunC cfg C w' w'') :
    RunC cfg C w w'' := by
  induction h1 with
  | nil w => exact h2
  | cons hs _ ih => exact .cons hs (ih h2)

theorem RunC.single {w w' : World K} (h : StepC cfg C w w') : RunC cfg C w w' := .cons h (.nil _)

theorem StepC.lift (L : Laws cfg C Rs Rd) {w w' : World K} (hw : WOK C w) (h : StepC cfg C w w') :
    Lift Rs Rd w.root w'.root := by
  cases h with
  | update d hd h => exact (updRoot_lift L hd h).1
  | adjust _ _ _ _ h => exact opAdjust_lift L hw h
  | allocate _ _ _ h => exact opAllocate_lift L hw h
  | transact _ _ _ _ h => exact opTransact_lift L hw h
  | flatten _ h => exact opFlatten_lift L hw h
  | close _ _ _ h => exact opClose_lift L hw h
  | rebalance _ _ _ _ _ h => exact opRebalance_lift L hw h
  | read _ _ h => exact opRead_lift L hw h

theorem RunC.lift (L : Laws cfg C Rs Rd) {w w' : World K} (hw : WOK C w) (h : RunC cfg C w w') :
    Lift Rs Rd w.root w'.root ∧ WOK C w' := by
  induction h with
  | nil w => exact ⟨lift_refl L _, hw⟩
  | cons hs _ ih =>
    have h1 := hs.lift L hw
    have h2 := ih (lift_wok L h1 hw)
    exact ⟨lift_trans L _ _ _ h1 h2.1, h2.2⟩

end generic

end Bt.P04
