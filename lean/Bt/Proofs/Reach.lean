import Bt.Proofs.OpsInv
/-! Operation sequences, and `Quiet` as an invariant of every reachable world (dust-free configuration). -/
namespace Bt
set_option linter.unusedSectionVars false
variable {K : Type} [Field K] [LinearOrder K] [IsStrictOrderedRing K] [HasFloor K]

/-- the public operations of the engine -/
inductive Op (K : Type) where
  | adjust (path : List Nat) (amount : K) (update flow : Bool)
  | allocate (path : List Nat) (amount : K) (update : Bool)
  | transact (path : List Nat) (q : K) (update : Bool) (custom : Option K)
  | flatten (path : List Nat)
  | close (path : List Nat) (child : Nat) (update : Bool)
  | rebalance (path : List Nat) (weight : K) (child : Nat) (base : Option K) (update : Bool)
  | update (d : Nat)

def stepOp (cfg : Cfg K) : Op K → World K → Except Err (World K)
  | .adjust path amount update flow, w => opAdjust w path amount update flow
  | .allocate path amount update, w => opAllocate cfg w path amount update
  | .transact path q update custom, w => opTransact cfg w path q update custom
  | .flatten path, w => opFlatten cfg w path
  | .close path child update, w => opClose cfg w path child update
  | .rebalance path weight child base update, w => opRebalance cfg w path weight child base update
  | .update d, w => updRoot cfg d w

/-- run a list of operations, stopping at the first error -/
def runOps (cfg : Cfg K) : List (Op K) → World K → Except Err (World K)
  | [], w => pure w
  | op :: ops, w => (stepOp cfg op w).bind (runOps cfg ops)

theorem SecInv.keep_stepOp {cfg : Cfg K} {I : SecData K → Prop} (hI : SecInv cfg I) {op : Op K} {w w' : World K}
    (ha : AllSecs I w.root) (h : stepOp cfg op w = .ok w') : AllSecs I w'.root := by
  cases op with
  | adjust path amount update flow => exact hI.keep_opAdjust ha h
  | allocate path amount update => exact hI.keep_opAllocate ha h
  | transact path q update custom => exact hI.keep_opTransact ha h
  | flatten path => exact hI.keep_opFlatten ha h
  | close path child update => exact hI.keep_opClose ha h
  | rebalance path weight child base update => exact hI.keep_opRebalance ha h
  | update d => exact hI.keep_updRoot ha h

theorem SecInv.keep_runOps {cfg : Cfg K} {I : SecData K → Prop} (hI : SecInv cfg I) :
    ∀ (ops : List (Op K)) (w w' : World K), AllSecs I w.root → runOps cfg ops w = .ok w' → AllSecs I w'.root := by
  intro ops
  induction ops with
  | nil => intro w w' ha h; rw [runOps] at h; cases (Except.pure_eq_ok h); exact ha
  | cons op ops ih =>
    intro w w' ha h
    rw [runOps] at h
    obtain ⟨w1, h1, h⟩ := Except.bind_eq_ok h
    exact ih w1 w' (hI.keep_stepOp ha h1) h

/-- the tree on which `updRoot` redoes the update also satisfies the invariant -/
theorem SecInv.keep_updRoot_tree {cfg : Cfg K} {I : SecData K → Prop} (hI : SecInv cfg I) {d : Nat} {w : World K}
    {n0 : Node K} (ha : AllSecs I w.root) (h0 : n0 = w.root ∨ BankruptTree cfg d w n0) : AllSecs I n0 := by
  rcases h0 with rfl | ⟨sd, kids, kids1, acc, wF, hroot, hk, _, _, _, _, hF, rfl⟩
  · exact ha
  · refine (hI.keep_flattenAt (rf := refreshNB cfg) (fun _ _ ha h => hI.keep_refreshNB ha h)).1 _ _ _ _ ?_ hF
    rw [hroot] at ha
    simp only [AllSecs_strat] at *
    exact hI.keep_updNode.2 _ _ _ _ _ ha hk

/-- no dust at all: whatever is below `TOL` in size is exactly zero -/
def DustFree (cfg : Cfg K) : Prop := ∀ x : K, isZero cfg.tol x = true → x = 0

theorem DustFree.noDust {cfg : Cfg K} (hdf : DustFree cfg) :
    (∀ n : Node K, NoDust cfg n) ∧ (∀ l : List (Node K), AllSecsKids (SecNoDust cfg) l) := by
  apply Node.induct
  · intro s; simp only [NoDust, AllSecs_sec]; exact fun h => hdf _ h
  · intro sd kids ih; simp only [NoDust, AllSecs_strat]; exact ih
  · simp
  · intro k ks ihk ihks; simp only [AllSecsKids_cons]; exact ⟨ihk, ihks⟩

theorem DustFree.secInv {cfg : Cfg K} (hdf : DustFree cfg) : SecInv cfg SecQuiet where
  update := fun _ _ _ hq h => (secUpdate_quietStep h).quiet hq (fun hz => hdf _ hz)
  transact := fun _ _ _ _ _ _ hq h => secTransactCore_quiet h hq
  capital := fun _ _ hq => hq
  weight := fun _ _ hq => hq

end Bt
