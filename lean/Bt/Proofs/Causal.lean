import Bt.Proofs.CausalOps
import Bt.Proofs.C08Eval
/-! C04 (no look-ahead), part 6: causal algo functions, the loop of `Backtest.run` on truncated data, and the
    main theorem: what is recorded for dates `≤ t` does not depend on supplied data dated after `t`. -/
set_option linter.unusedSectionVars false
namespace Bt.P04
open Bt Bt.P08

variable {K : Type} [Field K] [LinearOrder K] [IsStrictOrderedRing K] [HasFloor K]

/-! ### the part of a world that truncation cannot change -/

section obs
variable {α : Type}

/-- a security with its supplied data columns erased (whether holding costs were supplied is kept) -/
def eraseSec (s : SecData α) : SecData α :=
  { s with prices := [], bidoffers := [], coupons := [], costLong := s.costLong.map fun _ => [],
           costShort := s.costShort.map fun _ => [] }

mutual
def eraseNode : Node α → Node α
  | .sec s => .sec (eraseSec s)
  | .strat sd kids => .strat sd (eraseL kids)
def eraseL : List (Node α) → List (Node α)
  | [] => []
  | k :: ks => eraseNode k :: eraseL ks
end

/-- **everything an algo can observe of the engine without reading a supplied column**: all fields of all
    nodes (clocks, prices of the current row, values, weights, positions, capital, recorded rows, …) -/
def _root_.Bt.World.obs (w : World α) : World α := { w with root := eraseNode w.root }

theorem eraseSec_trunc (t : Nat) (s : SecData α) : eraseSec (s.trunc t) = eraseSec s := by
  cases s
  simp only [eraseSec, SecData.trunc, Option.map_map]
  rfl

mutual
theorem eraseNode_trunc (t : Nat) : (n : Node α) → eraseNode (n.trunc t) = eraseNode n
  | .sec s => by show Node.sec (eraseSec (s.trunc t)) = _; rw [eraseSec_trunc]; rfl
  | .strat sd ks => by
    show Node.strat sd (eraseL (Node.truncL t ks)) = _
    rw [eraseL_trunc t ks]; rfl
theorem eraseL_trunc (t : Nat) : (ks : List (Node α)) → eraseL (Node.truncL t ks) = eraseL ks
  | [] => rfl
  | k :: ks => by
    show eraseNode (k.trunc t) :: eraseL (Node.truncL t ks) = _
    rw [eraseNode_trunc t k, eraseL_trunc t ks]; rfl
end

/-- truncation is invisible to `obs` -/
theorem obs_trunc (t : Nat) (w : World α) : (w.trunc t).obs = w.obs := by
  unfold World.obs World.trunc
  simp only [eraseNode_trunc]

end obs

/-! ### causal algo functions -/

/-- the engine's clock stands at `d`: every strategy that has a clock, and the root, has it at `d` — the state
    in which `Backtest.run` calls `Strategy.run()` -/
abbrev AtClock (d : Nat) (w : World K) : Prop := WOK (· = d) w

theorem AtClock.clockLE {d t : Nat} (h : d ≤ t) {w : World K} (hw : AtClock d w) : ClockLE t w :=
  wok_mono (fun _ hx => hx ▸ h) hw

/-- `run'` on the data truncated after `t` does what `run` does on the full data, at every date `d ≤ t`
    (called, as the engine calls it, while the clock stands at `d`) -/
def CausalPair (t : Nat) (run run' : RunFn K) : Prop :=
  ∀ d, d ≤ t → ∀ w, AtClock d w → run' d (w.trunc t) = (run d w).map (World.trunc t)

/-- **no look-ahead of an algo function**: truncating the supplied data after `t` commutes with it at every
    date `d ≤ t` -/
def Causal (t : Nat) (run : RunFn K) : Prop := CausalPair t run run

/-- the same with the weaker requirement on the clocks (`≤ t` instead of `= d`): a stronger property -/
def CausalStrong (t : Nat) (run : RunFn K) : Prop :=
  ∀ d, d ≤ t → ∀ w, ClockLE t w → run d (w.trunc t) = (run d w).map (World.trunc t)

theorem CausalStrong.causal {t : Nat} {run : RunFn K} (h : CausalStrong t run) : Causal t run :=
  fun d hd w hw => h d hd w (hw.clockLE hd)

/-- every effect of the algo function goes through the public API, explicit `root.update`s at the date of
    the call only -/
def RunPublic (cfg : Cfg K) (run : RunFn K) : Prop :=
  ∀ d w w2, AtClock d w → run d w = .ok w2 → RunC cfg (· = d) w w2

theorem RunPublic.run {cfg : Cfg K} {run : RunFn K} (h : RunPublic cfg run) {d : Nat} {w w2 : World K}
    (hw : AtClock d w) (hr : run d w = .ok w2) : Run cfg w w2 := (h d w w2 hw hr).toPublic

theorem RunPublic.atClock {cfg : Cfg K} {run : RunFn K} (h : RunPublic cfg run) {d : Nat} {w w2 : World K}
    (hw : AtClock d w) (hr : run d w = .ok w2) : AtClock d w2 := (h d w w2 hw hr).wok hw

section closure
variable {cfg : Cfg K} {t : Nat}

/-- doing nothing is causal -/
theorem causal_id : Causal t (fun _ w => (.ok w : Except Err (World K))) := fun _ _ _ _ => rfl
theorem runPublic_id : RunPublic cfg (fun _ w => (.ok w : Except Err (World K))) :=
  fun _ _ _ _ h => by cases h; exact .nil _

/-- raising unconditionally is causal -/
theorem causal_error (e : Err) : Causal t (fun _ _ => (.error e : Except Err (World K))) := fun _ _ _ _ => rfl

/-- sequential composition (the first part being public, so that the clock still stands at `d` after it) -/
theorem causal_seq {f g : RunFn K} (hf : Causal t f) (hg : Causal t g) (hfp : RunPublic cfg f) :
    Causal t (fun d w => (f d w).bind (g d)) := fun d hd w hw =>
  bind_comm (World.trunc t) (World.trunc t) (hf d hd w hw) fun w1 h1 => hg d hd w1 (hfp.atClock hw h1)

theorem runPublic_seq {f g : RunFn K} (hfp : RunPublic cfg f) (hgp : RunPublic cfg g) :
    RunPublic cfg (fun d w => (f d w).bind (g d)) := fun d w w2 hw h => by
  obtain ⟨w1, h1, h2⟩ := bind_eq_ok h
  exact (hfp d w w1 hw h1).append (hgp d w1 w2 (hfp.atClock hw h1) h2)

/-- **reading the engine**: anything may depend on `w.obs` — clocks, current prices, values, weights,
    positions, capital, recorded rows of every node — i.e. on everything but the supplied columns -/
theorem causal_of_obs {X : Type} (a : Nat → World K → X) {g : X → RunFn K} (hg : ∀ x, Causal t (g x)) :
    Causal t (fun d w => g (a d w.obs) d w) := fun d hd w hw => by
  show g (a d (w.trunc t).obs) d (w.trunc t) = _
  rw [obs_trunc]; exact hg _ d hd w hw

theorem runPublic_of_obs {X : Type} (a : Nat → World K → X) {g : X → RunFn K} (hg : ∀ x, RunPublic cfg (g x)) :
    RunPublic cfg (fun d w => g (a d w.obs) d w) := fun d w w2 hw h => hg _ d w w2 hw h

/-- the public operations, with arguments fixed (make them depend on `w.obs` with `causal_of_obs`) -/
theorem causal_update : Causal t (fun d w => updRoot cfg d w) :=
  fun _ hd w _ => updRoot_trunc cfg hd w
theorem causal_adjust (path : List Nat) (amount : K) (u fl : Bool) :
    Causal t (fun _ w => opAdjust w path amount u fl) :=
  fun _ hd _ hw => opAdjust_trunc (hw.clockLE hd) path amount u fl
theorem causal_allocate (path : List Nat) (amount : K) (u : Bool) :
    Causal t (fun _ w => opAllocate cfg w path amount u) :=
  fun _ hd _ hw => opAllocate_trunc (hw.clockLE hd) path amount u
theorem causal_transact (path : List Nat) (q : K) (u : Bool) (custom : Option K) :
    Causal t (fun _ w => opTransact cfg w path q u custom) :=
  fun _ hd _ hw => opTransact_trunc (hw.clockLE hd) path q u custom
theorem causal_flatten (path : List Nat) : Causal t (fun _ w => opFlatten cfg w path) :=
  fun _ hd _ hw => opFlatten_trunc (hw.clockLE hd) path
theorem causal_close (path : List Nat) (child : Nat) (u : Bool) :
    Causal t (fun _ w => opClose cfg w path child u) :=
  fun _ hd _ hw => opClose_trunc (hw.clockLE hd) path child u
theorem causal_rebalance (path : List Nat) (weight : K) (child : Nat) (base : Option K) (u : Bool) :
    Causal t (fun _ w => opRebalance cfg w path weight child base u) :=
  fun _ hd _ hw => opRebalance_trunc (hw.clockLE hd) path weight child base u
theorem causal_read (path : List Nat) (g : Getter) : Causal t (fun _ w => opRead cfg w path g) :=
  fun _ hd _ hw => opRead_trunc (hw.clockLE hd) path g

theorem runPublic_update : RunPublic cfg (fun d w => updRoot cfg d w) :=
  fun d _ _ _ h => .single (.update d rfl h)
theorem runPublic_adjust (path : List Nat) (amount : K) (u fl : Bool) :
    RunPublic cfg (fun _ w => opAdjust w path amount u fl) := fun _ _ _ _ h => .single (.adjust _ _ _ _ h)
theorem runPublic_allocate (path : List Nat) (amount : K) (u : Bool) :
    RunPublic cfg (fun _ w => opAllocate cfg w path amount u) := fun _ _ _ _ h => .single (.allocate _ _ _ h)
theorem runPublic_transact (path : List Nat) (q : K) (u : Bool) (custom : Option K) :
    RunPublic cfg (fun _ w => opTransact cfg w path q u custom) :=
  fun _ _ _ _ h => .single (.transact _ _ _ _ h)
theorem runPublic_flatten (path : List Nat) : RunPublic cfg (fun _ w => opFlatten cfg w path) :=
  fun _ _ _ _ h => .single (.flatten _ h)
theorem runPublic_close (path : List Nat) (child : Nat) (u : Bool) :
    RunPublic cfg (fun _ w => opClose cfg w path child u) := fun _ _ _ _ h => .single (.close _ _ _ h)
theorem runPublic_rebalance (path : List Nat) (weight : K) (child : Nat) (base : Option K) (u : Bool) :
    RunPublic cfg (fun _ w => opRebalance cfg w path weight child base u) :=
  fun _ _ _ _ h => .single (.rebalance _ _ _ _ _ h)
theorem runPublic_read (path : List Nat) (g : Getter) : RunPublic cfg (fun _ w => opRead cfg w path g) :=
  fun _ _ _ _ h => .single (.read _ _ h)

/-! ### algos that read supplied frames -/

/-- an algo function parametrised by supplied frames `p` (signals, target weights, a price universe, …);
    `E t p p'`: the frames `p`, `p'` agree on everything dated `≤ t`.  Causal = replacing the frames by frames
    that agree up to `t` *and* truncating the engine's data after `t` changes nothing at dates `≤ t`. -/
def CausalWith {P : Type} (E : Nat → P → P → Prop) (t : Nat) (run : P → RunFn K) : Prop :=
  ∀ p p', E t p p' → CausalPair t (run p) (run p')

/-- an algo that uses its frames only through a result `f p d` determined by the part of `p` dated `≤ d`, and is
    causal in the engine for every value of that result -/
theorem causalWith_of_factor {P X : Type} {E : Nat → P → P → Prop} (f : P → Nat → X) (g : X → RunFn K)
    (hf : ∀ p p' d, d ≤ t → E t p p' → f p' d = f p d) (hg : ∀ x, Causal t (g x)) :
    CausalWith E t (fun p d w => g (f p d) d w) := fun p p' hE d hd w hw => by
  show g (f p' d) d (w.trunc t) = _
  rw [hf p p' d hd hE]; exact hg _ d hd w hw

theorem CausalWith.causal {P : Type} {E : Nat → P → P → Prop} {run : P → RunFn K} (h : CausalWith E t run)
    (p : P) (hE : E t p p) : Causal t (run p) := h p p hE

end closure

/-! ### `Backtest.run` on truncated data -/

section loop
variable {cfg : Cfg K} {t : Nat}

theorem bankrupt_trunc (t : Nat) (w : World K) : (w.trunc t).bankrupt = w.bankrupt := by
  obtain ⟨root, st⟩ := w
  cases root <;> rfl

theorem updRoot_atClock {d : Nat} {w w' : World K} (h : updRoot cfg d w = .ok w') : AtClock d w' :=
  (updRoot_lift (clockLaws cfg (· = d)) rfl h).2

/-- one day of the loop, `d ≤ t` -/
theorem btDay_trunc {run run' : RunFn K} (hc : CausalPair t run run') {d : Nat} (hd : d ≤ t) (w : World K) :
    btDay cfg run' d (w.trunc t) = (btDay cfg run d w).map (World.trunc t) := by
  unfold btDay
  refine bind_comm (World.trunc t) (World.trunc t) (updRoot_trunc cfg hd w) fun w1 h1 => ?_
  rw [bankrupt_trunc]
  refine ite_comm Iff.rfl (Except.map (World.trunc t)) rfl ?_
  exact bind_comm (World.trunc t) (World.trunc t) (hc d hd w1 (updRoot_atClock h1)) fun w2 _ =>
    updRoot_trunc cfg hd w2

/-- **the loop of `Backtest.run` over dates `≤ t` on data truncated after `t`** -/
theorem btLoop_trunc_pair {run run' : RunFn K} (hc : CausalPair t run run') :
    ∀ (ds : List Nat), (∀ d ∈ ds, d ≤ t) → ∀ w : World K,
      btLoop cfg run' ds (w.trunc t) = (btLoop cfg run ds w).map (World.trunc t)
  | [], _, w => rfl
  | d :: ds, hds, w => by
    rw [btLoop, btLoop]
    exact bind_comm (World.trunc t) (World.trunc t) (btDay_trunc hc (hds d (List.mem_cons_self ..)) w)
      fun w1 _ => btLoop_trunc_pair hc ds (fun x hx => hds x (List.mem_cons_of_mem _ hx)) w1

theorem btLoop_trunc {run : RunFn K} (hc : Causal t run) (ds : List Nat) (hds : ∀ d ∈ ds, d ≤ t) (w : World K) :
    btLoop cfg run ds (w.trunc t) = (btLoop cfg run ds w).map (World.trunc t) :=
  btLoop_trunc_pair hc ds hds w

theorem opAdjust_root_trunc (t : Nat) (w : World K) (amount : K) (u fl : Bool) :
    opAdjust (w.trunc t) [] amount u fl = (opAdjust w [] amount u fl).map (World.trunc t) := by
  obtain ⟨root, st⟩ := w
  cases root <;> rfl

/-- **`Backtest.run` (initial capital, first row, loop) over dates `≤ t` on data truncated after `t`** -/
theorem btRun_trunc_pair {run run' : RunFn K} (hc : CausalPair t run run') (capital : K) (dates : List Nat)
    (hds : ∀ d ∈ dates, d ≤ t) (w0 : World K) :
    btRun cfg run' capital dates (w0.trunc t) = (btRun cfg run capital dates w0).map (World.trunc t) := by
  cases dates with
  | nil => rfl
  | cons d0 ds =>
    simp only [btRun]
    refine bind_comm (World.trunc t) (World.trunc t) (opAdjust_root_trunc t w0 capital true true) fun w1 _ => ?_
    refine bind_comm (World.trunc t) (World.trunc t) (updRoot_trunc cfg (hds d0 (List.mem_cons_self ..)) w1)
      fun w2 _ => ?_
    exact btLoop_trunc_pair hc ds (fun x hx => hds x (List.mem_cons_of_mem _ hx)) w2

theorem btRun_trunc {run : RunFn K} (hc : Causal t run) (capital : K) (dates : List Nat)
    (hds : ∀ d ∈ dates, d ≤ t) (w0 : World K) :
    btRun cfg run capital dates (w0.trunc t) = (btRun cfg run capital dates w0).map (World.trunc t) :=
  btRun_trunc_pair hc capital dates hds w0

theorem btLoop_append (run : RunFn K) (ds ds' : List Nat) (w : World K) :
    btLoop cfg run (ds ++ ds') w = (btLoop cfg run ds w).bind (btLoop cfg run ds') := by
  induction ds generalizing w with
  | nil => rfl
  | cons d ds ih =>
    simp only [List.cons_append, btLoop]
    cases btDay cfg run d w with
    | error e => rfl
    | ok w1 => exact ih w1

/-! ### two data sets that agree up to `t` -/

/-- the prefix of the run (dates `≤ t`) on two data sets that agree up to row `t`, with algo functions that
    agree up to `t`: same outcome — the same error, or results that agree up to row `t` -/
theorem prefix_agree {run run' : RunFn K} (hc : CausalPair t run run') (hc' : Causal t run')
    {w w' : World K} (hw : w.trunc t = w'.trunc t) (pre : List Nat) (hpre : ∀ d ∈ pre, d ≤ t) :
    (btLoop cfg run pre w).map (World.trunc t) = (btLoop cfg run' pre w').map (World.trunc t) := by
  rw [← btLoop_trunc_pair hc pre hpre w, ← btLoop_trunc_pair hc' pre hpre w', hw]

theorem map_eq_error {α β : Type} {f : α → β} {x : Except Err α} {e : Err} :
    x.map f = .error e ↔ x = .error e := by
  cases x with
  | error e' => constructor <;> intro h <;> cases h <;> rfl
  | ok a => constructor <;> intro h <;> cases h

/-- the error case: the prefix run raises on one data set iff it raises, identically, on the other -/
theorem prefix_error {run run' : RunFn K} (hc : CausalPair t run run') (hc' : Causal t run')
    {w w' : World K} (hw : w.trunc t = w'.trunc t) (pre : List Nat) (hpre : ∀ d ∈ pre, d ≤ t) (e : Err) :
    btLoop cfg run pre w = .error e ↔ btLoop cfg run' pre w' = .error e := by
  rw [← map_eq_error (f := World.trunc t), prefix_agree hc hc' hw pre hpre, map_eq_error]

theorem prefix_ok {run run' : RunFn K} (hc : CausalPair t run run') (hc' : Causal t run')
    {w w' : World K} (hw : w.trunc t = w'.trunc t) (pre : List Nat) (hpre : ∀ d ∈ pre, d ≤ t)
    {r1 : World K} (h : btLoop cfg run pre w = .ok r1) :
    ∃ r1', btLoop cfg run' pre w' = .ok r1' ∧ r1.trunc t = r1'.trunc t := by
  have := prefix_agree (cfg := cfg) hc hc' hw pre hpre
  rw [h] at this
  cases h' : btLoop cfg run' pre w' with
  | error e => rw [h'] at this; cases this
  | ok r1' =>
    rw [h'] at this
    exact ⟨r1', rfl, by simpa [Except.map] using this⟩

/-! ### the dates after `t` write recorded rows only after `t` -/

theorem frozen_mono_eq {t d : Nat} (hd : t < d) {n n' : Node K} (h : Frozen (· = d) n n') :
    Frozen (t < ·) n n' := Frozen.mono (fun _ hx => hx ▸ hd) n n' h

theorem btDay_frozen {run : RunFn K} (hp : RunPublic cfg run) {d : Nat} (hd : t < d) {w w' : World K}
    (h : btDay cfg run d w = .ok w') : Frozen (t < ·) w.root w'.root := by
  unfold btDay at h
  obtain ⟨w1, h1, h⟩ := bind_eq_ok h
  have hf1 := updRoot_frozen_at h1
  split at h
  · cases h; exact frozen_mono_eq hd hf1.1
  · obtain ⟨w2, h2, h3⟩ := bind_eq_ok h
    have hr := hp d w1 w2 hf1.2 h2
    exact Frozen.trans _ _ _ (frozen_mono_eq hd hf1.1) <|
      Frozen.trans _ _ _ (frozen_mono_eq hd (hr.frozen hf1.2)) (frozen_mono_eq hd (updRoot_frozen_at h3).1)

/-- the part of the run over dates after `t` leaves every recorded row at every index `≤ t` alone -/
theorem btLoop_frozen {run : RunFn K} (hp : RunPublic cfg run) :
    ∀ (ds : List Nat), (∀ d ∈ ds, t < d) → ∀ w w' : World K, btLoop cfg run ds w = .ok w' →
      Frozen (t < ·) w.root w'.root
  | [], _, w, w', h => by cases h; exact Frozen.refl _ _
  | d :: ds, hds, w, w', h => by
    rw [btLoop] at h
    obtain ⟨w1, h1, h2⟩ := bind_eq_ok h
    exact Frozen.trans _ _ _ (btDay_frozen hp (hds d (List.mem_cons_self ..)) h1)
      (btLoop_frozen hp ds (fun x hx => hds x (List.mem_cons_of_mem _ hx)) w1 w' h2)

/-! ### hedge notional rows stay all-zero along a run -/

theorem btDay_hedgeZero {run : RunFn K} (hp : RunPublic cfg run) {d : Nat} {w w' : World K}
    (h : btDay cfg run d w = .ok w') (hz : HedgeZero w.root) : HedgeZero w'.root := by
  unfold btDay at h
  obtain ⟨w1, h1, h⟩ := bind_eq_ok h
  have hz1 := updRoot_hedgeZero h1 hz
  split at h
  · cases h; exact hz1
  · obtain ⟨w2, h2, h3⟩ := bind_eq_ok h
    exact updRoot_hedgeZero h3 ((hp d w1 w2 (updRoot_atClock h1) h2).hedgeZero (updRoot_atClock h1) hz1)

theorem btLoop_hedgeZero {run : RunFn K} (hp : RunPublic cfg run) :
    ∀ (ds : List Nat) (w w' : World K), btLoop cfg run ds w = .ok w' → HedgeZero w.root → HedgeZero w'.root
  | [], w, w', h, hz => by cases h; exact hz
  | d :: ds, w, w', h, hz => by
    rw [btLoop] at h
    obtain ⟨w1, h1, h2⟩ := bind_eq_ok h
    exact btLoop_hedgeZero hp ds w1 w' h2 (btDay_hedgeZero hp h1 hz)

/-! ### recorded rows are untouched by truncation -/

mutual
theorem allRows_trunc (t : Nat) : (n : Node K) → allRows (n.trunc t) = allRows n
  | .sec s => by simp only [trunc_sec, allRows]; rfl
  | .strat sd ks => by simp only [trunc_strat, allRows, allRowsL_trunc t ks]
theorem allRowsL_trunc (t : Nat) : (ks : List (Node K)) → allRowsL (Node.truncL t ks) = allRowsL ks
  | [] => rfl
  | k :: ks => by simp only [truncL_cons, allRowsL, allRows_trunc t k, allRowsL_trunc t ks]
end

mutual
theorem hedgeZero_trunc (t : Nat) : (n : Node K) → (HedgeZero (n.trunc t) ↔ HedgeZero n)
  | .sec s => by simp only [trunc_sec, HedgeZero]; rfl
  | .strat sd ks => by simp only [trunc_strat, HedgeZero, hedgeZeroL_trunc t ks]
theorem hedgeZeroL_trunc (t : Nat) : (ks : List (Node K)) → (HedgeZeroL (Node.truncL t ks) ↔ HedgeZeroL ks)
  | [] => by simp [HedgeZeroL]
  | k :: ks => by simp only [truncL_cons, HedgeZeroL, hedgeZero_trunc t k, hedgeZeroL_trunc t ks]
end

theorem allRows_of_trunc_eq {t : Nat} {w w' : World K} (h : w.trunc t = w'.trunc t) :
    allRows w.root = allRows w'.root := by
  have := congrArg (fun x : World K => allRows x.root) h
  simpa [allRows_trunc] using this

theorem hedgeZero_of_trunc_eq {t : Nat} {w w' : World K} (h : w.trunc t = w'.trunc t)
    (hz : HedgeZero w.root) : HedgeZero w'.root := by
  have h1 : HedgeZero (w.trunc t).root := (hedgeZero_trunc t w.root).2 hz
  rw [h] at h1
  exact (hedgeZero_trunc t w'.root).1 h1

/-! ### the main theorem -/

/-- **No look-ahead, structural form.**  Two data sets that agree on every row `≤ t` (`w.trunc t = w'.trunc t`),
    two algo functions that agree up to `t` in the sense of `CausalPair` (one function: `Causal`), dates
    `pre ++ post` with `pre` all `≤ t` and `post` all `> t`.  If both runs succeed, there are intermediate
    worlds `m`, `m'` (the states after the last date `≤ t`) that agree up to row `t` — in particular in every
    recorded row — and from which the final results differ only in rows recorded at indices `> t`. -/
theorem backtest_causal_frozen {run run' : RunFn K} (hc : CausalPair t run run') (hc' : Causal t run')
    (hp : RunPublic cfg run) (hp' : RunPublic cfg run') {w w' : World K} (hw : w.trunc t = w'.trunc t)
    (pre post : List Nat) (hpre : ∀ d ∈ pre, d ≤ t) (hpost : ∀ d ∈ post, t < d) {r r' : World K}
    (h : btLoop cfg run (pre ++ post) w = .ok r) (h' : btLoop cfg run' (pre ++ post) w' = .ok r') :
    ∃ m m' : World K, btLoop cfg run pre w = .ok m ∧ btLoop cfg run' pre w' = .ok m' ∧
      m.trunc t = m'.trunc t ∧ allRows m.root = allRows m'.root ∧
      Frozen (t < ·) m.root r.root ∧ Frozen (t < ·) m'.root r'.root := by
  rw [btLoop_append] at h h'
  obtain ⟨m, hm, hr⟩ := bind_eq_ok h
  obtain ⟨m', hm', hmm⟩ := prefix_ok hc hc' hw pre hpre hm
  rw [hm', bind_ok] at h'
  exact ⟨m, m', hm, hm', hmm, allRows_of_trunc_eq hmm, btLoop_frozen hp post hpost m r hr,
    btLoop_frozen hp' post hpost m' r' h'⟩

/-- **No look-ahead (C04).**  Same setting; the initial tree has all-zero notional rows on its hedge
    securities (`HedgeZero`, true of every freshly set-up tree and maintained by the engine).  Then every
    recorded entry of every node — values, positions, notional, outlays, bid/offer paid, coupons, holding costs
    of securities; prices, values, notional, cash, fees, flows, bid/offer paid of strategies — at every index
    `j ≤ t` is the same in the two results, and all rows have the same lengths. -/
theorem backtest_causal_pair {run run' : RunFn K} (hc : CausalPair t run run') (hc' : Causal t run')
    (hp : RunPublic cfg run) (hp' : RunPublic cfg run') {w w' : World K} (hw : w.trunc t = w'.trunc t)
    (hz : HedgeZero w.root)
    (pre post : List Nat) (hpre : ∀ d ∈ pre, d ≤ t) (hpost : ∀ d ∈ post, t < d) {r r' : World K}
    (h : btLoop cfg run (pre ++ post) w = .ok r) (h' : btLoop cfg run' (pre ++ post) w' = .ok r') :
    (∀ j, j ≤ t → rowsAt j r.root = rowsAt j r'.root) ∧ rowLens r.root = rowLens r'.root := by
  obtain ⟨m, m', hm, -, hmm, hrows, hf, hf'⟩ :=
    backtest_causal_frozen hc hc' hp hp' hw pre post hpre hpost h h'
  have hzm : HedgeZero m.root := btLoop_hedgeZero hp pre w m hm hz
  have hzm' : HedgeZero m'.root := hedgeZero_of_trunc_eq hmm hzm
  refine ⟨fun j hj => ?_, ?_⟩
  · rw [hf.rowsAt_eq hzm (Nat.not_lt.2 hj), hf'.rowsAt_eq hzm' (Nat.not_lt.2 hj)]
    unfold rowsAt; rw [hrows]
  · rw [hf.rowLens_eq, hf'.rowLens_eq]; unfold rowLens; rw [hrows]

/-- the error case: with dates `pre` all `≤ t`, the run over `pre` raises on one data set iff it raises the
    same error on the other; hence so does the whole run when the prefix raises -/
theorem backtest_causal_error {run run' : RunFn K} (hc : CausalPair t run run') (hc' : Causal t run')
    {w w' : World K} (hw : w.trunc t = w'.trunc t) (pre post : List Nat) (hpre : ∀ d ∈ pre, d ≤ t) (e : Err)
    (h : btLoop cfg run pre w = .error e) :
    btLoop cfg run' pre w' = .error e ∧ btLoop cfg run (pre ++ post) w = .error e ∧
      btLoop cfg run' (pre ++ post) w' = .error e := by
  have h' := (prefix_error hc hc' hw pre hpre e).1 h
  refine ⟨h', ?_, ?_⟩
  · rw [btLoop_append, h]; rfl
  · rw [btLoop_append, h']; rfl

end loop

/-! ### a fuel-driven clone of the loop, for evaluating concrete instances in the kernel -/

section fuel
variable {α : Type} [Add α] [Sub α] [Mul α] [Div α] [Neg α] [LT α] [DecidableLT α]
  [LE α] [DecidableLE α] [OfNat α 0] [OfNat α 1] [HasFloor α]

/-- `btDay` through the fuelled `updRootF` of C08 (which refuses the bankruptcy branch) -/
def btDayF (cfg : Cfg α) (run : RunFn α) (f : Nat) (d : Nat) (w : World α) : Except Err (World α) :=
  (updRootF cfg d f w).bind fun w1 =>
  if w1.bankrupt then pure w1
  else (run d w1).bind fun w2 => updRootF cfg d f w2

def btLoopF (cfg : Cfg α) (run : RunFn α) (f : Nat) : List Nat → World α → Except Err (World α)
  | [], w => pure w
  | d :: ds, w => (btDayF cfg run f d w).bind fun w' => btLoopF cfg run f ds w'

theorem btDayF_sound {cfg : Cfg α} {run : RunFn α} {f d : Nat} {w w' : World α}
    (h : btDayF cfg run f d w = .ok w') : btDay cfg run d w = .ok w' := by
  unfold btDayF at h
  unfold btDay
  obtain ⟨w1, h1, h⟩ := bind_eq_ok h
  rw [updRootF_sound h1, bind_ok]
  split at h
  · rename_i hb; rw [if_pos hb]; exact h
  · rename_i hb
    rw [if_neg hb]
    obtain ⟨w2, h2, h3⟩ := bind_eq_ok h
    rw [h2, bind_ok]; exact updRootF_sound h3

theorem btLoopF_sound {cfg : Cfg α} {run : RunFn α} {f : Nat} :
    ∀ (ds : List Nat) (w w' : World α), btLoopF cfg run f ds w = .ok w' → btLoop cfg run ds w = .ok w'
  | [], w, w', h => h
  | d :: ds, w, w', h => by
    rw [btLoopF] at h
    obtain ⟨w1, h1, h2⟩ := bind_eq_ok h
    rw [btLoop, btDayF_sound h1, bind_ok]
    exact btLoopF_sound ds w1 w' h2

end fuel

end Bt.P04
