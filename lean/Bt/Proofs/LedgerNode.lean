import Bt.Proofs.Ledger
import Bt.Proofs.Causal
import Bt.Proofs.Flags
/-! C07 (cash ledger), whole days and runs: the per-node ledger balance `bal`, the relation `NL` ("every
    strategy node keeps its balance") lifted through every engine operation executed at a fixed clock, the
    opening update of a new date (`OpenRel`), annotated runs (`LRun`: a `P08.Run` at a fixed clock together
    with the list of its `adjust` calls) and the day / loop ledgers. -/
set_option linter.unusedSectionVars false
namespace Bt.P07
open Bt Bt.P08 Bt.P04

variable {K : Type} [Field K] [LinearOrder K] [IsStrictOrderedRing K] [HasFloor K]

/-! ### ledger quantities of a strategy node -/

/-- capital the direct sub-strategy children have booked as flows of the current date
    (`Σ child.net_flows`) -/
def passedDown : List (Node K) → K
  | [] => 0
  | .sec _ :: ks => passedDown ks
  | .strat sd _ :: ks => sd.netFlows + passedDown ks

/-- what a node contributes to the ledger of its own parent: a security the outlay it has recorded for
    date `d` (row plus pending accumulator), a sub-strategy the flows it has booked -/
def kidTerm (d : Nat) : Node K → K
  | .sec s => secOutlayTot d s
  | .strat sd _ => sd.netFlows

def kidsT (d : Nat) : List (Node K) → K
  | [] => 0
  | k :: ks => kidTerm d k + kidsT d ks

theorem kidsT_eq (d : Nat) : ∀ ks : List (Node K), kidsT d ks = outlayKids d ks + passedDown ks
  | [] => by simp [kidsT, outlayKids, passedDown]
  | .sec s :: ks => by simp only [kidsT, kidTerm, outlayKids, passedDown, kidsT_eq d ks]; ring
  | .strat sd kk :: ks => by simp only [kidsT, kidTerm, outlayKids, passedDown, kidsT_eq d ks]; ring

/-- **the ledger balance of a strategy node on date `d`**:
    `cash + fees of d − flows of d + outlays its own securities recorded for d + flows of d of its
    sub-strategies`.  Every engine operation at clock `d` other than a direct `adjust` keeps it. -/
def bal (d : Nat) (sd : StratData K) (ks : List (Node K)) : K :=
  sd.capital + sd.lastFee - sd.netFlows + outlayKids d ks + passedDown ks

theorem bal_eq (d : Nat) (sd : StratData K) (ks : List (Node K)) :
    bal d sd ks = stratW sd - sd.netFlows + kidsT d ks := by
  rw [bal, kidsT_eq, stratW]; ring

theorem kidsT_set (d : Nat) {k k' : Node K} : ∀ (ks : List (Node K)) (i : Nat), ks[i]? = some k →
    kidsT d (ks.set i k') = kidsT d ks - kidTerm d k + kidTerm d k'
  | [], i, h => by simp at h
  | a :: ks, 0, h => by
    simp only [List.getElem?_cons_zero, Option.some.injEq] at h
    subst h
    simp only [List.set_cons_zero, kidsT]; ring
  | a :: ks, i + 1, h => by
    simp only [List.getElem?_cons_succ] at h
    simp only [List.set_cons_succ, kidsT, kidsT_set d ks i h]; ring

/-! ### securities -/

/-- the pending outlay accumulator is consistent with the early-return test of `SecurityBase.update`
    (`now == date and last_pos == position`): a security that is not marked for update has been recorded,
    and a recorded security has nothing pending.  Holds for a freshly built security and is kept by every
    engine operation; it is what makes the `outlays` row complete after an update. -/
def Tidy (s : SecData K) : Prop :=
  (s.needupdate = false → s.lastPos = s.position) ∧ (s.lastPos = s.position → s.outlayAcc = 0)

/-- one-security part of the relation: the length of the `outlays` row and tidiness are kept -/
def SecL (s s' : SecData K) : Prop := s'.rOutlay.length = s.rOutlay.length ∧ (Tidy s → Tidy s')

theorem SecL.refl (s : SecData K) : SecL s s := ⟨rfl, id⟩
theorem SecL.trans {a b c : SecData K} (h1 : SecL a b) (h2 : SecL b c) : SecL a c :=
  ⟨h2.1.trans h1.1, fun h => h2.2 (h1.2 h)⟩

theorem secTail_acc {cfg : Cfg K} {d : Nat} {k : SecKind} {s1 s' : SecData K}
    (h : secTail cfg d k s1 = .ok s') : s'.outlayAcc = s1.outlayAcc := by
  cases k with
  | plain => cases h; rfl
  | fi => cases h; rfl
  | hedge => cases h; rfl
  | coupon =>
    obtain ⟨c, hc, _, _, rfl⟩ := secCouponTail_ok h
    rfl
  | couponHedge =>
    obtain ⟨s2, h', rfl⟩ := map_eq_ok h
    obtain ⟨c, hc, _, _, rfl⟩ := secCouponTail_ok h'
    rfl

theorem secFlushOutlay_acc (d : Nat) (s : SecData K) : (secFlushOutlay d s).outlayAcc = 0 := by
  unfold secFlushOutlay; split
  · rfl
  · rename_i h
    have h' : eqA s.outlayAcc 0 = true := by simpa using h
    exact (eqA_iff_L _ _).mp h'

theorem secRowBidoffer_acc (d : Nat) (s : SecData K) : (secRowBidoffer d s).outlayAcc = s.outlayAcc := by
  unfold secRowBidoffer; split <;> rfl

/-- after `update(d)` a security passes the early-return test, and — if its accumulator was consistent —
    has nothing pending -/
theorem secUpdate_flushed {cfg : Cfg K} {d : Nat} {s s' : SecData K} (h : secUpdate cfg d s = .ok s') :
    s'.lastPos = s'.position ∧ ((s.lastPos = s.position → s.outlayAcc = 0) → s'.outlayAcc = 0) := by
  refine ⟨((secEarly_iff d s').1 (secUpdate_early h)).2, fun ht => ?_⟩
  rw [secUpdate_eq] at h
  obtain ⟨s1, hb, htl⟩ := bind_eq_ok h
  rw [secTail_acc htl]
  rcases secBaseUpdate_cases hb with ⟨he, rfl⟩ | ⟨_, v, _, rfl⟩
  · exact ht ((secEarly_iff d s1).1 he).2
  · rw [secRowBidoffer_acc, secFlushOutlay_acc]

theorem secUpdate_tidy {cfg : Cfg K} {d : Nat} {s s' : SecData K} (h : secUpdate cfg d s = .ok s')
    (ht : Tidy s) : Tidy s' := by
  obtain ⟨h1, h2⟩ := secUpdate_flushed h
  exact ⟨fun _ => h1, fun _ => h2 ht.2⟩

theorem secUpdate_secL {cfg : Cfg K} {d : Nat} {s s' : SecData K} (hd : d < s.rOutlay.length)
    (h : secUpdate cfg d s = .ok s') : SecL s s' ∧ secOutlayTot d s' = secOutlayTot d s :=
  ⟨⟨(secUpdate_outlay hd h).2, secUpdate_tidy h⟩, (secUpdate_outlay hd h).1⟩

/-- what the refresh at the head of `transact` / `allocate` establishes -/
def Ready (s : SecData K) : Prop := s.lastPos = s.position ∧ s.outlayAcc = 0

theorem secRefresh_ready {cfg : Cfg K} {d : Nat} {s s1 : SecData K}
    (h : secRefresh cfg (some d) s = .ok s1) (ht : Tidy s) : Ready s1 := by
  unfold secRefresh at h
  split at h
  · obtain ⟨a, b⟩ := secUpdate_flushed h
    exact ⟨a, b ht.2⟩
  · rename_i hc
    cases h
    have hn : s.needupdate = false := by
      cases hnu : s.needupdate with
      | false => rfl
      | true => simp [hnu] at hc
    exact ⟨ht.1 hn, ht.2 (ht.1 hn)⟩

theorem secRefresh_secL {cfg : Cfg K} {d : Nat} {s s1 : SecData K} (hd : d < s.rOutlay.length)
    (h : secRefresh cfg (some d) s = .ok s1) :
    SecL s s1 ∧ secOutlayTot d s1 = secOutlayTot d s ∧ (Tidy s → Ready s1) := by
  refine ⟨?_, (secRefresh_outlay hd h).1, secRefresh_ready h⟩
  unfold secRefresh at h
  split at h
  · exact (secUpdate_secL hd h).1
  · cases h; exact SecL.refl _

theorem secOutlay_zero {cfg : Cfg K} {comm : K → K → K} {s : SecData K} {c : Option K}
    {full outlay fee bo : K} (h : secOutlay cfg comm s 0 c = .ok (full, outlay, fee, bo)) : outlay = 0 := by
  cases c with
  | none =>
    obtain ⟨p, b, _, _, hr⟩ := secOutlay_none_ok h
    simp only [Prod.mk.injEq] at hr
    obtain ⟨-, rfl, -, -⟩ := hr
    simp
  | some cp =>
    obtain ⟨p, _, hr⟩ := secOutlay_some_ok h
    simp only [Prod.mk.injEq] at hr
    obtain ⟨-, rfl, -, -⟩ := hr
    simp

/-- a trade on a refreshed security leaves it tidy: the position has moved away from `last_pos` (or the
    quantity, and with it the outlay, was exactly zero) -/
theorem secTransactCore_tidy {cfg : Cfg K} {comm : K → K → K} {s s' : SecData K} {q : K} {c : Option K}
    {oa : Option (Adj K)} (h : secTransactCore cfg comm s q c = .ok (s', oa)) (hr : Ready s) : Tidy s' := by
  rcases secTransactCore_ok h with ⟨_, rfl, _⟩ | ⟨_, full, outlay, fee, bo, ho, rfl, _⟩
  · exact ⟨fun _ => hr.1, fun _ => hr.2⟩
  · refine ⟨fun hn => (by cases hn), fun hp => ?_⟩
    have hp' : s.lastPos = s.position + q := hp
    have hq : q = 0 := by
      have := hr.1 ▸ hp'
      linarith
    subst hq
    show s.outlayAcc + outlay = 0
    rw [hr.2, secOutlay_zero ho, add_zero]

/-- the whole of a security-level trade (`transact` / `allocate` with their refresh), on date `d` -/
structure SecOp (d : Nat) (s s' : SecData K) (oa : Option (Adj K)) : Prop where
  secL : SecL s s'
  nonflow : ∀ a ∈ oa.toList, a.flow = false
  net : secOutlayTot d s' + adjNet oa.toList = secOutlayTot d s

theorem secTransact_op {cfg : Cfg K} {d : Nat} {comm : K → K → K} {s s' : SecData K} {q : K}
    {c : Option K} {oa : Option (Adj K)} (hd : d < s.rOutlay.length)
    (h : secTransact cfg (some d) comm s q true c = .ok (s', oa)) : SecOp d s s' oa := by
  unfold secTransact at h
  obtain ⟨s1, h1, h2⟩ := bind_eq_ok h
  simp only [↓reduceIte] at h1
  obtain ⟨a1, a2, a3⟩ := secRefresh_secL hd h1
  obtain ⟨b1, b2⟩ := secTransactCore_outlay d h2
  refine ⟨⟨b2.trans a1.1, fun ht => secTransactCore_tidy h2 (a3 ht)⟩, secTransactCore_adj_nonflow h2, ?_⟩
  rw [b1, a2]; ring

theorem secAllocate_op {cfg : Cfg K} {d : Nat} {comm : K → K → K} {s s' : SecData K} {amount : K}
    {oa : Option (Adj K)} (hd : d < s.rOutlay.length)
    (h : secAllocate cfg (some d) comm s amount = .ok (s', oa)) : SecOp d s s' oa := by
  obtain ⟨c1, c2⟩ := secAllocate_outlay hd h
  obtain ⟨s1, hr, ⟨_, rfl, rfl⟩ | ⟨q, _, ht⟩⟩ := secAllocate_cases h
  · obtain ⟨a1, a2, a3⟩ := secRefresh_secL hd hr
    exact ⟨a1, by simp, by rw [c1]; ring⟩
  · obtain ⟨a1, a2, a3⟩ := secRefresh_secL hd hr
    refine ⟨⟨c2, fun htd => secTransactCore_tidy ht (a3 htd)⟩, secTransactCore_adj_nonflow ht, ?_⟩
    rw [c1]; ring

/-! ### the relation `NL d`: same shape, every strategy node keeps its clock and its balance of date `d` -/

mutual
/-- the tree stands on date `d`: every strategy's clock is `d`, every security has a row `d` for outlays -/
def Good (d : Nat) : Node K → Prop
  | .sec s => d < s.rOutlay.length
  | .strat sd ks => sd.now = some d ∧ GoodL d ks
def GoodL (d : Nat) : List (Node K) → Prop
  | [] => True
  | k :: ks => Good d k ∧ GoodL d ks
end

mutual
def NL (d : Nat) : Node K → Node K → Prop
  | .sec s, .sec s' => SecL s s'
  | .strat sd ks, .strat sd' ks' => sd'.now = sd.now ∧ bal d sd' ks' = bal d sd ks ∧ NLL d ks ks'
  | _, _ => False
def NLL (d : Nat) : List (Node K) → List (Node K) → Prop
  | [], [] => True
  | k :: ks, k' :: ks' => NL d k k' ∧ NLL d ks ks'
  | _, _ => False
end

section nlsimp
variable (d : Nat)
@[simp] theorem good_sec (s : SecData K) : Good d (.sec s) ↔ d < s.rOutlay.length := by simp [Good]
@[simp] theorem good_strat (sd : StratData K) (ks : List (Node K)) :
    Good d (.strat sd ks) ↔ sd.now = some d ∧ GoodL d ks := by simp [Good]
@[simp] theorem goodL_nil : GoodL d ([] : List (Node K)) ↔ True := by simp [GoodL]
@[simp] theorem goodL_cons (k : Node K) (ks : List (Node K)) :
    GoodL d (k :: ks) ↔ Good d k ∧ GoodL d ks := by simp [GoodL]
@[simp] theorem nl_sec (s s' : SecData K) : NL d (.sec s) (.sec s') ↔ SecL s s' := by simp [NL]
@[simp] theorem nl_strat (sd sd' : StratData K) (ks ks' : List (Node K)) :
    NL d (.strat sd ks) (.strat sd' ks') ↔
      sd'.now = sd.now ∧ bal d sd' ks' = bal d sd ks ∧ NLL d ks ks' := by simp [NL]
@[simp] theorem nl_sec_strat (s : SecData K) (sd' : StratData K) (ks') :
    NL d (.sec s) (.strat sd' ks') ↔ False := by simp [NL]
@[simp] theorem nl_strat_sec (sd : StratData K) (ks) (s' : SecData K) :
    NL d (.strat sd ks) (.sec s') ↔ False := by simp [NL]
@[simp] theorem nll_nil : NLL d ([] : List (Node K)) [] ↔ True := by simp [NLL]
@[simp] theorem nll_cons (k k' : Node K) (ks ks' : List (Node K)) :
    NLL d (k :: ks) (k' :: ks') ↔ NL d k k' ∧ NLL d ks ks' := by simp [NLL]
@[simp] theorem nll_nil_cons (k' : Node K) (ks' : List (Node K)) : NLL d [] (k' :: ks') ↔ False := by
  simp [NLL]
@[simp] theorem nll_cons_nil (k : Node K) (ks : List (Node K)) : NLL d (k :: ks) [] ↔ False := by
  simp [NLL]
end nlsimp

mutual
theorem nl_refl (d : Nat) : (n : Node K) → NL d n n
  | .sec s => by simp [SecL.refl]
  | .strat sd ks => by simp [nll_refl d ks]
theorem nll_refl (d : Nat) : (ks : List (Node K)) → NLL d ks ks
  | [] => by simp
  | k :: ks => by simp [nl_refl d k, nll_refl d ks]
end

mutual
theorem nl_trans (d : Nat) : (n n' n'' : Node K) → NL d n n' → NL d n' n'' → NL d n n''
  | .sec s, .sec s', .sec s'', h1, h2 => by
    simp only [nl_sec] at *; exact h1.trans h2
  | .strat sd ks, .strat sd' ks', .strat sd'' ks'', h1, h2 => by
    simp only [nl_strat] at *
    exact ⟨h2.1.trans h1.1, h2.2.1.trans h1.2.1, nll_trans d ks ks' ks'' h1.2.2 h2.2.2⟩
  | .sec _, .strat _ _, _, h1, _ => by simp at h1
  | .strat _ _, .sec _, _, h1, _ => by simp at h1
  | .sec _, .sec _, .strat _ _, _, h2 => by simp at h2
  | .strat _ _, .strat _ _, .sec _, _, h2 => by simp at h2
theorem nll_trans (d : Nat) : (ks ks' ks'' : List (Node K)) → NLL d ks ks' → NLL d ks' ks'' → NLL d ks ks''
  | [], [], [], _, _ => by simp
  | k :: ks, k' :: ks', k'' :: ks'', h1, h2 => by
    simp only [nll_cons] at *
    exact ⟨nl_trans d k k' k'' h1.1 h2.1, nll_trans d ks ks' ks'' h1.2 h2.2⟩
  | [], _ :: _, _, h1, _ => by simp at h1
  | _ :: _, [], _, h1, _ => by simp at h1
  | [], [], _ :: _, _, h2 => by simp at h2
  | _ :: _, _ :: _, [], _, h2 => by simp at h2
end

mutual
theorem nl_good (d : Nat) : (n n' : Node K) → NL d n n' → Good d n → Good d n'
  | .sec s, .sec s', h, hg => by
    simp only [nl_sec, good_sec] at *; rw [h.1]; exact hg
  | .strat sd ks, .strat sd' ks', h, hg => by
    simp only [nl_strat, good_strat] at *
    exact ⟨h.1.trans hg.1, nll_good d ks ks' h.2.2 hg.2⟩
  | .sec _, .strat _ _, h, _ => by simp at h
  | .strat _ _, .sec _, h, _ => by simp at h
theorem nll_good (d : Nat) : (ks ks' : List (Node K)) → NLL d ks ks' → GoodL d ks → GoodL d ks'
  | [], [], _, _ => by simp
  | k :: ks, k' :: ks', h, hg => by
    simp only [nll_cons, goodL_cons] at *
    exact ⟨nl_good d k k' h.1 hg.1, nll_good d ks ks' h.2 hg.2⟩
  | [], _ :: _, h, _ => by simp at h
  | _ :: _, [], h, _ => by simp at h
end

theorem nll_set (d : Nat) {k k' : Node K} (hk : NL d k k') :
    ∀ (ks : List (Node K)) (i : Nat), ks[i]? = some k → NLL d ks (ks.set i k')
  | [], i, h => by simp at h
  | a :: ks, 0, h => by
    simp only [List.getElem?_cons_zero, Option.some.injEq] at h
    subst h
    simp only [List.set_cons_zero, nll_cons]
    exact ⟨hk, nll_refl d ks⟩
  | a :: ks, i + 1, h => by
    simp only [List.getElem?_cons_succ] at h
    simp only [List.set_cons_succ, nll_cons]
    exact ⟨nl_refl d a, nll_set d hk ks i h⟩

theorem goodL_get (d : Nat) : ∀ (ks : List (Node K)) (i : Nat) (k : Node K),
    GoodL d ks → ks[i]? = some k → Good d k
  | [], i, k, _, h => by simp at h
  | a :: ks, 0, k, hg, h => by
    simp only [List.getElem?_cons_zero, Option.some.injEq] at h
    subst h; simp only [goodL_cons] at hg; exact hg.1
  | a :: ks, i + 1, k, hg, h => by
    simp only [List.getElem?_cons_succ] at h
    simp only [goodL_cons] at hg
    exact goodL_get d ks i k hg.2 h

/-- world-level form: the tree keeps all balances and the root keeps its own flows -/
def NLW (d : Nat) (n n' : Node K) : Prop := NL d n n' ∧ kidTerm d n' = kidTerm d n

theorem NLW.refl (d : Nat) (n : Node K) : NLW d n n := ⟨nl_refl d n, rfl⟩
theorem NLW.trans {d : Nat} {a b c : Node K} (h1 : NLW d a b) (h2 : NLW d b c) : NLW d a c :=
  ⟨nl_trans d _ _ _ h1.1 h2.1, h2.2.trans h1.2⟩
theorem NLW.good {d : Nat} {a b : Node K} (h : NLW d a b) (hg : Good d a) : Good d b :=
  nl_good d _ _ h.1 hg

/-- a root standing on `d`: a strategy whose whole tree stands on `d` -/
def GoodR (d : Nat) (n : Node K) : Prop := Good d n ∧ ∃ sd ks, n = .strat sd ks

theorem NLW.goodR {d : Nat} {a b : Node K} (h : NLW d a b) (hg : GoodR d a) : GoodR d b := by
  refine ⟨h.good hg.1, ?_⟩
  obtain ⟨sd, ks, rfl⟩ := hg.2
  cases b with
  | sec s => have := h.1; simp at this
  | strat sd' ks' => exact ⟨_, _, rfl⟩

theorem GoodR.now {d : Nat} {n : Node K} (hg : GoodR d n) : n.now = some d := by
  obtain ⟨sd, ks, rfl⟩ := hg.2
  exact ((good_strat d sd ks).1 hg.1).1

/-! ### a node-level operation and the adjustments it sends to the node's parent -/

/-- the node keeps all balances below it; the adjustments are non-flows, and what they take out of the
    parent's `cash + fees` is what the node adds to its ledger term (outlay recorded / flows booked) -/
structure OpL (d : Nat) (n n' : Node K) (adjs : List (Adj K)) : Prop where
  nl : NL d n n'
  nonflow : ∀ a ∈ adjs, a.flow = false
  net : kidTerm d n' + adjNet adjs = kidTerm d n

theorem adjNet_nil : adjNet ([] : List (Adj K)) = 0 := by simp [adjNet]

theorem OpL.of_nlw {d : Nat} {n n' : Node K} (h : NLW d n n') : OpL d n n' [] :=
  ⟨h.1, by simp, by rw [adjNet_nil, add_zero]; exact h.2⟩

theorem foldl_nonflow_fields (L : List (Adj K)) (sd : StratData K) (hL : ∀ a ∈ L, a.flow = false) :
    (L.foldl StratData.adjust sd).now = sd.now ∧ (L.foldl StratData.adjust sd).netFlows = sd.netFlows ∧
    stratW (L.foldl StratData.adjust sd) = stratW sd + adjNet L := by
  refine ⟨foldl_adjust_now L sd, ?_, stratW_foldl L sd⟩
  rw [foldl_adjust_nonflow L sd hL]

/-- the children loop of `allocate` / `transact` / `flatten`: the strategy keeps its clock and its flows;
    `cash + fees` plus the children's ledger terms is conserved -/
structure KidsL (d : Nat) (sd : StratData K) (ks : List (Node K)) (sd' : StratData K) (ks' : List (Node K)) :
    Prop where
  now : sd'.now = sd.now
  flows : sd'.netFlows = sd.netFlows
  net : stratW sd' + kidsT d ks' = stratW sd + kidsT d ks
  nll : NLL d ks ks'

theorem KidsL.nil (d : Nat) (sd : StratData K) : KidsL d sd [] sd [] := ⟨rfl, rfl, rfl, by simp⟩

theorem KidsL.cons {d : Nat} {sd sd'' : StratData K} {k k' : Node K} {ks ks' : List (Node K)}
    {adjs : List (Adj K)} (hk : OpL d k k' adjs)
    (hr : KidsL d (adjs.foldl StratData.adjust sd) ks sd'' ks') : KidsL d sd (k :: ks) sd'' (k' :: ks') := by
  obtain ⟨f1, f2, f3⟩ := foldl_nonflow_fields adjs sd hk.nonflow
  refine ⟨hr.now.trans f1, hr.flows.trans f2, ?_, by simp only [nll_cons]; exact ⟨hk.nl, hr.nll⟩⟩
  have := hr.net
  rw [f3] at this
  simp only [kidsT]
  linear_combination this + hk.net

theorem KidsL.skip {d : Nat} {sd sd'' : StratData K} {k : Node K} {ks ks' : List (Node K)}
    (hr : KidsL d sd ks sd'' ks') : KidsL d sd (k :: ks) sd'' (k :: ks') :=
  ⟨hr.now, hr.flows, by simp only [kidsT]; linear_combination hr.net,
    by simp only [nll_cons]; exact ⟨nl_refl d k, hr.nll⟩⟩

theorem KidsL.bal {d : Nat} {sd sd' : StratData K} {ks ks' : List (Node K)} (h : KidsL d sd ks sd' ks') :
    bal d sd' ks' = bal d sd ks := by
  rw [bal_eq, bal_eq, h.flows]; linear_combination h.net

/-! ### `allocate` / `transact` pushed down a tree standing on `d` -/

section ops
variable {cfg : Cfg K} {d : Nat}

mutual
theorem allocNode_opL : (n : Node K) → ∀ (comm : K → K → K) (amount : K) r,
    Good d n → allocNode cfg (some d) comm amount n = .ok r → OpL d n r.1 r.2
  | .sec s, comm, amount, r, hg, h => by
    rw [allocNode.eq_1] at h
    obtain ⟨⟨s', a⟩, hs, rfl⟩ := map_eq_ok h
    simp only [good_sec] at hg
    have := secAllocate_op hg hs
    exact ⟨by simpa using this.secL, this.nonflow, this.net⟩
  | .strat sd kids, comm, amount, r, hg, h => by
    rw [allocNode.eq_2] at h
    obtain ⟨⟨sd2, kids2⟩, hk, rfl⟩ := map_eq_ok h
    simp only [good_strat] at hg
    have hkl := allocKids_kl kids amount (sd.adjust { amount := amount, fee := 0, flow := true }) _ _
      (by exact hg.1) hg.2 hk
    refine ⟨?_, by simp, ?_⟩
    · simp only [nl_strat]
      refine ⟨hkl.now, ?_, hkl.nll⟩
      rw [hkl.bal, bal, bal]; simp only [StratData.adjust, ↓reduceIte]; ring
    · simp only [kidTerm, adjNet, adjAmounts_cons, adjFees_cons, adjAmounts_nil, adjFees_nil]
      rw [hkl.flows]; simp only [StratData.adjust, ↓reduceIte]; ring

theorem allocKids_kl : (ks : List (Node K)) → ∀ (amount : K) (sd sd' : StratData K) ks',
    sd.now = some d → GoodL d ks → allocKids cfg amount ks sd = .ok (sd', ks') → KidsL d sd ks sd' ks'
  | [], amount, sd, sd', ks', _, _, h => by
    rw [allocKids.eq_1] at h; cases h; exact KidsL.nil d sd
  | k :: ks, amount, sd, sd', ks', hn, hg, h => by
    rw [allocKids.eq_2] at h
    obtain ⟨⟨k', adjs⟩, hk, h⟩ := bind_eq_ok h
    obtain ⟨⟨sd2, ks2⟩, hrest, hr⟩ := map_eq_ok h
    cases hr
    simp only [goodL_cons] at hg
    rw [hn] at hk
    have hk' := allocNode_opL k _ _ _ hg.1 hk
    exact KidsL.cons hk' (allocKids_kl ks amount _ _ _ (by rw [foldl_adjust_now]; exact hn) hg.2 hrest)
end

mutual
theorem transNode_opL : (n : Node K) → ∀ (comm : K → K → K) (q : K) (custom : Option K) r,
    Good d n → transNode cfg (some d) comm q custom n = .ok r → OpL d n r.1 r.2
  | .sec s, comm, q, custom, r, hg, h => by
    rw [transNode.eq_1] at h
    obtain ⟨⟨s', a⟩, hs, rfl⟩ := map_eq_ok h
    simp only [good_sec] at hg
    have := secTransact_op hg hs
    exact ⟨by simpa using this.secL, this.nonflow, this.net⟩
  | .strat sd kids, comm, q, custom, r, hg, h => by
    rw [transNode.eq_2] at h
    obtain ⟨⟨sd2, kids2⟩, hk, rfl⟩ := map_eq_ok h
    simp only [good_strat] at hg
    have hkl := transKids_kl kids q sd _ _ hg.1 hg.2 hk
    refine ⟨?_, by simp, ?_⟩
    · simp only [nl_strat]; exact ⟨hkl.now, hkl.bal, hkl.nll⟩
    · simp only [kidTerm, adjNet_nil, add_zero]; exact hkl.flows

theorem transKids_kl : (ks : List (Node K)) → ∀ (q : K) (sd sd' : StratData K) ks',
    sd.now = some d → GoodL d ks → transKids cfg q ks sd = .ok (sd', ks') → KidsL d sd ks sd' ks'
  | [], q, sd, sd', ks', _, _, h => by
    rw [transKids.eq_1] at h; cases h; exact KidsL.nil d sd
  | k :: ks, q, sd, sd', ks', hn, hg, h => by
    rw [transKids.eq_2] at h
    obtain ⟨⟨k', adjs⟩, hk, h⟩ := bind_eq_ok h
    obtain ⟨⟨sd2, ks2⟩, hrest, hr⟩ := map_eq_ok h
    cases hr
    simp only [goodL_cons] at hg
    rw [hn] at hk
    have hk' := transNode_opL k _ _ _ _ hg.1 hk
    exact KidsL.cons hk' (transKids_kl ks q _ _ _ (by rw [foldl_adjust_now]; exact hn) hg.2 hrest)
end

/-! ### one level of `flatten` -/

theorem flattenKidsMV_kl : ∀ (ks : List (Node K)) (sd sd' : StratData K) (ks' : List (Node K)),
    sd.now = some d → GoodL d ks → flattenKidsMV cfg ks sd = .ok (sd', ks') → KidsL d sd ks sd' ks'
  | [], sd, sd', ks', _, _, h => by
    rw [flattenKidsMV] at h; cases h; exact KidsL.nil d sd
  | k :: ks, sd, sd', ks', hn, hg, h => by
    rw [flattenKidsMV] at h
    simp only [goodL_cons] at hg
    split at h
    · obtain ⟨⟨sd2, ks2⟩, h2, hr⟩ := map_eq_ok h
      cases hr
      exact KidsL.skip (flattenKidsMV_kl ks sd _ _ hn hg.2 h2)
    · obtain ⟨⟨k', adjs⟩, hk, h⟩ := bind_eq_ok h
      obtain ⟨⟨sd2, ks2⟩, h2, hr⟩ := map_eq_ok h
      cases hr
      rw [hn] at hk
      exact KidsL.cons (allocNode_opL k _ _ _ hg.1 hk)
        (flattenKidsMV_kl ks _ _ _ (by rw [foldl_adjust_now]; exact hn) hg.2 h2)

theorem flattenKidsFI_kl : ∀ (ks : List (Node K)) (sd sd' : StratData K) (ks' : List (Node K)),
    sd.now = some d → GoodL d ks → flattenKidsFI cfg ks sd = .ok (sd', ks') → KidsL d sd ks sd' ks'
  | [], sd, sd', ks', _, _, h => by
    rw [flattenKidsFI] at h; cases h; exact KidsL.nil d sd
  | .strat _ _ :: ks, sd, sd', ks', _, _, h => by
    rw [flattenKidsFI] at h; cases h
  | .sec s :: ks, sd, sd', ks', hn, hg, h => by
    rw [flattenKidsFI] at h
    simp only [goodL_cons, good_sec] at hg
    split at h
    · obtain ⟨⟨sd2, ks2⟩, h2, hr⟩ := map_eq_ok h
      cases hr
      exact KidsL.skip (flattenKidsFI_kl ks sd _ _ hn hg.2 h2)
    · obtain ⟨⟨s', adj⟩, hk, h⟩ := bind_eq_ok h
      obtain ⟨⟨sd2, ks2⟩, h2, hr⟩ := map_eq_ok h
      cases hr
      rw [hn] at hk
      have := secTransact_op hg.1 hk
      have hop : OpL d (.sec s) (.sec s') adj.toList := ⟨by simpa using this.secL, this.nonflow, this.net⟩
      exact KidsL.cons hop (flattenKidsFI_kl ks _ _ _ (by rw [foldl_adjust_now]; exact hn) hg.2 h2)

theorem KidsL.opL {sd sd' : StratData K} {ks ks' : List (Node K)} (h : KidsL d sd ks sd' ks') :
    OpL d (.strat sd ks) (.strat sd' ks') [] :=
  OpL.of_nlw ⟨by simp only [nl_strat]; exact ⟨h.now, h.bal, h.nll⟩, h.flows⟩

theorem flatF_opL {par : Option (StratData K)} {n : Node K} {r : OpRes K}
    (hg : Good d n) (h : flatF cfg par n = .ok r) : OpL d n r.1 r.2.1 ∧ r.2.1 = [] := by
  cases n with
  | sec s => cases h
  | strat sd ks =>
    simp only [flatF] at h
    obtain ⟨⟨sd', ks'⟩, hfl, rfl⟩ := map_eq_ok h
    simp only [good_strat] at hg
    unfold flattenStrat at hfl
    refine ⟨KidsL.opL ?_, rfl⟩
    split at hfl
    · exact flattenKidsFI_kl _ _ _ _ hg.1 hg.2 hfl
    · exact flattenKidsMV_kl _ _ _ _ hg.1 hg.2 hfl

/-! ### `update(d)` of a tree already standing on `d` moves nothing -/

theorem stratDateChange_same {sd : StratData K} (h : sd.now = some d) :
    stratDateChange d sd = ({ sd with now := some d }, false) := by
  unfold stratDateChange; simp [h]

theorem setWeight_nlw (w : K) (k : Node K) : NLW d k (k.setWeight w) := by
  cases k with
  | sec s => exact ⟨by simp only [Node.setWeight, nl_sec]; exact ⟨rfl, id⟩, rfl⟩
  | strat sd ks =>
    refine ⟨?_, rfl⟩
    show NL d (.strat sd ks) (.strat { sd with weight := w } ks)
    rw [nl_strat]
    exact ⟨rfl, rfl, nll_refl d ks⟩

theorem kidsWeights_nl (fi : Bool) (v n : K) : ∀ ks : List (Node K),
    NLL d ks (kidsWeights cfg fi v n ks) ∧ kidsT d (kidsWeights cfg fi v n ks) = kidsT d ks
  | [] => by simp [kidsWeights, kidsT]
  | k :: ks => by
    obtain ⟨h1, h2⟩ := kidsWeights_nl fi v n ks
    rw [kidsWeights_cons, nll_cons]
    split
    · exact ⟨⟨nl_refl d k, h1⟩, by simp only [kidsT, h2]⟩
    · have := setWeight_nlw (d := d) (childWeight cfg fi v n k) k
      exact ⟨⟨this.1, h1⟩, by simp only [kidsT, h2, this.2]⟩

/-- everything `update` does after the children loop: cash moves by the coupons collected, nothing else
    of the ledger moves -/
theorem stratFinish_fields {np : Bool} {sd1 : StratData K} {r : List (Node K) × Acc K} {n' : Node K}
    (h : stratFinish cfg d np sd1 r = .ok n') :
    ∃ sd' ks', n' = .strat sd' ks' ∧ sd'.now = sd1.now ∧ sd'.capital = sd1.capital + r.2.coupons ∧
      sd'.lastFee = sd1.lastFee ∧ sd'.netFlows = sd1.netFlows ∧ NLL d r.1 ks' ∧ kidsT d ks' = kidsT d r.1 := by
  unfold stratFinish at h
  obtain ⟨sd3, hw, rfl⟩ := map_eq_ok h
  obtain ⟨c1, c2, c3, -, -, -⟩ := stratWrite_ledger hw
  obtain ⟨r1, r2, r3, -, -, -⟩ := stratRows_rows d sd3
  obtain ⟨k1, k2⟩ := kidsWeights_nl (cfg := cfg) (d := d) sd3.fixedIncome (r.2.val + r.2.coupons) r.2.notl r.1
  refine ⟨_, _, rfl, ?_, ?_, ?_, ?_, k1, k2⟩
  · rw [P08.stratRows_now, (stratWrite_proj hw).1]
  · rw [r1, c1]
  · rw [r2, c3]
  · rw [r3, c2]

mutual
theorem updNode_nlw : (n : Node K) → ∀ n', Good d n → updNode cfg d n = .ok n' → NLW d n n'
  | .sec s, n', hg, h => by
    rw [updNode.eq_1] at h
    obtain ⟨s', hs, rfl⟩ := map_eq_ok h
    simp only [good_sec] at hg
    obtain ⟨a, b⟩ := secUpdate_secL hg hs
    exact ⟨by simpa using a, b⟩
  | .strat sd kids, n', hg, h => by
    rw [updNode_strat] at h
    simp only [good_strat] at hg
    rw [stratDateChange_same hg.1] at h
    obtain ⟨⟨kids1, acc⟩, hk, hf⟩ := bind_eq_ok h
    have hc := updKids_coupons kids hk
    simp only [Bool.false_eq_true, ↓reduceIte, add_zero] at hc
    obtain ⟨k1, k2⟩ := updKids_nl kids _ _ _ _ hg.2 hk
    obtain ⟨sd', ks', rfl, f1, f2, f3, f4, f5, f6⟩ := stratFinish_fields hf
    simp only at f1 f2 f3 f4 f5 f6
    refine ⟨?_, f4⟩
    simp only [nl_strat]
    refine ⟨by rw [f1, hg.1], ?_, nll_trans d _ _ _ k1 f5⟩
    rw [bal_eq, bal_eq, f4, f6, k2, stratW, stratW, f2, f3, hc]; ring
theorem updKids_nl : (ks : List (Node K)) → ∀ (bo : Bool) (acc : Acc K) ks' a,
    GoodL d ks → updKids cfg d false bo ks acc = .ok (ks', a) → NLL d ks ks' ∧ kidsT d ks' = kidsT d ks
  | [], bo, acc, ks', a, _, h => by
    rw [updKids.eq_1] at h; cases h; simp
  | .sec s :: ks, bo, acc, ks', a, hg, h => by
    rw [updKids_sec] at h
    have hsw : sweepSec false s acc = (s, acc) := rfl
    rw [hsw] at h
    simp only [goodL_cons, good_sec] at hg
    split at h
    · obtain ⟨⟨ks1, a1⟩, hrest, hr⟩ := map_eq_ok h
      cases hr
      obtain ⟨k1, k2⟩ := updKids_nl ks _ _ _ _ hg.2 hrest
      exact ⟨by simp only [nll_cons, nl_sec]; exact ⟨SecL.refl s, k1⟩, by simp only [kidsT, k2]⟩
    · obtain ⟨s1, hs1, h⟩ := bind_eq_ok h
      obtain ⟨⟨ks1, a1⟩, hrest, hr⟩ := map_eq_ok h
      cases hr
      obtain ⟨k1, k2⟩ := updKids_nl ks _ _ _ _ hg.2 hrest
      obtain ⟨a, b⟩ := secUpdate_secL hg.1 hs1
      exact ⟨by simp only [nll_cons, nl_sec]; exact ⟨a, k1⟩, by simp only [kidsT, kidTerm, k2, b]⟩
  | .strat sd kk :: ks, bo, acc, ks', a, hg, h => by
    rw [updKids_strat] at h
    obtain ⟨k1, hk1, h⟩ := bind_eq_ok h
    obtain ⟨⟨ks1, a1⟩, hrest, hr⟩ := map_eq_ok h
    cases hr
    simp only [goodL_cons] at hg
    obtain ⟨q1, q2⟩ := updKids_nl ks _ _ _ _ hg.2 hrest
    have := updNode_nlw (.strat sd kk) _ hg.1 hk1
    exact ⟨by simp only [nll_cons]; exact ⟨this.1, q1⟩, by simp only [kidsT, q2, this.2]⟩
end

/-! ### operations addressed by a path -/

/-- the parent handed to a node-level operation stands on `d` -/
def ParAt (d : Nat) (par : Option (StratData K)) : Prop := ∀ p, par = some p → p.now = some d

theorem parAt_none (d : Nat) : ParAt d (none : Option (StratData K)) := fun _ h => by cases h

theorem modAt_opL {f : Option (StratData K) → Node K → Except Err (OpRes K)}
    (hf : ∀ par n r, ParAt d par → Good d n → f par n = .ok r →
      OpL d n r.1 r.2.1 ∧ (par = none → r.2.1 = [])) :
    ∀ (path : List Nat) (par : Option (StratData K)) (n : Node K) (r : OpRes K),
      ParAt d par → Good d n → modAt f path par n = .ok r → OpL d n r.1 r.2.1 ∧ (par = none → r.2.1 = [])
  | [], par, n, r, hp, hg, h => by rw [modAt.eq_1] at h; exact hf _ _ _ hp hg h
  | i :: rest, par, .sec s, r, _, _, h => by rw [modAt.eq_2] at h; cases h
  | i :: rest, par, .strat sd kids, r, _, hg, h => by
    rw [modAt.eq_3] at h
    simp only [good_strat] at hg
    split at h
    · cases h
    · rename_i k hk
      obtain ⟨⟨k', adjs, st⟩, hm, rfl⟩ := map_eq_ok h
      have ih := (modAt_opL hf rest (some sd) k _ (fun p hp => by cases hp; exact hg.1)
        (goodL_get d kids i k hg.2 hk) hm).1
      simp only at ih
      obtain ⟨f1, f2, f3⟩ := foldl_nonflow_fields adjs sd ih.nonflow
      refine ⟨OpL.of_nlw ⟨?_, f2⟩, fun _ => rfl⟩
      simp only [nl_strat]
      refine ⟨f1, ?_, nll_set d ih.nl kids i hk⟩
      rw [bal_eq, bal_eq, f2, f3, kidsT_set d kids i hk]
      linear_combination ih.net

theorem modify_nlw {f : Option (StratData K) → Node K → Except Err (OpRes K)}
    (hf : ∀ par n r, ParAt d par → Good d n → f par n = .ok r →
      OpL d n r.1 r.2.1 ∧ (par = none → r.2.1 = []))
    {w w' : World K} {path : List Nat} (hg : Good d w.root)
    (h : w.modify path f = .ok w') : NLW d w.root w'.root := by
  unfold World.modify at h
  obtain ⟨⟨r, adjs, st⟩, hm, rfl⟩ := map_eq_ok h
  obtain ⟨h1, h2⟩ := modAt_opL hf _ _ _ _ (parAt_none d) hg hm
  have h3 : adjs = [] := h2 rfl
  subst h3
  exact ⟨h1.nl, by have := h1.net; rwa [adjNet_nil, add_zero] at this⟩

/-! ### `root.update(d)` on a world standing on `d`, refresh, recursive flatten -/

theorem refreshNB_nlw {w w' : World K} (hg : GoodR d w.root)
    (h : refreshNB cfg w = .ok w') : NLW d w.root w'.root := by
  unfold refreshNB at h
  rw [hg.now] at h
  obtain ⟨n, hn', rfl⟩ := map_eq_ok h
  exact updNode_nlw _ _ hg.1 hn'

theorem flattenAt_nlw {rf : World K → Except Err (World K)}
    (hrf : ∀ w w', GoodR d w.root → rf w = .ok w' → NLW d w.root w'.root)
    {n : Node K} {path : List Nat} {w w' : World K} (hg : GoodR d w.root)
    (h : flattenAt cfg rf n path w = .ok w') : NLW d w.root w'.root ∧ GoodR d w'.root :=
  flattenAt_inv (I := fun x => NLW d w.root x.root ∧ GoodR d x.root)
    (fun _ _ h1 hI =>
      have hab := hrf _ _ hI.2 h1
      ⟨hI.1.trans hab, hab.goodR hI.2⟩)
    (fun _ _ _ h1 hI =>
      have hab := modify_nlw (fun _ _ _ _ hn hr => ⟨(flatF_opL hn hr).1, fun _ => (flatF_opL hn hr).2⟩)
        hI.2.1 h1
      ⟨hI.1.trans hab, hab.goodR hI.2⟩)
    n path w w' h ⟨NLW.refl d _, hg⟩

/-- **`root.update(d)` on a world standing on `d`** (second update of the day, getter refreshes): every
    balance is kept — also when the update liquidates the tree (bankruptcy step) -/
theorem updRoot_nlw {w w' : World K} (hg : Good d w.root) (h : updRoot cfg d w = .ok w') :
    NLW d w.root w'.root := by
  obtain ⟨root, st⟩ := w
  cases root with
  | sec s => cases h
  | strat sd kids =>
    rw [updRoot_strat] at h
    simp only [good_strat] at hg
    rw [stratDateChange_same hg.1] at h
    obtain ⟨⟨kids1, acc⟩, hk, h⟩ := bind_eq_ok h
    have hc := updKids_coupons kids hk
    simp only [Bool.false_eq_true, ↓reduceIte, add_zero] at hc
    obtain ⟨k1, k2⟩ := updKids_nl kids _ _ _ _ hg.2 hk
    split at h
    · obtain ⟨wF, hfl, h⟩ := bind_eq_ok h
      obtain ⟨n, hn, rfl⟩ := map_eq_ok h
      have hB : NLW d (.strat sd kids) (bankruptWorld { sd with now := some d } (kids1, acc)).root := by
        refine ⟨?_, rfl⟩
        simp only [bankruptWorld, nl_strat]
        refine ⟨hg.1.symm, ?_, k1⟩
        rw [bal_eq, bal_eq, k2, stratW, stratW]; simp only [hc]; ring
      have hBg := hB.goodR ⟨by simp only [good_strat]; exact hg, _, _, rfl⟩
      obtain ⟨hF, hFg⟩ := flattenAt_nlw (fun _ _ hg' hr => refreshNB_nlw hg' hr) hBg hfl
      exact hB.trans (hF.trans (updNode_nlw _ _ hFg.1 hn))
    · obtain ⟨n, hf, rfl⟩ := map_eq_ok h
      obtain ⟨sd', ks', rfl, f1, f2, f3, f4, f5, f6⟩ := stratFinish_fields hf
      simp only at f1 f2 f3 f4 f5 f6
      refine ⟨?_, f4⟩
      simp only [nl_strat]
      refine ⟨by rw [f1, hg.1], ?_, nll_trans d _ _ _ k1 f5⟩
      rw [bal_eq, bal_eq, f4, f6, k2, stratW, stratW, f2, f3, hc]; ring

theorem refresh_nlw {w w' : World K} (hg : GoodR d w.root)
    (h : refresh cfg w = .ok w') : NLW d w.root w'.root := by
  unfold refresh at h
  split at h
  · rw [hg.now] at h
    exact updRoot_nlw hg.1 h
  · cases h; exact NLW.refl d _

/-! ### the public operations other than `adjust`, on a world standing on `d` -/

theorem opAllocate_nlw {w w' : World K} {path : List Nat} {amount : K} {u : Bool}
    (hg : GoodR d w.root) (h : opAllocate cfg w path amount u = .ok w') : NLW d w.root w'.root := by
  unfold opAllocate at h
  refine modify_nlw (fun par n r hp hn hr => ?_) hg.1 h
  cases n with
  | sec s =>
    cases par with
    | none => cases hr
    | some p =>
      simp only at hr
      obtain ⟨⟨s', a⟩, hs, rfl⟩ := map_eq_ok hr
      rw [hp p rfl] at hs
      simp only [good_sec] at hn
      have := secAllocate_op hn hs
      exact ⟨⟨by simpa using this.secL, this.nonflow, this.net⟩, fun h => by cases h⟩
  | strat sd kids =>
    cases par with
    | none =>
      simp only at hr
      rw [adjust_cancel] at hr
      obtain ⟨⟨sd2, kids2⟩, hk, rfl⟩ := map_eq_ok hr
      simp only [good_strat] at hn
      exact ⟨(allocKids_kl kids amount sd _ _ hn.1 hn.2 hk).opL, fun _ => rfl⟩
    | some p =>
      simp only at hr
      obtain ⟨⟨n', adjs⟩, hk, rfl⟩ := map_eq_ok hr
      rw [hp p rfl] at hk
      exact ⟨allocNode_opL _ _ _ _ hn hk, fun h => by cases h⟩

theorem opTransact_nlw {w w' : World K} {path : List Nat} {q : K} {u : Bool}
    {custom : Option K} (hg : GoodR d w.root) (h : opTransact cfg w path q u custom = .ok w') :
    NLW d w.root w'.root := by
  unfold opTransact at h
  refine modify_nlw (fun par n r hp hn hr => ?_) hg.1 h
  cases n with
  | sec s =>
    cases par with
    | none => cases hr
    | some p =>
      simp only at hr
      obtain ⟨⟨s', a⟩, hs, rfl⟩ := map_eq_ok hr
      rw [hp p rfl] at hs
      simp only [good_sec] at hn
      have := secTransact_op hn hs
      exact ⟨⟨by simpa using this.secL, this.nonflow, this.net⟩, fun h => by cases h⟩
  | strat sd kids =>
    have hr' : (transKids cfg q kids sd).map (fun x : StratData K × List (Node K) =>
        ((Node.strat x.1 x.2, [], u) : OpRes K)) = .ok r := by
      cases par <;> exact hr
    obtain ⟨⟨sd2, kids2⟩, hk, rfl⟩ := map_eq_ok hr'
    simp only [good_strat] at hn
    exact ⟨(transKids_kl kids q sd _ _ hn.1 hn.2 hk).opL, fun _ => rfl⟩

theorem opFlatten_nlw {w w' : World K} {path : List Nat}
    (hg : GoodR d w.root) (h : opFlatten cfg w path = .ok w') : NLW d w.root w'.root := by
  unfold opFlatten at h
  split at h
  · exact (flattenAt_nlw (fun _ _ hg' hr => refresh_nlw hg' hr) hg h).1
  · cases h

theorem opClose_nlw {w w' : World K} {path : List Nat} {child : Nat} {u : Bool}
    (hg : GoodR d w.root) (h : opClose cfg w path child u = .ok w') : NLW d w.root w'.root := by
  unfold opClose at h
  split at h
  · obtain ⟨w1, h1, h⟩ := bind_eq_ok h
    have hw1 : NLW d w.root w1.root := by
      split at h1
      · split at h1
        · exact opFlatten_nlw hg h1
        · cases h1; exact NLW.refl d _
      · simp only [Bool.false_eq_true, ↓reduceIte] at h1
        cases h1; exact NLW.refl d _
    have hok1 := hw1.goodR hg
    refine hw1.trans ?_
    split at h
    · split at h
      · cases h
      · split at h
        · split at h
          · exact opTransact_nlw hok1 h
          · cases h; exact NLW.refl d _
        · cases h
    · obtain ⟨w2, h2, h⟩ := bind_eq_ok h
      have hw2 := refresh_nlw hok1 h2
      refine hw2.trans ?_
      split at h
      · split at h
        · exact opAllocate_nlw (hw2.goodR hok1) h
        · cases h; exact NLW.refl d _
      · cases h
  · cases h

theorem opRebalance_nlw {w w' : World K} {path : List Nat} {weight : K}
    {child : Nat} {base : Option K} {u : Bool} (hg : GoodR d w.root)
    (h : opRebalance cfg w path weight child base u = .ok w') : NLW d w.root w'.root := by
  unfold opRebalance at h
  split at h
  · exact opClose_nlw hg h
  · obtain ⟨w1, h1, h⟩ := bind_eq_ok h
    have hw1 : NLW d w.root w1.root := by
      split at h1
      · exact refresh_nlw hg h1
      · cases h1; exact NLW.refl d _
    have hok1 := hw1.goodR hg
    obtain ⟨w2, h2, h⟩ := bind_eq_ok h
    have hw2 := refresh_nlw hok1 h2
    have hok2 := hw2.goodR hok1
    refine hw1.trans (hw2.trans ?_)
    split at h
    · simp only at h
      split at h
      · split at h
        · exact opTransact_nlw hok2 h
        · exact opAllocate_nlw hok2 h
      · exact opAllocate_nlw hok2 h
    · cases h

mutual
theorem localRefreshAll_nlw : (n : Node K) → ∀ (pnow : Option Nat) n',
    Good d n → localRefreshAll cfg d pnow n = .ok n' → NLW d n n'
  | .sec s, pnow, n', hg, h => by
    rw [localRefreshAll.eq_1] at h
    simp only [good_sec] at hg
    split at h
    · obtain ⟨s', hs, rfl⟩ := map_eq_ok h
      obtain ⟨a, b⟩ := secUpdate_secL hg hs
      exact ⟨by simpa using a, b⟩
    · cases h; exact NLW.refl d _
  | .strat sd kids, pnow, n', hg, h => by
    rw [localRefreshAll.eq_2] at h
    obtain ⟨ks, hk, rfl⟩ := map_eq_ok h
    simp only [good_strat] at hg
    obtain ⟨a, b⟩ := localRefreshKids_nl kids _ _ hg.2 hk
    refine ⟨?_, rfl⟩
    rw [nl_strat]
    exact ⟨rfl, by rw [bal_eq, bal_eq, b], a⟩
theorem localRefreshKids_nl : (ks : List (Node K)) → ∀ (pnow : Option Nat) ks',
    GoodL d ks → localRefreshKids cfg d pnow ks = .ok ks' → NLL d ks ks' ∧ kidsT d ks' = kidsT d ks
  | [], pnow, ks', _, h => by rw [localRefreshKids.eq_1] at h; cases h; simp
  | k :: ks, pnow, ks', hg, h => by
    rw [localRefreshKids.eq_2] at h
    obtain ⟨k', hk, h⟩ := bind_eq_ok h
    obtain ⟨ks1, hks, rfl⟩ := map_eq_ok h
    simp only [goodL_cons] at hg
    have a := localRefreshAll_nlw k _ _ hg.1 hk
    obtain ⟨b1, b2⟩ := localRefreshKids_nl ks _ _ hg.2 hks
    exact ⟨by simp only [nll_cons]; exact ⟨a.1, b1⟩, by simp only [kidsT, a.2, b2]⟩
end

theorem localF_opL {par : Option (StratData K)} {n : Node K} {r : OpRes K}
    (hg : Good d n) (h : localF cfg (some d) par n = .ok r) :
    OpL d n r.1 r.2.1 ∧ (par = none → r.2.1 = []) := by
  unfold localF at h
  split at h
  · split at h
    · simp only at h
      obtain ⟨s', hs, rfl⟩ := map_eq_ok h
      simp only [good_sec] at hg
      obtain ⟨a, b⟩ := secUpdate_secL hg hs
      exact ⟨OpL.of_nlw ⟨by simpa using a, b⟩, fun _ => rfl⟩
    · cases h; exact ⟨OpL.of_nlw (NLW.refl d _), fun _ => rfl⟩
  · cases h

theorem opRead_nlw {w w' : World K} {path : List Nat} {g : Getter}
    (hg : GoodR d w.root) (h : opRead cfg w path g = .ok w') : NLW d w.root w'.root := by
  rw [opRead_eq] at h
  cases g with
  | plain => cases h; exact NLW.refl d _
  | stratRefreshing => exact refresh_nlw hg h
  | secLocal =>
    simp only at h
    rw [hg.now] at h
    exact modify_nlw (fun _ _ _ _ hn hr => localF_opL hn hr) hg.1 h
  | secSeries =>
    simp only at h
    rw [hg.now] at h
    obtain ⟨w1, h1, h2⟩ := bind_eq_ok h
    have hw1 := modify_nlw (fun _ _ _ _ hn hr => localF_opL hn hr) hg.1 h1
    exact hw1.trans (refresh_nlw (hw1.goodR hg) h2)
  | stratMembers =>
    simp only at h
    obtain ⟨w1, h1, h⟩ := bind_eq_ok h
    have hw1 := refresh_nlw hg h1
    have hok1 := hw1.goodR hg
    refine hw1.trans ?_
    rw [hok1.now] at h
    simp only at h
    refine modify_nlw (fun par n r _ hn hr => ?_) hok1.1 h
    obtain ⟨n', hn', rfl⟩ := map_eq_ok hr
    exact ⟨OpL.of_nlw (localRefreshAll_nlw _ _ _ hn hn'), fun _ => rfl⟩

end ops

end Bt.P07
