import Bt.Engine.Ops
/-! Concrete instances over `Rat` used by the `example`s that show the hypotheses of the
    property theorems are satisfiable. -/
namespace Bt.Ex

def cfg : Cfg Rat := { tol := 1/2, par := 100, atol := 1/100000000, half := 1/2, one := 1, iterCap := 10000 }

/-- a plain security holding `pos` units, two dates of prices 5 and 6, multiplier 2 -/
def sec (nm : String) (kind : SecKind) (pos : Rat) : SecData Rat :=
  { name := nm, kind := kind, fixedIncome := false, integer := true, bidofferSet := false, mult := 2,
    now := none, price := none, value := 0, notl := 0, weight := 0, position := pos, lastPos := 0,
    outlayAcc := 0, bidoffer := some 0, bidofferPaid := 0, capital := 0, coupon := 0, holdingCost := 0,
    needupdate := true, prices := [some 5, some 6], bidoffers := [], coupons := [some 1, some 1],
    costLong := none, costShort := none,
    rValue := [0, 0], rPosition := [0, 0], rNotl := [0, 0], rOutlay := [0, 0], rBidofferPaid := [0, 0],
    rCoupon := [0, 0], rHolding := [0, 0] }

def strat (nm : String) (fi : Bool) (cash : Rat) : StratData Rat :=
  { name := nm, fixedIncome := fi, bidofferSet := false, paperTrade := false, paperPx := 100,
    comm := fun _ _ => 0, now := none, capital := cash, price := 100, value := 0, notl := 0, weight := 0,
    netFlows := cash, lastValue := 0, lastNotl := 0, lastPrice := 100, lastFee := 0, bidofferPaid := 0,
    bankrupt := false, rPrice := [100, 100], rValue := [0, 0], rNotl := [0, 0], rCash := [0, 0],
    rFees := [0, 0], rFlows := [0, 0], rBidofferPaid := [0, 0] }

/-- root(cash 10) ─ a(3 units), b(quiet, flat), sub(cash 4) ─ c(1 unit, fixed-income class) -/
def kids : List (Node Rat) :=
  [ .sec (sec "a" .plain 3),
    .sec { sec "b" .plain 0 with needupdate := false },
    .strat (strat "sub" false 4) [ .sec (sec "c" .fi 1) ] ]

def tree : Node Rat := .strat (strat "root" false 10) kids

/-- the same tree with whole-unit plain securities only -/
def treeInt : Node Rat :=
  .strat (strat "root" false 10)
    [ .sec (sec "a" .plain 3),
      .sec { sec "b" .plain 0 with needupdate := false },
      .strat (strat "sub" false 4) [ .sec (sec "c" .plain 1) ] ]

/-- the dust-weight run: buy one unit of `a` (weight 1/11, below `tol = 1/2`), sell it again, refresh:
    `a` goes quiet with its old weight -/
def dustWorld0 : World Rat :=
  { root := .strat (strat "root" false 110) [ .sec (sec "a" .plain 0) ], stale := true }

def dustRun : Except Err (World Rat) := do
  let w ← updRoot cfg 0 dustWorld0
  let w ← opTransact cfg w [0] 1 true none
  let w ← refresh cfg w
  let w ← opTransact cfg w [0] (-1) true none
  pure w

/-- a world whose root goes bankrupt at date 0: cash -100 against 30 of securities -/
def brokeWorld : World Rat :=
  { root := .strat (strat "root" false (-100)) [ .sec (sec "a" .plain 3) ], stale := true }

/-- a root worth −2/5 (below `tol = 1/2`: no bankruptcy) on date 0 and −3/5 on date 1 (bankrupt), holding one
    unit of a hedge-class security (notional always 0) -/
def tinyWorld : World Rat :=
  { root := .strat (strat "root" false (-104/10))
      [ .sec { sec "h" .hedge 1 with prices := [some 5, some (49/10)] } ], stale := true }

/-- a root that already went bankrupt once (the step cannot fire again) -/
def flaggedWorld : World Rat :=
  { root := .strat { strat "root" false 10 with bankrupt := true } kids, stale := true }

/-- a configuration without dust (`TOL = 0`: nothing but zero passes `is_zero`... and not even zero) -/
def cfg0 : Cfg Rat := { cfg with tol := 0 }

/-- the computation succeeds and its result passes the test -/
def check {β : Type} (x : Except Err β) (p : β → Bool) : Bool :=
  match x with
  | .ok r => p r
  | .error _ => false

theorem check_ok {β : Type} {x : Except Err β} {p : β → Bool} (h : check x p = true) :
    ∃ r, x = .ok r ∧ p r = true := by
  cases x with
  | ok r => exact ⟨r, rfl, h⟩
  | error e => cases h

end Bt.Ex
