import Bt.Proofs.ProgramX
/-! Concrete extended programs over `Rat` for the `example`s of `Bt.Props.C04_progx`, `C09_progx`, `C16_progx`
    (fresh trees, four rows of data, row 0 the synthetic one; securities and strategies as in `Bt.Proofs.ProgramEx`). -/
namespace Bt.PProgX
open Bt Bt.Prog Bt.PProg Bt.Select

/-! #### a flat momentum program: root over `x`, `y`, `z`;
    `[RunPeriod, SelectAll, SelectMomentum(n=1, lookback = one row), WeighEqually, Rebalance]` -/

/-- data set A -/
def wXA : World Rat := ⟨.strat (stratE "root" false) [.sec xE, .sec yE, .sec zE], false⟩
/-- data set B: as A on rows 0-2, different on row 3 (and `x` one row longer) -/
def wXB : World Rat :=
  ⟨.strat (stratE "root" false) [.sec (secE "x" [none, some 10, some 11, some 22, some 1]),
    .sec (secE "y" [none, some 20, some 19, some 4]), .sec (secE "z" [none, some 50, some 50, some 40])], false⟩

/-- the window of `SelectMomentum` per row: the previous and the current row (`none` on the synthetic row) -/
def winE : List (Option (Nat × Nat)) := [none, some (0, 2), some (1, 3), some (2, 4)]

def progXE : ProgX Rat :=
  { gate := [false, true, true, true], ucols := [0, 1, 2],
    sels := [.all false false, .momentum winE (.int 1) false false], wgh := .equally }

def xtreeE : XTree Rat := .node progXE [none, none, none]
def gtreeE : GTree Rat := embedX cfgE xtreeE

/-- a longer selection part: `SelectThese [z, y, x]`, `SelectHasData(min_count = 2)`, `SelectMomentum(n = 0.5)` -/
def progXF : ProgX Rat :=
  { gate := [false, false, true, true], ucols := [0, 1, 2],
    sels := [.these [2, 1, 0] false false, .hasData [0, 0, 0, 1] 2 false false,
      .momentum winE (.real (1 / 2)) false true],
    wgh := .equally }

def gtreeF : GTree Rat := embedX cfgE (.node progXF [none, none, none])

/-! #### a nested momentum program: root over the sub-strategy `sub` (over `x`, `y`) and the security `z` -/

def progXSub : ProgX Rat :=
  { gate := [false, true, true, true], ucols := [0, 1],
    sels := [.all false false, .momentum winE (.int 1) false false], wgh := .equally }

def xtreeSub : XTree Rat := .node progXSub [none, none]

/-- the parent ranks the sub-strategy's recorded index against `z` (and then holds half of each) -/
def progXPar : ProgX Rat :=
  { gate := [false, true, true, true], ucols := [0, 1],
    sels := [.all false false, .momentum winE (.int 1) false false], wgh := .specified [(0, 1 / 2), (1, 1 / 2)] }

def xtreePar : XTree Rat := .node progXPar [some xtreeSub, none]

def gtreeSub : GTree Rat := embedX cfgE xtreeSub
def gtreePar : GTree Rat := embedX cfgE xtreePar

/-- the stand-alone backtest of the sub-strategy's definition -/
def simXSub : SimG Rat := .mk wSubE gtreeSub []

/-- the parent's backtest after `setup`: the funded shadow copy of `sub` at path `[0]` -/
def simXPar : SimG Rat := .mk wParE gtreePar [([0], .mk wSubF gtreeSub [])]

/-! #### a levered program that goes bankrupt, and a node that is no program at all -/

def progXLev : ProgX Rat :=
  { gate := [false, true, false, true], ucols := [0], sels := [.these [0] false false],
    wgh := .specified [(0, 3)] }

def gtreeLev : GTree Rat := embedX cfgE (.node progXLev [none])

/-- a node function that raises whenever it is called, and one that reads a getter of the root -/
def gtreeBad : GTree Rat := .node (fun _ _ _ => .error .badPath) []
def gtreeRead : GTree Rat := .node (fun path _ w => opRead cfgE w path .stratRefreshing) []

end Bt.PProgX
