import Bt.Proofs.RebalanceCosts
/-! C06 with costs / at any path, part 4: `Rebalance` on a strategy (at any path of any tree) whose children
    are securities, with commission and spreads, whole or fractional units — the state before the closing
    update, child by child, with the fees and the conserved ledger. -/
set_option linter.unusedSectionVars false
namespace Bt.P06
open Bt Bt.Rebal

variable {K : Type} [Field K] [LinearOrder K] [IsStrictOrderedRing K] [HasFloor K]

/-- how the job `act` (`none`: close; `some wt`: rebalance to `wt` against base `V`) sized the quantity `q` it
    effectively traded on the security `s` -/
def PlanSized (cfg : Cfg K) (comm : K → K → K) (V : K) (s : SecData K) (act : Option K) (q : K) : Prop :=
  match planN cfg V (.sec s) act with
  | none => q = 0
  | some a => Sized cfg comm s a q

/-- one job on a security child, whichever branch -/
theorem child_outcome (cfg : Cfg K) (d : Nat) (comm : K → K → K) (V : K) (s : SecData K) (act : Option K)
    (k' : Node K) (adjs : List (Adj K)) (htol : 0 < cfg.tol) (hr : RSec d s)
    (h : StepN cfg (some d) comm (.sec s) (planN cfg V (.sec s) act) k' adjs) :
    ∃ t q, k' = .sec t ∧ Moved cfg d s t q ∧ PlanSized cfg comm V s act q ∧
      adjAmounts adjs = -(q * px s * s.mult + costOf cfg comm s q) ∧ adjFees adjs = feeOf comm s q := by
  unfold PlanSized
  cases hpl : planN cfg V (.sec s) act with
  | none =>
    rw [hpl] at h
    obtain ⟨rfl, rfl⟩ := h
    exact ⟨s, 0, rfl, Moved.refl cfg hr, rfl, by simp [costOf_zero], by simp [feeOf]⟩
  | some a =>
    rw [hpl] at h
    obtain ⟨t, q, e, hs, hm, h1, h2⟩ := secStep_spec cfg d comm s a k' adjs htol hr h
    exact ⟨t, q, e, hm, hs, h1, h2⟩

theorem all_sec_list : ∀ (ks : List (Node K)), (∀ (i : Nat) (k : Node K), ks[i]? = some k → ∃ t, k = Node.sec t) →
    ∃ ss : List (SecData K), ks = ss.map Node.sec
  | [], _ => ⟨[], rfl⟩
  | k :: ks, h => by
    obtain ⟨t, rfl⟩ := h 0 k (by simp)
    obtain ⟨ss, rfl⟩ := all_sec_list ks (fun i k hk => h (i + 1) k (by simpa using hk))
    exact ⟨t :: ss, rfl⟩

theorem list_eq_zipWith {α β : Type} (f : α → β → K) : ∀ (L : List K) (as : List α) (bs : List β),
    L.length = as.length → bs.length = as.length →
    (∀ (i : Nat) (a : α) (b : β), as[i]? = some a → bs[i]? = some b → L[i]? = some (f a b)) →
    L = List.zipWith f as bs
  | L, [], bs, hL, _, _ => by
    have : L = [] := List.eq_nil_of_length_eq_zero (by simpa using hL)
    rw [this]; rfl
  | [], a :: as, bs, hL, _, _ => by simp at hL
  | x :: L, a :: as, [], _, hb, _ => by simp at hb
  | x :: L, a :: as, b :: bs, hL, hb, h => by
    have h0 := h 0 a b (by simp) (by simp)
    simp only [List.getElem?_cons_zero, Option.some.injEq] at h0
    rw [List.zipWith_cons_cons, h0,
      list_eq_zipWith f L as bs (by simpa using hL) (by simpa using hb) (fun i a' b' ha hb' => by
        have := h (i + 1) a' b' (by simpa using ha) (by simpa using hb')
        simpa using this)]

/-- spread paid so far on the date by the securities of a list -/
def boSumL (ss : List (SecData K)) : K := (ss.map fun s => s.bidofferPaid).sum

theorem ledgerWKids_secs : ∀ (ss : List (SecData K)), (∀ s ∈ ss, s.price = some (px s)) →
    ledgerWKids (ss.map Node.sec) = worthSum ss + boSumL ss
  | [], _ => by simp [ledgerWKids, kidsSum, worthSum, boSumL]
  | s :: ss, h => by
    have ih := ledgerWKids_secs ss (fun x hx => h x (List.mem_cons_of_mem _ hx))
    simp only [ledgerWKids, List.map_cons, kidsSum, nodeSum, worthSum, boSumL, List.sum_cons] at ih ⊢
    rw [ih]
    simp only [secW, secWorth, h s List.mem_cons_self, worth]
    ring

/-- the commission booked on the strategy for the trade that took child `s` to `t` -/
def feeBetween (comm : K → K → K) (s t : SecData K) : K := feeOf comm s (t.position - s.position)

/-- **`Rebalance` with costs, before the closing update.**  The market-value strategy `(sd, ss)` found at `p`
    of a tree that is not stale, standing on `d`, whose children are securities `allocate` reaches without a
    refresh (`RSec`; whole or fractional units, any spread, any commission function), distinct target indices.
    If the algo does not raise, then just before the closing update only that strategy differs from the tree
    the algo started from (`PW root p sd3 ss3`): only its cash and its fees of the date moved; every child `s`
    effectively traded a quantity `q` (`Moved`) sized by its job as `PlanSized` says (closed if it is not a
    target, rebalanced to `weight × (1 − cash)` against base `sd.value` if it is); the fees booked are the
    children's commissions, and `cash + Σ position·price·mult + fees + Σ spread paid` is conserved. -/
theorem algoRebalance_secs (cfg : Cfg K) (d : Nat) (root : Node K) (p : List Nat) (sd : StratData K)
    (ss : List (SecData K)) (T : List (Nat × K)) (cash notional : Option K) (w' : World K)
    (htol : 0 < cfg.tol) (hv : ∃ x, root.get? p = some x)
    (hrn : (PW root p sd (ss.map Node.sec)).root.now = some d)
    (hnow : sd.now = some d) (hfi : sd.fixedIncome = false) (hsec : ∀ s ∈ ss, RSec d s)
    (hnd : (T.map (·.1)).Nodup) (hin : ∀ i ∈ T.map (·.1), i < ss.length)
    (h : algoRebalance cfg (PW root p sd (ss.map Node.sec)) p T cash notional = .ok w') :
    ∃ (sd3 : StratData K) (ss3 : List (SecData K)),
      updRoot cfg d (PW root p sd3 (ss3.map Node.sec)) = .ok w' ∧ ss3.length = ss.length ∧
      sd3 = withCF sd sd3.capital sd3.lastFee ∧
      sd3.lastFee = sd.lastFee + (List.zipWith (feeBetween sd.comm) ss ss3).sum ∧
      sd3.capital + worthSum ss3 + sd3.lastFee + boSumL ss3 =
        sd.capital + worthSum ss + sd.lastFee + boSumL ss ∧
      (∀ (i : Nat) (s : SecData K), ss[i]? = some s → ∃ t q, ss3[i]? = some t ∧ Moved cfg d s t q ∧
        ((i ∉ T.map (·.1) ∧ PlanSized cfg sd.comm sd.value s none q) ∨
          ∃ wt, (i, wt) ∈ T ∧ PlanSized cfg sd.comm sd.value s (some (wt * cashScale cash)) q)) := by
  have hget : ∀ i (hi : i < ss.length), (ss.map Node.sec)[i]? = some (.sec ss[i]) := by
    intro i hi; rw [List.getElem?_map, List.getElem?_eq_getElem hi]; rfl
  obtain ⟨sd3, ks3, hjobs, hupd⟩ := algoRebalance_PW cfg d root p sd (ss.map Node.sec) T cash notional w' hv hfi hnd
    (by
      intro i hi _
      rw [List.length_map] at hi
      exact ⟨_, hget i hi, trivial⟩)
    (by
      intro t ht
      have hi := hin t.1 (List.mem_map.2 ⟨t, ht, rfl⟩)
      exact ⟨_, hget t.1 hi, fun _ => trivial⟩)
    hrn h
  rw [List.length_map] at hjobs
  obtain ⟨AL, l1, l2, e3, pj, pu, cons⟩ := runJobs_spec cfg sd.value (algoJobs ss.length T cash) sd sd3
    (ss.map Node.sec) ks3 (algoJobs_nodup ss.length T cash hnd)
    (by
      intro j hj
      have hlt : j.1 < ss.length := by
        unfold algoJobs at hj
        rcases List.mem_append.1 hj with hj | hj
        · exact List.mem_range.1 (mem_closeJobs hj).2.1
        · obtain ⟨t, ht, rfl⟩ := List.mem_map.1 hj
          exact hin t.1 (List.mem_map.2 ⟨t, ht, rfl⟩)
      refine ⟨_, hget j.1 hlt, ?_⟩
      rw [Node.synced, (hsec _ (List.getElem_mem hlt)).now, hnow])
    hjobs
  rw [List.length_map] at l1 l2
  -- every child, through its job
  have hchild : ∀ (i : Nat) (s : SecData K), ss[i]? = some s → ∃ t q adjs, ks3[i]? = some (.sec t) ∧
      AL[i]? = some adjs ∧ Moved cfg d s t q ∧
      adjAmounts adjs = -(q * px s * s.mult + costOf cfg sd.comm s q) ∧ adjFees adjs = feeOf sd.comm s q ∧
      ((i ∉ T.map (·.1) ∧ PlanSized cfg sd.comm sd.value s none q) ∨
        ∃ wt, (i, wt) ∈ T ∧ PlanSized cfg sd.comm sd.value s (some (wt * cashScale cash)) q) := by
    intro i s hs
    have hlt : i < ss.length := lt_of_getElem? hs
    have hks : (ss.map Node.sec)[i]? = some (.sec s) := by rw [List.getElem?_map, hs]; rfl
    have hrs : RSec d s := hsec s (List.mem_of_getElem? hs)
    rcases algoJobs_cover ss.length T cash i hlt with ⟨hni, hj⟩ | ⟨wt, hm, hj⟩
    · obtain ⟨k', adjs, g1, g2, g3⟩ := pj i none _ hj hks
      rw [hnow] at g3
      obtain ⟨t, q, rfl, hmv, hps, a1, a2⟩ := child_outcome cfg d sd.comm sd.value s none k' adjs htol hrs g3
      exact ⟨t, q, adjs, g1, g2, hmv, a1, a2, Or.inl ⟨hni, hps⟩⟩
    · obtain ⟨k', adjs, g1, g2, g3⟩ := pj i _ _ hj hks
      rw [hnow] at g3
      obtain ⟨t, q, rfl, hmv, hps, a1, a2⟩ := child_outcome cfg d sd.comm sd.value s _ k' adjs htol hrs g3
      exact ⟨t, q, adjs, g1, g2, hmv, a1, a2, Or.inr ⟨wt, hm, hps⟩⟩
  obtain ⟨ss3, rfl⟩ := all_sec_list ks3 (by
    intro i k hk
    have hlt : i < ss.length := by rw [← l2]; exact lt_of_getElem? hk
    obtain ⟨t, _, _, g, _⟩ := hchild i ss[i] (List.getElem?_eq_getElem hlt)
    rw [g] at hk; cases hk
    exact ⟨t, rfl⟩)
  rw [List.length_map] at l2
  have hchild' : ∀ (i : Nat) (s : SecData K), ss[i]? = some s → ∃ t q adjs, ss3[i]? = some t ∧
      AL[i]? = some adjs ∧ Moved cfg d s t q ∧
      adjAmounts adjs = -(q * px s * s.mult + costOf cfg sd.comm s q) ∧ adjFees adjs = feeOf sd.comm s q ∧
      ((i ∉ T.map (·.1) ∧ PlanSized cfg sd.comm sd.value s none q) ∨
        ∃ wt, (i, wt) ∈ T ∧ PlanSized cfg sd.comm sd.value s (some (wt * cashScale cash)) q) := by
    intro i s hs
    obtain ⟨t, q, adjs, g, rest⟩ := hchild i s hs
    refine ⟨t, q, adjs, ?_, rest⟩
    rw [List.getElem?_map] at g
    cases h3 : ss3[i]? with
    | none => rw [h3] at g; cases g
    | some t' => rw [h3] at g; simp only [Option.map_some, Option.some.injEq, Node.sec.injEq] at g; rw [g]
  have hprice3 : ∀ t ∈ ss3, t.price = some (px t) := by
    intro t ht
    obtain ⟨i, hi⟩ := List.mem_iff_getElem?.1 ht
    have hlt : i < ss.length := by rw [← l2]; exact lt_of_getElem? hi
    obtain ⟨t', _, _, g, _, hmv, _⟩ := hchild' i ss[i] (List.getElem?_eq_getElem hlt)
    rw [g] at hi; cases hi
    exact hmv.ready.price
  refine ⟨sd3, ss3, hupd, l2, ?_, ?_, ?_, ?_⟩
  · rw [e3]; rfl
  · have hfees : AL.map adjFees = List.zipWith (feeBetween sd.comm) ss ss3 := by
      apply list_eq_zipWith
      · rw [List.length_map, l1]
      · exact l2
      · intro i s t hs ht
        obtain ⟨t', q, adjs, g1, g2, hmv, _, a2, _⟩ := hchild' i s hs
        rw [g1] at ht; cases ht
        rw [List.getElem?_map, g2]
        simp only [Option.map_some, Option.some.injEq, feeBetween]
        rw [a2, hmv.pos]
        congr 1
        ring
    rw [e3, ← hfees]; rfl
  · rw [ledgerWKids_secs ss (fun s hs => (hsec s hs).price), ledgerWKids_secs ss3 hprice3] at cons
    simp only [stratW] at cons
    linear_combination cons
  · intro i s hs
    obtain ⟨t, q, adjs, g1, _, hmv, _, _, hcase⟩ := hchild' i s hs
    exact ⟨t, q, g1, hmv, hcase⟩

end Bt.P06
