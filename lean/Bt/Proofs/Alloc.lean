import Bt.Engine.Sec
import Mathlib.Algebra.Order.Field.Basic
import Mathlib.Algebra.Order.Floor.Ring
import Mathlib.Data.Rat.Floor
import Mathlib.Algebra.Order.AbsoluteValue.Basic
import Mathlib.Tactic.Ring
import Mathlib.Tactic.Linarith
import Mathlib.Tactic.FieldSimp
import Mathlib.Tactic.Positivity
/-! Helper lemmas for C05 (`SecurityBase.allocate` sizing). -/
set_option linter.unusedSectionVars false
namespace Bt.Alloc
open Bt

section basics
variable {K : Type} [Field K] [LinearOrder K] [IsStrictOrderedRing K]

theorem absA_eq_abs (x : K) : absA x = |x| := by
  unfold absA
  split
  · rename_i h; rw [abs_of_neg h]
  · rename_i h; rw [abs_of_nonneg (le_of_not_gt h)]

theorem isZero_iff (tol x : K) : isZero tol x = true ↔ |x| < tol := by
  unfold isZero; rw [absA_eq_abs]; simp

theorem isZero_false_iff (tol x : K) : isZero tol x = false ↔ tol ≤ |x| := by
  unfold isZero; rw [absA_eq_abs]; simp

theorem isZero_neg (tol x : K) : isZero tol (-x) = isZero tol x := by
  unfold isZero; rw [absA_eq_abs, absA_eq_abs, abs_neg]

theorem eqA_iff (a b : K) : eqA a b = true ↔ a = b := by
  unfold eqA
  simp only [Bool.and_eq_true, Bool.not_eq_true', decide_eq_false_iff_not, not_lt]
  constructor
  · rintro ⟨h1, h2⟩; exact le_antisymm h2 h1
  · rintro rfl; exact ⟨le_refl _, le_refl _⟩

theorem eqA_self (a : K) : eqA a a = true := (eqA_iff a a).2 rfl

theorem eqA_false_iff (a b : K) : eqA a b = false ↔ a ≠ b := by
  rw [← Bool.not_eq_true, eqA_iff]

theorem isClose_iff (atol rtol a b : K) :
    isClose atol rtol a b = true ↔ |a - b| ≤ atol + rtol * |b| := by
  unfold isClose; rw [absA_eq_abs, absA_eq_abs]; simp

end basics


section refresh
variable {K : Type} [Field K] [LinearOrder K] [IsStrictOrderedRing K] [HasFloor K]

@[simp] theorem secDateChange_position (d : Nat) (s : SecData K) :
    (secDateChange d s).position = s.position := by
  unfold secDateChange; split <;> rfl

@[simp] theorem secRecordPos_position (d : Nat) (s : SecData K) :
    (secRecordPos d s).position = s.position := rfl

@[simp] theorem secSetValue_position (d : Nat) (v : K) (s : SecData K) :
    (secSetValue d v s).position = s.position := rfl

@[simp] theorem secQuiet_position (cfg : Cfg K) (s : SecData K) :
    (secQuiet cfg s).position = s.position := by
  unfold secQuiet; split <;> rfl

@[simp] theorem secFlushOutlay_position (d : Nat) (s : SecData K) :
    (secFlushOutlay d s).position = s.position := by
  unfold secFlushOutlay; split <;> rfl

@[simp] theorem secRowBidoffer_position (d : Nat) (s : SecData K) :
    (secRowBidoffer d s).position = s.position := by
  unfold secRowBidoffer; split <;> rfl

@[simp] theorem secFiTail_position (d : Nat) (s : SecData K) :
    (secFiTail d s).position = s.position := rfl

@[simp] theorem secHedgeTail_position (s : SecData K) :
    (secHedgeTail s).position = s.position := rfl

theorem secBaseUpdate_position (cfg : Cfg K) (d : Nat) (s s' : SecData K)
    (h : secBaseUpdate cfg d s = .ok s') : s'.position = s.position := by
  unfold secBaseUpdate at h
  split at h
  · cases h; rfl
  · dsimp only at h
    cases hv : secMarkValue cfg (secRecordPos d (secDateChange d s)) with
    | error e => rw [hv] at h; cases h
    | ok v => rw [hv] at h; cases h; simp

theorem secCouponTail_position (cfg : Cfg K) (d : Nat) (s s' : SecData K)
    (h : secCouponTail cfg d s = .ok s') : s'.position = s.position := by
  unfold secCouponTail at h
  simp only [Except.bind] at h
  split at h
  · cases h
  · split at h
    · cases h
    · cases h; rfl

theorem secUpdate_position (cfg : Cfg K) (d : Nat) (s s' : SecData K)
    (h : secUpdate cfg d s = .ok s') : s'.position = s.position := by
  unfold secUpdate at h
  cases hb : secBaseUpdate cfg d s with
  | error e => rw [hb] at h; cases h
  | ok s1 =>
    have h1 := secBaseUpdate_position cfg d s s1 hb
    rw [hb] at h
    simp only [Except.bind] at h
    cases hk : s.kind <;> rw [hk] at h <;> simp only at h
    · cases h; exact h1
    · cases h; simpa using h1
    · have := secCouponTail_position cfg d _ _ h; simpa [h1] using this
    · cases h; simpa using h1
    · cases hc : secCouponTail cfg d (secFiTail d s1) with
      | error e => rw [hc] at h; cases h
      | ok s2 =>
        rw [hc] at h; cases h
        have := secCouponTail_position cfg d _ _ hc
        simpa [h1] using this

/-- The refresh at the head of every security entry point never changes the position. -/
theorem secRefresh_position (cfg : Cfg K) (pn : Option Nat) (s s' : SecData K)
    (h : secRefresh cfg pn s = .ok s') : s'.position = s.position := by
  unfold secRefresh at h
  split at h
  · cases pn with
    | none => cases h
    | some d => exact secUpdate_position cfg d s s' h
  · cases h; rfl

end refresh


section transact
variable {K : Type} [Field K] [LinearOrder K] [IsStrictOrderedRing K] [HasFloor K]

/-- A successful `transact` of a non-negligible quantity moves the position by exactly `q` and sends
    minus the full outlay to the parent. -/
theorem secTransactCore_ok (cfg : Cfg K) (comm : K → K → K) (s : SecData K) (q : K)
    (r : SecData K × Option (Adj K)) (hq : isZero cfg.tol q = false)
    (h : secTransactCore cfg comm s q none = .ok r) :
    r.1.position = s.position + q ∧
    ∃ full outlay fee bo, secOutlay cfg comm s q none = .ok (full, outlay, fee, bo) ∧
      r.2 = some { amount := -full, fee := fee, flow := false } := by
  unfold secTransactCore at h
  simp only [hq, Bool.false_eq_true, ↓reduceIte, Option.isSome_none, Bool.false_and] at h
  have hout : ∀ s2 : SecData K, s2.price = s.price → s2.bidoffer = s.bidoffer → s2.mult = s.mult →
      secOutlay cfg comm s2 q none = secOutlay cfg comm s q none := by
    intro s2 h1 h2 h3; unfold secOutlay; rw [h1, h2, h3]
  rw [hout { s with needupdate := true, position := s.position + q } rfl rfl rfl] at h
  cases ho : secOutlay cfg comm s q none with
  | error e => rw [ho] at h; cases h
  | ok t =>
    obtain ⟨full, outlay, fee, bo⟩ := t
    rw [ho] at h
    simp only [Except.bind, pure, Except.pure] at h
    cases h
    exact ⟨rfl, full, outlay, fee, bo, rfl, rfl⟩

/-- `outlay` succeeds as soon as price and bid/offer are present. -/
theorem secOutlay_ok (cfg : Cfg K) (comm : K → K → K) (s : SecData K) (q price bo : K)
    (hp : s.price = some price) (hb : s.bidoffer = some bo) :
    secOutlay cfg comm s q none =
      .ok (q * price * s.mult + absA q * cfg.half * bo * s.mult + comm q (price * s.mult),
           q * price * s.mult + absA q * cfg.half * bo * s.mult, comm q (price * s.mult),
           absA q * cfg.half * bo * s.mult) := by
  unfold secOutlay; rw [hp, hb]; rfl

/-- `transact` succeeds as soon as price and bid/offer are present. -/
theorem secTransactCore_succeeds (cfg : Cfg K) (comm : K → K → K) (s : SecData K) (q price bo : K)
    (hp : s.price = some price) (hb : s.bidoffer = some bo) :
    ∃ r, secTransactCore cfg comm s q none = .ok r := by
  unfold secTransactCore
  by_cases hq : isZero cfg.tol q = true
  · simp only [hq, ↓reduceIte]; exact ⟨_, rfl⟩
  · simp only [hq, Bool.false_eq_true, ↓reduceIte, Option.isSome_none, Bool.false_and]
    rw [secOutlay_ok cfg comm { s with needupdate := true, position := s.position + q } q price bo hp hb]
    exact ⟨_, rfl⟩

end transact

section inversion
variable {K : Type} [Field K] [LinearOrder K] [IsStrictOrderedRing K] [HasFloor K]

/-- The full outlay (first component of `outlay(q)`) as `allocate` reads it. -/
def fullOut (cfg : Cfg K) (comm : K → K → K) (s : SecData K) : K → Except Err K :=
  fun q => (secOutlay cfg comm s q none).map fun r => r.1

/-- The full outlay as a plain function once price and bid/offer are known. -/
def fullOutF (cfg : Cfg K) (comm : K → K → K) (s : SecData K) (price bo : K) (q : K) : K :=
  q * price * s.mult + absA q * cfg.half * bo * s.mult + comm q (price * s.mult)

theorem fullOut_eq (cfg : Cfg K) (comm : K → K → K) (s : SecData K) (price bo : K)
    (hp : s.price = some price) (hb : s.bidoffer = some bo) (q : K) :
    fullOut cfg comm s q = .ok (fullOutF cfg comm s price bo q) := by
  unfold fullOut; rw [secOutlay_ok cfg comm s q price bo hp hb]; rfl

/-- Inversion of `allocQuantity` on a traded quantity. -/
theorem allocQuantity_some (cfg : Cfg K) (comm : K → K → K) (s : SecData K) (amount q' : K)
    (h : allocQuantity cfg comm s amount = .ok (some q')) :
    isZero cfg.tol amount = false ∧ ∃ p, s.price = some p ∧ isZero cfg.tol p = false ∧
      isZero cfg.tol (allocQ0 cfg s p amount) = false ∧
      ((allocQ0 cfg s p amount = -s.position ∧ q' = -s.position) ∨
       (allocQ0 cfg s p amount ≠ -s.position ∧ ∃ full0,
          fullOut cfg comm s (allocQ0 cfg s p amount) = .ok full0 ∧
          sizeLoop cfg (fullOut cfg comm s) (p * s.mult) amount s.integer (cfg.iterCap + 2) 0
            (allocQ0 cfg s p amount) (allocQ0 cfg s p amount) full0 (full0 - amount) = .ok q')) := by
  unfold allocQuantity at h
  split at h
  · cases h
  · rename_i hz
    refine ⟨by simpa using hz, ?_⟩
    cases hp : s.price with
    | none => rw [hp] at h; cases h
    | some p =>
      rw [hp] at h
      simp only at h
      split at h
      · cases h
      · rename_i hpz
        refine ⟨p, rfl, by simpa using hpz, ?_⟩
        split at h
        · cases h
        · rename_i hq0
          refine ⟨by simpa using hq0, ?_⟩
          split at h
          · rename_i he
            have he' := (eqA_iff _ _).1 he
            left
            refine ⟨he', ?_⟩
            cases h; exact he'
          · rename_i he
            right
            refine ⟨fun hh => he ((eqA_iff _ _).2 hh), ?_⟩
            change ((fullOut cfg comm s (allocQ0 cfg s p amount)).bind fun full0 =>
              (sizeLoop cfg (fullOut cfg comm s) (p * s.mult) amount s.integer (cfg.iterCap + 2) 0
                (allocQ0 cfg s p amount) (allocQ0 cfg s p amount) full0 (full0 - amount)).map some)
              = .ok (some q') at h
            cases hf : fullOut cfg comm s (allocQ0 cfg s p amount) with
            | error e => rw [hf] at h; cases h
            | ok full0 =>
              rw [hf] at h
              simp only [Except.bind] at h
              refine ⟨full0, rfl, ?_⟩
              cases hl : sizeLoop cfg (fullOut cfg comm s) (p * s.mult) amount s.integer
                (cfg.iterCap + 2) 0 (allocQ0 cfg s p amount) (allocQ0 cfg s p amount) full0
                (full0 - amount) with
              | error e => rw [hl] at h; cases h
              | ok q'' => rw [hl] at h; simp only [Except.map] at h; cases h; rfl

end inversion

section integrality
variable {K : Type} [Field K] [LinearOrder K] [IsStrictOrderedRing K] [HasFloor K]

/-- With whole-unit positions the search returns its starting quantity or a `floor`. -/
theorem sizeLoop_integer_result (cfg : Cfg K) (out : K → Except Err K) (pm amount : K) :
    ∀ (fuel i : Nat) (q lastQ full lastShort q' : K),
      sizeLoop cfg out pm amount true fuel i q lastQ full lastShort = .ok q' →
      q' = q ∨ ∃ x, q' = floorA x := by
  intro fuel
  induction fuel with
  | zero => intro i q lastQ full lastShort q' h; simp [sizeLoop] at h
  | succ n ih =>
    intro i q lastQ full lastShort q' h
    unfold sizeLoop at h
    split at h
    · cases h; exact Or.inl rfl
    · simp only [↓reduceIte] at h
      cases ho : out (floorA (q - (full - amount) / pm)) with
      | error e => rw [ho] at h; cases h
      | ok full2 =>
        rw [ho] at h
        simp only [Except.bind] at h
        cases hm : out (floorA (q - (full - amount) / pm) + 1) with
        | error e => rw [hm] at h; cases h
        | ok more =>
          rw [hm] at h
          simp only [Except.map] at h
          split at h
          · cases h; exact Or.inr ⟨_, rfl⟩
          · split at h
            · cases h
            · split at h
              · cases h
              · split at h
                · cases h
                · rcases ih _ _ _ _ _ _ h with h' | h'
                  · exact Or.inr ⟨_, h'⟩
                  · exact Or.inr h'

end integrality

section loopsteps
variable {K : Type} [Field K] [LinearOrder K] [IsStrictOrderedRing K] [HasFloor K]

theorem fullOut_funext (cfg : Cfg K) (comm : K → K → K) (s : SecData K) (price bo : K)
    (hp : s.price = some price) (hb : s.bidoffer = some bo) :
    fullOut cfg comm s = fun q => .ok (fullOutF cfg comm s price bo q) :=
  funext (fullOut_eq cfg comm s price bo hp hb)

/-- exit at the loop head -/
theorem sizeLoop_head (cfg : Cfg K) (out : K → Except Err K) (pm amount : K) (integer : Bool)
    (n i : Nat) (q lastQ full lastShort : K)
    (h0 : (isClose cfg.atol cfg.tol full amount || eqA q 0) = true) :
    sizeLoop cfg out pm amount integer (n + 1) i q lastQ full lastShort = .ok q := by
  unfold sizeLoop; simp only [h0, ↓reduceIte]; rfl

/-- the `break` of the whole-unit search -/
theorem sizeLoop_break_int (cfg : Cfg K) (f : K → K) (pm amount : K) (n i : Nat)
    (q lastQ full lastShort : K)
    (h0 : (isClose cfg.atol cfg.tol full amount || eqA q 0) = false)
    (h1 : f (floorA (q - (full - amount) / pm)) < amount)
    (h2 : amount < f (floorA (q - (full - amount) / pm) + 1)) :
    sizeLoop cfg (fun x => .ok (f x)) pm amount true (n + 1) i q lastQ full lastShort
      = .ok (floorA (q - (full - amount) / pm)) := by
  unfold sizeLoop
  simp only [h0, Bool.false_eq_true, ↓reduceIte, Except.bind, Except.map, h1, h2, decide_true,
    Bool.and_self]
  rfl

/-- one full turn of the whole-unit search that neither breaks nor raises -/
theorem sizeLoop_step_int (cfg : Cfg K) (f : K → K) (pm amount : K) (n i : Nat)
    (q lastQ full lastShort : K)
    (h0 : (isClose cfg.atol cfg.tol full amount || eqA q 0) = false)
    (hb : ¬ (f (floorA (q - (full - amount) / pm)) < amount ∧
            amount < f (floorA (q - (full - amount) / pm) + 1)))
    (hcap : ¬ cfg.iterCap < i + 1)
    (hst : lastQ ≠ floorA (q - (full - amount) / pm))
    (hdv : ¬ absA lastShort < absA (f (floorA (q - (full - amount) / pm)) - amount)) :
    sizeLoop cfg (fun x => .ok (f x)) pm amount true (n + 1) i q lastQ full lastShort
      = sizeLoop cfg (fun x => .ok (f x)) pm amount true n (i + 1)
          (floorA (q - (full - amount) / pm)) (floorA (q - (full - amount) / pm))
          (f (floorA (q - (full - amount) / pm)))
          (f (floorA (q - (full - amount) / pm)) - amount) := by
  conv_lhs => unfold sizeLoop
  have hb' : (decide (f (floorA (q - (full - amount) / pm)) < amount) &&
      decide (amount < f (floorA (q - (full - amount) / pm) + 1))) = false := by
    simpa using hb
  have hst' : eqA lastQ (floorA (q - (full - amount) / pm)) = false := (eqA_false_iff _ _).2 hst
  simp only [h0, Bool.false_eq_true, ↓reduceIte, Except.bind, Except.map, hb', hcap, hst',
    Bool.and_false, hdv]

end loopsteps

section forward
variable {K : Type} [Field K] [LinearOrder K] [IsStrictOrderedRing K] [HasFloor K]

theorem allocQuantity_q0_zero (cfg : Cfg K) (comm : K → K → K) (s : SecData K) (amount p : K)
    (hz : isZero cfg.tol amount = false) (hp : s.price = some p) (hpz : isZero cfg.tol p = false)
    (hq : isZero cfg.tol (allocQ0 cfg s p amount) = true) :
    allocQuantity cfg comm s amount = .ok none := by
  unfold allocQuantity; simp [hz, hp, hpz, hq]; rfl

theorem allocQuantity_skip (cfg : Cfg K) (comm : K → K → K) (s : SecData K) (amount p : K)
    (hz : isZero cfg.tol amount = false) (hp : s.price = some p) (hpz : isZero cfg.tol p = false)
    (hq : isZero cfg.tol (allocQ0 cfg s p amount) = false)
    (he : allocQ0 cfg s p amount = -s.position) :
    allocQuantity cfg comm s amount = .ok (some (-s.position)) := by
  unfold allocQuantity; simp [hz, hp, hpz, he, eqA_self]
  rw [isZero_neg, ← isZero_neg, ← he, hq]; simp; rfl

theorem allocQuantity_loop (cfg : Cfg K) (comm : K → K → K) (s : SecData K) (amount p : K)
    (hz : isZero cfg.tol amount = false) (hp : s.price = some p) (hpz : isZero cfg.tol p = false)
    (hq : isZero cfg.tol (allocQ0 cfg s p amount) = false)
    (he : allocQ0 cfg s p amount ≠ -s.position) :
    allocQuantity cfg comm s amount =
      (fullOut cfg comm s (allocQ0 cfg s p amount)).bind fun full0 =>
        (sizeLoop cfg (fullOut cfg comm s) (p * s.mult) amount s.integer (cfg.iterCap + 2) 0
          (allocQ0 cfg s p amount) (allocQ0 cfg s p amount) full0 (full0 - amount)).map some := by
  unfold allocQuantity
  have he' : eqA (allocQ0 cfg s p amount) (-s.position) = false := (eqA_false_iff _ _).2 he
  simp only [hz, hp, hpz, hq, he', Bool.false_eq_true, ↓reduceIte]
  rfl

end forward

section zerocost
variable {K : Type} [Field K] [LinearOrder K] [IsStrictOrderedRing K] [HasFloor K] [FloorRing K]

theorem fullOutF_zero_cost (cfg : Cfg K) (comm : K → K → K) (s : SecData K) (p : K)
    (hcomm : ∀ q x, comm q x = 0) (q : K) : fullOutF cfg comm s p 0 q = q * (p * s.mult) := by
  unfold fullOutF; rw [hcomm]; ring

/-- No commission, no spread, positive amount, long or flat whole-unit position: `allocate` trades
    nothing, or closes the long position (shortcut), or buys exactly `⌊amount / (price·mult)⌋`; it never
    raises. -/
theorem allocQuantity_zero_cost (hfloor : ∀ x : K, floorA x = (⌊x⌋ : K))
    (cfg : Cfg K) (comm : K → K → K) (s : SecData K) (amount p : K)
    (hatol : 0 ≤ cfg.atol) (htol : 0 ≤ cfg.tol)
    (hint : s.integer = true) (hp : s.price = some p) (hpz : isZero cfg.tol p = false)
    (hb : s.bidoffer = some 0) (hcomm : ∀ q x, comm q x = 0) (hP : 0 < p * s.mult)
    (hamt : 0 < amount) (hlong : 0 < s.position ∨ isZero cfg.tol s.position = true) :
    allocQuantity cfg comm s amount = .ok none ∨
    (allocQuantity cfg comm s amount = .ok (some (-s.position)) ∧ 0 < s.position) ∨
    allocQuantity cfg comm s amount = .ok (some ((⌊amount / (p * s.mult)⌋ : ℤ) : K)) := by
  by_cases hz : isZero cfg.tol amount = true
  · left; unfold allocQuantity; simp [hz]; rfl
  have hz : isZero cfg.tol amount = false := by simpa using hz
  by_cases hq : isZero cfg.tol (allocQ0 cfg s p amount) = true
  · left; exact allocQuantity_q0_zero cfg comm s amount p hz hp hpz hq
  have hq : isZero cfg.tol (allocQ0 cfg s p amount) = false := by simpa using hq
  by_cases hc : isZero cfg.tol (amount + s.value) = true
  · -- close-out shortcut
    have hq0 : allocQ0 cfg s p amount = -s.position := by unfold allocQ0; simp [hc]
    right; left
    refine ⟨allocQuantity_skip cfg comm s amount p hz hp hpz hq hq0, ?_⟩
    rcases hlong with h | h
    · exact h
    · rw [hq0, isZero_neg, h] at hq; cases hq
  have hc : isZero cfg.tol (amount + s.value) = false := by simpa using hc
  have hq0 : allocQ0 cfg s p amount = ((⌊amount / (p * s.mult)⌋ : ℤ) : K) := by
    unfold allocQ0
    have : (decide (0 < s.position) || isZero cfg.tol s.position && decide (0 < amount)) = true := by
      rcases hlong with h | h
      · simp [h]
      · simp [h, hamt]
    simp only [hc, Bool.false_eq_true, ↓reduceIte, hint, this, hfloor]
  right; right
  by_cases he : allocQ0 cfg s p amount = -s.position
  · rw [allocQuantity_skip cfg comm s amount p hz hp hpz hq he, ← he, hq0]
  rw [allocQuantity_loop cfg comm s amount p hz hp hpz hq he, hq0,
    fullOut_funext cfg comm s p 0 hp hb, hint]
  simp only [Except.bind]
  set n : K := ((⌊amount / (p * s.mult)⌋ : ℤ) : K) with hn
  have hle : n * (p * s.mult) ≤ amount := by
    have := Int.floor_le (amount / (p * s.mult))
    exact (le_div_iff₀ hP).1 this
  have hlt : amount < (n + 1) * (p * s.mult) := by
    have := Int.lt_floor_add_one (amount / (p * s.mult))
    exact (div_lt_iff₀ hP).1 this
  rw [fullOutF_zero_cost cfg comm s p hcomm]
  by_cases h0 : (isClose cfg.atol cfg.tol (n * (p * s.mult)) amount || eqA n 0) = true
  · rw [sizeLoop_head cfg _ _ _ _ _ _ _ _ _ _ h0]; rfl
  have h0 : (isClose cfg.atol cfg.tol (n * (p * s.mult)) amount || eqA n 0) = false := by
    simpa using h0
  have hq1 : n - (n * (p * s.mult) - amount) / (p * s.mult) = amount / (p * s.mult) := by
    rw [sub_div, mul_div_cancel_right₀ _ (ne_of_gt hP)]; ring
  have hfl : floorA (n - (n * (p * s.mult) - amount) / (p * s.mult)) = n := by
    rw [hq1, hfloor]
  have hne : n * (p * s.mult) ≠ amount := by
    intro heq
    have : isClose cfg.atol cfg.tol (n * (p * s.mult)) amount = true := by
      rw [isClose_iff, heq, sub_self, abs_zero]
      have := abs_nonneg amount
      positivity
    rw [this] at h0; simp at h0
  rw [sizeLoop_break_int cfg (fullOutF cfg comm s p 0) _ _ _ _ _ _ _ _ h0]
  · rw [hfl]; rfl
  · rw [hfl, fullOutF_zero_cost cfg comm s p hcomm]; exact lt_of_le_of_ne hle hne
  · rw [hfl, fullOutF_zero_cost cfg comm s p hcomm]; exact hlt

end zerocost

section flatfee
variable {K : Type} [Field K] [LinearOrder K] [IsStrictOrderedRing K] [HasFloor K] [FloorRing K]

theorem fullOutF_flat_fee (cfg : Cfg K) (comm : K → K → K) (s : SecData K) (p c : K)
    (hcomm : ∀ q x, comm q x = c) (q : K) : fullOutF cfg comm s p 0 q = q * (p * s.mult) + c := by
  unfold fullOutF; rw [hcomm]; ring

/-- A flat fee `c` per trade (any sign; `c = 0` is "no commission"), no spread, whole units, any
    position and either sign of the amount: the search never raises, and what it returns is the
    unchecked `-position`, or a quantity whose cost is `isclose` to the amount, or
    `⌊(amount − c)/(price·mult)⌋` with `cost q' < amount < cost (q'+1)`. -/
theorem allocQuantity_flat_fee (hfloor : ∀ x : K, floorA x = (⌊x⌋ : K))
    (cfg : Cfg K) (comm : K → K → K) (s : SecData K) (amount p c : K)
    (hatol : 0 ≤ cfg.atol) (htol : 0 < cfg.tol) (hcap : 1 ≤ cfg.iterCap)
    (hint : s.integer = true) (hp : s.price = some p) (hpz : isZero cfg.tol p = false)
    (hb : s.bidoffer = some 0) (hcomm : ∀ q x, comm q x = c) (hP : 0 < p * s.mult) :
    allocQuantity cfg comm s amount = .ok none ∨
    allocQuantity cfg comm s amount = .ok (some (-s.position)) ∨
    (∃ q', allocQuantity cfg comm s amount = .ok (some q') ∧
      isClose cfg.atol cfg.tol (q' * (p * s.mult) + c) amount = true) ∨
    (allocQuantity cfg comm s amount = .ok (some ((⌊(amount - c) / (p * s.mult)⌋ : ℤ) : K)) ∧
      ((⌊(amount - c) / (p * s.mult)⌋ : ℤ) : K) * (p * s.mult) + c < amount ∧
      amount < (((⌊(amount - c) / (p * s.mult)⌋ : ℤ) : K) + 1) * (p * s.mult) + c) := by
  by_cases hz : isZero cfg.tol amount = true
  · left; unfold allocQuantity; simp [hz]; rfl
  have hz : isZero cfg.tol amount = false := by simpa using hz
  by_cases hq : isZero cfg.tol (allocQ0 cfg s p amount) = true
  · left; exact allocQuantity_q0_zero cfg comm s amount p hz hp hpz hq
  have hq : isZero cfg.tol (allocQ0 cfg s p amount) = false := by simpa using hq
  by_cases he : allocQ0 cfg s p amount = -s.position
  · right; left; exact allocQuantity_skip cfg comm s amount p hz hp hpz hq he
  right; right
  rw [allocQuantity_loop cfg comm s amount p hz hp hpz hq he,
    fullOut_funext cfg comm s p 0 hp hb, hint]
  simp only [Except.bind]
  set q0 : K := allocQ0 cfg s p amount with hq0
  have hq0ne : q0 ≠ 0 := by
    intro h0; rw [h0] at hq
    have : isZero cfg.tol (0 : K) = true := by rw [isZero_iff, abs_zero]; exact htol
    rw [this] at hq; cases hq
  rw [fullOutF_flat_fee cfg comm s p c hcomm]
  by_cases h0 : (isClose cfg.atol cfg.tol (q0 * (p * s.mult) + c) amount || eqA q0 0) = true
  · left
    refine ⟨q0, ?_, ?_⟩
    · rw [sizeLoop_head cfg _ _ _ _ _ _ _ _ _ _ h0]; rfl
    · rcases Bool.or_eq_true_iff.1 h0 with h | h
      · exact h
      · exact absurd ((eqA_iff _ _).1 h) hq0ne
  have h0 : (isClose cfg.atol cfg.tol (q0 * (p * s.mult) + c) amount || eqA q0 0) = false := by
    simpa using h0
  set m : K := ((⌊(amount - c) / (p * s.mult)⌋ : ℤ) : K) with hm
  have hq1 : q0 - (q0 * (p * s.mult) + c - amount) / (p * s.mult) = (amount - c) / (p * s.mult) := by
    rw [add_sub_assoc, add_div, mul_div_cancel_right₀ _ (ne_of_gt hP), ← neg_sub amount c, neg_div]
    ring
  have hfl : floorA (q0 - (q0 * (p * s.mult) + c - amount) / (p * s.mult)) = m := by
    rw [hq1, hfloor]
  have hle : m * (p * s.mult) + c ≤ amount := by
    have := (le_div_iff₀ hP).1 (Int.floor_le ((amount - c) / (p * s.mult)))
    linarith
  have hlt : amount < (m + 1) * (p * s.mult) + c := by
    have := (div_lt_iff₀ hP).1 (Int.lt_floor_add_one ((amount - c) / (p * s.mult)))
    linarith
  have hclose_self : ∀ x : K, isClose cfg.atol cfg.tol x x = true := by
    intro x
    rw [isClose_iff, sub_self, abs_zero]
    have := abs_nonneg x
    have := le_of_lt htol
    positivity
  by_cases hlt' : m * (p * s.mult) + c < amount
  · right
    refine ⟨?_, hlt', hlt⟩
    rw [sizeLoop_break_int cfg (fullOutF cfg comm s p 0) _ _ _ _ _ _ _ _ h0]
    · rw [hfl]; rfl
    · rw [hfl, fullOutF_flat_fee cfg comm s p c hcomm]; exact hlt'
    · rw [hfl, fullOutF_flat_fee cfg comm s p c hcomm]; exact hlt
  · have heq : m * (p * s.mult) + c = amount := le_antisymm hle (not_lt.1 hlt')
    left
    refine ⟨m, ?_, by rw [heq]; exact hclose_self _⟩
    rw [sizeLoop_step_int cfg (fullOutF cfg comm s p 0) _ _ _ _ _ _ _ _ h0]
    · rw [hfl, fullOutF_flat_fee cfg comm s p c hcomm, heq]
      rw [sizeLoop_head cfg _ _ _ _ _ _ _ _ _ _ (by rw [hclose_self]; rfl)]; rfl
    · rw [hfl, fullOutF_flat_fee cfg comm s p c hcomm]; exact fun h => hlt' h.1
    · omega
    · rw [hfl]
      intro h
      rw [h, heq, hclose_self] at h0
      simp at h0
    · rw [hfl, fullOutF_flat_fee cfg comm s p c hcomm, heq, sub_self, absA_eq_abs, absA_eq_abs,
        abs_zero]
      exact not_lt.2 (abs_nonneg _)

end flatfee

section fractional
variable {K : Type} [Field K] [LinearOrder K] [IsStrictOrderedRing K] [HasFloor K]

/-- one full turn of the fractional search that does not raise -/
theorem sizeLoop_step_frac (cfg : Cfg K) (f : K → K) (pm amount : K) (n i : Nat)
    (q lastQ full lastShort : K)
    (h0 : (isClose cfg.atol cfg.tol full amount || eqA q 0) = false)
    (hcap : ¬ cfg.iterCap < i + 1)
    (hdv : ¬ absA lastShort < absA (f (q - (full - amount) / pm) - amount)) :
    sizeLoop cfg (fun x => .ok (f x)) pm amount false (n + 1) i q lastQ full lastShort
      = sizeLoop cfg (fun x => .ok (f x)) pm amount false n (i + 1)
          (q - (full - amount) / pm) (q - (full - amount) / pm)
          (f (q - (full - amount) / pm)) (f (q - (full - amount) / pm) - amount) := by
  conv_lhs => unfold sizeLoop
  simp only [h0, Bool.false_eq_true, ↓reduceIte, Except.bind, pure, Except.pure, hcap,
    Bool.false_and, hdv]

/-- Fractional search on a region `Inv` where the outlay is linear with slope `c` and which the Newton
    step (computed with slope `pm`) preserves: the error is multiplied by `ρ = 1 − c/pm` each turn, so
    `N` turns suffice as soon as `|ρ|^N · |error| ≤ atol + tol·|amount|`; no raise on the way. -/
theorem sizeLoop_frac_converges (cfg : Cfg K) (f : K → K) (pm amount c ρ : K) (Inv : K → Prop)
    (hpm : pm ≠ 0)
    (hlin : ∀ q, Inv q → f q = c * q)
    (hstep : ∀ q, Inv q → Inv (q - (c * q - amount) / pm))
    (hρ : 1 - c / pm = ρ) (hρ1 : |ρ| ≤ 1) :
    ∀ (N fuel i : Nat) (q lastQ : K), Inv q → N < fuel → i + N ≤ cfg.iterCap →
      |ρ| ^ N * |c * q - amount| ≤ cfg.atol + cfg.tol * |amount| →
      ∃ q', Inv q' ∧
        sizeLoop cfg (fun x => .ok (f x)) pm amount false fuel i q lastQ (c * q) (c * q - amount)
          = .ok q' := by
  intro N
  induction N with
  | zero =>
    intro fuel i q lastQ hinv hfuel _ herr
    obtain ⟨n, rfl⟩ : ∃ n, fuel = n + 1 := ⟨fuel - 1, by omega⟩
    refine ⟨q, hinv, ?_⟩
    apply sizeLoop_head
    rw [pow_zero, one_mul] at herr
    rw [(isClose_iff _ _ _ _).2 herr]; rfl
  | succ N ih =>
    intro fuel i q lastQ hinv hfuel hi herr
    obtain ⟨n, rfl⟩ : ∃ n, fuel = n + 1 := ⟨fuel - 1, by omega⟩
    by_cases h0 : (isClose cfg.atol cfg.tol (c * q) amount || eqA q 0) = true
    · exact ⟨q, hinv, sizeLoop_head cfg _ _ _ _ _ _ _ _ _ _ h0⟩
    have h0 : (isClose cfg.atol cfg.tol (c * q) amount || eqA q 0) = false := by simpa using h0
    have hinv2 := hstep q hinv
    have hf2 : f (q - (c * q - amount) / pm) = c * (q - (c * q - amount) / pm) := hlin _ hinv2
    have herr2 : c * (q - (c * q - amount) / pm) - amount = ρ * (c * q - amount) := by
      rw [← hρ]; field_simp; ring
    rw [sizeLoop_step_frac cfg f pm amount n i q lastQ (c * q) (c * q - amount) h0 (by omega)]
    · rw [hf2]
      apply ih n (i + 1) _ _ hinv2 (by omega) (by omega)
      rw [herr2, abs_mul, ← mul_assoc, ← pow_succ]
      exact herr
    · rw [hf2, herr2, absA_eq_abs, absA_eq_abs, abs_mul, not_lt]
      calc |ρ| * |c * q - amount| ≤ 1 * |c * q - amount| :=
            mul_le_mul_of_nonneg_right hρ1 (abs_nonneg _)
        _ = _ := one_mul _

/-- Per-unit costs `κ·|q|` on top of `q·P` (commission `k` per unit plus half the spread), fractional
    units: if `(κ/P)^(iterCap+1) ≤ TOL` the search returns without raising, a quantity of the sign of
    the amount. -/
theorem sizeLoop_frac_perunit (cfg : Cfg K) (f : K → K) (P κ amount : K)
    (hatol : 0 ≤ cfg.atol) (hP : 0 < P) (hκ0 : 0 ≤ κ) (hκ : κ < P)
    (hf : ∀ q, f q = q * P + |q| * κ) (hA : amount ≠ 0)
    (hrate : (κ / P) ^ (cfg.iterCap + 1) ≤ cfg.tol) :
    ∃ q', (0 < amount ↔ 0 < q') ∧ q' ≠ 0 ∧
      sizeLoop cfg (fun x => .ok (f x)) P amount false (cfg.iterCap + 2) 0 (amount / P) (amount / P)
        (f (amount / P)) (f (amount / P) - amount) = .ok q' := by
  have hr0 : 0 ≤ κ / P := div_nonneg hκ0 (le_of_lt hP)
  have hr1 : κ / P < 1 := (div_lt_one hP).2 hκ
  have hPne : P ≠ 0 := ne_of_gt hP
  rcases lt_or_gt_of_ne hA with hneg | hpos
  · -- selling: every iterate is negative, slope `P − κ`
    have hlin : ∀ q, q < 0 → f q = (P - κ) * q := fun q hq => by
      rw [hf, abs_of_neg hq]; ring
    have hstep : ∀ q, q < 0 → q - ((P - κ) * q - amount) / P < 0 := fun q hq => by
      have : q - ((P - κ) * q - amount) / P = amount / P + κ / P * q := by field_simp; ring
      rw [this]
      have h1 : amount / P < 0 := div_neg_of_neg_of_pos hneg hP
      have h2 : κ / P * q ≤ 0 := mul_nonpos_of_nonneg_of_nonpos hr0 (le_of_lt hq)
      linarith
    have hq0 : amount / P < 0 := div_neg_of_neg_of_pos hneg hP
    have hρ : 1 - (P - κ) / P = κ / P := by field_simp; ring
    obtain ⟨q', hq', h⟩ := sizeLoop_frac_converges cfg f P amount (P - κ) (κ / P) (fun q => q < 0)
      hPne hlin hstep hρ (by rw [abs_of_nonneg hr0]; exact le_of_lt hr1)
      cfg.iterCap (cfg.iterCap + 2) 0 (amount / P) (amount / P) hq0 (by omega) (by omega) (by
        have : (P - κ) * (amount / P) - amount = -(κ / P) * amount := by field_simp; ring
        rw [this, abs_mul, abs_neg, ← mul_assoc, ← pow_succ, abs_of_nonneg hr0]
        have := mul_le_mul_of_nonneg_right hrate (abs_nonneg amount)
        linarith)
    refine ⟨q', ⟨fun h' => absurd h' (not_lt.2 (le_of_lt hneg)), fun h' => absurd h' (not_lt.2 (le_of_lt hq'))⟩,
      ne_of_lt hq', ?_⟩
    rw [hlin _ hq0]; exact h
  · -- buying: iterates stay in `(0, amount/P]`, slope `P + κ`
    have hlin : ∀ q, (0 < q ∧ q ≤ amount / P) → f q = (P + κ) * q := fun q hq => by
      rw [hf, abs_of_pos hq.1]; ring
    have hq0 : 0 < amount / P := div_pos hpos hP
    have hstep : ∀ q, (0 < q ∧ q ≤ amount / P) →
        (0 < q - ((P + κ) * q - amount) / P ∧ q - ((P + κ) * q - amount) / P ≤ amount / P) :=
      fun q hq => by
        have : q - ((P + κ) * q - amount) / P = amount / P - κ / P * q := by field_simp; ring
        rw [this]
        have h1 : 0 ≤ κ / P * q := mul_nonneg hr0 (le_of_lt hq.1)
        have h2 : κ / P * q ≤ κ / P * (amount / P) := mul_le_mul_of_nonneg_left hq.2 hr0
        have h3 : κ / P * (amount / P) < 1 * (amount / P) := mul_lt_mul_of_pos_right hr1 hq0
        constructor <;> linarith
    have hρ : 1 - (P + κ) / P = -(κ / P) := by field_simp; ring
    obtain ⟨q', hq', h⟩ := sizeLoop_frac_converges cfg f P amount (P + κ) (-(κ / P))
      (fun q => 0 < q ∧ q ≤ amount / P)
      hPne hlin hstep hρ (by rw [abs_neg, abs_of_nonneg hr0]; exact le_of_lt hr1)
      cfg.iterCap (cfg.iterCap + 2) 0 (amount / P) (amount / P) ⟨hq0, le_refl _⟩ (by omega) (by omega) (by
        have : (P + κ) * (amount / P) - amount = (κ / P) * amount := by field_simp; ring
        rw [this, abs_mul, abs_neg, ← mul_assoc, ← pow_succ, abs_of_nonneg hr0]
        have := mul_le_mul_of_nonneg_right hrate (abs_nonneg amount)
        linarith)
    refine ⟨q', ⟨fun _ => hq'.1, fun _ => hpos⟩, ne_of_gt hq'.1, ?_⟩
    rw [hlin _ ⟨hq0, le_refl _⟩]; exact h

end fractional

/-! Concrete data over `ℚ` used by the satisfiability examples and the counter-witnesses. -/
section concrete

/-- The constants of the live module: `TOL = 1e-16`, `np.isclose` `atol = 1e-8`, cap `10^4`. -/
def cfgQ : Cfg Rat :=
  { tol := 1/10^16, par := 100, atol := 1/10^8, half := 1/2, one := 1, iterCap := 10000 }

/-- A refreshed plain security (on date 1, no pending update). -/
def mkSec (integer : Bool) (mult : Rat) (price : Option Rat) (value position bo : Rat) : SecData Rat :=
  { name := "a", kind := .plain, fixedIncome := false, integer := integer, bidofferSet := false,
    mult := mult, now := some 1, price := price, value := value, notl := value, weight := 0,
    position := position, lastPos := position, outlayAcc := 0, bidoffer := some bo, bidofferPaid := 0,
    capital := 0, coupon := 0, holdingCost := 0, needupdate := false,
    prices := [], bidoffers := [], coupons := [], costLong := none, costShort := none,
    rValue := [], rPosition := [], rNotl := [], rOutlay := [], rBidofferPaid := [], rCoupon := [],
    rHolding := [] }

/-- no commission -/
def commZero : Rat → Rat → Rat := fun _ _ => 0
/-- `k` per unit traded -/
def commPerShare (k : Rat) : Rat → Rat → Rat := fun q _ => k * absA q
/-- a fraction `r` of the traded value -/
def commProp (r : Rat) : Rat → Rat → Rat := fun q p => r * (absA q * p)
/-- minimum fee: `max(m, k·|q|)` (the example quoted in the code's own comment is `max(1, 0.01|q|)`) -/
def commMinFee (m k : Rat) : Rat → Rat → Rat := fun q _ => if m < k * absA q then k * absA q else m

/-- What a trade did, in comparable form: new position and the (cash amount, fee) sent to the parent. -/
def tradeView (r : Except Err (SecData Rat × Option (Adj Rat))) : Except Err (Rat × Option (Rat × Rat)) :=
  r.map fun x => (x.1.position, x.2.map fun a => (a.amount, a.fee))

/-- On `ℚ` the model's `floorA` / `ceilA` are the real floor and ceiling. -/
theorem rat_hfloor : ∀ x : Rat, floorA x = ((⌊x⌋ : ℤ) : Rat) := fun _ => rfl
theorem rat_hceil : ∀ x : Rat, ceilA x = ((⌈x⌉ : ℤ) : Rat) := fun x => by
  show ((Rat.ceil x : ℤ) : Rat) = _
  congr 1
  rw [Rat.ceil_eq_neg_floor_neg]; rfl

end concrete

end Bt.Alloc
