import Bt.Proofs.Reach
/-! World invariants with a strategy part and restricted trade quantities: a predicate `Q` on strategy
    data and `I` on securities, where `transact` need only preserve `I` for quantities in `Qty`
    (e.g. whole units), are preserved by the operations that only trade such quantities. -/
namespace Bt
set_option linter.unusedSectionVars false
variable {K : Type} [Field K] [LinearOrder K] [IsStrictOrderedRing K] [HasFloor K]

/-- `Q` at every strategy, `I` at every security -/
def AllNodes (Q : StratData K → Prop) (I : SecData K → Prop) : Node K → Prop := TreeAll (fun sd _ => Q sd) I
def AllNodesKids (Q : StratData K → Prop) (I : SecData K → Prop) : List (Node K) → Prop :=
  TreeAllKids (fun sd _ => Q sd) I

@[simp] theorem AllNodes_sec (Q : StratData K → Prop) (I : SecData K → Prop) (s : SecData K) :
    AllNodes Q I (.sec s) ↔ I s := by simp [AllNodes, TreeAll]
@[simp] theorem AllNodes_strat (Q : StratData K → Prop) (I : SecData K → Prop) (sd : StratData K)
    (kids : List (Node K)) : AllNodes Q I (.strat sd kids) ↔ Q sd ∧ AllNodesKids Q I kids := by
  simp [AllNodes, AllNodesKids, TreeAll]
@[simp] theorem AllNodesKids_nil (Q : StratData K → Prop) (I : SecData K → Prop) :
    AllNodesKids Q I ([] : List (Node K)) ↔ True := by simp [AllNodesKids, TreeAllKids]
@[simp] theorem AllNodesKids_cons (Q : StratData K → Prop) (I : SecData K → Prop) (k : Node K)
    (ks : List (Node K)) : AllNodesKids Q I (k :: ks) ↔ AllNodes Q I k ∧ AllNodesKids Q I ks := by
  simp [AllNodes, AllNodesKids, TreeAllKids]

theorem AllNodesKids.getElem? {Q : StratData K → Prop} {I : SecData K → Prop} :
    ∀ {l : List (Node K)}, AllNodesKids Q I l → ∀ {i : Nat} {k : Node K}, l[i]? = some k → AllNodes Q I k := by
  intro l
  induction l with
  | nil => intro _ i k hk; simp at hk
  | cons x xs ih =>
    intro h i k hk
    simp only [AllNodesKids_cons] at h
    cases i with
    | zero => simp at hk; subst hk; exact h.1
    | succ j => simp at hk; exact ih h.2 hk

theorem AllNodesKids.set {Q : StratData K → Prop} {I : SecData K → Prop} :
    ∀ {l : List (Node K)} (i : Nat) {k : Node K}, AllNodesKids Q I l → AllNodes Q I k →
      AllNodesKids Q I (l.set i k) := by
  intro l
  induction l with
  | nil => intro i k h _; simp
  | cons x xs ih =>
    intro i k h hk
    simp only [AllNodesKids_cons] at h
    cases i with
    | zero => simp only [List.set_cons_zero, AllNodesKids_cons]; exact ⟨hk, h.2⟩
    | succ j => simp only [List.set_cons_succ, AllNodesKids_cons]; exact ⟨h.1, ih j h.2 hk⟩

/-- the invariant `(Q, I)` with trade quantities restricted to `Qty` -/
structure TreeInv (cfg : Cfg K) (Q : StratData K → Prop) (I : SecData K → Prop) (Qty : K → Prop) : Prop where
  update : ∀ d s s', I s → secUpdate cfg d s = .ok s' → I s'
  transact : ∀ comm s q custom s' a, Qty q → I s → secTransactCore cfg comm s q custom = .ok (s', a) → I s'
  allocQty : ∀ comm s amount q, I s → allocQuantity cfg comm s amount = .ok (some q) → Qty q
  closeQty : ∀ s, I s → Qty (-s.position)
  capital : ∀ s c, I s → I { s with capital := c }
  weight : ∀ s w, I s → I { s with weight := w }
  adjust : ∀ sd a, Q sd → Q (StratData.adjust sd a)
  sweight : ∀ sd w, Q sd → Q { sd with weight := w }
  step : ∀ d sd kids sd' kids', Q sd → updNode cfg d (.strat sd kids) = .ok (.strat sd' kids') → Q sd'
  bankrupt : ∀ d sd c, Q sd → Q { stratPre d sd c with bankrupt := true }

section
variable {cfg : Cfg K} {Q : StratData K → Prop} {I : SecData K → Prop} {Qty : K → Prop}

theorem TreeInv.keep_fold (hT : TreeInv cfg Q I Qty) :
    ∀ (adjs : List (Adj K)) (sd : StratData K), Q sd → Q (adjs.foldl StratData.adjust sd) := by
  intro adjs
  induction adjs with
  | nil => intro sd h; exact h
  | cons a as ih => intro sd h; exact ih _ (hT.adjust sd a h)

theorem TreeInv.keep_secRefresh (hT : TreeInv cfg Q I Qty) {pn : Option Nat} {s s' : SecData K} (hs : I s)
    (h : secRefresh cfg pn s = .ok s') : I s' := by
  unfold secRefresh at h
  split at h
  · cases pn with
    | none => cases h
    | some d => exact hT.update d s s' hs h
  · cases (Except.pure_eq_ok h); exact hs

theorem TreeInv.keep_secAllocate (hT : TreeInv cfg Q I Qty) {pn : Option Nat} {comm : K → K → K}
    {s s' : SecData K} {amount : K} {a : Option (Adj K)} (hs : I s)
    (h : secAllocate cfg pn comm s amount = .ok (s', a)) : I s' := by
  unfold secAllocate at h
  obtain ⟨s1, h1, h⟩ := Except.bind_eq_ok h
  obtain ⟨oq, hq, h⟩ := Except.bind_eq_ok h
  have hs1 := hT.keep_secRefresh hs h1
  cases oq with
  | none => cases (Except.pure_eq_ok h); exact hs1
  | some q => exact hT.transact _ _ _ _ _ _ (hT.allocQty _ _ _ _ hs1 hq) hs1 h

theorem secRefresh_position {pn : Option Nat} {s s' : SecData K} (h : secRefresh cfg pn s = .ok s') :
    s'.position = s.position := (secRefresh_quietStep h).position

theorem TreeInv.keep_secTransact (hT : TreeInv cfg Q I Qty) {pn : Option Nat} {comm : K → K → K}
    {s s' : SecData K} {q : K} {upd : Bool} {custom : Option K} {a : Option (Adj K)} (hq : Qty q) (hs : I s)
    (h : secTransact cfg pn comm s q upd custom = .ok (s', a)) : I s' := by
  unfold secTransact at h
  obtain ⟨s1, h1, h⟩ := Except.bind_eq_ok h
  have hs1 : I s1 := by
    cases upd
    · cases (Except.pure_eq_ok h1); exact hs
    · exact hT.keep_secRefresh hs h1
  exact hT.transact _ _ _ _ _ _ hq hs1 h

theorem TreeInv.keep_sweep (hT : TreeInv cfg Q I Qty) (newpt : Bool) (s : SecData K) (acc : Acc K) (hs : I s) :
    I (sweepSec newpt s acc).1 := by
  rw [sweepSec_fst]; split
  · exact hT.capital s 0 hs
  · exact hs

theorem TreeInv.keep_updNode (hT : TreeInv cfg Q I Qty) {d : Nat} :
    (∀ n n' : Node K, AllNodes Q I n → updNode cfg d n = .ok n' → AllNodes Q I n') ∧
    (∀ (ks : List (Node K)) newpt bo acc out, AllNodesKids Q I ks → updKids cfg d newpt bo ks acc = .ok out →
      AllNodesKids Q I out.1) := by
  have hr := updNode_treeRel (cfg := cfg) (d := d) (P := fun sd _ sd' _ => Q sd → Q sd')
    (S := fun s s' => I s → I s')
    (fun sd kids sd' kids' h hq => hT.step d sd kids sd' kids' hq h)
    (fun _ _ sd' _ w h hq => hT.sweight sd' w (h hq))
    (fun newpt s acc s' h hs => hT.update d _ s' (hT.keep_sweep newpt s acc hs) h)
    (fun newpt s acc _ hs => hT.keep_sweep newpt s acc hs)
    (fun s s' w h hs => hT.weight s' w (h hs))
  have ht := TreeRel.transferAll (P := fun sd _ sd' _ => Q sd → Q sd') (S := fun s s' => I s → I s')
    (QA := Q) (QB := Q) (A := I) (B := I) (fun _ _ _ _ h ha => h ha) (fun _ _ h ha => h ha)
  exact ⟨fun n n' ha h => ht.1 n n' (hr.1 n n' h) ha,
    fun ks newpt bo acc out ha h => ht.2 ks out.1 (hr.2 ks newpt bo acc out h) ha⟩

theorem TreeInv.keep_allocNode (hT : TreeInv cfg Q I Qty) :
    (∀ (n : Node K) pn comm amount r, AllNodes Q I n → allocNode cfg pn comm amount n = .ok r →
      AllNodes Q I r.1) ∧
    (∀ (ks : List (Node K)) amount sd r, AllNodesKids Q I ks → Q sd → allocKids cfg amount ks sd = .ok r →
      Q r.1 ∧ AllNodesKids Q I r.2) := by
  apply Node.induct
  · intro s pn comm amount r ha h
    rw [allocNode] at h
    obtain ⟨⟨s', a⟩, h1, rfl⟩ := Except.map_eq_ok h
    simp only [AllNodes_sec] at *
    exact hT.keep_secAllocate ha h1
  · intro sd kids ih pn comm amount r ha h
    rw [allocNode] at h
    obtain ⟨⟨sd2, kids2⟩, h1, rfl⟩ := Except.map_eq_ok h
    simp only [AllNodes_strat] at *
    exact ih _ _ _ ha.2 (hT.adjust _ _ ha.1) h1
  · intro amount sd r _ hq h
    rw [allocKids] at h
    cases (Except.pure_eq_ok h); exact ⟨hq, by simp⟩
  · intro k ks ihk ihks amount sd r ha hq h
    rw [allocKids] at h
    obtain ⟨⟨k', adjs⟩, h1, h⟩ := Except.bind_eq_ok h
    obtain ⟨⟨sd'', ks'⟩, h2, rfl⟩ := Except.map_eq_ok h
    simp only [AllNodesKids_cons] at *
    obtain ⟨hq2, hk2⟩ := ihks _ _ _ ha.2 (hT.keep_fold adjs sd hq) h2
    exact ⟨hq2, ihk _ _ _ _ ha.1 h1, hk2⟩

theorem TreeInv.keep_transNode (hT : TreeInv cfg Q I Qty) (hall : ∀ q, Qty q) :
    (∀ (n : Node K) pn comm q custom r, AllNodes Q I n → transNode cfg pn comm q custom n = .ok r →
      AllNodes Q I r.1) ∧
    (∀ (ks : List (Node K)) q sd r, AllNodesKids Q I ks → Q sd → transKids cfg q ks sd = .ok r →
      Q r.1 ∧ AllNodesKids Q I r.2) := by
  apply Node.induct
  · intro s pn comm q custom r ha h
    rw [transNode] at h
    obtain ⟨⟨s', a⟩, h1, rfl⟩ := Except.map_eq_ok h
    simp only [AllNodes_sec] at *
    exact hT.keep_secTransact (hall q) ha h1
  · intro sd kids ih pn comm q custom r ha h
    rw [transNode] at h
    obtain ⟨⟨sd2, kids2⟩, h1, rfl⟩ := Except.map_eq_ok h
    simp only [AllNodes_strat] at *
    exact ih _ _ _ ha.2 ha.1 h1
  · intro q sd r _ hq h
    rw [transKids] at h
    cases (Except.pure_eq_ok h); exact ⟨hq, by simp⟩
  · intro k ks ihk ihks q sd r ha hq h
    rw [transKids] at h
    obtain ⟨⟨k', adjs⟩, h1, h⟩ := Except.bind_eq_ok h
    obtain ⟨⟨sd'', ks'⟩, h2, rfl⟩ := Except.map_eq_ok h
    simp only [AllNodesKids_cons] at *
    obtain ⟨hq2, hk2⟩ := ihks _ _ _ ha.2 (hT.keep_fold adjs sd hq) h2
    exact ⟨hq2, ihk _ _ _ _ _ ha.1 h1, hk2⟩

theorem TreeInv.keep_flattenKidsMV (hT : TreeInv cfg Q I Qty) :
    ∀ (ks : List (Node K)) sd r, AllNodesKids Q I ks → Q sd → flattenKidsMV cfg ks sd = .ok r →
      Q r.1 ∧ AllNodesKids Q I r.2 := by
  intro ks
  induction ks with
  | nil =>
    intro sd r _ hq h
    rw [flattenKidsMV] at h
    cases (Except.pure_eq_ok h); exact ⟨hq, by simp⟩
  | cons k ks ih =>
    intro sd r ha hq h
    rw [flattenKidsMV] at h
    simp only [AllNodesKids_cons] at ha
    split at h
    · obtain ⟨⟨sd'', ks'⟩, h2, rfl⟩ := Except.map_eq_ok h
      obtain ⟨hq2, hk2⟩ := ih _ _ ha.2 hq h2
      simp only [AllNodesKids_cons]
      exact ⟨hq2, ha.1, hk2⟩
    · obtain ⟨⟨k', adjs⟩, h1, h⟩ := Except.bind_eq_ok h
      obtain ⟨⟨sd'', ks'⟩, h2, rfl⟩ := Except.map_eq_ok h
      obtain ⟨hq2, hk2⟩ := ih _ _ ha.2 (hT.keep_fold adjs sd hq) h2
      simp only [AllNodesKids_cons]
      exact ⟨hq2, hT.keep_allocNode.1 _ _ _ _ _ ha.1 h1, hk2⟩

theorem TreeInv.keep_flattenKidsFI (hT : TreeInv cfg Q I Qty) :
    ∀ (ks : List (Node K)) sd r, AllNodesKids Q I ks → Q sd → flattenKidsFI cfg ks sd = .ok r →
      Q r.1 ∧ AllNodesKids Q I r.2 := by
  intro ks
  induction ks with
  | nil =>
    intro sd r _ hq h
    rw [flattenKidsFI] at h
    cases (Except.pure_eq_ok h); exact ⟨hq, by simp⟩
  | cons k ks ih =>
    intro sd r ha hq h
    cases k with
    | strat sdk kk => rw [flattenKidsFI] at h; cases h
    | sec s =>
      rw [flattenKidsFI] at h
      simp only [AllNodesKids_cons, AllNodes_sec] at ha
      split at h
      · obtain ⟨⟨sd'', ks'⟩, h2, rfl⟩ := Except.map_eq_ok h
        obtain ⟨hq2, hk2⟩ := ih _ _ ha.2 hq h2
        simp only [AllNodesKids_cons, AllNodes_sec]
        exact ⟨hq2, ha.1, hk2⟩
      · obtain ⟨⟨s', adj⟩, h1, h⟩ := Except.bind_eq_ok h
        obtain ⟨⟨sd'', ks'⟩, h2, rfl⟩ := Except.map_eq_ok h
        obtain ⟨hq2, hk2⟩ := ih _ _ ha.2 (hT.keep_fold adj.toList sd hq) h2
        simp only [AllNodesKids_cons, AllNodes_sec]
        exact ⟨hq2, hT.keep_secTransact (hT.closeQty s ha.1) ha.1 h1, hk2⟩

theorem TreeInv.keep_flattenStrat (hT : TreeInv cfg Q I Qty) {sd : StratData K} {kids : List (Node K)}
    {r : StratData K × List (Node K)} (ha : AllNodesKids Q I kids) (hq : Q sd)
    (h : flattenStrat cfg sd kids = .ok r) : Q r.1 ∧ AllNodesKids Q I r.2 := by
  unfold flattenStrat at h
  split at h
  · exact hT.keep_flattenKidsFI _ _ _ ha hq h
  · exact hT.keep_flattenKidsMV _ _ _ ha hq h

theorem TreeInv.keep_modAt (hT : TreeInv cfg Q I Qty)
    {f : Option (StratData K) → Node K → Except Err (OpRes K)}
    (hf : ∀ par n r, AllNodes Q I n → f par n = .ok r → AllNodes Q I r.1) :
    ∀ (path : List Nat) par (n : Node K) r, AllNodes Q I n → modAt f path par n = .ok r →
      AllNodes Q I r.1 := by
  intro path
  induction path with
  | nil => intro par n r ha h; rw [modAt] at h; exact hf par n r ha h
  | cons i rest ih =>
    intro par n r ha h
    cases n with
    | sec s => rw [modAt] at h; cases h
    | strat sd kids =>
      rw [modAt] at h
      split at h
      · cases h
      · rename_i k hk
        obtain ⟨⟨k', adjs, st⟩, h1, rfl⟩ := Except.map_eq_ok h
        simp only [AllNodes_strat] at *
        exact ⟨hT.keep_fold adjs sd ha.1, AllNodesKids.set i ha.2 (ih _ _ _ (ha.2.getElem? hk) h1)⟩

theorem TreeInv.keep_modify (hT : TreeInv cfg Q I Qty)
    {f : Option (StratData K) → Node K → Except Err (OpRes K)}
    (hf : ∀ par n r, AllNodes Q I n → f par n = .ok r → AllNodes Q I r.1) {w w' : World K} {path : List Nat}
    (ha : AllNodes Q I w.root) (h : w.modify path f = .ok w') : AllNodes Q I w'.root := by
  unfold World.modify at h
  obtain ⟨⟨r, adjs, st⟩, h1, rfl⟩ := Except.map_eq_ok h
  exact hT.keep_modAt hf path none w.root _ ha h1

theorem TreeInv.keep_refreshNB (hT : TreeInv cfg Q I Qty) {w w' : World K} (ha : AllNodes Q I w.root)
    (h : refreshNB cfg w = .ok w') : AllNodes Q I w'.root := by
  unfold refreshNB at h
  split at h
  · obtain ⟨n, hn, rfl⟩ := Except.map_eq_ok h
    exact hT.keep_updNode.1 _ _ ha hn
  · cases h

theorem TreeInv.keep_flattenAt (hT : TreeInv cfg Q I Qty) {rf : World K → Except Err (World K)}
    (hrf : ∀ w w', AllNodes Q I w.root → rf w = .ok w' → AllNodes Q I w'.root) :
    (∀ (n : Node K) path w w', AllNodes Q I w.root → flattenAt cfg rf n path w = .ok w' →
      AllNodes Q I w'.root) ∧
    (∀ (ks : List (Node K)) path i w w', AllNodes Q I w.root → flattenSubs cfg rf ks path i w = .ok w' →
      AllNodes Q I w'.root) := by
  apply Node.induct
  · intro s path w w' _ h
    rw [flattenAt] at h; cases h
  · intro sd kids ih path w w' ha h
    rw [flattenAt] at h
    obtain ⟨w1, h1, h⟩ := Except.bind_eq_ok h
    have ha1 := ih path 0 w w1 ha h1
    split at h
    · obtain ⟨w2, h2, h⟩ := Except.bind_eq_ok h
      have ha2 : AllNodes Q I w2.root := by
        split at h2
        · exact hrf _ _ ha1 h2
        · cases (Except.pure_eq_ok h2); exact ha1
      refine hT.keep_modify ?_ ha2 h
      intro par n r han hn
      cases n with
      | sec s => cases hn
      | strat sd2 ks2 =>
        obtain ⟨⟨sd', ks'⟩, hfl, rfl⟩ := Except.map_eq_ok hn
        simp only [AllNodes_strat] at *
        exact hT.keep_flattenStrat han.2 han.1 hfl
    · cases h
  · intro path i w w' ha h
    rw [flattenSubs] at h
    cases (Except.pure_eq_ok h); exact ha
  · intro k ks ihk ihks path i w w' ha h
    cases k with
    | sec s => rw [flattenSubs] at h; exact ihks _ _ _ _ ha h
    | strat sdk kk =>
      rw [flattenSubs] at h
      obtain ⟨w1, h1, h⟩ := Except.bind_eq_ok h
      exact ihks _ _ _ _ (ihk _ _ _ ha h1) h

/-- the tree on which `updRoot` redoes the update satisfies the invariant -/
theorem TreeInv.keep_updRoot_tree (hT : TreeInv cfg Q I Qty) {d : Nat} {w : World K} {n0 : Node K}
    (ha : AllNodes Q I w.root) (h0 : n0 = w.root ∨ BankruptTree cfg d w n0) : AllNodes Q I n0 := by
  rcases h0 with rfl | ⟨sd, kids, kids1, acc, wF, hroot, hk, _, _, _, _, hF, rfl⟩
  · exact ha
  · refine (hT.keep_flattenAt (rf := refreshNB cfg) (fun _ _ ha h => hT.keep_refreshNB ha h)).1 _ _ _ _ ?_ hF
    rw [hroot] at ha
    simp only [AllNodes_strat] at *
    exact ⟨hT.bankrupt d sd acc.coupons ha.1, hT.keep_updNode.2 _ _ _ _ _ ha.2 hk⟩

theorem TreeInv.keep_updRoot (hT : TreeInv cfg Q I Qty) {d : Nat} {w w' : World K} (ha : AllNodes Q I w.root)
    (h : updRoot cfg d w = .ok w') : AllNodes Q I w'.root := by
  obtain ⟨_, n0, hn, h0⟩ := updRoot_inv h
  exact hT.keep_updNode.1 _ _ (hT.keep_updRoot_tree ha h0) hn

theorem TreeInv.keep_refresh (hT : TreeInv cfg Q I Qty) {w w' : World K} (ha : AllNodes Q I w.root)
    (h : refresh cfg w = .ok w') : AllNodes Q I w'.root := by
  rcases refresh_inv h with ⟨_, rfl⟩ | ⟨_, d, _, hu⟩
  · exact ha
  · exact hT.keep_updRoot ha hu

theorem TreeInv.keep_opAdjust (hT : TreeInv cfg Q I Qty) {w w' : World K} {path : List Nat} {amount : K}
    {update flow : Bool} (ha : AllNodes Q I w.root) (h : opAdjust w path amount update flow = .ok w') :
    AllNodes Q I w'.root := by
  unfold opAdjust at h
  refine hT.keep_modify ?_ ha h
  intro par n r han hn
  cases n with
  | sec s => cases hn
  | strat sd kids =>
    cases (Except.pure_eq_ok hn)
    simp only [AllNodes_strat] at *
    exact ⟨hT.adjust _ _ han.1, han.2⟩

theorem TreeInv.keep_opAllocate (hT : TreeInv cfg Q I Qty) {w w' : World K} {path : List Nat} {amount : K}
    {update : Bool} (ha : AllNodes Q I w.root) (h : opAllocate cfg w path amount update = .ok w') :
    AllNodes Q I w'.root := by
  unfold opAllocate at h
  refine hT.keep_modify ?_ ha h
  intro par n r han hn
  cases par with
  | none =>
    cases n with
    | sec s => cases hn
    | strat sd kids =>
      obtain ⟨⟨sd2, kids2⟩, hk, rfl⟩ := Except.map_eq_ok hn
      simp only [AllNodes_strat] at *
      exact hT.keep_allocNode.2 _ _ _ _ han.2 (hT.adjust _ _ (hT.adjust _ _ han.1)) hk
  | some p =>
    cases n with
    | sec s =>
      obtain ⟨⟨s', a⟩, hk, rfl⟩ := Except.map_eq_ok hn
      simp only [AllNodes_sec] at *
      exact hT.keep_secAllocate han hk
    | strat sd kids =>
      obtain ⟨⟨n', adjs⟩, hk, rfl⟩ := Except.map_eq_ok hn
      exact hT.keep_allocNode.1 _ _ _ _ _ han hk

theorem TreeInv.keep_opTransact (hT : TreeInv cfg Q I Qty) (hall : ∀ q, Qty q) {w w' : World K}
    {path : List Nat} {q : K} {update : Bool} {custom : Option K} (ha : AllNodes Q I w.root)
    (h : opTransact cfg w path q update custom = .ok w') : AllNodes Q I w'.root := by
  unfold opTransact at h
  refine hT.keep_modify ?_ ha h
  intro par n r han hn
  cases n with
  | sec s =>
    cases par with
    | none => cases hn
    | some p =>
      obtain ⟨⟨s', a⟩, hk, rfl⟩ := Except.map_eq_ok hn
      simp only [AllNodes_sec] at *
      exact hT.keep_secTransact (hall q) han hk
  | strat sd kids =>
    have hn' : (transKids cfg q kids sd).map (fun x : StratData K × List (Node K) =>
        ((Node.strat x.1 x.2, [], update) : OpRes K)) = .ok r := by
      cases par <;> exact hn
    obtain ⟨⟨sd2, kids2⟩, hk, rfl⟩ := Except.map_eq_ok hn'
    simp only [AllNodes_strat] at *
    exact (hT.keep_transNode hall).2 _ _ _ _ han.2 han.1 hk

theorem AllNodes.get? : ∀ (path : List Nat) {n k : Node K}, AllNodes Q I n → n.get? path = some k →
    AllNodes Q I k := by
  intro path
  induction path with
  | nil => intro n k ha h; cases n <;> (simp only [Node.get?] at h; cases h; exact ha)
  | cons i rest ih =>
    intro n k ha h
    cases n with
    | sec s => simp [Node.get?] at h
    | strat sd kids =>
      simp only [Node.get?] at h
      split at h
      · cases h
      · rename_i c hc
        simp only [AllNodes_strat] at ha
        exact ih (ha.2.getElem? hc) h

/-- `modAt` where the operation may use that its argument is the node at `path` -/
theorem TreeInv.keep_modAt_at (hT : TreeInv cfg Q I Qty)
    {f : Option (StratData K) → Node K → Except Err (OpRes K)} :
    ∀ (path : List Nat) par (n : Node K) r, AllNodes Q I n →
      (∀ par k r, n.get? path = some k → AllNodes Q I k → f par k = .ok r → AllNodes Q I r.1) →
      modAt f path par n = .ok r → AllNodes Q I r.1 := by
  intro path
  induction path with
  | nil =>
    intro par n r ha hf h
    rw [modAt] at h
    exact hf par n r (by cases n <;> simp [Node.get?]) ha h
  | cons i rest ih =>
    intro par n r ha hf h
    cases n with
    | sec s => rw [modAt] at h; cases h
    | strat sd kids =>
      rw [modAt] at h
      split at h
      · cases h
      · rename_i k hk
        obtain ⟨⟨k', adjs, st⟩, h1, rfl⟩ := Except.map_eq_ok h
        simp only [AllNodes_strat] at *
        refine ⟨hT.keep_fold adjs sd ha.1, AllNodesKids.set i ha.2 (ih _ _ _ (ha.2.getElem? hk) ?_ h1)⟩
        intro par' k2 r2 hg
        exact hf par' k2 r2 (by simp only [Node.get?, hk]; exact hg)

/-- `transact(q)` addressed to a security, `q` an allowed quantity -/
theorem TreeInv.keep_opTransact_sec (hT : TreeInv cfg Q I Qty) {w w' : World K} {path : List Nat}
    {s1 : SecData K} {q : K} {update : Bool} {custom : Option K} (hq : Qty q) (ha : AllNodes Q I w.root)
    (hg : w.root.get? path = some (.sec s1))
    (h : opTransact cfg w path q update custom = .ok w') : AllNodes Q I w'.root := by
  unfold opTransact World.modify at h
  obtain ⟨⟨r, adjs, st⟩, h1, rfl⟩ := Except.map_eq_ok h
  refine hT.keep_modAt_at path none w.root _ ha ?_ h1
  intro par k r hk han hn
  rw [hg] at hk
  cases hk
  cases par with
  | none => cases hn
  | some p =>
    obtain ⟨⟨s', a⟩, hk, rfl⟩ := Except.map_eq_ok hn
    simp only [AllNodes_sec] at *
    exact hT.keep_secTransact hq han hk

theorem TreeInv.keep_opFlatten (hT : TreeInv cfg Q I Qty) {w w' : World K} {path : List Nat}
    (ha : AllNodes Q I w.root) (h : opFlatten cfg w path = .ok w') : AllNodes Q I w'.root := by
  unfold opFlatten at h
  split at h
  · exact (hT.keep_flattenAt (rf := refresh cfg) (fun _ _ ha h => hT.keep_refresh ha h)).1 _ _ _ _ ha h
  · cases h

theorem TreeInv.keep_opClose (hT : TreeInv cfg Q I Qty) {w w' : World K} {path : List Nat} {child : Nat}
    {update : Bool} (ha : AllNodes Q I w.root) (h : opClose cfg w path child update = .ok w') :
    AllNodes Q I w'.root := by
  unfold opClose at h
  split at h
  · rename_i sd _ c _ _
    obtain ⟨w1, h1, h⟩ := Except.bind_eq_ok h
    have ha1 : AllNodes Q I w1.root := by
      split at h1
      · split at h1
        · exact hT.keep_opFlatten ha h1
        · cases (Except.pure_eq_ok h1); exact ha
      · simp only [Bool.false_eq_true, ↓reduceIte] at h1
        cases (Except.pure_eq_ok h1); exact ha
    split at h
    · split at h
      · cases h
      · split at h
        · rename_i s1 hg
          split at h
          · have hs1 : I s1 := by simpa using AllNodes.get? _ ha1 hg
            exact hT.keep_opTransact_sec (hT.closeQty s1 hs1) ha1 hg h
          · cases (Except.pure_eq_ok h); exact ha1
        · cases h
    · obtain ⟨w2, h2, h⟩ := Except.bind_eq_ok h
      have ha2 := hT.keep_refresh ha1 h2
      split at h
      · split at h
        · exact hT.keep_opAllocate ha2 h
        · cases (Except.pure_eq_ok h); exact ha2
      · cases h
  · cases h

theorem TreeInv.keep_opRebalance (hT : TreeInv cfg Q I Qty)
    (hR : (∀ q, Qty q) ∨ (∀ sd, Q sd → sd.fixedIncome = false)) {w w' : World K} {path : List Nat}
    {weight : K} {child : Nat} {base : Option K} {update : Bool} (ha : AllNodes Q I w.root)
    (h : opRebalance cfg w path weight child base update = .ok w') : AllNodes Q I w'.root := by
  unfold opRebalance at h
  split at h
  · exact hT.keep_opClose ha h
  · obtain ⟨w1, h1, h⟩ := Except.bind_eq_ok h
    have ha1 : AllNodes Q I w1.root := by
      split at h1
      · exact hT.keep_refresh ha h1
      · cases (Except.pure_eq_ok h1); exact ha
    obtain ⟨w2, h2, h⟩ := Except.bind_eq_ok h
    have ha2 := hT.keep_refresh ha1 h2
    split at h
    · rename_i sd _ c hg _
      simp only at h
      split at h
      · rename_i hfi
        rcases hR with hall | hno
        · split at h
          · exact hT.keep_opTransact hall ha2 h
          · exact hT.keep_opAllocate ha2 h
        · have hq : Q sd := by
            have := AllNodes.get? _ ha2 hg
            simp only [AllNodes_strat] at this
            exact this.1
          rw [hno sd hq] at hfi; cases hfi
      · exact hT.keep_opAllocate ha2 h
    · cases h

/-- the operations allowed under the invariant: `transact` only when every quantity is allowed -/
def OpOK (Qty : K → Prop) : Op K → Prop
  | .transact _ _ _ _ => ∀ q, Qty q
  | _ => True

theorem TreeInv.keep_stepOp (hT : TreeInv cfg Q I Qty)
    (hR : (∀ q, Qty q) ∨ (∀ sd, Q sd → sd.fixedIncome = false)) {op : Op K} {w w' : World K}
    (hok : OpOK Qty op) (ha : AllNodes Q I w.root) (h : stepOp cfg op w = .ok w') : AllNodes Q I w'.root := by
  cases op with
  | adjust path amount update flow => exact hT.keep_opAdjust ha h
  | allocate path amount update => exact hT.keep_opAllocate ha h
  | transact path q update custom => exact hT.keep_opTransact hok ha h
  | flatten path => exact hT.keep_opFlatten ha h
  | close path child update => exact hT.keep_opClose ha h
  | rebalance path weight child base update => exact hT.keep_opRebalance hR ha h
  | update d => exact hT.keep_updRoot ha h

theorem TreeInv.keep_runOps (hT : TreeInv cfg Q I Qty)
    (hR : (∀ q, Qty q) ∨ (∀ sd, Q sd → sd.fixedIncome = false)) :
    ∀ (ops : List (Op K)) (w w' : World K), (∀ op ∈ ops, OpOK Qty op) → AllNodes Q I w.root →
      runOps cfg ops w = .ok w' → AllNodes Q I w'.root := by
  intro ops
  induction ops with
  | nil => intro w w' _ ha h; rw [runOps] at h; cases (Except.pure_eq_ok h); exact ha
  | cons op ops ih =>
    intro w w' hok ha h
    rw [runOps] at h
    obtain ⟨w1, h1, h⟩ := Except.bind_eq_ok h
    exact ih w1 w' (fun o ho => hok o (List.mem_cons_of_mem _ ho))
      (hT.keep_stepOp hR (hok op List.mem_cons_self) ha h1) h

end
end Bt
