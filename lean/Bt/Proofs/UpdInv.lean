import Bt.Proofs.SecUpdate
/-! Inversion lemmas for `updNode` / `updKids`, and the accumulator identity of the children loop. -/
namespace Bt
set_option linter.unusedSectionVars false
variable {K : Type} [Field K] [LinearOrder K] [IsStrictOrderedRing K] [HasFloor K]

/-! ### sweepSec -/
theorem sweepSec_fst (newpt : Bool) (s : SecData K) (acc : Acc K) :
    (sweepSec newpt s acc).1 = if newpt then { s with capital := 0 } else s := by
  unfold sweepSec; split <;> rfl

theorem sweepSec_snd (newpt : Bool) (s : SecData K) (acc : Acc K) :
    (sweepSec newpt s acc).2 = if newpt then { acc with coupons := acc.coupons + s.capital } else acc := by
  unfold sweepSec; split <;> rfl

@[simp] theorem sweepSec_needupdate (newpt : Bool) (s : SecData K) (acc : Acc K) :
    (sweepSec newpt s acc).1.needupdate = s.needupdate := by rw [sweepSec_fst]; split <;> rfl
@[simp] theorem sweepSec_value (newpt : Bool) (s : SecData K) (acc : Acc K) :
    (sweepSec newpt s acc).1.value = s.value := by rw [sweepSec_fst]; split <;> rfl
@[simp] theorem sweepSec_notl (newpt : Bool) (s : SecData K) (acc : Acc K) :
    (sweepSec newpt s acc).1.notl = s.notl := by rw [sweepSec_fst]; split <;> rfl
@[simp] theorem sweepSec_position (newpt : Bool) (s : SecData K) (acc : Acc K) :
    (sweepSec newpt s acc).1.position = s.position := by rw [sweepSec_fst]; split <;> rfl
@[simp] theorem sweepSec_weight (newpt : Bool) (s : SecData K) (acc : Acc K) :
    (sweepSec newpt s acc).1.weight = s.weight := by rw [sweepSec_fst]; split <;> rfl
@[simp] theorem sweepSec_lastPos (newpt : Bool) (s : SecData K) (acc : Acc K) :
    (sweepSec newpt s acc).1.lastPos = s.lastPos := by rw [sweepSec_fst]; split <;> rfl
@[simp] theorem sweepSec_now (newpt : Bool) (s : SecData K) (acc : Acc K) :
    (sweepSec newpt s acc).1.now = s.now := by rw [sweepSec_fst]; split <;> rfl
@[simp] theorem sweepSec_kind (newpt : Bool) (s : SecData K) (acc : Acc K) :
    (sweepSec newpt s acc).1.kind = s.kind := by rw [sweepSec_fst]; split <;> rfl
@[simp] theorem sweepSec_fixedIncome (newpt : Bool) (s : SecData K) (acc : Acc K) :
    (sweepSec newpt s acc).1.fixedIncome = s.fixedIncome := by rw [sweepSec_fst]; split <;> rfl
@[simp] theorem sweepSec_rValue (newpt : Bool) (s : SecData K) (acc : Acc K) :
    (sweepSec newpt s acc).1.rValue = s.rValue := by rw [sweepSec_fst]; split <;> rfl
@[simp] theorem sweepSec_rNotl (newpt : Bool) (s : SecData K) (acc : Acc K) :
    (sweepSec newpt s acc).1.rNotl = s.rNotl := by rw [sweepSec_fst]; split <;> rfl
@[simp] theorem sweepSec_rPosition (newpt : Bool) (s : SecData K) (acc : Acc K) :
    (sweepSec newpt s acc).1.rPosition = s.rPosition := by rw [sweepSec_fst]; split <;> rfl
@[simp] theorem sweepSec_bidofferPaid (newpt : Bool) (s : SecData K) (acc : Acc K) :
    (sweepSec newpt s acc).1.bidofferPaid = s.bidofferPaid := by rw [sweepSec_fst]; split <;> rfl
@[simp] theorem sweepSec_val (newpt : Bool) (s : SecData K) (acc : Acc K) :
    (sweepSec newpt s acc).2.val = acc.val := by rw [sweepSec_snd]; split <;> rfl
@[simp] theorem sweepSec_anotl (newpt : Bool) (s : SecData K) (acc : Acc K) :
    (sweepSec newpt s acc).2.notl = acc.notl := by rw [sweepSec_snd]; split <;> rfl
@[simp] theorem sweepSec_bo (newpt : Bool) (s : SecData K) (acc : Acc K) :
    (sweepSec newpt s acc).2.bo = acc.bo := by rw [sweepSec_snd]; split <;> rfl
theorem sweepSec_coupons (newpt : Bool) (s : SecData K) (acc : Acc K) :
    (sweepSec newpt s acc).2.coupons = acc.coupons + (if newpt then s.capital else 0) := by
  rw [sweepSec_snd]; split <;> simp

/-! ### one child of the loop -/

/-- what the children loop of `StrategyBase.update` does with one child -/
inductive KidStep (cfg : Cfg K) (d : Nat) (newpt bo : Bool) : Node K → Acc K → Node K → Acc K → Prop
  | skip (s : SecData K) (acc : Acc K) : s.needupdate = false →
      KidStep cfg d newpt bo (.sec s) acc (.sec (sweepSec newpt s acc).1) (sweepSec newpt s acc).2
  | sec (s : SecData K) (acc : Acc K) (s1 : SecData K) : s.needupdate = true →
      secUpdate cfg d (sweepSec newpt s acc).1 = .ok s1 →
      KidStep cfg d newpt bo (.sec s) acc (.sec s1) (accAdd bo (sweepSec newpt s acc).2 (.sec s1))
  | strat (sd : StratData K) (kk : List (Node K)) (acc : Acc K) (k1 : Node K) :
      updNode cfg d (.strat sd kk) = .ok k1 →
      KidStep cfg d newpt bo (.strat sd kk) acc k1 (accAdd bo acc k1)

theorem updKids_nil_inv {cfg : Cfg K} {d : Nat} {newpt bo : Bool} {acc : Acc K}
    {out : List (Node K) × Acc K} (h : updKids cfg d newpt bo [] acc = .ok out) : out = ([], acc) := by
  rw [updKids] at h; exact (Except.pure_eq_ok h).symm

theorem updKids_cons_inv {cfg : Cfg K} {d : Nat} {newpt bo : Bool} {k : Node K} {ks : List (Node K)}
    {acc : Acc K} {out : List (Node K) × Acc K} (h : updKids cfg d newpt bo (k :: ks) acc = .ok out) :
    ∃ k' ks' acc1, out.1 = k' :: ks' ∧ updKids cfg d newpt bo ks acc1 = .ok (ks', out.2) ∧
      KidStep cfg d newpt bo k acc k' acc1 := by
  cases k with
  | sec s =>
    rw [updKids] at h
    cases hn : s.needupdate
    · simp only [sweepSec_needupdate, hn, Bool.not_false, ↓reduceIte] at h
      obtain ⟨⟨ks', a⟩, h1, rfl⟩ := Except.map_eq_ok h
      exact ⟨_, ks', _, rfl, h1, KidStep.skip s acc hn⟩
    · simp only [sweepSec_needupdate, hn, Bool.not_true, Bool.false_eq_true, ↓reduceIte] at h
      obtain ⟨s1, hs1, h⟩ := Except.bind_eq_ok h
      obtain ⟨⟨ks', a⟩, h1, rfl⟩ := Except.map_eq_ok h
      exact ⟨_, ks', _, rfl, h1, KidStep.sec s acc s1 hn hs1⟩
  | strat sd kk =>
    rw [updKids] at h
    obtain ⟨k1, hk1, h⟩ := Except.bind_eq_ok h
    obtain ⟨⟨ks', a⟩, h1, rfl⟩ := Except.map_eq_ok h
    exact ⟨_, ks', _, rfl, h1, KidStep.strat sd kk acc k1 hk1⟩

/-- the strategy data just before the value write: date change done, swept coupons added to the cash -/
def stratPre (d : Nat) (sd : StratData K) (coupons : K) : StratData K :=
  { (stratDateChange d sd).1 with capital := (stratDateChange d sd).1.capital + coupons }

theorem updNode_strat_inv {cfg : Cfg K} {d : Nat} {sd : StratData K} {kids : List (Node K)} {n' : Node K}
    (h : updNode cfg d (.strat sd kids) = .ok n') :
    ∃ kids1 acc sd3,
      updKids cfg d (stratDateChange d sd).2 (stratDateChange d sd).1.bidofferSet kids
        ⟨(stratDateChange d sd).1.capital, 0, 0, 0⟩ = .ok (kids1, acc) ∧
      stratWrite cfg d (stratDateChange d sd).2 (stratPre d sd acc.coupons) (acc.val + acc.coupons) acc.notl acc.bo
        = .ok sd3 ∧
      n' = .strat (stratRows d sd3) (kidsWeights cfg sd3.fixedIncome (acc.val + acc.coupons) acc.notl kids1) := by
  rw [updNode] at h
  obtain ⟨⟨kids1, acc⟩, h1, h⟩ := Except.bind_eq_ok h
  obtain ⟨sd3, h3, rfl⟩ := Except.map_eq_ok h
  exact ⟨kids1, acc, sd3, h1, h3, rfl⟩

theorem updNode_sec_inv {cfg : Cfg K} {d : Nat} {s : SecData K} {n' : Node K}
    (h : updNode cfg d (.sec s) = .ok n') : ∃ s', secUpdate cfg d s = .ok s' ∧ n' = .sec s' := by
  rw [updNode] at h
  obtain ⟨s', h1, rfl⟩ := Except.map_eq_ok h
  exact ⟨s', h1, rfl⟩

end Bt
