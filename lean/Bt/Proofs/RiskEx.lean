import Bt.Proofs.RiskHedge
import Bt.Proofs.RiskLife
import Mathlib.Tactic.NormNum
import Mathlib.Tactic.FinCases
/-! Concrete `Rat` fixtures for the satisfiability examples and witnesses of C20. -/
namespace Bt.Risk.Ex


def tolQ : ℚ := 1 / 10 ^ 16
def noAttrs : Attrs ℚ := { risk := none, risks := none }
def mkSec (name now : Nat) (pos mult : ℚ) (price : Option ℚ := some 100) : SecD ℚ :=
  { name := name, now := now, pos := pos, mult := mult, price := price, attrs := noAttrs }
def mkStrat (name now : Nat) (fi : Bool := true) : StratD ℚ := { name := name, now := now, fi := fi, attrs := noAttrs }

/-! ### a nested tree on day 5 -/

/-- measure 0: securities 1, 2, 3 have a column (3's cell is NaN on day 5), security 4 has none -/
def frame0 : Frame ℚ := { cols := [1, 2, 3], rows := [(4, [some 1, some 1, some 1]), (5, [some 2, some 3, none])] }

/-- root 100 [ sec 1 (10 × 1), sub 101 [ sec 2 (4 × 10), sec 3 (flat, last updated on day 3) ], sec 4 (7 × 1) ] -/
def tree : Node ℚ :=
  .strat (mkStrat 100 5) [.sec (mkSec 1 5 10 1), .strat (mkStrat 101 5) [.sec (mkSec 2 5 4 10), .sec (mkSec 3 3 0 1)],
    .sec (mkSec 4 5 7 1)]

/-- what a test can look at: risk of the node at a path -/
def riskAt (m : Nat) (path : List Nat) (t : Node ℚ) : Option (Option ℚ) := (nodeAt path t).map (riskOf m)
def histAt (m date : Nat) (path : List Nat) (t : Node ℚ) : Option (Option ℚ) := (nodeAt path t).map (histOf m date)
def hasHist (path : List Nat) (t : Node ℚ) : Option Bool := (nodeAt path t).map fun n => n.attrs.risks.isSome

/-! ### a hedge: one bond, two measures, two instruments -/

/-- unit risks on day 5; instruments 11 and 12: H = [[3, 1], [2, 4]] (rows = instruments) -/
def frameA : Frame ℚ := { cols := [1, 11, 12], rows := [(5, [some 1, some 3, some 2])] }
def frameB : Frame ℚ := { cols := [1, 11, 12], rows := [(5, [some (1 / 2), some 1, some 4])] }
def framesH : Dict (Frame ℚ) := [(0, frameA), (1, frameB)]

def envQ : Env ℚ := { tol := tolQ, lazy := [], prices := [] }
/-- the instrument 11 is a lazy child with multiplier 10 -/
def envQ10 : Env ℚ := { tol := tolQ, lazy := [(11, 10)], prices := [] }

/-- a strategy holding 100 of bond 1 whose risk has been updated: risk = {0: 100, 1: 50} -/
def hedgeTarget : Node ℚ :=
  .strat { name := 100, now := 5, fi := true, attrs := { risk := some [(0, some 100), (1, some 50)], risks := none } }
    [.sec (mkSec 1 5 100 1)]

/-- `np.linalg.inv(H).T` for H = [[3, 1], [2, 4]] -/
def invT : List (List (Option ℚ)) := [[some (4 / 10), some (-2 / 10)], [some (-1 / 10), some (3 / 10)]]

def positions : Node ℚ → List (Nat × ℚ)
  | .sec s => [(s.name, s.pos)]
  | .strat _ ks => ks.filterMap fun k => match k with
    | .sec s => some (s.name, s.pos)
    | .strat _ _ => none

/-- hedge, then a fresh UpdateRisk of both measures: (positions, risk 0, risk 1) -/
def hedgeThenUpdate (env : Env ℚ) : Option (List (Nat × ℚ) × Option ℚ × Option ℚ) :=
  match hedgeRisks env [0, 1] framesH true none (some [11, 12]) (some invT) hedgeTarget with
  | .error _ => none
  | .ok t1 =>
    match updateRisk tolQ 0 0 framesH 5 t1 with
    | .error _ => none
    | .ok t2 =>
      match updateRisk tolQ 1 0 framesH 5 t2 with
      | .error _ => none
      | .ok t3 => some (positions t3, riskOf 0 t3, riskOf 1 t3)

/-! ### lifecycle: close, roll, select -/

/-- children: 1 (50), 2 (20), 3 (8), 4 (flat) -/
def lifeKids : List (Node ℚ) := [.sec (mkSec 1 1 50 1), .sec (mkSec 2 1 20 1), .sec (mkSec 3 1 8 1), .sec (mkSec 4 1 0 1)]
/-- security 1 closes after day 3; security 9 (not a child) after day 1 -/
def closeDates : Dict (Option Nat) := [(1, some 3), (9, some 1)]
/-- securities 2 and 3 roll into 4 from day 2 on at factors 2 and 1/2 -/
def rollTab : Dict (RollRow ℚ) := [(2, { date := some 2, target := 4, factor := some 2 }), (3, { date := some 2, target := 4, factor := some (1 / 2) })]
def perm0 : Perm := { closed := none, rolled := none }

def stepsQ : List (Step ℚ) :=
  [{ now := 2, cands := [1, 2, 3, 4], trades := [(2, 5), (4, 1)] },
   { now := 3, cands := [1, 2, 3, 4], trades := [(1, 5), (3, 5)] },
   { now := 4, cands := [1, 2, 3, 4, 9], trades := [(1, 7), (9, 3)] }]

/-- the error a call ends with -/
def errOf {β : Type} : Except RErr β → Option RErr
  | .error e => some e
  | .ok _ => none

def txList (txs : Dict (Option ℚ)) : List (Nat × Option ℚ) := txs

def kidPositions (ks : List (Node ℚ)) : List (Nat × ℚ) := ks.filterMap fun k => match k with
  | .sec s => some (s.name, s.pos)
  | .strat _ _ => none


/-! ### side conditions of the theorems on these fixtures -/

/-- unit risks of measure 0 / 1 as total functions of the name (what `frameA` / `frameB` say on day 5) -/
def uA (name : Nat) : ℚ := if name = 1 then 1 else if name = 11 then 3 else if name = 12 then 2 else 0
def uB (name : Nat) : ℚ := if name = 1 then 1 / 2 else if name = 11 then 1 else if name = 12 then 4 else 0

theorem huA (name : Nat) : unitRiskRow [1, 11, 12] [some (1 : ℚ), some 3, some 2] name = some (uA name) := by
  unfold unitRiskRow uA
  by_cases h1 : name = 1
  · subst h1; decide +kernel
  by_cases h2 : name = 11
  · subst h2; decide +kernel
  by_cases h3 : name = 12
  · subst h3; decide +kernel
  have : List.idxOf? name [1, 11, 12] = none := by
    simp [List.idxOf?, List.findIdx?_cons, Ne.symm h1, Ne.symm h2, Ne.symm h3]
  simp [this, h1, h2, h3]

theorem huB (name : Nat) : unitRiskRow [1, 11, 12] [some (1 / 2 : ℚ), some 1, some 4] name = some (uB name) := by
  unfold unitRiskRow uB
  by_cases h1 : name = 1
  · subst h1; decide +kernel
  by_cases h2 : name = 11
  · subst h2; decide +kernel
  by_cases h3 : name = 12
  · subst h3; decide +kernel
  have : List.idxOf? name [1, 11, 12] = none := by
    simp [List.idxOf?, List.findIdx?_cons, Ne.symm h1, Ne.symm h2, Ne.symm h3]
  simp [this, h1, h2, h3]

/-- the inverse of H = [[3, 1], [2, 4]] -/
def Hinv2 : Matrix (Fin 2) (Fin 2) ℚ := !![4 / 10, -1 / 10; -2 / 10, 3 / 10]

theorem tolQ_pos : 0 < envQ.tol := by norm_num [envQ, tolQ]

theorem notTarget_rollTab (name : Nat) (h : name ≠ 4) : NotTarget rollTab name := by
  intro x row hx
  simp only [rollTab, dget_cons, dget_nil] at hx
  split at hx
  · cases hx; exact fun e => h e.symm
  · split at hx
    · cases hx; exact fun e => h e.symm
    · cases hx

theorem closable_fi (s : SecD ℚ) (h : isZero tolQ s.pos = false) : Closable tolQ true s := by
  constructor
  · intro hz; rw [h] at hz; cases hz
  · intro hf; cases hf

end Bt.Risk.Ex
