import Bt.Proofs.C08Root
/-! Helper lemmas for `Bt.Props.C08_reads`: when the local refresh a security getter starts with is the
    identity, and when a whole getter read is. -/
set_option linter.unusedSectionVars false
namespace Bt.P08R
open Bt Bt.P08

variable {K : Type} [Field K] [LinearOrder K] [IsStrictOrderedRing K] [HasFloor K]

/-- the node at a path together with the data of its parent strategy (`none` at the root): what `modAt`
    hands to the node-level operation -/
def getP? : Option (StratData K) → Node K → List Nat → Option (Option (StratData K) × Node K)
  | par, n, [] => some (par, n)
  | _, .sec _, _ :: _ => none
  | _, .strat sd kids, i :: rest =>
    match kids[i]? with
    | none => none
    | some k => getP? (some sd) k rest

/-- `getP?` addresses the same node as `Node.get?` -/
theorem getP?_get? : ∀ (path : List Nat) (par : Option (StratData K)) (n : Node K) (r : Option (StratData K) × Node K),
    getP? par n path = some r → n.get? path = some r.2
  | [], par, n, r, h => by
    simp only [getP?, Option.some.injEq] at h
    subst h
    cases n <;> rfl
  | i :: rest, par, .sec s, r, h => by simp [getP?] at h
  | i :: rest, par, .strat sd kids, r, h => by
    simp only [getP?] at h
    simp only [Node.get?]
    cases hk : kids[i]? with
    | none => rw [hk] at h; cases h
    | some k =>
      rw [hk] at h
      exact getP?_get? rest (some sd) k r h

/-- an operation that returns its target unchanged, books nothing and raises no flag leaves the tree unchanged -/
theorem modAt_noop {f : Option (StratData K) → Node K → Except Err (OpRes K)} :
    ∀ (path : List Nat) (par : Option (StratData K)) (n : Node K) (p' : Option (StratData K)) (n' : Node K),
      getP? par n path = some (p', n') → f p' n' = .ok (n', [], false) →
      modAt f path par n = .ok (n, [], false)
  | [], par, n, p', n', hg, hf => by
    simp only [getP?, Option.some.injEq, Prod.mk.injEq] at hg
    obtain ⟨rfl, rfl⟩ := hg
    simpa [modAt] using hf
  | i :: rest, par, .sec s, p', n', hg, hf => by simp [getP?] at hg
  | i :: rest, par, .strat sd kids, p', n', hg, hf => by
    simp only [getP?] at hg
    simp only [modAt]
    cases hk : kids[i]? with
    | none => rw [hk] at hg; cases hg
    | some k =>
      rw [hk] at hg
      simp only
      rw [modAt_noop rest (some sd) k p' n' hg hf]
      have hset : kids.set i k = kids := by
        obtain ⟨hi, rfl⟩ := List.getElem?_eq_some_iff.mp hk
        exact List.set_getElem_self hi
      simp [Except.map, hset]

theorem modify_noop {f : Option (StratData K) → Node K → Except Err (OpRes K)} {w : World K} {path : List Nat}
    {p' : Option (StratData K)} {n' : Node K}
    (hg : getP? none w.root path = some (p', n')) (hf : f p' n' = .ok (n', [], false)) :
    w.modify path f = .ok w := by
  unfold World.modify
  rw [modAt_noop path none w.root p' n' hg hf]
  simp [Except.map]

mutual
/-- every security below the node passes the test of its own getters
    (`not (self._needupdate or self.now != self.parent.now)`): no local refresh -/
def Settled (pn : Option Nat) : Node K → Prop
  | .sec s => s.needupdate = false ∧ s.now = pn
  | .strat sd kids => SettledL sd.now kids
def SettledL (pn : Option Nat) : List (Node K) → Prop
  | [] => True
  | k :: ks => Settled pn k ∧ SettledL pn ks
end

mutual
theorem localRefreshAll_settled {cfg : Cfg K} {d : Nat} :
    ∀ (n : Node K) (pn : Option Nat), Settled pn n → localRefreshAll cfg d pn n = .ok n
  | .sec s, pn, h => by
    rw [Settled] at h
    rw [localRefreshAll.eq_1]
    simp [h.1, h.2]
  | .strat sd kids, pn, h => by
    rw [Settled] at h
    rw [localRefreshAll.eq_2, localRefreshKids_settled kids sd.now h]
    rfl
theorem localRefreshKids_settled {cfg : Cfg K} {d : Nat} :
    ∀ (ks : List (Node K)) (pn : Option Nat), SettledL pn ks → localRefreshKids cfg d pn ks = .ok ks
  | [], pn, _ => by rw [localRefreshKids.eq_1]; rfl
  | k :: ks, pn, h => by
    rw [SettledL] at h
    rw [localRefreshKids.eq_2, localRefreshAll_settled k pn h.1, bind_ok, localRefreshKids_settled ks pn h.2]
    rfl
end

/-- the local refresh of the security getters (the first step of `opRead … .secLocal / .secSeries`) -/
def localRead (cfg : Cfg K) (w : World K) (path : List Nat) : Except Err (World K) :=
  w.modify path fun par n =>
    match par, n with
    | some p, .sec s =>
      if s.needupdate || s.now != p.now then
        match w.root.now with
        | some d => (secUpdate cfg d s).map fun s' => (.sec s', [], false)
        | none => throw Err.badPath
      else pure (n, [], false)
    | _, _ => throw Err.badPath

theorem opRead_secLocal (cfg : Cfg K) (w : World K) (path : List Nat) :
    opRead cfg w path .secLocal = localRead cfg w path := rfl

theorem opRead_secSeries (cfg : Cfg K) (w : World K) (path : List Nat) :
    opRead cfg w path .secSeries = (localRead cfg w path).bind (refresh cfg) := rfl

/-- a security that is not flagged and stands on its parent's date: the local refresh is the identity -/
theorem localRead_settled {cfg : Cfg K} {w : World K} {path : List Nat} {p : StratData K} {s : SecData K}
    (hg : getP? none w.root path = some (some p, .sec s)) (hn : s.needupdate = false) (hd : s.now = p.now) :
    localRead cfg w path = .ok w := by
  unfold localRead
  refine modify_noop hg ?_
  simp [hn, hd]

/-- what a getter read needs in order not to touch any security: nothing for the strategy-level and plain
    getters; for the getters of a security, that security passes its own test; for `positions` / `outlays` of a
    strategy, every security below it does -/
def ReadSettled (w : World K) (path : List Nat) : Getter → Prop
  | .plain | .stratRefreshing => True
  | .secLocal | .secSeries =>
    ∃ p s, getP? none w.root path = some (some p, .sec s) ∧ s.needupdate = false ∧ s.now = p.now
  | .stratMembers =>
    ∃ d par n, w.root.now = some d ∧ getP? none w.root path = some (par, n) ∧ Settled (par.bind (·.now)) n

/-- the same test as a Boolean, for the security getters (decidable on concrete worlds) -/
def secSettled (w : World K) (path : List Nat) : Bool :=
  match getP? none w.root path with
  | some (some p, .sec s) => !s.needupdate && s.now == p.now
  | _ => false

theorem secSettled_spec {w : World K} {path : List Nat} (h : secSettled w path = true) :
    ∃ p s, getP? none w.root path = some (some p, .sec s) ∧ s.needupdate = false ∧ s.now = p.now := by
  unfold secSettled at h
  split at h
  · rename_i p s hg
    simp only [Bool.and_eq_true, Bool.not_eq_true', beq_iff_eq] at h
    exact ⟨p, s, hg, h.1, h.2⟩
  · cases h

theorem opRead_settled {cfg : Cfg K} {w : World K} {path : List Nat} {g : Getter}
    (hs : w.stale = false) (hq : ReadSettled w path g) : opRead cfg w path g = .ok w := by
  cases g with
  | plain => rfl
  | stratRefreshing => exact refresh_of_fresh hs
  | secLocal =>
    obtain ⟨p, s, hg, hn, hd⟩ := hq
    rw [opRead_secLocal]; exact localRead_settled hg hn hd
  | secSeries =>
    obtain ⟨p, s, hg, hn, hd⟩ := hq
    rw [opRead_secSeries, localRead_settled hg hn hd, bind_ok]; exact refresh_of_fresh hs
  | stratMembers =>
    obtain ⟨d, par, n, hnow, hg, hst⟩ := hq
    show (refresh cfg w).bind (fun w1 => match w1.root.now with
      | none => throw Err.badPath
      | some d => w1.modify path fun par n =>
          (localRefreshAll cfg d (par.bind (·.now)) n).map fun n' => (n', [], false)) = .ok w
    rw [refresh_of_fresh hs, bind_ok]
    simp only [hnow]
    refine modify_noop hg ?_
    rw [localRefreshAll_settled n _ hst]; rfl

end Bt.P08R
