import Bt.Proofs.Ledger
import Bt.Proofs.Causal
import Bt.Props.C01
import Bt.Props.C02
/-! C02, day level: the ledger `total + fees booked + bid/offer paid` through *every* public operation executed
    while the clocks stand at one date `d`, through the opening update of a new date, and the balance-sheet
    identity after the closing update.

    Measures.  `feeSum` (Σ `last_fee` over the strategies) is reset only by a date change of the strategy.
    `bidoffer_paid` of a security is reset only by the security's own date change, and a security that the
    update loop skips (`needupdate = false`) keeps the clock of an earlier date until something refreshes it;
    the amount it will carry once on `d` is `secBoDay d s = (secDateChange d s).bidofferPaid`
    (its `bidoffer_paid` if it is on `d` already or has no bid/offer data, else 0).  `boDay d` sums that. -/
set_option linter.unusedSectionVars false
namespace Bt.P02
open Bt
open Bt.P08 (bind_eq_ok map_eq_ok)

variable {K : Type} [Field K] [LinearOrder K] [IsStrictOrderedRing K] [HasFloor K]

/-! ### measures -/

/-- bid/offer (or custom-price) cost the security carries for date `d`: its `bidoffer_paid` as of its date change
    to `d` -/
def secBoDay (d : Nat) (s : SecData K) : K := (secDateChange d s).bidofferPaid
/-- commissions the strategy carries for date `d`: its `last_fee` as of its date change to `d` -/
def stratFeeDay (d : Nat) (sd : StratData K) : K := (stratDateChange d sd).1.lastFee

/-- `Σ securities secBoDay d` -/
def boDay (d : Nat) (n : Node K) : K := nodeSum (secBoDay d) (fun _ => 0) n
/-- `Σ strategies stratFeeDay d` -/
def feeDay (d : Nat) (n : Node K) : K := nodeSum (fun _ => 0) (stratFeeDay d) n

def secWD (d : Nat) (s : SecData K) : K := secWorth s + secBoDay d s
def stratWD (d : Nat) (sd : StratData K) : K := sd.capital + stratFeeDay d sd
/-- the conserved quantity of a day: `total + feeSum + boDay d` -/
def ledgerD (d : Nat) (n : Node K) : K := nodeSum (secWD d) stratW n
def ledgerDL (d : Nat) (ks : List (Node K)) : K := kidsSum (secWD d) stratW ks
/-- the same as seen from the close of the earlier date: `total + feeDay d + boDay d` -/
def ledgerD0 (d : Nat) (n : Node K) : K := nodeSum (secWD d) (stratWD d) n
def ledgerD0L (d : Nat) (ks : List (Node K)) : K := kidsSum (secWD d) (stratWD d) ks

theorem ledgerD_eq (d : Nat) (n : Node K) : ledgerD d n = total n + feeSum n + boDay d n := by
  unfold ledgerD total feeSum boDay
  rw [← nodeSum_add, ← nodeSum_add]
  congr 1
  · funext s; simp [secWD]
  · funext sd; simp [stratW]

theorem ledgerD0_eq (d : Nat) (n : Node K) : ledgerD0 d n = total n + feeDay d n + boDay d n := by
  unfold ledgerD0 total feeDay boDay
  rw [← nodeSum_add, ← nodeSum_add]
  congr 1
  · funext s; simp [secWD]
  · funext sd; simp [stratWD]

theorem ledgerD_strat (d : Nat) (sd : StratData K) (ks : List (Node K)) :
    ledgerD d (.strat sd ks) = stratW sd + ledgerDL d ks := by rw [ledgerD, nodeSum]; rfl
theorem ledgerD_sec (d : Nat) (s : SecData K) : ledgerD d (.sec s) = secWD d s := by rw [ledgerD, nodeSum]
theorem ledgerDL_nil (d : Nat) : ledgerDL d ([] : List (Node K)) = 0 := by rw [ledgerDL, kidsSum]
theorem ledgerDL_cons (d : Nat) (k : Node K) (ks : List (Node K)) :
    ledgerDL d (k :: ks) = ledgerD d k + ledgerDL d ks := by rw [ledgerDL, kidsSum]; rfl

theorem ledgerD0_strat (d : Nat) (sd : StratData K) (ks : List (Node K)) :
    ledgerD0 d (.strat sd ks) = stratWD d sd + ledgerD0L d ks := by rw [ledgerD0, nodeSum]; rfl
theorem ledgerD0_sec (d : Nat) (s : SecData K) : ledgerD0 d (.sec s) = secWD d s := by rw [ledgerD0, nodeSum]
theorem ledgerD0L_nil (d : Nat) : ledgerD0L d ([] : List (Node K)) = 0 := by rw [ledgerD0L, kidsSum]
theorem ledgerD0L_cons (d : Nat) (k : Node K) (ks : List (Node K)) :
    ledgerD0L d (k :: ks) = ledgerD0 d k + ledgerD0L d ks := by rw [ledgerD0L, kidsSum]; rfl

/-! ### one security -/

theorem secBoDay_eq (d : Nat) (s : SecData K) :
    secBoDay d s = if s.now = some d then s.bidofferPaid else if s.bidofferSet then 0 else s.bidofferPaid := by
  unfold secBoDay secDateChange
  by_cases h : s.now = some d
  · simp [h]
  · simp only [h, ↓reduceIte]
    have : (s.now != some d) = true := by simpa using h
    simp only [this, ↓reduceIte]

theorem secBoDay_at {d : Nat} {s : SecData K} (h : s.now = some d) : secBoDay d s = s.bidofferPaid := by
  rw [secBoDay_eq, if_pos h]

theorem secDateChange_now_D (d : Nat) (s : SecData K) : (secDateChange d s).now = some d := by
  unfold secDateChange
  split
  · rfl
  · rename_i h; simpa using h

theorem secDateChange_pos_mult (d : Nat) (s : SecData K) :
    (secDateChange d s).position = s.position ∧ (secDateChange d s).mult = s.mult ∧
    (secDateChange d s).bidofferSet = s.bidofferSet := by
  unfold secDateChange; split <;> exact ⟨rfl, rfl, rfl⟩

theorem secDateChange_price_new {d : Nat} {s : SecData K} (h : s.now ≠ some d) :
    (secDateChange d s).price = cell s.prices d := by
  unfold secDateChange
  have : (s.now != some d) = true := by simpa using h
  simp only [this, ↓reduceIte]

theorem secWorth_congr {s t : SecData K} (h1 : t.position = s.position) (h2 : t.mult = s.mult)
    (h3 : t.price = s.price) : secWorth t = secWorth s := by
  unfold secWorth; rw [h1, h2, h3]

theorem secCoreEq_WD {s t : SecData K} (d : Nat) (h : secCoreEq s t) : secWD d t = secWD d s := by
  obtain ⟨h1, h2, h3, _, h5, h6, h7⟩ := h
  unfold secWD
  rw [secWorth_congr h1 h2 h3, secBoDay_eq, secBoDay_eq, h5, h6, h7]

/-- what `SecurityBase.update(d)` proper leaves of the security as of its date change to `d` -/
theorem secBaseUpdate_coreD {cfg : Cfg K} {d : Nat} {s t : SecData K}
    (h : secBaseUpdate cfg d s = .ok t) : secCoreEq (secDateChange d s) t := by
  unfold secBaseUpdate at h
  split at h
  · rename_i he
    simp only [pure, Except.pure, Except.ok.injEq] at h; subst h
    have hn : s.now = some d := by
      unfold secEarly at he
      simp only [Bool.and_eq_true, beq_iff_eq] at he
      exact he.1
    rw [secDateChange_same d s hn]; exact secCoreEq.refl s
  · obtain ⟨v, _, hv⟩ := Except.map_ok h
    subst hv
    exact (secRecordPos_core d _).trans <| (secSetValue_core d v _).trans <| (secQuiet_core cfg _).trans <|
      (secFlushOutlay_core d _).trans (secRowBidoffer_core d _)

/-- `update(d)` of a security, whatever its clock: position and multiplier are kept; price, bid/offer and
    bid/offer-paid are those of its date change to `d`; afterwards it stands on `d` -/
theorem secUpdate_coreD {cfg : Cfg K} {d : Nat} {s t : SecData K}
    (h : secUpdate cfg d s = .ok t) : secCoreEq (secDateChange d s) t := by
  unfold secUpdate at h
  obtain ⟨s1, h1, h2⟩ := Except.bind_ok h
  have c1 := secBaseUpdate_coreD h1
  cases hk : s.kind <;> simp only [hk, pure, Except.pure, Except.ok.injEq] at h2
  · subst h2; exact c1
  · subst h2; exact c1.trans (secFiTail_core d s1)
  · exact c1.trans ((secFiTail_core d s1).trans (secCouponTail_core h2))
  · subst h2; exact c1.trans (secHedgeTail_core s1)
  · obtain ⟨u, hu, hv⟩ := Except.map_ok h2
    subst hv
    exact c1.trans ((secFiTail_core d s1).trans ((secCouponTail_core hu).trans (secHedgeTail_core u)))

theorem secUpdate_now_D {cfg : Cfg K} {d : Nat} {s t : SecData K} (h : secUpdate cfg d s = .ok t) :
    t.now = some d := by
  rw [(secUpdate_coreD h).2.2.2.2.2.1]; exact secDateChange_now_D d s

theorem secUpdate_position_D {cfg : Cfg K} {d : Nat} {s t : SecData K} (h : secUpdate cfg d s = .ok t) :
    t.position = s.position := by
  rw [(secUpdate_coreD h).1]; exact (secDateChange_pos_mult d s).1

/-- a security that is on `d`, or exactly flat -/
def SecOK (d : Nat) (s : SecData K) : Prop := s.now = some d ∨ s.position = 0

theorem secWorth_flat {s : SecData K} (h : s.position = 0) : secWorth s = 0 := by
  rw [secWorth_eq, h]; ring

theorem secWD_dateChange {d : Nat} {s : SecData K} (hs : SecOK d s) : secWD d (secDateChange d s) = secWD d s := by
  rcases hs with hn | hp
  · rw [secDateChange_same d s hn]
  · unfold secWD
    rw [secWorth_flat hp, secWorth_flat (by rw [(secDateChange_pos_mult d s).1]; exact hp),
      secBoDay_at (secDateChange_now_D d s)]
    rfl

/-- `update(d)` of a security that is on `d` or flat keeps its worth and the bid/offer it carries for `d` -/
theorem secUpdate_WD {cfg : Cfg K} {d : Nat} {s t : SecData K} (hs : SecOK d s)
    (h : secUpdate cfg d s = .ok t) : secWD d t = secWD d s ∧ t.now = some d := by
  refine ⟨?_, secUpdate_now_D h⟩
  rw [secCoreEq_WD d (secUpdate_coreD h), secWD_dateChange hs]

theorem secRefresh_WD {cfg : Cfg K} {d : Nat} {s t : SecData K} (hs : SecOK d s)
    (h : secRefresh cfg (some d) s = .ok t) : secWD d t = secWD d s ∧ t.now = some d := by
  unfold secRefresh at h
  split at h
  · exact secUpdate_WD hs h
  · rename_i hc
    simp only [pure, Except.pure, Except.ok.injEq] at h; subst h
    simp only [Bool.or_eq_true, bne_iff_ne, ne_eq, not_or, Bool.not_eq_true, Decidable.not_not] at hc
    exact ⟨rfl, hc.2⟩

theorem secW_eq_WD {d : Nat} {s : SecData K} (h : s.now = some d) : secW s = secWD d s := by
  unfold secW secWD; rw [secBoDay_at h]

theorem secTransactCore_WD {cfg : Cfg K} {d : Nat} {comm : K → K → K} {s s' : SecData K} {q : K} {c : Option K}
    {oa : Option (Adj K)} (hn : s.now = some d) (h : secTransactCore cfg comm s q c = .ok (s', oa)) :
    secWD d s' + adjNet oa.toList = secWD d s ∧ s'.now = some d := by
  obtain ⟨h1, h2⟩ := secTransactCore_W h
  have hn' : s'.now = some d := by rw [h2, hn]
  exact ⟨by rw [← secW_eq_WD hn', ← secW_eq_WD hn]; exact h1, hn'⟩

theorem secAllocate_WD {cfg : Cfg K} {d : Nat} {comm : K → K → K} {s s' : SecData K} {amount : K}
    {oa : Option (Adj K)} (hs : SecOK d s) (h : secAllocate cfg (some d) comm s amount = .ok (s', oa)) :
    secWD d s' + adjNet oa.toList = secWD d s ∧ s'.now = some d := by
  obtain ⟨s1, hr, ⟨_, rfl, rfl⟩ | ⟨q, _, ht⟩⟩ := secAllocate_cases h
  · obtain ⟨e1, e2⟩ := secRefresh_WD hs hr
    exact ⟨by simp [adjNet, e1], e2⟩
  · obtain ⟨e1, e2⟩ := secRefresh_WD hs hr
    obtain ⟨f1, f2⟩ := secTransactCore_WD e2 ht
    exact ⟨by rw [f1, e1], f2⟩

theorem secTransact_WD {cfg : Cfg K} {d : Nat} {comm : K → K → K} {s s' : SecData K} {q : K} {c : Option K}
    {oa : Option (Adj K)} (hs : SecOK d s) (h : secTransact cfg (some d) comm s q true c = .ok (s', oa)) :
    secWD d s' + adjNet oa.toList = secWD d s ∧ s'.now = some d := by
  unfold secTransact at h
  obtain ⟨s1, hr, ht⟩ := Except.bind_ok h
  simp only [↓reduceIte] at hr
  obtain ⟨e1, e2⟩ := secRefresh_WD hs hr
  obtain ⟨f1, f2⟩ := secTransactCore_WD e2 ht
  exact ⟨by rw [f1, e1], f2⟩

/-! ### the invariant of a day -/

mutual
/-- every strategy of the subtree stands on `d`; every security stands on `d` or is exactly flat
    (a security the update loop skipped keeps an older clock until it is refreshed) -/
def DayInv (d : Nat) : Node K → Prop
  | .sec s => SecOK d s
  | .strat sd kids => sd.now = some d ∧ DayInvL d kids
def DayInvL (d : Nat) : List (Node K) → Prop
  | [] => True
  | k :: ks => DayInv d k ∧ DayInvL d ks
end

theorem dayInvL_get {d : Nat} {kids : List (Node K)} (h : DayInvL d kids) {i : Nat} {k : Node K}
    (hi : kids[i]? = some k) : DayInv d k := by
  induction kids generalizing i with
  | nil => simp at hi
  | cons x xs ih =>
    rw [DayInvL] at h
    cases i with
    | zero => simp only [List.getElem?_cons_zero, Option.some.injEq] at hi; subst hi; exact h.1
    | succ j => simp only [List.getElem?_cons_succ] at hi; exact ih h.2 hi

theorem dayInvL_set {d : Nat} {kids : List (Node K)} (h : DayInvL d kids) (i : Nat) {k : Node K}
    (hk : DayInv d k) : DayInvL d (kids.set i k) := by
  induction kids generalizing i with
  | nil => simpa using h
  | cons x xs ih =>
    rw [DayInvL] at h
    cases i with
    | zero => simp only [List.set_cons_zero]; rw [DayInvL]; exact ⟨hk, h.2⟩
    | succ j => simp only [List.set_cons_succ]; rw [DayInvL]; exact ⟨h.1, ih h.2 j⟩

/-! ### `allocate` / `transact` pushed down a tree on date `d` -/

mutual
theorem allocNode_D (cfg : Cfg K) (d : Nat) : ∀ (n : Node K) (comm : K → K → K) (amount : K)
    (n' : Node K) (adjs : List (Adj K)), DayInv d n → allocNode cfg (some d) comm amount n = .ok (n', adjs) →
    ledgerD d n' + adjNet adjs = ledgerD d n ∧ DayInv d n'
  | .sec s, comm, amount, n', adjs, hs, h => by
    rw [allocNode] at h
    obtain ⟨⟨s', oa⟩, h1, h2⟩ := Except.map_ok h
    simp only [Prod.mk.injEq] at h2
    obtain ⟨rfl, rfl⟩ := h2
    rw [DayInv] at hs
    obtain ⟨e1, e2⟩ := secAllocate_WD hs h1
    rw [ledgerD_sec, ledgerD_sec, DayInv]
    exact ⟨e1, Or.inl e2⟩
  | .strat sd kids, comm, amount, n', adjs, hs, h => by
    rw [allocNode] at h
    obtain ⟨⟨sd2, kids2⟩, h1, h2⟩ := Except.map_ok h
    simp only [Prod.mk.injEq] at h2
    obtain ⟨rfl, rfl⟩ := h2
    rw [DayInv] at hs
    obtain ⟨e1, e2, e3⟩ := allocKids_D cfg d kids amount (sd.adjust { amount := amount, fee := 0, flow := true })
      sd2 kids2 hs.1 hs.2 h1
    rw [ledgerD_strat, ledgerD_strat, DayInv]
    refine ⟨?_, e2, e3⟩
    have : stratW (sd.adjust { amount := amount, fee := 0, flow := true }) = stratW sd + amount := by
      simp only [stratW, StratData.adjust]; ring
    simp only [adjNet, adjAmounts_cons, adjFees_cons, adjAmounts_nil, adjFees_nil]
    linear_combination e1 + this
theorem allocKids_D (cfg : Cfg K) (d : Nat) : ∀ (kids : List (Node K)) (amount : K) (sd sd2 : StratData K)
    (kids2 : List (Node K)), sd.now = some d → DayInvL d kids → allocKids cfg amount kids sd = .ok (sd2, kids2) →
    stratW sd2 + ledgerDL d kids2 = stratW sd + ledgerDL d kids ∧ sd2.now = some d ∧ DayInvL d kids2
  | [], amount, sd, sd2, kids2, hn, _, h => by
    rw [allocKids] at h
    simp only [pure, Except.pure, Except.ok.injEq, Prod.mk.injEq] at h
    obtain ⟨rfl, rfl⟩ := h
    exact ⟨rfl, hn, by rw [DayInvL]; trivial⟩
  | k :: ks, amount, sd, sd2, kids2, hn, hs, h => by
    rw [allocKids, hn] at h
    obtain ⟨⟨k', adjs⟩, h1, h2⟩ := Except.bind_ok h
    obtain ⟨⟨sd'', ks'⟩, h3, h4⟩ := Except.map_ok h2
    simp only [Prod.mk.injEq] at h4
    obtain ⟨rfl, rfl⟩ := h4
    rw [DayInvL] at hs
    obtain ⟨e1, e2⟩ := allocNode_D cfg d k sd.comm (amount * k.weight) k' adjs hs.1 h1
    have hnow : (adjs.foldl StratData.adjust sd).now = some d := by rw [foldl_adjust_now, hn]
    obtain ⟨f1, f2, f3⟩ := allocKids_D cfg d ks amount (adjs.foldl StratData.adjust sd) sd'' ks' hnow hs.2 h3
    refine ⟨?_, f2, by rw [DayInvL]; exact ⟨e2, f3⟩⟩
    rw [stratW_foldl] at f1
    rw [ledgerDL_cons, ledgerDL_cons]
    linear_combination f1 + e1
end

mutual
theorem transNode_D (cfg : Cfg K) (d : Nat) : ∀ (n : Node K) (comm : K → K → K) (q : K) (c : Option K)
    (n' : Node K) (adjs : List (Adj K)), DayInv d n → transNode cfg (some d) comm q c n = .ok (n', adjs) →
    ledgerD d n' + adjNet adjs = ledgerD d n ∧ DayInv d n'
  | .sec s, comm, q, c, n', adjs, hs, h => by
    rw [transNode] at h
    obtain ⟨⟨s', oa⟩, h1, h2⟩ := Except.map_ok h
    simp only [Prod.mk.injEq] at h2
    obtain ⟨rfl, rfl⟩ := h2
    rw [DayInv] at hs
    obtain ⟨e1, e2⟩ := secTransact_WD hs h1
    rw [ledgerD_sec, ledgerD_sec, DayInv]
    exact ⟨e1, Or.inl e2⟩
  | .strat sd kids, comm, q, c, n', adjs, hs, h => by
    rw [transNode] at h
    obtain ⟨⟨sd2, kids2⟩, h1, h2⟩ := Except.map_ok h
    simp only [Prod.mk.injEq] at h2
    obtain ⟨rfl, rfl⟩ := h2
    rw [DayInv] at hs
    obtain ⟨e1, e2, e3⟩ := transKids_D cfg d kids q sd sd2 kids2 hs.1 hs.2 h1
    rw [ledgerD_strat, ledgerD_strat, DayInv]
    refine ⟨?_, e2, e3⟩
    simp only [adjNet, adjAmounts_nil, adjFees_nil]
    linear_combination e1
theorem transKids_D (cfg : Cfg K) (d : Nat) : ∀ (kids : List (Node K)) (q : K) (sd sd2 : StratData K)
    (kids2 : List (Node K)), sd.now = some d → DayInvL d kids → transKids cfg q kids sd = .ok (sd2, kids2) →
    stratW sd2 + ledgerDL d kids2 = stratW sd + ledgerDL d kids ∧ sd2.now = some d ∧ DayInvL d kids2
  | [], q, sd, sd2, kids2, hn, _, h => by
    rw [transKids] at h
    simp only [pure, Except.pure, Except.ok.injEq, Prod.mk.injEq] at h
    obtain ⟨rfl, rfl⟩ := h
    exact ⟨rfl, hn, by rw [DayInvL]; trivial⟩
  | k :: ks, q, sd, sd2, kids2, hn, hs, h => by
    rw [transKids, hn] at h
    obtain ⟨⟨k', adjs⟩, h1, h2⟩ := Except.bind_ok h
    obtain ⟨⟨sd'', ks'⟩, h3, h4⟩ := Except.map_ok h2
    simp only [Prod.mk.injEq] at h4
    obtain ⟨rfl, rfl⟩ := h4
    rw [DayInvL] at hs
    obtain ⟨e1, e2⟩ := transNode_D cfg d k sd.comm (q * k.weight) none k' adjs hs.1 h1
    have hnow : (adjs.foldl StratData.adjust sd).now = some d := by rw [foldl_adjust_now, hn]
    obtain ⟨f1, f2, f3⟩ := transKids_D cfg d ks q (adjs.foldl StratData.adjust sd) sd'' ks' hnow hs.2 h3
    refine ⟨?_, f2, by rw [DayInvL]; exact ⟨e2, f3⟩⟩
    rw [stratW_foldl] at f1
    rw [ledgerDL_cons, ledgerDL_cons]
    linear_combination f1 + e1
end

/-! ### one level of `flatten` -/

theorem flattenKidsMV_D (cfg : Cfg K) (d : Nat) : ∀ (kids : List (Node K)) (sd sd2 : StratData K)
    (kids2 : List (Node K)), sd.now = some d → DayInvL d kids → flattenKidsMV cfg kids sd = .ok (sd2, kids2) →
    stratW sd2 + ledgerDL d kids2 = stratW sd + ledgerDL d kids ∧ sd2.now = some d ∧ DayInvL d kids2
  | [], sd, sd2, kids2, hn, _, h => by
    rw [flattenKidsMV] at h
    simp only [pure, Except.pure, Except.ok.injEq, Prod.mk.injEq] at h
    obtain ⟨rfl, rfl⟩ := h
    exact ⟨rfl, hn, by rw [DayInvL]; trivial⟩
  | k :: ks, sd, sd2, kids2, hn, hs, h => by
    rw [flattenKidsMV] at h
    rw [DayInvL] at hs
    split at h
    · obtain ⟨⟨sd'', ks'⟩, h3, h4⟩ := Except.map_ok h
      simp only [Prod.mk.injEq] at h4
      obtain ⟨rfl, rfl⟩ := h4
      obtain ⟨f1, f2, f3⟩ := flattenKidsMV_D cfg d ks sd sd'' ks' hn hs.2 h3
      refine ⟨?_, f2, by rw [DayInvL]; exact ⟨hs.1, f3⟩⟩
      rw [ledgerDL_cons, ledgerDL_cons]
      linear_combination f1
    · rw [hn] at h
      obtain ⟨⟨k', adjs⟩, h1, h2⟩ := Except.bind_ok h
      obtain ⟨⟨sd'', ks'⟩, h3, h4⟩ := Except.map_ok h2
      simp only [Prod.mk.injEq] at h4
      obtain ⟨rfl, rfl⟩ := h4
      obtain ⟨e1, e2⟩ := allocNode_D cfg d k sd.comm (-k.value) k' adjs hs.1 h1
      have hnow : (adjs.foldl StratData.adjust sd).now = some d := by rw [foldl_adjust_now, hn]
      obtain ⟨f1, f2, f3⟩ := flattenKidsMV_D cfg d ks (adjs.foldl StratData.adjust sd) sd'' ks' hnow hs.2 h3
      refine ⟨?_, f2, by rw [DayInvL]; exact ⟨e2, f3⟩⟩
      rw [stratW_foldl] at f1
      rw [ledgerDL_cons, ledgerDL_cons]
      linear_combination f1 + e1

theorem flattenKidsFI_D (cfg : Cfg K) (d : Nat) : ∀ (kids : List (Node K)) (sd sd2 : StratData K)
    (kids2 : List (Node K)), sd.now = some d → DayInvL d kids → flattenKidsFI cfg kids sd = .ok (sd2, kids2) →
    stratW sd2 + ledgerDL d kids2 = stratW sd + ledgerDL d kids ∧ sd2.now = some d ∧ DayInvL d kids2
  | [], sd, sd2, kids2, hn, _, h => by
    rw [flattenKidsFI] at h
    simp only [pure, Except.pure, Except.ok.injEq, Prod.mk.injEq] at h
    obtain ⟨rfl, rfl⟩ := h
    exact ⟨rfl, hn, by rw [DayInvL]; trivial⟩
  | .strat _ _ :: ks, sd, sd2, kids2, _, _, h => by
    rw [flattenKidsFI] at h; cases h
  | .sec s :: ks, sd, sd2, kids2, hn, hs, h => by
    rw [flattenKidsFI] at h
    rw [DayInvL, DayInv] at hs
    split at h
    · obtain ⟨⟨sd'', ks'⟩, h3, h4⟩ := Except.map_ok h
      simp only [Prod.mk.injEq] at h4
      obtain ⟨rfl, rfl⟩ := h4
      obtain ⟨f1, f2, f3⟩ := flattenKidsFI_D cfg d ks sd sd'' ks' hn hs.2 h3
      refine ⟨?_, f2, by rw [DayInvL, DayInv]; exact ⟨hs.1, f3⟩⟩
      rw [ledgerDL_cons, ledgerDL_cons]
      linear_combination f1
    · rw [hn] at h
      obtain ⟨⟨s', oa⟩, h1, h2⟩ := Except.bind_ok h
      obtain ⟨⟨sd'', ks'⟩, h3, h4⟩ := Except.map_ok h2
      simp only [Prod.mk.injEq] at h4
      obtain ⟨rfl, rfl⟩ := h4
      obtain ⟨e1, e2⟩ := secTransact_WD hs.1 h1
      have hnow : (oa.toList.foldl StratData.adjust sd).now = some d := by rw [foldl_adjust_now, hn]
      obtain ⟨f1, f2, f3⟩ := flattenKidsFI_D cfg d ks (oa.toList.foldl StratData.adjust sd) sd'' ks' hnow hs.2 h3
      refine ⟨?_, f2, by rw [DayInvL, DayInv]; exact ⟨Or.inl e2, f3⟩⟩
      rw [stratW_foldl] at f1
      rw [ledgerDL_cons, ledgerDL_cons, ledgerD_sec, ledgerD_sec]
      linear_combination f1 + e1

/-- `flatten` of one strategy whose sub-strategies are flat already: the ledger is conserved -/
theorem flatF_D {cfg : Cfg K} {d : Nat} {par : Option (StratData K)} {n n' : Node K} {adjs : List (Adj K)} {st : Bool}
    (hn : DayInv d n) (h : P08.flatF cfg par n = .ok (n', adjs, st)) :
    ledgerD d n' + adjNet adjs = ledgerD d n + 0 ∧ DayInv d n' := by
  cases n with
  | sec s => cases h
  | strat sd ks =>
    simp only [P08.flatF] at h
    obtain ⟨⟨sd', ks'⟩, hfl, hr⟩ := map_eq_ok h
    simp only [Prod.mk.injEq] at hr
    obtain ⟨rfl, rfl, _⟩ := hr
    rw [DayInv] at hn
    have key : stratW sd' + ledgerDL d ks' = stratW sd + ledgerDL d ks ∧ sd'.now = some d ∧ DayInvL d ks' := by
      unfold flattenStrat at hfl
      split at hfl
      · exact flattenKidsFI_D cfg d ks sd sd' ks' hn.1 hn.2 hfl
      · exact flattenKidsMV_D cfg d ks sd sd' ks' hn.1 hn.2 hfl
    rw [ledgerD_strat, ledgerD_strat, DayInv]
    refine ⟨?_, key.2⟩
    simp only [adjNet, adjAmounts_nil, adjFees_nil]
    linear_combination key.1

/-! ### routing through `modAt` -/

/-- the parent a node-level operation sees stands on `d` -/
def ParAt (d : Nat) (par : Option (StratData K)) : Prop := ∀ p, par = some p → p.now = some d

theorem parAt_none (d : Nat) : ParAt d (none : Option (StratData K)) := fun _ h => by cases h

theorem modAt_D (d : Nat) (f : Option (StratData K) → Node K → Except Err (OpRes K)) (δ : K)
    (hf : ∀ par n n' adjs st, ParAt d par → DayInv d n → f par n = .ok (n', adjs, st) →
      ledgerD d n' + adjNet adjs = ledgerD d n + δ ∧ DayInv d n') :
    ∀ (path : List Nat) (par : Option (StratData K)) (n n' : Node K) (adjs : List (Adj K)) (st : Bool),
      ParAt d par → DayInv d n → modAt f path par n = .ok (n', adjs, st) →
      ledgerD d n' + adjNet adjs = ledgerD d n + δ ∧ DayInv d n'
  | [], par, n, n', adjs, st, hp, hn, h => by rw [modAt] at h; exact hf par n n' adjs st hp hn h
  | i :: rest, par, .sec s, n', adjs, st, _, _, h => by rw [modAt] at h; cases h
  | i :: rest, par, .strat sd kids, n', adjs, st, hp, hn, h => by
    rw [modAt] at h
    cases hk : kids[i]? with
    | none => simp [hk] at h
    | some k =>
      simp only [hk] at h
      obtain ⟨⟨k', a, st'⟩, h1, h2⟩ := Except.map_ok h
      simp only [Prod.mk.injEq] at h2
      obtain ⟨rfl, rfl, rfl⟩ := h2
      rw [DayInv] at hn
      obtain ⟨ih1, ih2⟩ := modAt_D d f δ hf rest (some sd) k k' a st'
        (by intro p hp'; cases hp'; exact hn.1) (dayInvL_get hn.2 hk) h1
      refine ⟨?_, ?_⟩
      · rw [ledgerD_strat, ledgerD_strat, stratW_foldl, ledgerDL, kidsSum_set _ _ kids i k k' hk]
        simp only [adjNet, adjAmounts_nil, adjFees_nil]
        simp only [ledgerD, adjNet] at ih1
        simp only [ledgerDL]
        linear_combination ih1
      · rw [DayInv, foldl_adjust_now]; exact ⟨hn.1, dayInvL_set hn.2 i ih2⟩

theorem modify_D (d : Nat) (f : Option (StratData K) → Node K → Except Err (OpRes K)) (δ : K)
    (hf : ∀ par n n' adjs st, ParAt d par → DayInv d n → f par n = .ok (n', adjs, st) →
      ledgerD d n' + adjNet adjs = ledgerD d n + δ ∧ DayInv d n')
    (hroot : ∀ n n' adjs st, f none n = .ok (n', adjs, st) → adjs = [])
    {w w' : World K} {path : List Nat} (hI : DayInv d w.root) (h : w.modify path f = .ok w') :
    ledgerD d w'.root = ledgerD d w.root + δ ∧ DayInv d w'.root := by
  unfold World.modify at h
  obtain ⟨⟨r, a, st⟩, h1, h2⟩ := Except.map_ok h
  subst h2
  have ha := modAt_root_adjs f hroot path w.root r a st h1
  subst ha
  have key := modAt_D d f δ hf path none w.root r [] st (parAt_none d) hI h1
  simpa [adjNet] using key

/-! ### `update(d)` of a tree that stands on `d` already -/

theorem stratDateChange_same {d : Nat} {sd : StratData K} (h : sd.now = some d) :
    stratDateChange d sd = ({ sd with now := some d }, false) := by
  unfold stratDateChange; simp [h]

theorem setWeight_ledgerD (d : Nat) (w : K) (k : Node K) : ledgerD d (k.setWeight w) = ledgerD d k := by
  cases k with
  | sec s =>
    rw [Node.setWeight, ledgerD_sec, ledgerD_sec]
    exact secCoreEq_WD d ⟨rfl, rfl, rfl, rfl, rfl, rfl, rfl⟩
  | strat sd ks => rw [Node.setWeight, ledgerD_strat, ledgerD_strat]; rfl

theorem setWeight_dayInv (d : Nat) (w : K) (k : Node K) (h : DayInv d k) : DayInv d (k.setWeight w) := by
  cases k with
  | sec s => rw [Node.setWeight, DayInv]; rw [DayInv] at h; exact h
  | strat sd ks => rw [Node.setWeight, DayInv]; rw [DayInv] at h; exact h

theorem kidsWeights_D (cfg : Cfg K) (d : Nat) (fi : Bool) (v n : K) : ∀ ks : List (Node K),
    ledgerDL d (kidsWeights cfg fi v n ks) = ledgerDL d ks ∧
    (DayInvL d ks → DayInvL d (kidsWeights cfg fi v n ks))
  | [] => by simp [kidsWeights]
  | k :: ks => by
    obtain ⟨ih1, ih2⟩ := kidsWeights_D cfg d fi v n ks
    rw [P08.kidsWeights_cons, ledgerDL_cons, ledgerDL_cons, ih1]
    constructor
    · split
      · rfl
      · rw [setWeight_ledgerD]
    · intro h
      rw [DayInvL] at h ⊢
      refine ⟨?_, ih2 h.2⟩
      split
      · exact h.1
      · exact setWeight_dayInv d _ k h.1

/-- everything `StrategyBase.update` does after the children loop: cash grows by the swept coupons, nothing is
    booked as a fee, the clock stays -/
theorem stratFinish_W {cfg : Cfg K} {d : Nat} {np : Bool} {sd1 : StratData K} {r : List (Node K) × Acc K}
    {n' : Node K} (h : P08.stratFinish cfg d np sd1 r = .ok n') :
    ∃ sd' fi, n' = .strat sd' (kidsWeights cfg fi (r.2.val + r.2.coupons) r.2.notl r.1) ∧
      stratW sd' = stratW sd1 + r.2.coupons ∧ sd'.now = sd1.now := by
  unfold P08.stratFinish at h
  obtain ⟨sd3, hw, rfl⟩ := map_eq_ok h
  refine ⟨_, _, rfl, ?_, ?_⟩
  · obtain ⟨c1, _, c3, _, _, _⟩ := stratWrite_ledger hw
    obtain ⟨r1, r2, _⟩ := stratRows_rows d sd3
    simp only [stratW, r1, r2, c1, c3]; ring
  · rw [stratRows_now_L, stratWrite_now hw]

theorem sweepSec_false (s : SecData K) (acc : Acc K) : sweepSec false s acc = (s, acc) := rfl

mutual
/-- `update(d)` of a subtree that stands on `d`: no cash moves, no fee is booked, no bid/offer is paid, no
    position changes and no price is re-read — the ledger (indeed `total`) is unchanged -/
theorem updNode_D (cfg : Cfg K) (d : Nat) : ∀ (n n' : Node K), DayInv d n → updNode cfg d n = .ok n' →
    ledgerD d n' = ledgerD d n ∧ DayInv d n'
  | .sec s, n', hs, h => by
    rw [updNode] at h
    obtain ⟨s1, h1, rfl⟩ := Except.map_ok h
    rw [DayInv] at hs
    obtain ⟨e1, e2⟩ := secUpdate_WD hs h1
    rw [ledgerD_sec, ledgerD_sec, DayInv]
    exact ⟨e1, Or.inl e2⟩
  | .strat sd kids, n', hs, h => by
    rw [DayInv] at hs
    rw [P08.updNode_strat, stratDateChange_same hs.1] at h
    obtain ⟨⟨kids1, acc⟩, hk, hf⟩ := bind_eq_ok h
    obtain ⟨k1, k2, k3⟩ := updKids_D cfg d kids _ _ kids1 acc hs.2 hk
    obtain ⟨sd', fi, rfl, f1, f2⟩ := stratFinish_W hf
    obtain ⟨w1, w2⟩ := kidsWeights_D cfg d fi (acc.val + acc.coupons) acc.notl kids1
    rw [ledgerD_strat, ledgerD_strat, DayInv, w1, k1, f1, f2]
    refine ⟨?_, rfl, w2 k2⟩
    simp only at k3 ⊢
    rw [k3]; simp [stratW]
theorem updKids_D (cfg : Cfg K) (d : Nat) : ∀ (ks : List (Node K)) (bo : Bool) (acc : Acc K)
    (ks' : List (Node K)) (acc' : Acc K), DayInvL d ks → updKids cfg d false bo ks acc = .ok (ks', acc') →
    ledgerDL d ks' = ledgerDL d ks ∧ DayInvL d ks' ∧ acc'.coupons = acc.coupons
  | [], bo, acc, ks', acc', _, h => by
    rw [updKids] at h
    simp only [pure, Except.pure, Except.ok.injEq, Prod.mk.injEq] at h
    obtain ⟨rfl, rfl⟩ := h
    exact ⟨rfl, by rw [DayInvL]; trivial, rfl⟩
  | .sec s :: ks, bo, acc, ks', acc', hs, h => by
    rw [P08.updKids_sec, sweepSec_false] at h
    rw [DayInvL, DayInv] at hs
    simp only at h
    split at h
    · obtain ⟨⟨ks1, a1⟩, hrest, hr⟩ := map_eq_ok h
      simp only [Prod.mk.injEq] at hr
      obtain ⟨rfl, rfl⟩ := hr
      obtain ⟨i1, i2, i3⟩ := updKids_D cfg d ks bo acc ks1 a1 hs.2 hrest
      refine ⟨?_, by rw [DayInvL, DayInv]; exact ⟨hs.1, i2⟩, i3⟩
      rw [ledgerDL_cons, ledgerDL_cons, i1]
    · obtain ⟨s1, hs1, h⟩ := bind_eq_ok h
      obtain ⟨⟨ks1, a1⟩, hrest, hr⟩ := map_eq_ok h
      simp only [Prod.mk.injEq] at hr
      obtain ⟨rfl, rfl⟩ := hr
      obtain ⟨e1, e2⟩ := secUpdate_WD hs.1 hs1
      obtain ⟨i1, i2, i3⟩ := updKids_D cfg d ks bo _ ks1 a1 hs.2 hrest
      refine ⟨?_, by rw [DayInvL, DayInv]; exact ⟨Or.inl e2, i2⟩, by rw [i3]; rfl⟩
      rw [ledgerDL_cons, ledgerDL_cons, i1, ledgerD_sec, ledgerD_sec, e1]
  | .strat sdk kk :: ks, bo, acc, ks', acc', hs, h => by
    rw [P08.updKids_strat] at h
    rw [DayInvL] at hs
    obtain ⟨k1, hk1, h⟩ := bind_eq_ok h
    obtain ⟨⟨ks1, a1⟩, hrest, hr⟩ := map_eq_ok h
    simp only [Prod.mk.injEq] at hr
    obtain ⟨rfl, rfl⟩ := hr
    obtain ⟨e1, e2⟩ := updNode_D cfg d (.strat sdk kk) k1 hs.1 hk1
    obtain ⟨i1, i2, i3⟩ := updKids_D cfg d ks bo _ ks1 a1 hs.2 hrest
    refine ⟨?_, by rw [DayInvL]; exact ⟨e2, i2⟩, by rw [i3]; rfl⟩
    rw [ledgerDL_cons, ledgerDL_cons, i1, e1]
end

/-! ### worlds: the root is a strategy standing on `d` -/

def IsStrat (n : Node K) : Prop := ∃ sd ks, n = .strat sd ks

/-- the invariant of a day, on a world: the root is a strategy and the tree satisfies `DayInv d` -/
def DayW (d : Nat) (w : World K) : Prop := DayInv d w.root ∧ IsStrat w.root

mutual
theorem dayInv_nowsIn {d : Nat} : (n : Node K) → DayInv d n → P08.NowsIn (· = d) n
  | .sec _, _ => by simp [P08.NowsIn]
  | .strat sd ks, h => by
    rw [DayInv] at h
    simp only [P08.NowsIn]
    exact ⟨fun x hx => by rw [h.1] at hx; cases hx; rfl, dayInvL_nowsIn ks h.2⟩
theorem dayInvL_nowsIn {d : Nat} : (ks : List (Node K)) → DayInvL d ks → P08.NowsInL (· = d) ks
  | [], _ => by simp [P08.NowsInL]
  | k :: ks, h => by
    rw [DayInvL] at h
    simp only [P08.NowsInL]
    exact ⟨dayInv_nowsIn k h.1, dayInvL_nowsIn ks h.2⟩
end

theorem DayW.rootNow {d : Nat} {w : World K} (h : DayW d w) : w.root.now = some d := by
  obtain ⟨hI, sd, ks, hr⟩ := h
  rw [hr] at hI ⊢
  rw [DayInv] at hI
  exact hI.1

/-- the clocks of a world that satisfies the day invariant stand at `d` (the state `P04.AtClock d`) -/
theorem DayW.wok {d : Nat} {w : World K} (h : DayW d w) : P04.WOK (· = d) w :=
  ⟨dayInv_nowsIn _ h.1, fun x hx => by rw [h.rootNow] at hx; cases hx; rfl⟩

theorem isStrat_of_lift {Rs : SecData K → SecData K → Prop} {Rd : StratData K → StratData K → Prop}
    {n n' : Node K} (h : P04.Lift Rs Rd n n') (hs : IsStrat n) : IsStrat n' := by
  obtain ⟨sd, ks, rfl⟩ := hs
  cases n' with
  | sec s => simp at h
  | strat sd' ks' => exact ⟨sd', ks', rfl⟩

theorem DayW.of_lift {d : Nat} {w w' : World K} (hW : DayW d w)
    {Rs : SecData K → SecData K → Prop} {Rd : StratData K → StratData K → Prop}
    (hl : P04.Lift Rs Rd w.root w'.root) (hI : DayInv d w'.root) : DayW d w' :=
  ⟨hI, isStrat_of_lift hl hW.2⟩

/-- the getter refresh inside the bankruptcy step: a plain re-update on the same date -/
theorem refreshNB_D {cfg : Cfg K} {d : Nat} {w w' : World K} (hW : DayW d w) (h : refreshNB cfg w = .ok w') :
    ledgerD d w'.root = ledgerD d w.root ∧ DayW d w' := by
  have hl := P04.refreshNB_lift (P04.clockLaws cfg (· = d)) hW.wok h
  unfold refreshNB at h
  rw [hW.rootNow] at h
  simp only at h
  obtain ⟨n, hn, rfl⟩ := map_eq_ok h
  obtain ⟨e1, e2⟩ := updNode_D cfg d _ _ hW.1 hn
  exact ⟨e1, hW.of_lift hl e2⟩

theorem modify_flatF_D {cfg : Cfg K} {d : Nat} {w w' : World K} {path : List Nat} (hW : DayW d w)
    (h : w.modify path (P08.flatF cfg) = .ok w') : ledgerD d w'.root = ledgerD d w.root ∧ DayW d w' := by
  have hl := P04.modify_lift (P04.clockLaws cfg (· = d)) (fun _ _ _ _ hn hr => P04.flatF_lift (P04.clockLaws cfg (· = d)) hn hr) hW.wok h
  obtain ⟨e1, e2⟩ := modify_D d (P08.flatF cfg) 0 (fun par n n' adjs st _ hn hf => flatF_D hn hf)
    (by
      intro n n' adjs st hf
      cases n with
      | sec s => cases hf
      | strat sd ks =>
        simp only [P08.flatF] at hf
        obtain ⟨_, _, hr⟩ := map_eq_ok hf
        simp only [Prod.mk.injEq] at hr
        exact hr.2.1.symm) hW.1 h
  exact ⟨by rw [e1, add_zero], hW.of_lift hl e2⟩

/-- recursive `flatten` with any getter refresh that conserves the ledger -/
theorem flattenAt_D {cfg : Cfg K} {d : Nat} {rf : World K → Except Err (World K)}
    (hrf : ∀ w w', DayW d w → rf w = .ok w' → ledgerD d w'.root = ledgerD d w.root ∧ DayW d w')
    {n : Node K} {path : List Nat} {w w' : World K} (hW : DayW d w)
    (h : flattenAt cfg rf n path w = .ok w') : ledgerD d w'.root = ledgerD d w.root ∧ DayW d w' :=
  P08.flattenAt_inv (I := fun x => ledgerD d x.root = ledgerD d w.root ∧ DayW d x)
    (fun a b h1 hI => by
      obtain ⟨e1, e2⟩ := hrf a b hI.2 h1
      exact ⟨by rw [e1, hI.1], e2⟩)
    (fun _ a b h1 hI => by
      obtain ⟨e1, e2⟩ := modify_flatF_D hI.2 h1
      exact ⟨by rw [e1, hI.1], e2⟩)
    n path w w' h ⟨rfl, hW⟩

/-- **`root.update(d)` on a world that stands on `d`** (the refresh of every getter, the closing update of
    `Backtest.run`), bankruptcy step included: the ledger is conserved -/
theorem updRoot_D {cfg : Cfg K} {d : Nat} {w w' : World K} (hW : DayW d w) (h : updRoot cfg d w = .ok w') :
    ledgerD d w'.root = ledgerD d w.root ∧ DayW d w' := by
  have hl := (P04.updRoot_lift (P04.clockLaws cfg (· = d)) rfl h).1
  refine ⟨?_, ?_⟩ <;> revert hl
  all_goals
    obtain ⟨hI, sd, kids, hr⟩ := hW
    obtain ⟨root, st⟩ := w
    simp only at hr hI
    subst hr
    intro hl
    rw [DayInv] at hI
    rw [P08.updRoot_strat, stratDateChange_same hI.1] at h
    obtain ⟨⟨kids1, acc⟩, hk, h⟩ := bind_eq_ok h
    obtain ⟨k1, k2, k3⟩ := updKids_D cfg d kids _ _ kids1 acc hI.2 hk
    simp only at k3
  · split at h
    · obtain ⟨wF, hfl, h⟩ := bind_eq_ok h
      obtain ⟨n, hn, rfl⟩ := map_eq_ok h
      have hB : DayW d (P08.bankruptWorld { sd with now := some d } (kids1, acc)) :=
        ⟨by simp only [P08.bankruptWorld]; rw [DayInv]; exact ⟨rfl, k2⟩, _, _, rfl⟩
      obtain ⟨f1, f2⟩ := flattenAt_D (fun a b ha hb => refreshNB_D ha hb) hB hfl
      obtain ⟨g1, _⟩ := updNode_D cfg d _ _ f2.1 hn
      show ledgerD d n = _
      rw [g1, f1]
      simp only [P08.bankruptWorld]
      rw [ledgerD_strat, ledgerD_strat, k1, k3]
      simp [stratW]
    · obtain ⟨n, hf, rfl⟩ := map_eq_ok h
      obtain ⟨sd', fi, rfl, f1, f2⟩ := stratFinish_W hf
      obtain ⟨w1, _⟩ := kidsWeights_D cfg d fi (acc.val + acc.coupons) acc.notl kids1
      show ledgerD d (Node.strat sd' _) = _
      rw [ledgerD_strat, ledgerD_strat, w1, k1, f1]
      simp only
      rw [k3]; simp [stratW]
  · split at h
    · obtain ⟨wF, hfl, h⟩ := bind_eq_ok h
      obtain ⟨n, hn, rfl⟩ := map_eq_ok h
      have hB : DayW d (P08.bankruptWorld { sd with now := some d } (kids1, acc)) :=
        ⟨by simp only [P08.bankruptWorld]; rw [DayInv]; exact ⟨rfl, k2⟩, _, _, rfl⟩
      obtain ⟨_, f2⟩ := flattenAt_D (fun a b ha hb => refreshNB_D ha hb) hB hfl
      obtain ⟨_, g2⟩ := updNode_D cfg d _ _ f2.1 hn
      exact ⟨g2, isStrat_of_lift hl ⟨_, _, rfl⟩⟩
    · obtain ⟨n, hf, rfl⟩ := map_eq_ok h
      obtain ⟨sd', fi, rfl, f1, f2⟩ := stratFinish_W hf
      obtain ⟨_, w2⟩ := kidsWeights_D cfg d fi (acc.val + acc.coupons) acc.notl kids1
      exact ⟨by show DayInv d (Node.strat sd' _); rw [DayInv]; exact ⟨f2, w2 k2⟩, _, _, rfl⟩

/-- `if root.stale: root.update(root.now)` — the refresh of every getter -/
theorem refresh_D {cfg : Cfg K} {d : Nat} {w w' : World K} (hW : DayW d w) (h : refresh cfg w = .ok w') :
    ledgerD d w'.root = ledgerD d w.root ∧ DayW d w' := by
  unfold refresh at h
  split at h
  · rw [hW.rootNow] at h
    exact updRoot_D hW h
  · cases h; exact ⟨rfl, hW⟩

/-! ### the public operations on a world that stands on `d` -/

theorem opAdjust_D (cfg : Cfg K) {d : Nat} {w w' : World K} {path : List Nat} {amount : K} {u fl : Bool}
    (hW : DayW d w) (h : opAdjust w path amount u fl = .ok w') :
    ledgerD d w'.root = ledgerD d w.root + amount ∧ DayW d w' := by
  have hl := P04.opAdjust_lift (P04.clockLaws cfg (· = d)) hW.wok h
  unfold opAdjust at h
  have key := modify_D d _ amount
    (by
      intro par n n' adjs st _ hn hf
      cases n with
      | sec s => cases hf
      | strat sd kids =>
        simp only [pure, Except.pure, Except.ok.injEq, Prod.mk.injEq] at hf
        obtain ⟨rfl, rfl, _⟩ := hf
        rw [DayInv] at hn
        rw [ledgerD_strat, ledgerD_strat, DayInv]
        refine ⟨?_, hn⟩
        simp only [stratW, StratData.adjust, adjNet, adjAmounts_nil, adjFees_nil]
        ring)
    (by
      intro n n' adjs st hf
      cases n with
      | sec s => cases hf
      | strat sd kids =>
        simp only [pure, Except.pure, Except.ok.injEq, Prod.mk.injEq] at hf
        exact hf.2.1.symm) hW.1 h
  exact ⟨key.1, hW.of_lift hl key.2⟩

theorem opAllocate_D {cfg : Cfg K} {d : Nat} {w w' : World K} {path : List Nat} {amount : K} {u : Bool}
    (hW : DayW d w) (h : opAllocate cfg w path amount u = .ok w') :
    ledgerD d w'.root = ledgerD d w.root ∧ DayW d w' := by
  have hl := P04.opAllocate_lift (P04.clockLaws cfg (· = d)) hW.wok h
  unfold opAllocate at h
  have key := modify_D d _ 0
    (by
      intro par n n' adjs st hp hn hf
      rw [add_zero]
      cases n with
      | sec s =>
        cases par with
        | none => cases hf
        | some p =>
          simp only at hf
          rw [hp p rfl] at hf
          obtain ⟨⟨s', oa⟩, h3, h4⟩ := Except.map_ok hf
          simp only [Prod.mk.injEq] at h4
          obtain ⟨rfl, rfl, _⟩ := h4
          rw [DayInv] at hn
          obtain ⟨e1, e2⟩ := secAllocate_WD hn h3
          rw [ledgerD_sec, ledgerD_sec, DayInv]
          exact ⟨e1, Or.inl e2⟩
      | strat sd kids =>
        cases par with
        | none =>
          simp only at hf
          rw [adjust_cancel] at hf
          obtain ⟨⟨sd2, kids2⟩, h3, h4⟩ := Except.map_ok hf
          simp only [Prod.mk.injEq] at h4
          obtain ⟨rfl, rfl, _⟩ := h4
          rw [DayInv] at hn
          obtain ⟨e1, e2, e3⟩ := allocKids_D cfg d kids amount sd sd2 kids2 hn.1 hn.2 h3
          rw [ledgerD_strat, ledgerD_strat, DayInv]
          refine ⟨?_, e2, e3⟩
          simp only [adjNet, adjAmounts_nil, adjFees_nil]
          linear_combination e1
        | some p =>
          simp only at hf
          rw [hp p rfl] at hf
          obtain ⟨⟨n2, adjs2⟩, h3, h4⟩ := Except.map_ok hf
          simp only [Prod.mk.injEq] at h4
          obtain ⟨rfl, rfl, _⟩ := h4
          exact allocNode_D cfg d _ p.comm amount n2 adjs2 hn h3)
    (by
      intro n n' adjs st hf
      cases n with
      | sec s => cases hf
      | strat sd kids =>
        simp only at hf
        obtain ⟨_, _, h4⟩ := Except.map_ok hf
        simp only [Prod.mk.injEq] at h4
        exact h4.2.1.symm) hW.1 h
  exact ⟨by rw [key.1, add_zero], hW.of_lift hl key.2⟩

theorem opTransact_D {cfg : Cfg K} {d : Nat} {w w' : World K} {path : List Nat} {q : K} {u : Bool}
    {custom : Option K} (hW : DayW d w) (h : opTransact cfg w path q u custom = .ok w') :
    ledgerD d w'.root = ledgerD d w.root ∧ DayW d w' := by
  have hl := P04.opTransact_lift (P04.clockLaws cfg (· = d)) hW.wok h
  unfold opTransact at h
  have key := modify_D d _ 0
    (by
      intro par n n' adjs st hp hn hf
      rw [add_zero]
      cases n with
      | sec s =>
        cases par with
        | none => cases hf
        | some p =>
          simp only at hf
          rw [hp p rfl] at hf
          obtain ⟨⟨s', oa⟩, h3, h4⟩ := Except.map_ok hf
          simp only [Prod.mk.injEq] at h4
          obtain ⟨rfl, rfl, _⟩ := h4
          rw [DayInv] at hn
          obtain ⟨e1, e2⟩ := secTransact_WD hn h3
          rw [ledgerD_sec, ledgerD_sec, DayInv]
          exact ⟨e1, Or.inl e2⟩
      | strat sd kids =>
        have hf' : (transKids cfg q kids sd).map (fun x => ((Node.strat x.1 x.2 : Node K), ([] : List (Adj K)), u))
            = .ok (n', adjs, st) := by
          cases par <;> exact hf
        obtain ⟨⟨sd2, kids2⟩, h3, h4⟩ := Except.map_ok hf'
        simp only [Prod.mk.injEq] at h4
        obtain ⟨rfl, rfl, _⟩ := h4
        rw [DayInv] at hn
        obtain ⟨e1, e2, e3⟩ := transKids_D cfg d kids q sd sd2 kids2 hn.1 hn.2 h3
        rw [ledgerD_strat, ledgerD_strat, DayInv]
        refine ⟨?_, e2, e3⟩
        simp only [adjNet, adjAmounts_nil, adjFees_nil]
        linear_combination e1)
    (by
      intro n n' adjs st hf
      cases n with
      | sec s => cases hf
      | strat sd kids =>
        simp only at hf
        obtain ⟨_, _, h4⟩ := Except.map_ok hf
        simp only [Prod.mk.injEq] at h4
        exact h4.2.1.symm) hW.1 h
  exact ⟨by rw [key.1, add_zero], hW.of_lift hl key.2⟩

theorem opFlatten_D {cfg : Cfg K} {d : Nat} {w w' : World K} {path : List Nat}
    (hW : DayW d w) (h : opFlatten cfg w path = .ok w') :
    ledgerD d w'.root = ledgerD d w.root ∧ DayW d w' := by
  unfold opFlatten at h
  split at h
  · exact flattenAt_D (fun a b ha hb => refresh_D ha hb) hW h
  · cases h

theorem opClose_D {cfg : Cfg K} {d : Nat} {w w' : World K} {path : List Nat} {child : Nat} {u : Bool}
    (hW : DayW d w) (h : opClose cfg w path child u = .ok w') :
    ledgerD d w'.root = ledgerD d w.root ∧ DayW d w' := by
  unfold opClose at h
  split at h
  · obtain ⟨w1, h1, h⟩ := bind_eq_ok h
    have k1 : ledgerD d w1.root = ledgerD d w.root ∧ DayW d w1 := by
      split at h1
      · split at h1
        · exact opFlatten_D hW h1
        · cases h1; exact ⟨rfl, hW⟩
      · simp only [Bool.false_eq_true, ↓reduceIte] at h1
        cases h1; exact ⟨rfl, hW⟩
    split at h
    · split at h
      · cases h
      · split at h
        · split at h
          · obtain ⟨e1, e2⟩ := opTransact_D k1.2 h
            exact ⟨by rw [e1, k1.1], e2⟩
          · cases h; exact k1
        · cases h
    · obtain ⟨w2, h2, h⟩ := bind_eq_ok h
      obtain ⟨r1, r2⟩ := refresh_D k1.2 h2
      split at h
      · split at h
        · obtain ⟨e1, e2⟩ := opAllocate_D r2 h
          exact ⟨by rw [e1, r1, k1.1], e2⟩
        · cases h; exact ⟨by rw [r1, k1.1], r2⟩
      · cases h
  · cases h

theorem opRebalance_D {cfg : Cfg K} {d : Nat} {w w' : World K} {path : List Nat} {weight : K}
    {child : Nat} {base : Option K} {u : Bool} (hW : DayW d w)
    (h : opRebalance cfg w path weight child base u = .ok w') :
    ledgerD d w'.root = ledgerD d w.root ∧ DayW d w' := by
  unfold opRebalance at h
  split at h
  · exact opClose_D hW h
  · obtain ⟨w1, h1, h⟩ := bind_eq_ok h
    have k1 : ledgerD d w1.root = ledgerD d w.root ∧ DayW d w1 := by
      split at h1
      · exact refresh_D hW h1
      · cases h1; exact ⟨rfl, hW⟩
    obtain ⟨w2, h2, h⟩ := bind_eq_ok h
    obtain ⟨r1, r2⟩ := refresh_D k1.2 h2
    have fin : ∀ {x : World K}, (ledgerD d x.root = ledgerD d w2.root ∧ DayW d x) →
        ledgerD d x.root = ledgerD d w.root ∧ DayW d x := fun hx => ⟨by rw [hx.1, r1, k1.1], hx.2⟩
    split at h
    · simp only at h
      split at h
      · split at h
        · exact fin (opTransact_D r2 h)
        · exact fin (opAllocate_D r2 h)
      · exact fin (opAllocate_D r2 h)
    · cases h

mutual
theorem localRefreshAll_D (cfg : Cfg K) (d : Nat) : ∀ (n : Node K) (pnow : Option Nat) (n' : Node K),
    DayInv d n → localRefreshAll cfg d pnow n = .ok n' → ledgerD d n' = ledgerD d n ∧ DayInv d n'
  | .sec s, pnow, n', hs, h => by
    rw [localRefreshAll] at h
    split at h
    · obtain ⟨s1, h1, rfl⟩ := map_eq_ok h
      rw [DayInv] at hs
      obtain ⟨e1, e2⟩ := secUpdate_WD hs h1
      rw [ledgerD_sec, ledgerD_sec, DayInv]
      exact ⟨e1, Or.inl e2⟩
    · cases h; exact ⟨rfl, hs⟩
  | .strat sd kids, pnow, n', hs, h => by
    rw [localRefreshAll] at h
    obtain ⟨ks, hk, rfl⟩ := map_eq_ok h
    rw [DayInv] at hs
    obtain ⟨e1, e2⟩ := localRefreshKids_D cfg d kids sd.now ks hs.2 hk
    rw [ledgerD_strat, ledgerD_strat, DayInv, e1]
    exact ⟨rfl, hs.1, e2⟩
theorem localRefreshKids_D (cfg : Cfg K) (d : Nat) : ∀ (ks : List (Node K)) (pnow : Option Nat)
    (ks' : List (Node K)), DayInvL d ks → localRefreshKids cfg d pnow ks = .ok ks' →
    ledgerDL d ks' = ledgerDL d ks ∧ DayInvL d ks'
  | [], pnow, ks', _, h => by
    rw [localRefreshKids] at h; cases h; exact ⟨rfl, by rw [DayInvL]; trivial⟩
  | k :: ks, pnow, ks', hs, h => by
    rw [localRefreshKids] at h
    obtain ⟨k', hk, h⟩ := bind_eq_ok h
    obtain ⟨ks1, hks, rfl⟩ := map_eq_ok h
    rw [DayInvL] at hs
    obtain ⟨e1, e2⟩ := localRefreshAll_D cfg d k pnow k' hs.1 hk
    obtain ⟨f1, f2⟩ := localRefreshKids_D cfg d ks pnow ks1 hs.2 hks
    rw [ledgerDL_cons, ledgerDL_cons, e1, f1, DayInvL]
    exact ⟨rfl, e2, f2⟩
end

theorem localF_D {cfg : Cfg K} {d : Nat} {par : Option (StratData K)} {n n' : Node K} {adjs : List (Adj K)}
    {st : Bool} (hn : DayInv d n) (h : P04.localF cfg (some d) par n = .ok (n', adjs, st)) :
    ledgerD d n' + adjNet adjs = ledgerD d n + 0 ∧ DayInv d n' ∧ adjs = [] := by
  unfold P04.localF at h
  split at h
  · split at h
    · simp only at h
      obtain ⟨s', hs, hr⟩ := map_eq_ok h
      simp only [Prod.mk.injEq] at hr
      obtain ⟨rfl, rfl, _⟩ := hr
      rw [DayInv] at hn
      obtain ⟨e1, e2⟩ := secUpdate_WD hn hs
      rw [ledgerD_sec, ledgerD_sec, DayInv]
      exact ⟨by simp [adjNet, e1], Or.inl e2, rfl⟩
    · simp only [pure, Except.pure, Except.ok.injEq, Prod.mk.injEq] at h
      obtain ⟨rfl, rfl, _⟩ := h
      exact ⟨by simp [adjNet], hn, rfl⟩
  · cases h

theorem modify_localF_D {cfg : Cfg K} {d : Nat} {w w' : World K} {path : List Nat} (hW : DayW d w)
    (h : w.modify path (P04.localF cfg w.root.now) = .ok w') :
    ledgerD d w'.root = ledgerD d w.root ∧ DayW d w' := by
  have hl := P04.modify_lift (P04.clockLaws cfg (· = d))
    (fun _ _ _ _ _ hr => P04.localF_lift (P04.clockLaws cfg (· = d)) hW.wok.2 hr) hW.wok h
  rw [hW.rootNow] at h
  obtain ⟨e1, e2⟩ := modify_D d _ 0 (fun par n n' adjs st _ hn hf => ⟨(localF_D hn hf).1, (localF_D hn hf).2.1⟩)
    (fun n n' adjs st hf => by
      unfold P04.localF at hf
      cases n <;> cases hf) hW.1 h
  exact ⟨by rw [e1, add_zero], hW.of_lift hl e2⟩

/-- every getter: whatever refresh it triggers conserves the ledger -/
theorem opRead_D {cfg : Cfg K} {d : Nat} {w w' : World K} {path : List Nat} {g : Getter}
    (hW : DayW d w) (h : opRead cfg w path g = .ok w') :
    ledgerD d w'.root = ledgerD d w.root ∧ DayW d w' := by
  rw [P04.opRead_eq] at h
  cases g with
  | plain => cases h; exact ⟨rfl, hW⟩
  | stratRefreshing => exact refresh_D hW h
  | secLocal => exact modify_localF_D hW h
  | secSeries =>
    obtain ⟨w1, h1, h2⟩ := bind_eq_ok h
    obtain ⟨e1, e2⟩ := modify_localF_D hW h1
    obtain ⟨f1, f2⟩ := refresh_D e2 h2
    exact ⟨by rw [f1, e1], f2⟩
  | stratMembers =>
    obtain ⟨w1, h1, h⟩ := bind_eq_ok h
    obtain ⟨e1, e2⟩ := refresh_D hW h1
    rw [e2.rootNow] at h
    simp only at h
    have hl := P04.modify_lift (P04.clockLaws cfg (· = d))
      (fun par n r _ _ hr => by
        obtain ⟨n', hn, rfl⟩ := map_eq_ok hr
        exact P04.localRefreshAll_lift (P04.clockLaws cfg (· = d)) rfl _ _ _ hn) e2.wok h
    obtain ⟨f1, f2⟩ := modify_D d _ 0
      (by
        intro par n n' adjs st _ hn hf
        obtain ⟨n2, hn2, hr⟩ := map_eq_ok hf
        simp only [Prod.mk.injEq] at hr
        obtain ⟨rfl, rfl, _⟩ := hr
        obtain ⟨g1, g2⟩ := localRefreshAll_D cfg d n _ n2 hn hn2
        exact ⟨by simp [adjNet, g1], g2⟩)
      (by
        intro n n' adjs st hf
        obtain ⟨_, _, hr⟩ := map_eq_ok hf
        simp only [Prod.mk.injEq] at hr
        exact hr.2.1.symm) e2.1 h
    exact ⟨by rw [f1, add_zero, e1], e2.of_lift hl f2⟩

/-! ### public calls as data: what each call injects -/

/-- one call of the public API (the constructors of `P08.PublicStep` / `P04.StepC`, as data) -/
inductive PubOp (K : Type) where
  | update (d : Nat)
  | adjust (path : List Nat) (amount : K) (u fl : Bool)
  | allocate (path : List Nat) (amount : K) (u : Bool)
  | transact (path : List Nat) (q : K) (u : Bool) (custom : Option K)
  | flatten (path : List Nat)
  | close (path : List Nat) (child : Nat) (u : Bool)
  | rebalance (path : List Nat) (weight : K) (child : Nat) (base : Option K) (u : Bool)
  | read (path : List Nat) (g : Getter)

def PubOp.run (cfg : Cfg K) : PubOp K → World K → Except Err (World K)
  | .update d, w => updRoot cfg d w
  | .adjust path amount u fl, w => opAdjust w path amount u fl
  | .allocate path amount u, w => opAllocate cfg w path amount u
  | .transact path q u custom, w => opTransact cfg w path q u custom
  | .flatten path, w => opFlatten cfg w path
  | .close path child u, w => opClose cfg w path child u
  | .rebalance path weight child base u, w => opRebalance cfg w path weight child base u
  | .read path g, w => opRead cfg w path g

/-- capital the call brings in from outside the tree: the amount of an `adjust` (a flow or a non-flow
    adjustment), nothing for every other call -/
def PubOp.injected : PubOp K → K
  | .adjust _ amount _ _ => amount
  | _ => 0

/-- an explicit `root.update` is on date `d` -/
def PubOp.AtDate (d : Nat) : PubOp K → Prop
  | .update d' => d' = d
  | _ => True

def runPub (cfg : Cfg K) : List (PubOp K) → World K → Except Err (World K)
  | [], w => pure w
  | op :: ops, w => (op.run cfg w).bind (runPub cfg ops)

def injectedPub (ops : List (PubOp K)) : K := (ops.map PubOp.injected).sum

theorem publicStep_iff {cfg : Cfg K} {w w' : World K} :
    P08.PublicStep cfg w w' ↔ ∃ op : PubOp K, op.run cfg w = .ok w' := by
  constructor
  · intro h
    cases h with
    | update d h => exact ⟨.update d, h⟩
    | adjust p a u f h => exact ⟨.adjust p a u f, h⟩
    | allocate p a u h => exact ⟨.allocate p a u, h⟩
    | transact p q u c h => exact ⟨.transact p q u c, h⟩
    | flatten p h => exact ⟨.flatten p, h⟩
    | close p c u h => exact ⟨.close p c u, h⟩
    | rebalance p wt c b u h => exact ⟨.rebalance p wt c b u, h⟩
    | read p g h => exact ⟨.read p g, h⟩
  · rintro ⟨op, h⟩
    cases op with
    | update d => exact .update d h
    | adjust p a u f => exact .adjust p a u f h
    | allocate p a u => exact .allocate p a u h
    | transact p q u c => exact .transact p q u c h
    | flatten p => exact .flatten p h
    | close p c u => exact .close p c u h
    | rebalance p wt c b u => exact .rebalance p wt c b u h
    | read p g => exact .read p g h

theorem stepC_iff {cfg : Cfg K} {d : Nat} {w w' : World K} :
    P04.StepC cfg (· = d) w w' ↔ ∃ op : PubOp K, op.AtDate d ∧ op.run cfg w = .ok w' := by
  constructor
  · intro h
    cases h with
    | update d' hd h => exact ⟨.update d', hd, h⟩
    | adjust p a u f h => exact ⟨.adjust p a u f, trivial, h⟩
    | allocate p a u h => exact ⟨.allocate p a u, trivial, h⟩
    | transact p q u c h => exact ⟨.transact p q u c, trivial, h⟩
    | flatten p h => exact ⟨.flatten p, trivial, h⟩
    | close p c u h => exact ⟨.close p c u, trivial, h⟩
    | rebalance p wt c b u h => exact ⟨.rebalance p wt c b u, trivial, h⟩
    | read p g h => exact ⟨.read p g, trivial, h⟩
  · rintro ⟨op, hd, h⟩
    cases op with
    | update d' => exact .update d' hd h
    | adjust p a u f => exact .adjust p a u f h
    | allocate p a u => exact .allocate p a u h
    | transact p q u c => exact .transact p q u c h
    | flatten p => exact .flatten p h
    | close p c u => exact .close p c u h
    | rebalance p wt c b u => exact .rebalance p wt c b u h
    | read p g => exact .read p g h

theorem run_iff {cfg : Cfg K} {w w' : World K} :
    P08.Run cfg w w' ↔ ∃ ops : List (PubOp K), runPub cfg ops w = .ok w' := by
  constructor
  · intro h
    induction h with
    | nil w => exact ⟨[], rfl⟩
    | cons hs _ ih =>
      obtain ⟨op, hop⟩ := publicStep_iff.1 hs
      obtain ⟨ops, hops⟩ := ih
      exact ⟨op :: ops, by rw [runPub, hop]; exact hops⟩
  · rintro ⟨ops, h⟩
    induction ops generalizing w with
    | nil => rw [runPub] at h; cases h; exact .nil _
    | cons op ops ih =>
      rw [runPub] at h
      obtain ⟨w1, h1, h2⟩ := bind_eq_ok h
      exact .cons (publicStep_iff.2 ⟨op, h1⟩) (ih h2)

theorem runC_iff {cfg : Cfg K} {d : Nat} {w w' : World K} :
    P04.RunC cfg (· = d) w w' ↔
      ∃ ops : List (PubOp K), (∀ op ∈ ops, op.AtDate d) ∧ runPub cfg ops w = .ok w' := by
  constructor
  · intro h
    induction h with
    | nil w => exact ⟨[], by simp, rfl⟩
    | cons hs _ ih =>
      obtain ⟨op, hd, hop⟩ := stepC_iff.1 hs
      obtain ⟨ops, hds, hops⟩ := ih
      refine ⟨op :: ops, ?_, by rw [runPub, hop]; exact hops⟩
      intro o ho
      rcases List.mem_cons.1 ho with rfl | ho
      · exact hd
      · exact hds o ho
  · rintro ⟨ops, hd, h⟩
    induction ops generalizing w with
    | nil => rw [runPub] at h; cases h; exact .nil _
    | cons op ops ih =>
      rw [runPub] at h
      obtain ⟨w1, h1, h2⟩ := bind_eq_ok h
      exact .cons (stepC_iff.2 ⟨op, hd op (by simp), h1⟩) (ih (fun o ho => hd o (by simp [ho])) h2)

/-- **every public call on a world that stands on `d`** moves the ledger `total + feeSum + boDay d` by
    exactly what it injects, and keeps the invariant -/
theorem PubOp.step_D {cfg : Cfg K} {d : Nat} (op : PubOp K) {w w' : World K} (hW : DayW d w)
    (hd : op.AtDate d) (h : op.run cfg w = .ok w') :
    ledgerD d w'.root = ledgerD d w.root + op.injected ∧ DayW d w' := by
  cases op with
  | update d' =>
    cases hd
    obtain ⟨e1, e2⟩ := updRoot_D hW h
    exact ⟨by rw [e1]; simp [PubOp.injected], e2⟩
  | adjust p a u f => exact opAdjust_D cfg hW h
  | allocate p a u =>
    obtain ⟨e1, e2⟩ := opAllocate_D hW h
    exact ⟨by rw [e1]; simp [PubOp.injected], e2⟩
  | transact p q u c =>
    obtain ⟨e1, e2⟩ := opTransact_D hW h
    exact ⟨by rw [e1]; simp [PubOp.injected], e2⟩
  | flatten p =>
    obtain ⟨e1, e2⟩ := opFlatten_D hW h
    exact ⟨by rw [e1]; simp [PubOp.injected], e2⟩
  | close p c u =>
    obtain ⟨e1, e2⟩ := opClose_D hW h
    exact ⟨by rw [e1]; simp [PubOp.injected], e2⟩
  | rebalance p wt c b u =>
    obtain ⟨e1, e2⟩ := opRebalance_D hW h
    exact ⟨by rw [e1]; simp [PubOp.injected], e2⟩
  | read p g =>
    obtain ⟨e1, e2⟩ := opRead_D hW h
    exact ⟨by rw [e1]; simp [PubOp.injected], e2⟩

theorem runPub_D {cfg : Cfg K} {d : Nat} : ∀ (ops : List (PubOp K)) {w w' : World K}, DayW d w →
    (∀ op ∈ ops, op.AtDate d) → runPub cfg ops w = .ok w' →
    ledgerD d w'.root = ledgerD d w.root + injectedPub ops ∧ DayW d w'
  | [], w, w', hW, _, h => by
    rw [runPub] at h; cases h
    exact ⟨by simp [injectedPub], hW⟩
  | op :: ops, w, w', hW, hd, h => by
    rw [runPub] at h
    obtain ⟨w1, h1, h2⟩ := bind_eq_ok h
    obtain ⟨e1, e2⟩ := op.step_D hW (hd op (by simp)) h1
    obtain ⟨f1, f2⟩ := runPub_D ops e2 (fun o ho => hd o (by simp [ho])) h2
    refine ⟨?_, f2⟩
    rw [f1, e1]
    simp only [injectedPub, List.map_cons, List.sum_cons]; ring

/-- the ledger in the three measures -/
theorem ledger_split {d : Nat} {n n' : Node K} {x : K} (h : ledgerD d n' = ledgerD d n + x) :
    total n' - total n = x - (feeSum n' - feeSum n) - (boDay d n' - boDay d n) := by
  rw [ledgerD_eq, ledgerD_eq] at h
  linear_combination h

/-! ### the opening update of a new date -/

/-- first `update(d)` of a security that is not on `d` yet: its worth moves by the mark-to-market change,
    the bid/offer it carries for `d` is what `secBoDay d` announced -/
theorem secUpdate_open {cfg : Cfg K} {d : Nat} {s t : SecData K} (hn : s.now ≠ some d)
    (h : secUpdate cfg d s = .ok t) : secWD d t = secWD d s + secMtm d s ∧ t.now = some d := by
  obtain ⟨h1, h2, h3, _, h5, _, _⟩ := secUpdate_coreD h
  have hnow := secUpdate_now_D h
  obtain ⟨p1, p2, _⟩ := secDateChange_pos_mult d s
  refine ⟨?_, hnow⟩
  unfold secWD secMtm
  rw [secWorth_eq, secWorth_eq, secBoDay_at hnow, h1, h2, h3, h5, p1, p2, secDateChange_price_new hn]
  unfold secBoDay
  ring

theorem sweepSec_true (s : SecData K) (acc : Acc K) :
    sweepSec true s acc = ({ s with capital := 0 }, { acc with coupons := acc.coupons + s.capital }) := rfl

theorem secWD_capital (d : Nat) (s : SecData K) (c : K) : secWD d { s with capital := c } = secWD d s :=
  secCoreEq_WD d ⟨rfl, rfl, rfl, rfl, rfl, rfl, rfl⟩

theorem mtmAll_strat (d : Nat) (sd : StratData K) (ks : List (Node K)) :
    mtmAll d (.strat sd ks) = kidsSum (secMtm d) (fun _ => 0) ks := by
  rw [mtmAll, nodeSum]; simp
theorem parkedAll_strat (sd : StratData K) (ks : List (Node K)) :
    parkedAll (.strat sd ks) = kidsSum (fun s => s.capital) (fun _ => 0) ks := by
  rw [parkedAll, nodeSum]; simp

mutual
/-- **first `update(d)` of a subtree none of whose nodes is on `d` yet**: relative to the ledger as seen from
    the earlier date (`total + feeDay d + boDay d`) the ledger moves by the mark-to-market change of every
    security plus the cash parked on the securities, which is swept into their parents (the cash parked on the
    node itself is swept by its own parent: `parkedOf`) -/
theorem updNode_open (cfg : Cfg K) (d : Nat) : ∀ (n n' : Node K), n.fresh d → updNode cfg d n = .ok n' →
    ledgerD d n' + parkedOf n = ledgerD0 d n + mtmAll d n + parkedAll n ∧ DayInv d n'
  | .sec s, n', hf, h => by
    rw [updNode] at h
    obtain ⟨s1, h1, rfl⟩ := Except.map_ok h
    rw [Node.fresh] at hf
    obtain ⟨e1, e2⟩ := secUpdate_open hf.1 h1
    rw [ledgerD_sec, ledgerD0_sec, DayInv, parkedOf, mtmAll, parkedAll, nodeSum, nodeSum, e1]
    exact ⟨rfl, Or.inl e2⟩
  | .strat sd kids, n', hf, h => by
    rw [Node.fresh] at hf
    have hnp := stratDateChange_newpt_L d sd hf.1
    rw [P08.updNode_strat, hnp] at h
    obtain ⟨⟨kids1, acc⟩, hk, hfin⟩ := bind_eq_ok h
    obtain ⟨k1, k2⟩ := updKids_open cfg d kids _ _ kids1 acc hf.2 hk
    obtain ⟨sd', fi, rfl, f1, f2⟩ := stratFinish_W hfin
    obtain ⟨w1, w2⟩ := kidsWeights_D cfg d fi (acc.val + acc.coupons) acc.notl kids1
    have hcap := (stratDateChange_rows d sd).1
    have hsw : stratW (stratDateChange d sd).1 = stratWD d sd := by
      unfold stratW stratWD stratFeeDay; rw [hcap]
    rw [ledgerD_strat, ledgerD0_strat, DayInv, parkedOf, mtmAll_strat, parkedAll_strat, w1, f1, f2, hsw]
    refine ⟨?_, (stratDateChange_static d sd).1, w2 k2⟩
    simp only [sub_zero] at k1
    linear_combination k1
theorem updKids_open (cfg : Cfg K) (d : Nat) : ∀ (ks : List (Node K)) (bo : Bool) (acc : Acc K)
    (ks' : List (Node K)) (acc' : Acc K), Node.freshKids d ks → updKids cfg d true bo ks acc = .ok (ks', acc') →
    ledgerDL d ks' + (acc'.coupons - acc.coupons) =
      ledgerD0L d ks + kidsSum (secMtm d) (fun _ => 0) ks + kidsSum (fun s => s.capital) (fun _ => 0) ks ∧
    DayInvL d ks'
  | [], bo, acc, ks', acc', _, h => by
    rw [updKids] at h
    simp only [pure, Except.pure, Except.ok.injEq, Prod.mk.injEq] at h
    obtain ⟨rfl, rfl⟩ := h
    exact ⟨by simp [ledgerDL_nil, ledgerD0L_nil, kidsSum], by rw [DayInvL]; trivial⟩
  | .sec s :: ks, bo, acc, ks', acc', hf, h => by
    rw [P08.updKids_sec, sweepSec_true] at h
    rw [Node.freshKids, Node.fresh] at hf
    obtain ⟨⟨hnow, hflat⟩, hrest⟩ := hf
    simp only at h
    split at h
    · rename_i hnu
      have hnu' : s.needupdate = false := by simpa using hnu
      have hp := hflat hnu'
      obtain ⟨⟨ks1, a1⟩, hr1, hr⟩ := map_eq_ok h
      simp only [Prod.mk.injEq] at hr
      obtain ⟨rfl, rfl⟩ := hr
      obtain ⟨i1, i2⟩ := updKids_open cfg d ks bo _ ks1 a1 hrest hr1
      simp only at i1
      refine ⟨?_, by rw [DayInvL, DayInv]; exact ⟨Or.inr hp, i2⟩⟩
      have hm : secMtm d s = 0 := by unfold secMtm; rw [hp]; ring
      rw [ledgerDL_cons, ledgerD0L_cons, ledgerD_sec, ledgerD0_sec, secWD_capital d s 0]
      simp only [kidsSum, nodeSum, hm]
      linear_combination i1
    · obtain ⟨s1, hs1, h⟩ := bind_eq_ok h
      obtain ⟨⟨ks1, a1⟩, hr1, hr⟩ := map_eq_ok h
      simp only [Prod.mk.injEq] at hr
      obtain ⟨rfl, rfl⟩ := hr
      obtain ⟨e1, e2⟩ := secUpdate_open (s := { s with capital := 0 }) hnow hs1
      obtain ⟨i1, i2⟩ := updKids_open cfg d ks bo _ ks1 a1 hrest hr1
      have hc : (accAdd bo { acc with coupons := acc.coupons + s.capital } (.sec s1)).coupons
          = acc.coupons + s.capital := rfl
      rw [hc] at i1
      refine ⟨?_, by rw [DayInvL, DayInv]; exact ⟨Or.inl e2, i2⟩⟩
      have hm : secMtm d { s with capital := 0 } = secMtm d s := rfl
      rw [secWD_capital d s 0, hm] at e1
      rw [ledgerDL_cons, ledgerD0L_cons, ledgerD_sec, ledgerD0_sec, e1]
      simp only [kidsSum, nodeSum]
      linear_combination i1
  | .strat sdk kk :: ks, bo, acc, ks', acc', hf, h => by
    rw [P08.updKids_strat] at h
    rw [Node.freshKids] at hf
    obtain ⟨k1, hk1, h⟩ := bind_eq_ok h
    obtain ⟨⟨ks1, a1⟩, hr1, hr⟩ := map_eq_ok h
    simp only [Prod.mk.injEq] at hr
    obtain ⟨rfl, rfl⟩ := hr
    obtain ⟨e1, e2⟩ := updNode_open cfg d (.strat sdk kk) k1 hf.1 hk1
    obtain ⟨i1, i2⟩ := updKids_open cfg d ks bo _ ks1 a1 hf.2 hr1
    have hc : (accAdd bo acc k1).coupons = acc.coupons := rfl
    rw [hc] at i1
    refine ⟨?_, by rw [DayInvL]; exact ⟨e2, i2⟩⟩
    rw [parkedOf, mtmAll, parkedAll] at e1
    rw [ledgerDL_cons, ledgerD0L_cons]
    simp only [kidsSum]
    linear_combination i1 + e1
end

/-- **the opening `root.update(d)` of a new date** (no node is on `d` yet; skipped securities are exactly flat),
    bankruptcy step included: the ledger of date `d` starts at the ledger as seen from the earlier date plus the
    mark-to-market change of every position plus the coupons less holding costs parked at the earlier date;
    afterwards the world satisfies the day invariant -/
theorem updRoot_open {cfg : Cfg K} {d : Nat} {w w' : World K} (hs : IsStrat w.root) (hf : w.root.fresh d)
    (h : updRoot cfg d w = .ok w') :
    ledgerD d w'.root = ledgerD0 d w.root + mtmAll d w.root + parkedAll w.root ∧ DayW d w' := by
  have hl := (P04.updRoot_lift (P04.clockLaws cfg (· = d)) rfl h).1
  have hs' := isStrat_of_lift hl hs
  obtain ⟨sd, kids, hr⟩ := hs
  obtain ⟨root, st⟩ := w
  simp only at hr hf hs' ⊢
  subst hr
  rw [Node.fresh] at hf
  have hnp := stratDateChange_newpt_L d sd hf.1
  rw [P08.updRoot_strat, hnp] at h
  obtain ⟨⟨kids1, acc⟩, hk, h⟩ := bind_eq_ok h
  obtain ⟨k1, k2⟩ := updKids_open cfg d kids _ _ kids1 acc hf.2 hk
  simp only [sub_zero] at k1
  have hcap := (stratDateChange_rows d sd).1
  have hnow := (stratDateChange_static d sd).1
  have hsw : stratW (stratDateChange d sd).1 = stratWD d sd := by
    unfold stratW stratWD stratFeeDay; rw [hcap]
  have hgoal : stratW (stratDateChange d sd).1 + acc.coupons + ledgerDL d kids1 =
      ledgerD0 d (.strat sd kids) + mtmAll d (.strat sd kids) + parkedAll (.strat sd kids) := by
    rw [ledgerD0_strat, mtmAll_strat, parkedAll_strat, hsw]
    linear_combination k1
  split at h
  · obtain ⟨wF, hfl, h⟩ := bind_eq_ok h
    obtain ⟨n, hn, rfl⟩ := map_eq_ok h
    have hB : DayW d (P08.bankruptWorld (stratDateChange d sd).1 (kids1, acc)) :=
      ⟨by simp only [P08.bankruptWorld]; rw [DayInv]; exact ⟨hnow, k2⟩, _, _, rfl⟩
    obtain ⟨f1, f2⟩ := flattenAt_D (fun a b ha hb => refreshNB_D ha hb) hB hfl
    obtain ⟨g1, g2⟩ := updNode_D cfg d _ _ f2.1 hn
    refine ⟨?_, g2, hs'⟩
    show ledgerD d n = _
    rw [g1, f1, ← hgoal]
    simp only [P08.bankruptWorld]
    rw [ledgerD_strat]
    simp only [stratW]; ring
  · obtain ⟨n, hfin, rfl⟩ := map_eq_ok h
    obtain ⟨sd', fi, rfl, f1, f2⟩ := stratFinish_W hfin
    obtain ⟨w1, w2⟩ := kidsWeights_D cfg d fi (acc.val + acc.coupons) acc.notl kids1
    refine ⟨?_, by show DayInv d (Node.strat sd' _); rw [DayInv]; exact ⟨by rw [f2]; exact hnow, w2 k2⟩, hs'⟩
    show ledgerD d (Node.strat sd' _) = _
    rw [ledgerD_strat, w1, f1, ← hgoal]

/-! ### the balance-sheet identity after `root.update` (C01), in terms of `total` -/

/-- a tree balanced at every strategy over all children, every security marked at its current position:
    `value = total` at every node (under `DustFree` the "within `TOL`" alternative of C01 is an equality) -/
theorem value_eq_total {cfg : Cfg K} (hdf : DustFree cfg) :
    (∀ n : Node K, BalancedAll cfg n → AllSecs SecMarkedPos n → n.value = total n) ∧
    (∀ ks : List (Node K), BalancedAllKids cfg ks → AllSecsKids SecMarkedPos ks →
      sumOf Node.value ks = totalKids ks) := by
  apply Node.induct
  · intro s _ hm
    simp only [AllSecs_sec] at hm
    rw [total_sec, secWorth, Node.value]
    cases hp : s.price with
    | none => exact hm.2 hp
    | some p => exact hm.1 p hp
  · intro sd kids ih hb hm
    simp only [BalancedAll, TreeAll] at hb
    simp only [AllSecs_strat] at hm
    have hk := ih hb.2 hm
    rw [total_strat, Node.value, ← hk]
    rcases hb.1.value with h1 | h1
    · exact h1
    · have := hdf _ ((isZero_iff cfg.tol _).2 h1)
      exact sub_eq_zero.1 this
  · intro _ _; rw [totalKids_nil]; rfl
  · intro k ks ihk ihks hb hm
    simp only [BalancedAllKids, TreeAllKids] at hb
    simp only [AllSecsKids_cons] at hm
    rw [totalKids_cons, sumOf, ihk hb.1 hm.1, ihks hb.2 hm.2]

/-- **after any `root.update`** of a quiet, marked tree in a dust-free configuration the root's value is
    `total`: cash of every strategy plus `position × price × multiplier` of every security
    (C01 `updRoot_balanced`, `updNode_markedPos`) -/
theorem updRoot_value_total {cfg : Cfg K} (hdf : DustFree cfg) {d : Nat} {w w' : World K}
    (hq : Quiet w.root) (hm : AllSecs SecMarked w.root) (h : updRoot cfg d w = .ok w') :
    w'.root.value = total w'.root := by
  obtain ⟨_, n0, h0, hu, _, hall, _⟩ := C01.updRoot_balanced cfg d w w' h
  have hq0 : Quiet n0 := hdf.secInv.keep_updRoot_tree hq h0
  have hm0 : AllSecs SecMarked n0 := (secInv_marked cfg).keep_updRoot_tree hm h0
  have hn0 := hdf.noDust.1 n0
  exact (value_eq_total hdf).1 _ (hall hq0 hn0).1 (updNode_markedPos hu hm0 hq0 hn0)

/-! ### security invariants and clocks along a run of public calls (via the generic lift of `CausalLift`) -/

/-- an invariant of securities in the sense of `SecInv`, as one-node laws -/
theorem secInvPre {cfg : Cfg K} (C : Nat → Prop) {I : SecData K → Prop} (hI : SecInv cfg I) :
    P04.PreLaws cfg C (fun s s' => I s → I s') (fun _ _ => True) where
  rsRefl _ h := h
  rsTrans h1 h2 h := h2 (h1 h)
  rdRefl _ := trivial
  rdTrans _ _ := trivial
  secUpdate _ hu hs := hI.update _ _ _ hs hu
  secTrade {comm s q custom r} hu hs := hI.transact comm s q custom r.1 r.2 hs hu
  sweep np s acc hs := hI.keep_sweep np s acc hs
  secWeight s w hs := hI.weight s w hs
  dateChange _ _ := trivial
  capital _ _ := trivial
  write _ _ := trivial
  rows _ _ := trivial
  adjust _ _ := trivial
  stratWeight _ _ := trivial
  bankrupt _ := trivial

mutual
theorem lift_allSecs {I : SecData K → Prop} {Rs : SecData K → SecData K → Prop}
    {Rd : StratData K → StratData K → Prop} (hR : ∀ s s', Rs s s' → I s → I s') :
    (n n' : Node K) → P04.Lift Rs Rd n n' → AllSecs I n → AllSecs I n'
  | .sec s, .sec s', h, ha => by
    simp only [P04.lift_sec] at h
    simp only [AllSecs_sec] at ha ⊢
    exact hR _ _ h ha
  | .strat sd ks, .strat sd' ks', h, ha => by
    simp only [P04.lift_strat] at h
    simp only [AllSecs_strat] at ha ⊢
    exact liftL_allSecs hR ks ks' h.2 ha
  | .sec _, .strat _ _, h, _ => by simp at h
  | .strat _ _, .sec _, h, _ => by simp at h
theorem liftL_allSecs {I : SecData K → Prop} {Rs : SecData K → SecData K → Prop}
    {Rd : StratData K → StratData K → Prop} (hR : ∀ s s', Rs s s' → I s → I s') :
    (ks ks' : List (Node K)) → P04.LiftL Rs Rd ks ks' → AllSecsKids I ks → AllSecsKids I ks'
  | [], [], _, _ => by simp
  | k :: ks, k' :: ks', h, ha => by
    simp only [P04.liftL_cons] at h
    simp only [AllSecsKids_cons] at ha ⊢
    exact ⟨lift_allSecs hR k k' h.1 ha.1, liftL_allSecs hR ks ks' h.2 ha.2⟩
  | [], _ :: _, h, _ => by simp at h
  | _ :: _, [], h, _ => by simp at h
end

/-- `AllSecs I` is kept by any sequence of public calls (getter refreshes included) -/
theorem SecInv.keep_runC {cfg : Cfg K} {I : SecData K → Prop} (hI : SecInv cfg I) {C : Nat → Prop}
    {w w' : World K} (hw : P04.WOK C w) (h : P04.RunC cfg C w w') (ha : AllSecs I w.root) : AllSecs I w'.root :=
  lift_allSecs (fun _ _ hr => hr.1) _ _ (h.lift (secInvPre C hI).withClock hw).1 ha

mutual
/-- every clock of the tree (strategies and securities) that is set lies in `C` -/
def ClocksIn (C : Nat → Prop) : Node K → Prop
  | .sec s => P04.Ck C s.now
  | .strat sd ks => P04.Ck C sd.now ∧ ClocksInL C ks
def ClocksInL (C : Nat → Prop) : List (Node K) → Prop
  | [] => True
  | k :: ks => ClocksIn C k ∧ ClocksInL C ks
end

mutual
theorem lift_clocksIn {C : Nat → Prop} :
    (n n' : Node K) → P04.Lift (P04.NowS C) (P04.NowD C) n n' → ClocksIn C n → ClocksIn C n'
  | .sec s, .sec s', h, hc => by
    simp only [P04.lift_sec] at h
    rw [ClocksIn] at hc ⊢
    exact h hc
  | .strat sd ks, .strat sd' ks', h, hc => by
    simp only [P04.lift_strat] at h
    rw [ClocksIn] at hc ⊢
    exact ⟨h.1 hc.1, liftL_clocksIn ks ks' h.2 hc.2⟩
  | .sec _, .strat _ _, h, _ => by simp at h
  | .strat _ _, .sec _, h, _ => by simp at h
theorem liftL_clocksIn {C : Nat → Prop} :
    (ks ks' : List (Node K)) → P04.LiftL (P04.NowS C) (P04.NowD C) ks ks' → ClocksInL C ks → ClocksInL C ks'
  | [], [], _, _ => by rw [ClocksInL]; trivial
  | k :: ks, k' :: ks', h, hc => by
    simp only [P04.liftL_cons] at h
    rw [ClocksInL] at hc ⊢
    exact ⟨lift_clocksIn k k' h.1 hc.1, liftL_clocksIn ks ks' h.2 hc.2⟩
  | [], _ :: _, h, _ => by simp at h
  | _ :: _, [], h, _ => by simp at h
end

mutual
theorem clocksIn_mono {P Q : Nat → Prop} (h : ∀ x, P x → Q x) : (n : Node K) → ClocksIn P n → ClocksIn Q n
  | .sec s, hc => by rw [ClocksIn] at hc ⊢; exact fun x hx => h x (hc x hx)
  | .strat sd ks, hc => by
    rw [ClocksIn] at hc ⊢
    exact ⟨fun x hx => h x (hc.1 x hx), clocksInL_mono h ks hc.2⟩
theorem clocksInL_mono {P Q : Nat → Prop} (h : ∀ x, P x → Q x) : (ks : List (Node K)) → ClocksInL P ks → ClocksInL Q ks
  | [], _ => by rw [ClocksInL]; trivial
  | k :: ks, hc => by
    rw [ClocksInL] at hc ⊢
    exact ⟨clocksIn_mono h k hc.1, clocksInL_mono h ks hc.2⟩
end

mutual
theorem clocks_nowsIn {C : Nat → Prop} : (n : Node K) → ClocksIn C n → P08.NowsIn C n
  | .sec _, _ => by simp [P08.NowsIn]
  | .strat sd ks, hc => by
    rw [ClocksIn] at hc
    simp only [P08.NowsIn]
    exact ⟨hc.1, clocksL_nowsIn ks hc.2⟩
theorem clocksL_nowsIn {C : Nat → Prop} : (ks : List (Node K)) → ClocksInL C ks → P08.NowsInL C ks
  | [], _ => by simp [P08.NowsInL]
  | k :: ks, hc => by
    rw [ClocksInL] at hc
    simp only [P08.NowsInL]
    exact ⟨clocks_nowsIn k hc.1, clocksL_nowsIn ks hc.2⟩
end

mutual
/-- a quiet tree whose clocks are all `≤ t` is fresh for every later date -/
theorem fresh_of_clocks {t d : Nat} (htd : t < d) : (n : Node K) → ClocksIn (· ≤ t) n → Quiet n → n.fresh d
  | .sec s, hc, hq => by
    rw [ClocksIn] at hc
    simp only [Quiet, AllSecs_sec] at hq
    rw [Node.fresh]
    exact ⟨fun hn => by have := hc d hn; omega, fun hnu => (hq hnu).1⟩
  | .strat sd ks, hc, hq => by
    rw [ClocksIn] at hc
    simp only [Quiet, AllSecs_strat] at hq
    rw [Node.fresh]
    exact ⟨fun hn => by have := hc.1 d hn; omega, freshKids_of_clocks htd ks hc.2 hq⟩
theorem freshKids_of_clocks {t d : Nat} (htd : t < d) : (ks : List (Node K)) → ClocksInL (· ≤ t) ks →
    AllSecsKids SecQuiet ks → Node.freshKids d ks
  | [], _, _ => by rw [Node.freshKids]; trivial
  | k :: ks, hc, hq => by
    rw [ClocksInL] at hc
    simp only [AllSecsKids_cons] at hq
    rw [Node.freshKids]
    exact ⟨fresh_of_clocks htd k hc.1 hq.1, freshKids_of_clocks htd ks hc.2 hq.2⟩
end

/-! ### one pass of the loop of `Backtest.run` -/

/-- `ops` is a trace of the public calls of the day `d` that leads from the close `w0` of the earlier date to
    the close `w2` of `d`: the opening update gives `w1`; if the root is bankrupt then nothing else happens,
    else `Strategy.run()` (whose effect on the tree is that of the calls `ops`, explicit updates on `d` only)
    gives `wr` and the closing update gives `w2` -/
def DayTrace (cfg : Cfg K) (run : RunFn K) (d : Nat) (w0 w2 : World K) (ops : List (PubOp K)) : Prop :=
  ∃ w1, updRoot cfg d w0 = .ok w1 ∧ (∀ op ∈ ops, op.AtDate d) ∧
    ((w1.bankrupt = true ∧ ops = [] ∧ w2 = w1) ∨
     (w1.bankrupt = false ∧ ∃ wr, run d w1 = .ok wr ∧ runPub cfg ops w1 = .ok wr ∧ updRoot cfg d wr = .ok w2))

/-- the right-hand side of the attribution of one day -/
def dayTerm (d : Nat) (w0 w2 : World K) (inj : K) : K :=
  mtmAll d w0.root + parkedAll w0.root + inj - (feeSum w2.root - feeDay d w0.root)
    - (boDay d w2.root - boDay d w0.root)

/-- every day of a backtest whose algos are public has a trace -/
theorem btDay_trace {cfg : Cfg K} {run : RunFn K} (hpub : P04.RunPublic cfg run) {d : Nat} {w0 w2 : World K}
    (hs : IsStrat w0.root) (hf : w0.root.fresh d) (h : btDay cfg run d w0 = .ok w2) :
    ∃ ops, DayTrace cfg run d w0 w2 ops := by
  unfold btDay at h
  obtain ⟨w1, h1, h⟩ := bind_eq_ok h
  obtain ⟨_, hW1⟩ := updRoot_open hs hf h1
  split at h
  · rename_i hb
    have e : w2 = w1 := by cases h; rfl
    subst e
    exact ⟨[], w2, h1, by simp, Or.inl ⟨hb, rfl, rfl⟩⟩
  · rename_i hb
    obtain ⟨wr, hr, h2⟩ := bind_eq_ok h
    obtain ⟨ops, hd, hops⟩ := runC_iff.1 (hpub d w1 wr hW1.wok hr)
    exact ⟨ops, w1, h1, hd, Or.inr ⟨by simpa using hb, wr, hr, hops, h2⟩⟩

/-- conversely a trace determines the day -/
theorem DayTrace.btDay {cfg : Cfg K} {run : RunFn K} {d : Nat} {w0 w2 : World K} {ops : List (PubOp K)}
    (ht : DayTrace cfg run d w0 w2 ops) : btDay cfg run d w0 = .ok w2 := by
  obtain ⟨w1, h1, _, ⟨hb, _, rfl⟩ | ⟨hb, wr, hr, _, h2⟩⟩ := ht
  · unfold Bt.btDay; rw [h1]; simp [Except.bind, hb, pure, Except.pure]
  · unfold Bt.btDay; rw [h1]; simp [Except.bind, hb, hr, h2]

/-- the ledger over one day -/
theorem DayTrace.ledger {cfg : Cfg K} {run : RunFn K} {d : Nat} {w0 w2 : World K} {ops : List (PubOp K)}
    (hs : IsStrat w0.root) (hf : w0.root.fresh d) (ht : DayTrace cfg run d w0 w2 ops) :
    ledgerD d w2.root = ledgerD0 d w0.root + mtmAll d w0.root + parkedAll w0.root + injectedPub ops ∧
    DayW d w2 := by
  obtain ⟨w1, h1, hd, ⟨_, rfl, rfl⟩ | ⟨_, wr, _, hops, h2⟩⟩ := ht
  · obtain ⟨e1, e2⟩ := updRoot_open hs hf h1
    exact ⟨by rw [e1]; simp [injectedPub], e2⟩
  · obtain ⟨e1, e2⟩ := updRoot_open hs hf h1
    obtain ⟨f1, f2⟩ := runPub_D ops e2 hd hops
    obtain ⟨g1, g2⟩ := updRoot_D f2 h2
    exact ⟨by rw [g1, f1, e1], g2⟩

/-- … in terms of `total`: no hypothesis on `TOL`, on balance or on the algos other than publicity -/
theorem DayTrace.total {cfg : Cfg K} {run : RunFn K} {d : Nat} {w0 w2 : World K} {ops : List (PubOp K)}
    (hs : IsStrat w0.root) (hf : w0.root.fresh d) (ht : DayTrace cfg run d w0 w2 ops) :
    total w2.root - total w0.root = dayTerm d w0 w2 (injectedPub ops) := by
  obtain ⟨e1, _⟩ := ht.ledger hs hf
  rw [ledgerD_eq, ledgerD0_eq] at e1
  unfold dayTerm
  linear_combination e1

/-- two traces of the same day inject the same amount -/
theorem DayTrace.injected_unique {cfg : Cfg K} {run : RunFn K} {d : Nat} {w0 w2 : World K}
    {ops ops' : List (PubOp K)} (hs : IsStrat w0.root) (hf : w0.root.fresh d)
    (ht : DayTrace cfg run d w0 w2 ops) (ht' : DayTrace cfg run d w0 w2 ops') :
    injectedPub ops = injectedPub ops' := by
  have e1 := (ht.ledger hs hf).1
  have e2 := (ht'.ledger hs hf).1
  linear_combination e2 - e1

/-- what is known of the world at the close of date `t` and carried to the next date -/
structure CloseInv (t : Nat) (w : World K) : Prop where
  strat : IsStrat w.root
  day : DayInv t w.root
  clocks : ClocksIn (· ≤ t) w.root
  quiet : Quiet w.root
  marked : AllSecs SecMarked w.root
  balanced : w.root.value = Bt.total w.root

theorem CloseInv.fresh {t d : Nat} {w : World K} (h : CloseInv t w) (htd : t < d) : w.root.fresh d :=
  fresh_of_clocks htd _ h.clocks h.quiet

theorem updRoot_clocks {cfg : Cfg K} {d : Nat} {w w' : World K} (hc : ClocksIn (· ≤ d) w.root)
    (h : updRoot cfg d w = .ok w') : ClocksIn (· ≤ d) w'.root :=
  lift_clocksIn _ _ (P04.updRoot_lift (P04.clockLaws cfg (· ≤ d)) (le_refl d) h).1 hc

theorem runPub_clocks {cfg : Cfg K} {d : Nat} {ops : List (PubOp K)} {w w' : World K} (hW : DayW d w)
    (hd : ∀ op ∈ ops, op.AtDate d) (hc : ClocksIn (· ≤ d) w.root) (h : runPub cfg ops w = .ok w') :
    ClocksIn (· ≤ d) w'.root := by
  have hr : P04.RunC cfg (· ≤ d) w w' := (runC_iff.2 ⟨ops, hd, h⟩).mono (fun x hx => le_of_eq hx)
  exact lift_clocksIn _ _ (hr.lift (P04.clockLaws cfg (· ≤ d)) (P04.wok_mono (fun x hx => le_of_eq hx) hW.wok)).1 hc

theorem runPub_allSecs {cfg : Cfg K} {I : SecData K → Prop} (hI : SecInv cfg I) {d : Nat}
    {ops : List (PubOp K)} {w w' : World K} (hW : DayW d w) (hd : ∀ op ∈ ops, op.AtDate d)
    (ha : AllSecs I w.root) (h : runPub cfg ops w = .ok w') : AllSecs I w'.root :=
  SecInv.keep_runC hI hW.wok (runC_iff.2 ⟨ops, hd, h⟩) ha

/-- the close of `d` again satisfies what was assumed of the close of the earlier date -/
theorem DayTrace.close {cfg : Cfg K} (hdf : DustFree cfg) {run : RunFn K} {t d : Nat} {w0 w2 : World K}
    {ops : List (PubOp K)} (htd : t < d) (hc : CloseInv t w0) (ht : DayTrace cfg run d w0 w2 ops) :
    CloseInv d w2 := by
  have hW2 := (ht.ledger hc.strat (hc.fresh htd)).2
  have hc0 : ClocksIn (· ≤ d) w0.root := clocksIn_mono (fun x hx => by omega) _ hc.clocks
  obtain ⟨w1, h1, hd, ⟨_, rfl, rfl⟩ | ⟨_, wr, _, hops, h2⟩⟩ := ht
  · exact ⟨hW2.2, hW2.1, updRoot_clocks hc0 h1, hdf.secInv.keep_updRoot hc.quiet h1,
      (secInv_marked cfg).keep_updRoot hc.marked h1, updRoot_value_total hdf hc.quiet hc.marked h1⟩
  · have hW1 := (updRoot_open hc.strat (hc.fresh htd) h1).2
    have q1 := hdf.secInv.keep_updRoot hc.quiet h1
    have m1 := (secInv_marked cfg).keep_updRoot hc.marked h1
    have qr := runPub_allSecs hdf.secInv hW1 hd q1 hops
    have mr := runPub_allSecs (secInv_marked cfg) hW1 hd m1 hops
    exact ⟨hW2.2, hW2.1, updRoot_clocks (runPub_clocks hW1 hd (updRoot_clocks hc0 h1) hops) h2,
      hdf.secInv.keep_updRoot qr h2, (secInv_marked cfg).keep_updRoot mr h2, updRoot_value_total hdf qr mr h2⟩

/-- **one day, in terms of the root's value** -/
theorem DayTrace.value {cfg : Cfg K} (hdf : DustFree cfg) {run : RunFn K} {t d : Nat} {w0 w2 : World K}
    {ops : List (PubOp K)} (htd : t < d) (hc : CloseInv t w0) (ht : DayTrace cfg run d w0 w2 ops) :
    w2.root.value - w0.root.value = dayTerm d w0 w2 (injectedPub ops) := by
  rw [(ht.close hdf htd hc).balanced, hc.balanced]
  exact ht.total hc.strat (hc.fresh htd)

/-! ### the loop -/

/-- `t < d₁ < d₂ < …` -/
def Increasing : Nat → List Nat → Prop
  | _, [] => True
  | t, d :: ds => t < d ∧ Increasing d ds

def lastDate : Nat → List Nat → Nat
  | t, [] => t
  | _, d :: ds => lastDate d ds

/-- the loop of `Backtest.run` over the dates `ds` from `w0` to `wN` together with a trace of every day;
    the last component is the sum of the daily attribution terms -/
inductive LoopTrace (cfg : Cfg K) (run : RunFn K) : List Nat → World K → World K → K → Prop
  | nil (w : World K) : LoopTrace cfg run [] w w 0
  | cons {d : Nat} {ds : List Nat} {w0 w1 wN : World K} {ops : List (PubOp K)} {x : K} :
      DayTrace cfg run d w0 w1 ops → LoopTrace cfg run ds w1 wN x →
      LoopTrace cfg run (d :: ds) w0 wN (dayTerm d w0 w1 (injectedPub ops) + x)

theorem LoopTrace.btLoop {cfg : Cfg K} {run : RunFn K} {ds : List Nat} {w0 wN : World K} {x : K}
    (h : LoopTrace cfg run ds w0 wN x) : btLoop cfg run ds w0 = .ok wN := by
  induction h with
  | nil w => rfl
  | cons hd _ ih => rw [Bt.btLoop, hd.btDay]; exact ih

/-- **the loop, telescoped**: over any increasing list of dates the change of the root's value is the sum of
    the daily terms -/
theorem btLoop_value {cfg : Cfg K} (hdf : DustFree cfg) {run : RunFn K} (hpub : P04.RunPublic cfg run) :
    ∀ (ds : List Nat) (t : Nat) (w0 wN : World K), Increasing t ds → CloseInv t w0 →
      btLoop cfg run ds w0 = .ok wN →
      ∃ x, LoopTrace cfg run ds w0 wN x ∧ wN.root.value - w0.root.value = x ∧ CloseInv (lastDate t ds) wN
  | [], t, w0, wN, _, hc, h => by
    rw [btLoop] at h; cases h
    exact ⟨0, .nil _, by simp, hc⟩
  | d :: ds, t, w0, wN, hinc, hc, h => by
    rw [btLoop] at h
    obtain ⟨w1, h1, h2⟩ := bind_eq_ok h
    rw [Increasing] at hinc
    obtain ⟨ops, ht⟩ := btDay_trace hpub hc.strat (hc.fresh hinc.1) h1
    have hc1 := ht.close hdf hinc.1 hc
    obtain ⟨x, hx, hv, hcN⟩ := btLoop_value hdf hpub ds d w1 wN hinc.2 hc1 h2
    refine ⟨_, .cons ht hx, ?_, hcN⟩
    have hv1 := ht.value hdf hinc.1 hc
    linear_combination hv1 + hv

/-! ### the root's recorded value row -/

/-- the value row of the strategy holds its value at index `d` -/
def RowAt (d : Nat) (sd : StratData K) : Prop := d < sd.rValue.length ∧ sd.rValue[d]? = some sd.value

/-- a strategy on `d` stays on `d`, and its value row stays right at `d` -/
def RowD (d : Nat) (sd sd' : StratData K) : Prop := sd.now = some d → sd'.now = some d ∧ (RowAt d sd → RowAt d sd')

theorem stratSetTotals_row (d : Nat) (sd : StratData K) (v n b : K) :
    (stratSetTotals d sd v n b).rValue = sd.rValue.set d v ∧ (stratSetTotals d sd v n b).value = v := by
  unfold stratSetTotals; dsimp only; split <;> exact ⟨rfl, rfl⟩

theorem stratWrite_rowAt {cfg : Cfg K} {d : Nat} {np : Bool} {sd sd3 : StratData K} {v n b : K}
    (h : stratWrite cfg d np sd v n b = .ok sd3) :
    (RowAt d sd → RowAt d sd3) ∧ (np = true → d < sd.rValue.length → RowAt d sd3) := by
  obtain ⟨e1, e2⟩ := stratSetTotals_row d sd v n b
  have hnew : d < sd.rValue.length → RowAt d (stratSetTotals d sd v n b) := by
    intro hl
    unfold RowAt
    rw [e1, e2, List.length_set, List.getElem?_set_self hl]
    exact ⟨hl, rfl⟩
  rcases stratWrite_ok h with ⟨hc, rfl⟩ | ⟨_, ret, ⟨_, _, rfl⟩ | ⟨_, _, rfl⟩⟩
  · refine ⟨id, fun hnp _ => ?_⟩
    subst hnp
    simp [stratChanged] at hc
  · exact ⟨fun hr => hnew hr.1, fun _ hl => hnew hl⟩
  · exact ⟨fun hr => hnew hr.1, fun _ hl => hnew hl⟩

theorem stratRows_rowAt (d d' : Nat) (sd : StratData K) (h : RowAt d sd) : RowAt d (stratRows d' sd) := by
  unfold stratRows; dsimp only; split <;> exact h

theorem rowPre (cfg : Cfg K) (d : Nat) : P04.PreLaws cfg (· = d) (fun _ _ => True) (RowD d) where
  rsRefl _ := trivial
  rsTrans _ _ := trivial
  rdRefl _ h := ⟨h, id⟩
  rdTrans h1 h2 h := ⟨(h2 (h1 h).1).1, fun r => (h2 (h1 h).1).2 ((h1 h).2 r)⟩
  secUpdate _ _ := trivial
  secTrade _ := trivial
  sweep _ _ _ := trivial
  secWeight _ _ := trivial
  dateChange {d'} sd hC h := by
    have hC' : d' = d := hC
    subst hC'
    rw [stratDateChange_same h]
    exact ⟨rfl, id⟩
  capital _ _ h := ⟨h, id⟩
  write {d' np sd v n b sd3} hC hw h := by
    have hC' : d' = d := hC
    subst hC'
    exact ⟨by rw [stratWrite_now hw]; exact h, (stratWrite_rowAt hw).1⟩
  rows {d'} sd _ h := ⟨by rw [stratRows_now_L]; exact h, stratRows_rowAt d d' sd⟩
  adjust _ _ h := ⟨h, id⟩
  stratWeight _ _ h := ⟨h, id⟩
  bankrupt _ h := ⟨h, id⟩

/-- the bankruptcy flag is never cleared -/
theorem bkPre (cfg : Cfg K) (C : Nat → Prop) :
    P04.PreLaws cfg C (fun _ _ => True) (fun sd sd' => sd.bankrupt = true → sd'.bankrupt = true) where
  rsRefl _ := trivial
  rsTrans _ _ := trivial
  rdRefl _ h := h
  rdTrans h1 h2 h := h2 (h1 h)
  secUpdate _ _ := trivial
  secTrade _ := trivial
  sweep _ _ _ := trivial
  secWeight _ _ := trivial
  dateChange {d} sd _ h := by rw [Bt.stratDateChange_bankrupt]; exact h
  capital _ _ h := h
  write _ hw h := by rw [(P08.stratWrite_proj hw).2.2.2.2]; exact h
  rows {d} sd _ h := by rw [Bt.stratRows_bankrupt]; exact h
  adjust _ _ h := h
  stratWeight _ _ h := h
  bankrupt _ _ := rfl

def rootRValue (w : World K) : List K :=
  match w.root with
  | .strat sd _ => sd.rValue
  | .sec s => s.rValue

/-- the root is a strategy on `d` whose value row holds its value at `d` -/
def RootRow (d : Nat) (w : World K) : Prop := ∃ sd ks, w.root = .strat sd ks ∧ sd.now = some d ∧ RowAt d sd

theorem RootRow.get {d : Nat} {w : World K} (h : RootRow d w) :
    (rootRValue w)[d]? = some w.root.value ∧ d < (rootRValue w).length := by
  obtain ⟨sd, ks, hr, _, hl, hv⟩ := h
  unfold rootRValue
  rw [hr]
  exact ⟨hv, hl⟩

theorem rootRow_of_lift {d : Nat} {Rs : SecData K → SecData K → Prop} {X : StratData K → StratData K → Prop}
    {w w' : World K} (hl : P04.Lift Rs (fun a b => RowD d a b ∧ X a b) w.root w'.root) (hr : RootRow d w) :
    RootRow d w' := by
  obtain ⟨sd, ks, hroot, hnow, hrow⟩ := hr
  rw [hroot] at hl
  cases hw' : w'.root with
  | sec s => rw [hw'] at hl; simp at hl
  | strat sd' ks' =>
    rw [hw'] at hl
    simp only [P04.lift_strat] at hl
    obtain ⟨e1, e2⟩ := hl.1.1 hnow
    exact ⟨sd', ks', hw', e1, e2 hrow⟩

theorem bankrupt_of_lift {Rs : SecData K → SecData K → Prop} {X : StratData K → StratData K → Prop}
    {w w' : World K}
    (hl : P04.Lift Rs (fun a b => (a.bankrupt = true → b.bankrupt = true) ∧ X a b) w.root w'.root)
    (hb : w.bankrupt = true) : w'.bankrupt = true := by
  unfold World.bankrupt at hb ⊢
  cases hw : w.root with
  | sec s => rw [hw] at hb; cases hb
  | strat sd ks =>
    rw [hw] at hl hb
    cases hw' : w'.root with
    | sec s => rw [hw'] at hl; simp at hl
    | strat sd' ks' =>
      rw [hw'] at hl
      simp only [P04.lift_strat] at hl
      exact hl.1.1 hb

theorem updRoot_bankrupt_mono {cfg : Cfg K} {d : Nat} {w w' : World K} (h : updRoot cfg d w = .ok w')
    (hb : w.bankrupt = true) : w'.bankrupt = true :=
  bankrupt_of_lift (P04.updRoot_lift (bkPre cfg (· = d)).withClock rfl h).1 hb

theorem runPub_bankrupt_mono {cfg : Cfg K} {d : Nat} {ops : List (PubOp K)} {w w' : World K} (hW : DayW d w)
    (hd : ∀ op ∈ ops, op.AtDate d) (h : runPub cfg ops w = .ok w') (hb : w.bankrupt = true) :
    w'.bankrupt = true :=
  bankrupt_of_lift ((runC_iff.2 ⟨ops, hd, h⟩).lift (bkPre cfg (· = d)).withClock hW.wok).1 hb

/-- the opening update of a new date that does not take the bankruptcy step writes the root's value row at `d` -/
theorem updRoot_open_row {cfg : Cfg K} {d : Nat} {w w' : World K} (hs : IsStrat w.root) (hf : w.root.fresh d)
    (hlen : d < (rootRValue w).length) (h : updRoot cfg d w = .ok w') (hnb : w'.bankrupt = false) :
    RootRow d w' := by
  obtain ⟨sd, kids, hr⟩ := hs
  obtain ⟨root, st⟩ := w
  simp only at hr hf
  subst hr
  simp only [rootRValue] at hlen
  rw [Node.fresh] at hf
  have hnp := stratDateChange_newpt_L d sd hf.1
  rw [P08.updRoot_strat, hnp] at h
  obtain ⟨⟨kids1, acc⟩, hk, h⟩ := bind_eq_ok h
  split at h
  · exfalso
    obtain ⟨wF, hfl, h⟩ := bind_eq_ok h
    obtain ⟨n, hn, rfl⟩ := map_eq_ok h
    have hB : P08.RootBk (P08.bankruptWorld (stratDateChange d sd).1 (kids1, acc)) := ⟨_, _, rfl, rfl⟩
    obtain ⟨sdF, ksF, hrF, hbF⟩ := P08.flattenAt_inv (I := P08.RootBk)
      (fun _ _ h hI => P08.refreshNB_rootBk h hI) (fun _ _ _ h hI => P08.modify_flatF_rootBk h hI) _ _ _ _ hfl hB
    rw [hrF] at hn
    obtain ⟨sd', ks', rfl, hb'⟩ := P08.updNode_strat_bankrupt hn
    simp only [World.bankrupt] at hnb
    rw [hb', hbF] at hnb
    cases hnb
  · obtain ⟨n, hfin, rfl⟩ := map_eq_ok h
    unfold P08.stratFinish at hfin
    obtain ⟨sd3, hw, rfl⟩ := map_eq_ok hfin
    have hrv : (stratDateChange d sd).1.rValue = sd.rValue := by
      unfold stratDateChange
      cases sd.now with
      | none => rfl
      | some n => dsimp only; split <;> rfl
    refine ⟨_, _, rfl, ?_, stratRows_rowAt d d sd3 ((stratWrite_rowAt hw).2 rfl (by simp only; rw [hrv]; exact hlen))⟩
    rw [stratRows_now_L, stratWrite_now hw]
    exact (stratDateChange_static d sd).1

/-- on a day that does not end bankrupt the root's value row holds the closing value at `d` -/
theorem DayTrace.row {cfg : Cfg K} {run : RunFn K} {t d : Nat} {w0 w2 : World K} {ops : List (PubOp K)}
    (htd : t < d) (hc : CloseInv t w0) (ht : DayTrace cfg run d w0 w2 ops)
    (hlen : d < (rootRValue w0).length) (hnb : w2.bankrupt = false) : RootRow d w2 := by
  have hs := hc.strat
  have hf := hc.fresh htd
  obtain ⟨w1, h1, hd, ⟨hb, _, rfl⟩ | ⟨hb, wr, _, hops, h2⟩⟩ := ht
  · rw [hnb] at hb; cases hb
  · have hW1 := (updRoot_open hs hf h1).2
    have r1 := updRoot_open_row hs hf hlen h1 hb
    have rr := rootRow_of_lift ((runC_iff.2 ⟨ops, hd, hops⟩).lift (rowPre cfg d).withClock hW1.wok).1 r1
    exact rootRow_of_lift (P04.updRoot_lift (rowPre cfg d).withClock rfl h2).1 rr

theorem btDay_bankrupt_mono {cfg : Cfg K} {run : RunFn K} {d : Nat} {w w' : World K}
    (h : btDay cfg run d w = .ok w') (hb : w.bankrupt = true) : w'.bankrupt = true := by
  unfold btDay at h
  obtain ⟨w1, h1, h⟩ := bind_eq_ok h
  have hb1 := updRoot_bankrupt_mono h1 hb
  rw [hb1] at h
  simp only [↓reduceIte] at h
  cases h; exact hb1

theorem btLoop_bankrupt_mono {cfg : Cfg K} {run : RunFn K} : ∀ (ds : List Nat) (w w' : World K),
    btLoop cfg run ds w = .ok w' → w.bankrupt = true → w'.bankrupt = true
  | [], w, w', h, hb => by rw [btLoop] at h; cases h; exact hb
  | d :: ds, w, w', h, hb => by
    rw [btLoop] at h
    obtain ⟨w1, h1, h2⟩ := bind_eq_ok h
    exact btLoop_bankrupt_mono ds w1 w' h2 (btDay_bankrupt_mono h1 hb)

theorem rootRValue_frozen {P : Nat → Prop} {w w' : World K} (hs : IsStrat w.root)
    (h : P08.Frozen P w.root w'.root) :
    (rootRValue w').length = (rootRValue w).length ∧ ∀ j, ¬ P j → (rootRValue w')[j]? = (rootRValue w)[j]? := by
  obtain ⟨sd, ks, hr⟩ := hs
  unfold rootRValue
  rw [hr] at h ⊢
  cases hw' : w'.root with
  | sec s => rw [hw'] at h; simp at h
  | strat sd' ks' =>
    rw [hw'] at h
    simp only [P08.frozen_strat] at h
    exact ⟨h.1.rValue.1, h.1.rValue.exact (by simp)⟩

theorem increasing_lt : ∀ (ds : List Nat) (t : Nat), Increasing t ds → ∀ d ∈ ds, t < d
  | [], _, _, d, hd => by simp at hd
  | e :: ds, t, h, d, hd => by
    rw [Increasing] at h
    rcases List.mem_cons.1 hd with rfl | hd
    · exact h.1
    · exact lt_trans h.1 (increasing_lt ds e h.2 d hd)

/-- **the recorded rows**: in the final world of the loop, the root's value row still holds the value of the
    close of `t` at index `t`, and holds the final value at the last date — provided the strategy never went
    bankrupt (on the day of a bankruptcy the engine may leave the row stale, C01
    `updRoot_bankrupt_rows_counterexample`) -/
theorem btLoop_rows {cfg : Cfg K} (hdf : DustFree cfg) {run : RunFn K} (hpub : P04.RunPublic cfg run) :
    ∀ (ds : List Nat) (t : Nat) (w0 wN : World K), Increasing t ds → CloseInv t w0 →
      (∀ d ∈ ds, d < (rootRValue w0).length) → (rootRValue w0)[t]? = some w0.root.value →
      wN.bankrupt = false → btLoop cfg run ds w0 = .ok wN →
      (rootRValue wN)[t]? = some w0.root.value ∧ (rootRValue wN)[lastDate t ds]? = some wN.root.value := by
  intro ds t w0 wN hinc hc hlen hrow hnb h
  constructor
  · have hfz := P04.btLoop_frozen (t := t) hpub ds (increasing_lt ds t hinc) w0 wN h
    rw [(rootRValue_frozen hc.strat hfz).2 t (by simp)]
    exact hrow
  · induction ds generalizing t w0 with
    | nil => rw [btLoop] at h; cases h; exact hrow
    | cons d ds ih =>
      rw [btLoop] at h
      obtain ⟨w1, h1, h2⟩ := bind_eq_ok h
      rw [Increasing] at hinc
      obtain ⟨ops, ht⟩ := btDay_trace hpub hc.strat (hc.fresh hinc.1) h1
      have hc1 := ht.close hdf hinc.1 hc
      have hnb1 : w1.bankrupt = false := by
        cases hb : w1.bankrupt with
        | false => rfl
        | true => rw [btLoop_bankrupt_mono ds w1 wN h2 hb] at hnb; cases hnb
      have hr1 := (ht.row hinc.1 hc (hlen d (by simp)) hnb1).get
      have hfz := P04.btDay_frozen (t := t) hpub hinc.1 h1
      have hl1 := (rootRValue_frozen hc.strat hfz).1
      exact ih d w1 hinc.2 hc1 (fun e he => by rw [hl1]; exact hlen e (by simp [he])) hr1.1 h2

/-! ### the first date: `Backtest.run` before the loop -/

mutual
theorem fresh_of_noClocks (d : Nat) : (n : Node K) → ClocksIn (fun _ => False) n → Quiet n → n.fresh d
  | .sec s, hc, hq => by
    rw [ClocksIn] at hc
    simp only [Quiet, AllSecs_sec] at hq
    rw [Node.fresh]
    exact ⟨fun hn => hc d hn, fun hnu => (hq hnu).1⟩
  | .strat sd ks, hc, hq => by
    rw [ClocksIn] at hc
    simp only [Quiet, AllSecs_strat] at hq
    rw [Node.fresh]
    exact ⟨fun hn => hc.1 d hn, freshKids_of_noClocks d ks hc.2 hq⟩
theorem freshKids_of_noClocks (d : Nat) : (ks : List (Node K)) → ClocksInL (fun _ => False) ks →
    AllSecsKids SecQuiet ks → Node.freshKids d ks
  | [], _, _ => by rw [Node.freshKids]; trivial
  | k :: ks, hc, hq => by
    rw [ClocksInL] at hc
    simp only [AllSecsKids_cons] at hq
    rw [Node.freshKids]
    exact ⟨fresh_of_noClocks d k hc.1 hq.1, freshKids_of_noClocks d ks hc.2 hq.2⟩
end

/-- the first update of a quiet, marked tree none of whose nodes is on `d0` yet gives a world that satisfies
    everything assumed of a close -/
theorem closeInv_of_first_update {cfg : Cfg K} (hdf : DustFree cfg) {d0 : Nat} {w w' : World K}
    (hs : IsStrat w.root) (hf : w.root.fresh d0) (hcl : ClocksIn (· ≤ d0) w.root) (hq : Quiet w.root)
    (hm : AllSecs SecMarked w.root) (h : updRoot cfg d0 w = .ok w') : CloseInv d0 w' := by
  obtain ⟨_, hW⟩ := updRoot_open hs hf h
  exact ⟨hW.2, hW.1, updRoot_clocks hcl h, hdf.secInv.keep_updRoot hq h, (secInv_marked cfg).keep_updRoot hm h,
    updRoot_value_total hdf hq hm h⟩

/-- **`Backtest.run`** on a template that was never run (no clock set), quiet and marked: after the initial
    `adjust(capital)` and the update on the first date the world satisfies `CloseInv`, and the loop is traced -/
theorem btRun_value {cfg : Cfg K} (hdf : DustFree cfg) {run : RunFn K} (hpub : P04.RunPublic cfg run)
    {capital : K} {d0 : Nat} {ds : List Nat} {w0 wN : World K} (hs : IsStrat w0.root)
    (hcl : ClocksIn (fun _ => False) w0.root) (hq : Quiet w0.root) (hm : AllSecs SecMarked w0.root)
    (hinc : Increasing d0 ds) (h : btRun cfg run capital (d0 :: ds) w0 = .ok wN) :
    ∃ wA wB x, opAdjust w0 [] capital true true = .ok wA ∧ updRoot cfg d0 wA = .ok wB ∧ CloseInv d0 wB ∧
      total wA.root = total w0.root + capital ∧
      LoopTrace cfg run ds wB wN x ∧ wN.root.value - wB.root.value = x ∧ CloseInv (lastDate d0 ds) wN := by
  unfold btRun at h
  simp only at h
  obtain ⟨wA, hA, h⟩ := bind_eq_ok h
  obtain ⟨wB, hB, h⟩ := bind_eq_ok h
  have hw0 : P04.WOK (fun _ => False) w0 := by
    obtain ⟨sd, ks, hr⟩ := hs
    refine P04.wok_of_nowsIn_strat hr ?_
    exact clocks_nowsIn _ hcl
  have hlA := P04.opAdjust_lift (P04.clockLaws cfg (fun _ => False)) hw0 hA
  have hsA := isStrat_of_lift hlA hs
  have hclA := lift_clocksIn _ _ hlA hcl
  have hqA := hdf.secInv.keep_opAdjust hq hA
  have hmA := (secInv_marked cfg).keep_opAdjust hm hA
  have hcB := closeInv_of_first_update hdf hsA (fresh_of_noClocks d0 _ hclA hqA)
    (clocksIn_mono (fun _ hx => hx.elim) _ hclA) hqA hmA hB
  obtain ⟨x, hx, hv, hcN⟩ := btLoop_value hdf hpub ds d0 wB wN hinc hcB h
  exact ⟨wA, wB, x, hA, hB, hcB, C02.adjust_total w0 wA [] capital true true hA, hx, hv, hcN⟩

/-! ### the measures in special cases -/

theorem feeDay_strat (d : Nat) (sd : StratData K) (ks : List (Node K)) :
    feeDay d (.strat sd ks) = stratFeeDay d sd + kidsSum (fun _ => 0) (stratFeeDay d) ks := by
  rw [feeDay, nodeSum]
theorem boDay_strat (d : Nat) (sd : StratData K) (ks : List (Node K)) :
    boDay d (.strat sd ks) = kidsSum (secBoDay d) (fun _ => 0) ks := by
  rw [boDay, nodeSum]; simp
theorem boSum_strat (sd : StratData K) (ks : List (Node K)) :
    boSum (.strat sd ks) = kidsSum (fun s => s.bidofferPaid) (fun _ => 0) ks := by
  rw [boSum, nodeSum]; simp

mutual
/-- seen from a tree all of whose strategies stand on another date `t`, no fee is carried to `d`:
    every `last_fee` is reset by the date change -/
theorem feeDay_zero {t d : Nat} (htd : t ≠ d) : (n : Node K) → DayInv t n → feeDay d n = 0
  | .sec s, _ => by rw [feeDay, nodeSum]
  | .strat sd ks, h => by
    rw [DayInv] at h
    rw [feeDay_strat, feeDayL_zero htd ks h.2]
    unfold stratFeeDay
    rw [(stratDateChange_cases d sd).1 t h.1 htd]
    simp
theorem feeDayL_zero {t d : Nat} (htd : t ≠ d) : (ks : List (Node K)) → DayInvL t ks →
    kidsSum (fun _ => 0) (stratFeeDay d) ks = 0
  | [], _ => by rw [kidsSum]
  | k :: ks, h => by
    rw [DayInvL] at h
    rw [kidsSum]
    have := feeDay_zero htd k h.1
    rw [feeDay] at this
    rw [this, feeDayL_zero htd ks h.2, add_zero]
end

/-- bid/offer-paid carried across dates: the accumulators of the securities without bid/offer data (the only
    ones a date change does not reset) -/
def boCarry (n : Node K) : K := nodeSum (fun s => if s.bidofferSet then 0 else s.bidofferPaid) (fun _ => 0) n

mutual
theorem boDay_fresh {d : Nat} : (n : Node K) → n.fresh d → boDay d n = boCarry n
  | .sec s, h => by
    rw [Node.fresh] at h
    rw [boDay, boCarry, nodeSum, nodeSum, secBoDay_eq, if_neg h.1]
  | .strat sd ks, h => by
    rw [Node.fresh] at h
    rw [boDay, boCarry, nodeSum, nodeSum, boDayL_fresh ks h.2]
theorem boDayL_fresh {d : Nat} : (ks : List (Node K)) → Node.freshKids d ks →
    kidsSum (secBoDay d) (fun _ => 0) ks =
      kidsSum (fun s => if s.bidofferSet then 0 else s.bidofferPaid) (fun _ => 0) ks
  | [], _ => by rw [kidsSum, kidsSum]
  | k :: ks, h => by
    rw [Node.freshKids] at h
    rw [kidsSum, kidsSum, ← boDayL_fresh ks h.2]
    have := boDay_fresh k h.1
    rw [boDay, boCarry] at this
    rw [this]
end

mutual
/-- when every security stands on `d`, `boDay d` is the plain `Σ bidoffer_paid` of `C02` -/
theorem boDay_eq_boSum {d : Nat} : (n : Node K) → AllSecs (fun s => s.now = some d) n → boDay d n = boSum n
  | .sec s, h => by
    simp only [AllSecs_sec] at h
    rw [boDay, boSum, nodeSum, nodeSum, secBoDay_at h]
  | .strat sd ks, h => by
    simp only [AllSecs_strat] at h
    rw [boDay_strat, boSum_strat, boDayL_eq_boSum ks h]
theorem boDayL_eq_boSum {d : Nat} : (ks : List (Node K)) → AllSecsKids (fun s => s.now = some d) ks →
    kidsSum (secBoDay d) (fun _ => 0) ks = kidsSum (fun s => s.bidofferPaid) (fun _ => 0) ks
  | [], _ => by rw [kidsSum, kidsSum]
  | k :: ks, h => by
    simp only [AllSecsKids_cons] at h
    rw [kidsSum, kidsSum, boDayL_eq_boSum ks h.2]
    have := boDay_eq_boSum k h.1
    rw [boDay, boSum] at this
    rw [this]
end

/-- "a security on `d` stays on `d`", as one-node laws for calls whose explicit updates are on `d` -/
theorem atPre (cfg : Cfg K) (d : Nat) :
    P04.PreLaws cfg (· = d) (fun s s' => s.now = some d → s'.now = some d) (fun _ _ => True) where
  rsRefl _ h := h
  rsTrans h1 h2 h := h2 (h1 h)
  rdRefl _ := trivial
  rdTrans _ _ := trivial
  secUpdate {d'} _ _ hC hu _ := by
    have hC' : d' = d := hC
    subst hC'
    exact secUpdate_now_D hu
  secTrade {comm s q custom r} hu h := by
    have hu' : secTransactCore cfg comm s q custom = .ok (r.1, r.2) := hu
    rw [(secTransactCore_W hu').2]; exact h
  sweep np s acc h := by rw [(Bt.sweepSec_fields np s acc).2.2.1]; exact h
  secWeight _ _ h := h
  dateChange _ _ := trivial
  capital _ _ := trivial
  write _ _ := trivial
  rows _ _ := trivial
  adjust _ _ := trivial
  stratWeight _ _ := trivial
  bankrupt _ := trivial

theorem runPub_secsAt {cfg : Cfg K} {d : Nat} {ops : List (PubOp K)} {w w' : World K} (hW : DayW d w)
    (hd : ∀ op ∈ ops, op.AtDate d) (ha : AllSecs (fun s => s.now = some d) w.root)
    (h : runPub cfg ops w = .ok w') : AllSecs (fun s => s.now = some d) w'.root :=
  lift_allSecs (fun _ _ hr => hr.1) _ _ ((runC_iff.2 ⟨ops, hd, h⟩).lift (atPre cfg d).withClock hW.wok).1 ha

mutual
/-- the hypotheses of `C02.ops_total` (`synced`, all strategies on `d`) imply the day invariant, with every
    security on `d` -/
theorem dayInv_of_synced {d : Nat} : (n : Node K) → TreeAll (fun sd _ => sd.now = some d) (fun _ => True) n →
    n.synced (some d) → DayInv d n ∧ AllSecs (fun s => s.now = some d) n
  | .sec s, _, hs => by
    rw [Node.synced] at hs
    rw [DayInv]
    simp only [AllSecs_sec]
    exact ⟨Or.inl hs, hs⟩
  | .strat sd ks, ht, hs => by
    simp only [TreeAll] at ht
    rw [Node.synced, ht.1] at hs
    rw [DayInv]
    simp only [AllSecs_strat]
    obtain ⟨a, b⟩ := dayInvL_of_synced ks ht.2 hs
    exact ⟨⟨ht.1, a⟩, b⟩
theorem dayInvL_of_synced {d : Nat} : (ks : List (Node K)) →
    TreeAllKids (fun sd _ => sd.now = some d) (fun _ => True) ks → Node.syncedKids (some d) ks →
    DayInvL d ks ∧ AllSecsKids (fun s => s.now = some d) ks
  | [], _, _ => by rw [DayInvL]; simp
  | k :: ks, ht, hs => by
    simp only [TreeAllKids] at ht
    rw [Node.syncedKids] at hs
    rw [DayInvL]
    simp only [AllSecsKids_cons]
    obtain ⟨a, b⟩ := dayInv_of_synced k ht.1 hs.1
    obtain ⟨c, e⟩ := dayInvL_of_synced ks ht.2 hs.2
    exact ⟨⟨a, c⟩, b, e⟩
end

theorem dayW_of_synced {d : Nat} {w : World K} (hs : IsStrat w.root)
    (ht : TreeAll (fun sd _ => sd.now = some d) (fun _ => True) w.root) (hsy : w.root.synced none) :
    DayW d w ∧ AllSecs (fun s => s.now = some d) w.root := by
  obtain ⟨sd, ks, hr⟩ := hs
  unfold DayW IsStrat
  rw [hr] at ht hsy ⊢
  have hsy' : (Node.strat sd ks).synced (some d) := by rw [Node.synced] at hsy ⊢; exact hsy
  obtain ⟨a, b⟩ := dayInv_of_synced _ ht hsy'
  exact ⟨⟨a, sd, ks, rfl⟩, b⟩

/-- a public call after which the root's clock stands at `d` made no explicit update on another date -/
theorem PubOp.atDate_of_now {cfg : Cfg K} {d : Nat} (op : PubOp K) {w w' : World K} (h : op.run cfg w = .ok w')
    (hnow : w'.root.now = some d) : op.AtDate d := by
  cases op with
  | update d' =>
    have hw := (P04.updRoot_lift (P04.clockLaws cfg (· = d')) rfl h).2
    exact (hw.2 d hnow).symm
  | _ => trivial

end Bt.P02
