import Bt.Algos.Weigh
import Mathlib.Algebra.Order.Field.Basic
import Mathlib.Tactic.Ring
import Mathlib.Tactic.Linarith
import Mathlib.Tactic.FieldSimp
import Mathlib.Tactic.Positivity
/-! Helper lemmas for C15 (weighting algos): dicts, sums, and the per-algo invariants. -/
set_option linter.unusedSectionVars false
set_option linter.unusedSimpArgs false
namespace Bt.Weigh
open Bt

/-! ### dicts -/
section Dict
variable {κ : Type} [DecidableEq κ] {β : Type}

@[simp] theorem dictGet_nil (k : κ) : dictGet ([] : Dict κ β) k = none := rfl

theorem dictGet_cons (k' : κ) (v : β) (t : Dict κ β) (k : κ) :
    dictGet ((k', v) :: t) k = if k' = k then some v else dictGet t k := rfl

theorem dictGet_dictSet_same (d : Dict κ β) (k : κ) (v : β) : dictGet (dictSet d k v) k = some v := by
  induction d with
  | nil => simp [dictSet, dictGet_cons]
  | cons p t ih =>
    obtain ⟨k', v'⟩ := p
    by_cases h : k' = k
    · simp [dictSet, h, dictGet_cons]
    · simp [dictSet, h, dictGet_cons, ih]

theorem dictGet_dictSet_other (d : Dict κ β) (k k2 : κ) (v : β) (hne : k ≠ k2) :
    dictGet (dictSet d k v) k2 = dictGet d k2 := by
  induction d with
  | nil => simp [dictSet, dictGet_cons, hne]
  | cons p t ih =>
    obtain ⟨k', v'⟩ := p
    by_cases h : k' = k
    · subst h; simp [dictSet, dictGet_cons, hne]
    · by_cases h2 : k' = k2
      · subst h2; simp [dictSet, h, dictGet_cons]
      · simp [dictSet, h, dictGet_cons, h2, ih]

theorem dictGet_none_iff (d : Dict κ β) (k : κ) : dictGet d k = none ↔ k ∉ dictKeys d := by
  induction d with
  | nil => simp [dictKeys]
  | cons p t ih =>
    obtain ⟨k', v'⟩ := p
    by_cases h : k' = k
    · simp [dictGet_cons, h, dictKeys]
    · have h' : ¬ k = k' := fun e => h e.symm
      simp [dictGet_cons, h, dictKeys, h'] at ih ⊢
      exact ih

theorem dictSet_new (d : Dict κ β) (k : κ) (v : β) (h : k ∉ dictKeys d) : dictSet d k v = d ++ [(k, v)] := by
  induction d with
  | nil => rfl
  | cons p t ih =>
    obtain ⟨k', v'⟩ := p
    have h1 : k' ≠ k := by intro e; apply h; simp [dictKeys, e]
    have h2 : k ∉ dictKeys t := by intro e; apply h; simp [dictKeys] at e ⊢; exact Or.inr e
    simp [dictSet, h1, ih h2]

theorem dictKeys_dictSet_mem (d : Dict κ β) (k : κ) (v : β) (h : k ∈ dictKeys d) :
    dictKeys (dictSet d k v) = dictKeys d := by
  induction d with
  | nil => simp [dictKeys] at h
  | cons p t ih =>
    obtain ⟨k', v'⟩ := p
    by_cases h1 : k' = k
    · simp [dictSet, h1, dictKeys]
    · have : k ∈ dictKeys t := by
        simp [dictKeys] at h ⊢
        rcases h with h | h
        · exact absurd h.symm h1
        · exact h
      have ih' := ih this
      simp [dictSet, h1, dictKeys] at ih' ⊢
      exact ih'

/-- building a dict from pairs with distinct keys keeps the pairs as they are. -/
theorem foldl_dictSet_nodup (ps : List (κ × β)) (acc : Dict κ β)
    (hnd : (ps.map Prod.fst).Nodup) (hdis : ∀ k ∈ ps.map Prod.fst, k ∉ dictKeys acc) :
    ps.foldl (fun d p => dictSet d p.1 p.2) acc = acc ++ ps := by
  induction ps generalizing acc with
  | nil => simp
  | cons p t ih =>
    obtain ⟨k, v⟩ := p
    simp only [List.map_cons, List.nodup_cons] at hnd
    have hk : k ∉ dictKeys acc := hdis k (by simp)
    simp only [List.foldl_cons]
    rw [dictSet_new acc k v hk, ih (acc ++ [(k, v)]) hnd.2]
    · simp
    · intro k2 hk2
      have : k2 ∉ dictKeys acc := hdis k2 (by simp [hk2])
      have hne : k2 ≠ k := by intro e; subst e; exact hnd.1 hk2
      simp [dictKeys] at this ⊢
      exact ⟨this, hne⟩

theorem dictOfPairs_nodup (ps : List (κ × β)) (hnd : (ps.map Prod.fst).Nodup) : dictOfPairs ps = ps := by
  unfold dictOfPairs
  rw [foldl_dictSet_nodup ps [] hnd (by intro k _; simp [dictKeys])]
  simp

end Dict

/-! ### sums -/
section Sum
variable {K : Type} [Field K] [LinearOrder K] [IsStrictOrderedRing K]

theorem foldl_add (l : List K) (a : K) : l.foldl (· + ·) a = a + l.foldl (· + ·) 0 := by
  induction l generalizing a with
  | nil => simp
  | cons x t ih => simp only [List.foldl_cons]; rw [ih (a + x), ih (0 + x)]; ring

@[simp] theorem sumA_nil : sumA ([] : List K) = 0 := rfl

@[simp] theorem sumA_cons (x : K) (l : List K) : sumA (x :: l) = x + sumA l := by
  unfold sumA; simp only [List.foldl_cons]; rw [foldl_add]; ring

theorem sumA_append (l1 l2 : List K) : sumA (l1 ++ l2) = sumA l1 + sumA l2 := by
  induction l1 with
  | nil => simp
  | cons x t ih => simp [ih]; ring

theorem sumA_map_mul_left (c : K) (l : List K) : sumA (l.map fun x => c * x) = c * sumA l := by
  induction l with
  | nil => simp
  | cons x t ih => simp [ih]; ring

theorem sumA_map_div (c : K) (l : List K) : sumA (l.map fun x => x / c) = sumA l / c := by
  induction l with
  | nil => simp
  | cons x t ih => simp [ih]; ring

theorem sumA_replicate_const (n : Nat) (c : K) : sumA (List.replicate n c) = (n : K) * c := by
  induction n with
  | zero => simp
  | succ m ih => simp [List.replicate_succ, ih]; ring

theorem sumA_map_const {ι : Type} (l : List ι) (c : K) : sumA (l.map fun _ => c) = (l.length : K) * c := by
  rw [List.map_const']; exact sumA_replicate_const _ _

theorem sumA_nonneg (l : List K) (h : ∀ x ∈ l, 0 ≤ x) : 0 ≤ sumA l := by
  induction l with
  | nil => simp
  | cons x t ih =>
    simp only [sumA_cons]
    have := h x (by simp)
    have := ih (fun y hy => h y (by simp [hy]))
    linarith

theorem sumA_pos (l : List K) (hne : l ≠ []) (h : ∀ x ∈ l, 0 < x) : 0 < sumA l := by
  cases l with
  | nil => exact absurd rfl hne
  | cons x t =>
    simp only [sumA_cons]
    have := h x (by simp)
    have := sumA_nonneg t (fun y hy => le_of_lt (h y (by simp [hy])))
    linarith

end Sum

/-! ### LimitDeltas -/
section LimitDeltas
variable {K : Type} [Field K] [LinearOrder K] [IsStrictOrderedRing K]
variable {κ : Type} [DecidableEq κ]

theorem absA_eq_abs (x : K) : absA x = |x| := by
  unfold absA
  split
  · rename_i h; rw [abs_of_neg h]
  · rename_i h; rw [abs_of_nonneg (not_lt.mp h)]

theorem signA_mul_self_abs (x : K) (hx : x ≠ 0) : |signA x| = 1 := by
  unfold signA
  rcases lt_trichotomy x 0 with h | h | h
  · simp [h]
  · exact absurd h hx
  · simp [h, not_lt.mpr (le_of_lt h)]

/-- key `k` needs no clipping in `tw`. -/
def Settled (lim : κ → Option K) (cur tw : Dict κ K) (k : κ) : Prop :=
  ldNew (lim k) (dictGetD tw k 0) (dictGetD cur k 0) = none

theorem ldNew_none_iff (l tgt cur : K) : ldNew (some l) tgt cur = none ↔ |tgt - cur| ≤ l := by
  unfold ldNew
  simp only [absA_eq_abs]
  constructor
  · intro h
    by_contra hc
    rw [not_le] at hc
    simp [hc] at h
  · intro h
    simp [not_lt.mpr h]

theorem ldNew_some_val (l tgt cur v : K) (h : ldNew (some l) tgt cur = some v) :
    l < |tgt - cur| ∧ v = cur + l * signA (tgt - cur) := by
  unfold ldNew at h
  simp only [absA_eq_abs] at h
  by_cases hc : l < |tgt - cur|
  · simp [hc] at h; exact ⟨hc, h.symm⟩
  · simp [hc] at h

theorem ldStep_get_other (lim : κ → Option K) (cur tw : Dict κ K) (k k2 : κ) (hne : k ≠ k2) :
    dictGet (ldStep lim cur tw k) k2 = dictGet tw k2 := by
  unfold ldStep
  split
  · exact dictGet_dictSet_other _ _ _ _ hne
  · rfl

theorem settled_step_get (lim : κ → Option K) (cur tw : Dict κ K) (k k2 : κ) (h : Settled lim cur tw k) :
    dictGet (ldStep lim cur tw k2) k = dictGet tw k := by
  by_cases hk : k2 = k
  · subst hk
    unfold Settled at h
    unfold ldStep
    rw [h]
  · exact ldStep_get_other lim cur tw k2 k hk

theorem settled_of_get_eq (lim : κ → Option K) (cur tw tw' : Dict κ K) (k : κ)
    (hg : dictGet tw' k = dictGet tw k) (h : Settled lim cur tw k) : Settled lim cur tw' k := by
  unfold Settled dictGetD at *
  rw [hg]; exact h

theorem step_settles (lim : κ → Option K) (cur tw : Dict κ K) (k : κ)
    (hl : ∀ l, lim k = some l → 0 ≤ l) : Settled lim cur (ldStep lim cur tw k) k := by
  unfold Settled
  cases hn : ldNew (lim k) (dictGetD tw k 0) (dictGetD cur k 0) with
  | none =>
    have : ldStep lim cur tw k = tw := by unfold ldStep; rw [hn]
    rw [this]; exact hn
  | some v =>
    have hs : ldStep lim cur tw k = dictSet tw k v := by unfold ldStep; rw [hn]
    rw [hs]
    cases hlim : lim k with
    | none => rfl
    | some l =>
      rw [hlim] at hn
      obtain ⟨hgt, hv⟩ := ldNew_some_val _ _ _ _ hn
      have hl0 := hl l hlim
      rw [ldNew_none_iff]
      have hget : dictGetD (dictSet tw k v) k 0 = v := by
        unfold dictGetD; rw [dictGet_dictSet_same]; rfl
      rw [hget, hv]
      have hx : dictGetD tw k 0 - dictGetD cur k 0 ≠ 0 := by
        intro e; rw [e, abs_zero] at hgt; exact absurd hgt (not_lt.mpr hl0)
      have : dictGetD cur k 0 + l * signA (dictGetD tw k 0 - dictGetD cur k 0) - dictGetD cur k 0
          = l * signA (dictGetD tw k 0 - dictGetD cur k 0) := by ring
      rw [this, abs_mul, signA_mul_self_abs _ hx, abs_of_nonneg hl0]
      simp

theorem foldl_settled (lim : κ → Option K) (cur : Dict κ K) (ks : List κ) (tw : Dict κ K) (k : κ)
    (h : Settled lim cur tw k) :
    dictGet (ks.foldl (ldStep lim cur) tw) k = dictGet tw k ∧ Settled lim cur (ks.foldl (ldStep lim cur) tw) k := by
  induction ks generalizing tw with
  | nil => exact ⟨rfl, h⟩
  | cons k0 t ih =>
    simp only [List.foldl_cons]
    have hg := settled_step_get lim cur tw k k0 h
    have hs := settled_of_get_eq lim cur tw (ldStep lim cur tw k0) k hg h
    obtain ⟨h1, h2⟩ := ih (ldStep lim cur tw k0) hs
    exact ⟨h1.trans hg, h2⟩

theorem foldl_mem_settled (lim : κ → Option K) (cur : Dict κ K) (ks : List κ) (tw : Dict κ K) (k : κ)
    (hk : k ∈ ks) (hl : ∀ l, lim k = some l → 0 ≤ l) : Settled lim cur (ks.foldl (ldStep lim cur) tw) k := by
  induction ks generalizing tw with
  | nil => simp at hk
  | cons k0 t ih =>
    simp only [List.foldl_cons]
    by_cases h0 : k0 = k
    · subst h0
      exact (foldl_settled lim cur t _ k0 (step_settles lim cur tw k0 hl)).2
    · have : k ∈ t := by
        simp at hk; rcases hk with hk | hk
        · exact absurd hk.symm h0
        · exact hk
      exact ih _ this

/-- the value a listed key ends with: the clipped weight if it had to be clipped, its old entry otherwise. -/
theorem foldl_mem_get (lim : κ → Option K) (cur : Dict κ K) (ks : List κ) (tw : Dict κ K) (k : κ)
    (hk : k ∈ ks) (hl : ∀ l, lim k = some l → 0 ≤ l) :
    dictGet (ks.foldl (ldStep lim cur) tw) k =
      match ldNew (lim k) (dictGetD tw k 0) (dictGetD cur k 0) with
      | some v => some v
      | none => dictGet tw k := by
  induction ks generalizing tw with
  | nil => simp at hk
  | cons k0 t ih =>
    simp only [List.foldl_cons]
    by_cases h0 : k0 = k
    · subst h0
      rw [(foldl_settled lim cur t _ k0 (step_settles lim cur tw k0 hl)).1]
      cases hn : ldNew (lim k0) (dictGetD tw k0 0) (dictGetD cur k0 0) with
      | none => simp only [ldStep, hn]
      | some v => simp only [ldStep, hn]; exact dictGet_dictSet_same _ _ _
    · have hmem : k ∈ t := by
        simp at hk; rcases hk with hk | hk
        · exact absurd hk.symm h0
        · exact hk
      have hg := ldStep_get_other lim cur tw k0 k h0
      rw [ih _ hmem]
      unfold dictGetD
      rw [hg]

theorem mem_ldKeys (cur tw : Dict κ K) (k : κ) : k ∈ ldKeys cur tw ↔ k ∈ dictKeys tw ∨ k ∈ dictKeys cur := by
  unfold ldKeys
  simp only [List.mem_append, List.mem_filter]
  constructor
  · rintro (h | ⟨h, _⟩)
    · exact Or.inl h
    · exact Or.inr h
  · rintro (h | h)
    · exact Or.inl h
    · by_cases ht : k ∈ dictKeys tw
      · exact Or.inl ht
      · exact Or.inr ⟨h, by simp [ht]⟩

theorem settled_of_absent (lim : κ → Option K) (cur tw : Dict κ K) (k : κ)
    (hl : ∀ l, lim k = some l → 0 ≤ l) (h1 : k ∉ dictKeys tw) (h2 : k ∉ dictKeys cur) : Settled lim cur tw k := by
  unfold Settled
  have e1 : dictGetD tw k 0 = 0 := by unfold dictGetD; rw [(dictGet_none_iff tw k).mpr h1]; rfl
  have e2 : dictGetD cur k 0 = 0 := by unfold dictGetD; rw [(dictGet_none_iff cur k).mpr h2]; rfl
  rw [e1, e2]
  cases hlim : lim k with
  | none => rfl
  | some l => rw [ldNew_none_iff]; simpa using hl l hlim

theorem limitDeltas_settled (lim : κ → Option K) (cur tw : Dict κ K) (k : κ)
    (hl : ∀ l, lim k = some l → 0 ≤ l) : Settled lim cur (limitDeltas lim cur tw) k := by
  unfold limitDeltas
  by_cases hk : k ∈ ldKeys cur tw
  · exact foldl_mem_settled lim cur _ tw k hk hl
  · rw [mem_ldKeys] at hk
    rw [not_or] at hk
    exact (foldl_settled lim cur _ tw k (settled_of_absent lim cur tw k hl hk.1 hk.2)).2

end LimitDeltas

/-! ### LimitWeights / ffn.limit_weights -/
section LimitWeights
variable {K : Type} [Field K] [LinearOrder K] [IsStrictOrderedRing K]
variable {κ : Type} [DecidableEq κ]

theorem isZeroExact_iff (x : K) : isZeroExact x = true ↔ x = 0 := by
  unfold isZeroExact
  simp only [Bool.and_eq_true, Bool.not_eq_true', decide_eq_false_iff_not, not_lt]
  constructor
  · rintro ⟨h1, h2⟩; exact le_antisymm h2 h1
  · intro h; subst h; exact ⟨le_refl _, le_refl _⟩

theorem lwExcess_nil (limit : K) : lwExcess limit [] = 0 := rfl

theorem lwExcess_cons (limit w : K) (t : List K) :
    lwExcess limit (w :: t) = (if limit < w then w - limit else 0) + lwExcess limit t := by
  unfold lwExcess
  by_cases h : limit < w
  · simp [List.filter_cons, h]
  · simp [List.filter_cons, h]

theorem lwBelowSum_cons (limit w : K) (t : List K) :
    sumA (lwBelow limit (w :: t)) = (if w < limit then w else 0) + sumA (lwBelow limit t) := by
  unfold lwBelow
  by_cases h : w < limit
  · simp [List.filter_cons, h]
  · simp [List.filter_cons, h]

theorem lwExcess_nonneg (limit : K) (vs : List K) : 0 ≤ lwExcess limit vs := by
  induction vs with
  | nil => simp [lwExcess_nil]
  | cons w t ih =>
    rw [lwExcess_cons]
    by_cases h : limit < w
    · simp only [h, if_true]; linarith
    · simp only [h, if_false]; linarith

/-- one round moves mass around but, for any divisor `s` and top-up `e`, the new total is
    `total − excess + (below/s)·e`. -/
theorem sum_lwAdj (limit s e : K) (vs : List K) :
    sumA (vs.map (lwAdj limit s e)) = sumA vs - lwExcess limit vs + (sumA (lwBelow limit vs) / s) * e := by
  induction vs with
  | nil => simp [lwExcess_nil, lwBelow]
  | cons w t ih =>
    rw [List.map_cons, sumA_cons, sumA_cons, lwExcess_cons, lwBelowSum_cons, ih]
    unfold lwAdj
    by_cases h1 : limit < w
    · have h2 : ¬ w < limit := not_lt.mpr (le_of_lt h1)
      simp only [h1, h2, if_true, if_false]; ring
    · by_cases h2 : w < limit
      · simp only [h1, h2, if_true, if_false]; ring
      · simp only [h1, h2, if_false]; ring

/-- with nothing below the limit the total is `n·limit + excess`. -/
theorem sum_no_below (limit : K) (vs : List K) (h : ∀ w ∈ vs, ¬ w < limit) :
    sumA vs = (vs.length : K) * limit + lwExcess limit vs := by
  induction vs with
  | nil => simp [lwExcess_nil]
  | cons w t ih =>
    rw [sumA_cons, lwExcess_cons, ih (fun x hx => h x (by simp [hx]))]
    have hw : ¬ w < limit := h w (by simp)
    by_cases h1 : limit < w
    · simp only [h1, if_true, List.length_cons]; push_cast; ring
    · have : w = limit := le_antisymm (not_lt.mp h1) (not_lt.mp hw)
      simp only [h1, if_false, List.length_cons]; push_cast; rw [this]; ring

theorem lwBelow_eq_nil_iff (limit : K) (vs : List K) : lwBelow limit vs = [] ↔ ∀ w ∈ vs, ¬ w < limit := by
  unfold lwBelow
  simp [List.filter_eq_nil_iff]

theorem lwBelow_pos (limit : K) (vs : List K) (hpos : ∀ w ∈ vs, 0 < w) (hne : lwBelow limit vs ≠ []) :
    0 < sumA (lwBelow limit vs) := by
  apply sumA_pos _ hne
  intro x hx
  unfold lwBelow at hx
  exact hpos x (List.mem_filter.mp hx).1

/-- not-pinned count and above count. -/
def notPinned (limit : K) (vs : List K) : Nat := vs.countP fun w => decide (w ≠ limit)
def aboveCnt (limit : K) (vs : List K) : Nat := vs.countP fun w => decide (limit < w)

theorem lwAdj_pointwise (limit s e w : K) :
    (if decide (lwAdj limit s e w ≠ limit) = true then 1 else 0) + (if decide (limit < w) = true then 1 else 0)
      ≤ (if decide (w ≠ limit) = true then 1 else 0 : Nat) := by
  unfold lwAdj
  by_cases h1 : limit < w
  · have hne : w ≠ limit := ne_of_gt h1
    simp [h1, hne]
  · by_cases h2 : w < limit
    · have hne : w ≠ limit := ne_of_lt h2
      simp only [h1, h2, if_true, if_false, hne, ne_eq, not_false_eq_true, decide_true, decide_false]
      split <;> simp
    · have : w = limit := le_antisymm (not_lt.mp h1) (not_lt.mp h2)
      simp [h1, h2, this]

theorem pinned_progress (limit s e : K) (vs : List K) :
    notPinned limit (vs.map (lwAdj limit s e)) + aboveCnt limit vs ≤ notPinned limit vs := by
  induction vs with
  | nil => simp [notPinned, aboveCnt]
  | cons w t ih =>
    unfold notPinned aboveCnt at *
    simp only [List.map_cons, List.countP_cons]
    have := lwAdj_pointwise limit s e w
    omega

theorem aboveCnt_pos_of_any (limit : K) (vs : List K) (h : vs.any (fun w => decide (limit < w)) = true) :
    0 < aboveCnt limit vs := by
  unfold aboveCnt
  rw [List.countP_pos_iff]
  simpa [List.any_eq_true] using h

theorem notPinned_le_length (limit : K) (vs : List K) : notPinned limit vs ≤ vs.length := List.countP_le_length

/-- what a round can produce. -/
theorem lwRound_cases (limit : K) (ws : Dict κ K) :
    lwRound limit ws = .done (ws.map fun p => (p.1, lwAdj limit (sumA (lwBelow limit (dictVals ws))) (lwExcess limit (dictVals ws)) p.2)) ∨
    (∃ r, lwRound limit ws = .nan r) ∨ lwRound limit ws = .raised .sumNotOne := by
  unfold lwRound
  simp only
  split
  · split
    · right; left; exact ⟨_, rfl⟩
    · split
      · right; left; exact ⟨_, rfl⟩
      · right; right; rfl
  · left; rfl

theorem lwRound_done_of (limit : K) (ws : Dict κ K)
    (h : lwBelow limit (dictVals ws) = [] ∨ sumA (lwBelow limit (dictVals ws)) ≠ 0) :
    lwRound limit ws = .done (ws.map fun p => (p.1, lwAdj limit (sumA (lwBelow limit (dictVals ws))) (lwExcess limit (dictVals ws)) p.2)) := by
  unfold lwRound
  simp only
  have : (!(lwBelow limit (dictVals ws)).isEmpty && isZeroExact (sumA (lwBelow limit (dictVals ws)))) = false := by
    rcases h with h | h
    · simp [h]
    · have : isZeroExact (sumA (lwBelow limit (dictVals ws))) = false := by
        rw [Bool.eq_false_iff]; intro hc; exact h ((isZeroExact_iff _).mp hc)
      simp [this]
  rw [this]; rfl

theorem dictVals_map_snd (ws : Dict κ K) (g : K → K) : dictVals (ws.map fun p => (p.1, g p.2)) = (dictVals ws).map g := by
  simp [dictVals, List.map_map, Function.comp_def]

theorem dictKeys_map_snd (ws : Dict κ K) (g : K → K) : dictKeys (ws.map fun p => (p.1, g p.2)) = dictKeys ws := by
  simp [dictKeys, List.map_map, Function.comp_def]

/-- the budget `length + 1` is never exhausted, whatever the weights. -/
theorem aux_no_fuel (limit : K) (f : Nat) (ws : Dict κ K)
    (habove : (dictVals ws).any (fun w => decide (limit < w)) = true)
    (hd : notPinned limit (dictVals ws) ≤ f) : limitWeightsAux limit f ws ≠ .raised .fuel := by
  induction f generalizing ws with
  | zero =>
    have := aboveCnt_pos_of_any limit _ habove
    have h2 := pinned_progress limit 0 0 (dictVals ws)
    omega
  | succ f ih =>
    unfold limitWeightsAux
    split
    · simp
    · split
      · simp
      · rcases lwRound_cases limit ws with h | ⟨r, h⟩ | h
        · rw [h]
          simp only
          split
          · rename_i hab
            apply ih _ hab
            rw [dictVals_map_snd]
            have := pinned_progress limit (sumA (lwBelow limit (dictVals ws))) (lwExcess limit (dictVals ws)) (dictVals ws)
            have := aboveCnt_pos_of_any limit _ habove
            omega
          · simp
        · rw [h]; simp
        · rw [h]; simp

theorem lw_fuel_suffices' (limit : K) (ws : Dict κ K) : ffnLimitWeights limit ws ≠ .raised .fuel := by
  unfold ffnLimitWeights limitWeightsAux
  split
  · simp
  · split
    · simp
    · rcases lwRound_cases limit ws with h | ⟨r, h⟩ | h
      · rw [h]
        simp only
        split
        · rename_i hab
          apply aux_no_fuel _ _ _ hab
          rw [dictVals_map_snd]
          have := pinned_progress limit (sumA (lwBelow limit (dictVals ws))) (lwExcess limit (dictVals ws)) (dictVals ws)
          have := notPinned_le_length limit (dictVals ws)
          have : (dictVals ws).length = ws.length := by simp [dictVals]
          omega
        · simp
      · rw [h]; simp
      · rw [h]; simp

/-- whenever weights come out, none is above the limit and the names are the ones that went in. -/
theorem aux_done_cap (limit : K) (f : Nat) (ws res : Dict κ K) (h : limitWeightsAux limit f ws = .done res) :
    (∀ p ∈ res, p.2 ≤ limit) ∧ dictKeys res = dictKeys ws := by
  induction f generalizing ws with
  | zero => simp [limitWeightsAux] at h
  | succ f ih =>
    unfold limitWeightsAux at h
    split at h
    · simp at h
    · split at h
      · simp at h
      · rcases lwRound_cases limit ws with hr | ⟨r, hr⟩ | hr
        · rw [hr] at h
          simp only at h
          split at h
          · obtain ⟨h1, h2⟩ := ih _ h
            exact ⟨h1, by rw [h2, dictKeys_map_snd]⟩
          · rename_i hab
            injection h with h
            subst h
            refine ⟨?_, dictKeys_map_snd _ _⟩
            intro p hp
            by_contra hc
            apply hab
            rw [List.any_eq_true]
            exact ⟨p.2, List.mem_map_of_mem hp, by simpa using hc⟩
        · rw [hr] at h; simp at h
        · rw [hr] at h; simp at h

/-- invariant of the rounds on a well-formed input: positive weights, total one, feasible cap. -/
structure LWInv (limit : K) (ws : Dict κ K) : Prop where
  pos : ∀ p ∈ ws, 0 < p.2
  sum : sumA (dictVals ws) = 1
  feas : 1 ≤ (ws.length : K) * limit

theorem LWInv.limit_pos {limit : K} {ws : Dict κ K} (h : LWInv limit ws) : 0 < limit := by
  by_contra hc
  have h1 : (ws.length : K) * limit ≤ 0 := mul_nonpos_of_nonneg_of_nonpos (Nat.cast_nonneg _) (not_lt.mp hc)
  have := h.feas
  linarith

theorem lwAdj_pos (limit s e w : K) (hl : 0 < limit) (hw : 0 < w) (hs : 0 ≤ s) (he : 0 ≤ e) :
    0 < lwAdj limit s e w := by
  unfold lwAdj
  split
  · exact hl
  · split
    · have : 0 ≤ w / s * e := mul_nonneg (div_nonneg (le_of_lt hw) hs) he
      linarith
    · exact hw

theorem lwInv_round (limit : K) (ws : Dict κ K) (hI : LWInv limit ws) :
    ∃ res, lwRound limit ws = .done res ∧ LWInv limit res ∧ dictKeys res = dictKeys ws ∧
      dictVals res = (dictVals ws).map (lwAdj limit (sumA (lwBelow limit (dictVals ws))) (lwExcess limit (dictVals ws))) := by
  have hl := hI.limit_pos
  have hvpos : ∀ w ∈ dictVals ws, 0 < w := by
    intro w hw
    simp only [dictVals, List.mem_map] at hw
    obtain ⟨p, hp, rfl⟩ := hw
    exact hI.pos p hp
  have hE := lwExcess_nonneg limit (dictVals ws)
  have hlen : (dictVals ws).length = ws.length := by simp [dictVals]
  have hS : 0 ≤ sumA (lwBelow limit (dictVals ws)) := by
    apply sumA_nonneg
    intro x hx
    unfold lwBelow at hx
    exact le_of_lt (hvpos x (List.mem_filter.mp hx).1)
  have hdone : lwRound limit ws = .done (ws.map fun p => (p.1, lwAdj limit (sumA (lwBelow limit (dictVals ws))) (lwExcess limit (dictVals ws)) p.2)) := by
    apply lwRound_done_of
    by_cases hb : lwBelow limit (dictVals ws) = []
    · exact Or.inl hb
    · exact Or.inr (ne_of_gt (lwBelow_pos limit _ hvpos hb))
  refine ⟨_, hdone, ⟨?_, ?_, ?_⟩, dictKeys_map_snd _ _, dictVals_map_snd _ _⟩
  · intro p hp
    simp only [List.mem_map] at hp
    obtain ⟨q, hq, rfl⟩ := hp
    exact lwAdj_pos _ _ _ _ hl (hI.pos q hq) hS hE
  · rw [dictVals_map_snd, sum_lwAdj, hI.sum]
    by_cases hb : lwBelow limit (dictVals ws) = []
    · have h1 := sum_no_below limit (dictVals ws) ((lwBelow_eq_nil_iff _ _).mp hb)
      rw [hI.sum, hlen] at h1
      have hz : lwExcess limit (dictVals ws) = 0 := by
        have := hI.feas
        linarith
      rw [hz]; ring
    · have hs : sumA (lwBelow limit (dictVals ws)) ≠ 0 := ne_of_gt (lwBelow_pos limit _ hvpos hb)
      rw [div_self hs]; ring
  · simpa using hI.feas

theorem lwSumOk_one : lwSumOk (1 : K) = true := by
  unfold lwSumOk
  simp only [Bool.and_eq_true, decide_eq_true_eq]
  constructor <;> norm_num

theorem lwInv_checks (limit : K) (ws : Dict κ K) (hI : LWInv limit ws) :
    ¬ ((ws.length : K) < 1 / limit) ∧ lwSumOk (sumA (dictVals ws)) = true := by
  refine ⟨?_, by rw [hI.sum]; exact lwSumOk_one⟩
  rw [not_lt, div_le_iff₀ hI.limit_pos]
  exact hI.feas

theorem aux_inv (limit : K) (f : Nat) (ws : Dict κ K) (hI : LWInv limit ws)
    (habove : (dictVals ws).any (fun w => decide (limit < w)) = true)
    (hd : notPinned limit (dictVals ws) ≤ f) :
    ∃ res, limitWeightsAux limit f ws = .done res ∧ LWInv limit res := by
  induction f generalizing ws with
  | zero =>
    have := aboveCnt_pos_of_any limit _ habove
    have h2 := pinned_progress limit 0 0 (dictVals ws)
    omega
  | succ f ih =>
    obtain ⟨hc1, hc2⟩ := lwInv_checks limit ws hI
    obtain ⟨res, hr, hIr, _, hv⟩ := lwInv_round limit ws hI
    unfold limitWeightsAux
    simp only [hc1, hc2, if_false, Bool.not_true, hr]
    by_cases hab : (dictVals res).any (fun w => decide (limit < w)) = true
    · simp only [hab, if_true]
      apply ih res hIr hab
      rw [hv]
      have := pinned_progress limit (sumA (lwBelow limit (dictVals ws))) (lwExcess limit (dictVals ws)) (dictVals ws)
      have := aboveCnt_pos_of_any limit _ habove
      omega
    · simp only [hab]
      exact ⟨res, rfl, hIr⟩

theorem ffn_inv (limit : K) (ws : Dict κ K) (hI : LWInv limit ws) :
    ∃ res, ffnLimitWeights limit ws = .done res ∧ LWInv limit res := by
  obtain ⟨hc1, hc2⟩ := lwInv_checks limit ws hI
  obtain ⟨res, hr, hIr, _, hv⟩ := lwInv_round limit ws hI
  unfold ffnLimitWeights limitWeightsAux
  simp only [hc1, hc2, if_false, Bool.not_true, hr]
  by_cases hab : (dictVals res).any (fun w => decide (limit < w)) = true
  · simp only [hab, if_true]
    apply aux_inv limit _ res hIr hab
    rw [hv]
    have := pinned_progress limit (sumA (lwBelow limit (dictVals ws))) (lwExcess limit (dictVals ws)) (dictVals ws)
    have := notPinned_le_length limit (dictVals ws)
    have : (dictVals ws).length = ws.length := by simp [dictVals]
    omega
  · simp only [hab]
    exact ⟨res, rfl, hIr⟩

end LimitWeights

/-! ### WeighRandomly / ffn.random_weights -/
section Random
variable {K : Type} [Field K] [LinearOrder K] [IsStrictOrderedRing K]
variable {κ : Type} [DecidableEq κ]

theorem maxA_eq (a b : K) : maxA a b = max a b := by
  unfold maxA; split
  · rename_i h; exact (max_eq_right (le_of_lt h)).symm
  · rename_i h; exact (max_eq_left (not_lt.mp h)).symm

theorem minA_eq (a b : K) : minA a b = min a b := by
  unfold minA; split
  · rename_i h; exact (min_eq_right (le_of_lt h)).symm
  · rename_i h; exact (min_eq_left (not_lt.mp h)).symm

/-- remaining-mass invariant of the loop: with `n` weights still to draw, `n·low ≤ −tgt ≤ n·high`. -/
def RwInv (low high : K) (n : Nat) (tgt : K) : Prop := (n : K) * low ≤ -tgt ∧ -tgt ≤ (n : K) * high

theorem rwStep_spec (low high tgt u : K) (n : Nat) (hlh : low ≤ high) (hI : RwInv low high (n + 1) tgt)
    (hu0 : 0 ≤ u) (hu1 : u ≤ 1) :
    low ≤ rwStep low high n tgt u ∧ rwStep low high n tgt u ≤ high ∧
      RwInv low high n (tgt + rwStep low high n tgt u) := by
  obtain ⟨h1, h2⟩ := hI
  push_cast at h1 h2
  unfold rwStep
  simp only [maxA_eq, minA_eq]
  set lowb := max (-((n : K) * high) - tgt) low with hlowb
  set highb := min (-((n : K) * low) - tgt) high with hhighb
  have a1 : low ≤ lowb := le_max_right _ _
  have a2 : -((n : K) * high) - tgt ≤ lowb := le_max_left _ _
  have b1 : highb ≤ high := min_le_right _ _
  have b2 : highb ≤ -((n : K) * low) - tgt := min_le_left _ _
  have hn : (0 : K) ≤ (n : K) := Nat.cast_nonneg n
  have hnl : (n : K) * low ≤ (n : K) * high := mul_le_mul_of_nonneg_left hlh hn
  have c : lowb ≤ highb := by
    apply max_le
    · apply le_min <;> linarith
    · apply le_min <;> linarith
  have hd : 0 ≤ highb - lowb := by linarith
  have w1 : lowb ≤ lowb + (highb - lowb) * u := by nlinarith [mul_nonneg hd hu0]
  have w2 : lowb + (highb - lowb) * u ≤ highb := by nlinarith [mul_nonneg hd (sub_nonneg.mpr hu1)]
  refine ⟨by linarith, by linarith, ?_, ?_⟩ <;> linarith

theorem rwLoop_spec (low high : K) (hlh : low ≤ high) (n : Nat) (tgt : K) (us : List K)
    (hI : RwInv low high n tgt) (hlen : n ≤ us.length) (hu : ∀ u ∈ us, 0 ≤ u ∧ u ≤ 1) :
    (rwLoop low high n tgt us).length = n ∧ (∀ w ∈ rwLoop low high n tgt us, low ≤ w ∧ w ≤ high) ∧
      tgt + sumA (rwLoop low high n tgt us) = 0 := by
  induction n generalizing tgt us with
  | zero =>
    obtain ⟨h1, h2⟩ := hI
    simp at h1 h2
    refine ⟨rfl, by simp [rwLoop], ?_⟩
    simp [rwLoop]; linarith
  | succ n ih =>
    cases us with
    | nil => simp at hlen
    | cons u t =>
      obtain ⟨hu0, hu1⟩ := hu u (by simp)
      obtain ⟨s1, s2, s3⟩ := rwStep_spec low high tgt u n hlh hI hu0 hu1
      obtain ⟨i1, i2, i3⟩ := ih (tgt + rwStep low high n tgt u) t s3 (by simpa using hlen) (fun x hx => hu x (by simp [hx]))
      refine ⟨by simp [rwLoop, i1], ?_, ?_⟩
      · intro w hw
        simp only [rwLoop, List.mem_cons] at hw
        rcases hw with rfl | hw
        · exact ⟨s1, s2⟩
        · exact i2 w hw
      · simp only [rwLoop, sumA_cons]; linarith

theorem sumA_perm {l1 l2 : List K} (h : l1.Perm l2) : sumA l1 = sumA l2 := by
  induction h with
  | nil => rfl
  | cons x _ ih => simp [ih]
  | swap x y l => simp; ring
  | trans _ _ ih1 ih2 => exact ih1.trans ih2

theorem filterMap_range' {β : Type} (pre w : List β) :
    (List.range' pre.length w.length).filterMap (fun i => (pre ++ w)[i]?) = w := by
  induction w generalizing pre with
  | nil => simp
  | cons x t ih =>
    simp only [List.length_cons, List.range'_succ, List.filterMap_cons]
    have h0 : (pre ++ x :: t)[pre.length]? = some x := by simp
    rw [h0]
    have := ih (pre ++ [x])
    simp only [List.length_append, List.length_cons, List.length_nil, List.append_assoc, List.cons_append, List.nil_append] at this
    simp only [zero_add] at this
    rw [this]

theorem filterMap_range_getElem? {β : Type} (w : List β) :
    (List.range w.length).filterMap (fun i => w[i]?) = w := by
  have := filterMap_range' [] w
  simpa [List.range_eq_range'] using this

end Random

/-! ### inverse volatility -/
section InvVol
variable {K : Type} [Field K] [LinearOrder K] [IsStrictOrderedRing K] [HasSqrt K]
variable {κ : Type} [DecidableEq κ]

theorem filterMap_id_map_optmap {β γ : Type} (l : List (Option β)) (f : β → γ) :
    (l.map (Option.map f)).filterMap id = (l.filterMap id).map f := by
  induction l with
  | nil => rfl
  | cons o t ih =>
    cases o with
    | none => simpa [List.filterMap_cons] using ih
    | some b => simpa [List.filterMap_cons] using ih

theorem zip_map_self {β γ : Type} (l : List β) (h : β → γ) : l.zip (l.map h) = l.map fun a => (a, h a) := by
  induction l with
  | nil => rfl
  | cons a t ih => simp [ih]

/-- the per-entry function of `invVolWeights`. -/
def ivCell (S : K) (o : Option K) : Option K :=
  (o.bind fun s => if 0 < s then some (1 / s) else none).map fun v => v / S

theorem invVolWeights_eq (sig : List (Option K)) :
    invVolWeights sig = sig.map (ivCell (sumSome (invVols sig))) := by
  unfold invVolWeights invVols ivCell
  simp [List.map_map, Function.comp_def]

theorem invVols_somes_pos (sig : List (Option K)) : ∀ v ∈ (invVols sig).filterMap id, 0 < v := by
  intro v hv
  simp only [invVols, List.mem_filterMap, List.mem_map, id] at hv
  obtain ⟨o, ⟨o', _, rfl⟩, ho⟩ := hv
  cases o' with
  | none => simp at ho
  | some s =>
    simp only [Option.bind_some] at ho
    by_cases hs : 0 < s
    · simp [hs] at ho; subst ho; positivity
    · simp [hs] at ho

theorem sumSome_invVols_pos (sig : List (Option K)) (hex : ∃ s, some s ∈ sig ∧ 0 < s) : 0 < sumSome (invVols sig) := by
  obtain ⟨s, hs, hpos⟩ := hex
  unfold sumSome
  apply sumA_pos _ _ (invVols_somes_pos sig)
  intro hnil
  have : (1 / s) ∈ (invVols sig).filterMap id := by
    simp only [invVols, List.mem_filterMap, List.mem_map, id]
    exact ⟨some (1 / s), ⟨some s, hs, by simp [hpos]⟩, rfl⟩
  rw [hnil] at this; simp at this

theorem dictVals_dropnaDict (keys : List κ) (vals : List (Option K)) (h : keys.length = vals.length) :
    dictVals (dropnaDict keys vals) = vals.filterMap id := by
  induction keys generalizing vals with
  | nil =>
    cases vals with
    | nil => rfl
    | cons v t => simp at h
  | cons k ks ih =>
    cases vals with
    | nil => simp at h
    | cons v t =>
      have := ih t (by simpa using h)
      cases v with
      | none => simpa [dropnaDict, dictVals] using this
      | some x => simpa [dropnaDict, dictVals] using this

end InvVol

/-! ### ex-ante volatility (TargetVol, PTE_Rebalance) -/
section Vol
variable {K : Type} [Field K] [LinearOrder K] [IsStrictOrderedRing K] [HasSqrt K]
variable {κ : Type} [DecidableEq κ]

/-- what is assumed of the square root: for non-negative arguments it is the non-negative root. -/
def SqrtSpec (K : Type) [Field K] [LinearOrder K] [HasSqrt K] : Prop :=
  ∀ x : K, 0 ≤ x → 0 ≤ sqrtA x ∧ sqrtA x * sqrtA x = x

theorem dotOpt_scale_left (c : K) (a b : List (Option K)) :
    dotOpt (a.map (Option.map fun x => c * x)) b = (dotOpt a b).map fun x => c * x := by
  induction a generalizing b with
  | nil => simp [dotOpt]
  | cons x t ih =>
    cases b with
    | nil => simp [dotOpt]
    | cons y u =>
      simp only [List.map_cons, dotOpt, ih u]
      cases x <;> cases y <;> cases dotOpt t u <;> simp
      ring

theorem dotOpt_scale_right (c : K) (a b : List (Option K)) :
    dotOpt a (b.map (Option.map fun x => c * x)) = (dotOpt a b).map fun x => c * x := by
  induction a generalizing b with
  | nil => simp [dotOpt]
  | cons x t ih =>
    cases b with
    | nil => simp [dotOpt]
    | cons y u =>
      simp only [List.map_cons, dotOpt, ih u]
      cases x <;> cases y <;> cases dotOpt t u <;> simp
      ring

theorem quadForm_scale (c : K) (w : List (Option K)) (m : List (List (Option K))) :
    quadForm (w.map (Option.map fun x => c * x)) m = (quadForm w m).map fun q => c * c * q := by
  unfold quadForm
  have h1 : (m.map fun row => dotOpt row (w.map (Option.map fun x => c * x)))
      = (m.map fun row => dotOpt row w).map (Option.map fun x => c * x) := by
    rw [List.map_map]
    apply List.map_congr_left
    intro row _
    exact dotOpt_scale_right c row w
  rw [h1, dotOpt_scale_left, dotOpt_scale_right]
  cases dotOpt w (m.map fun row => dotOpt row w) <;> simp
  ring

theorem sqrt_unique (hs : SqrtSpec K) (x r : K) (hx : 0 ≤ x) (hr : 0 ≤ r) (h : r * r = x) : sqrtA x = r := by
  obtain ⟨h1, h2⟩ := hs x hx
  have : sqrtA x * sqrtA x = r * r := by rw [h2, h]
  rcases mul_self_eq_mul_self_iff.mp this with e | e
  · exact e
  · have : sqrtA x = 0 := by linarith
    have : r = 0 := by linarith
    linarith

theorem sqrt_lt_iff (hs : SqrtSpec K) (x cap : K) (hx : 0 ≤ x) (hc : 0 ≤ cap) : cap < sqrtA x ↔ cap * cap < x := by
  obtain ⟨h1, h2⟩ := hs x hx
  constructor
  · intro h
    calc cap * cap < sqrtA x * sqrtA x := mul_self_lt_mul_self hc h
      _ = x := h2
  · intro h
    by_contra hn
    have : sqrtA x * sqrtA x ≤ cap * cap := mul_self_le_mul_self h1 (not_lt.mp hn)
    linarith

theorem dictGet_map_const (keys : List κ) (c : K) (k : κ) (hk : k ∈ keys) :
    dictGet (keys.map fun x => (x, c)) k = some c := by
  induction keys with
  | nil => simp at hk
  | cons a t ih =>
    by_cases h : a = k
    · simp [dictGet_cons, h]
    · have : k ∈ t := by
        simp at hk; rcases hk with hk | hk
        · exact absurd hk.symm h
        · exact hk
      simp [dictGet_cons, h, ih this]

end Vol

end Bt.Weigh
