import Bt.Algos.Rebalance
import Bt.Proofs.Alloc
import Bt.Proofs.Ledger
/-! Helper lemmas for C06 (`StrategyBase.rebalance` / `close` / `allocate` and `bt.algos.Rebalance`). -/
set_option linter.unusedSectionVars false
namespace Bt.Rebal
open Bt

variable {K : Type} [Field K] [LinearOrder K] [IsStrictOrderedRing K] [HasFloor K]

/-! ### the refreshing getters on a world that is not stale -/

theorem refresh_fresh (cfg : Cfg K) (w : World K) (h : w.stale = false) : refresh cfg w = .ok w := by
  unfold refresh; simp [h]; rfl

/-- `rebalance(weight, child, base)` with a non-negligible weight and a given base, on a world that is not
    stale, is one `allocate` (or `transact`) on the child. -/
theorem opRebalance_unfold (cfg : Cfg K) (w : World K) (path : List Nat) (weight : K) (child : Nat) (b : K)
    (update : Bool) (sd : StratData K) (ks : List (Node K)) (c : Node K)
    (hst : w.stale = false) (hz : isZero cfg.tol weight = false)
    (hp : w.root.get? path = some (.strat sd ks)) (hc : w.root.get? (path ++ [child]) = some c) :
    opRebalance cfg w path weight child (some b) update =
      if sd.fixedIncome then
        (if c.fixedIncome then
          opTransact cfg w (path ++ [child]) (weight * b - c.weight * sd.notl) update none
        else opAllocate cfg w (path ++ [child]) (weight * b - c.weight * sd.notl) update)
      else opAllocate cfg w (path ++ [child]) ((weight - c.weight) * b) update := by
  unfold opRebalance
  simp only [hz, Bool.false_eq_true, ↓reduceIte, Option.isNone_some, pure, Except.pure, Except.bind]
  rw [refresh_fresh cfg w hst]
  simp only [hp, hc]

theorem opRebalance_zero (cfg : Cfg K) (w : World K) (path : List Nat) (weight : K) (child : Nat)
    (base : Option K) (update : Bool) (hz : isZero cfg.tol weight = true) :
    opRebalance cfg w path weight child base update = opClose cfg w path child update := by
  unfold opRebalance; simp only [hz, ↓reduceIte]


/-! ### trading a fractional security without costs -/

/-- current price, 0 when missing -/
def px (s : SecData K) : K := s.price.getD 0

/-- the security after `transact(q)` at price `p` without commission and with a zero spread -/
def secTraded (cfg : Cfg K) (s : SecData K) (p q : K) : SecData K :=
  { s with needupdate := true, position := s.position + q,
           outlayAcc := s.outlayAcc + (q * p * s.mult + absA q * cfg.half * 0 * s.mult),
           bidofferPaid := s.bidofferPaid + absA q * cfg.half * 0 * s.mult }

/-- the adjustment such a trade sends to the parent -/
def tradeAdj (cfg : Cfg K) (s : SecData K) (p q : K) : Adj K :=
  { amount := -(q * p * s.mult + absA q * cfg.half * 0 * s.mult + 0), fee := 0, flow := false }

theorem tradeAdj_amount (cfg : Cfg K) (s : SecData K) (p q : K) :
    (tradeAdj cfg s p q).amount = -(q * p * s.mult) := by
  simp only [tradeAdj]; ring

theorem secTransactCore_nocost (cfg : Cfg K) (comm : K → K → K) (s : SecData K) (p q : K)
    (hp : s.price = some p) (hb : s.bidoffer = some 0) (hcomm : ∀ q x, comm q x = 0)
    (hq : isZero cfg.tol q = false) :
    secTransactCore cfg comm s q none = .ok (secTraded cfg s p q, some (tradeAdj cfg s p q)) := by
  unfold secTransactCore
  simp only [hq, Bool.false_eq_true, ↓reduceIte, Option.isSome_none, Bool.false_and]
  rw [Alloc.secOutlay_ok cfg comm { s with needupdate := true, position := s.position + q } q p 0 hp hb]
  simp only [Except.bind, pure, Except.pure, hcomm]
  rfl

theorem fullOutF_nocost (cfg : Cfg K) (comm : K → K → K) (s : SecData K) (p : K)
    (hcomm : ∀ q x, comm q x = 0) (q : K) : Alloc.fullOutF cfg comm s p 0 q = q * (p * s.mult) := by
  unfold Alloc.fullOutF; rw [hcomm]; ring

/-- the quantity `allocate(a)` trades on a fractional security without costs (`none`: no trade) -/
def niceQ (cfg : Cfg K) (s : SecData K) (p a : K) : Option K :=
  if isZero cfg.tol a then none
  else if isZero cfg.tol (a + s.value) then
    (if isZero cfg.tol s.position then none else some (-s.position))
  else (if isZero cfg.tol (a / (p * s.mult)) then none else some (a / (p * s.mult)))

/-- Fractional units, no commission, zero spread, price present and not negligible: the sizing of
    `allocate` needs no search — the quantity is the close-out `-position` or `a / (price·mult)`, whose
    full outlay is exactly `a`, so the loop exits at its head. -/
theorem allocQuantity_nocost (cfg : Cfg K) (comm : K → K → K) (s : SecData K) (a p : K)
    (hatol : 0 ≤ cfg.atol) (htol : 0 < cfg.tol)
    (hint : s.integer = false) (hp : s.price = some p) (hpz : isZero cfg.tol p = false)
    (hb : s.bidoffer = some 0) (hcomm : ∀ q x, comm q x = 0) (hm : p * s.mult ≠ 0) :
    allocQuantity cfg comm s a = .ok (niceQ cfg s p a) := by
  unfold niceQ
  by_cases hz : isZero cfg.tol a = true
  · simp only [hz, ↓reduceIte]; unfold allocQuantity; simp [hz]; rfl
  have hz : isZero cfg.tol a = false := by simpa using hz
  simp only [hz, Bool.false_eq_true, ↓reduceIte]
  by_cases hc : isZero cfg.tol (a + s.value) = true
  · have hq0 : allocQ0 cfg s p a = -s.position := by unfold allocQ0; simp [hc]
    simp only [hc, ↓reduceIte]
    by_cases hpos : isZero cfg.tol s.position = true
    · simp only [hpos, ↓reduceIte]
      exact Alloc.allocQuantity_q0_zero cfg comm s a p hz hp hpz (by rw [hq0, Alloc.isZero_neg]; exact hpos)
    · have hpos : isZero cfg.tol s.position = false := by simpa using hpos
      simp only [hpos, Bool.false_eq_true, ↓reduceIte]
      exact Alloc.allocQuantity_skip cfg comm s a p hz hp hpz (by rw [hq0, Alloc.isZero_neg]; exact hpos) hq0
  have hc : isZero cfg.tol (a + s.value) = false := by simpa using hc
  have hq0 : allocQ0 cfg s p a = a / (p * s.mult) := by unfold allocQ0; simp [hc, hint]
  simp only [hc, Bool.false_eq_true, ↓reduceIte]
  by_cases hq : isZero cfg.tol (a / (p * s.mult)) = true
  · simp only [hq, ↓reduceIte]
    exact Alloc.allocQuantity_q0_zero cfg comm s a p hz hp hpz (by rw [hq0]; exact hq)
  have hq : isZero cfg.tol (a / (p * s.mult)) = false := by simpa using hq
  simp only [hq, Bool.false_eq_true, ↓reduceIte]
  by_cases he : allocQ0 cfg s p a = -s.position
  · rw [Alloc.allocQuantity_skip cfg comm s a p hz hp hpz (by rw [hq0]; exact hq) he, ← he, hq0]
  rw [Alloc.allocQuantity_loop cfg comm s a p hz hp hpz (by rw [hq0]; exact hq) he, hq0,
    Alloc.fullOut_funext cfg comm s p 0 hp hb, hint]
  simp only [Except.bind]
  rw [fullOutF_nocost cfg comm s p hcomm, div_mul_cancel₀ _ hm]
  have hcl : isClose cfg.atol cfg.tol a a = true := by
    rw [Alloc.isClose_iff, sub_self, abs_zero]
    have := abs_nonneg a
    have := le_of_lt htol
    positivity
  rw [Alloc.sizeLoop_head cfg _ _ _ _ _ _ _ _ _ _ (by rw [hcl]; rfl)]
  rfl


/-- `allocate(a)` on a refreshed fractional security without costs. -/
theorem secAllocate_nocost (cfg : Cfg K) (pn : Option Nat) (comm : K → K → K) (s s1 : SecData K) (a p : K)
    (hr : secRefresh cfg pn s = .ok s1)
    (hatol : 0 ≤ cfg.atol) (htol : 0 < cfg.tol)
    (hint : s1.integer = false) (hp : s1.price = some p) (hpz : isZero cfg.tol p = false)
    (hb : s1.bidoffer = some 0) (hcomm : ∀ q x, comm q x = 0) (hm : p * s1.mult ≠ 0) :
    secAllocate cfg pn comm s a =
      .ok (match niceQ cfg s1 p a with
           | none => (s1, none)
           | some q => (secTraded cfg s1 p q, some (tradeAdj cfg s1 p q))) := by
  unfold secAllocate
  rw [hr]
  simp only [Except.bind, allocQuantity_nocost cfg comm s1 a p hatol htol hint hp hpz hb hcomm hm]
  cases hq : niceQ cfg s1 p a with
  | none => rfl
  | some q =>
    simp only
    have hqz : isZero cfg.tol q = false := by
      unfold niceQ at hq
      split at hq
      · cases hq
      · split at hq
        · split at hq
          · cases hq
          · rename_i h; cases hq; rw [Alloc.isZero_neg]; simpa using h
        · split at hq
          · cases hq
          · rename_i h; cases hq; simpa using h
    exact secTransactCore_nocost cfg comm s1 p q hp hb hcomm hqz

/-- a plain fractional security that is up to date on `d`, priced, with a zero spread -/
structure NiceSec (cfg : Cfg K) (d : Nat) (s : SecData K) : Prop where
  kind : s.kind = .plain
  frac : s.integer = false
  now : s.now = some d
  last : s.lastPos = s.position
  price : s.price = some (px s)
  pnz : isZero cfg.tol (px s) = false
  mnz : px s * s.mult ≠ 0
  bo : s.bidoffer = some 0
  val : s.value = s.position * px s * s.mult
  flat : s.needupdate = false → s.position = 0

theorem secUpdate_early (cfg : Cfg K) (d : Nat) (s : SecData K) (hk : s.kind = .plain)
    (hn : s.now = some d) (hl : s.lastPos = s.position) : secUpdate cfg d s = .ok s := by
  unfold secUpdate secBaseUpdate
  have : secEarly d s = true := by
    unfold secEarly; rw [hn, hl, Alloc.eqA_self]; simp
  simp only [this, ↓reduceIte, hk, pure, Except.pure, Except.bind]

theorem secRefresh_nice (cfg : Cfg K) (d : Nat) (s : SecData K) (h : NiceSec cfg d s) :
    secRefresh cfg (some d) s = .ok s := by
  unfold secRefresh
  split
  · exact secUpdate_early cfg d s h.kind h.now h.last
  · rfl

/-- the security after `allocate(a)` -/
def stepSec (cfg : Cfg K) (s : SecData K) (a : K) : SecData K :=
  match niceQ cfg s (px s) a with
  | none => s
  | some q => secTraded cfg s (px s) q

/-- the cash the parent pays for it -/
def stepCash (cfg : Cfg K) (s : SecData K) (a : K) : K :=
  match niceQ cfg s (px s) a with
  | none => 0
  | some q => q * px s * s.mult

/-- the strategy with another amount of cash -/
def withCap (sd : StratData K) (c : K) : StratData K := { sd with capital := c }

@[simp] theorem withCap_capital (sd : StratData K) (c : K) : (withCap sd c).capital = c := rfl
@[simp] theorem withCap_now (sd : StratData K) (c : K) : (withCap sd c).now = sd.now := rfl
@[simp] theorem withCap_comm (sd : StratData K) (c : K) : (withCap sd c).comm = sd.comm := rfl
@[simp] theorem withCap_fi (sd : StratData K) (c : K) : (withCap sd c).fixedIncome = sd.fixedIncome := rfl
@[simp] theorem withCap_value (sd : StratData K) (c : K) : (withCap sd c).value = sd.value := rfl
@[simp] theorem withCap_bankrupt (sd : StratData K) (c : K) : (withCap sd c).bankrupt = sd.bankrupt := rfl
@[simp] theorem withCap_withCap (sd : StratData K) (c c' : K) : withCap (withCap sd c) c' = withCap sd c' := rfl
theorem withCap_self (sd : StratData K) : withCap sd sd.capital = sd := rfl

theorem secAllocate_nice (cfg : Cfg K) (d : Nat) (comm : K → K → K) (s : SecData K) (a : K)
    (h : NiceSec cfg d s) (hatol : 0 ≤ cfg.atol) (htol : 0 < cfg.tol) (hcomm : ∀ q x, comm q x = 0) :
    ∃ oa, secAllocate cfg (some d) comm s a = .ok (stepSec cfg s a, oa) ∧
      ∀ sd : StratData K, (oa.toList.foldl StratData.adjust sd).capital = sd.capital - stepCash cfg s a ∧
        oa.toList.foldl StratData.adjust sd = withCap sd (sd.capital - stepCash cfg s a) := by
  rw [secAllocate_nocost cfg (some d) comm s s a (px s) (secRefresh_nice cfg d s h) hatol htol h.frac h.price
    h.pnz h.bo hcomm h.mnz]
  unfold stepSec stepCash
  cases niceQ cfg s (px s) a with
  | none =>
    refine ⟨none, rfl, fun sd => ?_⟩
    simp only [Option.toList, List.foldl_nil, sub_zero, withCap_self, and_self]
  | some q =>
    refine ⟨some (tradeAdj cfg s (px s) q), rfl, fun sd => ?_⟩
    have e : sd.adjust (tradeAdj cfg s (px s) q) = withCap sd (sd.capital - q * px s * s.mult) := by
      unfold StratData.adjust withCap
      simp only [tradeAdj, Bool.false_eq_true, ↓reduceIte, add_zero, mul_zero, zero_mul]
      rw [← sub_eq_add_neg]
    simp only [Option.toList, List.foldl_cons, List.foldl_nil, e, withCap_capital, and_self]


/-! ### a strategy whose children are all securities (one level) -/

/-- the world made of one strategy and a flat list of security children, not stale -/
def flatW (sd : StratData K) (ss : List (SecData K)) : World K :=
  { root := .strat sd (ss.map Node.sec), stale := false }

theorem flat_get_root (sd : StratData K) (ss : List (SecData K)) :
    (flatW sd ss).root.get? [] = some (.strat sd (ss.map Node.sec)) := by
  simp [flatW, Node.get?]

theorem flat_get_child (sd : StratData K) (ss : List (SecData K)) (i : Nat) (s : SecData K)
    (h : ss[i]? = some s) : (flatW sd ss).root.get? ([] ++ [i]) = some (.sec s) := by
  simp [flatW, Node.get?, h]

theorem opAllocate_flat (cfg : Cfg K) (sd : StratData K) (ss : List (SecData K)) (i : Nat) (s : SecData K)
    (a : K) (h : ss[i]? = some s) :
    opAllocate cfg (flatW sd ss) ([] ++ [i]) a false =
      (secAllocate cfg sd.now sd.comm s a).map fun r =>
        flatW (r.2.toList.foldl StratData.adjust sd) (ss.set i r.1) := by
  have hk : (ss.map Node.sec)[i]? = some (Node.sec s) := by simp [h]
  unfold opAllocate World.modify
  simp only [flatW, List.nil_append]
  rw [modAt]
  simp only [hk]
  rw [modAt]
  dsimp only
  cases secAllocate cfg sd.now sd.comm s a with
  | error e => rfl
  | ok r =>
    simp only [Except.map, Bool.false_and, Bool.or_false, List.map_set]


/-- the amount `close(child)` allocates (`none`: the child's value is exactly 0, nothing is called) -/
def closeAmt (s : SecData K) : Option K := if eqA s.value 0 then none else some (-s.value)

/-- the amount one child operation of `Rebalance` allocates: `act = none` for a child that is not a target
    (closed), `act = some wt` for `rebalance(wt, child, base = V)` -/
def planAmt (cfg : Cfg K) (V : K) (s : SecData K) (act : Option K) : Option K :=
  match act with
  | none => closeAmt s
  | some wt => if isZero cfg.tol wt then closeAmt s else some ((wt - s.weight) * V)

def doSec (cfg : Cfg K) (s : SecData K) (oa : Option K) : SecData K :=
  match oa with
  | none => s
  | some a => stepSec cfg s a

def doCash (cfg : Cfg K) (s : SecData K) (oa : Option K) : K :=
  match oa with
  | none => 0
  | some a => stepCash cfg s a

theorem opAllocate_flat_nice (cfg : Cfg K) (sd : StratData K) (ss : List (SecData K)) (i d : Nat)
    (s : SecData K) (a : K) (h : ss[i]? = some s) (hn : NiceSec cfg d s) (hnow : sd.now = some d)
    (hcomm : ∀ q x, sd.comm q x = 0) (hatol : 0 ≤ cfg.atol) (htol : 0 < cfg.tol) :
    opAllocate cfg (flatW sd ss) ([] ++ [i]) a false =
      .ok (flatW (withCap sd (sd.capital - stepCash cfg s a)) (ss.set i (stepSec cfg s a))) := by
  obtain ⟨oa, h1, h2⟩ := secAllocate_nice cfg d sd.comm s a hn hatol htol hcomm
  rw [← hnow] at h1
  rw [opAllocate_flat cfg sd ss i s a h, h1]
  simp only [Except.map, (h2 sd).2]

theorem flat_noop (sd : StratData K) (ss : List (SecData K)) (i : Nat) (s : SecData K) (h : ss[i]? = some s) :
    flatW sd ss = flatW (withCap sd (sd.capital - 0)) (ss.set i s) := by
  have : ss.set i s = ss := by
    apply List.ext_getElem?
    intro j
    by_cases hj : i = j
    · subst hj
      rw [List.getElem?_set_self (by
        rcases Nat.lt_or_ge i ss.length with hl | hl
        · exact hl
        · rw [List.getElem?_eq_none hl] at h; cases h), h]
    · rw [List.getElem?_set_ne hj]
  rw [this, sub_zero, withCap_self]

theorem opClose_flat_nice (cfg : Cfg K) (sd : StratData K) (ss : List (SecData K)) (i d : Nat)
    (s : SecData K) (h : ss[i]? = some s) (hn : NiceSec cfg d s) (hnow : sd.now = some d)
    (hfi : sd.fixedIncome = false)
    (hcomm : ∀ q x, sd.comm q x = 0) (hatol : 0 ≤ cfg.atol) (htol : 0 < cfg.tol) :
    opClose cfg (flatW sd ss) [] i false =
      .ok (flatW (withCap sd (sd.capital - doCash cfg s (closeAmt s)))
        (ss.set i (doSec cfg s (closeAmt s)))) := by
  unfold opClose
  have hc := flat_get_child sd ss i s h
  simp only [List.nil_append] at hc
  simp only [flat_get_root, List.nil_append, hc, hfi, Bool.false_eq_true, ↓reduceIte, pure, Except.pure,
    Except.bind]
  rw [refresh_fresh cfg _ rfl]
  simp only [hc, Node.value]
  unfold closeAmt
  by_cases hv : eqA s.value 0 = true
  · simp only [hv, Bool.not_true, Bool.false_eq_true, ↓reduceIte, doSec, doCash]
    rw [← flat_noop sd ss i s h]
  · have hv : eqA s.value 0 = false := by simpa using hv
    simp only [hv, Bool.not_false, ↓reduceIte, doSec, doCash, Bool.false_eq_true]
    exact opAllocate_flat_nice cfg sd ss i d s (-s.value) h hn hnow hcomm hatol htol

theorem opRebalance_flat_nice (cfg : Cfg K) (sd : StratData K) (ss : List (SecData K)) (i d : Nat)
    (s : SecData K) (wt V : K) (h : ss[i]? = some s) (hn : NiceSec cfg d s) (hnow : sd.now = some d)
    (hfi : sd.fixedIncome = false)
    (hcomm : ∀ q x, sd.comm q x = 0) (hatol : 0 ≤ cfg.atol) (htol : 0 < cfg.tol) :
    opRebalance cfg (flatW sd ss) [] wt i (some V) false =
      .ok (flatW (withCap sd (sd.capital - doCash cfg s (planAmt cfg V s (some wt))))
        (ss.set i (doSec cfg s (planAmt cfg V s (some wt))))) := by
  by_cases hz : isZero cfg.tol wt = true
  · rw [opRebalance_zero cfg _ _ _ _ _ _ hz]
    simp only [planAmt, hz, ↓reduceIte]
    exact opClose_flat_nice cfg sd ss i d s h hn hnow hfi hcomm hatol htol
  · have hz : isZero cfg.tol wt = false := by simpa using hz
    rw [opRebalance_unfold cfg (flatW sd ss) [] wt i V false sd (ss.map Node.sec) (.sec s) rfl hz
      (flat_get_root sd ss) (flat_get_child sd ss i s h)]
    simp only [hfi, Bool.false_eq_true, ↓reduceIte, planAmt, hz, doSec, doCash, Node.weight]
    exact opAllocate_flat_nice cfg sd ss i d s _ h hn hnow hcomm hatol htol


/-! ### bookkeeping over the list of children -/

/-- position × price × multiplier -/
def worth (s : SecData K) : K := s.position * px s * s.mult

def worthSum (ss : List (SecData K)) : K := (ss.map worth).sum

theorem worthSum_set : ∀ (ss : List (SecData K)) (i : Nat) (s s' : SecData K), ss[i]? = some s →
    worthSum (ss.set i s') = worthSum ss - worth s + worth s'
  | [], i, s, s', h => by simp at h
  | x :: xs, 0, s, s', h => by
    simp only [List.getElem?_cons_zero, Option.some.injEq] at h
    subst h
    simp only [worthSum, List.set_cons_zero, List.map_cons, List.sum_cons]; ring
  | x :: xs, i + 1, s, s', h => by
    simp only [List.getElem?_cons_succ] at h
    have ih := worthSum_set xs i s s' h
    simp only [worthSum, List.set_cons_succ, List.map_cons, List.sum_cons] at ih ⊢
    rw [ih]; ring

theorem worth_stepSec (cfg : Cfg K) (s : SecData K) (a : K) :
    worth (stepSec cfg s a) = worth s + stepCash cfg s a := by
  unfold stepSec stepCash
  cases niceQ cfg s (px s) a with
  | none => simp
  | some q =>
    simp only [worth, secTraded, px]; ring

theorem worth_doSec (cfg : Cfg K) (s : SecData K) (oa : Option K) :
    worth (doSec cfg s oa) = worth s + doCash cfg s oa := by
  cases oa with
  | none => simp [doSec, doCash]
  | some a => exact worth_stepSec cfg s a

/-- one child operation keeps `cash + Σ worth` -/
theorem step_conserves (cfg : Cfg K) (ss : List (SecData K)) (i : Nat) (s : SecData K) (oa : Option K) (c : K)
    (h : ss[i]? = some s) :
    (c - doCash cfg s oa) + worthSum (ss.set i (doSec cfg s oa)) = c + worthSum ss := by
  rw [worthSum_set ss i s _ h, worth_doSec]; ring

theorem closeNonTargets_step (cfg : Cfg K) (sd : StratData K) (ss : List (SecData K)) (i d : Nat)
    (tg rest : List Nat) (s : SecData K) (ht : tg.contains i = false)
    (h : ss[i]? = some s) (hn : NiceSec cfg d s) (hnow : sd.now = some d)
    (hfi : sd.fixedIncome = false)
    (hcomm : ∀ q x, sd.comm q x = 0) (hatol : 0 ≤ cfg.atol) (htol : 0 < cfg.tol) :
    closeNonTargets cfg [] tg (i :: rest) (flatW sd ss) =
      closeNonTargets cfg [] tg rest (flatW (withCap sd (sd.capital - doCash cfg s (closeAmt s)))
        (ss.set i (doSec cfg s (closeAmt s)))) := by
  rw [closeNonTargets]
  have hc := flat_get_child sd ss i s h
  simp only [List.nil_append] at hc
  simp only [ht, Bool.false_eq_true, ↓reduceIte]
  rw [refresh_fresh cfg _ rfl]
  simp only [Except.bind, flat_get_root, List.nil_append, hc, hfi, Bool.false_eq_true, ↓reduceIte, Node.value]
  by_cases hv : eqA s.value 0 = true
  · simp only [hv, Bool.not_true, Bool.false_eq_true, ↓reduceIte]
    have : closeAmt s = none := by unfold closeAmt; simp [hv]
    rw [this]
    simp only [doSec, doCash]
    rw [← flat_noop sd ss i s h]
  · have hv : eqA s.value 0 = false := by simpa using hv
    simp only [hv, Bool.not_false, ↓reduceIte]
    rw [opClose_flat_nice cfg sd ss i d s h hn hnow hfi hcomm hatol htol]

theorem rebalanceTargets_step (cfg : Cfg K) (sd : StratData K) (ss : List (SecData K)) (i d : Nat)
    (rest : List (Nat × K)) (s : SecData K) (wt V scale : K)
    (h : ss[i]? = some s) (hn : NiceSec cfg d s) (hnow : sd.now = some d)
    (hfi : sd.fixedIncome = false)
    (hcomm : ∀ q x, sd.comm q x = 0) (hatol : 0 ≤ cfg.atol) (htol : 0 < cfg.tol) :
    rebalanceTargets cfg [] V scale ((i, wt) :: rest) (flatW sd ss) =
      rebalanceTargets cfg [] V scale rest
        (flatW (withCap sd (sd.capital - doCash cfg s (planAmt cfg V s (some (wt * scale)))))
          (ss.set i (doSec cfg s (planAmt cfg V s (some (wt * scale)))))) := by
  rw [rebalanceTargets, opRebalance_flat_nice cfg sd ss i d s (wt * scale) V h hn hnow hfi hcomm hatol htol]
  rfl


theorem getElem?_set_of_ne {α : Type} (l : List α) (i j : Nat) (a : α) (h : i ≠ j) :
    (l.set i a)[j]? = l[j]? := List.getElem?_set_ne h

theorem getElem?_set_same {α : Type} (l : List α) (i : Nat) (a b : α) (h : l[i]? = some b) :
    (l.set i a)[i]? = some a := by
  apply List.getElem?_set_self
  rcases Nat.lt_or_ge i l.length with hl | hl
  · exact hl
  · rw [List.getElem?_eq_none hl] at h; cases h

/-- The closing loop of `Rebalance` on a flat strategy: every listed child that is not a target is closed,
    the others are untouched, and `cash + Σ worth` is kept. -/
theorem closeNonTargets_flat (cfg : Cfg K) (d : Nat) (tg : List Nat)
    (hatol : 0 ≤ cfg.atol) (htol : 0 < cfg.tol) :
    ∀ (L : List Nat) (sd : StratData K) (ss : List (SecData K)), sd.now = some d → sd.fixedIncome = false →
      (∀ q x, sd.comm q x = 0) → L.Nodup →
      (∀ i ∈ L, tg.contains i = false → ∃ s, ss[i]? = some s ∧ NiceSec cfg d s) →
      ∃ c' ss', closeNonTargets cfg [] tg L (flatW sd ss) = .ok (flatW (withCap sd c') ss') ∧
        ss'.length = ss.length ∧
        (∀ i, (i ∈ L ∧ tg.contains i = false) → ∀ s, ss[i]? = some s →
          ss'[i]? = some (doSec cfg s (closeAmt s))) ∧
        (∀ i, ¬(i ∈ L ∧ tg.contains i = false) → ss'[i]? = ss[i]?) ∧
        c' + worthSum ss' = sd.capital + worthSum ss := by
  intro L
  induction L with
  | nil =>
    intro sd ss _ _ _ _ _
    refine ⟨sd.capital, ss, ?_, rfl, ?_, fun _ _ => rfl, rfl⟩
    · rw [closeNonTargets, withCap_self]; rfl
    · intro i hi; simp at hi
  | cons i rest ih =>
    intro sd ss hnow hfi hcomm hnd hnice
    have hnd' : rest.Nodup := (List.nodup_cons.1 hnd).2
    have hi : i ∉ rest := (List.nodup_cons.1 hnd).1
    by_cases ht : tg.contains i = true
    · obtain ⟨c', ss', h1, h2, h3, h4, h5⟩ := ih sd ss hnow hfi hcomm hnd'
        (fun j hj => hnice j (List.mem_cons_of_mem _ hj))
      refine ⟨c', ss', ?_, h2, ?_, ?_, h5⟩
      · rw [closeNonTargets]; simp only [ht, ↓reduceIte]; exact h1
      · intro j hj s hs
        rcases List.mem_cons.1 hj.1 with rfl | hjr
        · rw [hj.2] at ht; cases ht
        · exact h3 j ⟨hjr, hj.2⟩ s hs
      · intro j hj
        exact h4 j (fun hh => hj ⟨List.mem_cons_of_mem _ hh.1, hh.2⟩)
    · have ht : tg.contains i = false := by simpa using ht
      obtain ⟨s, hs, hn⟩ := hnice i (List.mem_cons_self) ht
      rw [closeNonTargets_step cfg sd ss i d tg rest s ht hs hn hnow hfi hcomm hatol htol]
      obtain ⟨c', ss', h1, h2, h3, h4, h5⟩ := ih (withCap sd (sd.capital - doCash cfg s (closeAmt s)))
        (ss.set i (doSec cfg s (closeAmt s))) hnow hfi hcomm hnd' (by
          intro j hj htj
          have hne : i ≠ j := fun e => hi (e ▸ hj)
          rw [getElem?_set_of_ne _ _ _ _ hne]
          exact hnice j (List.mem_cons_of_mem _ hj) htj)
      refine ⟨c', ss', ?_, ?_, ?_, ?_, ?_⟩
      · rw [h1, withCap_withCap]
      · rw [h2, List.length_set]
      · intro j hj s' hs'
        rcases List.mem_cons.1 hj.1 with rfl | hjr
        · rw [h4 j (fun hh => hi hh.1), getElem?_set_same _ _ _ _ hs]
          rw [hs] at hs'; cases hs'; rfl
        · have hne : i ≠ j := fun e => hi (e ▸ hjr)
          exact h3 j ⟨hjr, hj.2⟩ s' (by rw [getElem?_set_of_ne _ _ _ _ hne]; exact hs')
      · intro j hj
        have hne : i ≠ j := fun e => hj ⟨e ▸ List.mem_cons_self, e ▸ ht⟩
        rw [h4 j (fun hh => hj ⟨List.mem_cons_of_mem _ hh.1, hh.2⟩), getElem?_set_of_ne _ _ _ _ hne]
      · rw [h5, withCap_capital, step_conserves cfg ss i s _ _ hs]

/-- The rebalancing loop of `Rebalance` on a flat strategy. -/
theorem rebalanceTargets_flat (cfg : Cfg K) (d : Nat) (V scale : K)
    (hatol : 0 ≤ cfg.atol) (htol : 0 < cfg.tol) :
    ∀ (T : List (Nat × K)) (sd : StratData K) (ss : List (SecData K)), sd.now = some d →
      sd.fixedIncome = false → (∀ q x, sd.comm q x = 0) → (T.map (·.1)).Nodup →
      (∀ i ∈ T.map (·.1), ∃ s, ss[i]? = some s ∧ NiceSec cfg d s) →
      ∃ c' ss', rebalanceTargets cfg [] V scale T (flatW sd ss) = .ok (flatW (withCap sd c') ss') ∧
        ss'.length = ss.length ∧
        (∀ i wt, (i, wt) ∈ T → ∀ s, ss[i]? = some s →
          ss'[i]? = some (doSec cfg s (planAmt cfg V s (some (wt * scale))))) ∧
        (∀ i, i ∉ T.map (·.1) → ss'[i]? = ss[i]?) ∧
        c' + worthSum ss' = sd.capital + worthSum ss := by
  intro T
  induction T with
  | nil =>
    intro sd ss _ _ _ _ _
    refine ⟨sd.capital, ss, ?_, rfl, ?_, fun _ _ => rfl, rfl⟩
    · rw [rebalanceTargets, withCap_self]; rfl
    · intro i wt hi; simp at hi
  | cons t rest ih =>
    obtain ⟨i, wt⟩ := t
    intro sd ss hnow hfi hcomm hnd hnice
    simp only [List.map_cons] at hnd hnice
    have hnd' : (rest.map (·.1)).Nodup := (List.nodup_cons.1 hnd).2
    have hi : i ∉ rest.map (·.1) := (List.nodup_cons.1 hnd).1
    obtain ⟨s, hs, hn⟩ := hnice i (List.mem_cons_self)
    rw [rebalanceTargets_step cfg sd ss i d rest s wt V scale hs hn hnow hfi hcomm hatol htol]
    obtain ⟨c', ss', h1, h2, h3, h4, h5⟩ :=
      ih (withCap sd (sd.capital - doCash cfg s (planAmt cfg V s (some (wt * scale)))))
        (ss.set i (doSec cfg s (planAmt cfg V s (some (wt * scale))))) hnow hfi hcomm hnd' (by
          intro j hj
          have hne : i ≠ j := fun e => hi (e ▸ hj)
          rw [getElem?_set_of_ne _ _ _ _ hne]
          exact hnice j (List.mem_cons_of_mem _ hj))
    refine ⟨c', ss', ?_, ?_, ?_, ?_, ?_⟩
    · rw [h1, withCap_withCap]
    · rw [h2, List.length_set]
    · intro j wj hj s' hs'
      rcases List.mem_cons.1 hj with e | hjr
      · simp only [Prod.mk.injEq] at e
        obtain ⟨rfl, rfl⟩ := e
        rw [h4 j hi, getElem?_set_same _ _ _ _ hs]
        rw [hs] at hs'; cases hs'; rfl
      · have hjm : j ∈ rest.map (·.1) := List.mem_map.2 ⟨(j, wj), hjr, rfl⟩
        have hne : i ≠ j := fun e => hi (e ▸ hjm)
        exact h3 j wj hjr s' (by rw [getElem?_set_of_ne _ _ _ _ hne]; exact hs')
    · intro j hj
      simp only [List.map_cons, List.mem_cons, not_or] at hj
      rw [h4 j hj.2, getElem?_set_of_ne _ _ _ _ (fun e => hj.1 e.symm)]
    · rw [h5, withCap_capital, step_conserves cfg ss i s _ _ hs]


/-! ### the closing `root.update(now)` on a flat strategy -/

/-- what the final update needs of a child: plain, on date `d`, priced; a skipped child is exactly flat; a
    child whose position did not move since its last update carries its marked value -/
structure UpdReady (d : Nat) (s : SecData K) : Prop where
  kind : s.kind = .plain
  now : s.now = some d
  price : s.price = some (px s)
  flat : s.needupdate = false → s.position = 0 ∧ s.value = 0
  val : s.lastPos = s.position → s.value = s.position * px s * s.mult

theorem NiceSec.ready {cfg : Cfg K} {d : Nat} {s : SecData K} (h : NiceSec cfg d s) : UpdReady d s :=
  ⟨h.kind, h.now, h.price, fun hh => ⟨h.flat hh, by rw [h.val, h.flat hh]; ring⟩, fun _ => h.val⟩

theorem secTraded_ready {cfg : Cfg K} {d : Nat} {s : SecData K} (h : NiceSec cfg d s) (q : K) :
    UpdReady d (secTraded cfg s (px s) q) := by
  refine ⟨h.kind, h.now, h.price, fun hh => (by cases hh), fun hl => ?_⟩
  have hq : q = 0 := by
    have : s.lastPos = s.position + q := hl
    rw [h.last] at this
    linarith
  subst hq
  show s.value = (s.position + 0) * px s * s.mult
  rw [h.val]; ring

theorem doSec_ready {cfg : Cfg K} {d : Nat} {s : SecData K} (h : NiceSec cfg d s) (oa : Option K) :
    UpdReady d (doSec cfg s oa) := by
  cases oa with
  | none => exact h.ready
  | some a =>
    simp only [doSec, stepSec]
    cases niceQ cfg s (px s) a with
    | none => exact h.ready
    | some q => exact secTraded_ready h q

/-- `update(d)` of a ready security succeeds, keeps position / price / multiplier and marks the value. -/
theorem secUpdate_ready (cfg : Cfg K) (d : Nat) (s : SecData K) (h : UpdReady d s) :
    ∃ t, secUpdate cfg d s = .ok t ∧ t.position = s.position ∧ px t = px s ∧ t.mult = s.mult ∧
      t.value = s.position * px s * s.mult := by
  by_cases he : secEarly d s = true
  · refine ⟨s, ?_, rfl, rfl, rfl, ?_⟩
    · unfold secUpdate secBaseUpdate
      simp only [he, ↓reduceIte, h.kind, pure, Except.pure, Except.bind]
    · apply h.val
      unfold secEarly at he
      simp only [Bool.and_eq_true] at he
      exact (Alloc.eqA_iff _ _).1 he.2
  · have he : secEarly d s = false := by simpa using he
    have hm : secMarkValue cfg (secRecordPos d s) = .ok (s.position * px s * s.mult) := by
      unfold secMarkValue
      have : (secRecordPos d s).price = some (px s) := h.price
      rw [this]; rfl
    have hu : secUpdate cfg d s = .ok (secRowBidoffer d (secFlushOutlay d (secQuiet cfg
        (secSetValue d (s.position * px s * s.mult) (secRecordPos d s))))) := by
      unfold secUpdate secBaseUpdate
      simp only [he, Bool.false_eq_true, ↓reduceIte, secDateChange_same d s h.now, hm, Except.map,
        Except.bind, h.kind, pure, Except.pure]
    obtain ⟨c1, c2, c3, _⟩ := secUpdate_core h.now hu
    refine ⟨_, hu, c1, congrArg (fun o => Option.getD o 0) c3, c2, ?_⟩
    rw [secRowBidoffer_value_L, secFlushOutlay_value_L, secQuiet_value_L]
    rfl


/-- what the update makes of a child -/
def Marked (s t : SecData K) : Prop :=
  t.position = s.position ∧ px t = px s ∧ t.mult = s.mult ∧ t.value = s.position * px s * s.mult

/-- the children loop of a same-date `update` over ready securities: succeeds, marks every child, and adds
    `Σ worth` to the value accumulator -/
theorem updKids_flat (cfg : Cfg K) (d : Nat) (bo : Bool) :
    ∀ (ss : List (SecData K)) (acc : Acc K), (∀ s ∈ ss, UpdReady d s) →
      ∃ (ss1 : List (SecData K)) (acc1 : Acc K),
        updKids cfg d false bo (ss.map Node.sec) acc = .ok (ss1.map Node.sec, acc1) ∧
        ss1.length = ss.length ∧
        (∀ (i : Nat) (s : SecData K), ss[i]? = some s → ∃ t, ss1[i]? = some t ∧ Marked s t) ∧
        acc1.val = acc.val + worthSum ss ∧ acc1.coupons = acc.coupons
  | [], acc, _ => by
    refine ⟨[], acc, ?_, rfl, ?_, ?_, rfl⟩
    · rw [List.map_nil, updKids]; rfl
    · intro i s h; simp at h
    · simp [worthSum]
  | s :: ss, acc, hr => by
    have hs : UpdReady d s := hr s List.mem_cons_self
    have hrest : ∀ x ∈ ss, UpdReady d x := fun x hx => hr x (List.mem_cons_of_mem _ hx)
    rw [List.map_cons, updKids]
    have hsw : sweepSec false s acc = (s, acc) := by unfold sweepSec; simp
    rw [hsw]
    dsimp only
    by_cases hnu : s.needupdate = true
    · obtain ⟨t, ht, hm⟩ := secUpdate_ready cfg d s hs
      obtain ⟨ss1, acc1, h1, h2, h3, h4, h5⟩ := updKids_flat cfg d bo ss (accAdd bo acc (.sec t)) hrest
      refine ⟨t :: ss1, acc1, ?_, by simp [h2], ?_, ?_, ?_⟩
      · simp only [hnu, Bool.not_true, Bool.false_eq_true, ↓reduceIte, ht, Except.bind, h1, Except.map,
          List.map_cons]
      · intro i x hx
        cases i with
        | zero =>
          simp only [List.getElem?_cons_zero, Option.some.injEq] at hx
          subst hx
          exact ⟨t, by simp, hm⟩
        | succ j =>
          simp only [List.getElem?_cons_succ] at hx ⊢
          exact h3 j x hx
      · rw [h4]
        simp only [accAdd, Node.value, worthSum, List.map_cons, List.sum_cons, worth]
        rw [hm.2.2.2]; ring
      · rw [h5]; rfl
    · have hnu : s.needupdate = false := by simpa using hnu
      obtain ⟨ss1, acc1, h1, h2, h3, h4, h5⟩ := updKids_flat cfg d bo ss acc hrest
      refine ⟨s :: ss1, acc1, ?_, by simp [h2], ?_, ?_, h5⟩
      · simp only [hnu, Bool.not_false, ↓reduceIte, h1, Except.map, List.map_cons]
      · intro i x hx
        cases i with
        | zero =>
          simp only [List.getElem?_cons_zero, Option.some.injEq] at hx
          subst hx
          refine ⟨s, by simp, rfl, rfl, rfl, ?_⟩
          rw [(hs.flat hnu).1, (hs.flat hnu).2]; ring
        | succ j =>
          simp only [List.getElem?_cons_succ] at hx ⊢
          exact h3 j x hx
      · rw [h4]
        simp only [worthSum, List.map_cons, List.sum_cons, worth]
        rw [(hs.flat hnu).1]; ring


theorem stratDateChange_same (d : Nat) (sd : StratData K) (h : sd.now = some d) :
    stratDateChange d sd = (sd, false) := by
  unfold stratDateChange
  rw [h]
  simp only [bne_self_eq_false, Bool.false_eq_true, ↓reduceIte, Prod.mk.injEq, and_true]
  rw [← h]

/-- the weight pass over security children -/
def weighSec (cfg : Cfg K) (fi : Bool) (val notl : K) (t : SecData K) : SecData K :=
  if t.needupdate then { t with weight := childWeight cfg fi val notl (.sec t) } else t

theorem kidsWeights_flat (cfg : Cfg K) (fi : Bool) (val notl : K) (ss : List (SecData K)) :
    kidsWeights cfg fi val notl (ss.map Node.sec) = (ss.map (weighSec cfg fi val notl)).map Node.sec := by
  unfold kidsWeights
  rw [List.map_map, List.map_map]
  apply List.map_congr_left
  intro t _
  simp only [Function.comp, Node.skipped, weighSec, Node.setWeight]
  by_cases hn : t.needupdate = true
  · simp [hn]
  · simp [hn]

theorem weighSec_marked (cfg : Cfg K) (fi : Bool) (val notl : K) (s t : SecData K) (h : Marked s t) :
    Marked s (weighSec cfg fi val notl t) := by
  unfold weighSec
  split
  · exact h
  · exact h

/-- The closing `root.update(now)` of a flat strategy whose children are ready, when the total is not
    negative (no bankruptcy step): every child is marked at `position·price·mult`, children that are not
    skipped get `value / total` as weight, cash is untouched and the strategy's value is the total. -/
theorem updRoot_flat (cfg : Cfg K) (d : Nat) (sd : StratData K) (ss : List (SecData K)) (w' : World K)
    (hnow : sd.now = some d) (hfi : sd.fixedIncome = false) (hr : ∀ s ∈ ss, UpdReady d s)
    (hpos : 0 ≤ sd.capital + worthSum ss)
    (h : updRoot cfg d (flatW sd ss) = .ok w') :
    ∃ (sdF : StratData K) (ssF : List (SecData K)), w' = flatW sdF ssF ∧ ssF.length = ss.length ∧
      sdF.capital = sd.capital ∧
      (sdF.value = sd.capital + worthSum ss ∨
        (sdF.value = sd.value ∧ isZero cfg.tol (sd.value - (sd.capital + worthSum ss)) = true)) ∧
      (∀ (i : Nat) (s : SecData K), ss[i]? = some s → ∃ t, ssF[i]? = some t ∧ Marked s t ∧
        (t.needupdate = true → t.weight =
          if isZero cfg.tol (sd.capital + worthSum ss) then 0 else t.value / (sd.capital + worthSum ss))) := by
  unfold updRoot at h
  simp only [flatW] at h
  rw [stratDateChange_same d sd hnow] at h
  obtain ⟨ss1, acc1, h1, h2, h3, h4, h5⟩ := updKids_flat cfg d sd.bidofferSet ss ⟨sd.capital, 0, 0, 0⟩ hr
  simp only [h1, Except.bind] at h
  simp only at h4 h5
  have hval : acc1.val + acc1.coupons = sd.capital + worthSum ss := by rw [h4, h5]; ring
  rw [hval] at h
  have hneg : decide (sd.capital + worthSum ss < 0) = false := by
    simp only [decide_eq_false_iff_not, not_lt]; exact hpos
  simp only [hneg, Bool.false_and, Bool.false_eq_true, ↓reduceIte] at h
  obtain ⟨sd3, hw, rfl⟩ := Except.map_ok h
  have hfi3 : sd3.fixedIncome = false := by
    rw [(stratWrite_base hw).2.2.2.2.1]; exact hfi
  rw [kidsWeights_flat, hfi3]
  refine ⟨stratRows d sd3, _, rfl, by simp [h2], ?_, ?_, ?_⟩
  · rw [(stratRows_rows d sd3).1, (stratWrite_ledger hw).1]
    show sd.capital + acc1.coupons = _
    rw [h5]; simp
  · rw [stratRows_value_L]
    rcases stratWrite_ok hw with ⟨hc, rfl⟩ | ⟨hc, _⟩
    · right
      refine ⟨rfl, ?_⟩
      unfold stratChanged at hc
      simp only [Bool.false_or, Bool.or_eq_false_iff, Bool.not_eq_eq_eq_not, Bool.not_false] at hc
      exact hc.1
    · left
      exact stratWrite_value hc hw
  · intro i s hs
    obtain ⟨t, ht, hm⟩ := h3 i s hs
    refine ⟨weighSec cfg false (sd.capital + worthSum ss) acc1.notl t, by simp [ht],
      weighSec_marked cfg _ _ _ s t hm, ?_⟩
    intro hnu
    unfold weighSec at hnu ⊢
    by_cases htn : t.needupdate = true
    · simp only [htn, ↓reduceIte, childWeight, Bool.false_eq_true, Node.value]
      cases isZero cfg.tol (sd.capital + worthSum ss) <;> simp
    · simp only [htn, Bool.false_eq_true, ↓reduceIte] at hnu


theorem Marked.worth {s t : SecData K} (h : Marked s t) : worth t = worth s := by
  obtain ⟨h1, h2, h3, _⟩ := h
  simp only [Rebal.worth, h1, h2, h3]

theorem Marked.value_eq {s t : SecData K} (h : Marked s t) : t.value = t.position * px t * t.mult := by
  obtain ⟨h1, h2, h3, h4⟩ := h
  rw [h4, h1, h2, h3]

theorem worthSum_congr : ∀ (ss1 ss2 : List (SecData K)), ss2.length = ss1.length →
    (∀ (i : Nat) (s : SecData K), ss1[i]? = some s → ∃ t, ss2[i]? = some t ∧ worth t = worth s) →
    worthSum ss2 = worthSum ss1
  | [], ss2, hl, _ => by
    have : ss2 = [] := List.eq_nil_of_length_eq_zero (by simpa using hl)
    rw [this]
  | s :: ss1, [], hl, _ => by simp at hl
  | s :: ss1, t :: ss2, hl, h => by
    obtain ⟨t', ht', hw⟩ := h 0 s (by simp)
    simp only [List.getElem?_cons_zero, Option.some.injEq] at ht'
    subst ht'
    have ih := worthSum_congr ss1 ss2 (by simpa using hl) (fun i x hx => by
      have := h (i + 1) x (by simpa using hx)
      simpa using this)
    simp only [worthSum, List.map_cons, List.sum_cons] at ih ⊢
    rw [ih, hw]

/-- the factor `Rebalance` applies to the target weights of a market-value strategy -/
def cashScale (cash : Option K) : K :=
  match cash with
  | some c => 1 - c
  | none => 1

/-- `Rebalance` on a flat market-value strategy with fractional, cost-free, up-to-date security children:
    the final world in terms of the per-child allocation (`planAmt`, `doSec`) and the conserved total. -/
theorem algoRebalance_flat (cfg : Cfg K) (d : Nat) (sd : StratData K) (ss : List (SecData K))
    (T : List (Nat × K)) (cash notional : Option K) (w' : World K)
    (hatol : 0 ≤ cfg.atol) (htol : 0 < cfg.tol)
    (hnow : sd.now = some d) (hfi : sd.fixedIncome = false) (hcomm : ∀ q x, sd.comm q x = 0)
    (hnice : ∀ s ∈ ss, NiceSec cfg d s) (hnd : (T.map (·.1)).Nodup)
    (hin : ∀ i ∈ T.map (·.1), i < ss.length)
    (hpos : 0 ≤ sd.capital + worthSum ss)
    (h : algoRebalance cfg (flatW sd ss) [] T cash notional = .ok w') :
    ∃ (sdF : StratData K) (ssF : List (SecData K)), w' = flatW sdF ssF ∧ ssF.length = ss.length ∧
      sdF.capital + worthSum ssF = sd.capital + worthSum ss ∧
      (sdF.value = sd.capital + worthSum ss ∨
        (sdF.value = sd.value ∧ isZero cfg.tol (sd.value - (sd.capital + worthSum ss)) = true)) ∧
      (∀ (i : Nat) (wt : K) (s : SecData K), (i, wt) ∈ T → ss[i]? = some s →
        ∃ t, ssF[i]? = some t ∧
          Marked (doSec cfg s (planAmt cfg sd.value s (some (wt * cashScale cash)))) t ∧
          (t.needupdate = true → t.weight =
            if isZero cfg.tol (sd.capital + worthSum ss) then 0 else t.value / (sd.capital + worthSum ss))) ∧
      (∀ (i : Nat) (s : SecData K), i ∉ T.map (·.1) → ss[i]? = some s →
        ∃ t, ssF[i]? = some t ∧ Marked (doSec cfg s (closeAmt s)) t ∧
          (t.needupdate = true → t.weight =
            if isZero cfg.tol (sd.capital + worthSum ss) then 0 else t.value / (sd.capital + worthSum ss))) := by
  have hniceI : ∀ i, i < ss.length → ∃ s, ss[i]? = some s ∧ NiceSec cfg d s := by
    intro i hi
    exact ⟨ss[i], List.getElem?_eq_getElem hi, hnice _ (List.getElem_mem hi)⟩
  unfold algoRebalance at h
  rw [flat_get_root] at h
  simp only [hfi, Bool.false_and, Bool.false_eq_true, ↓reduceIte] at h
  rw [refresh_fresh cfg _ rfl] at h
  obtain ⟨w1, hw1, h⟩ := Except.bind_ok h
  cases hw1
  rw [flat_get_root] at h
  simp only [hfi, Bool.false_eq_true, ↓reduceIte, List.length_map] at h
  -- closing loop
  obtain ⟨c2, ss2, e1, l2, p2, q2, k2⟩ := closeNonTargets_flat cfg d (T.map (·.1)) hatol htol
    (List.range ss.length) sd ss hnow hfi hcomm List.nodup_range
    (fun i hi _ => hniceI i (List.mem_range.1 hi))
  obtain ⟨w2, hw2, h⟩ := Except.bind_ok h
  rw [e1] at hw2
  cases hw2
  obtain ⟨w3, hw3, h⟩ := Except.bind_ok h
  change rebalanceTargets cfg [] sd.value (cashScale cash) T _ = _ at hw3
  -- rebalancing loop
  have hmem : ∀ i, i ∈ T.map (·.1) → ¬(i ∈ List.range ss.length ∧ (T.map (·.1)).contains i = false) := by
    intro i hi hh
    have : (T.map (·.1)).contains i = true := by simpa using hi
    rw [this] at hh; cases hh.2
  obtain ⟨c3, ss3, e2, l3, p3, q3, k3⟩ := rebalanceTargets_flat cfg d sd.value (cashScale cash) hatol htol
    T (withCap sd c2) ss2 hnow hfi hcomm hnd (by
      intro i hi
      rw [q2 i (hmem i hi)]
      exact hniceI i (hin i hi))
  rw [e2, withCap_withCap] at hw3
  cases hw3
  have hn3 : (flatW (withCap sd c3) ss3).root.now = some d := hnow
  rw [hn3] at h
  simp only at h
  -- pointwise description of the children before the closing update
  have tgt : ∀ (i : Nat) (wt : K) (s : SecData K), (i, wt) ∈ T → ss[i]? = some s →
      ss3[i]? = some (doSec cfg s (planAmt cfg sd.value s (some (wt * cashScale cash)))) := by
    intro i wt s hi hs
    have him : i ∈ T.map (·.1) := List.mem_map.2 ⟨(i, wt), hi, rfl⟩
    exact p3 i wt hi s (by rw [q2 i (hmem i him)]; exact hs)
  have ntg : ∀ (i : Nat) (s : SecData K), i ∉ T.map (·.1) → ss[i]? = some s →
      ss3[i]? = some (doSec cfg s (closeAmt s)) := by
    intro i s hi hs
    rw [q3 i hi]
    have hlt : i < ss.length := by
      rcases Nat.lt_or_ge i ss.length with hl | hl
      · exact hl
      · rw [List.getElem?_eq_none hl] at hs; cases hs
    exact p2 i ⟨List.mem_range.2 hlt, by simpa using hi⟩ s hs
  have hready : ∀ x ∈ ss3, UpdReady d x := by
    intro x hx
    obtain ⟨i, hi⟩ := List.mem_iff_getElem?.1 hx
    have hlt : i < ss.length := by
      rcases Nat.lt_or_ge i ss3.length with hl | hl
      · rw [l3, l2] at hl; exact hl
      · rw [List.getElem?_eq_none hl] at hi; cases hi
    obtain ⟨s, hs, hns⟩ := hniceI i hlt
    by_cases him : i ∈ T.map (·.1)
    · obtain ⟨⟨i', wt⟩, hmem', rfl⟩ := List.mem_map.1 him
      rw [tgt _ wt s hmem' hs] at hi
      cases hi
      exact doSec_ready hns _
    · rw [ntg i s him hs] at hi
      cases hi
      exact doSec_ready hns _
  have hcons : c3 + worthSum ss3 = sd.capital + worthSum ss := by
    rw [k3, withCap_capital, k2]
  obtain ⟨sdF, ssF, r1, r2, r3, r4, r5⟩ := updRoot_flat cfg d (withCap sd c3) ss3 w' hnow hfi hready
    (by rw [withCap_capital, hcons]; exact hpos) h
  rw [withCap_capital, hcons] at r4 r5
  rw [withCap_capital] at r3
  refine ⟨sdF, ssF, r1, by rw [r2, l3, l2], ?_, r4, ?_, ?_⟩
  · rw [r3, ← hcons]
    congr 1
    exact worthSum_congr ss3 ssF r2 (fun i s hs => by
      obtain ⟨t, ht, hm, _⟩ := r5 i s hs
      exact ⟨t, ht, hm.worth⟩)
  · intro i wt s hi hs
    exact r5 i _ (tgt i wt s hi hs)
  · intro i s hi hs
    exact r5 i _ (ntg i s hi hs)


/-! ### what the per-child allocation achieves -/

theorem isZero_zero (cfg : Cfg K) (htol : 0 < cfg.tol) : isZero cfg.tol (0 : K) = true := by
  rw [Alloc.isZero_iff, abs_zero]; exact htol

theorem stepCash_exact (cfg : Cfg K) (s : SecData K) (a : K) (hm : px s * s.mult ≠ 0)
    (h1 : isZero cfg.tol a = false) (h2 : isZero cfg.tol (a + s.value) = false)
    (h3 : isZero cfg.tol (a / (px s * s.mult)) = false) : stepCash cfg s a = a := by
  unfold stepCash niceQ
  simp only [h1, h2, h3, Bool.false_eq_true, ↓reduceIte]
  rw [mul_assoc, div_mul_cancel₀ _ hm]

theorem stepCash_zero (cfg : Cfg K) (s : SecData K) (htol : 0 < cfg.tol) : stepCash cfg s 0 = 0 := by
  unfold stepCash niceQ
  simp only [isZero_zero cfg htol, ↓reduceIte]

/-- the trade of `rebalance(wt, child, base = V)` is not swallowed by a tolerance: the weight is not
    negligible, and either the child already sits at its target or the amount, the target value and the
    quantity are all above `TOL` -/
def TargetExact (cfg : Cfg K) (V : K) (s : SecData K) (wt : K) : Prop :=
  isZero cfg.tol wt = false ∧
  (wt * V - s.value = 0 ∨
    (isZero cfg.tol (wt * V - s.value) = false ∧ isZero cfg.tol (wt * V) = false ∧
      isZero cfg.tol ((wt * V - s.value) / (px s * s.mult)) = false))

/-- A targeted child ends with worth `wt · V` exactly. -/
theorem target_worth (cfg : Cfg K) (d : Nat) (V : K) (s : SecData K) (wt : K) (hn : NiceSec cfg d s)
    (htol : 0 < cfg.tol) (hw : s.weight * V = s.value) (hx : TargetExact cfg V s wt) :
    worth (doSec cfg s (planAmt cfg V s (some wt))) = wt * V := by
  obtain ⟨hz, hc⟩ := hx
  have hamt : (wt - s.weight) * V = wt * V - s.value := by rw [sub_mul, hw]
  simp only [planAmt, hz, Bool.false_eq_true, ↓reduceIte, hamt]
  rw [worth_doSec]
  simp only [doCash]
  have hws : worth s = s.value := by unfold worth; rw [hn.val]
  rcases hc with h0 | ⟨h1, h2, h3⟩
  · rw [h0, stepCash_zero cfg s htol, hws]; linear_combination -h0
  · rw [stepCash_exact cfg s _ hn.mnz h1 (by rw [sub_add_cancel]; exact h2) h3, hws]; ring

/-- Closing a child: a position whose value and size are above `TOL` goes to exactly 0; otherwise nothing
    happens. -/
theorem close_spec (cfg : Cfg K) (s : SecData K) (htol : 0 < cfg.tol) :
    (isZero cfg.tol s.value = false → isZero cfg.tol s.position = false →
      (doSec cfg s (closeAmt s)).position = 0) ∧
    (isZero cfg.tol s.value = true ∨ isZero cfg.tol s.position = true → doSec cfg s (closeAmt s) = s) := by
  unfold closeAmt
  by_cases hv : eqA s.value 0 = true
  · have hv0 : s.value = 0 := (Alloc.eqA_iff _ _).1 hv
    simp only [hv, ↓reduceIte, doSec]
    refine ⟨fun h => ?_, fun _ => trivial⟩
    rw [hv0, isZero_zero cfg htol] at h; cases h
  · have hv : eqA s.value 0 = false := by simpa using hv
    simp only [hv, Bool.false_eq_true, ↓reduceIte, doSec, stepSec, niceQ, Alloc.isZero_neg, neg_add_cancel,
      isZero_zero cfg htol]
    constructor
    · intro h1 h2
      simp only [h1, h2, Bool.false_eq_true, ↓reduceIte, secTraded]
      ring
    · rintro (h | h)
      · simp only [h, ↓reduceIte]
      · by_cases h1 : isZero cfg.tol s.value = true
        · simp only [h1, ↓reduceIte]
        · simp only [h1, h, Bool.false_eq_true, ↓reduceIte]


/-- one `rebalance(wt, child i, base V, update=False)` followed by `root.update(now)` on a flat strategy -/
theorem opRebalance_updRoot_flat (cfg : Cfg K) (d : Nat) (sd : StratData K) (ss : List (SecData K))
    (i : Nat) (s : SecData K) (wt V : K) (w1 w2 : World K)
    (hatol : 0 ≤ cfg.atol) (htol : 0 < cfg.tol)
    (hnow : sd.now = some d) (hfi : sd.fixedIncome = false) (hcomm : ∀ q x, sd.comm q x = 0)
    (hnice : ∀ x ∈ ss, NiceSec cfg d x) (hs : ss[i]? = some s)
    (hpos : 0 ≤ sd.capital + worthSum ss)
    (h1 : opRebalance cfg (flatW sd ss) [] wt i (some V) false = .ok w1)
    (h2 : updRoot cfg d w1 = .ok w2) :
    ∃ (sdF : StratData K) (ssF : List (SecData K)), w2 = flatW sdF ssF ∧ ssF.length = ss.length ∧
      sdF.capital = sd.capital - doCash cfg s (planAmt cfg V s (some wt)) ∧
      sdF.capital + worthSum ssF = sd.capital + worthSum ss ∧
      (sdF.value = sd.capital + worthSum ss ∨
        (sdF.value = sd.value ∧ isZero cfg.tol (sd.value - (sd.capital + worthSum ss)) = true)) ∧
      (∃ t, ssF[i]? = some t ∧ Marked (doSec cfg s (planAmt cfg V s (some wt))) t ∧
          (t.needupdate = true → t.weight =
            if isZero cfg.tol (sd.capital + worthSum ss) then 0 else t.value / (sd.capital + worthSum ss))) ∧
      (∀ (j : Nat) (x : SecData K), j ≠ i → ss[j]? = some x →
        ∃ t, ssF[j]? = some t ∧ Marked x t ∧
          (t.needupdate = true → t.weight =
            if isZero cfg.tol (sd.capital + worthSum ss) then 0 else t.value / (sd.capital + worthSum ss))) := by
  have hns : NiceSec cfg d s := hnice s (List.mem_of_getElem? hs)
  rw [opRebalance_flat_nice cfg sd ss i d s wt V hs hns hnow hfi hcomm hatol htol] at h1
  cases h1
  have hcons := step_conserves cfg ss i s (planAmt cfg V s (some wt)) sd.capital hs
  have hready : ∀ x ∈ ss.set i (doSec cfg s (planAmt cfg V s (some wt))), UpdReady d x := by
    intro x hx
    rcases List.mem_or_eq_of_mem_set hx with hx | rfl
    · exact (hnice x hx).ready
    · exact doSec_ready hns _
  obtain ⟨sdF, ssF, r1, r2, r3, r4, r5⟩ := updRoot_flat cfg d
    (withCap sd (sd.capital - doCash cfg s (planAmt cfg V s (some wt)))) _ w2 hnow hfi hready
    (by rw [withCap_capital, hcons]; exact hpos) h2
  rw [withCap_capital, hcons] at r4 r5
  rw [withCap_capital] at r3
  refine ⟨sdF, ssF, r1, by rw [r2, List.length_set], r3, ?_, r4, ?_, ?_⟩
  · rw [r3, ← hcons]
    congr 1
    exact worthSum_congr _ ssF r2 (fun j x hx => by
      obtain ⟨t, ht, hm, _⟩ := r5 j x hx
      exact ⟨t, ht, hm.worth⟩)
  · exact r5 i _ (getElem?_set_same _ _ _ _ hs)
  · intro j x hj hx
    exact r5 j x (by rw [getElem?_set_of_ne _ _ _ _ (Ne.symm hj)]; exact hx)


/-! ### a sub-strategy spreads an allocation over its children -/

/-- every child of a strategy that is allocated `A` receives `allocate(A × its current weight)`, with the
    strategy's date and commission function (any children, any depth below) -/
theorem allocKids_pushes (cfg : Cfg K) (A : K) :
    ∀ (kids : List (Node K)) (sd sd2 : StratData K) (kids2 : List (Node K)),
      allocKids cfg A kids sd = .ok (sd2, kids2) →
      kids2.length = kids.length ∧
      ∀ (i : Nat) (k : Node K), kids[i]? = some k → ∃ k' adjs, kids2[i]? = some k' ∧
        allocNode cfg sd.now sd.comm (A * k.weight) k = .ok (k', adjs)
  | [], sd, sd2, kids2, h => by
    rw [allocKids] at h
    simp only [pure, Except.pure, Except.ok.injEq, Prod.mk.injEq] at h
    obtain ⟨_, rfl⟩ := h
    exact ⟨rfl, fun i k hk => by simp at hk⟩
  | k :: ks, sd, sd2, kids2, h => by
    rw [allocKids] at h
    obtain ⟨⟨k', adjs⟩, h1, h2⟩ := Except.bind_ok h
    obtain ⟨⟨sd'', ks'⟩, h3, h4⟩ := Except.map_ok h2
    simp only [Prod.mk.injEq] at h4
    obtain ⟨rfl, rfl⟩ := h4
    obtain ⟨hl, hp⟩ := allocKids_pushes cfg A ks _ _ _ h3
    rw [foldl_adjust_now, foldl_adjust_comm] at hp
    refine ⟨by simp [hl], ?_⟩
    intro i x hx
    cases i with
    | zero =>
      simp only [List.getElem?_cons_zero, Option.some.injEq] at hx
      subst hx
      exact ⟨k', adjs, by simp, h1⟩
    | succ j =>
      simp only [List.getElem?_cons_succ] at hx ⊢
      exact hp j x hx

/-- the children loop of `allocate` over fractional, cost-free, up-to-date securities -/
theorem allocKids_flat_nice (cfg : Cfg K) (d : Nat) (A : K) (hatol : 0 ≤ cfg.atol) (htol : 0 < cfg.tol) :
    ∀ (ss : List (SecData K)) (sd : StratData K), sd.now = some d → (∀ q x, sd.comm q x = 0) →
      (∀ s ∈ ss, NiceSec cfg d s) →
      allocKids cfg A (ss.map Node.sec) sd =
        .ok (withCap sd (sd.capital - (ss.map fun s => stepCash cfg s (A * s.weight)).sum),
             (ss.map fun s => stepSec cfg s (A * s.weight)).map Node.sec)
  | [], sd, _, _, _ => by
    rw [List.map_nil, allocKids]
    simp only [List.map_nil, List.sum_nil, sub_zero, withCap_self]; rfl
  | s :: ss, sd, hnow, hcomm, hnice => by
    have hs : NiceSec cfg d s := hnice s List.mem_cons_self
    obtain ⟨oa, h1, h2⟩ := secAllocate_nice cfg d sd.comm s (A * s.weight) hs hatol htol hcomm
    rw [← hnow] at h1
    rw [List.map_cons, allocKids, allocNode]
    simp only [Node.weight, h1, Except.map, Except.bind, (h2 sd).2]
    rw [allocKids_flat_nice cfg d A hatol htol ss (withCap sd (sd.capital - stepCash cfg s (A * s.weight)))
      hnow hcomm (fun x hx => hnice x (List.mem_cons_of_mem _ hx))]
    simp only [withCap_withCap, withCap_capital, List.map_cons, List.sum_cons, sub_sub]

/-- `allocate(a)` on this security is not swallowed by a tolerance: `a` is exactly 0, or `a`, the close-out
    test `a + value` and the quantity `a/(price·mult)` are all above `TOL` -/
def AllocExact (cfg : Cfg K) (s : SecData K) (a : K) : Prop :=
  a = 0 ∨ (isZero cfg.tol a = false ∧ isZero cfg.tol (a + s.value) = false ∧
    isZero cfg.tol (a / (px s * s.mult)) = false)

theorem stepCash_of_exact (cfg : Cfg K) (s : SecData K) (a : K) (htol : 0 < cfg.tol)
    (hm : px s * s.mult ≠ 0) (h : AllocExact cfg s a) : stepCash cfg s a = a := by
  rcases h with rfl | ⟨h1, h2, h3⟩
  · exact stepCash_zero cfg s htol
  · exact stepCash_exact cfg s a hm h1 h2 h3


/-! ### sums over the children split by target / non-target -/

theorem list_sum_set : ∀ (L : List K) (i : Nat) (a b : K), L[i]? = some a → (L.set i b).sum = L.sum - a + b
  | [], i, a, b, h => by simp at h
  | x :: xs, 0, a, b, h => by
    simp only [List.getElem?_cons_zero, Option.some.injEq] at h
    subst h
    simp only [List.set_cons_zero, List.sum_cons]; ring
  | x :: xs, i + 1, a, b, h => by
    simp only [List.getElem?_cons_succ] at h
    simp only [List.set_cons_succ, List.sum_cons, list_sum_set xs i a b h]; ring

/-- a list that carries `f wt` at every target index and 0 elsewhere sums to `Σ f wt` over the targets -/
theorem sum_by_targets (f : K → K) : ∀ (T : List (Nat × K)) (L : List K), (T.map (·.1)).Nodup →
    (∀ (i : Nat) (wt : K), (i, wt) ∈ T → L[i]? = some (f wt)) →
    (∀ (i : Nat), i < L.length → i ∉ T.map (·.1) → L[i]? = some 0) →
    L.sum = (T.map fun t => f t.2).sum
  | [], L, _, _, h0 => by
    simp only [List.map_nil, List.sum_nil]
    apply List.sum_eq_zero
    intro x hx
    obtain ⟨i, hi⟩ := List.mem_iff_getElem?.1 hx
    have hlt : i < L.length := by
      rcases Nat.lt_or_ge i L.length with hl | hl
      · exact hl
      · rw [List.getElem?_eq_none hl] at hi; cases hi
    rw [h0 i hlt (by simp)] at hi
    cases hi; rfl
  | (i, wt) :: rest, L, hnd, ht, h0 => by
    simp only [List.map_cons] at hnd
    have hi : i ∉ rest.map (·.1) := (List.nodup_cons.1 hnd).1
    have hLi : L[i]? = some (f wt) := ht i wt List.mem_cons_self
    have hlt : i < L.length := by
      rcases Nat.lt_or_ge i L.length with hl | hl
      · exact hl
      · rw [List.getElem?_eq_none hl] at hLi; cases hLi
    have ih := sum_by_targets f rest (L.set i 0) (List.nodup_cons.1 hnd).2
      (by
        intro j wj hj
        have hjm : j ∈ rest.map (·.1) := List.mem_map.2 ⟨(j, wj), hj, rfl⟩
        have hne : i ≠ j := fun e => hi (e ▸ hjm)
        rw [List.getElem?_set_ne hne]
        exact ht j wj (List.mem_cons_of_mem _ hj))
      (by
        intro j hj hjn
        rw [List.length_set] at hj
        by_cases hij : i = j
        · subst hij; rw [List.getElem?_set_self hlt]
        · rw [List.getElem?_set_ne hij]
          apply h0 j hj
          simp only [List.map_cons, List.mem_cons, not_or]
          exact ⟨fun e => hij e.symm, hjn⟩)
    rw [list_sum_set L i (f wt) 0 hLi] at ih
    simp only [List.map_cons, List.sum_cons]
    linear_combination ih

/-- The weights `RebalanceOverTime(n)` asks `Rebalance` for: with `n − i` days left and current weight `c`
    the next target is `c + (w − c)/(n − i)`; `rotSeq w c₀ n i` is the weight after `i` calls when every
    call reaches its target exactly. -/
def rotSeq (w c0 : K) (n : Nat) : Nat → K
  | 0 => c0
  | i + 1 => rotSeq w c0 n i + (w - rotSeq w c0 n i) / ((n : K) - (i : K))

end Bt.Rebal
