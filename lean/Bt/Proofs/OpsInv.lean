import Bt.Proofs.Root
/-! A predicate on securities that `update` and `transact` preserve is preserved, at every security of
    the tree, by every public operation of the engine (`SecInv` → `AllSecs I` is an invariant of the world). -/
namespace Bt
set_option linter.unusedSectionVars false
variable {K : Type} [Field K] [LinearOrder K] [IsStrictOrderedRing K] [HasFloor K]

/-- `I` is kept by the two things that ever happen to a security, and ignores parked cash and weight -/
structure SecInv (cfg : Cfg K) (I : SecData K → Prop) : Prop where
  update : ∀ d s s', I s → secUpdate cfg d s = .ok s' → I s'
  transact : ∀ comm s q custom s' a, I s → secTransactCore cfg comm s q custom = .ok (s', a) → I s'
  capital : ∀ s c, I s → I { s with capital := c }
  weight : ∀ s w, I s → I { s with weight := w }

section
variable {cfg : Cfg K} {I : SecData K → Prop}

theorem SecInv.keep_secRefresh (hI : SecInv cfg I) {pn : Option Nat} {s s' : SecData K} (hs : I s)
    (h : secRefresh cfg pn s = .ok s') : I s' := by
  unfold secRefresh at h
  split at h
  · cases pn with
    | none => cases h
    | some d => exact hI.update d s s' hs h
  · cases (Except.pure_eq_ok h); exact hs

theorem SecInv.keep_secAllocate (hI : SecInv cfg I) {pn : Option Nat} {comm : K → K → K} {s s' : SecData K} {amount : K}
    {a : Option (Adj K)} (hs : I s) (h : secAllocate cfg pn comm s amount = .ok (s', a)) : I s' := by
  unfold secAllocate at h
  obtain ⟨s1, h1, h⟩ := Except.bind_eq_ok h
  obtain ⟨oq, _, h⟩ := Except.bind_eq_ok h
  have hs1 := hI.keep_secRefresh hs h1
  cases oq with
  | none => cases (Except.pure_eq_ok h); exact hs1
  | some q => exact hI.transact _ _ _ _ _ _ hs1 h

theorem SecInv.keep_secTransact (hI : SecInv cfg I) {pn : Option Nat} {comm : K → K → K} {s s' : SecData K} {q : K}
    {upd : Bool} {custom : Option K} {a : Option (Adj K)} (hs : I s)
    (h : secTransact cfg pn comm s q upd custom = .ok (s', a)) : I s' := by
  unfold secTransact at h
  obtain ⟨s1, h1, h⟩ := Except.bind_eq_ok h
  have hs1 : I s1 := by
    cases upd
    · cases (Except.pure_eq_ok h1); exact hs
    · exact hI.keep_secRefresh hs h1
  exact hI.transact _ _ _ _ _ _ hs1 h

theorem SecInv.keep_sweep (hI : SecInv cfg I) (newpt : Bool) (s : SecData K) (acc : Acc K) (hs : I s) :
    I (sweepSec newpt s acc).1 := by
  rw [sweepSec_fst]; split
  · exact hI.capital s 0 hs
  · exact hs

theorem SecInv.keep_updNode (hI : SecInv cfg I) {d : Nat} :
    (∀ n n' : Node K, AllSecs I n → updNode cfg d n = .ok n' → AllSecs I n') ∧
    (∀ (ks : List (Node K)) newpt bo acc out, AllSecsKids I ks → updKids cfg d newpt bo ks acc = .ok out →
      AllSecsKids I out.1) := by
  have hr := updNode_treeRel (cfg := cfg) (d := d) (P := fun _ _ _ _ => True) (S := fun s s' => I s → I s')
    (fun _ _ _ _ _ => trivial) (fun _ _ _ _ _ _ => trivial)
    (fun newpt s acc s' h hs => hI.update d _ s' (hI.keep_sweep newpt s acc hs) h)
    (fun newpt s acc _ hs => hI.keep_sweep newpt s acc hs)
    (fun s s' w h hs => hI.weight s' w (h hs))
  have ht := TreeRel.transfer (P := fun _ _ _ _ => True) (S := fun s s' => I s → I s') (A := I) (B := I)
    (fun _ _ h ha => h ha)
  exact ⟨fun n n' ha h => ht.1 n n' (hr.1 n n' h) ha,
    fun ks newpt bo acc out ha h => ht.2 ks out.1 (hr.2 ks newpt bo acc out h) ha⟩

theorem SecInv.keep_allocNode (hI : SecInv cfg I) {pn : Option Nat} {comm : K → K → K} {amount : K} {n : Node K}
    {r : Node K × List (Adj K)} (ha : AllSecs I n) (h : allocNode cfg pn comm amount n = .ok r) :
    AllSecs I r.1 :=
  (allocNode_allSecs (A := I) (B := I) (fun _ _ _ _ _ _ hs h => hI.keep_secAllocate hs h)).1 n pn comm amount r ha h

theorem SecInv.keep_allocKids (hI : SecInv cfg I) {amount : K} {ks : List (Node K)} {sd : StratData K}
    {r : StratData K × List (Node K)} (ha : AllSecsKids I ks) (h : allocKids cfg amount ks sd = .ok r) :
    AllSecsKids I r.2 :=
  (allocNode_allSecs (A := I) (B := I) (fun _ _ _ _ _ _ hs h => hI.keep_secAllocate hs h)).2 ks amount sd r ha h

theorem SecInv.keep_transKids (hI : SecInv cfg I) {q : K} {ks : List (Node K)} {sd : StratData K}
    {r : StratData K × List (Node K)} (ha : AllSecsKids I ks) (h : transKids cfg q ks sd = .ok r) :
    AllSecsKids I r.2 :=
  (transNode_allSecs (A := I) (B := I) (fun _ _ _ _ _ _ _ hs h => hI.keep_secTransact hs h)).2 ks q sd r ha h

theorem SecInv.keep_flattenStrat (hI : SecInv cfg I) {sd : StratData K} {kids : List (Node K)}
    {r : StratData K × List (Node K)} (ha : AllSecsKids I kids) (h : flattenStrat cfg sd kids = .ok r) :
    AllSecsKids I r.2 :=
  flattenStrat_allSecs (A := I) (B := I) (fun _ h => h) (fun _ _ _ _ _ _ hs h => hI.keep_secAllocate hs h)
    (fun _ _ _ _ _ _ _ hs h => hI.keep_secTransact hs h) ha h

/-- `World.modify` -/
theorem modify_allSecs {f : Option (StratData K) → Node K → Except Err (OpRes K)}
    (hf : ∀ par n r, AllSecs I n → f par n = .ok r → AllSecs I r.1) {w w' : World K} {path : List Nat}
    (ha : AllSecs I w.root) (h : w.modify path f = .ok w') : AllSecs I w'.root := by
  unfold World.modify at h
  obtain ⟨⟨r, adjs, st⟩, h1, rfl⟩ := Except.map_eq_ok h
  exact modAt_allSecs (A := I) (B := I) (fun _ h => h) hf path none w.root _ ha h1

theorem SecInv.keep_refreshNB (hI : SecInv cfg I) {w w' : World K} (ha : AllSecs I w.root)
    (h : refreshNB cfg w = .ok w') : AllSecs I w'.root := by
  unfold refreshNB at h
  split at h
  · obtain ⟨n, hn, rfl⟩ := Except.map_eq_ok h
    exact hI.keep_updNode.1 _ _ ha hn
  · cases h

theorem SecInv.keep_flattenAt (hI : SecInv cfg I) {rf : World K → Except Err (World K)}
    (hrf : ∀ w w', AllSecs I w.root → rf w = .ok w' → AllSecs I w'.root) :
    (∀ (n : Node K) path w w', AllSecs I w.root → flattenAt cfg rf n path w = .ok w' → AllSecs I w'.root) ∧
    (∀ (ks : List (Node K)) path i w w', AllSecs I w.root → flattenSubs cfg rf ks path i w = .ok w' →
      AllSecs I w'.root) := by
  apply Node.induct
  · intro s path w w' _ h
    rw [flattenAt] at h; cases h
  · intro sd kids ih path w w' ha h
    rw [flattenAt] at h
    obtain ⟨w1, h1, h⟩ := Except.bind_eq_ok h
    have ha1 := ih path 0 w w1 ha h1
    split at h
    · obtain ⟨w2, h2, h⟩ := Except.bind_eq_ok h
      have ha2 : AllSecs I w2.root := by
        split at h2
        · exact hrf _ _ ha1 h2
        · cases (Except.pure_eq_ok h2); exact ha1
      refine modify_allSecs ?_ ha2 h
      intro par n r han hn
      cases n with
      | sec s => cases hn
      | strat sd2 ks2 =>
        obtain ⟨⟨sd', ks'⟩, hfl, rfl⟩ := Except.map_eq_ok hn
        simp only [AllSecs_strat] at *
        exact hI.keep_flattenStrat han hfl
    · cases h
  · intro path i w w' ha h
    rw [flattenSubs] at h
    cases (Except.pure_eq_ok h); exact ha
  · intro k ks ihk ihks path i w w' ha h
    cases k with
    | sec s => rw [flattenSubs] at h; exact ihks _ _ _ _ ha h
    | strat sdk kk =>
      rw [flattenSubs] at h
      obtain ⟨w1, h1, h⟩ := Except.bind_eq_ok h
      exact ihks _ _ _ _ (ihk _ _ _ ha h1) h

theorem SecInv.keep_updRoot (hI : SecInv cfg I) {d : Nat} {w w' : World K} (ha : AllSecs I w.root)
    (h : updRoot cfg d w = .ok w') : AllSecs I w'.root := by
  obtain ⟨_, n0, hn, h0⟩ := updRoot_inv h
  rcases h0 with rfl | ⟨sd, kids, kids1, acc, wF, hroot, hk, _, _, _, _, hF, rfl⟩
  · exact hI.keep_updNode.1 _ _ ha hn
  · refine hI.keep_updNode.1 _ _ ?_ hn
    refine (hI.keep_flattenAt (rf := refreshNB cfg) (fun _ _ ha h => hI.keep_refreshNB ha h)).1 _ _ _ _ ?_ hF
    rw [hroot] at ha
    simp only [AllSecs_strat] at *
    exact hI.keep_updNode.2 _ _ _ _ _ ha hk

theorem SecInv.keep_refresh (hI : SecInv cfg I) {w w' : World K} (ha : AllSecs I w.root)
    (h : refresh cfg w = .ok w') : AllSecs I w'.root := by
  rcases refresh_inv h with ⟨_, rfl⟩ | ⟨_, d, _, hu⟩
  · exact ha
  · exact hI.keep_updRoot ha hu

theorem SecInv.keep_opAdjust (_hI : SecInv cfg I) {w w' : World K} {path : List Nat} {amount : K} {update flow : Bool}
    (ha : AllSecs I w.root) (h : opAdjust w path amount update flow = .ok w') : AllSecs I w'.root := by
  unfold opAdjust at h
  refine modify_allSecs ?_ ha h
  intro par n r han hn
  cases n with
  | sec s => cases hn
  | strat sd kids => cases (Except.pure_eq_ok hn); simpa using han

theorem SecInv.keep_opAllocate (hI : SecInv cfg I) {w w' : World K} {path : List Nat} {amount : K} {update : Bool}
    (ha : AllSecs I w.root) (h : opAllocate cfg w path amount update = .ok w') : AllSecs I w'.root := by
  unfold opAllocate at h
  refine modify_allSecs ?_ ha h
  intro par n r han hn
  cases par with
  | none =>
    cases n with
    | sec s => cases hn
    | strat sd kids =>
      obtain ⟨⟨sd2, kids2⟩, hk, rfl⟩ := Except.map_eq_ok hn
      simp only [AllSecs_strat] at *
      exact hI.keep_allocKids han hk
  | some p =>
    cases n with
    | sec s =>
      obtain ⟨⟨s', a⟩, hk, rfl⟩ := Except.map_eq_ok hn
      simp only [AllSecs_sec] at *
      exact hI.keep_secAllocate han hk
    | strat sd kids =>
      obtain ⟨⟨n', adjs⟩, hk, rfl⟩ := Except.map_eq_ok hn
      exact hI.keep_allocNode han hk

theorem SecInv.keep_opTransact (hI : SecInv cfg I) {w w' : World K} {path : List Nat} {q : K} {update : Bool}
    {custom : Option K} (ha : AllSecs I w.root) (h : opTransact cfg w path q update custom = .ok w') :
    AllSecs I w'.root := by
  unfold opTransact at h
  refine modify_allSecs ?_ ha h
  intro par n r han hn
  cases n with
  | sec s =>
    cases par with
    | none => cases hn
    | some p =>
      obtain ⟨⟨s', a⟩, hk, rfl⟩ := Except.map_eq_ok hn
      simp only [AllSecs_sec] at *
      exact hI.keep_secTransact han hk
  | strat sd kids =>
    have hn' : (transKids cfg q kids sd).map (fun x : StratData K × List (Node K) =>
        ((Node.strat x.1 x.2, [], update) : OpRes K)) = .ok r := by
      cases par <;> exact hn
    obtain ⟨⟨sd2, kids2⟩, hk, rfl⟩ := Except.map_eq_ok hn'
    simp only [AllSecs_strat] at *
    exact hI.keep_transKids han hk

theorem SecInv.keep_opFlatten (hI : SecInv cfg I) {w w' : World K} {path : List Nat}
    (ha : AllSecs I w.root) (h : opFlatten cfg w path = .ok w') : AllSecs I w'.root := by
  unfold opFlatten at h
  split at h
  · exact (hI.keep_flattenAt (rf := refresh cfg) (fun _ _ ha h => hI.keep_refresh ha h)).1 _ _ _ _ ha h
  · cases h

theorem SecInv.keep_opClose (hI : SecInv cfg I) {w w' : World K} {path : List Nat} {child : Nat} {update : Bool}
    (ha : AllSecs I w.root) (h : opClose cfg w path child update = .ok w') : AllSecs I w'.root := by
  unfold opClose at h
  split at h
  · rename_i sd _ c _ _
    obtain ⟨w1, h1, h⟩ := Except.bind_eq_ok h
    have ha1 : AllSecs I w1.root := by
      split at h1
      · split at h1
        · exact hI.keep_opFlatten ha h1
        · cases (Except.pure_eq_ok h1); exact ha
      · simp only [Bool.false_eq_true, ↓reduceIte] at h1
        cases (Except.pure_eq_ok h1); exact ha
    split at h
    · split at h
      · cases h
      · split at h
        · split at h
          · exact hI.keep_opTransact ha1 h
          · cases (Except.pure_eq_ok h); exact ha1
        · cases h
    · obtain ⟨w2, h2, h⟩ := Except.bind_eq_ok h
      have ha2 := hI.keep_refresh ha1 h2
      split at h
      · split at h
        · exact hI.keep_opAllocate ha2 h
        · cases (Except.pure_eq_ok h); exact ha2
      · cases h
  · cases h

theorem SecInv.keep_opRebalance (hI : SecInv cfg I) {w w' : World K} {path : List Nat} {weight : K} {child : Nat}
    {base : Option K} {update : Bool} (ha : AllSecs I w.root)
    (h : opRebalance cfg w path weight child base update = .ok w') : AllSecs I w'.root := by
  unfold opRebalance at h
  split at h
  · exact hI.keep_opClose ha h
  · obtain ⟨w1, h1, h⟩ := Except.bind_eq_ok h
    have ha1 : AllSecs I w1.root := by
      split at h1
      · exact hI.keep_refresh ha h1
      · cases (Except.pure_eq_ok h1); exact ha
    obtain ⟨w2, h2, h⟩ := Except.bind_eq_ok h
    have ha2 := hI.keep_refresh ha1 h2
    split at h
    · simp only at h
      split at h
      · split at h
        · exact hI.keep_opTransact ha2 h
        · exact hI.keep_opAllocate ha2 h
      · exact hI.keep_opAllocate ha2 h
    · cases h

end
end Bt
